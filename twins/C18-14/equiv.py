import os, sys; sys.path.insert(0, os.getcwd())

# Exercises validate_property_class and the `description` / `legend` setters of BaseStyle
# (string shortcut), directly, through style construction/update and through copy().
import re

import numpy as np

import magpylib as magpy
from magpylib._src.defaults.defaults_utility import validate_property_class
from magpylib._src.style import (
    BaseStyle,
    Description,
    Legend,
    Line,
    MagnetStyle,
    Marker,
    Path,
    SensorStyle,
)


def clean(txt):
    return re.sub(r"id=\d+", "id=#", re.sub(r" at 0x[0-9a-f]+", " at 0x#", str(txt)))


def attempt(name, func):
    try:
        res = func()
        print(name, "ok", clean(repr(res)))
        return res
    except BaseException as err:  # pylint: disable=broad-except
        print(name, "ERR", type(err).__name__, clean(err).replace("\n", " | ")[:300])
        return None


class MyDict(dict):
    pass


class MyStr(str):
    pass


class MyLine(Line):
    pass


class Parent:
    pass


LOG = []


class Odd:
    """class whose construction does not give an instance of itself"""

    def __new__(cls, **kwargs):
        LOG.append(f"Odd.__new__ {kwargs}")
        return 42


class Counting:
    def __init__(self, **kwargs):
        LOG.append(f"Counting.__init__ {kwargs}")
        if "fail" in kwargs:
            raise RuntimeError("cannot build")
        self.kwargs = kwargs

    def __repr__(self):
        return f"Counting({self.kwargs})"


line = Line(width=2)
values = [
    ("None", None),
    ("empty dict", {}),
    ("dict", {"width": 3, "color": "r"}),
    ("magic dict", {"wid_th": 3}),
    ("dict subclass", MyDict(style="dashed")),
    ("bad key dict", {"widht": 3}),
    ("bad value dict", {"width": -1}),
    ("instance", line),
    ("subclass instance", MyLine(width=1)),
    ("other class instance", Marker()),
    ("str", "solid"),
    ("int", 3),
    ("list", [{"width": 1}]),
    ("tuple", ()),
    ("False", False),
    ("class itself", Line),
]
for name, val in values:
    res = attempt(f"vpc Line {name}", lambda: validate_property_class(val, "line", Line, Parent()))
    print("   same object", res is val)
for cls in (Odd, Counting):
    for name, val in [("None", None), ("dict", {"a": 1}), ("fail dict", {"fail": 1}), ("int", 42), ("instance-ish", cls() if cls is Counting else 42)]:
        del LOG[:]
        attempt(f"vpc {cls.__name__} {name}", lambda: validate_property_class(val, "thing", cls, None))
        print("   log", LOG)

# description / legend setters -----------------------------------------------------
desc = Description(text="own", show=False)
leg = Legend(text="own legend", show=True)
inputs = [
    ("str", "hello"),
    ("empty str", ""),
    ("str subclass", MyStr("sub")),
    ("None", None),
    ("dict", {"text": "t", "show": True}),
    ("empty dict", {}),
    ("bad dict", {"txt": "t"}),
    ("bad value dict", {"text": 5}),
    ("Description instance", desc),
    ("Legend instance", leg),
    ("int", 5),
    ("bytes", b"abc"),
    ("list", ["a"]),
    ("bool", True),
]
for prop in ("description", "legend"):
    for name, val in inputs:
        st = BaseStyle(description="before", legend="before")
        attempt(f"set {prop} {name}", lambda: setattr(st, prop, val))
        cur = getattr(st, prop)
        print("   now", cur, "same object", cur is val, "other", st.legend if prop == "description" else st.description)
    for cls in (MagnetStyle, SensorStyle):
        st = cls()
        attempt(f"{cls.__name__} set {prop} str", lambda: setattr(st, prop, "x"))
        print("   now", getattr(st, prop))

# construction and update ------------------------------------------------------------
for kw in [
    {"description": "d", "legend": "l"},
    {"description_text": "d", "legend_show": False},
    {"description": {"show": False}, "legend": None},
    {"description": 3},
    {"legend": 3.5},
    {"description": desc, "legend": leg},
    {"path": {"line": line}},
    {"path": Path(), "model3d": None},
    {"path": "solid"},
    {"model3d": 4},
]:
    st = attempt(f"BaseStyle({clean(kw)})", lambda: BaseStyle(**kw))
    if st is not None and isinstance(kw.get("description"), Description):
        print("   shared", st.description is desc, st.legend is leg)
st = BaseStyle()
for kw in [
    {"description": "upd"},
    {"legend": "upd"},
    {"description_text": "upd2", "legend_text": "upd3"},
    {"description": None},
    {"description": 1},
    {"legend": ["x"]},
    {"path_line": None},
    {"path_line": 7},
]:
    attempt(f"update({kw})", lambda: st.update(**kw).as_dict(flatten=True, separator="_"))

# objects and copies -------------------------------------------------------------------
src = magpy.magnet.Sphere(polarization=(0, 0, 1), diameter=1, style_description="desc", style_legend="leg")
par = magpy.Collection(src, style_description="coll desc")
print("src", src.style.description, src.style.legend, par.style.description)
for name, kw in [
    ("plain", {}),
    ("description str", {"style_description": "other"}),
    ("legend str", {"style_legend": "other"}),
    ("description dict", {"style_description": {"show": False}}),
    ("legend magic", {"style_legend_text": "magic", "style_description_show": True}),
    ("style dict", {"style": {"description": "in dict", "legend": {"show": False}}}),
    ("description int", {"style_description": 1}),
    ("legend list", {"style_legend": []}),
    ("description instance", {"style_description": desc}),
    ("path bad", {"style_path": 3}),
]:
    cp = attempt(f"copy {name}", lambda: src.copy(**kw))
    if cp is not None:
        print("   copy", cp.style.label, cp.style.description, cp.style.legend, cp.parent, cp.style.description is desc)
        cp.style.description = "changed in copy"
        cp.style.legend.text = "changed in copy"
    print("   orig", src.style.label, src.style.description, src.style.legend, src.parent is par, desc)
cc = par.copy(style_legend="cc")
print("coll copy", cc.style.description, cc.style.legend, cc[0].style.description, cc[0].style.description is src.style.description)
src.style.description = "changed in orig"
print("after", cc[0].style.description, src.style.description)
lazy = magpy.Sensor(style_description=5)
attempt("lazy bad description", lambda: lazy.style)
attempt("lazy bad description copy", lazy.copy)
print("B", np.round(cc.getB((1, 2, 3)), 10).tolist(), np.round(par.getB((1, 2, 3)), 10).tolist())
magpy.defaults.reset()
attempt("defaults display", lambda: setattr(magpy.defaults, "display", 3))
attempt("defaults style base", lambda: setattr(magpy.defaults.display.style, "base", {"description": "dflt"}))
print(magpy.defaults.display.style.base.description)
magpy.defaults.reset()
