import os, sys; sys.path.insert(0, os.getcwd())
import hashlib
import re
import warnings

import numpy as np
from scipy.spatial.transform import Rotation as R

import magpylib as magpy
from magpylib._src.fields.field_wrap_BH import get_src_dict
from magpylib._src.fields.field_wrap_BH import tile_group_property

warnings.simplefilter("ignore")


def dig(name, val):
    """print a deterministic digest of an array / Rotation / dict / exception"""
    if isinstance(val, BaseException):
        msg = re.sub(r"id=\d+|0x[0-9a-f]+", "#", str(val))
        print(f"{name}: EXC {type(val).__name__}: {msg[:110]!r}")
    elif isinstance(val, dict):
        print(f"{name}: dict keys={list(val)}")
        for k, v in val.items():
            dig(f"  {name}[{k}]", v)
    elif isinstance(val, R):
        dig(name + " (quat)", val.as_quat())
    else:
        a = np.asarray(val)
        if a.dtype == object:
            flat = [np.asarray(x, dtype=float) for x in a]
            h = hashlib.sha256(
                b"|".join(np.ascontiguousarray(x).tobytes() for x in flat)
            ).hexdigest()[:16]
            print(
                f"{name}: OBJECT shape={a.shape} inner={[x.shape for x in flat]} sha={h}"
            )
        else:
            h = hashlib.sha256(
                np.ascontiguousarray(a.astype(float)).tobytes()
            ).hexdigest()[:16]
            print(
                f"{name}: dtype={a.dtype} shape={a.shape} sha={h} sum={np.sum(a):.12e}"
            )


def run(name, func):
    try:
        dig(name, func())
    except Exception as err:  # pylint: disable=broad-except
        dig(name, err)


poso = np.array(
    [[0.1, 0.2, 0.3], [1.0, -1.0, 0.5], [0.0, 0.0, 2.0], [0.3, 0.3, 0.3]]
)  # path 2 x pix 2
n_pp, n_pix = 4, 2


def cuboids():
    c1 = magpy.magnet.Cuboid(
        polarization=(0.1, 0.2, 0.3),
        dimension=(1, 2, 3),
        position=[(0, 0, 0), (1, 1, 1)],
    )
    c1.rotate_from_angax([10, 20], "y", start=0)
    c2 = magpy.magnet.Cuboid(
        polarization=(0.3, 0.2, 0.1),
        dimension=(3, 2, 1),
        position=[(0, 0, 1), (1, 0, 1)],
    )
    c2.rotate_from_rotvec((10, 20, 30))
    return [c1, c2]


def circles():
    return [
        magpy.current.Circle(current=i + 1, diameter=1.5 + i, position=[(0, 0, i)] * 2)
        for i in range(3)
    ]


def polylines(ragged):
    v1 = [(0, 0, 0), (1, 0, 0), (1, 1, 0)]
    v2 = [(0, 0, 0), (1, 0, 0), (1, 1, 0), (2, 2, 2)] if ragged else v1[::-1]
    return [
        magpy.current.Polyline(current=1, vertices=v1, position=[(0, 0, 0)] * 2),
        magpy.current.Polyline(current=2, vertices=v2, position=[(0, 0, 1)] * 2),
    ]


run("srcdict cuboids", lambda: get_src_dict(cuboids(), n_pix, n_pp, poso))
run("srcdict circles", lambda: get_src_dict(circles(), n_pix, n_pp, poso))
run("srcdict polylines", lambda: get_src_dict(polylines(False), n_pix, n_pp, poso))
run("srcdict polylines ragged", lambda: get_src_dict(polylines(True), n_pix, n_pp, poso))
cs = magpy.misc.CustomSource(field_func=lambda field, observers: observers)
run("srcdict custom", lambda: get_src_dict([cs], 4, 4, poso))
run("srcdict single cuboid", lambda: get_src_dict(cuboids()[:1], n_pix, n_pp, poso))

# tile_group_property directly
run("tgp dimension", lambda: tile_group_property(cuboids(), 3, "dimension"))
run("tgp current", lambda: tile_group_property(circles(), 2, "current"))
run("tgp vertices same", lambda: tile_group_property(polylines(False), 2, "vertices"))
run("tgp vertices ragged", lambda: tile_group_property(polylines(True), 2, "vertices"))
# error paths
run("tgp missing attr", lambda: tile_group_property(cuboids(), 2, "nonexistent"))
run(
    "tgp None attr",
    lambda: tile_group_property(
        [magpy.magnet.Cuboid(dimension=(1, 1, 1)), cuboids()[0]], 2, "polarization"
    ),
)
run(
    "tgp mixed scalar/array",
    lambda: tile_group_property(
        [magpy.Sensor(pixel=(1, 2, 3)), magpy.Sensor()], 2, "pixel"
    ),
)
run("srcdict empty group", lambda: get_src_dict([], n_pix, n_pp, poso))
run("srcdict no ndim attr", lambda: get_src_dict([magpy.Sensor()], 4, 4, poso))
run("srcdict bad path lengths", lambda: get_src_dict(
    [cuboids()[0], magpy.magnet.Cuboid(polarization=(1, 2, 3), dimension=(1, 1, 1))],
    n_pix, n_pp, poso))

# through the user interface: groups with several members, paths, pixels, ragged
sens = magpy.Sensor(pixel=[(0, 0, 0), (0.1, 0.2, 0.3)], position=(2, 2, 2))
sens.rotate_from_angax([33, 44, 55], (1, 2, 3), start=0)
mesh1 = magpy.magnet.TriangularMesh.from_ConvexHull(
    polarization=(0.1, 0.2, 0.3),
    points=[(0, 0, 0), (1, 0, 0), (0, 1, 0), (0, 0, 1)],
)
mesh2 = magpy.magnet.TriangularMesh.from_ConvexHull(
    polarization=(0.1, 0.2, 0.3),
    points=[(0, 0, 0), (1, 0, 0), (0, 1, 0), (0, 0, 1), (1, 1, 1)],
    position=(3, 3, 3),
)
allsrc = cuboids() + circles() + polylines(True) + [mesh1, mesh2]
for fld in ("getB", "getH"):
    run(f"obj {fld}", lambda fld=fld: getattr(magpy, fld)(allsrc, sens))
run("obj coll sumup", lambda: magpy.getB(magpy.Collection(*cuboids()), [sens, (0, 0, 0)], sumup=True, pixel_agg="mean"))
