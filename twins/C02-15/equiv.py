import os, sys; sys.path.insert(0, os.getcwd())
import hashlib
import re
import warnings

import numpy as np
from scipy.spatial.transform import Rotation as R

import magpylib as magpy
from magpylib._src.fields.field_wrap_BH import getBH_dict_level2


def digest(name, arr):
    if arr is None:
        print(name, None)
        return
    arr = np.asarray(arr)
    h = hashlib.sha256(np.ascontiguousarray(arr).tobytes()).hexdigest()[:16]
    print(name, arr.shape, arr.dtype, h, np.array2string(arr, precision=17, threshold=30).replace("\n", ""))


def scrub(msg):
    msg = re.sub(r" at 0x[0-9a-f]+", " at 0x#", str(msg))
    return re.sub(r"id=\d+", "id=#", msg).replace("\n", " | ")


def attempt(label, fn):
    with warnings.catch_warnings(record=True) as rec:
        warnings.simplefilter("always")
        try:
            res = fn()
        except Exception as e:  # noqa: BLE001
            cause = type(e.__cause__).__name__ if e.__cause__ is not None else None
            print(label, "EXC", type(e).__name__, scrub(e), "| cause:", cause)
            res = None
        else:
            digest(label, res)
    for w in rec:
        print("   WARN", w.category.__name__, os.path.basename(w.filename), scrub(w.message)[:100])
    return res


obs3 = [(0.1, 0.1, 0.1), (3, 3, 3), (0.2, 0.1, 0.05)]
tet_v = [(0, 0, 0), (1, 0, 0), (0, 1, 0), (0, 0, 1)]
tri_v = [(0, 0, 0), (1, 0, 0), (0, 1, 0)]
mesh = [[(0, 0, 0), (0, 1, 0), (1, 0, 0)], [(0, 0, 0), (1, 0, 0), (0, 0, 1)], [(0, 0, 0), (0, 0, 1), (0, 1, 0)], [(1, 0, 0), (0, 1, 0), (0, 0, 1)]]
rot3 = R.from_rotvec([(0, 0, 0.3), (0.1, 0.2, 0.3), (1, 0, 0)])

cases = {
    "Cuboid scalar tiled": ("Cuboid", obs3, dict(dimension=(1, 2, 3), polarization=(0.1, 0.2, 0.3))),
    "Cuboid vector": ("Cuboid", obs3, dict(dimension=[(1, 2, 3), (1, 1, 1), (2, 2, 2)], polarization=[(0.1, 0.2, 0.3), (0, 0, 1), (1, 0, 0)], position=[(0, 0, 0), (2.8, 2.8, 2.8), (0, 0, 0)], orientation=rot3)),
    "Cuboid single obs": ("Cuboid", (0.1, 0.1, 0.1), dict(dimension=(1, 2, 3), polarization=(0.1, 0.2, 0.3))),
    "Cuboid len-1 inputs": ("Cuboid", [(0.1, 0.1, 0.1)], dict(dimension=[(1, 2, 3)], polarization=[(0.1, 0.2, 0.3)], position=[(0.01, 0, 0)])),
    "Cuboid ndarray inputs": ("Cuboid", np.array(obs3), dict(dimension=np.array([1, 2, 3]), polarization=np.array([[1, 2, 3]] * 3))),
    "Cylinder": ("Cylinder", obs3, dict(dimension=(1, 2), polarization=(0.1, 0.2, 0.3), orientation=R.from_euler("x", 30, degrees=True))),
    "CylinderSegment": ("CylinderSegment", obs3, dict(dimension=(0.05, 1, 2, 0, 90), polarization=(0.1, 0.2, 0.3))),
    "Sphere": ("Sphere", obs3, dict(diameter=[1, 2, 10], polarization=(0.1, 0.2, 0.3))),
    "Sphere scalar dia": ("Sphere", obs3, dict(diameter=1, polarization=(0.1, 0.2, 0.3))),
    "Tetrahedron": ("Tetrahedron", obs3, dict(vertices=tet_v, polarization=(0.1, 0.2, 0.3))),
    "Tetrahedron inside": ("Tetrahedron", obs3, dict(vertices=tet_v, polarization=(0.1, 0.2, 0.3), in_out="inside")),
    "Tetrahedron outside": ("Tetrahedron", obs3, dict(vertices=[tet_v] * 3, polarization=(0.1, 0.2, 0.3), in_out="outside")),
    "Triangle": ("Triangle", obs3, dict(vertices=tri_v, polarization=(0.1, 0.2, 0.3))),
    "TriangularMesh": ("TriangularMesh", obs3, dict(mesh=mesh, polarization=(0.1, 0.2, 0.3))),
    "Dipole": ("Dipole", obs3, dict(moment=(1, 2, 3))),
    "Dipole at origin": ("Dipole", (0, 0, 0), dict(moment=(1, 0, -3))),
    "Circle": ("Circle", obs3, dict(current=[1, 2, 3], diameter=2)),
    "Polyline": ("Polyline", obs3, dict(current=1.5, segment_start=(0, 0, 0), segment_end=[(1, 0, 0), (0, 0, 0), (0, 1, 0)])),
    "Polyline ragged vertices": ("Polyline", obs3[:2], dict(current=[1, 2], vertices=[[(0, 0, 0), (1, 0, 0), (1, 1, 0)], [(0, 0, 0), (0, 0, 1)]])),
    "Polyline uniform vertices": ("Polyline", obs3[:2], dict(current=[1, 2], vertices=[[(0, 0, 0), (1, 0, 0), (1, 1, 0)], [(0, 0, 0), (0, 0, 1), (0, 1, 1)]])),
    # error paths
    "unknown source": ("Cube", obs3, dict(dimension=(1, 2, 3), polarization=(0.1, 0.2, 0.3))),
    "base class name": ("BaseMagnet", obs3, dict(polarization=(0.1, 0.2, 0.3))),
    "CustomSource": ("CustomSource", obs3, dict()),
    "length mismatch": ("Cuboid", obs3, dict(dimension=[(1, 2, 3), (1, 1, 1)], polarization=(0.1, 0.2, 0.3))),
    "None input": ("Cuboid", obs3, dict(dimension=None, polarization=(0.1, 0.2, 0.3))),
    "set input": ("Cuboid", obs3, dict(dimension={1, 2, 3}, polarization=(0.1, 0.2, 0.3))),
    "string input": ("Cuboid", obs3, dict(dimension="abc", polarization=(0.1, 0.2, 0.3))),
    "string entries": ("Cuboid", obs3, dict(dimension=("a", "b", "c"), polarization=(0.1, 0.2, 0.3))),
    "empty list input": ("Cuboid", obs3, dict(dimension=[], polarization=(0.1, 0.2, 0.3))),
    "ragged dimension": ("Cuboid", obs3, dict(dimension=[(1, 2, 3), (1, 2), (1, 2, 3)], polarization=(0.1, 0.2, 0.3))),
    "mixed scalar/seq": ("Cuboid", obs3, dict(dimension=[(1, 2, 3), 5, (1, 2, 3)], polarization=(0.1, 0.2, 0.3))),
    "missing arg": ("Cuboid", obs3, dict(polarization=(0.1, 0.2, 0.3))),
    "unknown arg": ("Cuboid", obs3, dict(dimension=(1, 2, 3), polarization=(0.1, 0.2, 0.3), bogus=(1, 2))),
    "magnetization kw": ("Cuboid", obs3, dict(dimension=(1, 2, 3), magnetization=(1e5, 0, 0))),
    "bad obs shape": ("Cuboid", [(1, 2), (3, 4)], dict(dimension=(1, 2, 3), polarization=(0.1, 0.2, 0.3))),
    "nan input": ("Sphere", obs3, dict(diameter=np.nan, polarization=(0.1, np.nan, 0.3))),
    "dict value": ("Sphere", obs3, dict(diameter={"a": 1}, polarization=(0.1, 0.2, 0.3))),
    "generator value": ("Sphere", obs3, dict(diameter=(x for x in (1, 2, 3)), polarization=(0.1, 0.2, 0.3))),
    "orientation None": ("Sphere", obs3, dict(diameter=1, polarization=(0.1, 0.2, 0.3), orientation=None)),
    "observers None": ("Sphere", None, dict(diameter=1, polarization=(0.1, 0.2, 0.3))),
    "in_out ignored for Sphere": ("Sphere", obs3, dict(diameter=1, polarization=(0.1, 0.2, 0.3), in_out="inside")),
}

for name, (src_type, obs, kw) in cases.items():
    for f in "BHJM":
        for squeeze in (True, False):
            if name == "generator value":
                kw = dict(kw, diameter=(x for x in (1, 2, 3)))
            attempt(f"{name} get{f} squeeze={squeeze}", lambda: getattr(magpy, "get" + f)(src_type, obs, squeeze=squeeze, **kw))

# unhashable source type goes straight to level2 of the dict interface only via direct call
for st in (["Cuboid"], None, 5, ("Cuboid",)):
    attempt(f"direct source_type={st!r}", lambda: getBH_dict_level2(st, obs3, field="J", dimension=(1, 2, 3), polarization=(0.1, 0.2, 0.3)))
attempt("direct defaults", lambda: getBH_dict_level2("Cuboid", obs3, field="M", dimension=(1, 2, 3), polarization=(0.1, 0.2, 0.3)))
attempt("direct bad field", lambda: getBH_dict_level2("Cuboid", obs3, field="X", dimension=(1, 2, 3), polarization=(0.1, 0.2, 0.3)))
attempt("direct squeeze=0", lambda: getBH_dict_level2("Cuboid", obs3[:1], field="J", squeeze=0, dimension=(1, 2, 3), polarization=(0.1, 0.2, 0.3)))
attempt("direct squeeze='yes'", lambda: getBH_dict_level2("Cuboid", obs3[:1], field="J", squeeze="yes", dimension=(1, 2, 3), polarization=(0.1, 0.2, 0.3)))

# inputs are not modified, outputs agree with the object interface and with B = mu0 H + J
dim = np.array([[1.0, 2.0, 3.0]] * 3)
pol = np.array([[0.1, 0.2, 0.3], [0.0, 0.0, 1.0], [1.0, 0.0, 0.0]])
o = np.array(obs3, dtype=float)
before = [x.copy() for x in (dim, pol, o)]
out = {f: getattr(magpy, "get" + f)("Cuboid", o, dimension=dim, polarization=pol, orientation=rot3) for f in "BHJM"}
print("inputs untouched", all(np.array_equal(a, b) for a, b in zip((dim, pol, o), before)))
print("B = mu0 H + J", bool(np.allclose(out["B"], magpy.mu_0 * out["H"] + out["J"], rtol=1e-12, atol=1e-15)), "J = mu0 M", bool(np.allclose(out["J"], magpy.mu_0 * out["M"], rtol=1e-14, atol=0)))
for i in range(3):
    c = magpy.magnet.Cuboid(dimension=dim[i], polarization=pol[i], orientation=rot3[i])
    print("object interface agrees", i, [bool(np.allclose(getattr(c, "get" + f)(o[i]), out[f][i], rtol=1e-12, atol=1e-15)) for f in "BHJM"])
