import os, sys; sys.path.insert(0, os.getcwd())
# Twin4-4: utility.format_obj_input (one predicate instead of nested if/else), filter_objects
#          (conditional tuple expression, elif) and wrong_obj_msg (paragraph list + join)
import contextlib
import hashlib
import io
import itertools
import re
import warnings

import numpy as np

import magpylib as magpy
from magpylib._src.utility import filter_objects
from magpylib._src.utility import format_obj_input
from magpylib._src.utility import format_src_inputs
from magpylib._src.utility import wrong_obj_msg

warnings.simplefilter("ignore")


def h(a):
    a = np.ascontiguousarray(a)
    return hashlib.sha1(a.tobytes()).hexdigest()[:12] + str(a.shape)


def clean(msg, n=400):
    msg = re.sub(r"0x[0-9a-f]+", "0x?", re.sub(r"id=\d+", "id=?", str(msg)))
    return msg.replace("\n", " | ")[:n]


def sha(text):
    return hashlib.sha1(clean(text, 10**6).encode()).hexdigest()[:12]


NAMES = {}


def reg(name, obj):
    NAMES[id(obj)] = name
    return obj


a = reg("cub", magpy.magnet.Cuboid(polarization=(1, 2, 3), dimension=(1, 2, 3)))
b = reg("loop", magpy.current.Circle(current=3, diameter=2, position=(1, 1, 1)))
c = reg("dip", magpy.misc.Dipole(moment=(1, 0, 2), position=[(2, 2, 2), (3, 3, 3)]))
d = reg("cust", magpy.misc.CustomSource(field_func=lambda field, observers: observers * 2.0))
s1 = reg("s1", magpy.Sensor(position=(4, 4, 4)))
s2 = reg("s2", magpy.Sensor(pixel=[(0, 0, 0), (0, 0, 1)], position=(-4, 3, 2)))
s3 = reg("s3", magpy.Sensor(position=(0, 5, 0)))
inner2 = reg("inner2", magpy.Collection(c, s3))
inner = reg("inner", magpy.Collection(b, s2, inner2))
empty = reg("empty", magpy.Collection())
sens_only = reg("sens_only", magpy.Collection(magpy.Sensor()))
top = reg("top", magpy.Collection(a, inner, s1, empty, d))
OBJS = [a, b, c, d, s1, s2, s3, inner2, inner, empty, top]


def nm(objs):
    return [NAMES.get(id(o), clean(repr(o), 40)) for o in objs]


def tree_state():
    return [
        (
            NAMES[id(o)],
            None if o._parent is None else NAMES[id(o._parent)],
            nm(getattr(o, "_children", [])),
            nm(getattr(o, "_sources", [])),
            nm(getattr(o, "_sensors", [])),
            h(o._position),
            h(o._orientation.as_quat()),
        )
        for o in OBJS
    ]


def call(tag, fn):
    before = tree_state()
    buf = io.StringIO()
    try:
        with contextlib.redirect_stdout(buf):
            res = fn()
        if isinstance(res, tuple):
            out = [nm(r) for r in res]
        elif isinstance(res, list):
            out = nm(res)
        else:
            out = res
        print(f"{tag} -> {type(res).__name__} {out}")
    except BaseException as err:  # pylint: disable=broad-except
        ctx = type(err.__context__).__name__ if err.__context__ is not None else None
        cause = type(err.__cause__).__name__ if err.__cause__ is not None else None
        depth, e = 0, err
        while e.__cause__ is not None and depth < 5000:
            depth, e = depth + 1, e.__cause__
        print(f"{tag} raised {type(err).__name__} ctx={ctx} cause={cause} chain={depth if depth < 50 else 'deep'}/{type(e).__name__} :: {sha(err)} {clean(err, 120)}")
    if buf.getvalue():
        print("    printed:", clean(buf.getvalue(), 2000))
    print("    tree-unchanged:", before == tree_state())


print("== wrong_obj_msg")
ALLOWS = ["sources", "sensors", "observers", "collections", "sources+sensors", "sensors+sources", "sources+sensors+collections", "observers+sensors", "", "x", "sources+", "Sources"]
for allow in ALLOWS:
    for objs in ((), (None,), (a,), ("text",), ([1, 2],), (top,)):
        msg = wrong_obj_msg(*objs, allow=allow)
        print(f"{allow!r} {nm(objs)} -> {sha(msg)} len={len(msg)} lines={msg.count(chr(10))} :: {clean(msg, 90)} ... {clean(msg[-60:])}")
call("two objs", lambda: wrong_obj_msg(1, 2))
call("allow None", lambda: wrong_obj_msg(1, allow=None))
print(clean(wrong_obj_msg(a, allow="sources+observers+sensors"), 2000))

print("== filter_objects (prints warnings)")
for allow in ("sources", "sensors", "collections", "sources+sensors", "sensors+collections", "sources+sensors+collections", "", "nope"):
    for warn in (True, False, 0, "yes"):
        call(f"filter {allow!r} warn={warn!r}", lambda: filter_objects([a, s1, top, 5, None, b, "str", inner, s1], allow=allow, warn=warn))
call("filter default", lambda: filter_objects([a, s1, top, 5]))
call("filter generator", lambda: filter_objects((o for o in (a, s1, top, 5)), allow="sensors"))
call("filter tuple", lambda: filter_objects((a, s1), allow="sources", warn=False))
call("filter warn array, nothing rejected", lambda: filter_objects([a, b], allow="sources", warn=np.array([1, 2])))
call("filter warn array, rejected", lambda: filter_objects([a, s1], allow="sources", warn=np.array([1, 2])))
call("filter not iterable", lambda: filter_objects(a, allow="sources"))
call("filter allow None", lambda: filter_objects([a], allow=None))

print("== format_obj_input")
INPUTS = {
    "single src": lambda: (a,),
    "single sens": lambda: (s1,),
    "top": lambda: (top,),
    "inner+a": lambda: (inner, a),
    "list": lambda: ([a, s1, top],),
    "nested": lambda: ([a, [s1, (b, [inner2])]], c),
    "empty col": lambda: (empty,),
    "empty list": lambda: ([],),
    "nothing": lambda: (),
    "dup": lambda: (a, a, [a, top], top),
    "int": lambda: (a, 5),
    "none": lambda: (None,),
    "none in list": lambda: ([a, None],),
    "array": lambda: (np.array([1.0, 2.0, 3.0]),),
    "dict": lambda: ({a: 1},),
    "set": lambda: ({a},),
    "generator": lambda: ((o for o in (a, s1)),),
    "short str": lambda: ("",),
    "class": lambda: (magpy.Sensor,),
}
for (iname, inp), allow in itertools.product(INPUTS.items(), ("sources", "sensors", "sources+sensors", "collections", "sources+collections", "sensors+sources+collections", "observers")):
    call(f"{iname}|{allow!r}", lambda: format_obj_input(*inp(), allow=allow))
call("default allow", lambda: format_obj_input(top, [s3, 1.5] if False else [s3]))
call("warn ignored", lambda: format_obj_input(top, 7, allow="collections", warn=True))
call("str recursion", lambda: format_obj_input("ab", allow="sources"))
call("allow None", lambda: format_obj_input(a, allow=None))
call("fresh list", lambda: format_obj_input(top, allow="sources") is not top._sources)

print("== format_src_inputs / Collection setters / field computation")
for tag, src in {
    "a": a, "top": top, "[top, a]": [top, a], "(inner2, b)": (inner2, b), "empty": empty, "[a, empty]": [a, empty],
    "sens_only": sens_only, "[]": [], "s1": s1, "[a, s1]": [a, s1], "[[a]]": [[a]], "None": None, "str": "Cuboid2",
}.items():
    call(f"format_src_inputs {tag}", lambda: format_src_inputs(src))
    for rep in range(2):
        before = tree_state()
        try:
            res = magpy.getB(src, [s2, inner], pixel_agg="mean")
            print(f"getB {tag}[{rep}] -> {h(res)} {np.round(np.ravel(res)[:3], 12).tolist()}")
        except Exception as err:  # pylint: disable=broad-except
            print(f"getB {tag}[{rep}] raised {type(err).__name__} :: {sha(err)} {clean(err, 100)}")
        print("    tree-unchanged:", before == tree_state())
for tag, obs in {"empty": empty, "[s1, empty]": [s1, empty], "top": top, "[inner2, (1,2,3)]": [inner2, (1, 2, 3)], "src": a, "[a]": [a]}.items():
    for rep in range(2):
        before = tree_state()
        try:
            res = magpy.getH([a, top], obs, pixel_agg="max")
            print(f"getH obs={tag}[{rep}] -> {h(res)} {np.round(np.ravel(res)[:3], 12).tolist()}")
        except Exception as err:  # pylint: disable=broad-except
            print(f"getH obs={tag}[{rep}] raised {type(err).__name__} :: {sha(err)} {clean(err, 100)}")
        print("    tree-unchanged:", before == tree_state())
call("col.getB()", lambda: h(top.getB()))
call("col.getB(sens)", lambda: h(inner2.getB(s1, s2)))
call("sens-only col getB(src)", lambda: h(sens_only.getB(a, top)))
call("empty col getB", lambda: h(empty.getB(s1)))

w = magpy.Collection(magpy.Sensor(), magpy.magnet.Sphere(polarization=(0, 0, 1), diameter=1), magpy.Collection())
x1, x2 = magpy.Sensor(), magpy.misc.Dipole(moment=(1, 1, 1))
for tag, fn in {
    "sources=": lambda: setattr(w, "sources", [x2, [x2]]),
    "sources= junk": lambda: setattr(w, "sources", [x2, 3]),
    "sensors=": lambda: setattr(w, "sensors", (x1,)),
    "sensors= src": lambda: setattr(w, "sensors", x2),
    "collections=": lambda: setattr(w, "collections", [magpy.Collection(), x1]),
}.items():
    try:
        fn()
        print(tag, "ok", [type(ch).__name__ for ch in w.children], [type(ch).__name__ for ch in w.sources], [type(ch).__name__ for ch in w.sensors])
    except Exception as err:  # pylint: disable=broad-except
        print(tag, "raised", type(err).__name__, sha(err), clean(err, 100))
