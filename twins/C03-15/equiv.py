import os, sys; sys.path.insert(0, os.getcwd())
import hashlib
import re
import warnings

import numpy as np
from scipy.spatial.transform import Rotation as R

import magpylib as magpy

warnings.simplefilter("ignore")


def sha(*arrays):
    h = hashlib.sha256()
    for a in arrays:
        a = np.ascontiguousarray(a)
        h.update(str(a.shape).encode())
        h.update(a.tobytes())
    return h.hexdigest()[:16]


def state(objs):
    """bit-exact digest of the paths of all objects"""
    return " ".join(
        f"{len(o._position)}:{sha(o._position, o._orientation.as_quat())}" for o in objs
    )


def exc(err):
    msg = re.sub(r"id=\d+|0x[0-9a-f]+", "#", str(err))
    return f"EXC {type(err).__name__}: {msg[:110]!r}"


def build():
    """three levels: top(cub, sens, mid(dip, low(circ, sph)), empty)"""
    cub = magpy.magnet.Cuboid(polarization=(0.1, 0.2, 0.3), dimension=(1, 2, 3), position=(1, 0.5, -0.3))
    sens = magpy.Sensor(pixel=[(0, 0, 0), (0.1, 0.2, 0.3)], position=[(3, 3, 3), (3, 3, 4)])
    dip = magpy.misc.Dipole(moment=(1, 2, 3), position=(-2, 1, 1))
    circ = magpy.current.Circle(current=5, diameter=2, position=(0, -3, 0.5))
    sph = magpy.magnet.Sphere(polarization=(0.3, 0.2, 0.1), diameter=1, position=[(1, 1, 1), (2, 1, 1), (3, 1, 1)])
    low = magpy.Collection(circ, sph, position=(0, 0, -1))
    mid = magpy.Collection(dip, low, position=(0, 2, 1))
    empty = magpy.Collection(position=(9, 9, 9))
    top = magpy.Collection(cub, sens, mid, empty, position=(0.5, 0.5, 0.5))
    return top, [top, cub, sens, mid, dip, low, circ, sph, empty]


angles = {
    "int": 30,
    "float": -77.5,
    "zero": 0,
    "np.float64": np.float64(12.5),
    "np.int64": np.int64(400),
    "bool": True,
    "list1": [15],
    "list3": [10, 20, 30],
    "tuple2": (90.0, -90.0),
    "nd4": np.array([1.0, 2.0, 3.0, 400.0]),
    "int-nd": np.arange(3),
    "empty": [],
    "2d": [[1, 2]],
    "str": "30",
    "None": None,
    "complex": 1j,
}
axes = {
    "x": "x",
    "y": "y",
    "z": "z",
    "vec": (1, 2, 3),
    "negvec": np.array([-0.5, 0.0, 0.25]),
    "int-nd": np.array([0, 0, 7]),
    "w": "w",
    "zero": (0, 0, 0),
    "len2": (1, 2),
    "path": [(1, 0, 0), (0, 1, 0)],
}
variants = [
    ("plain", dict()),
    ("rad", dict(degrees=False)),
    ("anchor0", dict(anchor=0)),
    ("anchor-vec start1", dict(anchor=(1, -1, 2), start=1)),
    ("anchor-path start-2 rad", dict(anchor=[(1, 0, 0), (0, 1, 0), (0, 0, 1)], start=-2, degrees=False)),
]

obs = [(4, 4, 4), (-3, 2, 5)]
for an, ang in angles.items():
    for axn, ax in axes.items():
        for vn, kw in variants:
            top, objs = build()
            tag = f"angle={an} axis={axn} {vn}"
            try:
                res = top.rotate_from_angax(ang, ax, **kw)
                print(f"{tag}: ok {res is top} {state(objs)}")
            except Exception as err:  # pylint: disable=broad-except
                print(f"{tag}: {exc(err)} {sha(*[o._position for o in objs])}")
            if vn in ("plain", "anchor-vec start1") and axn in ("z", "vec"):
                # inner collection, leaf and empty collection, then a field
                try:
                    objs[3].rotate_from_angax(ang, ax, **kw)
                    objs[7].rotate_from_angax(ang, ax, **kw)
                    objs[8].rotate_from_angax(ang, ax, **kw)
                    B = magpy.getB(top, obs, sumup=True)
                    print(f"   inner/leaf/empty ok {state(objs)} B {B.shape} {sha(B)}")
                except Exception as err:  # pylint: disable=broad-except
                    print(f"   inner/leaf/empty {exc(err)} {sha(*[o._position for o in objs])}")

# positional call of all arguments, bad degrees / start
top, objs = build()
top.rotate_from_angax(33, "y", (1, 2, 3), 0, False)
print("positional:", state(objs))
for kw in (dict(degrees=1), dict(degrees=None), dict(degrees="yes"), dict(start=1.5), dict(start="end"), dict(anchor=(1, 2))):
    top, objs = build()
    try:
        top.rotate_from_angax([10, 20], "x", **kw)
        print(f"{kw}: ok {state(objs)}")
    except Exception as err:  # pylint: disable=broad-except
        print(f"{kw}: {exc(err)} {state(objs)}")

# the angle array of the caller is not modified
ang_in = np.array([10.0, 20.0, 30.0])
magpy.Sensor().rotate_from_angax(ang_in, "z")
print("angle input untouched:", ang_in.tolist())

# other entry points of the same machinery: rotate / _rotate with and without parent_path
rot2 = R.from_rotvec([(0.1, 0.2, 0.3), (0.3, 0.2, 0.1)])
for nm, call in {
    "rotate": lambda top: top.rotate(rot2),
    "rotate anchor": lambda top: top.rotate(rot2, anchor=(1, 1, 1), start=1),
    "_rotate parent_path": lambda top: top._rotate(rot2, parent_path=np.array([(5.0, 5.0, 5.0)])),
    "_rotate parent_path long": lambda top: top._rotate(rot2, start=0, parent_path=np.arange(12.0).reshape(4, 3)),
    "_rotate mid": lambda top: top.children[2]._rotate(rot2, anchor=None, start=-1, parent_path=None),
    "rotate_from_euler": lambda top: top.rotate_from_euler([10, 20, 30], "y", start=1),
    "rotate_from_rotvec": lambda top: top.rotate_from_rotvec((10, 20, 30), anchor=0),
    "rotate None": lambda top: top.rotate(None),
    "rotate bad": lambda top: top.rotate("x"),
}.items():
    top, objs = build()
    try:
        res = call(top)
        print(f"{nm}: ok {state(objs)}")
    except Exception as err:  # pylint: disable=broad-except
        print(f"{nm}: {exc(err)} {state(objs)}")

# failure inside the children loop: the second child of `mid` is broken
top, objs = build()
objs[5]._orientation = None
try:
    top.rotate_from_angax(20, "z")
    print("broken: ok")
except Exception as err:  # pylint: disable=broad-except
    print("broken:", exc(err))
print("   ", state([o for o in objs if o is not objs[5]]), sha(objs[5]._position))
