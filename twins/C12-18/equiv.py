import os, sys; sys.path.insert(0, os.getcwd())
import hashlib
import re
import warnings

import numpy as np

import magpylib as magpy
from magpylib._src.fields import field_BH_triangularmesh as tm

np.set_printoptions(precision=10, linewidth=200)


def clean(text):
    return re.sub(r"id=\d+", "id=N", str(text)).replace("\n", " | ")


def show(tag, res):
    if isinstance(res, np.ndarray):
        flags = (res.flags["C_CONTIGUOUS"], res.flags["F_CONTIGUOUS"], res.flags["OWNDATA"])
        h = hashlib.sha256(np.ascontiguousarray(res).tobytes()).hexdigest()[:16]
        print(tag, "ndarray", res.shape, res.dtype, flags, h, res.tolist() if res.size < 80 else "")
    elif isinstance(res, list):
        print(tag, "list of", len(res))
        for i, item in enumerate(res):
            show(f"    [{i}]", item)
    else:
        print(tag, "->", type(res).__name__, clean(repr(res)))


def attempt(tag, func):
    with warnings.catch_warnings(record=True) as rec:
        warnings.simplefilter("always")
        try:
            show(tag, func())
        except Exception as err:  # pylint: disable=broad-except
            print(tag, "EXC", type(err).__name__, clean(err)[:300])
    for w in rec:
        print("   WARN", w.category.__name__, clean(w.message)[:400])


cube_v = (
    np.array(
        [(0, 0, 0), (1, 0, 0), (1, 1, 0), (0, 1, 0), (0, 0, 1), (1, 0, 1), (1, 1, 1), (0, 1, 1)],
        dtype=float,
    )
    - 0.5
)
cube_f = np.array(
    [
        (0, 2, 1), (0, 3, 2), (4, 5, 6), (4, 6, 7), (0, 1, 5), (0, 5, 4),
        (2, 3, 7), (2, 7, 6), (1, 2, 6), (1, 6, 5), (0, 4, 7), (0, 7, 3),
    ]
)
tet_v = np.array([(0, 0, 0), (1, 0, 0), (0, 1, 0), (0, 0, 1)], dtype=float)
tet_f = np.array([(0, 2, 1), (0, 1, 3), (1, 2, 3), (0, 3, 2)])
two_v = np.concatenate([cube_v, tet_v + (3, 0.2, -0.1)])
two_f = np.concatenate([cube_f, tet_f + len(cube_v)])
three_v = np.concatenate([two_v, tet_v * 0.5 + (-4, 1, 2)])
three_f = np.concatenate([two_f, tet_f + len(two_v)])

rng = np.random.default_rng(7)
# a chain of triangles that only connects after several sweeps (each face shares one vertex
# with the next one, listed in an order that forces repeated passes)
chain = np.array([(i, i + 1, i + 2) for i in range(0, 24, 2)])
chain_perm = chain[[0, 11, 1, 10, 2, 9, 3, 8, 4, 7, 5, 6]]
chain_rev = chain[::-1]
# two interleaved chains
chains2 = np.concatenate([chain, chain + 100])[rng.permutation(24)]
# parts touching in one vertex only (counts as connected), in an edge
touch_vertex = np.concatenate([tet_f, tet_f + 3])
touch_none = np.concatenate([tet_f, tet_f + 4])

face_sets = {
    "cube": cube_f,
    "tet": tet_f,
    "two": two_f,
    "three": three_f,
    "three shuffled": three_f[rng.permutation(len(three_f))],
    "two interleaved": two_f[np.argsort(np.arange(len(two_f)) % 4, kind="stable")],
    "chain": chain,
    "chain perm": chain_perm,
    "chain rev": chain_rev,
    "chains2": chains2,
    "touch vertex": touch_vertex,
    "touch none": touch_none,
    "single": tet_f[:1],
    "open cube": cube_f[:-1],
    "open cube 3": cube_f[[0, 2, 4, 6, 8, 10]],
    "dup": np.concatenate([tet_f, tet_f]),
    "triple edge": np.concatenate([tet_f, [(0, 1, 4)]]),
    "degenerate": np.array([(1, 1, 1), (1, 2, 2), (5, 6, 7)]),
    "empty": np.zeros((0, 3), dtype=int),
    "4 columns": np.c_[tet_f, tet_f[:, 0]],
    "uint8": two_f.astype(np.uint8),
    "int32 F-order": np.asfortranarray(two_f.astype(np.int32)),
    "negative idx": np.array([(0, 1, -1), (-1, 2, 0), (4, 5, 6)]),
    "float idx": tet_f.astype(float),
    "1 column": tet_f[:, :1],
    "0 columns": tet_f[:, :0],
}

print("== get_disconnected_faces_subsets / get_open_edges")
for name, f in face_sets.items():
    keep = f.copy()
    attempt(f"subsets {name}", lambda: tm.get_disconnected_faces_subsets(f))
    attempt(f"open    {name}", lambda: tm.get_open_edges(f))
    if not np.array_equal(f, keep):
        print("    INPUT MODIFIED")

print("== error paths / odd containers")
attempt("E subsets list", lambda: tm.get_disconnected_faces_subsets(two_f.tolist()))
attempt("E subsets tuple", lambda: tm.get_disconnected_faces_subsets(tuple(map(tuple, tet_f.tolist()))))
attempt("E subsets 1d", lambda: tm.get_disconnected_faces_subsets(np.array([0, 1, 2])))
attempt("E subsets 3d", lambda: tm.get_disconnected_faces_subsets(tet_f[:, :, None] * np.ones(2, dtype=int)))
attempt("E subsets None", lambda: tm.get_disconnected_faces_subsets(None))
attempt("E subsets 0d", lambda: tm.get_disconnected_faces_subsets(np.array(3)))
attempt("E subsets empty list", lambda: tm.get_disconnected_faces_subsets([]))
attempt("E subsets object", lambda: tm.get_disconnected_faces_subsets(np.array([[0, 1, [2]], [3, 4, 5]], dtype=object)))
attempt("E open list", lambda: tm.get_open_edges(tet_f.tolist()))
attempt("E open 1d", lambda: tm.get_open_edges(np.array([0, 1, 2])))
attempt("E open 2 columns", lambda: tm.get_open_edges(tet_f[:, :2]))
attempt("E open 5 columns", lambda: tm.get_open_edges(np.c_[tet_f, tet_f[:, :2]]))
attempt("E open 3d", lambda: tm.get_open_edges(tet_f[:, :, None] * np.ones(2, dtype=int)))
attempt("E open None", lambda: tm.get_open_edges(None))
attempt("E open 0d", lambda: tm.get_open_edges(np.array(3)))
attempt("E open str", lambda: tm.get_open_edges(np.array([["a", "b", "c"], ["a", "c", "b"]])))

print("== object interface")
for scale in (1e-6, 1.0, 1e4):
    for name, v, f in (
        ("cube", cube_v, cube_f),
        ("open", cube_v, cube_f[:-2]),
        ("three", three_v, three_f[rng.permutation(len(three_f))]),
    ):

        def build():
            src = magpy.magnet.TriangularMesh(
                vertices=v * scale, faces=f, polarization=(0.1, 0.2, -0.3),
                reorient_faces="ignore", check_selfintersecting="skip",
            )
            show("    status", [src.status_open, src.status_disconnected])
            show("    open data", src.status_open_data)
            show("    subsets", src.get_faces_subsets())
            print("    cached:", src.get_faces_subsets() is src.status_disconnected_data)
            return src.getB(np.array([(0.1, 0.2, 0.3), (2, 2, 2), (3.1, 0.3, 0.0)]) * scale)

        attempt(f"obj {name} {scale:g}", build)

attempt(
    "raise disconnected",
    lambda: magpy.magnet.TriangularMesh(
        vertices=two_v, faces=two_f, polarization=(0, 0, 1), check_disconnected="raise"
    ),
)
attempt(
    "raise open",
    lambda: magpy.magnet.TriangularMesh(
        vertices=cube_v, faces=cube_f[1:], polarization=(0, 0, 1), check_open="raise"
    ),
)
