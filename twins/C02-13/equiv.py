import os, sys; sys.path.insert(0, os.getcwd())
import hashlib
import re
import warnings

import numpy as np
from scipy.spatial.transform import Rotation as R

import magpylib as magpy
from magpylib._src.fields import field_wrap_BH as fw
from magpylib._src.fields.field_BH_cuboid import BHJM_magnet_cuboid
from magpylib._src.fields.field_BH_dipole import BHJM_dipole
from magpylib._src.fields.field_BH_tetrahedron import BHJM_magnet_tetrahedron

warnings.simplefilter("ignore")


def digest(name, arr):
    if arr is None:
        print(name, None)
        return
    if isinstance(arr, R):
        arr = arr.as_quat()
    arr = np.asarray(arr)
    if arr.dtype == object:
        print(name, arr.shape, "object", [np.asarray(a).tolist() for a in arr.ravel()][:4])
        return
    h = hashlib.sha256(np.ascontiguousarray(arr).tobytes()).hexdigest()[:16]
    txt = np.array2string(arr, precision=17, threshold=40).replace("\n", "")
    print(name, arr.shape, arr.dtype, h, txt)


def scrub(msg):
    msg = re.sub(r"id=\d+", "id=#", str(msg))
    msg = re.sub(r" at 0x[0-9a-f]+", " at 0x#", msg)
    return msg.replace("\n", " | ")


def attempt(label, fn):
    try:
        res = fn()
    except Exception as e:  # noqa: BLE001
        print(label, "EXC", type(e).__name__, scrub(e))
        return None
    digest(label, res)
    return res


# ---------------- sources of several kinds, interleaved so that groups are scattered
def custom_no_inout(field, observers):
    if field in "BH":
        return np.array(observers) * (2.0 if field == "B" else 3.0)
    return None


def custom_with_inout(field, observers, in_out="auto"):
    scale = {"auto": 1.0, "inside": 10.0, "outside": 100.0}[in_out]
    return np.ones_like(observers, dtype=float) * scale * {"B": 1, "H": 2, "J": 3, "M": 4}[field]


def make_sources():
    cube1 = magpy.magnet.Cuboid(polarization=(0.1, 0.2, 0.3), dimension=(1, 2, 3), position=(0.2, 0.1, 0))
    cube1.rotate_from_angax(30, (1, 2, 3))
    loop = magpy.current.Circle(current=2.0, diameter=1.5, position=(0, 0, 0.5))
    cube2 = magpy.magnet.Cuboid(magnetization=(1e5, -2e5, 3e5), dimension=(0.5, 0.5, 0.5))
    cube2.move([(0.1, 0, 0), (0.2, 0, 0), (0.3, 0, 0)])
    sph = magpy.magnet.Sphere(polarization=(0, 0, 1), diameter=1.0, position=(1, 1, 1))
    dip = magpy.misc.Dipole(moment=(1, 2, 3), position=(-1, 0, 0))
    cyl = magpy.magnet.Cylinder(polarization=(0.3, 0, 0.4), dimension=(1, 1)).rotate_from_angax([10, 20], "x")
    seg = magpy.magnet.CylinderSegment(polarization=(0.3, 0, 0.4), dimension=(0.5, 1, 1, 0, 120))
    tet = magpy.magnet.Tetrahedron(
        polarization=(0.1, 0.2, 0.3), vertices=[(0, 0, 0), (1, 0, 0), (0, 1, 0), (0, 0, 1)], position=(0.05, 0, 0)
    )
    tri = magpy.misc.Triangle(polarization=(0.1, 0.2, 0.3), vertices=[(0, 0, 0), (1, 0, 0), (0, 1, 0)])
    line = magpy.current.Polyline(current=1.5, vertices=[(0, 0, 0), (1, 0, 0), (1, 1, 0)])
    mesh1 = magpy.magnet.TriangularMesh.from_ConvexHull(
        polarization=(0.1, 0.2, 0.3), points=[(0, 0, 0), (1, 0, 0), (0, 1, 0), (0, 0, 1)]
    )
    mesh2 = magpy.magnet.TriangularMesh.from_ConvexHull(
        polarization=(0, 0, 0.5),
        points=[(0, 0, 0), (1, 0, 0), (0, 1, 0), (0, 0, 1), (1, 1, 1)],
        position=(0.1, 0.1, 0.1),
    )
    c1 = magpy.misc.CustomSource(field_func=custom_no_inout, position=(0, 0, 1))
    c2 = magpy.misc.CustomSource(field_func=custom_with_inout).rotate_from_angax(90, "z")
    return dict(
        cube1=cube1, loop=loop, cube2=cube2, sph=sph, dip=dip, cyl=cyl, seg=seg, tet=tet, tri=tri,
        line=line, mesh1=mesh1, mesh2=mesh2, c1=c1, c2=c2,
    )


S = make_sources()
obs_in_out = [(0.1, 0.1, 0.1), (0.3, 0.2, 0.6), (5, 5, 5), (0.25, 0.25, 0.25), (0, 0, 0)]
sens1 = magpy.Sensor(pixel=obs_in_out, position=(0.01, 0.02, 0.03))
sens2 = magpy.Sensor(pixel=obs_in_out, handedness="left").rotate_from_angax([15, 30, 45, 60], "y", start=0)

magnets = ["cube1", "cube2", "sph", "cyl", "seg", "tet", "mesh1", "mesh2"]
order_all = ["cube1", "loop", "tet", "cube2", "dip", "sph", "mesh1", "cyl", "line", "seg", "tri", "mesh2", "c2"]

for field in "BHJM":
    get = getattr(magpy, "get" + field)
    attempt(f"all sources interleaved get{field}", lambda: get([S[k] for k in order_all], [sens1, sens2]))
    attempt(f"reversed order get{field}", lambda: get([S[k] for k in reversed(order_all)], sens1))
    attempt(f"sumup get{field}", lambda: get([S[k] for k in order_all], sens2, sumup=True, squeeze=False))
    coll = magpy.Collection(S["cube1"], S["loop"], S["cube2"])
    attempt(f"collection + sources get{field}", lambda: get([S["sph"], coll, S["dip"], S["cube1"]], sens1))
    coll.remove(S["cube1"], S["loop"], S["cube2"])
    attempt(f"same source twice get{field}", lambda: get([S["cube1"], S["sph"], S["cube1"]], obs_in_out))
    for io in ("auto", "inside", "outside"):
        attempt(f"tet+mesh+custom in_out={io} get{field}", lambda: get([S["tet"], S["c2"], S["mesh1"], S["cube1"]], obs_in_out[:1] if io == "inside" else obs_in_out, in_out=io))
    attempt(f"in_out=bogus get{field}", lambda: get([S["tet"], S["cube1"]], obs_in_out, in_out="bogus"))
    # custom without J/M implementation -> None -> error path a level above
    attempt(f"custom None-returning get{field}", lambda: get([S["cube1"], S["c1"]], obs_in_out))
    attempt(f"pixel_agg get{field}", lambda: get([S[k] for k in order_all[:6]], [sens1, magpy.Sensor(pixel=(1, 2, 3))], pixel_agg="mean"))

# consistency B = mu0 H + J, J = mu0 M over the magnets
srcs = [S[k] for k in magnets]
B, H, J, M = (getattr(magpy, "get" + f)(srcs, sens1) for f in "BHJM")
print("max |B - mu0 H - J|", float(np.max(np.abs(B - magpy.mu_0 * H - J))) < 1e-12, "J == mu0*M", np.allclose(J, magpy.mu_0 * M, rtol=1e-14, atol=0))

# paths are restored after computation
for k in ("cube1", "cube2", "cyl"):
    digest(f"{k} position after", S[k]._position)
    digest(f"{k} orientation after", S[k]._orientation)

# field_func undefined
empty = magpy.misc.CustomSource()
for field in "BJ":
    attempt(f"undefined field_func get{field}", lambda: getattr(magpy, "get" + field)([S["cube1"], empty], (1, 2, 3)))

# ---------------- get_src_dict directly
poso = np.array([[0.1, 0.2, 0.3], [1.0, 1.0, 1.0]])
for names in (["cube1", "cube1"], ["sph"], ["mesh1", "mesh2"], ["mesh1", "mesh1"], ["dip", "dip"], ["tet"], ["c2"], ["line"]):
    group = [S[n] for n in names]
    d = attempt(f"get_src_dict {names} keys", lambda: np.array([len(fw.get_src_dict(group, 2, 2, poso))]))
    try:
        d = fw.get_src_dict(group, 2, 2, poso)
        print("   key order", list(d))
        for k, v in d.items():
            digest(f"   {k}", v)
    except Exception as e:  # noqa: BLE001
        print("   EXC", type(e).__name__, scrub(e))
attempt("get_src_dict empty group", lambda: fw.get_src_dict([], 2, 2, poso))

# ---------------- getBH_level1 directly
rot = R.from_rotvec([[0.1, 0.2, 0.3], [0, 0, 1.0]])
pos = np.array([[0.1, 0.0, 0.0], [0.0, 0.2, 0.0]])
obs = np.array([[0.2, 0.1, 0.0], [3.0, 0.0, 0.0]])
dim = np.array([[1.0, 1.0, 1.0], [1.0, 2.0, 3.0]])
pol = np.array([[0.1, 0.2, 0.3], [1.0, 0.0, 0.0]])
verts = np.tile([[0, 0, 0], [1, 0, 0], [0, 1, 0.0], [0, 0, 1]], (2, 1, 1))
for field in "BHJM":
    attempt(f"level1 cuboid {field} (in_out filtered)", lambda: fw.getBH_level1(field_func=BHJM_magnet_cuboid, field=field, position=pos, orientation=rot, observers=obs, dimension=dim, polarization=pol, in_out="inside"))
    attempt(f"level1 cuboid {field} (no in_out)", lambda: fw.getBH_level1(field_func=BHJM_magnet_cuboid, field=field, position=pos, orientation=rot, observers=obs, dimension=dim, polarization=pol))
    attempt(f"level1 tetra {field} in_out=outside", lambda: fw.getBH_level1(field_func=BHJM_magnet_tetrahedron, field=field, position=pos, orientation=rot, observers=obs, vertices=verts.copy(), polarization=pol, in_out="outside"))
    attempt(f"level1 dipole {field}", lambda: fw.getBH_level1(field_func=BHJM_dipole, field=field, position=pos, orientation=rot, observers=obs, moment=pol, in_out="auto"))
    attempt(f"level1 custom None {field}", lambda: fw.getBH_level1(field_func=custom_no_inout, field=field, position=pos, orientation=rot, observers=obs, in_out="auto"))
attempt("level1 unexpected kwarg", lambda: fw.getBH_level1(field_func=BHJM_dipole, field="B", position=pos, orientation=rot, observers=obs, moment=pol, bogus=1))
attempt("level1 missing kwarg", lambda: fw.getBH_level1(field_func=BHJM_dipole, field="B", position=pos, orientation=rot, observers=obs))
attempt("level1 bad field", lambda: fw.getBH_level1(field_func=BHJM_dipole, field="X", position=pos, orientation=rot, observers=obs, moment=pol))
attempt("level1 unhashable func", lambda: fw.getBH_level1(field_func=[1], field="B", position=pos, orientation=rot, observers=obs))
attempt("level1 non callable", lambda: fw.getBH_level1(field_func=5, field="B", position=pos, orientation=rot, observers=obs))
kw = dict(moment=pol, in_out="auto")
fw.getBH_level1(field_func=BHJM_dipole, field="B", position=pos, orientation=rot, observers=obs, **kw)
print("caller kwargs untouched", kw.keys())

# ---------------- functional interface
for field in "BHJM":
    attempt(f"dict Cuboid get{field}", lambda: getattr(magpy, "get" + field)("Cuboid", obs, dimension=dim, polarization=pol, position=pos, orientation=rot))
    attempt(f"dict Tetrahedron in_out get{field}", lambda: getattr(magpy, "get" + field)("Tetrahedron", obs, vertices=verts, polarization=pol, in_out="outside"))
