import os, sys; sys.path.insert(0, os.getcwd())
import hashlib
import warnings

import numpy as np

import magpylib as magpy
from magpylib._src.fields.field_BH_triangle import BHJM_triangle
from magpylib._src.fields.field_BH_triangle import norm_vector
from magpylib._src.fields.field_BH_triangle import solid_angle
from magpylib._src.fields.field_BH_triangle import triangle_Bfield
from magpylib._src.fields.field_BH_triangle import vcross3


# warnings outside `attempt` are silenced (their text carries source line numbers);
# inside `attempt` every warning is recorded and its category and message printed
warnings.simplefilter("ignore")


def digest(name, arr):
    arr = np.asarray(arr)
    h = hashlib.sha256(np.ascontiguousarray(arr).tobytes()).hexdigest()[:16]
    print(name, arr.shape, arr.dtype, arr.flags["C_CONTIGUOUS"], arr.flags["F_CONTIGUOUS"], h)
    with np.printoptions(precision=10, linewidth=200):
        print(np.round(arr, 12) if arr.dtype.kind in "fc" else arr)


def attempt(label, fn):
    with warnings.catch_warnings(record=True) as rec:
        warnings.simplefilter("always")
        try:
            digest(label, fn())
        except Exception as e:  # noqa: BLE001
            print(label, "EXC", type(e).__name__, str(e)[:120].replace("\n", " | "))
    for w in rec:
        print("   warning", w.category.__name__, str(w.message)[:80])


rng = np.random.default_rng(404)
n = 12
A = rng.uniform(-2, 2, (n, 3))
B = rng.uniform(-2, 2, (n, 3))
A[0] = (np.nan, 1, 2)
A[1] = (np.inf, 1, 2)
B[1] = (0, 0, 0)
A[2] = (1e200, 1e200, 1e200)
B[2] = (1e200, -1e200, 1e200)
A[3] = B[3]
A[4] = (0.0, -0.0, 0.0)
A[5] = (1e-200, 2e-200, 3e-200)
B[5] = (3e-200, 2e-200, 1e-200)

# --- vcross3
attempt("vcross3", lambda: vcross3(A, B))
attempt("vcross3-swapped", lambda: vcross3(B, A))
attempt("vcross3-int", lambda: vcross3(np.array([(1, 2, 3), (0, 1, 0)]), np.array([(4, 5, 6), (1, 0, 0)])))
attempt("vcross3-mixed", lambda: vcross3(np.array([(1, 2, 3)]), np.array([(0.5, 0.25, 0.125)])))
attempt("vcross3-empty", lambda: vcross3(np.zeros((0, 3)), np.zeros((0, 3))))
attempt("vcross3-4col", lambda: vcross3(np.c_[A, A[:, :1]], np.c_[B, B[:, :1]]))
attempt("vcross3-3d", lambda: vcross3(rng.uniform(-1, 1, (4, 3, 2)), rng.uniform(-1, 1, (4, 3, 2))))
attempt("vcross3-broadcast", lambda: vcross3(A, B[:1]))
attempt("vcross3-fortran", lambda: vcross3(np.asfortranarray(A), np.asfortranarray(B)))
with np.errstate(all="raise"):
    attempt("vcross3-errstate-raise", lambda: vcross3(A, B))
    attempt("vcross3-errstate-raise-finite", lambda: vcross3(A[6:], B[6:]))
print("errstate restored", np.geterr())
a2, b2 = A.copy(), B.copy()
res = vcross3(a2, b2)
print("vcross3 inputs unchanged", np.array_equal(a2, A, equal_nan=True), np.array_equal(b2, B), np.shares_memory(res, a2), res.flags.owndata)
for label, args in {
    "a-2col": (A[:, :2], B),
    "b-2col": (A, B[:, :2]),
    "a-2col-b-1col": (A[:, :2], B[:, :1]),
    "a-1col-b-2col": (A[:, :1], B[:, :2]),
    "a-1d": (A[0], B),
    "b-1d": (A, B[0]),
    "a-short": (A[:5], B),
    "a-list": (A.tolist(), B),
    "b-list": (A, B.tolist()),
    "a-none": (None, B),
    "a-str": (np.array([("a", "b", "c")]), B[:1]),
    "b-obj-none": (A[:1], np.array([(1.0, None, 2.0)], dtype=object)),
}.items():
    attempt("vcross3-bad-" + label, lambda: vcross3(*args))

# --- norm_vector and solid_angle
verts = rng.uniform(-1, 1, (n, 3, 3))
verts[0] = [(0, 0, 0), (0, 0, 1), (1, 0, 0)]
verts[1] = [(0, 0, 0), (1, 0, 0), (2, 0, 0)]  # degenerate: colinear
verts[2] = [(1, 1, 1), (1, 1, 1), (1, 1, 1)]  # degenerate: point
verts[3] = verts[3] * 1e-150
verts[4] = verts[4] * 1e150
obs = rng.uniform(-1.5, 1.5, (n, 3))
obs[5] = verts[5, 0]  # corner
obs[6] = (verts[6, 0] + verts[6, 1]) / 2  # on edge
obs[7] = verts[7].mean(axis=0)  # in plane, inside
obs[8] = 3 * verts[8, 1] - 2 * verts[8, 0]  # on edge extension
obs[9] = (np.nan, 0, 0)
attempt("norm_vector", lambda: norm_vector(verts))
attempt("norm_vector-int", lambda: norm_vector(np.array([[(0, 0, 0), (2, 0, 0), (0, 3, 0)]])))
attempt("norm_vector-empty", lambda: norm_vector(np.zeros((0, 3, 3))))
for label, v in {"2corners": verts[:, :2], "2col": verts[:, :, :2], "2d": verts[0], "list": verts.tolist(), "4corners": np.concatenate((verts, verts[:, :1]), axis=1)}.items():
    attempt("norm_vector-bad-" + label, lambda: norm_vector(v))
R = np.swapaxes(verts, 0, 1) - obs
r = np.sqrt(np.sum(R * R, axis=-1))
attempt("solid_angle", lambda: solid_angle(R, r))
attempt("solid_angle-lists", lambda: solid_angle(list(R), list(r)))
attempt("solid_angle-tuple", lambda: solid_angle(tuple(R), tuple(r)))
attempt("solid_angle-4rows", lambda: solid_angle(np.concatenate((R, R[:1])), np.concatenate((r, r[:1]))))
attempt("solid_angle-empty", lambda: solid_angle(np.zeros((3, 0, 3)), np.zeros((3, 0))))
attempt("solid_angle-int", lambda: solid_angle(np.array([[(1, 0, 0)], [(0, 1, 0)], [(0, 0, 1)]]), np.array([[1], [1], [1]])))
for label, args in {
    "R-2rows": (R[:2], r),
    "R-0rows": (R[:0], r),
    "R-1rows-r-0rows": (R[:1], r[:0]),
    "r-2rows": (R, r[:2]),
    "r-0rows": (R, r[:0]),
    "R-2col": (R[:, :, :2], r),
    "R-2col-r-2rows": (R[:, :, :2], r[:2]),
    "R-2d": (R[0], r),
    "r-short": (R, r[:, :5]),
    "r-list-2-mismatched": (R, [r[0], r[1][:5]]),
    "R-short": (R[:, :5], r),
    "R-none": (None, r),
    "r-none": (R, None),
    "R-dict": ({2: R[2], 1: R[1]}, r),
}.items():
    attempt("solid_angle-bad-" + label, lambda: solid_angle(*args))

# --- triangle field, BHJM level, object interface, bodies built from triangles
pol = rng.uniform(-1, 1, (n, 3))
attempt("triangle_Bfield", lambda: triangle_Bfield(obs, verts, pol))
attempt("triangle_Bfield-public", lambda: magpy.core.triangle_Bfield(observers=obs, vertices=verts, polarizations=pol))
for field in "BHJM":
    attempt(f"bhjm-{field}", lambda: BHJM_triangle(field, obs, verts, pol))
o2, v2, p2 = obs.copy(), verts.copy(), pol.copy()
res = triangle_Bfield(o2, v2, p2)
print("inputs unchanged", np.array_equal(o2, obs, equal_nan=True), np.array_equal(v2, verts), np.array_equal(p2, pol))
tri = magpy.misc.Triangle(vertices=[(0, 0, 0), (0, 0, 1), (1, 0, 0)], polarization=(0.1, -0.2, 0.3))
tri.rotate_from_angax([0, 40, 80], (1, 2, 3), start=0).move((0.1, 0.1, 0.1))
pts = rng.uniform(-1, 1, (6, 3))
res = {f: getattr(tri, f"get{f}")(pts) for f in "BHJM"}
for f in "BHJM":
    attempt(f"obj-triangle-{f}", lambda: res[f])
print("BHJ", np.allclose(res["B"], magpy.mu_0 * res["H"] + res["J"], rtol=1e-12, atol=1e-15), "J0", not res["J"].any(), not res["M"].any())
tet = magpy.magnet.Tetrahedron(vertices=[(0, 0, 0), (1, 0, 0), (0, 1, 0), (0, 0, 1)], polarization=(0.3, 0.2, -0.1))
mesh = magpy.magnet.TriangularMesh.from_ConvexHull(points=[(x, y, z) for x in (-1, 1) for y in (-1, 1) for z in (-1, 1)], polarization=(0.1, 0.2, 0.3))
pts2 = np.array([(0.1, 0.1, 0.1), (0.2, 0.2, 0.0), (2, 2, 2), (0.5, 0.5, 0.0), (0, 0, 0), (1, 1, 1), (1, 0.3, 0.2)])
for nme, src in (("tetra", tet), ("mesh", mesh)):
    res = {}
    for f in "BHJM":
        with warnings.catch_warnings():
            warnings.simplefilter("ignore")
            res[f] = getattr(src, f"get{f}")(pts2)
        digest(f"obj-{nme}-{f}", res[f])
    fin = np.isfinite(res["B"]).all(axis=1)
    print("BHJ", np.allclose(res["B"][fin], (magpy.mu_0 * res["H"] + res["J"])[fin], rtol=1e-12, atol=1e-15), "JM", np.allclose(res["J"], magpy.mu_0 * res["M"], rtol=1e-14, atol=0))
for bad in ("X", "BH", 5, None):
    attempt(f"badfield-{bad!r}", lambda: BHJM_triangle(bad, obs, verts, pol))
for label, args in {
    "obs-short": (obs[:5], verts, pol),
    "pol-short": (obs, verts, pol[:5]),
    "verts-short": (obs, verts[:5], pol),
    "verts-2corners": (obs, verts[:, :2], pol),
    "verts-4corners": (obs, np.concatenate((verts, verts[:, :1]), axis=1), pol),
    "verts-2col": (obs, verts[:, :, :2], pol),
    "obs-2col": (obs[:, :2], verts, pol),
    "verts-list": (obs, verts.tolist(), pol),
}.items():
    for field in "BJ":
        attempt(f"bad-{label}-{field}", lambda: BHJM_triangle(field, *args))
