import os, sys; sys.path.insert(0, os.getcwd())

# Exercises BaseGeo.copy -> deep copy with temporary parent detachment:
# objects with and without parent, nested collections, failing deep copy.
import re

import numpy as np
from scipy.spatial.transform import Rotation as R

import magpylib as magpy


def clean(txt):
    return re.sub(r"id=\d+", "id=#", str(txt))


def r(a):
    return np.round(np.asarray(a, dtype=float), 10).tolist()


def tree(c):
    return clean(c.describe(format="type+label", return_string=True)).split("\n")


class Bomb:
    """attribute whose deep copy fails"""

    def __init__(self, exc):
        self.exc = exc

    def __deepcopy__(self, memo):
        raise self.exc("boom")


def objs():
    return [
        magpy.magnet.Cuboid(polarization=(0.1, 0.2, 0.3), dimension=(1, 2, 3)),
        magpy.magnet.Cylinder(polarization=(0, 0, 1), dimension=(1, 2), style_label="cyl"),
        magpy.current.Circle(current=2.5, diameter=1.5, position=[(0, 0, 0), (1, 1, 1)]),
        magpy.misc.Dipole(moment=(1, 2, 3), style_color="r"),
        magpy.magnet.Sphere(polarization=(1, 2, 3), diameter=1, style={"color": "g", "label": "sp1"}),
        magpy.Sensor(pixel=[(0, 0, 0), (0.1, 0, 0)], style_label="s_09"),
        magpy.Collection(magpy.Sensor(), magpy.misc.Dipole(moment=(1, 0, 0))),
    ]


obs = np.array([(0.3, 0.4, 2.5), (-1.2, 0.7, 1.9)])

print("== copies with / without parent")
for with_parent in (False, True):
    for o in objs():
        o.rotate_from_angax([10, 20, 30], "y", anchor=(1, 0, 0), start=0)
        par = magpy.Collection(o, magpy.Sensor()) if with_parent else None
        c = o.copy()
        line = [
            type(c).__name__,
            c.parent is None,
            o.parent is par,
            o._parent is par,
            (par is None) or [x is o for x in par.children],
            (par is None) or len(par.children),
            c is not o,
            c._position is not o._position,
            r(c._position),
            r(c._orientation.as_quat()),
            c.style.label,
            o._style_kwargs,
            getattr(o, "_style", None) is None,
        ]
        if not isinstance(o, (magpy.Sensor, magpy.Collection)):
            line.append(r(c.getB(obs)) == r(o.getB(obs)))
        if isinstance(o, magpy.Collection):
            line.append([ch.parent is c for ch in c.children])
            line.append([ch.parent is o for ch in o.children])
            line.append(tree(c))
        print(line)

print("== nested tree, copy of an inner collection")
s1, s2 = magpy.Sensor(style_label="s1"), magpy.Sensor(style_label="s2")
d1 = magpy.misc.Dipole(moment=(1, 2, 3), style_label="d1")
inner = magpy.Collection(s1, d1, style_label="inner")
outer = magpy.Collection(inner, s2, style_label="outer")
cc = inner.copy()
print(cc.parent is None, inner.parent is outer, outer.children == [inner, s2])
print(tree(cc), tree(outer))
print([ch.parent is cc for ch in cc.children], [ch is not o for ch, o in zip(cc.children, inner.children)])
cc.move((1, 2, 3))
cc.add(magpy.Sensor(style_label="extra"))
cc[0].style.label = "changed"
print(r(inner.position), r(s1.position), r(cc[0].position), tree(outer), tree(cc))
co = outer.copy(position=(5, 5, 5))
print(r(co.position), r(co[0].position), r(outer.position), tree(co))
print(co[0].parent is co, co[0][0].parent is co[0], outer[0].parent is outer)

print("== failing deep copy restores the parent link")
for exc in (ValueError, KeyboardInterrupt, RuntimeError):
    for with_parent in (False, True):
        o = magpy.Sensor(style_label="x")
        par = magpy.Collection(o) if with_parent else None
        o.extra = Bomb(exc)
        try:
            o.copy()
            res = "no error"
        except BaseException as e:  # noqa: B036
            res = type(e).__name__ + ":" + str(e)
        print(exc.__name__, with_parent, res, o.parent is par, o._parent is par,
              par is None or par.children == [o])

print("== copy with parent keyword")
o = magpy.Sensor()
p1 = magpy.Collection(o)
p2 = magpy.Collection()
c = o.copy(parent=p2)
print(c.parent is p2, p2.children == [c], o.parent is p1, p1.children == [o])
c = o.copy(parent=None)
print(c.parent is None, o.parent is p1)
try:
    o.copy(parent="bad")
except Exception as e:
    print(type(e).__name__, clean(e), o.parent is p1, len(p1), len(p2))
