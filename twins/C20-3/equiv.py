import os, sys; sys.path.insert(0, os.getcwd())
import re

import magpylib as magpy
from magpylib._src.defaults.defaults_classes import default_settings
from magpylib._src.display.traces_generic import MagpyMarkers
from magpylib._src.style import get_style, get_families


def run(label, func):
    try:
        res = func()
    except BaseException as e:  # deterministic digest of the error path
        msg = str(e).split("`{")[0]  # sets in the message have no deterministic order
        msg = re.sub(r"id=\d+", "id=N", msg)[:90]
        res = f"EXC {type(e).__name__}: {msg!r}"
    print(f"{label}: {res}")


def digest(style):
    flat = style.as_dict(flatten=True, separator="_")
    return type(style).__name__, [(k, flat[k]) for k in sorted(flat) if not (flat[k] is None or flat[k] == [])]


def objects():
    verts = [(0, 0, 0), (1, 0, 0), (0, 1, 0), (0, 0, 1)]
    return {
        "cuboid": magpy.magnet.Cuboid(polarization=(0, 0, 1), dimension=(1, 1, 1)),
        "cylinder": magpy.magnet.Cylinder(polarization=(0, 0, 1), dimension=(1, 1), style_color="g"),
        "sphere": magpy.magnet.Sphere(polarization=(0, 0, 1), diameter=1, style={"magnetization_color_north": "k"}),
        "tetra": magpy.magnet.Tetrahedron(polarization=(0, 0, 1), vertices=verts),
        "mesh": magpy.magnet.TriangularMesh.from_ConvexHull(polarization=(0, 0, 1), points=verts, style_mesh_grid_show=True),
        "circle": magpy.current.Circle(current=1, diameter=1, style_arrow_size=3),
        "polyline": magpy.current.Polyline(current=1, vertices=[(0, 0, 0), (1, 1, 1)]),
        "sensor": magpy.Sensor(style_size=4, style_label="sens"),
        "dipole": magpy.misc.Dipole(moment=(0, 0, 1)),
        "triangle": magpy.misc.Triangle(polarization=(0, 0, 1), vertices=verts[:3]),
        "custom": magpy.misc.CustomSource(),
        "markers": MagpyMarkers((0, 0, 0), (1, 1, 1)),
        "collection": magpy.Collection(magpy.Sensor(), style_label="coll"),
    }


objs = objects()
for name, obj in objs.items():
    print(name, get_families(obj))
    print("   plain:", digest(get_style(obj, default_settings)))

# kwargs: nested dict + underscore notation, precedence over object style and defaults
for name in ("cuboid", "cylinder", "circle", "sensor", "dipole", "markers", "mesh", "collection"):
    obj = objs[name]
    own_before = digest(obj.style)
    run(f"{name} stripped-prefix key", lambda: digest(get_style(obj, default_settings, styleXcolor="r")))
    st = get_style(
        obj,
        default_settings,
        style={"color": "yellow", "path_line_width": 7},
        style_opacity=0.25,
        style_path_marker_size=11,
        style_magnetization_show=False,
        style_arrow_width=5,
        style_size=2,
        style_pixel_size=3,
        style_marker_symbol="x",
        unrelated_kwarg="ignored",
    )
    print(name, "kwargs:", digest(st))
    print("   own style untouched:", digest(obj.style) == own_before, st is not obj.style)

# the caller's `style` dict receives the underscore items (in place)
caller_style = {"color": "blue"}
st = get_style(objs["cuboid"], default_settings, style=caller_style, style_opacity=0.5, style_color="red")
print("caller dict:", caller_style, digest(st)[1][:3])
caller_style = {}
get_style(objs["sensor"], default_settings, style=caller_style)
print("caller dict empty:", caller_style)

# family defaults changed -> picked up, object and kwargs still win; reset restores
magpy.defaults.display.style.base.color = "purple"
magpy.defaults.display.style.base.path.line.width = 9
magpy.defaults.display.style.magnet.magnetization.color.north = "orange"
magpy.defaults.display.style.sensor.size = 13
for name in ("cuboid", "cylinder", "sphere", "sensor", "dipole"):
    print(name, "changed defaults:", digest(get_style(objs[name], default_settings, style_path_line_style=":")))
magpy.defaults.reset()
for name in ("cuboid", "sensor"):
    print(name, "after reset:", digest(get_style(objs[name], default_settings)))
other = magpy.defaults.__class__()
other.display.style.base.opacity = 0.1
print("other settings:", digest(get_style(objs["dipole"], other))[1][:6])

# error paths
run("bad top-level key", lambda: get_style(objs["cuboid"], default_settings, style_nope=1))
run("bad top-level key in dict", lambda: get_style(objs["cuboid"], default_settings, style={"nope_x": 1}))
run("bad nested key", lambda: get_style(objs["cuboid"], default_settings, style_path_nope=1))
run("bad value", lambda: get_style(objs["cuboid"], default_settings, style_opacity=3))
run("bad color", lambda: get_style(objs["cuboid"], default_settings, style_color="nocolor"))
run("other family key is skipped", lambda: digest(get_style(objs["cuboid"], default_settings, style_pixel_size=3, style_arrow_size=2))[1][:3])
run("style None", lambda: get_style(objs["cuboid"], default_settings, style=None))
run("style None + key", lambda: get_style(objs["cuboid"], default_settings, style=None, style_color="r"))
run("style not a dict", lambda: get_style(objs["cuboid"], default_settings, style="red"))
run("no display", lambda: get_style(objs["cuboid"], object()))
run("no display + bad key", lambda: get_style(objs["cuboid"], object(), style_nope=1))
run("no style attribute", lambda: get_style(object(), default_settings))
run("no style attribute + bad key", lambda: get_style(object(), default_settings, style_nope=1))
bad = magpy.Sensor(style_nope=3)
run("object with pending invalid style", lambda: get_style(bad, default_settings))
run("object with pending invalid style + bad key", lambda: get_style(bad, default_settings, style_bad=1))
