import os, sys; sys.path.insert(0, os.getcwd())
import hashlib
import re
import warnings

import numpy as np

import magpylib as magpy
from magpylib._src.fields.field_BH_cuboid import BHJM_magnet_cuboid

np.set_printoptions(precision=17, linewidth=200)


def clean(text):
    text = re.sub(r"id=\d+", "id=N", str(text))
    text = re.sub(r"0x[0-9a-f]+", "0xN", text)
    return text.replace("\n", " | ")


def fmt(res):
    if isinstance(res, np.ndarray):
        flags = (res.flags["C_CONTIGUOUS"], res.flags["F_CONTIGUOUS"], res.flags["OWNDATA"])
        h = hashlib.sha256(np.ascontiguousarray(res).tobytes()).hexdigest()[:16]
        return f"ndarray{res.shape}{res.dtype}{flags} {h} {res.tolist() if res.size <= 12 else ''}"
    return f"{type(res).__name__}:{clean(repr(res))}"


def attempt(tag, func):
    with warnings.catch_warnings(record=True) as rec:
        warnings.simplefilter("always")
        try:
            print(tag, "->", fmt(func()))
        except Exception as err:  # pylint: disable=broad-except
            print(tag, "EXC", type(err).__name__, clean(err)[:300])
    for w in rec:
        print("   WARN", w.category.__name__, clean(w.message)[:200])


# cuboid 2 x 4 x 6 (half sides 1, 2, 3): inside, faces, edges, corners, near-surface, outside
up = np.nextafter
base_obs = np.array(
    [
        (0, 0, 0),
        (0.1, 0.2, 0.3),
        (-0.9, 1.9, -2.9),
        (1, 0, 0),
        (0, -2, 0.5),
        (0.3, 0.4, 3),
        (1, 2, 0),
        (1, 0.5, -3),
        (0, 2, 3),
        (1, 2, 3),
        (-1, -2, -3),
        (up(1, 2), 0, 0),
        (up(1, 0), 0, 0),
        (1, up(2, 3), 0.1),
        (1, 2, up(3, 4)),
        (1, 2, 5),
        (2, 0, 0),
        (1.5, -2.5, 0.3),
        (0.3, 0.1, 7),
        (-3, 2, -5),
        (50, 60, 70),
    ],
    dtype=float,
)
n = len(base_obs)
base_dim = np.array([(2.0, 4.0, 6.0)] * n)
pols = [(1, 2, 3), (0, 0, 1), (1, 0, 0), (0, 1, 0), (0, 0, 0), (-1, 0.5, 0.25)]
base_pol = np.array((pols * 4)[:n], dtype=float)

print("=== BHJM at length scales x excitation scales")
for s in (1e-9, 1e-3, 1.0, 1e3, 1e9):
    for e in (1e-12, 1.0, 1e12):
        for field in "BHJM":
            attempt(
                f"s={s} e={e} {field}",
                lambda: BHJM_magnet_cuboid(
                    field=field, observers=base_obs * s, dimension=base_dim * s, polarization=base_pol * e
                ),
            )

print("=== one polarization for all observers")
for p in pols:
    for field in "BHJM":
        attempt(
            f"pol={p} {field}",
            lambda: BHJM_magnet_cuboid(
                field=field, observers=base_obs, dimension=base_dim, polarization=np.array([p] * n, dtype=float)
            ),
        )

print("=== special inputs")
cases = {
    "mixed dimensions": (
        base_obs,
        np.column_stack((np.linspace(0.5, 6, n), np.linspace(4, 0.2, n), np.linspace(1, 9, n))),
        base_pol,
    ),
    "negative side": (base_obs, base_dim * (-1, 1, 1), base_pol),
    "zero side x": (base_obs, base_dim * (0, 1, 1), base_pol),
    "zero side z": (base_obs, base_dim * (1, 1, 0), base_pol),
    "zero all": (base_obs, base_dim * 0, base_pol),
    "int inputs": (
        base_obs.astype(int),
        np.array([(2, 4, 6)] * n),
        np.array([(1, 2, 3)] * n),
    ),
    "float32": (base_obs.astype(np.float32), base_dim.astype(np.float32), base_pol.astype(np.float32)),
    "empty": (np.zeros((0, 3)), np.zeros((0, 3)), np.zeros((0, 3))),
    "single inside": (base_obs[1:2], base_dim[1:2], base_pol[1:2]),
    "single on corner": (base_obs[9:10], base_dim[9:10], base_pol[9:10]),
    "all special": (base_obs[6:11], base_dim[6:11], base_pol[6:11]),
    "nan observer": (np.array([(np.nan, 0, 0), (1, 1, 1.0)]), np.ones((2, 3)), np.ones((2, 3))),
    "inf observer": (np.array([(np.inf, 0, 0), (1, 1, 1.0)]), np.ones((2, 3)), np.ones((2, 3))),
    "nan dimension": (np.array([(0.1, 0, 0), (1, 1, 1.0)]), np.array([(np.nan, 1, 1.0), (1, 1, np.nan)]), np.ones((2, 3))),
    "nan polarization": (np.array([(0.1, 0, 0), (1, 1, 1.0)]), np.ones((2, 3)), np.array([(np.nan, 0, 0), (0, 0, np.nan)])),
    "fortran": (np.asfortranarray(base_obs), np.asfortranarray(base_dim), np.asfortranarray(base_pol)),
}
for name, (o, d, p) in cases.items():
    for field in "BHJM":
        o0, d0, p0 = o.copy(), d.copy(), p.copy()
        attempt(f"{name} {field}", lambda: BHJM_magnet_cuboid(field=field, observers=o, dimension=d, polarization=p))
        same = all(
            a.tobytes() == b.tobytes() and a.dtype == b.dtype for a, b in ((o, o0), (d, d0), (p, p0))
        )
        print("   inputs untouched:", same)

print("=== result aliasing")
for field in "BHJM":
    res = BHJM_magnet_cuboid(field=field, observers=base_obs, dimension=base_dim, polarization=base_pol)
    print(field, "shares memory with polarization:", np.shares_memory(res, base_pol))

print("=== error paths")
errs = {}
for field in ("X", "BH", "", None, "b", 5, "JM"):
    errs[f"field {field!r}"] = lambda field=field: BHJM_magnet_cuboid(
        field=field, observers=base_obs, dimension=base_dim, polarization=base_pol
    )
for field in "BHJM":
    errs[f"observers list {field}"] = lambda field=field: BHJM_magnet_cuboid(
        field=field, observers=base_obs.tolist(), dimension=base_dim, polarization=base_pol
    )
    errs[f"dimension list {field}"] = lambda field=field: BHJM_magnet_cuboid(
        field=field, observers=base_obs, dimension=base_dim.tolist(), polarization=base_pol
    )
    errs[f"polarization list {field}"] = lambda field=field: BHJM_magnet_cuboid(
        field=field, observers=base_obs, dimension=base_dim, polarization=base_pol.tolist()
    )
    errs[f"observers (n,2) {field}"] = lambda field=field: BHJM_magnet_cuboid(
        field=field, observers=base_obs[:, :2], dimension=base_dim, polarization=base_pol
    )
    errs[f"dimension (n,2) {field}"] = lambda field=field: BHJM_magnet_cuboid(
        field=field, observers=base_obs, dimension=base_dim[:, :2], polarization=base_pol
    )
    errs[f"polarization (n,4) {field}"] = lambda field=field: BHJM_magnet_cuboid(
        field=field, observers=base_obs, dimension=base_dim, polarization=np.ones((n, 4))
    )
    errs[f"short dimension {field}"] = lambda field=field: BHJM_magnet_cuboid(
        field=field, observers=base_obs, dimension=base_dim[:3], polarization=base_pol
    )
    errs[f"short observers {field}"] = lambda field=field: BHJM_magnet_cuboid(
        field=field, observers=base_obs[:3], dimension=base_dim, polarization=base_pol
    )
    errs[f"short polarization {field}"] = lambda field=field: BHJM_magnet_cuboid(
        field=field, observers=base_obs, dimension=base_dim, polarization=base_pol[:3]
    )
    errs[f"one-row polarization {field}"] = lambda field=field: BHJM_magnet_cuboid(
        field=field, observers=base_obs, dimension=base_dim, polarization=base_pol[:1]
    )
    errs[f"one-row dimension {field}"] = lambda field=field: BHJM_magnet_cuboid(
        field=field, observers=base_obs, dimension=base_dim[:1], polarization=base_pol
    )
    errs[f"observers None {field}"] = lambda field=field: BHJM_magnet_cuboid(
        field=field, observers=None, dimension=base_dim, polarization=base_pol
    )
    errs[f"all 1-D {field}"] = lambda field=field: BHJM_magnet_cuboid(
        field=field, observers=np.array([0.1, 0.2, 0.3]), dimension=np.array([2.0, 4, 6]), polarization=np.array([1.0, 2, 3])
    )
for name, func in errs.items():
    attempt(name, func)

print("=== object interface")
for s in (1e-6, 1.0, 1e6):
    for field in "BHJM":
        cub = magpy.magnet.Cuboid(
            dimension=(2 * s, 4 * s, 6 * s), polarization=(0.1, -0.2, 0.3), position=np.array((0.1, 0.2, 0.3)) * s
        )
        cub.rotate_from_angax(33, (1, 2, 3))
        attempt(f"Cuboid s={s} get{field}", lambda: getattr(cub, "get" + field)(base_obs * s))
attempt("getB dict style", lambda: magpy.getB("Cuboid", base_obs, dimension=(2, 4, 6), polarization=(1, 2, 3)))
attempt("getH dict style", lambda: magpy.getH("Cuboid", base_obs, dimension=(2, 4, 6), polarization=(1, 2, 3)))
attempt("getM dict style", lambda: magpy.getM("Cuboid", base_obs, dimension=(2, 4, 6), polarization=(1, 2, 3)))
attempt("getJ dict style", lambda: magpy.getJ("Cuboid", base_obs, dimension=(2, 4, 6), polarization=(1, 2, 3)))
