import os, sys; sys.path.insert(0, os.getcwd())
import re
import warnings
import numpy as np
import magpylib as magpy
from magpylib._src.input_checks import check_dimensions, check_excitations

warnings.simplefilter("ignore")


def run(f):
    try:
        r = f()
    except Exception as e:
        return re.sub(r"id=\d+", "id=#", f"EXC {type(e).__name__}: {e}")
    if isinstance(r, np.ndarray):
        return f"ARR {r.shape} {np.round(r, 12).tolist()}"
    return f"RET {r!r}"


tet = [(0, 0, 0), (1, 0, 0), (0, 1, 0), (0, 0, 1)]
J = (0.1, 0.2, 0.3)
makers = {
    "Cuboid": lambda d, e: magpy.magnet.Cuboid(dimension=(1, 2, 3) if d else None, polarization=J if e else None),
    "Cylinder": lambda d, e: magpy.magnet.Cylinder(dimension=(1, 2) if d else None, polarization=J if e else None),
    "CylinderSegment": lambda d, e: magpy.magnet.CylinderSegment(dimension=(1, 2, 3, 0, 90) if d else None, polarization=J if e else None),
    "Sphere": lambda d, e: magpy.magnet.Sphere(diameter=1 if d else None, polarization=J if e else None),
    "Tetrahedron": lambda d, e: magpy.magnet.Tetrahedron(vertices=tet if d else None, polarization=J if e else None),
    "Triangle": lambda d, e: magpy.misc.Triangle(vertices=tet[:3] if d else None, polarization=J if e else None),
    "Circle": lambda d, e: magpy.current.Circle(diameter=1 if d else None, current=1.5 if e else None),
    "Polyline": lambda d, e: magpy.current.Polyline(vertices=tet if d else None, current=1.5 if e else None),
    "Dipole": lambda d, e: magpy.misc.Dipole(moment=J if e else None),
    "CustomSource": lambda d, e: magpy.misc.CustomSource(field_func=(lambda field, observers: observers * 0 + 1.0) if e else None),
}
obs = (2, 3, 4)
for name, mk in makers.items():
    for d in (True, False):
        for e in (True, False):
            src = mk(d, e)
            print(name, d, e, "dim:", run(lambda: check_dimensions([src])), "exc:", run(lambda: check_excitations([src])))
            print(name, d, e, "getB:", run(lambda: src.getB(obs)), "| getH fn:", run(lambda: magpy.getH(src, obs)))

# several sources: first offender wins, dimensions are checked before excitations
good = makers["Cuboid"](True, True)
no_dim = makers["Sphere"](False, True)
no_exc = makers["Circle"](True, False)
neither = makers["Cylinder"](False, False)
for combo in ([good, no_dim, no_exc], [good, no_exc, no_dim], [no_exc, neither], [neither, no_dim], [good, good], [], (no_exc,), iter([no_dim])):
    label = [type(s).__name__ for s in combo] if isinstance(combo, (list, tuple)) else "iterator"
    if isinstance(combo, (list, tuple)) and combo:
        print(label, "getB:", run(lambda: magpy.getB(list(combo), obs)))
        print(label, "coll:", run(lambda: magpy.Collection(*[s.copy() for s in combo]).getB(obs)))
    print(label, "dim:", run(lambda: check_dimensions(combo)))
    print(label, "exc:", run(lambda: check_excitations(combo)))


# duck-typed objects: which attribute is picked, how often getters are hit, foreign exceptions pass through
class Probe:
    def __init__(self, **vals):
        self.log = []
        self.vals = vals

    def __getattr__(self, name):
        if name in ("log", "vals"):
            raise AttributeError(name)
        self.log.append(name)
        if name not in self.vals:
            raise AttributeError(name)
        v = self.vals[name]
        if isinstance(v, Exception):
            raise v
        return v

    def __repr__(self):
        return "Probe()"


for vals in [dict(), dict(dimension=None), dict(diameter=None, dimension=1), dict(diameter=None), dict(vertices=None, moment=None),
             dict(vertices=0, current=None, polarization=1), dict(moment=None), dict(diameter=ValueError("boom")), dict(current=StopIteration("si")),
             dict(dimension=False, polarization=0)]:
    for fn in (check_dimensions, check_excitations):
        p = Probe(**vals)
        print(sorted(vals), fn.__name__, run(lambda: fn([p, p])), "log:", p.log)
