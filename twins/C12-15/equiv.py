import os, sys; sys.path.insert(0, os.getcwd())
import hashlib
import itertools
import warnings

import numpy as np

import magpylib as magpy
from magpylib._src.fields import field_BH_cylinder_segment as mod
from magpylib._src.fields.field_BH_cylinder_segment import BHJM_cylinder_segment
from magpylib._src.fields.field_BH_cylinder_segment import determine_cases
from magpylib._src.fields.field_BH_cylinder_segment import magnet_cylinder_segment_Hfield

warnings.simplefilter("ignore")
np.seterr(all="ignore")
np.set_printoptions(precision=10, linewidth=200)
assert os.path.abspath(mod.__file__).startswith(os.getcwd()), mod.__file__


def digest(tag, arr):
    arr = np.asarray(arr)
    kind = arr.dtype.kind
    flags = (arr.flags["C_CONTIGUOUS"], arr.flags["F_CONTIGUOUS"], arr.flags["OWNDATA"])
    raw = np.ascontiguousarray(arr.astype(float))
    h = hashlib.sha256(raw.tobytes()).hexdigest()[:16]
    print(tag, arr.shape, kind, flags, h)
    print(np.array2string(raw.ravel()[:18], precision=10))


def attempt(tag, func):
    try:
        digest(tag, func())
    except Exception as err:  # pylint: disable=broad-except
        print(tag, "EXC", type(err).__name__, str(err)[:160].replace("\n", " | "))


rng = np.random.default_rng(6605)

# observers (r, phi, z) chosen on / off all boundary values of the segments so that every
# special case (z=z_k, phi=phi_j (+pi), r=0, r_i=0, r=r_i) is visited
segs = [
    (1.0, 2.0, 0.3, 1.2, -0.5, 0.7),
    (0.0, 1.5, -0.4, 2.0, 0.0, 1.0),
    (0.5, 0.9, 0.0, np.pi, -1.0, -0.2),
    (0.0, 2.0, 0.0, 2 * np.pi, -1.0, 1.0),
]
obs_list, dim_list = [], []
for r1, r2, p1, p2, z1, z2 in segs:
    rs = (0.0, r1, r2, 0.5 * (r1 + r2), 2.7 * r2)
    ps = (p1, p2, p1 + np.pi, p2 - np.pi, 0.5 * (p1 + p2), p1 + 2 * np.pi, p2 + 0.77)
    zs = (z1, z2, 0.5 * (z1 + z2), z2 + 1.3)
    for o in itertools.product(rs, ps, zs):
        obs_list.append(o)
        dim_list.append((r1, r2, p1, p2, z1, z2))
obs = np.array(obs_list)
dims = np.array(dim_list)
n = len(obs)
mags = np.column_stack([rng.uniform(0.5, 2, n) * 1e6, rng.uniform(-3, 3, n), rng.uniform(0, np.pi, n)])


def scaled(o, d, s):
    return o * np.array([s, 1, s]), d * np.array([s, s, 1, 1, s, s])


# case coverage of the 8-stack tiling (same tiling as in the core function)
r, phi, z = np.repeat(obs, 8, axis=0).T
r_i = np.repeat(dims[:, :2], 4)
phi_j = np.repeat(np.tile(dims[:, 2:4], 2), 2)
z_k = np.ravel(np.tile(dims[:, 4:6], 4))
cs = determine_cases(r, phi, z, r_i, phi_j, z_k)
print("cases visited:", dict(zip(*[a.tolist() for a in np.unique(cs, return_counts=True)])))

# 1) core H-field: all cases, unit / excitation scaling
for scale in (1.0, 1e-9, 1e-3, 1e3, 1e9):
    o, d = scaled(obs, dims, scale)
    for amp in (1e-12, 1.0, 1e12):
        m = mags * np.array([amp, 1, 1])
        attempt(f"core all-cases s={scale:g} a={amp:g}", lambda: magnet_cylinder_segment_Hfield(observers=o, dimensions=d, magnetizations=m))
# every row separately for the base scale (n<10 paths of helper functions, single case per call)
h = hashlib.sha256()
for i in range(0, n, 7):
    try:
        out = magnet_cylinder_segment_Hfield(obs[i:i + 1], dims[i:i + 1], mags[i:i + 1])
        h.update(np.ascontiguousarray(out).tobytes())
    except Exception as err:  # pylint: disable=broad-except
        h.update(type(err).__name__.encode())
print("core row-by-row", h.hexdigest()[:16])
attempt("core docstring", lambda: magnet_cylinder_segment_Hfield(
    observers=np.array([(1, 1, 2), (0, 0, 0)]),
    dimensions=np.array([(1, 2, 0.1, 0.2, -1, 1), (1, 2, 0.3, 0.9, 0, 1)]),
    magnetizations=np.array([(1e7, 0.1, 0.2), (1e6, 1.1, 2.2)])))
attempt("core empty", lambda: magnet_cylinder_segment_Hfield(obs[:0], dims[:0], mags[:0]))
attempt("core int", lambda: magnet_cylinder_segment_Hfield(np.array([(1, 1, 2), (3, 0, 0)]), np.array([(1, 2, 0, 1, -1, 1), (1, 2, 0, 2, 0, 1)]), np.array([(10, 1, 2), (5, 0, 1)])))
attempt("core f32", lambda: magnet_cylinder_segment_Hfield(obs[:40].astype(np.float32), dims[:40].astype(np.float32), mags[:40].astype(np.float32)))
attempt("core nan obs", lambda: magnet_cylinder_segment_Hfield(obs[:5] * np.array([np.nan, 1, 1]), dims[:5], mags[:5]))

# 2) BHJM level + object interface at several units
obs_c = rng.normal(size=(50, 3)) * 1.5
dim5 = np.tile((0.5, 1.5, 1.0, 20.0, 250.0), (50, 1))
pol = rng.normal(size=(50, 3))
for scale in (1.0, 1e-6, 1e6):
    for field in "BHJM":
        attempt(f"BHJM {field} s={scale:g}", lambda: BHJM_cylinder_segment(field, obs_c * scale, dim5 * np.array([scale, scale, scale, 1, 1]), pol))
    cs_obj = magpy.magnet.CylinderSegment(dimension=(0.5 * scale, 1.5 * scale, 1.0 * scale, 20, 250), polarization=(0.1, 0.2, 0.3))
    cs_obj.rotate_from_angax(25, (1, 2, 3))
    attempt(f"obj getB s={scale:g}", lambda: cs_obj.getB(obs_c * scale))
    attempt(f"obj getH s={scale:g}", lambda: cs_obj.getH(obs_c * scale))

# 3) error paths
attempt("err dims (n,5)", lambda: magnet_cylinder_segment_Hfield(obs, dims[:, :5], mags))
attempt("err dims (n,3)", lambda: magnet_cylinder_segment_Hfield(obs, dims[:, :3], mags))
attempt("err obs (n,2)", lambda: magnet_cylinder_segment_Hfield(obs[:, :2], dims, mags))
attempt("err mags (n,2)", lambda: magnet_cylinder_segment_Hfield(obs, dims, mags[:, :2]))
attempt("err obs short", lambda: magnet_cylinder_segment_Hfield(obs[:5], dims, mags))
attempt("err dims short", lambda: magnet_cylinder_segment_Hfield(obs, dims[:5], mags))
attempt("err mags short", lambda: magnet_cylinder_segment_Hfield(obs, dims, mags[:5]))
attempt("err obs list", lambda: magnet_cylinder_segment_Hfield(obs.tolist(), dims, mags))
attempt("err dims list", lambda: magnet_cylinder_segment_Hfield(obs, dims.tolist(), mags))
attempt("err mags list", lambda: magnet_cylinder_segment_Hfield(obs, dims, mags.tolist()))
attempt("err obs 1D", lambda: magnet_cylinder_segment_Hfield(obs[0], dims[:1], mags[:1]))
attempt("err None", lambda: magnet_cylinder_segment_Hfield(None, dims, mags))
attempt("err field", lambda: BHJM_cylinder_segment("X", obs_c, dim5, pol))
