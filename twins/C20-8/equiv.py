import os, sys; sys.path.insert(0, os.getcwd())
import pathlib
import re

import magpylib as magpy
from magpylib._src.defaults.defaults_classes import Animation, DefaultSettings, Display, default_settings
from magpylib._src.defaults.defaults_utility import get_defaults_dict


def run(label, func):
    try:
        res = func()
    except BaseException as e:  # deterministic digest of the error path
        msg = str(e).split("\n\nThe 'color' property")[0][:200]
        cause = type(e.__cause__).__name__ if e.__cause__ is not None else None
        res = f"EXC {type(e).__name__} (cause {cause}, suppress {e.__suppress_context__}): {msg!r}"
    print(f"{label}: {res}")


def set_get(obj, name, val):
    setattr(obj, name, val)
    res = getattr(obj, name)
    return type(res).__name__, res


class Odd:
    """iterable whose iteration fails with a TypeError of its own"""

    def __iter__(self):
        raise TypeError("odd iteration")

    def __repr__(self):
        return "Odd()"


def gen_colors():
    yield "r"
    yield (255, 0, 0)
    yield "#00ff00"


def gen_fail():
    yield "r"
    raise KeyError("inside generator")


# ---- Display.colorsequence -------------------------------------------------
d = Display()
print("fresh:", d.colorsequence)
run("list", lambda: set_get(d, "colorsequence", ["r", "g", "blue", ".5", (1.0, 0.0, 0.0)]))
run("tuple", lambda: set_get(d, "colorsequence", ("#123456", "rgb(1,2,3)")))
run("generator", lambda: set_get(d, "colorsequence", gen_colors()))
run("empty", lambda: set_get(d, "colorsequence", []))
run("string (iterated by characters)", lambda: set_get(d, "colorsequence", "rgb"))
run("None", lambda: set_get(d, "colorsequence", None))
d.colorsequence = ["k", "w"]
run("not iterable", lambda: set_get(d, "colorsequence", 5))
print("   kept:", d.colorsequence)
run("invalid color", lambda: set_get(d, "colorsequence", ["r", "nocolor"]))
print("   kept:", d.colorsequence)
run("None as a color", lambda: set_get(d, "colorsequence", ["r", None]))
run("unhashable color (TypeError from the cache)", lambda: set_get(d, "colorsequence", ["r", [1, 2, 3]]))
run("TypeError raised by the iterable", lambda: set_get(d, "colorsequence", Odd()))
run("other error raised by the iterable", lambda: set_get(d, "colorsequence", gen_fail()))
print("   kept:", d.colorsequence)
run("dict (keys)", lambda: set_get(d, "colorsequence", {"r": 1, "b": 2}))
run("False", lambda: set_get(d, "colorsequence", False))
run("0", lambda: set_get(d, "colorsequence", 0))
run("via update", lambda: d.update(colorsequence=("y", "m")).colorsequence)
run("via init", lambda: Display(colorsequence=["c"]).colorsequence)
run("via init bad", lambda: Display(colorsequence=3))

# ---- Animation.output --------------------------------------------------------
a = Animation()
print("fresh:", a.output)
for val in ("mp4", "gif", "movie.mp4", "x/y.gif", pathlib.PurePosixPath("a/b.gif"), None, "", "avi", "mp4 ", "GIF", 5, b"gif", ".mp4x", "gifmp4", False):
    run(f"output {val!r}", lambda: set_get(a, "output", val))
    print("   now:", repr(a.output))

# ---- through the global defaults, with reset --------------------------------
hard = get_defaults_dict("display.colorsequence")
print("hard coded:", len(hard), hard[:2])
magpy.defaults.display.colorsequence = ["r", "g"]
magpy.defaults.display.animation.output = "test.gif"
print("changed:", magpy.defaults.display.colorsequence, magpy.defaults.display.animation.output)
run("bad on defaults", lambda: setattr(magpy.defaults.display, "colorsequence", 1.5))
run("bad on defaults 2", lambda: setattr(magpy.defaults.display.animation, "output", "x.avi"))
print("kept:", magpy.defaults.display.colorsequence, magpy.defaults.display.animation.output)
print("reset returns self:", magpy.defaults.reset() is magpy.defaults)
print("reset:", magpy.defaults.display.colorsequence == tuple(hard), type(magpy.defaults.display.colorsequence).__name__, magpy.defaults.display.animation.output)
print("equal to fresh:", magpy.defaults.as_dict() == DefaultSettings().as_dict())
magpy.defaults.display.colorsequence = None
magpy.defaults.reset()
print("reset from None:", magpy.defaults.display.colorsequence == tuple(hard))

# colour cycle used for objects without colour
magpy.defaults.display.colorsequence = ["#010203", "#040506"]
objs = [magpy.Sensor() for _ in range(3)]
from magpylib._src.display.traces_utility import get_flatten_objects_properties_recursive
flat = get_flatten_objects_properties_recursive(*objs, colorsequence=magpy.defaults.display.colorsequence)
print("cycle:", [v["style"].color for v in flat.values()])
magpy.defaults.reset()
