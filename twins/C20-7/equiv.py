import os, sys; sys.path.insert(0, os.getcwd())
import re

import magpylib as magpy
from magpylib._src.defaults.defaults_utility import MagicProperties, linearize_dict
from magpylib._src.style import BaseStyle, Line, MagnetStyle, SensorStyle


def run(label, func):
    try:
        res = func()
    except BaseException as e:  # deterministic digest of the error path
        msg = re.sub(r"id=\d+", "id=N", str(e))[:140]
        res = f"EXC {type(e).__name__}: {msg!r}"
    print(f"{label}: {res}")


def items(d):
    """keeps the order of the result visible"""
    return list(d.items())


# ---- linearize_dict ----------------------------------------------------------
run("empty", lambda: items(linearize_dict({})))
run("flat", lambda: items(linearize_dict({"b": 1, "a": None})))
nested = {"line": {"width": 1, "style": "solid", "color": None}, "x": 0, "marker": {"size": 1, "sub": {"a": {}, "b": {"c": 3}}}}
run("nested .", lambda: items(linearize_dict(nested)))
run("nested _", lambda: items(linearize_dict(nested, separator="_")))
run("nested empty sep", lambda: items(linearize_dict(nested, separator="")))
run("input untouched", lambda: (linearize_dict(nested), nested)[1])
run("collision inside sub dict", lambda: items(linearize_dict({"k": {"x": {"y": 1}, "z": 0, "x.y": 2}})))
run("collision across levels", lambda: items(linearize_dict({"a": {"b.c": 1, "d": 5}, "a.b": {"c": 2}, "a.d": 6})))
run("collision leaf first", lambda: items(linearize_dict({"a.b": 1, "c": 2, "a": {"b": 3}})))
run("non str keys", lambda: items(linearize_dict({1: {2: {3: "x"}, (4, 5): "y"}, 6: "z", None: {"n": 0}})))
run("int/str key collision", lambda: items(linearize_dict({1: {2: "a"}, "1.2": "b", "1": {"2": "c"}})))
run("empty sub dicts vanish", lambda: items(linearize_dict({"a": {}, "b": {"c": {}}, "d": 1})))
run("values kept by identity", lambda: (lambda v: linearize_dict({"a": {"b": v}})["a.b"] is v)([1, 2]))
run("not a dict", lambda: linearize_dict([("a", 1)]))
run("separator not str", lambda: linearize_dict({"a": {"b": 1}}, separator=1))
run("separator not str, flat", lambda: linearize_dict({"a": 1}, separator=None))
from collections import OrderedDict, UserDict
run("dict subclass", lambda: (type(linearize_dict(OrderedDict(a=OrderedDict(b=1)))).__name__, items(linearize_dict(OrderedDict(a=OrderedDict(b=1))))))
run("UserDict value is a leaf", lambda: items(linearize_dict({"a": UserDict(b=1)})))
run("result is new", lambda: (lambda d: linearize_dict(d) is not d)({"a": 1}))

# ---- as_dict ------------------------------------------------------------------
st = MagnetStyle(color="r", path_line_width=2, magnetization_color_north="blue")
run("as_dict nested", lambda: st.as_dict()["path"])
run("as_dict keys", lambda: list(st.as_dict()))
run("as_dict flat .", lambda: [kv for kv in items(st.as_dict(flatten=True)) if kv[1] is not None])
run("as_dict flat _", lambda: [kv for kv in items(st.as_dict(flatten=True, separator="_")) if kv[1] is not None])
run("as_dict flatten truthy 1", lambda: list(Line(width=1).as_dict(flatten=1)))
run("as_dict flatten falsy ''", lambda: Line(width=1).as_dict(flatten="", separator=3))
run("as_dict bad separator", lambda: Line(width=1).as_dict(flatten=True, separator=3))
run("as_dict independent", lambda: (lambda d: (d["path"]["line"].update(width=99), st.path.line.width)[1])(st.as_dict()))
run("model3d data list is a leaf", lambda: (lambda s: s.as_dict()["model3d"]["data"] is s.model3d.data)(BaseStyle()))
run("defaults flat count", lambda: len(magpy.defaults.as_dict(flatten=True)))
run("defaults flat first", lambda: items(magpy.defaults.as_dict(flatten=True, separator="/"))[:4])

# ---- update: three notations, last wins ------------------------------------
s = SensorStyle()
run("update returns self", lambda: s.update(color="r") is s)
run("update magic", lambda: (s.update(pixel_size=3, path_line_width=2), s.pixel.size, s.path.line.width)[1:])
run("update dict", lambda: (s.update({"pixel": {"size": 4}}), s.pixel.size)[1])
run("update dict + kwargs, kwargs win", lambda: (s.update({"pixel_size": 5, "color": "g"}, pixel_size=6), s.pixel.size, s.color)[1:])
arg = {"pixel": {"size": 7}}
run("update arg untouched", lambda: (s.update(arg, pixel_symbol="x"), arg, s.pixel.symbol)[1:])
run("update None", lambda: s.update(None).pixel.size)
run("update no match raise", lambda: s.update(nope=1))
run("update no match nested raise", lambda: s.update(pixel_nope=1))
run("update no match silent", lambda: (s.update(nope=1, pixel_nope=2, pixel_size=8, _match_properties=False), s.pixel.size)[1])
run("update replace None only", lambda: (s.update(pixel_size=1, opacity=0.5, _replace_None_only=True), s.pixel.size, s.opacity)[1:])
run("update bad value", lambda: s.update(opacity=3))
run("state after bad value", lambda: s.opacity)
run("update arg without copy", lambda: s.update([("color", "r")]))
run("update arg str", lambda: s.update("color"))
run("update arg tuple", lambda: s.update(()))
run("update arg style object", lambda: s.update(SensorStyle(color="b")))
run("update conflicting leaf then branch", lambda: (s.update({"pixel": None, "pixel_size": 2}), s.pixel.size)[1])

# ---- frozen attributes, repr ----------------------------------------------
run("setattr unknown", lambda: setattr(s, "nope", 1))
run("setattr unknown nested", lambda: setattr(s.pixel, "colour", "r"))
run("setattr private existing", lambda: (setattr(s, "_color", "k"), s.color)[1])
run("setattr known", lambda: (setattr(s, "color", "y"), s.color)[1])
run("init unknown", lambda: Line(nope=1))
run("repr", lambda: repr(Line(width=2, color="r")))
run("repr nested", lambda: repr(SensorStyle(pixel_size=2).pixel))
run("repr defaults", lambda: len(repr(magpy.defaults)))


class Sub(MagicProperties):
    @property
    def a(self):
        return self._a

    @a.setter
    def a(self, val):
        self._a = val

    def __init__(self, **kw):
        self.before_freeze = 1
        super().__init__(**kw)


sub = Sub(a={"x": 1})
run("dict leaf in as_dict", lambda: (sub.as_dict(), sub.as_dict(flatten=True), sub.before_freeze))
run("dict leaf update", lambda: (sub.update(a_y=2), sub.a)[1])
run("dict leaf update 2", lambda: (sub.update(a={"z": 3}), sub.a)[1])
run("sub setattr new", lambda: setattr(sub, "b", 1))
run("sub repr", lambda: repr(sub))
