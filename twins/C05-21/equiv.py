import os, sys; sys.path.insert(0, os.getcwd())
import hashlib
import re
import warnings

import numpy as np


def noid(txt):
    """object ids differ from run to run"""
    return re.sub(r"id=\d+", "id=#", re.sub(r"0x[0-9a-f]+", "0x#", txt))


def dig(x):
    """deterministic digest of an array / dataframe / anything"""
    try:
        import pandas as pd

        if isinstance(x, pd.DataFrame):
            return (
                f"df{x.shape} cols={list(x.columns)} "
                + hashlib.sha1(noid(x.to_csv()).encode()).hexdigest()[:12]
            )
    except ImportError:
        pass
    a = np.asarray(x)
    if a.dtype == object:
        return f"obj {a!r}"
    a = np.ascontiguousarray(a, dtype=float)
    return (
        f"{a.shape} sum={np.round(np.nansum(a), 12)!r} "
        + hashlib.sha1(a.tobytes()).hexdigest()[:12]
    )


def run(label, func, *args, **kwargs):
    """call and print digest or exception (type, first and last message line)"""
    with warnings.catch_warnings(record=True) as wlist:
        warnings.simplefilter("always")
        try:
            res = func(*args, **kwargs)
            out = dig(res)
        except BaseException as err:  # pylint: disable=broad-except
            msg = str(err).strip().splitlines() or [""]
            out = noid(f"!! {type(err).__name__}: {msg[0][:150]} || {msg[-1][:150]}")
            res = None
    wtxt = "".join(
        noid(f" [W {w.category.__name__}: {str(w.message)[:60]}]") for w in wlist
    )
    print(f"{label}: {out}{wtxt}")
    return res

import magpylib as magpy
from magpylib._src.obj_classes.class_Collection import BaseCollection


def make():
    s1 = magpy.magnet.Cuboid(polarization=(0.1, 0.2, 0.3), dimension=(1, 2, 3), position=(0.5, 0, 0))
    s2 = magpy.current.Circle(current=3.0, diameter=2.0, position=[(0, 0, 0.1), (0, 0, 0.2), (0, 0, 0.3)])
    s3 = magpy.misc.Dipole(moment=(1, 2, 3), position=(-1, 0.3, 0))
    s4 = magpy.magnet.Sphere(polarization=(0, 0, 1), diameter=1.0).rotate_from_angax(30, "x")
    x1 = magpy.Sensor(position=(0, 0, 2), pixel=[(0, 0, 0), (0.1, 0, 0)])
    x2 = magpy.Sensor(position=[(1, 1, 1), (1, 1, 2)], pixel=[(0, 0, 0), (0, 0.1, 0)], handedness="left")
    x2.rotate_from_angax(40, "y", start=0)
    x3 = magpy.Sensor(position=(3, 0, 0), pixel=[(0, 0, 0), (0, 0, 0.1), (0.1, 0.1, 0)])
    for i, o in enumerate((s1, s2, s3, s4, x1, x2, x3)):
        o.style.label = f"o{i}"
    return s1, s2, s3, s4, x1, x2, x3


METHODS = ("getB", "getH", "getM", "getJ")
OBS = {
    "none": (),
    "pos": ((1, 2, 3),),
    "poslist": ([(1, 2, 3), (2, 3, 4)],),
    "three": ((1, 2, 3), (2, 3, 4), (0, 0, 0)),
}

s1, s2, s3, s4, x1, x2, x3 = make()
c_src = magpy.Collection(s1, magpy.Collection(s2, s3, style_label="inner"), s4, style_label="c_src")
print("== source collections")
for meth in METHODS:
    for oname, obs in OBS.items():
        for kw in ({}, {"squeeze": False}, {"pixel_agg": "mean"}, {"squeeze": False, "pixel_agg": "max"}, {"output": "dataframe"}):
            run(f"c_src.{meth}({oname},{kw})", getattr(c_src, meth), *obs, **kw)
    run(f"c_src.{meth}(x1,x2)", getattr(c_src, meth), x1, x2)
    run(f"c_src.{meth}([x1,x2])", getattr(c_src, meth), [x1, x2])
    run(f"c_src.{meth}(x1,x3) ragged", getattr(c_src, meth), x1, x3)
    run(f"c_src.{meth}(x1,x3,agg)", getattr(c_src, meth), x1, x3, pixel_agg="min")

print("== collection entry equals the sum of its sources, and equals functional form")
for meth, f in zip(METHODS, "BHMJ"):
    top = getattr(magpy, meth)
    a = getattr(c_src, meth)(x1, x2, squeeze=False)
    b = top(c_src, [x1, x2], squeeze=False)
    c = top([s1, s2, s3, s4], [x1, x2], sumup=True, squeeze=False)
    d = top([s1, s2, s3, s4], [x1, x2], squeeze=False)
    print(meth, dig(a), np.array_equal(a, b), np.allclose(a, c, rtol=1e-12, atol=1e-18), dig(np.sum(d, axis=0, keepdims=True)))

print("== sensor collections")
c_sens = magpy.Collection(x1, magpy.Collection(x2, style_label="inner2"), style_label="c_sens")
for meth in METHODS:
    run(f"c_sens.{meth}()", getattr(c_sens, meth))
    for label, srcs in (("c_src", (c_src,)), ("s1,c_src,s2", (s1, c_src, s2)), ("[s1,s4]", ([s1, s4],)), ("x1", (x1,)), ("str", ("Cuboid",)), ("pos", ((1, 2, 3),))):
        for kw in ({}, {"squeeze": False}, {"output": "dataframe"}, {"pixel_agg": "mean"}):
            run(f"c_sens.{meth}({label},{kw})", getattr(c_sens, meth), *srcs, **kw)

print("== mixed collection")
t1, t2, t3, t4, y1, y2, y3 = make()
c_mix = magpy.Collection(t1, y1, magpy.Collection(t2, y2, style_label="in3"), style_label="c_mix")
for meth in METHODS:
    for kw in ({}, {"squeeze": False}, {"output": "dataframe"}, {"pixel_agg": "mean", "squeeze": False}):
        run(f"c_mix.{meth}({kw})", getattr(c_mix, meth), **kw)
    run(f"c_mix.{meth}(pos)", getattr(c_mix, meth), (1, 2, 3))
    run(f"c_mix.{meth}(src)", getattr(c_mix, meth), t3)
    a = getattr(c_mix, meth)(squeeze=False)
    b = getattr(magpy, meth)(c_mix, c_mix, squeeze=False)
    print(meth, "mix equal functional", np.array_equal(a, b))

print("== empty / bad")
c_empty = magpy.Collection(style_label="c_empty")
c_nest_empty = magpy.Collection(magpy.Collection(style_label="e2"), style_label="c_ne")
for meth in METHODS:
    for cname, col in (("empty", c_empty), ("nest_empty", c_nest_empty)):
        run(f"{cname}.{meth}()", getattr(col, meth))
        run(f"{cname}.{meth}(s4)", getattr(col, meth), s4)
        run(f"{cname}.{meth}(pos)", getattr(col, meth), (1, 2, 3))
    # keywords that the collection form does not know
    run(f"c_src.{meth}(sumup=True)", getattr(c_src, meth), (1, 2, 3), sumup=True)
    run(f"c_src.{meth}(in_out=inside)", getattr(c_src, meth), (1, 2, 3), in_out="inside")
    run(f"c_src.{meth}(field=H)", getattr(c_src, meth), (1, 2, 3), field="H")
    run(f"c_src.{meth}(bad output)", getattr(c_src, meth), (1, 2, 3), output="xx")
    run(f"c_src.{meth}(bad agg)", getattr(c_src, meth), (1, 2, 3), pixel_agg="xx")
    run(f"c_src.{meth}(squeeze=0)", getattr(c_src, meth), (1, 2, 3), squeeze=0)
    run(f"c_src.{meth}(bad obs)", getattr(c_src, meth), "abc")
    run(f"c_src.{meth}(positional squeeze)", getattr(c_src, meth), (1, 2, 3), False)

print("== in_out stays automatic for collections (tetrahedron inside/outside)")
tet = magpy.magnet.Tetrahedron(polarization=(0, 0, 1), vertices=[(0, 0, 0), (1, 0, 0), (0, 1, 0), (0, 0, 1)])
c_tet = magpy.Collection(tet, s1.copy(style_label="s1c"))
for meth in METHODS:
    run(f"c_tet.{meth}", getattr(c_tet, meth), [(0.1, 0.1, 0.1), (2, 2, 2)])

print("== uninitialised source inside, paths restored")
bad = magpy.magnet.Cuboid(dimension=(1, 1, 1))
c_bad = magpy.Collection(s1.copy(style_label="s1d"), bad)
for meth in METHODS:
    run(f"c_bad.{meth}", getattr(c_bad, meth), x2)
print(dig(s1.position), dig(x2.position), dig(x2.orientation.as_quat()), len(s2._position), len(s1._position), len(x2._position))

print("== BaseCollection without BaseGeo, subclass overriding the selection")
class Sub(magpy.Collection):
    def _validate_getBH_inputs(self, *inputs):
        print("   sub validate called with", len(inputs))
        return super()._validate_getBH_inputs(*inputs)

u1, u2, *_ = make()
sub = Sub(u1, u2)
for meth in METHODS:
    run(f"sub.{meth}", getattr(sub, meth), (1, 2, 3), (2, 3, 4))
print("signature", [str(__import__("inspect").signature(getattr(magpy.Collection, m))) for m in METHODS])
