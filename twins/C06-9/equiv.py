import os, sys; sys.path.insert(0, os.getcwd())
import hashlib
import warnings

import numpy as np

import magpylib as magpy
from magpylib._src.fields.field_BH_polyline import BHJM_current_polyline
from magpylib._src.fields.field_BH_polyline import current_polyline_Hfield
from magpylib._src.fields.field_BH_polyline import current_vertices_field

warnings.simplefilter("ignore")


def dig(name, func, *args, **kwargs):
    try:
        arr = func(*args, **kwargs)
    except Exception as err:  # pylint: disable=broad-except
        print(name, type(err).__name__, str(err)[:140].replace("\n", " "))
        return
    arr = np.ascontiguousarray(np.asarray(arr, dtype=float))
    h = hashlib.sha256(arr.tobytes()).hexdigest()[:16]
    print(name, arr.shape, h, np.round(arr.ravel()[:6], 12).tolist())


rng = np.random.default_rng(11)
n = 12
obs = rng.uniform(-2, 2, (n, 3))
start = rng.uniform(-1, 1, (n, 3))
end = rng.uniform(-1, 1, (n, 3))
cur = rng.uniform(-5, 5, n)

# 1) core function: general positions
dig("H general", current_polyline_Hfield, obs, start, end, cur)
dig("H single", current_polyline_Hfield, obs[:1], start[:1], end[:1], cur[:1])
dig("H none", current_polyline_Hfield, obs[:0], start[:0], end[:0], cur[:0])

# 2) core function: observers on the line of some / all segments
obs_on = obs.copy()
obs_on[2] = start[2] + 0.3 * (end[2] - start[2])  # on the segment
obs_on[5] = start[5] + 1.7 * (end[5] - start[5])  # on the extension of the segment
obs_on[9] = start[9]  # on the start point
dig("H some on line", current_polyline_Hfield, obs_on, start, end, cur)
dig("H first on line", current_polyline_Hfield, obs_on[2:4], start[2:4], end[2:4], cur[2:4])
t = np.linspace(-1, 2, n)[:, None]
dig("H all on line", current_polyline_Hfield, start + t * (end - start), start, end, cur)
dig("H one on line", current_polyline_Hfield, start[:1], start[:1], end[:1], cur[:1])
dig("H int input", current_polyline_Hfield,
    np.array([[0, 0, 0], [1, 1, 0]]), np.array([[-1, 0, 0], [0, 0, 0]]),
    np.array([[1, 0, 0], [1, 0, 0]]), np.array([3, 4]))
# mirrored geometries (sign cases of the end point angles)
pts = np.array([(-3, 1, 0), (-0.5, 1, 0), (0, 1, 0), (0.5, 1, 0), (1, 1, 0), (3, 1, 0)], float)
dig("H along", current_polyline_Hfield, pts, np.zeros((6, 3)),
    np.tile((1.0, 0, 0), (6, 1)), np.ones(6))

# 3) core function: error paths
dig("H short currents", current_polyline_Hfield, obs, start, end, cur[:5])
dig("H short currents on line", current_polyline_Hfield, obs_on, start, end, cur[:5])
dig("H scalar current", current_polyline_Hfield, obs, start, end, 2.0)
dig("H scalar current on line", current_polyline_Hfield, obs_on, start, end, 2.0)
dig("H short observers", current_polyline_Hfield, obs_on[:5], start, end, cur)
dig("H list input", current_polyline_Hfield, obs.tolist(), start, end, cur)

# 4) BHJM level: zero-length and NaN segments are skipped
start0, end0 = start.copy(), end.copy()
end0[1] = start0[1]
start0[4] = np.nan
end0[7] = np.nan
for field in "BHJM":
    dig(f"BHJM {field} clean", BHJM_current_polyline, field, obs, start, end, cur)
    dig(f"BHJM {field} zero segs", BHJM_current_polyline, field, obs_on, start0, end0, cur)
dig("BHJM all zero", BHJM_current_polyline, "B", obs, start, start, cur)
dig("BHJM one zero", BHJM_current_polyline, "H", obs[:1], start[:1], start[:1], cur[:1])
dig("BHJM empty", BHJM_current_polyline, "B", obs[:0], start[:0], end[:0], cur[:0])
dig("BHJM bad field", BHJM_current_polyline, "X", obs, start, end, cur)
dig("BHJM short current", BHJM_current_polyline, "B", obs, start0, end0, cur[:5])
dig("BHJM short current clean", BHJM_current_polyline, "B", obs, start, end, cur[:5])
dig("BHJM scalar current", BHJM_current_polyline, "B", obs, start0, end0, 1.0)
dig("BHJM short observers", BHJM_current_polyline, "H", obs[:5], start0, end0, cur)

# 5) vertex interface and object oriented interface, ragged vertex sets
verts = np.array([[(0, 0, 0), (1, 0, 0), (1, 0, 0), (1, 1, 0)]] * 3, float)
dig("vertices", current_vertices_field, "B", obs[:3], cur[:3], verts)
line1 = magpy.current.Polyline(current=1.5, vertices=[(0, 0, 0), (1, 0, 0), (1, 1, 0)])
line2 = magpy.current.Polyline(
    current=-2, vertices=[(0, 0, 0), (0, 0, 1), (0, 0, 1), (0, 1, 1), (1, 1, 1)]
)
line2.move([(0.1, 0, 0), (0.2, 0, 0)])
sens = magpy.Sensor(pixel=[(0.5, 0, 0), (2, 0, 0), (0.3, 0.2, 0.1), (0, 0, 0.5)])
dig("obj B", magpy.getB, [line1, line2, line1], [sens, (0.5, 0.5, 0.5)],
    squeeze=False, pixel_agg="mean")
dig("obj H", magpy.getH, [line2, line1], sens, squeeze=False)
dig("dict B", magpy.getB, "Polyline", obs, current=cur, segment_start=start0, segment_end=end0)
