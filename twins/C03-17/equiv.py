import os, sys; sys.path.insert(0, os.getcwd())
import hashlib
import re
import warnings

import numpy as np
from scipy.spatial.transform import Rotation as R

import magpylib as magpy

warnings.simplefilter("ignore")


def dig(name, val):
    """print a deterministic (bit-exact) digest of an array or exception"""
    if isinstance(val, BaseException):
        msg = re.sub(r"id=\d+|0x[0-9a-f]+", "#", str(val))
        print(f"{name}: EXC {type(val).__name__}: {msg[:120]!r}")
    elif val is None:
        print(f"{name}: None")
    else:
        a = np.asarray(val, dtype=float)
        h = hashlib.sha256(np.ascontiguousarray(a).tobytes()).hexdigest()[:16]
        print(f"{name}: shape={a.shape} sha={h} sum={np.sum(a):.12e}")


def run(name, func):
    try:
        dig(name, func())
    except Exception as err:  # pylint: disable=broad-except
        dig(name, err)


def state(objs):
    parts = []
    for o in objs:
        parts.append(o._position.tobytes())
        parts.append(o._orientation.as_quat().tobytes())
    return hashlib.sha256(b"".join(parts)).hexdigest()[:16]


rot3 = R.from_rotvec([[0.1, 0.2, 0.3], [0.5, -0.4, 0.3], [1.0, 2.0, -0.5]])
pix = [(0, 0, 0), (0.1, 0, 0), (0, 0.1, 0.2)]


def mk():
    """fresh sources: leaves, flat / nested / single-child collections"""
    o = {}
    o["cub"] = magpy.magnet.Cuboid(
        polarization=(0.1, 0.2, 0.3), dimension=(1, 2, 3), position=(0.1, 0.2, 0.3)
    ).rotate_from_angax(33, (1, 2, 3))
    o["circ"] = magpy.current.Circle(current=12.0, diameter=2.5, position=(0, 0, -2))
    o["circ"].rotate_from_angax([10, 20, 30], "x", anchor=0)
    o["dip"] = magpy.misc.Dipole(moment=(1, 2, 3), position=(-3, 1, 1))
    o["sph"] = magpy.magnet.Sphere(polarization=(0.3, 0, 0.1), diameter=0.7, position=(2, -3, 1))
    o["cyl"] = magpy.magnet.Cylinder(polarization=(0, 0.2, 0.1), dimension=(1, 2), position=(5, 5, 5))
    o["line"] = magpy.current.Polyline(current=3, vertices=[(0, 0, 0), (1, 1, 1), (2, 0, 1)])
    o["dip2"] = magpy.misc.Dipole(moment=(-1, 0.5, 3), position=(3, -1, -1))
    o["col2"] = magpy.Collection(o["dip"], o["sph"]).rotate_from_angax(25, "y", anchor=(0, 0, 1))
    o["col1"] = magpy.Collection(o["cyl"]).move((0.1, 0.1, 0.1))
    inner = magpy.Collection(o["line"], magpy.Sensor(position=(9, 9, 9)))
    o["nest"] = magpy.Collection(inner, o["dip2"]).rotate_from_angax([5, 10], "z", anchor=0)
    o["inner"] = inner
    return o


o = mk()
sens = magpy.Sensor(pixel=pix, position=(4, 4, 4)).rotate(rot3, anchor=0, start=0)
sens_l = magpy.Sensor(pixel=pix, position=(-4, 3, 2), handedness="left").rotate_from_angax(
    70, (1, 0, 1)
)
obs = [(1.5, 2.5, 3.5), (-2, 4, 1)]
allobjs = [v for v in o.values()] + [sens, sens_l]

cases = {
    "no-col": ["cub", "circ", "dip2"],
    "col-first": ["col2", "cub", "circ"],
    "col-last": ["cub", "circ", "col2"],
    "col-mid": ["cub", "col2", "circ"],
    "col-only": ["col2"],
    "col1-only": ["col1"],
    "col1-mixed": ["cub", "col1", "circ"],
    "only-single-child-cols": ["col1", "col1"],
    "two-cols": ["col2", "col1"],
    "two-cols-rev": ["col1", "col2"],
    "cols-interleaved": ["col2", "cub", "col1", "circ", "nest"],
    "nested": ["nest"],
    "nested+inner": ["nest", "inner", "line"],
    "col-and-own-child": ["col2", "dip", "sph"],
    "child-then-col": ["sph", "col2"],
    "same-col-twice": ["col2", "col2"],
    "same-col-thrice-mixed": ["col2", "cub", "col2", "nest", "col2"],
    "many": ["cub", "col2", "col1", "nest", "circ", "dip2", "inner", "col2"],
}
for cname, keys in cases.items():
    src = [o[k] for k in keys]
    before = state(allobjs)
    run(f"{cname}/B/pos", lambda: magpy.getB(src, obs))
    run(f"{cname}/H/sens", lambda: magpy.getH(src, [sens, sens_l]))
    run(f"{cname}/B/sumup", lambda: magpy.getB(src, [sens_l, sens], sumup=True))
    run(f"{cname}/B/nosqueeze", lambda: magpy.getB(src, sens, squeeze=False))
    run(f"{cname}/J/agg", lambda: magpy.getJ(src, [sens, (0.2, 0.2, 0.2)], pixel_agg="mean"))
    run(
        f"{cname}/df",
        lambda: magpy.getB(src, sens_l, output="dataframe")[["Bx", "By", "Bz"]].to_numpy(),
    )
    print(f"{cname}/state-unchanged:", before == state(allobjs))

# bare (non-list) inputs and methods
run("bare-col", lambda: magpy.getB(o["col2"], obs))
run("bare-nest", lambda: magpy.getH(o["nest"], sens))
run("tuple-input", lambda: magpy.getB((o["col2"], o["cub"]), obs))
run("col.getB", lambda: o["nest"].getB(sens, sens_l))
run("sens.getB", lambda: sens.getB(o["col2"], o["cub"], o["nest"]))
run("sum-of-children", lambda: magpy.getB(o["col2"], obs) - magpy.getB([o["dip"], o["sph"]], obs, sumup=True))

# C03 on a collection: rigid motion of the whole setup
glob = R.from_rotvec((0.3, -0.7, 0.2))
shift = np.array((0.3, -1.2, 2.2))
o2 = mk()
B0 = magpy.getB([o2["nest"], o2["col2"], o2["cub"]], sens)
s1 = sens.copy().rotate(glob, anchor=0).move(shift)
for k in ("nest", "col2", "cub"):
    o2[k].rotate(glob, anchor=0).move(shift)
B1 = magpy.getB([o2["nest"], o2["col2"], o2["cub"]], s1)
print("covariant:", bool(np.allclose(B0, B1, rtol=1e-9, atol=1e-16)))
dig("cov/B0", B0)
dig("cov/B1", B1)

# error paths
run("err/empty-col", lambda: magpy.getB([o["cub"], magpy.Collection()], obs))
run("err/sensor-only-col", lambda: magpy.getB([magpy.Collection(magpy.Sensor()), o["cub"]], obs))
run("err/empty-list", lambda: magpy.getB([], obs))
run("err/nested-list", lambda: magpy.getB([[o["col2"]], o["cub"]], obs))
run("err/not-a-source", lambda: magpy.getB([o["col2"], sens], obs))
run("err/no-dimension", lambda: magpy.getB([o["col2"], magpy.magnet.Cuboid(polarization=(1, 2, 3))], obs))
run("err/kwargs", lambda: magpy.getB([o["col2"]], obs, position=(1, 2, 3)))


class NoField(magpy.misc.CustomSource):
    """custom source in a collection whose field function returns None"""


nf = NoField(field_func=lambda field, observers: None)
colnf = magpy.Collection(o2["dip"].copy(), nf)
before = state([sens, sens_l])
run("err/none-field-in-col", lambda: magpy.getB([colnf, o["cub"]], [sens, sens_l]))
print("err/state-unchanged:", before == state([sens, sens_l]))
