import os, sys; sys.path.insert(0, os.getcwd())
import hashlib
import warnings

import numpy as np

import magpylib as magpy
from magpylib._src.fields.field_BH_cylinder_segment import BHJM_cylinder_segment
from magpylib._src.fields.field_BH_cylinder_segment import BHJM_cylinder_segment_internal

warnings.simplefilter("ignore")
np.set_printoptions(precision=10, linewidth=200)


def digest(tag, arr):
    arr = np.asarray(arr)
    kind = arr.dtype.kind
    arr = np.ascontiguousarray(arr.astype(float))
    h = hashlib.sha256(arr.tobytes()).hexdigest()[:16]
    print(tag, arr.shape, kind, h)
    print(np.array2string(arr.ravel()[:15], precision=10))


def attempt(tag, func):
    try:
        digest(tag, func())
    except Exception as err:  # pylint: disable=broad-except
        print(tag, "EXC", type(err).__name__, str(err)[:120].replace("\n", " | "))


rng = np.random.default_rng(2303)

# segment (r1, r2, h, phi1, phi2) = (1, 2, 2, 20, 110)
c20, s20 = np.cos(np.deg2rad(20)), np.sin(np.deg2rad(20))
c60, s60 = np.cos(np.deg2rad(60)), np.sin(np.deg2rad(60))
special = np.array(
    [
        (1.5 * c60, 1.5 * s60, 0.2),  # inside
        (1.5 * c60, 1.5 * s60, 1.0),  # top face
        (1.0 * c60, 1.0 * s60, 0.3),  # inner shell
        (2.0 * c60, 2.0 * s60, -0.3),  # outer shell
        (1.5 * c20, 1.5 * s20, 0.1),  # phi1 face
        (2.0 * c20, 2.0 * s20, 1.0),  # corner
        (0, 0, 0),  # axis
        (0, 0, 3),  # axis outside
        (-1.5, -0.2, 0.4),  # outside, negative phi
        (1.5 * c60, 1.5 * s60, 2.5),  # above
        (3, 3, 3),
        (1.5 * c60, -1.5 * s60, 0.2),
    ],
    dtype=float,
)
rand = rng.uniform(-2.5, 2.5, size=(6, 3))
obs0 = np.concatenate([special, rand])
n = len(obs0)
dim0 = np.tile((1.0, 2.0, 2.0, 20.0, 110.0), (n, 1))
dim0[-1] = (0.0, 2.0, 2.0, -40.0, 200.0)  # r1 = 0
dim0[-2] = (-1.0, 2.0, -2.0, 20.0, 110.0)  # negative r1, h -> abs
pol0 = rng.uniform(-1, 1, size=(n, 3))
pol0[3] = (0, 0, 1)
pol0[4] = 0
lscale = np.array([1, 1, 1, 0, 0])  # only lengths are scaled, angles are not

for scale in (1.0, 1e-9, 1e-3, 1e6, 1e9):
    for pscale in (1.0, 1e-12, 1e12):
        for field in "BHJM":
            dim = dim0 * np.where(lscale == 1, scale, 1.0)
            attempt(
                f"seg s={scale:g} p={pscale:g} {field}",
                lambda: BHJM_cylinder_segment(
                    field=field, observers=obs0 * scale, dimension=dim, polarization=pol0 * pscale
                ),
            )

# all observers on the surface -> early return
on_surf = special[[1, 2, 3, 4, 5]]
for field in "BHJM":
    attempt(
        f"seg all-surface {field}",
        lambda: BHJM_cylinder_segment(field, on_surf, dim0[:5], pol0[:5] + 0.5),
    )
# integer input, empty input, inputs untouched, layout of result
obs_i = np.array([(1, 1, 0), (3, 0, 0), (0, 0, 0)])
dim_i = np.array([(1, 2, 2, 0, 90)] * 3)
pol_i = np.array([(1, 2, 3), (0, 0, 1), (1, 0, 0)])
for field in "BHJM":
    attempt(f"seg int {field}", lambda: BHJM_cylinder_segment(field, obs_i, dim_i, pol_i))
    attempt(f"seg empty {field}", lambda: BHJM_cylinder_segment(field, obs0[:0], dim0[:0], pol0[:0]))
o, d, p = obs0.copy(), dim0.copy(), pol0.copy()
res = BHJM_cylinder_segment("B", o, d, p)
print("untouched", np.array_equal(o, obs0), np.array_equal(d, dim0), np.array_equal(p, pol0),
      res.dtype, res.shape, res.flags["C_CONTIGUOUS"], res.flags["OWNDATA"])

# internal version: mixture of segments, full cylinders and hollow full cylinders
dim_int = dim0.copy()
dim_int[0] = (0.0, 2.0, 2.0, 0.0, 360.0)  # full solid cylinder
dim_int[1] = (1.0, 2.0, 2.0, 0.0, 360.0)  # full hollow cylinder
dim_int[2] = (1.0, 2.0, 2.0, -90.0, 270.0)  # full hollow cylinder
dim_int[6] = (0.5, 2.0, 2.0, 10.0, 400.0)  # > 360
dim_int[7] = (0.0, 1.0, 1.0, 0.0, 360.0)
dim_int[9] = (1.0, 2.0, 2.0, 0.0, 359.0)
for scale in (1.0, 1e-9, 1e-3, 1e6, 1e9):
    for pscale in (1.0, 1e-12, 1e12):
        for field in "BHJM":
            dim = dim_int * np.where(lscale == 1, scale, 1.0)
            attempt(
                f"int s={scale:g} p={pscale:g} {field}",
                lambda: BHJM_cylinder_segment_internal(
                    field=field, observers=obs0 * scale, polarization=pol0 * pscale, dimension=dim
                ),
            )
for field in "BH":
    attempt(f"int only-full {field}", lambda: BHJM_cylinder_segment_internal(field, obs0[:3], pol0[:3], dim_int[:3]))
    attempt(f"int only-seg {field}", lambda: BHJM_cylinder_segment_internal(field, obs0[3:6], pol0[3:6], dim_int[3:6]))
    attempt(f"int empty {field}", lambda: BHJM_cylinder_segment_internal(field, obs0[:0], pol0[:0], dim_int[:0]))

# object interface at three units
for scale in (1.0, 1e-6, 1e6):
    def build():
        seg = magpy.magnet.CylinderSegment(
            polarization=(0.1, -0.2, 0.3), dimension=(1 * scale, 2 * scale, 2 * scale, 20, 110)
        )
        ring = magpy.magnet.CylinderSegment(
            polarization=(0.3, 0.2, 0.1), dimension=(1 * scale, 2 * scale, 2 * scale, 0, 360)
        )
        o = special * scale
        return np.concatenate([seg.getB(o).ravel(), seg.getH(o).ravel(), ring.getB(o).ravel(),
                               ring.getH(o).ravel(), ring.getJ(o).ravel(), seg.getM(o).ravel()])
    attempt(f"obj s={scale:g}", build)

# error paths
attempt("err field X", lambda: BHJM_cylinder_segment("X", obs0, dim0, pol0))
attempt("err field X internal", lambda: BHJM_cylinder_segment_internal("X", obs0, pol0, dim_int))
attempt("err field X internal only-seg", lambda: BHJM_cylinder_segment_internal("X", obs0[3:6], pol0[3:6], dim_int[3:6]))
attempt("err obs 2 cols", lambda: BHJM_cylinder_segment("B", obs0[:, :2], dim0, pol0))
attempt("err obs 4 cols", lambda: BHJM_cylinder_segment("B", np.c_[obs0, obs0[:, 0]], dim0, pol0))
attempt("err obs short", lambda: BHJM_cylinder_segment("B", obs0[:5], dim0, pol0))
attempt("err obs short J", lambda: BHJM_cylinder_segment("J", obs0[:5], dim0, pol0))
attempt("err dim 4 cols", lambda: BHJM_cylinder_segment("B", obs0, dim0[:, :4], pol0))
attempt("err pol short", lambda: BHJM_cylinder_segment("H", obs0, dim0, pol0[:5]))
attempt("err pol list", lambda: BHJM_cylinder_segment("H", obs0, dim0, pol0.tolist()))
attempt("err obs list", lambda: BHJM_cylinder_segment("H", obs0.tolist(), dim0, pol0))
attempt("err internal obs short", lambda: BHJM_cylinder_segment_internal("B", obs0[:5], pol0, dim_int))
attempt("err internal pol short", lambda: BHJM_cylinder_segment_internal("B", obs0, pol0[:5], dim_int))
attempt("err internal dim 6 cols", lambda: BHJM_cylinder_segment_internal("B", obs0, pol0, np.c_[dim_int, dim_int[:, 0]]))
attempt("err internal obs 2 cols", lambda: BHJM_cylinder_segment_internal("B", obs0[:, :2], pol0, dim_int))
