import os, sys; sys.path.insert(0, os.getcwd())
import hashlib
import warnings

import numpy as np

import magpylib as magpy
from magpylib._src.fields.field_BH_triangularmesh import fix_trimesh_orientation
from magpylib._src.fields.field_BH_triangularmesh import get_inwards_mask

warnings.simplefilter("ignore")
np.set_printoptions(precision=10, linewidth=200)


def digest(tag, arr):
    arr = np.asarray(arr)
    kind = arr.dtype.kind
    arr = np.ascontiguousarray(arr.astype(float))
    h = hashlib.sha256(arr.tobytes()).hexdigest()[:16]
    print(tag, arr.shape, kind, h)
    print(np.array2string(arr.ravel()[:36], precision=10))


def attempt(tag, func):
    try:
        digest(tag, func())
    except Exception as err:  # pylint: disable=broad-except
        print(tag, "EXC", type(err).__name__, str(err)[:120].replace("\n", " | "))


rng = np.random.default_rng(2101)

cube_v = (
    np.array(
        [(0, 0, 0), (1, 0, 0), (1, 1, 0), (0, 1, 0), (0, 0, 1), (1, 0, 1), (1, 1, 1), (0, 1, 1)],
        dtype=float,
    )
    - 0.5
)
cube_f = np.array(
    [
        (0, 2, 1), (0, 3, 2), (4, 5, 6), (4, 6, 7), (0, 1, 5), (0, 5, 4),
        (2, 3, 7), (2, 7, 6), (1, 2, 6), (1, 6, 5), (0, 4, 7), (0, 7, 3),
    ]
)
tet_v = np.array([(0, 0, 0), (1, 0, 0), (0, 1, 0), (0, 0, 1)], dtype=float)
tet_f = np.array([(0, 2, 1), (0, 1, 3), (1, 2, 3), (0, 3, 2)])


def flipped(faces, which):
    faces = faces.copy()
    faces[which] = faces[which][:, [0, 2, 1]]
    return faces


def two_bodies(scale):
    """cube and a displaced tetrahedron in one (disconnected) mesh"""
    v = np.concatenate([cube_v, tet_v + (3, 0.2, -0.1)]) * scale
    f = np.concatenate([cube_f, tet_f + len(cube_v)])
    return v, f


# 1) orientation masks / fixed faces at several length scales, several flip patterns
for scale in (1.0, 1e-9, 1e-3, 1e3, 1e6, 1e9):
    for name, (v, f) in {
        "cube": (cube_v * scale, cube_f),
        "tet": (tet_v * scale, tet_f),
        "two": two_bodies(scale),
    }.items():
        n = len(f)
        patterns = {
            "none": [],
            "first": [0],
            "all": list(range(n)),
            "rnd": sorted(rng.choice(n, size=n // 2, replace=False).tolist()),
            "last": [n - 1],
        }
        for pname, which in patterns.items():
            ff = flipped(f, which)
            attempt(f"mask {name} s={scale:g} {pname}", lambda: get_inwards_mask(v, ff))
            attempt(f"fix  {name} s={scale:g} {pname}", lambda: fix_trimesh_orientation(v, ff))
        # shuffled face order (other seed triangle)
        perm = rng.permutation(n)
        ff = flipped(f, [1, 2])[perm]
        attempt(f"mask {name} s={scale:g} perm", lambda: get_inwards_mask(v, ff))

# 2) inputs are not modified, float32 vertices
v, f = two_bodies(1.0)
v0, f0 = v.copy(), flipped(f, [0, 13]).copy()
f1 = f0.copy()
res = get_inwards_mask(v, f1)
print("inputs untouched", np.array_equal(v, v0), np.array_equal(f1, f0), res.dtype, res.shape)
attempt("mask float32", lambda: get_inwards_mask(v.astype(np.float32), f0))

# 3) object interface (reorient_faces True) at three units, field + faces
for scale in (1.0, 1e-6, 1e6):
    def build():
        mesh = magpy.magnet.TriangularMesh(
            polarization=(0.1, -0.2, 0.3),
            vertices=cube_v * scale,
            faces=flipped(cube_f, [0, 3, 7]),
            reorient_faces=True,
        )
        obs = np.array([(0.1, 0.2, 0.3), (2, 1, 0.5), (0.5, 0, 0)]) * scale
        return np.concatenate([mesh.faces.ravel(), mesh.getB(obs).ravel(), mesh.getH(obs).ravel()])
    attempt(f"obj s={scale:g}", build)

# 4) error paths
attempt("err int vertices", lambda: get_inwards_mask((cube_v * 2).astype(int), cube_f))
attempt("err degenerate seed", lambda: get_inwards_mask(np.zeros((8, 3)), cube_f))
attempt("err index out of range", lambda: get_inwards_mask(tet_v, cube_f))
attempt("err faces 2 cols", lambda: get_inwards_mask(cube_v, cube_f[:, :2]))
attempt("err vertices 2d pts", lambda: get_inwards_mask(cube_v[:, :2], cube_f))
attempt("err list vertices", lambda: get_inwards_mask(cube_v.tolist(), cube_f))
attempt("empty faces", lambda: get_inwards_mask(cube_v, np.zeros((0, 3), dtype=int)))
attempt("open mesh", lambda: get_inwards_mask(cube_v, cube_f[:-3]))
