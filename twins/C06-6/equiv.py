import os, sys; sys.path.insert(0, os.getcwd())
import hashlib
import warnings

import numpy as np

import magpylib as magpy

warnings.simplefilter("ignore")


def dig(name, arr):
    arr = np.ascontiguousarray(np.asarray(arr, dtype=float))
    h = hashlib.sha256(arr.tobytes()).hexdigest()[:16]
    print(name, arr.shape, h, np.round(arr.ravel()[:4], 12).tolist())


def sources():
    cub = magpy.magnet.Cuboid(polarization=(0.1, 0.2, 0.3), dimension=(1, 2, 3))
    cub.move([(0.1 * i, 0, 0) for i in range(1, 4)])  # path length 4
    cyl = magpy.magnet.Cylinder(
        polarization=(0.3, 0.2, 0.1), dimension=(1, 2), position=(0, 3, 0)
    )
    circ = magpy.current.Circle(current=2.5, diameter=1.5, position=(0, 0, -2))
    circ.rotate_from_angax([5, 7], "x", start=1)  # path length 3
    return cub, cyl, circ


def sensors():
    pix = [(0, 0, 0), (0.1, 0.2, 0.3), (-0.2, 0.1, 0)]
    s_unrot = magpy.Sensor(pixel=pix, position=(2, 2, 2))  # unit orientation
    s_static = magpy.Sensor(pixel=pix, position=(-2, 1, 1))  # one static rotation
    s_static.rotate_from_angax(70, (1, 1, 0))
    s_transl = magpy.Sensor(pixel=pix, position=(1, -2, 1))  # rotated, translation path
    s_transl.rotate_from_angax(25, "y")
    s_transl.move([(0, 0, 0.1 * i) for i in range(1, 4)])
    s_rotpath = magpy.Sensor(pixel=pix, position=(1, 1, -3))  # rotation path
    s_rotpath.rotate_from_angax([10, 20, 30], "z")
    s_left = magpy.Sensor(pixel=pix, position=(3, 0, 1), handedness="left")
    s_left_rot = magpy.Sensor(pixel=pix, position=(0, 3, 1), handedness="left")
    s_left_rot.rotate_from_angax([15, 30, 45], (1, 2, 3))
    s_unrot_path = magpy.Sensor(pixel=pix, position=(0, 0, 4), handedness="left")
    s_unrot_path.move([(0.1, 0, 0), (0.2, 0, 0)])  # unit orientation along a path
    return [s_unrot, s_static, s_transl, s_rotpath, s_left, s_left_rot, s_unrot_path]


srcs = list(sources())
sens = sensors()

# 1) all sensor kinds at once, sources with collection
col = magpy.Collection(srcs[0], srcs[2])
for name, func in (("B", magpy.getB), ("H", magpy.getH)):
    out = func([col, srcs[1], srcs[0]], sens, squeeze=False)
    dig(name + "_all", out)
    # every sensor alone gives the same numbers
    for k, sn in enumerate(sens):
        one = func([col, srcs[1], srcs[0]], sn, squeeze=False)
        m = one.shape[1]
        print(" alone", k, bool(np.all(one[:, :, 0] == out[:, :m, k])))

# 2) orderings and duplicates of sensors
perm = [5, 0, 5, 3, 1, 6, 4, 2, 3]
out = magpy.getB(srcs, [sens[i] for i in perm], squeeze=False)
dig("B_perm", out)

# 3) different pixel shapes with pixel_agg, sumup, position vectors mixed in
s_big = magpy.Sensor(pixel=np.linspace(-1, 1, 24).reshape(2, 4, 3), handedness="left")
s_big.rotate_from_angax([40, 50], "x")
s_none = magpy.Sensor(position=(1, 1, 1))
s_none.rotate_from_angax(90, "z")
for agg in ("mean", "max"):
    out = magpy.getB(
        srcs, [s_big, sens[3], s_none, (1, 2, 3)], pixel_agg=agg, squeeze=False
    )
    dig("B_agg_" + agg, out)
out = magpy.getH(srcs, [s_big, s_big], sumup=True, squeeze=False)
dig("H_sumup", out)

# 4) smallest case, one source, one sensor, one step
dig("B_small", magpy.getB(srcs[1], s_none, squeeze=False))
dig("B_small_left", magpy.getB(srcs[1], sens[4], squeeze=True))

# 5) sensor in a collection together with sources, dataframe output
mixed = magpy.Collection(srcs[1], sens[5], sens[1])
df = magpy.getB(mixed, mixed, output="dataframe")
dig("B_df", df[["Bx", "By", "Bz"]].to_numpy())

# 6) error paths: different pixel shapes without aggregator, bad pixel_agg
for kw in (
    dict(observers=[s_big, sens[0]]),
    dict(observers=[s_big, sens[0]], pixel_agg="nope"),
    dict(observers=[]),
):
    try:
        magpy.getB(srcs, **kw)
        print("no error")
    except Exception as err:  # pylint: disable=broad-except
        print(type(err).__name__, str(err)[:60].replace("\n", " "))

# paths of all objects unchanged
print([len(o._position) for o in srcs + sens + [s_big, s_none]])
