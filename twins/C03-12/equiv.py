import os, sys; sys.path.insert(0, os.getcwd())
import hashlib
import re
import warnings

import numpy as np
from scipy.spatial.transform import Rotation as R

import magpylib as magpy
from magpylib._src.input_checks import check_array_shape
from magpylib._src.input_checks import check_format_input_anchor
from magpylib._src.input_checks import check_format_input_orientation
from magpylib._src.input_checks import check_format_input_vector
from magpylib._src.input_checks import check_start_type

warnings.simplefilter("ignore")


def desc(val):
    """deterministic description of a returned value"""
    if isinstance(val, tuple):
        return "(" + ", ".join(desc(v) for v in val) + ")"
    if isinstance(val, R):
        return f"Rot[{'single' if val.single else len(val)}]<{desc(val.as_quat())}>"
    if isinstance(val, np.ndarray):
        h = hashlib.sha256(np.ascontiguousarray(val).tobytes()).hexdigest()[:12]
        return f"nd{val.shape}{val.dtype}:{h}:own={val.flags.owndata}"
    return repr(val)


def run(name, func):
    try:
        print(f"{name}: {desc(func())}")
    except Exception as err:  # pylint: disable=broad-except
        msg = re.sub(r"id=\d+|0x[0-9a-f]+", "#", str(err))
        print(f"{name}: EXC {type(err).__name__}: {msg!r}")


# check_start_type ----------------------------------------------------------
for st in [0, -3, 7, np.int32(2), np.int64(-1), True, "auto", "Auto", "", 1.0, None, (1,), np.float64(2), [0]]:
    run(f"start {st!r}", lambda st=st: check_start_type(st))

# check_array_shape ---------------------------------------------------------
arrs = {
    "0d": np.array(1.0),
    "(3,)": np.arange(3.0),
    "(4,)": np.arange(4.0),
    "(2,3)": np.ones((2, 3)),
    "(3,2)": np.ones((3, 2)),
    "(0,3)": np.ones((0, 3)),
    "(2,2,3)": np.ones((2, 2, 3)),
    "(0,)": np.ones((0,)),
}
for an, arr in arrs.items():
    for dims in [(1,), (1, 2), (2,), (0, 1), (3,)]:
        for shape_m1 in [3, "any", 2]:
            for length in [None, 2, 3]:
                run(
                    f"shape {an} dims={dims} m1={shape_m1} len={length}",
                    lambda: check_array_shape(arr, dims, shape_m1, length, msg="bad shape msg"),
                )

# check_format_input_orientation -------------------------------------------
rots = {
    "None": None,
    "single": R.from_rotvec((0.1, 0.2, 0.3)),
    "len1": R.from_rotvec([(0.1, 0.2, 0.3)]),
    "len3": R.from_rotvec([(0.1, 0.2, 0.3), (0, 0, 1), (1, 0, 0)]),
    "quat-list": [0, 0, 0, 1],
    "str": "z",
    "int": 0,
    "type": R,
}
for rn, rot in rots.items():
    for init_format in (False, True):
        run(f"orientation {rn} init={init_format}", lambda: check_format_input_orientation(rot, init_format))
run("orientation default", lambda: check_format_input_orientation(None))

# check_format_input_vector / anchor ---------------------------------------
vecs = {
    "None": None,
    "tuple3": (1, 2, 3),
    "list23": [(1, 2, 3), (4, 5, 6)],
    "nd13": np.array([[1.0, 2.0, 3.0]]),
    "int-nd": np.array([1, 2, 3]),
    "neg": (1, -2, 3),
    "zero": (0, 1, 2),
    "len2": (1, 2),
    "ragged": [(1, 2, 3), (1, 2)],
    "strs": ("a", "b", "c"),
    "str": "abc",
    "scalar": 5,
    "set": {1, 2, 3},
    "empty": [],
    "3d": np.ones((2, 2, 3)),
}
sig = dict(sig_name="thing", sig_type="array_like with shape (3,) or (n,3)")
for vn, vec in vecs.items():
    run(f"vector {vn} plain", lambda: check_format_input_vector(vec, dims=(1, 2), shape_m1=3, **sig))
    run(
        f"vector {vn} reshape",
        lambda: check_format_input_vector(vec, dims=(1, 2), shape_m1=3, reshape=(-1, 3), **sig),
    )
    run(
        f"vector {vn} allow_None+neg0",
        lambda: check_format_input_vector(
            vec, dims=(1, 2), shape_m1=3, allow_None=True, forbid_negative0=True, **sig
        ),
    )
    run(
        f"vector {vn} reshape+neg0",
        lambda: check_format_input_vector(
            vec, dims=(1, 2), shape_m1=3, reshape=(-1, 3), forbid_negative0=True, **sig
        ),
    )
    run(
        f"vector {vn} any len=2",
        lambda: check_format_input_vector(vec, dims=(1, 2), shape_m1="any", length=2, **sig),
    )
    run(f"anchor {vn}", lambda: check_format_input_anchor(vec))
for anc in [0, 0.0, False, 1, np.int64(0), 0j]:
    run(f"anchor {anc!r}", lambda anc=anc: check_format_input_anchor(anc))

# aliasing: an ndarray input of dtype float is copied by make_float_array
src_arr = np.array([[1.0, 2.0, 3.0]])
out = check_format_input_vector(src_arr, dims=(1, 2), shape_m1=3, reshape=(-1, 3), **sig)
print("alias:", out is src_arr, np.shares_memory(out, src_arr))

# through the public interface ---------------------------------------------
obs = [(2, 3, 4), (-1, 2, 0.5)]


def field(obj):
    return desc(magpy.getB(obj, obs))


def mk():
    return magpy.magnet.Cuboid(polarization=(0.1, 0.2, 0.3), dimension=(1, 2, 3))


run("init path pos+ori", lambda: field(magpy.magnet.Cuboid(
    polarization=(0.1, 0.2, 0.3), dimension=(1, 2, 3),
    position=[(1, 0, 0), (2, 0, 0), (3, 0, 0)], orientation=R.from_rotvec([(0, 0, 0.5), (0, 0.2, 0)]))))
run("init bad orientation", lambda: magpy.magnet.Cuboid(orientation=(0, 0, 0, 1)))
run("init bad position", lambda: magpy.magnet.Cuboid(position=(1, 2)))
run("init bad position type", lambda: magpy.magnet.Cuboid(position="abc"))
run("setter position", lambda: field(setattr(o := mk(), "position", [(1, 1, 1), (2, 2, 2)]) or o))
run("setter orientation None", lambda: field(setattr(o := mk().rotate_from_angax(40, "x"), "orientation", None) or o))
run("setter orientation bad", lambda: setattr(mk(), "orientation", "x"))
run("move start 2", lambda: field(mk().move([(1, 0, 0), (2, 0, 0)], start=2)))
run("move start numpy int", lambda: field(mk().move((1, 0, 0), start=np.int64(0))))
run("move start 1.0", lambda: mk().move((1, 0, 0), start=1.0))
run("move start None", lambda: mk().move((1, 0, 0), start=None))
run("move bad displacement", lambda: mk().move((1, 0)))
run("rotate anchor 0", lambda: field(mk().move((1, 1, 1)).rotate(R.from_rotvec((0.1, 0.2, 0.3)), anchor=0)))
run("rotate anchor path", lambda: field(mk().rotate(R.from_rotvec((0.1, 0.2, 0.3)), anchor=[(1, 0, 0), (0, 1, 0)])))
run("rotate anchor bad", lambda: mk().rotate(R.from_rotvec((0.1, 0.2, 0.3)), anchor=(1, 2)))
run("rotate anchor 1", lambda: mk().rotate(R.from_rotvec((0.1, 0.2, 0.3)), anchor=1))
run("rotate bad rotation", lambda: mk().rotate((0, 0, 0, 1)))
run("rotate None", lambda: field(mk().rotate(None, anchor=(1, 2, 3))))
run("rotate start 'end'", lambda: mk().rotate(R.from_rotvec((0.1, 0.2, 0.3)), start="end"))
run("angax axis vector", lambda: field(mk().rotate_from_angax([10, 20], (1, 1, 0), anchor=(3, 0, 0), start=-1)))
run("angax bad axis", lambda: mk().rotate_from_angax(10, (1, 1)))
run("angax bad angle", lambda: mk().rotate_from_angax([[10, 20]], "x"))
run("dimension negative", lambda: magpy.magnet.Cuboid(dimension=(1, -2, 3)))
run("dimension zero", lambda: magpy.magnet.Cuboid(dimension=(1, 0, 3)))
run("polarization bad", lambda: magpy.magnet.Cuboid(polarization=(1, 2, 3, 4)))
run("sensor pixel", lambda: desc(magpy.Sensor(pixel=[[(1, 2, 3)] * 2] * 2).getB(mk())))
run("sensor pixel bad", lambda: magpy.Sensor(pixel=[(1, 2)]))
