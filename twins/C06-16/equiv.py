import os, sys; sys.path.insert(0, os.getcwd())
import hashlib
import re
import warnings

import numpy as np

import magpylib as magpy
from magpylib._src.input_checks import check_format_input_observers

warnings.simplefilter("ignore")


def clean(text):
    text = re.sub(r"id=\d+|0x[0-9a-fA-F]+", "ID", str(text).replace("\n", " "))
    return re.sub(r"\s+", " ", text)


def dig(name, arr):
    arr = np.ascontiguousarray(np.asarray(arr, dtype=float))
    h = hashlib.sha256(arr.tobytes()).hexdigest()[:16]
    print(name, arr.shape, h, np.round(arr.ravel()[:4], 12).tolist())


s1 = magpy.Sensor(position=(1, 2, 3), style_label="s1")
s2 = magpy.Sensor(pixel=[(0, 0, 0), (0, 0, 1)], style_label="s2")
s3 = magpy.Sensor(pixel=np.arange(12.0).reshape(2, 2, 3), style_label="s3")
s4 = magpy.Sensor(pixel=(1, 2, 3), style_label="s4")
src = magpy.magnet.Cuboid(polarization=(0.1, 0.2, 0.3), dimension=(1, 2, 3))
src2 = magpy.current.Circle(current=1.5, diameter=2.2, position=(0.3, 0, 0.2))
s5 = magpy.Sensor(pixel=[(0, 0, 0), (0, 0, 1)], position=(0, 0, 1), style_label="s5")
s6 = magpy.Sensor(position=(1, 2, 3), style_label="s6")
s7 = magpy.Sensor(pixel=(1, 2, 3), style_label="s7")
s8 = magpy.Sensor(pixel=np.arange(12.0).reshape(2, 2, 3) / 7, style_label="s8")
s9 = magpy.Sensor(position=(-1, 2, -3), style_label="s9")
c_sens = magpy.Collection(s5, s6, style_label="c_sens")
c_mixed = magpy.Collection(src, s7, style_label="c_mixed")
c_nested = magpy.Collection(magpy.Collection(s8, src2), s9, style_label="c_nested")
c_src = magpy.Collection(magpy.misc.Dipole(moment=(1, 2, 3)), style_label="c_src")
c_empty = magpy.Collection(style_label="c_empty")
known = {id(o): n for n, o in dict(s1=s1, s2=s2, s3=s3, s4=s4, s5=s5, s6=s6, s7=s7, s8=s8, s9=s9).items()}


def describe(sens):
    if id(sens) in known:
        return known[id(sens)]
    pix = sens.pixel
    h = hashlib.sha256(np.ascontiguousarray(pix, dtype=float).tobytes()).hexdigest()[:8]
    return f"new{pix.shape}{pix.dtype}{h}"


def check(name, inp, **kwargs):
    try:
        sensors, pix_shapes = check_format_input_observers(inp, **kwargs)
        print(
            name,
            type(sensors).__name__,
            [describe(s) for s in sensors],
            type(pix_shapes).__name__,
            pix_shapes,
        )
    except Exception as err:  # pylint: disable=broad-except
        chain = []
        ctx = err.__context__
        while ctx is not None:
            chain.append(type(ctx).__name__)
            ctx = ctx.__context__
        print(name, type(err).__name__, chain, err.__cause__, clean(err)[-150:])


# plain position input
check("posvec", (1, 2, 3))
check("posvec-list", [1, 2, 3])
check("posvec-array", np.array([1, 2, 3]))
check("posvec-n3", [(1, 2, 3), (2, 3, 4)])
check("posvec-grid", np.arange(24).reshape(2, 4, 3))
check("posvec-int", np.array([[1, 2, 3]], dtype=int))
# bare objects
check("bare-sensor", s1)
check("bare-coll", c_sens)
check("bare-coll-mixed", c_mixed)
check("bare-coll-nested", c_nested)
# mixed sequences
check("list-sensors", [s1, s4])
check("tuple-sensors", (s4, s1, s4))
check("list-one", [s2])
check("list-coll", [c_sens])
check("list-colls", [c_nested, c_mixed, c_sens], pixel_agg="mean")
check("mixed1", [s1, (1, 2, 3), c_mixed])
check("mixed2", [(1, 2, 3), s4, [(4, 5, 6)], np.array([7, 8, 9])])
check("mixed3", [s2, [(1, 2, 3), (4, 5, 6)]])
check("mixed4", [s3, np.zeros((2, 2, 3)), c_nested], pixel_agg="max")
check("mixed-order", [c_sens, s3, (0, 0, 0), s1], pixel_agg="min")
check("objarray", np.array([s1, s4], dtype=object))
check("objarray-coll", np.array([c_sens, s2], dtype=object), pixel_agg="mean")
check("ragged-pos", [(1, 2, 3), [(1, 2, 3), (4, 5, 6)]], pixel_agg="mean")
# error paths
check("err-shapes", [s1, s2])
check("err-shapes2", [s3, (1, 2, 3)])
check("err-ragged-pos", [(1, 2, 3), [(1, 2, 3), (4, 5, 6)]])
check("err-empty-list", [])
check("err-empty-tuple", ())
check("err-empty-array", np.array([]))
check("err-empty-array2", np.zeros((0, 3)))
check("err-none", None)
check("err-str", "whatever")
check("err-int", 5)
check("err-source", src)
check("err-dict", {"a": 1})
check("err-set", {s1})
check("err-generator", (s for s in [s1]))
check("err-0d", np.array(5.0))
check("err-src-in-list", [s1, src])
check("err-str-in-list", [s1, s2, [(1, 2, 3), (1, 2, 3)], "whatever"])
check("err-none-in-list", [s1, None])
check("err-coll-nosensor", [s1, c_src])
check("err-coll-empty", [c_empty])
check("err-bare-coll-nosensor", c_src)
check("err-bad-posvec", [s1, (1, 2)])
check("err-bad-posvec2", [s1, [(1, 2, 3, 4)]])
check("err-bad-posvec-first", [(1, 2), s1])
check("err-bad-shape-direct", [(1, 2), (3, 4)])
check("err-bad-shape-direct2", [1, 2, 3, 4])
check("err-nested-list", [s1, [s4]])
check("err-first-of-two", ["bad1", "bad2"])
check("err-first-of-two-b", [c_src, "bad2"])
check("err-first-of-two-c", ["bad1", c_src])


# through the field functions
def attempt(name, func, *args, **kwargs):
    try:
        dig(name, func(*args, **kwargs))
    except Exception as err:  # pylint: disable=broad-except
        print(name, type(err).__name__, clean(err)[-100:])


srcs = [src, src2]
attempt("getB-mixed", magpy.getB, srcs, [s1, (1, 2, 3), c_mixed])
attempt("getH-colls", magpy.getH, srcs, [c_nested, c_mixed, c_sens], pixel_agg="mean")
attempt("getB-bare-coll", magpy.getB, srcs, c_nested, pixel_agg="mean", squeeze=False)
attempt("getB-pos", magpy.getB, srcs, [(1, 2, 3), (2, 3, 4)], squeeze=False)
attempt("getB-err1", magpy.getB, srcs, [s1, s2])
attempt("getB-err2", magpy.getB, srcs, [s1, "x"])
attempt("getB-err3", magpy.getB, srcs, [c_src])
attempt("getB-err4", magpy.getB, srcs, [])
attempt("src.getB", src.getB, s1, c_sens, (1, 2, 3), pixel_agg="mean")
attempt("coll.getB", c_mixed.getB, squeeze=False)
B_joint = magpy.getB(srcs, [s1, (1, 2, 3), c_mixed], squeeze=False)
B_single = [
    magpy.getB(srcs, o, squeeze=False) for o in (s1, (1, 2, 3), s7)
]
print("joint==single", all(np.array_equal(B_joint[:, :, k : k + 1], B_single[k]) for k in range(3)))
