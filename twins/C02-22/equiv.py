import os, sys; sys.path.insert(0, os.getcwd())
import hashlib
import warnings

import numpy as np

import magpylib as magpy
from magpylib._src.fields.field_BH_cuboid import BHJM_magnet_cuboid

warnings.simplefilter("ignore")


def digest(name, arr):
    arr = np.asarray(arr)
    h = hashlib.sha256(np.ascontiguousarray(arr).tobytes()).hexdigest()[:16]
    print(name, arr.shape, arr.dtype, h)
    with np.printoptions(precision=10, linewidth=200):
        print(np.round(arr, 12))


rng = np.random.default_rng(2)
n = 24
obs = rng.uniform(-1.5, 1.5, (n, 3))
dim = np.tile((2.0, 1.0, 3.0), (n, 1))
pol = rng.uniform(-1, 1, (n, 3))
# special observers (half sizes are 1, .5, 1.5)
obs[0] = (0, 0, 0)  # centre
obs[1] = (1, 0.1, 0.2)  # on x-face
obs[2] = (0.3, -0.5, 0.2)  # on y-face
obs[3] = (0.3, 0.1, 1.5)  # on z-face
obs[4] = (1, 0.5, 0.3)  # on z-edge
obs[5] = (1, 0.2, -1.5)  # on y-edge
obs[6] = (0.2, 0.5, 1.5)  # on x-edge
obs[7] = (1, 0.5, 1.5)  # corner
obs[8] = (1, 0.5, 2.5)  # on edge line extension, outside
obs[9] = (1 + 1e-16, 0.5 - 1e-17, 0.1)  # numerically on edge
obs[10] = (np.nan, 0, 0)
obs[11] = (np.inf, 0, 0)
obs[12] = (3, 3, 3)
pol[13] = 0  # zero polarization
dim[14] = (2, 0, 3)  # zero dimension
dim[15] = (-2, 1, -3)  # negative dimension
obs[15] = (0.1, 0.1, 0.1)
dim[16] = (1e-20, 1e-20, 1e-20)
obs[16] = (1e-21, 0, 0)

for field in "BHJM":
    digest(f"core-{field}", BHJM_magnet_cuboid(field, obs, dim, pol))

pol_int = np.array([(1, -2, 3)] * n)
dim_int = np.array([(2, 1, 3)] * n)
for field in "BHJM":
    digest(f"core-int-{field}", BHJM_magnet_cuboid(field, obs, dim_int, pol_int))

# aliasing / input preservation
o2, d2, p2 = obs.copy(), dim.copy(), pol.copy()
for field in "BHJM":
    res = BHJM_magnet_cuboid(field, o2, d2, p2)
    print(field, "alias", np.shares_memory(res, p2), np.shares_memory(res, o2))
print(
    "inputs unchanged",
    np.array_equal(o2, obs, equal_nan=True),
    np.array_equal(d2, dim),
    np.array_equal(p2, pol),
)

# object interface: B = mu0 H + J incl. surfaces/edges, rotated
cube = magpy.magnet.Cuboid(dimension=(2, 1, 3), polarization=(0.3, -0.2, 0.7))
pts = np.array(obs[:13])
pts = pts[np.isfinite(pts).all(axis=1)]
B, H, J, M = (getattr(cube, f"get{f}")(pts) for f in "BHJM")
for nme, arr in zip("BHJM", (B, H, J, M)):
    digest(f"obj-{nme}", arr)
print("BHJ", np.allclose(B, magpy.mu_0 * H + J, rtol=1e-12, atol=1e-15))
print("JM", np.allclose(J, magpy.mu_0 * M, rtol=1e-14, atol=0))
cube.rotate_from_angax(41, (1, -1, 0.5)).move((0.2, 0.1, 0))
B, H, J, M = (getattr(cube, f"get{f}")(pts) for f in "BHJM")
for nme, arr in zip("BHJM", (B, H, J, M)):
    digest(f"objrot-{nme}", arr)
print("BHJ", np.allclose(B, magpy.mu_0 * H + J, rtol=1e-12, atol=1e-15))

# error paths
for bad in ("X", "BH", 5, None):
    try:
        BHJM_magnet_cuboid(bad, obs, dim, pol)
        print("no error", bad)
    except Exception as e:  # noqa: BLE001
        print(repr(bad), type(e).__name__, str(e).replace("\n", " | "))
for args in ((obs, dim[:3], pol), (obs[:5], dim, pol), (obs, dim, pol[:2]), (obs[:, :2], dim, pol)):
    for field in "BJ":
        try:
            BHJM_magnet_cuboid(field, *args)
            print("no error")
        except Exception as e:  # noqa: BLE001
            print("shape", field, type(e).__name__, str(e)[:80])


def attempt(label, fn):
    try:
        digest(label, fn())
    except Exception as e:  # noqa: BLE001
        print(label, "EXC", type(e).__name__, str(e)[:160].replace("\n", " | "))


# systematic: every combination of {inside, on face, just inside/outside by ulps, outside} per axis
half = np.array((1.0, 0.5, 1.5))
levels = []
for h in half:
    levels.append(
        [0.0, 0.3 * h, h, -h, np.nextafter(h, 0), np.nextafter(h, 2 * h), h * (1 - 1e-15), h * (1 + 1e-15), h * (1 + 3e-15), -h * (1 - 2e-16), 1.7 * h, -2 * h]
    )
grid = np.array([(u, v, w) for u in levels[0] for v in levels[1] for w in levels[2]])
m = len(grid)
gd = np.tile(2 * half, (m, 1))
gp = np.tile((0.3, -0.2, 0.7), (m, 1))
for field in "BHJM":
    attempt(f"grid-{field}", lambda: BHJM_magnet_cuboid(field, grid, gd, gp))
Bg, Hg, Jg, Mg = (BHJM_magnet_cuboid(f, grid, gd, gp) for f in "BHJM")
print("grid BHJ", np.allclose(Bg, magpy.mu_0 * Hg + Jg, rtol=1e-12, atol=1e-15), "JM", np.allclose(Jg, magpy.mu_0 * Mg))
print("grid counts", int((Jg != 0).any(axis=1).sum()), int((Bg == 0).all(axis=1).sum()))

# random cuboids with observers placed on their edges / faces / corners
k = 30
rd = rng.uniform(0.2, 3, (k, 3))
sg = rng.choice([-1.0, 1.0], (k, 3))
ro = sg * rd / 2
sel = rng.integers(0, 3, k)
ro[np.arange(k), sel] *= rng.uniform(0, 1.3, k)  # along an edge line (inside or beyond)
rp = rng.uniform(-1, 1, (k, 3))
for field in "BHJM":
    attempt(f"edges-{field}", lambda: BHJM_magnet_cuboid(field, ro, rd, rp))
ro2 = sg * rd / 2
ro2[np.arange(k), sel] *= rng.uniform(0, 0.99, k)
ro2[np.arange(k), (sel + 1) % 3] *= rng.uniform(0, 0.99, k)  # on a face
for field in "BHJM":
    attempt(f"faces-{field}", lambda: BHJM_magnet_cuboid(field, ro2, rd, rp))

# 1-D inputs (single point without batch axis), empty, single row
for field in "BHJM":
    for pt in ((0.1, 0.2, 0.3), (1.0, 0.2, 0.3), (1.0, 0.5, 0.3), (1.0, 0.5, 1.5), (4.0, 0.5, 0.3)):
        attempt(f"1d-{field}-{pt}", lambda: BHJM_magnet_cuboid(field, np.array(pt), np.array((2.0, 1.0, 3.0)), np.array((0.3, -0.2, 0.7))))
    attempt(f"1d-zero-pol-{field}", lambda: BHJM_magnet_cuboid(field, np.array((0.1, 0.2, 0.3)), np.array((2.0, 1.0, 3.0)), np.zeros(3)))
    attempt(f"empty-{field}", lambda: BHJM_magnet_cuboid(field, np.zeros((0, 3)), np.zeros((0, 3)), np.zeros((0, 3))))
    attempt(f"single-{field}", lambda: BHJM_magnet_cuboid(field, obs[4:5], dim[4:5], pol[4:5]))
    attempt(f"mixed-1d-dim-{field}", lambda: BHJM_magnet_cuboid(field, obs[:5], np.array((2.0, 1.0, 3.0)), pol[:5]))
    attempt(f"mixed-1d-obs-{field}", lambda: BHJM_magnet_cuboid(field, np.array((1.0, 0.5, 0.3)), dim[:5], pol[:5]))
    attempt(f"list-obs-{field}", lambda: BHJM_magnet_cuboid(field, obs[:5].tolist(), dim[:5], pol[:5]))
    attempt(f"list-dim-{field}", lambda: BHJM_magnet_cuboid(field, obs[:5], dim[:5].tolist(), pol[:5]))
    attempt(f"dim4-{field}", lambda: BHJM_magnet_cuboid(field, obs[:5], np.ones((5, 4)), pol[:5]))
    attempt(f"obs3d-{field}", lambda: BHJM_magnet_cuboid(field, np.ones((5, 2, 3)), dim[:5], pol[:5]))
    attempt(f"float32-{field}", lambda: BHJM_magnet_cuboid(field, grid[:200].astype(np.float32), gd[:200].astype(np.float32), gp[:200].astype(np.float32)))

# functional interface and Collection of touching cuboids (shared faces / edges)
c1 = magpy.magnet.Cuboid(dimension=(1, 1, 1), polarization=(0, 0, 1), position=(0.5, 0, 0))
c2 = magpy.magnet.Cuboid(dimension=(1, 1, 1), polarization=(0, 1, 0), position=(-0.5, 0, 0))
coll = magpy.Collection(c1, c2)
pts2 = [(0, 0, 0), (0, 0.5, 0.5), (0, 0.5, 0), (1, 0.5, 0.5), (0.5, 0, 0), (0, 0.2, 0.1), (2, 2, 2)]
for field in "BHJM":
    attempt(f"coll-{field}", lambda: getattr(magpy, "get" + field)(coll, pts2))
    attempt(f"func-{field}", lambda: getattr(magpy, "get" + field)("Cuboid", pts2, dimension=(2, 1, 3), polarization=(0.1, 0.2, 0.3)))
