import os, sys; sys.path.insert(0, os.getcwd())
import hashlib
import re
import builtins

import numpy as np

import magpylib as magpy
from magpylib._src.exceptions import MagpylibBadUserInput, MagpylibMissingInput


_print = builtins.print


def print(*args):  # deterministic: strip object ids / addresses
    txt = " ".join(str(a) for a in args)
    txt = re.sub(r"id=\d+", "id=#", txt)
    txt = re.sub(r"0x[0-9a-f]+", "0x#", txt)
    _print(txt)


class _Sanitized:
    """stdout wrapper: also the library's own print() output must be id-free"""

    def __init__(self, stream):
        self.stream = stream

    def write(self, txt):
        txt = re.sub(r"id=\d+", "id=#", txt)
        return self.stream.write(re.sub(r"0x[0-9a-f]+", "0x#", txt))

    def flush(self):
        self.stream.flush()


sys.stdout = _Sanitized(sys.stdout)


def dig(name, arr):
    arr = np.asarray(arr)
    h = hashlib.sha256(np.ascontiguousarray(arr).tobytes()).hexdigest()[:16]
    print(name, arr.shape, h, np.round(arr.ravel()[:6], 12).tolist())


def err(name, fn):
    try:
        fn()
        print(name, "no error")
    except Exception as e:  # pylint: disable=broad-except
        print(name, type(e).__name__, str(e).splitlines()[0][:90])


from magpylib._src.utility import filter_objects, format_obj_input, format_src_inputs


def names(objs):
    return [f"{type(o).__name__}:{getattr(getattr(o, 'style', None), 'label', o)}" for o in objs]


def build():
    a = magpy.magnet.Cuboid(polarization=(0.1, 0.2, 0.3), dimension=(1, 2, 3), style_label="a")
    b = magpy.current.Circle(current=2.0, diameter=1.0, position=(0, 0, 2), style_label="b")
    c = magpy.misc.Dipole(moment=(1, 0, 2), position=(3, 0, 0), style_label="c")
    d = magpy.magnet.Sphere(polarization=(0, 0, 0.5), diameter=1.0, position=(0, 3, 0), style_label="d")
    x = magpy.Sensor(style_label="x", position=(1, 1, 1))
    y = magpy.Sensor(style_label="y", position=(-1, 2, 1), pixel=[(0, 0, 0), (0, 0, 0.1)])
    inner = magpy.Collection(c, y, style_label="inner")
    mid = magpy.Collection(b, inner, style_label="mid")
    empty = magpy.Collection(style_label="empty")
    top = magpy.Collection(a, mid, x, empty, style_label="top")
    return a, b, c, d, x, y, inner, mid, empty, top


a, b, c, d, x, y, inner, mid, empty, top = build()
allows = [
    "sources",
    "sensors",
    "collections",
    "sources+sensors",
    "sensors+sources",
    "sources+collections",
    "sensors+collections",
    "sources+sensors+collections",
    "collections+sources",
    "nothing",
    "",
    "source",
]
inputs = {
    "top": (top,),
    "mid,d": (mid, d),
    "list": ([d, top],),
    "tuple nested": ((d, [x, (mid,)]), a),
    "bare": (a, x, d),
    "empty col": (empty,),
    "empty list": ([],),
    "none": (),
    "dup": (d, d, [d]),
}
for allow in allows:
    for key, inp in inputs.items():
        try:
            print("foi", repr(allow), key, names(format_obj_input(*inp, allow=allow)))
        except Exception as e:  # pylint: disable=broad-except
            print("foi", repr(allow), key, type(e).__name__, str(e).splitlines()[0], "| cause", type(e.__cause__).__name__)
print("foi default", names(format_obj_input(top, d)))
print("foi default warn False", names(format_obj_input(top, d, warn=False)))

# error paths of the flattening
bad_inputs = {
    "int": (1,),
    "str": ("abc",),
    "None": (None,),
    "in list": ([a, 1.5],),
    "nested in list": ([d, [x, [None]]],),
    "array": (np.array([1.0, 2.0, 3.0]),),
    "dict": ({"a": 1},),
    "class": (magpy.Sensor,),
}
for allow in ("sources", "sources+sensors", "collections", "sensors+collections"):
    for key, inp in bad_inputs.items():
        try:
            print("bad", allow, key, names(format_obj_input(*inp, allow=allow)))
        except Exception as e:  # pylint: disable=broad-except
            lines = str(e).splitlines()
            print("bad", allow, key, type(e).__name__, lines[0], "|", lines[-1], "| cause", type(e.__cause__).__name__)

# filter_objects directly (with the printed warning)
mixed = [a, x, top, 1, "s", None, inner, d, y]
for allow in allows:
    for warn in (True, False):
        print("flt", repr(allow), warn, names(filter_objects(mixed, allow=allow, warn=warn)))
print("flt default", names(filter_objects(mixed)))
print("flt empty", filter_objects([], allow="sources"), filter_objects((), allow="sensors"))
res = filter_objects(mixed, allow="sources+sensors+collections", warn=False)
print("flt new list", res is not mixed, len(mixed))
err("flt bad allow", lambda: filter_objects(mixed, allow=None))
err("foi bad allow", lambda: format_obj_input(a, allow=None))

# users of the helpers
srcs, flat = format_src_inputs([d, top])
print("fsi", names(srcs), names(flat))
obs = np.array([(0.5, 4.0, 3.0), (-2.0, 1.5, 2.0)])
dig("getB col", magpy.getB([d, top], obs))
dig("getB col sens", magpy.getB([d, mid], [x, top], pixel_agg="mean"))
dig("col.getH", top.getH(pixel_agg="max"))
dig("col sumup", magpy.getH([top, d], top, sumup=True, pixel_agg="min"))
err("getB bad src", lambda: magpy.getB([a, 1], obs))
err("getB sensor col as src", lambda: magpy.getB(magpy.Collection(magpy.Sensor()), obs))
# collection setters use format_obj_input as well
a, b, c, d, x, y, inner, mid, empty, top = build()
top.sources = [d]
print("setter sources", names(top.children), names(top.sources))
top.sensors = (y,)
print("setter sensors", names(top.children), names(inner.children))
top.collections = [inner]
print("setter collections", names(top.children), names(mid.children))
err("setter bad", lambda: setattr(top, "sources", 5))
top.sources = [x]  # wrong kind is silently filtered
print("setter filtered", names(top.children))
