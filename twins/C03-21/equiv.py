import os, sys; sys.path.insert(0, os.getcwd())
import hashlib
import re
import warnings

import numpy as np
from scipy.spatial.transform import Rotation as R

import magpylib as magpy
from magpylib._src.fields.field_wrap_BH import getBH_level1
from magpylib._src.fields.field_BH_cuboid import BHJM_magnet_cuboid
from magpylib._src.fields.field_BH_dipole import BHJM_dipole
from magpylib._src.fields.field_BH_tetrahedron import BHJM_magnet_tetrahedron

warnings.simplefilter("ignore")


def dig(name, val):
    if isinstance(val, BaseException):
        msg = re.sub(r"id=\d+|0x[0-9a-f]+", "#", str(val))
        print(f"{name}: EXC {type(val).__name__}: {msg[:140]!r}")
    elif val is None:
        print(f"{name}: None")
    else:
        a = np.asarray(val, dtype=float)
        h = hashlib.sha256(np.ascontiguousarray(a).tobytes()).hexdigest()[:16]
        print(f"{name}: shape={a.shape} sha={h} sum={np.sum(a):.12e}")


def run(name, func):
    try:
        dig(name, func())
    except Exception as err:  # pylint: disable=broad-except
        dig(name, err)


rng = np.random.default_rng(7)
N = 6
pos = rng.normal(size=(N, 3))
obs = rng.normal(size=(N, 3)) * 3
rot = R.from_rotvec(rng.normal(size=(N, 3)))
pol = rng.normal(size=(N, 3))
dim = rng.uniform(0.5, 1.5, size=(N, 3))

LOG = []


def ff_plain(field, observers, polarization):
    """field function without in_out"""
    LOG.append(("plain", field, hashlib.sha256(observers.tobytes()).hexdigest()[:12]))
    return observers * 2.0 + polarization


def ff_inout(field, observers, extra, in_out="auto", other=1.0):
    LOG.append(("inout", field, in_out, hashlib.sha256(observers.tobytes()).hexdigest()[:12]))
    return np.cross(observers, extra) * other


def ff_kw(field, observers, **kw):
    """keyword order seen by the field function"""
    LOG.append(("kw", tuple(kw)))
    return observers


def ff_kw_inout(field, observers, in_out, **kw):
    LOG.append(("kw_inout", in_out, tuple(kw)))
    return observers[::-1]


def ff_none(field, observers, **kw):
    LOG.append(("none", tuple(kw)))
    return None


def ff_raise(field, observers, **kw):
    LOG.append(("raise", tuple(kw)))
    raise ZeroDivisionError("boom " + ",".join(kw))


class Callme:
    def __call__(self, field, observers, in_out):
        LOG.append(("callme", in_out))
        return observers + 1


base = dict(field="B", position=pos, orientation=rot, observers=obs)
for fld in "BHJM":
    run(f"cuboid/{fld}", lambda: getBH_level1(
        field_func=BHJM_magnet_cuboid, **{**base, "field": fld}, polarization=pol, dimension=dim))
    run(f"cuboid-inout/{fld}", lambda: getBH_level1(
        field_func=BHJM_magnet_cuboid, **{**base, "field": fld}, polarization=pol, dimension=dim,
        in_out="inside"))
    run(f"dipole/{fld}", lambda: getBH_level1(
        field_func=BHJM_dipole, **{**base, "field": fld}, moment=pol, in_out="auto"))
verts = rng.normal(size=(N, 4, 3))
for io in ("auto", "inside", "outside"):
    run(f"tetra/{io}", lambda: getBH_level1(
        field_func=BHJM_magnet_tetrahedron, **base, polarization=pol, vertices=verts, in_out=io))
run("tetra/no-inout", lambda: getBH_level1(
    field_func=BHJM_magnet_tetrahedron, **base, polarization=pol, vertices=verts))

run("plain", lambda: getBH_level1(field_func=ff_plain, **base, polarization=pol))
run("plain+inout", lambda: getBH_level1(field_func=ff_plain, **base, in_out="x", polarization=pol))
run("inout", lambda: getBH_level1(field_func=ff_inout, **base, extra=pol, in_out="inside"))
run("inout-missing", lambda: getBH_level1(field_func=ff_inout, **base, extra=pol))
run("inout-other", lambda: getBH_level1(field_func=ff_inout, **base, other=3.0, in_out=None, extra=pol))
run("kw-order-1", lambda: getBH_level1(field_func=ff_kw, **base, a=1, in_out="q", b=2, c=3))
run("kw-order-2", lambda: getBH_level1(field_func=ff_kw, b=2, in_out="q", **base, a=1))
run("kw-order-3", lambda: getBH_level1(field_func=ff_kw, **base, a=1, b=2))
run("kw-inout-order", lambda: getBH_level1(field_func=ff_kw_inout, **base, z=1, in_out="q", a=2))
run("none", lambda: getBH_level1(field_func=ff_none, **base, in_out="q", a=2))
run("none-inout", lambda: getBH_level1(field_func=lambda field, observers, in_out: None, **base, in_out=1))
run("callable-object", lambda: getBH_level1(field_func=Callme(), **base, in_out="inside"))
run("single-rotation", lambda: getBH_level1(
    field_func=ff_plain, field="H", position=pos[0], orientation=rot[0], observers=obs, polarization=pol))
run("identity", lambda: getBH_level1(
    field_func=ff_plain, field="H", position=np.zeros(3), orientation=R.identity(), observers=obs,
    polarization=pol))

# the caller's dict is not changed
user_kw = {"a": 1, "in_out": "q", "b": 2}
run("user-kw", lambda: getBH_level1(field_func=ff_kw, **base, **user_kw))
print("user-kw-after:", user_kw)
obs_copy, pos_copy = obs.copy(), pos.copy()
print("inputs-untouched:", np.array_equal(obs, obs_copy), np.array_equal(pos, pos_copy))

# error paths - which one comes first
run("err/field-func-raises", lambda: getBH_level1(field_func=ff_raise, **base, in_out=1, a=1))
run("err/orientation-none", lambda: getBH_level1(
    field_func=ff_raise, field="B", position=pos, orientation=None, observers=obs))
run("err/orientation-none+not-callable", lambda: getBH_level1(
    field_func=None, field="B", position=pos, orientation=None, observers=obs))
run("err/not-callable", lambda: getBH_level1(field_func=None, **base))
run("err/not-callable-str", lambda: getBH_level1(field_func="cuboid", **base, in_out=1))
run("err/shape", lambda: getBH_level1(
    field_func=ff_raise, field="B", position=pos[:4], orientation=rot, observers=obs))
run("err/rot-length", lambda: getBH_level1(
    field_func=ff_raise, field="B", position=pos, orientation=rot[:4], observers=obs))
run("err/unexpected-kw", lambda: getBH_level1(field_func=ff_plain, **base, polarization=pol, bad=1))
run("err/unexpected-kw-inout", lambda: getBH_level1(field_func=ff_plain, **base, in_out=1, bad=1))
run("err/missing-kw", lambda: getBH_level1(field_func=ff_plain, **base))
run("err/bad-result", lambda: getBH_level1(
    field_func=lambda field, observers: "text", **base))
run("err/bad-result-shape", lambda: getBH_level1(
    field_func=lambda field, observers: np.ones((N + 1, 3)), **base, in_out=3))
run("err/positional", lambda: getBH_level1(ff_plain, "B", pos, rot, obs))
run("err/missing-observers", lambda: getBH_level1(
    field_func=ff_plain, field="B", position=pos, orientation=rot))
for entry in LOG:
    print("log:", entry)

# through the public interface, with a rigid motion of the whole setup (C03)
cub = magpy.magnet.Cuboid(polarization=(0.1, 0.2, 0.3), dimension=(1, 2, 3), position=(0.1, 0.2, 0.3))
cub.rotate_from_angax([10, 20, 30], (1, 2, 3), anchor=(1, 0, 0))
tet = magpy.magnet.Tetrahedron(
    polarization=(0.3, -0.1, 0.2), vertices=[(0, 0, 0), (1, 0, 0), (0, 1, 0), (0, 0, 1)],
    position=(-2, 1, 0.5)).rotate_from_angax(40, "y")
circ = magpy.current.Circle(current=3.0, diameter=2.0, position=(0, 0, -2))
custom = magpy.misc.CustomSource(field_func=lambda field, observers: observers * 0.5, position=(1, 1, 1))
custom_none = magpy.misc.CustomSource(field_func=lambda field, observers: None)
sens = magpy.Sensor(pixel=[(0, 0, 0), (0.1, 0.2, 0.3)], position=(3, 3, 3)).rotate_from_angax(33, "x")
for io in ("auto", "inside", "outside"):
    run(f"api/B/{io}", lambda: magpy.getB([cub, tet, circ, custom], sens, in_out=io))
    run(f"api/H/{io}", lambda: magpy.getH([cub, tet, circ, custom], sens, in_out=io, sumup=True))
run("api/none", lambda: magpy.getB([cub, custom_none], sens))
run("api/bad-inout", lambda: magpy.getB([cub, tet], sens, in_out="bad"))

G = R.from_rotvec((0.3, -1.1, 0.7))
T = np.array((0.4, -2.0, 1.5))
B0 = magpy.getB([cub, tet, circ], sens.position + np.array([(0, 0, 0), (1, 0.5, 0.2)]))
objs = [cub, tet, circ]
for o in objs:
    o.rotate(G, anchor=0).move(T)
B1 = magpy.getB(objs, G.apply(sens.position + np.array([(0, 0, 0), (1, 0.5, 0.2)])) + T)
dig("c03/B0", B0)
dig("c03/B1", B1)
print("c03 holds:", np.allclose(G.apply(B0.reshape(-1, 3)), B1.reshape(-1, 3), rtol=1e-10, atol=1e-14))
