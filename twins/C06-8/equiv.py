import os, sys; sys.path.insert(0, os.getcwd())
import hashlib
import warnings

import numpy as np

import magpylib as magpy
from magpylib._src.fields.field_BH_triangularmesh import BHJM_magnet_trimesh
from magpylib._src.fields.field_BH_triangularmesh import fix_trimesh_orientation
from magpylib._src.fields.field_BH_triangularmesh import mask_inside_trimesh

warnings.simplefilter("ignore")


def dig(name, arr):
    arr = np.ascontiguousarray(np.asarray(arr, dtype=float))
    h = hashlib.sha256(arr.tobytes()).hexdigest()[:16]
    print(name, arr.shape, h, np.round(arr.ravel()[:4], 12).tolist())


def attempt(name, func, *args, **kwargs):
    try:
        res = func(*args, **kwargs)
        print(name, "ok", np.asarray(res).dtype, np.asarray(res).astype(int).tolist())
    except Exception as err:  # pylint: disable=broad-except
        print(name, type(err).__name__, str(err)[:60])


# meshes (faces as vertex triples)
cube = magpy.magnet.TriangularMesh.from_ConvexHull(
    polarization=(0.1, 0.2, 0.3),
    points=[(x, y, z) for x in (-1, 1) for y in (-1, 1) for z in (-1, 1)],
)
tetra = magpy.magnet.TriangularMesh.from_ConvexHull(
    polarization=(0.3, 0.1, -0.2), points=[(0, 0, 0), (2, 0, 0), (0, 2, 0), (0, 0, 2)]
)
cube_faces = cube.mesh
tetra_faces = tetra.mesh
print("faces", cube_faces.shape, tetra_faces.shape)

rng = np.random.default_rng(3)
pts = np.concatenate(
    [
        rng.uniform(-1.5, 1.5, (40, 3)),  # in and around the box
        rng.uniform(-30, 30, (10, 3)),  # far away
        [(1, 0, 0), (1, 1, 1), (0, 0, -1), (1 + 1e-13, 0, 0), (1 + 1e-11, 0, 0)],  # surface
        [(0, 0, 0), (0.5, 0.5, 0.5), (0.2, 0.2, 0.2), (1.2, 0.2, 0.2), (0.9, 0.9, 0.9)],
    ]
)

# 1) direct calls of the inside test
attempt("cube", mask_inside_trimesh, pts, cube_faces)
attempt("tetra", mask_inside_trimesh, pts, tetra_faces)
attempt("tetra shifted", mask_inside_trimesh, pts, tetra_faces - 0.3)
attempt("one point", mask_inside_trimesh, pts[:1], cube_faces)
attempt("all outside box", mask_inside_trimesh, pts + 100.0, cube_faces)
attempt("no points", mask_inside_trimesh, np.zeros((0, 3)), cube_faces)
attempt("int points", mask_inside_trimesh, np.array([[0, 0, 0], [5, 0, 0]]), cube_faces)
attempt("nan point", mask_inside_trimesh, np.array([[np.nan, 0, 0], [0, 0, 0.0]]), cube_faces)
# error paths
attempt("points (n,2)", mask_inside_trimesh, pts[:, :2], cube_faces)
attempt("points (n,4)", mask_inside_trimesh, np.ones((3, 4)), cube_faces)
attempt("points 1d", mask_inside_trimesh, np.array([0.0, 0.0, 0.0]), cube_faces)
attempt("faces (m,3,2)", mask_inside_trimesh, pts, cube_faces[:, :, :2])
attempt("no faces", mask_inside_trimesh, pts, np.zeros((0, 3, 3)))
attempt("faces list", mask_inside_trimesh, pts, cube_faces.tolist())

# 2) core field function, runs of equal meshes, ragged input
n = len(pts)
pol = np.tile((0.1, 0.2, 0.3), (n, 1))
for field in "BHJM":
    for in_out in ("auto", "inside", "outside"):
        out = BHJM_magnet_trimesh(
            field, pts, np.tile(cube_faces, (n, 1, 1, 1)), pol.copy(), in_out=in_out
        )
        dig(f"uniform {field} {in_out}", out)
ragged = np.empty(n, dtype=object)
for i in range(n):
    ragged[i] = cube_faces if (i // 7) % 2 == 0 else tetra_faces
for field in "BJ":
    dig(f"ragged {field}", BHJM_magnet_trimesh(field, pts, ragged, pol.copy()))

# 3) mesh orientation repair uses the inside test as well
verts = np.array([(x, y, z) for x in (-1, 1) for y in (-1, 1) for z in (-1, 1)], float)
tri = cube.faces.copy()
tri[::2] = tri[::2][:, [0, 2, 1]]  # flip every second face
print("fixed", fix_trimesh_orientation(verts, tri).tolist() == cube.faces.tolist())
dig("fixed faces", fix_trimesh_orientation(verts, tri))

# 4) object oriented, several meshes with paths, observers inside and outside
cube.position = [(0, 0, 0), (0.5, 0, 0), (3, 0, 0)]
tetra.rotate_from_angax(45, "z")
sens = magpy.Sensor(pixel=[(0, 0, 0), (0.3, 0.3, 0.3), (4, 4, 4)])
B = magpy.getB([cube, tetra, cube], [sens, (0.1, 0.1, 0.1)], pixel_agg="mean", squeeze=False)
dig("B obj", B)
for l, src in enumerate([cube, tetra, cube]):
    b = magpy.getB(src, sens, pixel_agg="mean", squeeze=False)
    print(" alone", l, bool(np.all(b[0, :, 0] == B[l, : b.shape[1], 0])))
dig("J obj", magpy.getJ([cube, tetra], sens))
