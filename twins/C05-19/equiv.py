import os, sys; sys.path.insert(0, os.getcwd())
import hashlib
import warnings

import numpy as np

import magpylib as magpy
from magpylib._src.fields.field_BH_sphere import BHJM_magnet_sphere

warnings.simplefilter("ignore")


def run(name, fn):
    try:
        arr = np.asarray(fn())
        h = hashlib.sha256(np.ascontiguousarray(arr).tobytes()).hexdigest()[:16]
        print(name, arr.dtype, arr.shape, h, np.round(arr.ravel()[:9], 12).tolist())
        return arr
    except BaseException as e:  # pylint: disable=broad-except
        print(name, "raised", type(e).__name__, "|", str(e)[:200].replace("\n", " / "))
        return None


class Field(str):
    """str subclass, accepted by the field check like a plain str"""


rng = np.random.default_rng(3)

# (observer, diameter, polarization)
ROWS = {
    "outside": ((0.9, 0.4, 0.5), 1.0, (0.1, 0.2, 0.3)),
    "far": ((30.0, -4.0, 5.0), 2.0, (1.0, 0.0, -1.0)),
    "inside": ((0.1, 0.2, 0.3), 1.0, (0.1, 0.2, 0.3)),
    "center": ((0.0, 0.0, 0.0), 1.0, (0.0, 0.0, 1.0)),
    "on_surface": ((0.5, 0.0, 0.0), 1.0, (0.3, 0.2, 0.1)),
    "just_outside": ((0.5 + 1e-15, 0.0, 0.0), 1.0, (0.3, 0.2, 0.1)),
    "neg_diameter_inside": ((0.1, 0.2, 0.3), -2.0, (0.1, 0.2, 0.3)),
    "neg_diameter_outside": ((1.1, 0.2, 0.3), -2.0, (0.1, 0.2, 0.3)),
    "zero_diameter": ((0.1, 0.2, 0.3), 0.0, (0.1, 0.2, 0.3)),
    "zero_diameter_center": ((0.0, 0.0, 0.0), 0.0, (0.1, 0.2, 0.3)),
    "zero_pol_outside": ((0.9, 0.4, 0.5), 1.0, (0.0, 0.0, 0.0)),
    "nan_diameter": ((0.9, 0.4, 0.5), np.nan, (0.1, 0.2, 0.3)),
    "nan_observer": ((np.nan, 0.4, 0.5), 1.0, (0.1, 0.2, 0.3)),
    "inf_observer": ((np.inf, 0.4, 0.5), 1.0, (0.1, 0.2, 0.3)),
    "huge": ((1e80, 1e80, 0.0), 1e70, (1.0, 2.0, 3.0)),
}


def arrays(keys):
    cols = list(zip(*[ROWS[k] for k in keys]))
    return np.array(cols[0], dtype=float), np.array(cols[1], dtype=float), np.array(cols[2], dtype=float)


def call(field, keys):
    obs, dia, pol = arrays(keys)
    return BHJM_magnet_sphere(field, obs, dia, pol)


print("==== every kind of row alone, all fields")
for key in ROWS:
    for field in "BHJM":
        run(f"{key} {field}", lambda: call(field, [key]))

print("==== batches: all inside / all outside / mixed")
BATCHES = {
    "all inside": ["inside", "center", "on_surface", "neg_diameter_inside", "nan_diameter"],
    "all outside": ["outside", "far", "just_outside", "neg_diameter_outside", "zero_diameter"],
    "alternating": ["inside", "outside", "center", "far", "on_surface", "just_outside"],
    "everything": list(ROWS),
    "everything reversed": list(ROWS)[::-1],
}
for name, keys in BATCHES.items():
    res = {}
    for field in "BHJM":
        res[field] = run(f"{name} {field}", lambda: call(field, keys))
    for field in "BHJM":
        single = np.array([call(field, [k])[0] for k in keys])
        print(f"   {field} rows == single-row calls:", np.array_equal(res[field], single, equal_nan=True))

print("==== random mixes, linearity in the polarization, inputs untouched, result is a new array")
keys = list(ROWS)
for trial in range(6):
    pick = [keys[i] for i in rng.integers(0, len(keys), 60)]
    obs, dia, pol = arrays(pick)
    jitter = rng.random(60) < 0.5
    obs[jitter] += rng.normal(0, 0.3, (int(jitter.sum()), 3))
    pol = pol * rng.integers(-2, 3, (60, 1))
    saved = [a.copy() for a in (obs, dia, pol)]
    for field in "BHJM":
        f1 = run(f"mix{trial} {field}", lambda: BHJM_magnet_sphere(field, obs, dia, pol))
        f2 = BHJM_magnet_sphere(field, obs, dia, 2 * pol)
        print(f"   {field}(2J) == 2 {field}(J):", np.array_equal(f2, 2 * f1, equal_nan=True), "| shares memory with input:", np.shares_memory(f1, pol))
    print("   inputs untouched:", all(np.array_equal(a, b, equal_nan=True) for a, b in zip(saved, (obs, dia, pol))))

print("==== field given as str subclass / degenerate and error inputs")
obs, dia, pol = arrays(["inside", "outside", "center", "far"])
for field in "BHJM":
    run(f"str subclass {field}", lambda: BHJM_magnet_sphere(Field(field), obs, dia, pol))
e3, e1 = np.zeros((0, 3)), np.zeros(0)
for field in "BHJM":
    run(f"empty {field}", lambda: BHJM_magnet_sphere(field, e3, e1, e3))
run("bad field X", lambda: BHJM_magnet_sphere("X", obs, dia, pol))
run("bad field JM", lambda: BHJM_magnet_sphere("JM", obs, dia, pol))
run("bad field empty str", lambda: BHJM_magnet_sphere("", obs, dia, pol))
run("bad field None", lambda: BHJM_magnet_sphere(None, obs, dia, pol))
run("bad field tuple", lambda: BHJM_magnet_sphere(("J", "M"), obs, dia, pol))
run("int inputs B", lambda: BHJM_magnet_sphere("B", np.array([(1, 1, 1), (0, 0, 0)]), np.array([1, 2]), np.array([(1, 0, 0), (1, 1, 0)])))
run("int inputs H", lambda: BHJM_magnet_sphere("H", np.array([(1, 1, 1), (0, 0, 0)]), np.array([1, 2]), np.array([(1, 0, 0), (1, 1, 0)])))
for field in "BHJ":
    run(f"scalar diameter {field}", lambda: BHJM_magnet_sphere(field, obs, 1.0, pol))
    run(f"obs 2 columns {field}", lambda: BHJM_magnet_sphere(field, obs[:, :2], dia, pol))
    run(f"pol None {field}", lambda: BHJM_magnet_sphere(field, obs, dia, None))
    run(f"lists {field}", lambda: BHJM_magnet_sphere(field, obs.tolist(), dia.tolist(), pol.tolist()))
    run(f"pol shorter {field}", lambda: BHJM_magnet_sphere(field, obs, dia, pol[:2]))
run("core function", lambda: magpy.core.magnet_sphere_Bfield(observers=obs, diameters=dia, polarizations=pol))

print("==== through the object interface")
balls = [
    magpy.magnet.Sphere(diameter=1, polarization=(0.1, 0.2, 0.3)),
    magpy.magnet.Sphere(diameter=2, polarization=(1, 0, 0), position=(0.4, 0, 0)),
    magpy.magnet.Sphere(diameter=0.5, polarization=(0, 0, -1), position=(0, 0, 1.3)),
    magpy.magnet.Sphere(diameter=1, magnetization=(1e5, 2e5, 0), position=(-2, 0, 0)),
]
balls[2].rotate_from_angax([0, 45, 90], "y", anchor=0)
OBS = [(0, 0, 0), (0.5, 0, 0), (0.3, 0.4, 0.5), (0, 0, 1.3), (1, 1, 2), (-2, 0.1, 0), (5, 5, 5)]
col = magpy.Collection(balls[0], magpy.Collection(balls[1], balls[2]))
for field in "BHJM":
    fn = getattr(magpy, "get" + field)
    lst = run(f"obj list {field}", lambda: fn(balls, OBS))
    tot = run(f"obj sumup {field}", lambda: fn(balls, OBS, sumup=True))
    print("   sumup == np.sum(list):", np.array_equal(tot, np.sum(lst, axis=0)))
    run(f"obj collection {field}", lambda: fn([col, balls[3]], OBS))
run("dict interface", lambda: magpy.getH("Sphere", OBS, diameter=[1, 2, 1, 2, 1, 2, 1], polarization=(0.1, 0.2, 0.3)))
run("dict interface scalar", lambda: magpy.getB("Sphere", (0, 0, 1), diameter=1, polarization=(0, 0, 1)))
