import os, sys; sys.path.insert(0, os.getcwd())
import gc
import hashlib
import re
import warnings

import numpy as np

import magpylib as magpy
from magpylib._src import utility
from magpylib._src.obj_classes.class_BaseExcitations import BaseCurrent
from magpylib._src.obj_classes.class_BaseExcitations import BaseMagnet
from magpylib._src.obj_classes.class_BaseExcitations import BaseSource
from magpylib._src.obj_classes.class_BaseGeo import BaseGeo
from magpylib._src.utility import get_allowed_sources_msg
from magpylib._src.utility import get_registered_sources
from magpylib._src.utility import get_subclasses
from magpylib._src.utility import wrong_obj_msg

warnings.simplefilter("ignore")
gc.disable()  # subclass lists hold weak references


def h(x):
    x = np.ascontiguousarray(np.asarray(x))
    return f"{x.dtype}{x.shape} {hashlib.sha1(x.tobytes()).hexdigest()[:12]}"


def clean(err):
    return re.sub(r"0x[0-9a-f]+|id=\d+", "ADDR", str(err).replace("\n", " / "))


def attempt(label, func, *args, **kwargs):
    try:
        res = func(*args, **kwargs)
    except Exception as err:  # pylint: disable=broad-except
        print(f"{label}: EXC {type(err).__name__} cause={type(err.__cause__).__name__}: {clean(err)}")
        return None
    print(f"{label}: {res if isinstance(res, (str, list, type(None))) else h(res)}")
    return res


TAGS = {}


def tag(cls):
    """class name plus a stable tag telling same-named classes apart"""
    return f"{cls.__name__}@{TAGS.get(cls, cls.__module__.rsplit('.', 1)[-1])}"


def show(label, dct):
    print(f"{label}: {type(dct).__name__} n={len(dct)}")
    print("    " + " ".join(f"{k}={tag(v)}" for k, v in dct.items()))


def snapshot(title):
    print(f"== {title}")
    show("registered sources", get_registered_sources())
    show("subclasses(BaseSource) flat", get_subclasses(BaseSource))
    show("subclasses(BaseSource, recursive)", get_subclasses(BaseSource, recursive=True))
    show("subclasses(BaseMagnet, recursive=1)", get_subclasses(BaseMagnet, recursive=1))
    show("subclasses(BaseCurrent, False)", get_subclasses(BaseCurrent, False))
    show("subclasses(CustomSource, True)", get_subclasses(magpy.misc.CustomSource, True))
    show("subclasses(Polyline)", get_subclasses(magpy.current.Polyline))
    print("new dict each call:", get_registered_sources() is not get_registered_sources(),
          get_subclasses(BaseSource) is not get_subclasses(BaseSource))
    print("allowed msg:", clean(get_allowed_sources_msg()))
    attempt("unknown class name", magpy.getB, "NoSuchSource", (1, 2, 3), polarization=(1, 2, 3))
    attempt("bad source object", magpy.getB, 1, (1, 2, 3))
    print("wrong_obj_msg:", clean(wrong_obj_msg(5, allow="sources+observers")))


snapshot("library only")
show("subclasses(BaseGeo, True)", get_subclasses(BaseGeo, True))
show("subclasses(leaf)", get_subclasses(magpy.magnet.Cuboid, True))
attempt("not a class", get_subclasses, 5)
attempt("not a class, recursive", get_subclasses, "abc", recursive=True)


def mk_ff(scale):
    def ff(field, observers, strength):
        return None if field == "H" else observers * strength[:, None] * scale

    return staticmethod(ff)


# --- user classes: same names at different places, a diamond, a deep chain ---
class Twin(magpy.misc.CustomSource):  # first "Twin", directly under CustomSource
    _field_func = mk_ff(1.0)
    _field_func_kwargs_ndim = {"strength": 1}


TAGS[Twin] = "first"
FirstTwin = Twin


class Left(magpy.magnet.Cuboid):
    pass


class Right(magpy.magnet.Cuboid):
    pass


class Diamond(Left, Right):  # reachable twice
    pass


class Chain1(magpy.current.Circle):
    pass


class Chain2(Chain1):
    pass


class Chain3(Chain2):
    pass


class Twin(Chain3):  # second "Twin", deep below Circle: later in the walk -> overrides the value
    _field_func = mk_ff(2.0)
    _field_func_kwargs_ndim = {"strength": 1}


TAGS[Twin] = "second"
SecondTwin = Twin


class Cuboid(magpy.misc.Dipole):  # shadows a library name
    pass


TAGS[Cuboid] = "user-below-Dipole"


class Sphere(BaseMagnet):  # shadows a library name at the same level, defined later
    _field_func = mk_ff(3.0)
    _field_func_kwargs_ndim = {"strength": 1}


TAGS[Sphere] = "user-below-BaseMagnet"


class BaseMagnet2(BaseSource):  # new direct child of the root with own children
    pass


class Leaf(BaseMagnet2):
    _field_func = mk_ff(4.0)
    _field_func_kwargs_ndim = {"strength": 1}


snapshot("with user classes")
show("subclasses(Cuboid lib, True)", get_subclasses(magpy.magnet.Cuboid, True))
show("subclasses(Left, True)", get_subclasses(Left, True))
show("subclasses(Circle, True)", get_subclasses(magpy.current.Circle, True))
show("subclasses(Chain2)", get_subclasses(Chain2))

print("== functional interface through the registry")
obs = np.array([(0.2, 0.3, 0.4), (1, 2, 3)])
params = {
    "Cuboid": None,  # shadowed, see below
    "Cylinder": dict(polarization=(0.1, 0.2, 0.3), dimension=(1, 2)),
    "CylinderSegment": dict(polarization=(0.1, 0.2, 0.3), dimension=(1, 2, 3, 10, 80)),
    "Tetrahedron": dict(polarization=(0.1, 0.2, 0.3), vertices=[(0, 0, 0), (1, 0, 0), (0, 1, 0), (0, 0, 1)]),
    "Circle": dict(current=[1.5, 2.5], diameter=2),
    "Polyline": dict(current=1.5, segment_start=(0, 0, 0), segment_end=[(1, 1, 1), (2, 0, 1)]),
    "Line": dict(current=1.5, segment_start=(0, 0, 0), segment_end=[(1, 1, 1), (2, 0, 1)]),
    "Dipole": dict(moment=[(1, 2, 3), (3, 2, 1)]),
    "Triangle": dict(polarization=(0.1, 0.2, 0.3), vertices=[(0, 0, 0), (1, 0, 0), (0, 1, 0)]),
    "Twin": dict(strength=[1.0, 2.0]),
    "Sphere": dict(strength=[1.0, 2.0]),
    "Leaf": dict(strength=0.5),
    "Left": dict(polarization=(0.1, 0.2, 0.3), dimension=(1, 2, 3)),
    "Diamond": dict(polarization=[(0.1, 0.2, 0.3), (1, 1, 1)], dimension=(1, 2, 3)),
    "Chain2": dict(current=[1.5, 2.5], diameter=2),
    "BaseMagnet2": dict(),
    "BaseMagnet": dict(polarization=(1, 2, 3)),
    "BaseSource": dict(),
    "TriangularMesh": dict(polarization=(0.1, 0.2, 0.3), mesh=[[(0, 0, 0), (1, 0, 0), (0, 1, 0)]] ),
    "CustomSource": dict(),
}
for name, kw in params.items():
    if kw is None:
        kw = dict(moment=[(1, 2, 3), (3, 2, 1)])  # the user "Cuboid" is a Dipole
    for fld in "BHJM":
        attempt(f"get{fld}({name!r})", getattr(magpy, f"get{fld}"), name, obs, **kw)
# object interface agrees (property text), user class instances
B_obj = magpy.getB([magpy.misc.Dipole(moment=(1, 2, 3)), magpy.misc.Dipole(moment=(3, 2, 1))], obs)
print("object Dipoles per observer:", h(np.array([B_obj[0, 0], B_obj[1, 1]])))
attempt("unhashable source name", magpy.getB, ["Cuboid"], obs)
attempt("sens.getB by name", magpy.Sensor(pixel=obs).getB, "Dipole", moment=(1, 2, 3))
