import os, sys; sys.path.insert(0, os.getcwd())
import re
import warnings
from fractions import Fraction

import numpy as np
from scipy.spatial.transform import Rotation as R

import magpylib as magpy

warnings.simplefilter("ignore")


def dig(r):
    if isinstance(r, np.ndarray):
        return f"ARR {r.dtype} {r.shape} {np.round(r, 12).tolist()}"
    if isinstance(r, R):
        q = r.as_quat()
        return f"ROT {q.shape} {np.round(q, 12).tolist()}"
    return f"RET {type(r).__name__} {r!r}"


def run(f):
    try:
        out = dig(f())
    except Exception as e:  # pylint: disable=broad-except
        out = f"EXC {type(e).__name__}: {e} | cause={type(e.__cause__).__name__}"
    return re.sub(r"0x[0-9a-f]+|id=\d+", "ADDR", out)


def emit(*args):
    print(re.sub(r"0x[0-9a-f]+|id=\d+", "ADDR", " ".join(str(a) for a in args)))


def state(obj):
    return (
        f"P={obj._position.dtype}{obj._position.shape}{np.round(obj._position, 12).tolist()} "
        f"Q={np.round(obj._orientation.as_quat(), 12).tolist()}"
    )


class LoudFloat:
    def __float__(self):
        raise RuntimeError("no float for you")


positions = [
    None, 0, 2.5, True, "abc", Fraction(1, 3), (), [], [[]], (1,), (1, 2), (1, 2, 3), [1, 2, 3], (1, 2, 3, 4),
    [(1, 2, 3)], [(1, 2, 3), (4, 5, 6)], [(1, 2, 3), (4, 5, 6), (7, 8, 9)], [(i, -i, 0.5 * i) for i in range(5)],
    [[(1, 2, 3)] * 2] * 2, (1, "a", 3), ("1", "2", "3"), (1, None, 3), [(1, 2, 3), (1, 2)], (1, 2, LoudFloat()),
    {1, 2, 3}, range(3), np.array([1, 2, 3]), np.array([[1, 2, 3]] * 2, dtype=np.int16), np.array(5.0),
    np.zeros((0, 3)), np.zeros((3, 0)), np.array([1, 2, 3], dtype=object), np.array([1, 2, 3], dtype=complex),
    np.arange(12.0).reshape(4, 3)[::-1], (np.inf, -np.inf, 1), (1e400, 2, 3), (0, 0, 0), (-1, -2, -3),
]
orientations = [
    None,
    R.from_rotvec((0, 0, 0.3)),
    R.from_rotvec([(0, 0, 0.3)]),
    R.from_rotvec([(0, 0, 0.1), (0, 0.2, 0)]),
    R.from_rotvec([(0.1 * i, 0, 0.2) for i in range(4)]),
    "bad",
    (0, 0, 0, 1),
]

classes = [magpy.Sensor, magpy.magnet.Cuboid, magpy.misc.Dipole, magpy.Collection]

# 1) constructor: position x orientation (padding of the shorter path, error precedence)
for cls in classes[:2]:
    for p in positions:
        for o in orientations:
            emit("init", cls.__name__, repr(p)[:50].replace("\n", " "), "|", dig(o) if isinstance(o, R) else repr(o), "->",
                 run(lambda: state(cls(position=p, orientation=o))))

# 2) setter: readback, unchanged after rejection, independence of the stored copy
starts = [
    dict(),
    dict(position=[(1, 1, 1), (2, 2, 2), (3, 3, 3)]),
    dict(orientation=R.from_rotvec([(0, 0, 0.1), (0, 0.2, 0), (0.3, 0, 0), (0, 0, 0.4)])),
]
for cls in classes:
    for kw in starts:
        for p in positions:
            obj = cls(**kw)
            before = state(obj)
            res = run(lambda: setattr(obj, "position", p))
            after = state(obj)
            emit("set", cls.__name__, sorted(kw), repr(p)[:50].replace("\n", " "), "->", res,
                 "UNCHANGED" if after == before else after, "| read", run(lambda: obj.position))

# 3) constructor vs setter equality and copy independence
for p in [(1, 2, 3), [(1, 2, 3), (4, 5, 6)], np.array([[1.0, 2.0, 3.0]] * 3)]:
    a = magpy.Sensor(position=p)
    b = magpy.Sensor()
    b.position = p
    emit("ctor==setter", np.array_equal(a._position, b._position), a._position.dtype, a._position.shape)
    if isinstance(p, np.ndarray):
        emit("shares", np.shares_memory(a._position, p), np.shares_memory(b._position, p))
        p[0, 0] = 99.0
        emit("after caller mutation", a.position.tolist(), b.position.tolist())

# 4) collection with children: children follow, path lengths adjusted
s1 = magpy.Sensor(position=(1, 0, 0))
c1 = magpy.magnet.Cuboid(dimension=(1, 1, 1), polarization=(0, 0, 1), position=[(0, 1, 0), (0, 2, 0)])
col = magpy.Collection(s1, c1, position=(1, 1, 1))
for p in [(2, 2, 2), [(0, 0, 0), (1, 0, 0), (2, 0, 0)], "bad", (1, 2), [(5, 5, 5)]]:
    res = run(lambda: setattr(col, "position", p))
    emit("coll set", repr(p), res, state(col), "|", state(s1), "|", state(c1))

# 5) downstream: move/rotate/reset_path/copy and a field computation
src = magpy.magnet.Cuboid(dimension=(1, 2, 3), polarization=(0.1, 0.2, 0.3), position=[(0, 0, 0), (1, 1, 1)],
                          orientation=R.from_rotvec((0, 0, 0.5)))
emit("state", state(src))
src.move((1, 0, 0))
emit("moved", state(src))
src.rotate_from_angax([10, 20, 30], "z", start=1)
emit("rotated", state(src))
cp = src.copy(position=(9, 9, 9))
emit("copy", state(cp))
emit("getB", np.round(src.getB((2, 3, 4)), 10).tolist())
src.reset_path()
emit("reset", state(src))
emit("kw position in ctor", run(lambda: state(magpy.Sensor((1, 2, 3), None))))

# 6) move(): displacement goes through the same family of checks (no reshape, None rejected)
for cls in classes:
    for kw in starts[:2]:
        for p in positions:
            for st in ("auto", 0, 1, -1, "bad"):
                obj = cls(**kw)
                before = state(obj)
                res = run(lambda: state(obj.move(p, start=st)))
                after = state(obj)
                emit("move", cls.__name__, sorted(kw), repr(p)[:50].replace("\n", " "), st, "->", res,
                     "UNCHANGED" if after == before else "CHANGED")

# 7) the validators themselves, positional / keyword, copy semantics
from magpylib._src import input_checks as ic
from magpylib._src.obj_classes.class_BaseTransform import apply_move

for p in positions:
    emit("civ pos", repr(p)[:50].replace("\n", " "), run(lambda: ic.check_format_input_vector(
        p, dims=(1, 2), shape_m1=3, sig_name="position",
        sig_type="array_like (list, tuple, ndarray) with shape (3,) or (n,3)", reshape=(-1, 3))))
    emit("apply_move", repr(p)[:50].replace("\n", " "), run(lambda: state(apply_move(magpy.Sensor(), p))))
arr = np.array([[1.0, 2.0, 3.0], [4.0, 5.0, 6.0]])
s = magpy.Sensor(position=arr)
emit("ctor shares", np.shares_memory(s._position, arr))
s.move(arr)
emit("move shares", np.shares_memory(s._position, arr), arr.tolist())
col2 = magpy.Collection(magpy.Sensor(position=(1, 0, 0)), position=(0, 1, 0))
emit("coll move", run(lambda: state(col2.move([(1, 1, 1), (2, 2, 2)]))), state(col2.children[0]))
emit("coll move None", run(lambda: state(col2.move(None))), state(col2.children[0]))
