import os, sys; sys.path.insert(0, os.getcwd())
# Equivalence digest for twins3/1 (rotate_from_rotvec / _euler / _matrix / _mrp /
# _quat merged into one parametrised private helper).
import inspect
import warnings

import numpy as np
from scipy.spatial.transform import Rotation as R

import magpylib as magpy

warnings.simplefilter("ignore")


def dig(a):
    return (np.round(np.asarray(a, dtype=float), 9) + 0.0).tolist()


def state(obj):
    return dig(obj._position), dig(obj._orientation.as_quat())


def tree_state(obj):
    out = [state(obj)]
    for child in getattr(obj, "children", []):
        out.extend(tree_state(child))
    return out


def show(tag, fn):
    try:
        print(tag, "->", fn())
    except BaseException as err:  # pylint: disable=broad-except
        print(tag, "-> EXC", type(err).__name__, str(err)[:120])


def sensor(n):
    s = magpy.Sensor(position=[(1 + i, 2 * i, -i) for i in range(n)])
    s.rotate_from_angax([7 * (i + 1) for i in range(n)], (1, 1, 0), start=0)
    return s


def tree():
    inner = magpy.Collection(sensor(2), position=[(0, 0, 1), (0, 1, 1), (1, 1, 1)])
    return magpy.Collection(inner, sensor(1), position=(3, 2, 1))


ROT = {
    "scalar": R.from_rotvec((0.1, -0.2, 0.3)),
    "one": R.from_rotvec([(0.1, -0.2, 0.3)]),
    "two": R.from_euler("xy", [(10, 20), (30, 40)], degrees=True),
    "three": R.from_rotvec([(0, 0, 0.25), (0, 0.5, 0), (0.75, 0, 0.1)]),
}
ANCHORS = {
    "none": None,
    "zero": 0,
    "single": (1, -1, 2),
    "two": [(1, 0, 0), (0, 2, 0)],
    "three": [(1, 0, 0), (0, 2, 0), (0, 0, 3)],
}
STARTS = ("auto", -5, -1, 0, 1, 3, np.int64(-2))

# the five front ends: (name, value builder from Rotation, extra kwargs list)
FRONT = {
    "rotvec": (lambda r: r.as_rotvec(), [{}, {"degrees": False}, {"degrees": True}]),
    "rotvec_deg": (lambda r: r.as_rotvec(degrees=True), [{"degrees": True}]),
    "matrix": (lambda r: r.as_matrix(), [{}]),
    "mrp": (lambda r: r.as_mrp(), [{}]),
    "quat": (lambda r: r.as_quat(), [{}]),
}


def call(obj, kind, value, **kw):
    name = "rotate_from_" + kind.split("_")[0]
    return getattr(obj, name)(value, **kw)


# 1) every front end against rotate() with the equivalent rotation
for n in (1, 3):
    for rk, rot in ROT.items():
        for ak, anc in ANCHORS.items():
            for start in STARTS:
                for kind, (conv, kws) in FRONT.items():
                    for kw in kws:
                        s = sensor(n)
                        ref = sensor(n)
                        val = conv(rot)
                        val0 = np.array(val, copy=True)

                        def run(s=s, kind=kind, val=val, anc=anc, start=start, kw=kw):
                            return call(s, kind, val, anchor=anc, start=start, **kw) is s

                        show(f"n={n} r={rk} a={ak} st={start!r} {kind} {kw}", run)
                        print("   ", state(s), "input untouched", np.array_equal(val, val0))
                        if kw.get("degrees", True) == kind.endswith("deg") or kind in (
                            "matrix", "mrp", "quat",
                        ):
                            try:
                                ref.rotate(rot, anchor=anc, start=start)
                                print(
                                    "    equal to rotate()",
                                    np.allclose(ref._position, s._position)
                                    and np.allclose(
                                        ref._orientation.as_matrix(),
                                        s._orientation.as_matrix(),
                                    ),
                                )
                            except BaseException as err:  # pylint: disable=broad-except
                                print("    rotate() EXC", type(err).__name__)

# 2) euler front end: sequences, scalar / vector angles, degrees flag
EULER = [
    ("z", 30), ("z", [10, 20, 30]), ("x", [15]), ("xy", (10, 20)), ("z", [[10], [20], [30]]),
    ("xy", [(10, 20), (30, 40)]), ("ZYX", (10, 20, 30)), ("zyx", [(1, 2, 3)] * 2),
    ("Y", 0.5), ("z", np.array([0.1, 0.2])), ("z", True), ("z", np.float32(12.5)),
]
for n in (1, 2):
    for seq, ang in EULER:
        for deg in (True, False):
            for ak in ("none", "zero", "two"):
                for start in ("auto", -3, 0, 2):
                    s = sensor(n)
                    show(
                        f"euler n={n} seq={seq} ang={ang!r} deg={deg} a={ak} st={start}",
                        lambda s=s, seq=seq, ang=ang, deg=deg, ak=ak, start=start: (
                            s.rotate_from_euler(
                                ang, seq, anchor=ANCHORS[ak], start=start, degrees=deg
                            )
                            is s
                        ),
                    )
                    print("   ", state(s))

# 3) positional / keyword call forms and defaults
s = sensor(2)
show("pos rotvec", lambda: state(s.rotate_from_rotvec((0, 0, 45), (1, 0, 0), 0, True)))
show("pos euler", lambda: state(s.rotate_from_euler(45, "y", (1, 0, 0), 1, False)))
show("pos matrix", lambda: state(s.rotate_from_matrix([(0, -1, 0), (1, 0, 0), (0, 0, 1)], 0, -1)))
show("pos mrp", lambda: state(s.rotate_from_mrp((0, 0, 1), None, "auto")))
show("pos quat", lambda: state(s.rotate_from_quat((0, 0, 1, 1), (1, 1, 1), -4)))
show("kw rotvec", lambda: state(s.rotate_from_rotvec(rotvec=[(0, 0, 45)] * 2, degrees=False)))
show("kw euler", lambda: state(s.rotate_from_euler(angle=[[5], [6]], seq="x", start=1)))
show("kw matrix", lambda: state(s.rotate_from_matrix(matrix=np.eye(3), anchor=0)))
show("kw mrp", lambda: state(s.rotate_from_mrp(mrp=[(0, 0, 1), (0, 1, 0)], start=-1)))
show("kw quat", lambda: state(s.rotate_from_quat(quat=[(0, 0, 1, 1)] * 3, anchor=(1, 2, 3))))
for name in ("rotvec", "euler", "matrix", "mrp", "quat"):
    meth = getattr(magpy.Sensor, "rotate_from_" + name)
    print(name, inspect.signature(meth), len(meth.__doc__), meth.__name__, meth.__qualname__)

# 4) Collections (compound rotation through the front ends)
for kind, (conv, kws) in FRONT.items():
    for rk in ("scalar", "two"):
        for ak in ("none", "single", "two"):
            for start in ("auto", -4, 1):
                col = tree()
                show(
                    f"coll {kind} r={rk} a={ak} st={start}",
                    lambda col=col, kind=kind, conv=conv, rk=rk, ak=ak, start=start, kws=kws: (
                        call(col, kind, conv(ROT[rk]), anchor=ANCHORS[ak], start=start, **kws[-1])
                        is col
                    ),
                )
                print("   ", tree_state(col))
col = tree()
show("coll euler", lambda: col.rotate_from_euler([[10], [20]], "x", anchor=None, start=1) is col)
print("   ", tree_state(col))

# 5) error paths: rejected by the scipy constructor, or by rotate(); nothing changes
BAD = [
    ("rotvec", dict(rotvec=(1, 2))),
    ("rotvec", dict(rotvec="abc")),
    ("rotvec", dict(rotvec=None)),
    ("rotvec", dict(rotvec=(0, 0, 1), degrees="yes")),
    ("rotvec", dict(rotvec=(0, 0, 1), start=1.5)),
    ("rotvec", dict(rotvec=(0, 0, 1), anchor=(1, 2))),
    ("rotvec", dict(rotvec=(0, 0, 1), anchor="a")),
    ("rotvec", dict(rotvec=[(0, 0, 1)] * 2, anchor=[(0, 0, 0)] * 3, start="x")),
    ("euler", dict(angle=10, seq="q")),
    ("euler", dict(angle=(10, 20), seq="z")),
    ("euler", dict(angle=10, seq="xX")),
    ("euler", dict(angle="a", seq="z")),
    ("euler", dict(angle=10, seq="z", start=None)),
    ("euler", dict(angle=10, seq="z", anchor=1)),
    ("euler", dict(angle=10, seq=None)),
    ("matrix", dict(matrix=np.eye(2))),
    ("matrix", dict(matrix=np.zeros((3, 3)))),
    ("matrix", dict(matrix="m")),
    ("matrix", dict(matrix=np.eye(3), start=[1])),
    ("matrix", dict(matrix=np.eye(3), anchor=[(1, 2, 3, 4)])),
    ("mrp", dict(mrp=(1, 2))),
    ("mrp", dict(mrp=None)),
    ("mrp", dict(mrp=(0, 0, 1), start="0")),
    ("mrp", dict(mrp=(0, 0, 1), anchor={})),
    ("quat", dict(quat=(0, 0, 0, 0))),
    ("quat", dict(quat=(1, 2, 3))),
    ("quat", dict(quat=[(0, 0, 1, 1), (0, 0, 0, 0)])),
    ("quat", dict(quat=(0, 0, 1, 1), start=2.0)),
    ("quat", dict(quat=(0, 0, 1, 1), anchor=(None,))),
    ("quat", dict(quat=(0, 0, 1, 1), bogus=1)),
    ("matrix", dict()),
]
for name, kw in BAD:
    for make in (lambda: sensor(3), tree):
        obj = make()
        before = tree_state(obj)
        show(
            f"bad {name} {sorted(kw)} {type(obj).__name__}",
            lambda obj=obj, name=name, kw=kw: getattr(obj, "rotate_from_" + name)(**kw) is obj,
        )
        print("    unchanged", tree_state(obj) == before)

# 6) operation sequences mixing the front ends with move and setters
s = sensor(2)
s.rotate_from_quat([(0, 0, 1, 1), (0, 1, 0, 1)], anchor=0)
s.move((1, 1, 1), start=-1)
s.rotate_from_mrp((0, 0.2, 0), anchor=(1, 0, 0), start=-6)
s.position = [(1, 2, 3)] * 3
s.rotate_from_matrix([np.eye(3)] * 2, start=2)
s.rotate_from_euler([(10,), (20,), (30,)], "z", anchor=[(1, 0, 0)] * 3, start=1, degrees=False)
s.orientation = R.from_rotvec([(0, 0, 0.1)] * 2)
s.rotate_from_rotvec([(0, 0, 90)], anchor=None, start="auto")
print("sequence", state(s), len(s._position) == len(s._orientation))
