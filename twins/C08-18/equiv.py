import os, sys; sys.path.insert(0, os.getcwd())
# Twin4-3: getBH_level1 (in_out filtering without pop, early return for None) and the tail of
#          getBH_dict_level2 (De Morgan on the `None` / squeeze test)
import functools
import hashlib
import re
import warnings

import numpy as np
from scipy.spatial.transform import Rotation as R

import magpylib as magpy
from magpylib._src.fields.field_wrap_BH import getBH_dict_level2
from magpylib._src.fields.field_wrap_BH import getBH_level1

warnings.simplefilter("ignore")


def h(a):
    a = np.ascontiguousarray(a)
    return hashlib.sha1(a.tobytes()).hexdigest()[:12] + str(a.shape) + str(a.dtype)


def clean(msg):
    msg = re.sub(r"0x[0-9a-f]+", "0x?", re.sub(r"id=\d+", "id=?", str(msg)))
    return msg.replace("\n", " | ")[:150]


def show(tag, fn):
    for rep in range(2):
        try:
            res = fn()
            if res is None:
                print(f"{tag}[{rep}] -> None")
            else:
                print(f"{tag}[{rep}] -> {type(res).__name__} {h(res)} {np.round(np.ravel(res)[:3], 12).tolist()}")
        except BaseException as err:  # pylint: disable=broad-except
            ctx = type(err.__context__).__name__ if err.__context__ is not None else None
            print(f"{tag}[{rep}] raised {type(err).__name__} ctx={ctx} :: {clean(err)}")


LOG = []


def rec(name, field, observers, kw):
    items = [(k, h(v) if isinstance(v, np.ndarray) else v) for k, v in kw.items()]
    LOG.append((name, field, h(observers), items))


def f_plain(field, observers):
    rec("plain", field, observers, {})
    return observers * 2.0


def f_inout(field, observers, in_out="dflt"):
    rec("inout", field, observers, {"in_out": in_out})
    return observers + 1.0


def f_kwargs(field, observers, **kw):
    rec("kwargs", field, observers, kw)
    return observers - 1.0


def f_inout_kwargs(field, observers, in_out, **kw):
    rec("inout_kwargs", field, observers, {"in_out": in_out, **kw})
    return observers[:, ::-1]


def f_extra(field, observers, dimension, polarization):
    rec("extra", field, observers, {"dimension": dimension, "polarization": polarization})
    return polarization * dimension


def f_none(field, observers):
    rec("none", field, observers, {})
    return None


def f_none_inout(field, observers, in_out):
    rec("none_inout", field, observers, {"in_out": in_out})
    return None


def f_list(field, observers):
    return [[1.0, 2.0, 3.0]] * len(observers)


def f_int(field, observers):
    return np.arange(3 * len(observers)).reshape(-1, 3)


def f_wrong(field, observers):
    return np.ones((len(observers) + 2, 3))


def f_zero(field, observers):
    return 0


def f_false(field, observers):
    return False


def f_boom(field, observers, in_out="x"):
    raise RuntimeError(f"boom {in_out}")


class Unhashable:
    __hash__ = None

    def __call__(self, field, observers):
        return observers * 1.0


class CallableObj:
    def __call__(self, field, observers, in_out="auto"):
        rec("callobj", field, observers, {"in_out": in_out})
        return observers * 3.0


pos = np.array([(0.0, 0, 0), (1, 1, 1), (2, 2, 2)])
obs = np.array([(1.0, 2, 3), (2, 3, 4), (-1, 0, 5)])
rot = R.from_rotvec([(0, 0, 0.3), (0.1, 0.2, 0.3), (1, -1, 0.5)])
dim = np.array([(1.0, 2, 3)] * 3)
pol = np.array([(0.1, 0.2, 0.3)] * 3)

print("== getBH_level1 directly")
FUNCS = dict(
    plain=f_plain, inout=f_inout, kwargs=f_kwargs, inout_kwargs=f_inout_kwargs, none=f_none,
    none_inout=f_none_inout, list=f_list, int=f_int, wrong=f_wrong, zero=f_zero, false=f_false,
    boom=f_boom, unhashable=Unhashable(), callobj=CallableObj(), partial=functools.partial(f_inout, in_out="bound"),
    builtin=len, notcallable=None, npfunc=np.add,
)
for name, fn in FUNCS.items():
    for extra in ({}, {"in_out": "inside"}, {"in_out": None}):
        LOG.clear()
        before = (h(pos), h(obs), h(rot.as_quat()))
        show(
            f"{name} {extra}",
            lambda: getBH_level1(field_func=fn, field="B", position=pos, orientation=rot, observers=obs, **extra),
        )
        print("    log", LOG, "inputs-same", before == (h(pos), h(obs), h(rot.as_quat())))

LOG.clear()
show("extra kwargs order", lambda: getBH_level1(field_func=f_extra, field="H", position=pos, orientation=rot, observers=obs, dimension=dim, in_out="auto", polarization=pol))
show("extra kwargs via **", lambda: getBH_level1(field_func=f_kwargs, field="H", position=pos, orientation=rot, observers=obs, a=1, in_out="auto", b=2, c=dim))
show("extra kwargs + in_out via **", lambda: getBH_level1(field_func=f_inout_kwargs, field="H", position=pos, orientation=rot, observers=obs, a=1, in_out="auto", b=2))
print("    log", LOG)
caller_kwargs = {"in_out": "outside", "dimension": dim, "polarization": pol}
show("caller dict", lambda: getBH_level1(field_func=f_extra, field="B", position=pos, orientation=rot, observers=obs, **caller_kwargs))
print("    caller dict keys", list(caller_kwargs))
show("missing orientation", lambda: getBH_level1(field_func=f_plain, field="B", position=pos, observers=obs))
show("single rotation", lambda: getBH_level1(field_func=f_plain, field="B", position=pos, observers=obs, orientation=R.identity()))
show("bad shapes", lambda: getBH_level1(field_func=f_plain, field="B", position=pos[:2], observers=obs, orientation=rot))

print("== functional interface (getBH_dict_level2)")


class NoneSrc(magpy.misc.CustomSource):
    _field_func = staticmethod(f_none)
    _field_func_kwargs_ndim = {}


class InOutSrc(magpy.misc.CustomSource):
    _field_func = staticmethod(f_inout)
    _field_func_kwargs_ndim = {}


class ZeroSrc(magpy.misc.CustomSource):
    _field_func = staticmethod(f_zero)
    _field_func_kwargs_ndim = {}


for sq in (True, False, 0, 1, None, "", "x", np.array([1, 2]), np.array([])):
    for st in ("NoneSrc", "InOutSrc", "ZeroSrc", "Sphere"):
        kw = dict(polarization=(0.1, 0.2, 0.3), diameter=1.0) if st == "Sphere" else {}
        LOG.clear()
        show(f"{st} squeeze={sq!r}", lambda: getBH_dict_level2(st, obs[:1], field="B", squeeze=sq, **kw))
        show(f"{st} squeeze={sq!r} in_out", lambda: getBH_dict_level2(st, obs, field="H", squeeze=sq, in_out="inside", **kw))
        print("    log", LOG)

for fname in ("getB", "getH", "getJ", "getM"):
    f = getattr(magpy, fname)
    for in_out in ("auto", "inside", "outside"):
        show(f"{fname} Cuboid {in_out}", lambda: f("Cuboid", obs, dimension=(1, 2, 3), polarization=(0.1, 0.2, 0.3), in_out=in_out, position=pos, orientation=rot))
        show(f"{fname} Tetra {in_out}", lambda: f("Tetrahedron", obs * 0.1, vertices=[(0, 0, 0), (1, 0, 0), (0, 0, 1), (0, 1, 0)], polarization=(0.1, 0.2, 0.3), in_out=in_out, squeeze=False))
        show(f"{fname} Circle {in_out}", lambda: f("Circle", obs, diameter=2, current=1.5, in_out=in_out))
    show(f"{fname} CustomSource", lambda: f("CustomSource", obs))
    show(f"{fname} NoneSrc", lambda: f("NoneSrc", obs))
    show(f"{fname} unknown", lambda: f("Nope", obs))
    show(f"{fname} bad in_out", lambda: f("Cuboid", obs, dimension=(1, 2, 3), polarization=(0.1, 0.2, 0.3), in_out="sideways"))

print("== object interface")
cub = magpy.magnet.Cuboid(polarization=(0.1, 0.2, 0.3), dimension=(1, 2, 3), position=pos, orientation=rot)
tet = magpy.magnet.Tetrahedron(polarization=(0.1, 0.2, 0.3), vertices=[(0, 0, 0), (1, 0, 0), (0, 0, 1), (0, 1, 0)])
loop = magpy.current.Circle(current=1, diameter=3)
sens = magpy.Sensor(pixel=[(0, 0, 0), (0.1, 0.1, 0.1)], position=(0.2, 0.2, 0.2))
custs = {name: magpy.misc.CustomSource(position=(1, 2, 3), orientation=R.from_rotvec((0.1, 0.2, 0.3))) for name in ("plain", "inout", "kwargs", "none", "none_inout", "wrong", "zero", "boom", "callobj")}
for name, c in custs.items():
    c._field_func = FUNCS[name]
objs = [cub, tet, loop, sens] + list(custs.values())


def snap():
    return [(h(o._position), h(o._orientation.as_quat()), id(o._orientation)) for o in objs]


for name, c in custs.items():
    for in_out in ("auto", "inside"):
        before = snap()
        LOG.clear()
        show(f"custom {name} {in_out}", lambda: magpy.getB([cub, c, tet], sens, in_out=in_out))
        show(f"custom {name} {in_out} H method", lambda: c.getH(sens, in_out=in_out))
        print("    log", LOG, "state-same", before == snap())
before = snap()
for in_out in ("auto", "inside", "outside"):
    show(f"magnets {in_out}", lambda: magpy.getB([cub, tet, loop], sens, in_out=in_out, sumup=True))
    show(f"no-magnets {in_out}", lambda: magpy.getH([loop], sens, in_out=in_out))
print("    state-same", before == snap())
