import os, sys; sys.path.insert(0, os.getcwd())
import hashlib
import re
import builtins

import numpy as np

import magpylib as magpy
from magpylib._src.exceptions import MagpylibBadUserInput, MagpylibMissingInput


_print = builtins.print


def print(*args):  # deterministic: strip object ids / addresses
    txt = " ".join(str(a) for a in args)
    txt = re.sub(r"id=\d+", "id=#", txt)
    txt = re.sub(r"0x[0-9a-f]+", "0x#", txt)
    _print(txt)


class _Sanitized:
    """stdout wrapper: also the library's own print() output must be id-free"""

    def __init__(self, stream):
        self.stream = stream

    def write(self, txt):
        txt = re.sub(r"id=\d+", "id=#", txt)
        return self.stream.write(re.sub(r"0x[0-9a-f]+", "0x#", txt))

    def flush(self):
        self.stream.flush()


sys.stdout = _Sanitized(sys.stdout)


def dig(name, arr):
    arr = np.asarray(arr)
    h = hashlib.sha256(np.ascontiguousarray(arr).tobytes()).hexdigest()[:16]
    print(name, arr.shape, h, np.round(arr.ravel()[:6], 12).tolist())


def err(name, fn):
    try:
        fn()
        print(name, "no error")
    except Exception as e:  # pylint: disable=broad-except
        print(name, type(e).__name__, str(e).splitlines()[0][:90])


def names(objs):
    return [f"{type(o).__name__}:{getattr(getattr(o, 'style', None), 'label', o)}" for o in objs]


def build():
    a = magpy.magnet.Cuboid(polarization=(0.1, 0.2, 0.3), dimension=(1, 2, 3), style_label="a")
    b = magpy.current.Circle(current=2.0, diameter=1.0, position=(0, 0, 2), style_label="b")
    c = magpy.misc.Dipole(moment=(1, 0, 2), position=(3, 0, 0), style_label="c")
    d = magpy.magnet.Sphere(polarization=(0, 0, 0.5), diameter=1.0, position=(0, 3, 0), style_label="d")
    x = magpy.Sensor(style_label="x", position=(1, 1, 1))
    y = magpy.Sensor(style_label="y", position=(-1, 2, 1)).rotate_from_angax([0, 20, 40], "x", start=0)
    z = magpy.Sensor(style_label="z", position=(0.1, 0.2, 0.3), handedness="left")
    return a, b, c, d, x, y, z


def tag(obj, env):
    for key, val in env.items():
        if obj is val:
            return "<" + key + ">"
    if isinstance(obj, tuple):
        return "tuple(" + ", ".join(tag(o, env) for o in obj) + ")"
    if isinstance(obj, list):
        return "list(" + ", ".join(tag(o, env) for o in obj) + ")"
    return repr(obj)


a, b, c, d, x, y, z = build()
src_col = magpy.Collection(a, magpy.Collection(b, c, style_label="src_inner"), style_label="src_col")
sens_col = magpy.Collection(x, magpy.Collection(y, style_label="sens_inner"), style_label="sens_col")
mixed = magpy.Collection(d, magpy.Collection(z, style_label="mix_inner"), style_label="mixed")
empty = magpy.Collection(style_label="empty")
nested_empty = magpy.Collection(magpy.Collection(style_label="e2"), style_label="nested_empty")
obs = np.array([(0.5, 4.0, 3.0), (-2.0, 1.5, 2.0)])
obs_list = [(0.5, 4.0, 3.0), (-2.0, 1.5, 2.0)]
free_src = magpy.current.Polyline(current=1.5, vertices=[(0, 0, 0), (1, 1, 1), (2, 0, 5)], style_label="free_src")
free_src2 = magpy.misc.Dipole(moment=(0, 3, 0), position=(0, 0, -3), style_label="free_src2")
free_sens = magpy.Sensor(position=(2, 2, 2), style_label="free_sens")
env = {
    "src_col": src_col, "sens_col": sens_col, "mixed": mixed, "empty": empty, "nested_empty": nested_empty,
    "obs": obs, "obs_list": obs_list, "free_src": free_src, "free_src2": free_src2, "free_sens": free_sens,
}
cols = {"src_col": src_col, "sens_col": sens_col, "mixed": mixed, "empty": empty, "nested_empty": nested_empty}
input_sets = {
    "none": (),
    "obs": (obs,),
    "obs_list": (obs_list,),
    "vec": ((1, 2, 3),),
    "three scalars": (1, 2, 3),
    "sens": (free_sens,),
    "two sens": (free_sens, sens_col),
    "list of sens": ([free_sens, sens_col],),
    "src": (free_src,),
    "two src": (free_src, free_src2),
    "list of src": ([free_src, free_src2],),
    "src col": (src_col,),
    "src + src col": (free_src, src_col),
    "mixed col": (mixed,),
    "None": (None,),
    "str": ("abc",),
}

# the selection itself
for cname, col in cols.items():
    for iname, inp in input_sets.items():
        try:
            out = col._validate_getBH_inputs(*inp)
            print("sel", cname, iname, type(out).__name__, len(out), tag(out[0], env), tag(out[1], env), out[0] is inp, out[1] is inp)
        except Exception as e:  # pylint: disable=broad-except
            print("sel", cname, iname, type(e).__name__, str(e))

# and through the four field methods
for cname, col in cols.items():
    for iname, inp in input_sets.items():
        for field in "BHJM":
            meth = getattr(col, "get" + field)
            for kw in ({}, {"squeeze": False}, {"pixel_agg": "mean"}):
                label = " ".join(["get" + field, cname, iname, str(sorted(kw.items()))])
                try:
                    dig(label, meth(*inp, **kw))
                except Exception as e:  # pylint: disable=broad-except
                    lines = str(e).splitlines()
                    print(label, type(e).__name__, lines[0][:100], "|", lines[-1][:100])

# a collection used as a single source equals the sum of its sources
single = magpy.getB([a, b, c], obs)
dig("sum of parts", single.sum(axis=0))
dig("col as source", src_col.getB(obs))
dig("col via sensor col", sens_col.getB(src_col, free_src))
dig("mixed no inputs", mixed.getH())
print("df", src_col.getB(free_sens, output="dataframe").shape, mixed.getH(output="dataframe")["source"].unique().tolist())
print("paths", [len(o.position.reshape(-1, 3)) for o in (a, b, c, d, x, y, z)])
print("children", names(src_col.children), names(sens_col.children), names(mixed.children))
