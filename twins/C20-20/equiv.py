import os, sys; sys.path.insert(0, os.getcwd())
import re
import warnings

import magpylib as magpy
import magpylib._src.display.display as display_module
from magpylib._src.display.display import RegisteredBackend


def run(label, func):
    try:
        res = func()
    except BaseException as e:  # deterministic digest of the error path
        msg = re.sub(r"id=\d+", "id=N", str(e)).split("\n\n Available style properties")[0]
        res = f"EXC {type(e).__name__}: {msg[:230]!r}"
    print(f"{label}: {res}")


def cub(**kw):
    return magpy.magnet.Cuboid(polarization=(0, 0, 1), dimension=(1, 1, 1), **kw)


# ---- part 1: what the backend machinery hands on, recorded with a fake backend ------------
record = {}


def fake_get_frames(objs, **kwargs):
    record["get_frames"] = [(k, kwargs[k]) for k in kwargs]
    return "DATA"


def fake_show_func(data, **kwargs):
    record["show_func"] = (data, [(k, kwargs[k]) for k in kwargs])
    return "FIG"


RegisteredBackend(
    name="fake",
    show_func=fake_show_func,
    supports_animation=True,
    supports_subplots=True,
    supports_colorgradient=True,
    supports_animation_output=True,
)
RegisteredBackend(
    name="fakeplain",
    show_func=fake_show_func,
    supports_animation=False,
    supports_subplots=False,
    supports_colorgradient=False,
    supports_animation_output=False,
)
real_get_frames = display_module.get_frames
display_module.get_frames = fake_get_frames


def split(backend="fake", **kwargs):
    record.clear()
    with warnings.catch_warnings(record=True) as w:
        warnings.simplefilter("always")
        res = RegisteredBackend.show(backend=backend, **kwargs)
    return res, record.get("get_frames"), record.get("show_func"), [str(x.message)[:60] for x in w]


CASES = {
    "nothing": {},
    "underscore": dict(style_color="r", style_path_line_width=3),
    "nested dict": dict(style={"color": "r", "path": {"line": {"width": 3}}}),
    "dict with underscore keys": dict(style={"color": "r", "path_line_width": 3}),
    "dict and underscore, dict first": dict(style={"color": "b"}, style_color="r"),
    "dict and underscore, underscore first": dict(style_color="r", style={"color": "b"}),
    "partly nested underscore": dict(style_path={"line": {"width": 3}, "show": False}),
    "empty style dict": dict(style={}),
    "empty nested dict": dict(style={"path": {}}, style_magnetization={}),
    "style None": dict(style=None),
    "style not a dict": dict(style=5, style_color=None),
    "names starting with style": dict(styles=1, stylecolor="r", style_=2, style__x=3),
    "display arguments": dict(animation=True, animation_fps=5, backend_x=1, colorsequence=("r", "g"), autosizefactor=3, animation_output="gif"),
    "display prefixes": dict(animationx=1, colorsequence_foo=2, autosizefactor_=3, Animation=4, anim=5),
    "mixed order": dict(zoom=2, style_color="r", animation_time=3, fig_width=5, style={"opacity": 0.5}, show_x=1, canvas=None, fake_a=1, fake={"b": 2}, fakeplain_c=3, return_fig=True, title_x=1),
    "fig and show dicts": dict(fig={"a": 1}, fig_b=2, show={"c": 3}, show_d=4, fake={"fig": {"e": 5}, "show_f": 6}, style_fig=7, style_show={"g": 8}),
    "non string keys in the style dict": dict(style={1: "r", "path": {2: 3}}),
    "title and others": dict(title="T", max_rows=2, max_cols=3, subplot_specs=[[1]], sumup=True, pixel_agg="mean"),
}
for label, kw in CASES.items():
    run(label, lambda: split(**kw))
    run(label + " (plain backend)", lambda: split(backend="fakeplain", **kw))

# caller's nested dictionaries are not modified
nested = {"color": "r", "path": {"line": {"width": 3}}}
split(style=nested, style_path_line_color="b")
print("caller dict untouched:", nested)

# the table of display argument names
print("disp_args:", sorted(display_module.disp_args))

display_module.get_frames = real_get_frames

# ---- part 2: end to end with the plotly backend, the notations are equivalent ---------------
magpy.defaults.reset()


def summary(fig):
    out = []
    for tr in fig.data:
        color = getattr(tr, "color", None)
        if color is None and getattr(tr, "line", None) is not None:
            color = tr.line.color
        out.append((tr.type, tr.name, color, getattr(tr, "opacity", None), getattr(tr.line, "width", None) if hasattr(tr, "line") else None))
    return out


def show(*objs, **kw):
    return summary(magpy.show(*objs, backend="plotly", return_fig=True, **kw))


src = cub(style_color="orange", style_label="own")
src.move([(0.1, 0, 0)] * 3)
sens = magpy.Sensor(position=(2, 0, 0))
loop = magpy.current.Circle(current=1, diameter=1, position=(0, 0, 2))
col = magpy.Collection(loop, sens, style_label="col")
a = show(src, col, style_color="r", style_path_line_width=3, style_opacity=0.5)
b = show(src, col, style={"color": "r", "path": {"line": {"width": 3}}, "opacity": 0.5})
c = show(src, col, style={"color": "b", "path_line_width": 3}, style_color="r", style_opacity=0.5)
print("underscore and nested notation equal:", a == b)
for line in a:
    print("   ", line)
print("dict and underscore for the same leaf (the `style` argument is handled last):")
for line in c:
    print("   ", line)
print("object style when show gives none:", show(src, col))
magpy.defaults.display.style.magnet.magnetization.show = False
magpy.defaults.display.style.base.opacity = 0.7
print("defaults:", show(src, col))
print("show wins over object and defaults:", show(src, col, style_opacity=0.2, style_magnetization_show=True, style_color="k"))
magpy.defaults.reset()
print("after reset:", show(src, col))
print("nothing leaked into the objects:", src.style.color, src.style.opacity, sens.style.color, loop.style.color, col.style.color)
run("invalid style name", lambda: show(src, style_nope=1))
run("invalid nested style name", lambda: show(src, style={"nope": {"x": 1}}))
run("invalid style value", lambda: show(src, style_opacity=5))
run("style None", lambda: show(src, style=None))
run("unknown argument", lambda: show(src, stile_color="r"))
run("display argument", lambda: len(show(src, colorsequence=["g", "b"])))
run("display argument bad", lambda: show(src, colorsequence=5))
with magpy.show_context(src, backend="plotly", return_fig=True, style_color="g", style={"opacity": 0.4}) as sc:
    magpy.show(col, style_path_line_width=5)
print("context:", summary(sc.show_return_value))
