import os, sys; sys.path.insert(0, os.getcwd())
# Equivalence digest for twin 1 (path_padding_param restructuring).
import warnings

import numpy as np
from scipy.spatial.transform import Rotation as R

import magpylib as magpy
from magpylib._src.obj_classes.class_BaseTransform import path_padding_param

warnings.simplefilter("ignore")


def dig(a):
    return (np.round(np.asarray(a, dtype=float), 9) + 0.0).tolist()


def state(obj):
    return dig(obj._position), dig(obj._orientation.as_quat())


def show(tag, fn):
    try:
        print(tag, "->", fn())
    except BaseException as err:  # pylint: disable=broad-except
        print(tag, "-> EXC", type(err).__name__, str(err)[:120])


# 1) direct grid over the helper, including types of the returned values
def grid():
    out = []
    for scalar in (True, False):
        for lenop in (1, 2, 3, 5):
            for lenip in (1, 2, 4):
                if scalar and lenip != 1:
                    continue
                for start in ("auto", -9, -5, -3, -1, 0, 1, 2, 3, 5, 8, True, False,
                              np.int64(-7), np.int64(-2), np.int64(0), np.int64(4),
                              np.int32(-1), np.uint8(2)):
                    pad, st = path_padding_param(scalar, lenop, lenip, start)
                    out.append(
                        (scalar, lenop, lenip, repr(start), type(pad).__name__,
                         [int(p) for p in pad], [type(p).__name__ for p in pad],
                         int(st), type(st).__name__)
                    )
    return out


for row in grid():
    print(row)

# 2) error / odd inputs straight into the helper
for bad in (None, "auto ", "x", 1.5, -2.5, [1], (0,), np.array([1, 2]), float("nan")):
    show(f"param bad start={bad!r}", lambda b=bad: path_padding_param(False, 3, 2, b))
show("huge start", lambda: path_padding_param(False, 3, 2, 10**30))
show("huge negative start", lambda: path_padding_param(True, 3, 1, -(10**30)))
show("int64 min", lambda: [int(x) for x in path_padding_param(True, 3, 1, np.int64(-2**63))[0]])
show("int64 max", lambda: path_padding_param(False, 3, 2, np.int64(2**63 - 1)))

# 3) through the public API: move / rotate with all kinds of start
for n_old in (1, 3):
    for inp_len in (0, 1, 2, 4):  # 0 = scalar
        for start in ("auto", -6, -3, -1, 0, 1, 2, 3, 6):
            s = magpy.Sensor(position=[(i, 2 * i, -i) for i in range(n_old)])
            disp = (1, 2, 3) if inp_len == 0 else [(k, 0, 1) for k in range(inp_len)]
            s.move(disp, start=start)
            ang = 30 if inp_len == 0 else [10 * (k + 1) for k in range(inp_len)]
            s.rotate_from_angax(ang, "z", anchor=(1, 0, 0), start=start)
            print("api", n_old, inp_len, start, state(s))

# 4) collection (parent_path padding goes through path_padding_param too)
for start in ("auto", -5, -1, 0, 2, 4):
    c = magpy.Collection(
        magpy.Sensor(position=[(1, 0, 0), (2, 0, 0)]),
        magpy.Sensor(position=(0, 1, 0)),
        position=[(0, 0, 1), (0, 0, 2), (0, 0, 3)],
    )
    c.rotate_from_angax([20, 40], "y", start=start)
    c.rotate_from_angax(15, "x", start=start)
    print("coll", start, state(c), [state(ch) for ch in c.children])

# 5) rejected calls leave the object unchanged
s = magpy.Sensor(position=[(1, 2, 3), (4, 5, 6)])
for bad in (1.0, "x", None, [0], (1,)):
    show(f"move bad start {bad!r}", lambda b=bad: s.move((1, 1, 1), start=b))
    show(f"rot bad start {bad!r}", lambda b=bad: s.rotate_from_angax(10, "z", start=b))
    print("  state", state(s))
