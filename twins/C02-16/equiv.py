import os, sys; sys.path.insert(0, os.getcwd())
import hashlib
import warnings

import numpy as np

import magpylib as magpy
from magpylib._src.fields.field_BH_cuboid import BHJM_magnet_cuboid
from magpylib._src.fields.field_BH_cuboid import magnet_cuboid_Bfield

warnings.simplefilter("ignore")


def digest(name, arr):
    arr = np.asarray(arr)
    h = hashlib.sha256(np.ascontiguousarray(arr).tobytes()).hexdigest()[:16]
    print(name, arr.shape, arr.dtype, arr.flags["C_CONTIGUOUS"], arr.flags["F_CONTIGUOUS"], h)
    with np.printoptions(precision=10, linewidth=200):
        print(np.round(arr, 12))


def attempt(label, fn):
    try:
        digest(label, fn())
    except Exception as e:  # noqa: BLE001
        print(label, "EXC", type(e).__name__, str(e)[:120].replace("\n", " | "))


rng = np.random.default_rng(41)

# --- core B-field: every octant (sign combination) incl. zeros and signed zeros
signs = [(sx, sy, sz) for sx in (-1, 0, 1) for sy in (-1, 0, 1) for sz in (-1, 0, 1)]
obs_oct = np.array(signs, dtype=float) * (1.7, 0.9, 2.3)
obs_oct = np.concatenate((obs_oct, -0.0 * np.ones((1, 3)), obs_oct * 0.2))
n = len(obs_oct)
dim = np.tile((2.0, 1.0, 3.0), (n, 1))
pol = rng.uniform(-1, 1, (n, 3))
attempt("core-octants", lambda: magnet_cuboid_Bfield(obs_oct, dim, pol))
for k, unit in enumerate(np.eye(3)):
    attempt(f"core-octants-pol{k}", lambda: magnet_cuboid_Bfield(obs_oct, dim, np.tile(unit, (n, 1))))

# random observers, random dims, special values
m = 40
obs = rng.uniform(-2, 2, (m, 3))
dims = rng.uniform(0.1, 3, (m, 3))
pols = rng.uniform(-1, 1, (m, 3))
obs[0] = (np.nan, 1, 1)
obs[1] = (np.inf, -1, 1)
obs[2] = (-np.inf, 1, -1)
obs[3] = (1, 1, np.nan)
obs[4] = dims[4] / 2  # corner
obs[5] = (-dims[5, 0] / 2, dims[5, 1] / 2, 0.01)  # edge
obs[6] = (1e-300, -1e-300, 1e-300)
dims[7] = (0, 1, 1)
dims[8] = (-1, 2, -3)
attempt("core-random", lambda: magnet_cuboid_Bfield(obs, dims, pols))
attempt("core-int", lambda: magnet_cuboid_Bfield(np.array([(1, 2, 3), (-1, -2, -3), (-1, 2, -3)]), np.array([(1, 1, 1)] * 3), np.array([(1, 2, 3)] * 3)))
attempt("core-empty", lambda: magnet_cuboid_Bfield(np.zeros((0, 3)), np.zeros((0, 3)), np.zeros((0, 3))))
attempt("core-single", lambda: magnet_cuboid_Bfield(obs[10:11], dims[10:11], pols[10:11]))
attempt("core-public", lambda: magpy.core.magnet_cuboid_Bfield(observers=obs[9:20], dimensions=dims[9:20], polarizations=pols[9:20]))

# input preservation (observers are copied before mirroring), fresh output
o2, d2, p2 = obs.copy(), dims.copy(), pols.copy()
res = magnet_cuboid_Bfield(o2, d2, p2)
print("inputs unchanged", np.array_equal(o2, obs, equal_nan=True), np.array_equal(d2, dims), np.array_equal(p2, pols))
print("alias", np.shares_memory(res, o2), np.shares_memory(res, p2), np.shares_memory(res, d2))
# non-contiguous / transposed inputs
attempt("core-fortran", lambda: magnet_cuboid_Bfield(np.asfortranarray(obs), np.asfortranarray(dims), np.asfortranarray(pols)))
attempt("core-strided", lambda: magnet_cuboid_Bfield(obs[::2], dims[::2], pols[::2]))

# --- BHJM level and object interface (mirroring is used for every B/H value)
for field in "BHJM":
    attempt(f"bhjm-{field}", lambda: BHJM_magnet_cuboid(field, obs_oct, dim, pol))
cube = magpy.magnet.Cuboid(dimension=(2, 1, 3), polarization=(0.3, -0.2, 0.7))
cube.rotate_from_angax([0, 33, 66], (1, -1, 0.5), start=0).move((0.2, 0.1, 0))
sens = magpy.Sensor(pixel=obs_oct[:9] * 0.3, position=(0.1, 0.2, 0.3)).rotate_from_angax(20, "y")
res = {f: getattr(magpy, f"get{f}")(cube, [sens, (0.1, 0.2, 0.3)] if False else sens) for f in "BHJM"}
for f in "BHJM":
    digest(f"obj-{f}", res[f])
print("BHJ", np.allclose(res["B"], magpy.mu_0 * res["H"] + res["J"], rtol=1e-12, atol=1e-15))
print("JM", np.allclose(res["J"], magpy.mu_0 * res["M"], rtol=1e-14, atol=0))
for f in "BHJM":
    attempt(f"dict-{f}", lambda: getattr(magpy, f"get{f}")("Cuboid", obs_oct, dimension=(2, 1, 3), polarization=(0.1, 0.2, -0.3)))

# --- error paths of the core function (types and messages)
bad_cases = {
    "obs-1d": (np.array((1.0, 2, 3)), dims[:1], pols[:1]),
    "obs-1d-pol-1d": (np.array((1.0, 2, 3)), dims[:1], np.array((1.0, 2, 3))),
    "pol-1d": (obs[:3], dims[:3], np.array((1.0, 2, 3))),
    "obs-2col": (obs[:, :2], dims, pols),
    "obs-4col": (np.zeros((5, 4)), dims[:5], pols[:5]),
    "dim-2col": (obs, dims[:, :2], pols),
    "pol-2col": (obs, dims, pols[:, :2]),
    "obs-short": (obs[:5], dims, pols),
    "dim-short": (obs, dims[:5], pols),
    "pol-short": (obs, dims, pols[:5]),
    "pol-long": (obs[:5], dims[:5], pols),
    "pol-short-allmirrored": (-np.abs(obs[9:20]) * (1, -1, -1), dims[9:20], pols[9:14]),
    "pol-short-nonemirrored": (np.abs(obs[9:20]) * (1, -1, -1), dims[9:20], pols[9:14]),
    "obs-list": (obs.tolist(), dims, pols),
    "pol-list": (obs, dims, pols.tolist()),
    "obs-none": (None, dims, pols),
    "obs-str": (np.array([("a", "b", "c")]), dims[:1], pols[:1]),
    "obs-3d": (np.zeros((2, 3, 3)), dims[:2], pols[:2]),
    "obs-bool": (np.ones((3, 3), dtype=bool), dims[:3], pols[:3]),
    "obs-complex": (obs[:3] * (1 + 0j), dims[:3], pols[:3]),
}
for label, args in bad_cases.items():
    attempt("bad-" + label, lambda: magnet_cuboid_Bfield(*args))
for bad in ("X", "BH", 5, None):
    attempt(f"badfield-{bad!r}", lambda: BHJM_magnet_cuboid(bad, obs, dims, pols))
