import os, sys; sys.path.insert(0, os.getcwd())
import hashlib
import json
import re
import warnings

import numpy as np
from scipy.spatial.transform import Rotation as R

import magpylib as magpy
from magpylib._src.display.traces_generic import get_frames
from magpylib._src.display.traces_utility import DEFAULT_ROW_COL_PARAMS
from magpylib._src.display.traces_utility import process_show_input_objs

warnings.simplefilter("ignore")


def norm(o):
    """deterministic, JSON-able view of nested trace structures (keeps dict key order)"""
    if isinstance(o, dict):
        return ["dict", [[str(k), norm(v)] for k, v in o.items()]]
    if isinstance(o, (list, tuple)):
        return [type(o).__name__, [norm(v) for v in o]]
    if isinstance(o, np.ndarray):
        if o.dtype.kind in "fiu":
            return ["nd", str(o.dtype.kind), list(o.shape), np.round(o.astype(float), 9).tolist()]
        return ["nd", str(o.dtype.kind), list(o.shape), [norm(v) for v in o.ravel().tolist()]]
    if isinstance(o, (bool, np.bool_)):
        return bool(o)
    if isinstance(o, (float, np.floating)):
        return ["f", round(float(o), 9)]
    if isinstance(o, (int, np.integer)):
        return ["i", int(o)]
    if o is None:
        return None
    if isinstance(o, str):
        return re.sub(r"id=\d+|0x[0-9a-f]+", "#", o)
    if isinstance(o, R):
        return ["rot", np.round(o.as_quat(), 9).tolist()]
    return re.sub(r"id=\d+|0x[0-9a-f]+", "#", repr(o))


def digest(label, o):
    s = json.dumps(norm(o))
    print(f"{label}: {hashlib.sha256(s.encode()).hexdigest()[:16]} len={len(s)}")
    return s


def attempt(label, func):
    try:
        res = func()
    except Exception as err:  # pylint: disable=broad-except
        msg = re.sub(r"id=\d+|0x[0-9a-f]+", "#", str(err))
        print(f"{label}: EXC {type(err).__name__}: {msg}")
        return None
    digest(label, res)
    return res


def model(*objs, backend="plotly", colorgrad=True, **kw):
    objects, *_ = process_show_input_objs(
        objs, **{k: v for k, v in kw.items() if k in DEFAULT_ROW_COL_PARAMS})
    style_kw = {k: v for k, v in kw.items() if k.startswith("style")}
    kw = {k: v for k, v in kw.items() if k not in DEFAULT_ROW_COL_PARAMS and k not in style_kw}
    return get_frames(objects, backend=backend, supports_colorgradient=colorgrad,
                      style_kwargs=style_kw, **kw)


def state(objs):
    return json.dumps(norm([[o.style.as_dict(), o.position, o.orientation] for o in objs]
                           + [magpy.defaults.as_dict()]))


# ---------------------------------------------------------------- twin4-4
from magpylib._src.display.traces_core import make_Sensor
from magpylib._src.style import get_style
from magpylib._src.defaults.defaults_classes import default_settings


def resolved(obj, **kw):
    """give the object the fully resolved style show() would draw it with"""
    obj._style = get_style(obj, default_settings, **kw)  # pylint: disable=protected-access
    return obj


def snapshot(o):
    return json.dumps(norm([o.style.as_dict(), o.position, o.orientation, o.pixel, o.handedness]))


rng = np.random.default_rng(7)
PIXELS = {
    "none": None,
    "origin": (0, 0, 0),
    "single": (1, 2, 3),
    "single nested": [[(0.5, 0, 0)]],
    "two": [(0, 0, 0), (0, 0, 1)],
    "dups": [(1, 1, 1), (1, 1, 1)],
    "dups3": [(1, 1, 1), (1, 1, 1), (2, 1, 1)],
    "line": [(i, 0, 0) for i in range(4)],
    "plane": [[(i, j, 0) for i in range(3)] for j in range(2)],
    "grid": [[[(i, j, k) for i in range(2)] for j in range(2)] for k in range(3)],
    "rand": rng.random((5, 3)) - 0.5,
    "tiny": [(0, 0, 0), (1e-9, 0, 0)],
    "big": [(0, 0, 0), (100, 50, 0)],
}
print("== make_Sensor direct")
for pname, pix in PIXELS.items():
    for hand in ("right", "left"):
        for autosize in (None, 1, 0.25, 7.5):
            for kw in ({}, {"style_sizemode": "absolute"}, {"style_size": 3}, {"style_pixel_size": 0},
                       {"style_pixel_size": 2.5, "style_pixel_color": "yellow"},
                       {"style_pixel_sizemode": "absolute", "style_pixel_size": 0.1},
                       {"style_color": "orange"}, {"style_arrows_x_show": False, "style_arrows_z_color": "k"}):
                o = magpy.Sensor(pixel=pix, handedness=hand, position=[(0, 0, 0), (1, 2, 3)])
                o.rotate_from_angax(30, "x")
                resolved(o, **kw)
                snap = snapshot(o)
                attempt(f"pix={pname} {hand} autosize={autosize} {kw}", lambda: make_Sensor(o, autosize=autosize))
                if snap != snapshot(o):
                    print("  OBJECT CHANGED")
o = resolved(magpy.Sensor(pixel=PIXELS["plane"]))
attempt("kwargs", lambda: make_Sensor(o, legendgroup="lg", name="nm", opacity=0.3, x=[1], facecolor=None))
attempt("get_trace", lambda: o.get_trace(autosize=2, legendgroup="a"))
res = make_Sensor(o)
print("key order", list(res), {k: (type(v).__name__, getattr(v, "dtype", None) and str(v.dtype), getattr(v, "shape", None)) for k, v in res.items()})
pix_before = o.pixel.copy()
make_Sensor(o, autosize=3)
print("pixel untouched", np.array_equal(pix_before, o.pixel))

print("== custom objects / error precedence")


class NS:
    def __init__(self, **kw):
        self.__dict__.update(kw)


def fake(pixel=None, handedness="right", del_style=(), del_pixel=(), **attrs):
    st = resolved(magpy.Sensor()).style
    pix = {"color": st.pixel.color, "size": st.pixel.size, "sizemode": st.pixel.sizemode}
    for k in del_pixel:
        pix.pop(k)
    d = {"size": st.size, "sizemode": st.sizemode, "color": "pink", "arrows": st.arrows, "pixel": NS(**pix)}
    for k in del_style:
        d.pop(k)
    return NS(style=NS(**d), pixel=pixel, handedness=handedness, **attrs)


P2 = np.array([(0.0, 0, 0), (0, 0, 1), (0, 2, 1)])
cases = {
    "ok no pix": fake(),
    "ok pix": fake(pixel=P2),
    "dimension scalar": fake(dimension=2.0),
    "dimension int": fake(dimension=2, pixel=P2),
    "dimension 3": fake(dimension=(1, 2, 3)),
    "dimension 3 pix": fake(dimension=(1, 2, 3), pixel=P2),
    "dimension 5": fake(dimension=(1, 2, 3, 4, 5)),
    "dimension array": fake(dimension=np.array([1.0, 2.0, 3.0])),
    "err dimension 2": fake(dimension=(1, 2)),
    "dimension 2 pix": fake(dimension=(1, 2), pixel=P2),
    "dimension 1": fake(dimension=(4,)),
    "err dimension None": fake(dimension=None),
    "err dimension str": fake(dimension="ab"),
    "err dimension None + no pixel style": fake(dimension=None, pixel=P2, del_style=("pixel",)),
    "err no size": fake(del_style=("size",)),
    "no size but dimension": fake(del_style=("size",), dimension=1.0),
    "err no arrows": fake(del_style=("arrows",)),
    "err no color": fake(del_style=("color",)),
    "err no sizemode": fake(del_style=("sizemode",)),
    "err no pixel style": fake(pixel=P2, del_style=("pixel",)),
    "no pixel style no pix": fake(del_style=("pixel",)),
    "err no pixel color": fake(pixel=P2, del_pixel=("color",)),
    "err no pixel size": fake(pixel=P2, del_pixel=("size",)),
    "err no pixel sizemode": fake(pixel=P2, del_pixel=("sizemode",)),
    "err pixel shape": fake(pixel=np.ones((2, 2))),
    "err pixel shape + dimension 2": fake(pixel=np.ones((2, 2)), dimension=(1, 2)),
    "pixel list": fake(pixel=[(0, 0, 0), (1, 1, 1)]),
    "err pixel str": fake(pixel="abc"),
    "pixel empty": fake(pixel=np.zeros((0, 3))),
    "pixel int": fake(pixel=np.array([(0, 0, 0), (2, 0, 0)])),
    "pixel int one": fake(pixel=np.array([(2, 0, 0)])),
    "handedness left": fake(handedness="left", pixel=P2),
    "handedness other": fake(handedness="other"),
}
cases["err no handedness"] = fake()
del cases["err no handedness"].handedness
cases["err no pixel attr"] = fake()
del cases["err no pixel attr"].pixel
for label, o in cases.items():
    for autosize in (None, 2):
        attempt(f"fake {label} autosize={autosize}", lambda: make_Sensor(o, autosize=autosize, legendgroup="g"))
o = fake(pixel=P2)
o.style.pixel.size = None
attempt("fake err pixel size None", lambda: make_Sensor(o))
o.style.pixel.size = -1
attempt("fake pixel size negative", lambda: make_Sensor(o))
o = fake()
o.style.color = None
attempt("fake color None", lambda: make_Sensor(o))
attempt("err autosize str", lambda: make_Sensor(fake(), autosize="a"))
attempt("autosize array", lambda: make_Sensor(fake(), autosize=np.array([1.0, 2.0, 3.0])))
attempt("autosize array pix", lambda: make_Sensor(fake(pixel=P2), autosize=np.array([1.0, 2.0, 3.0])))

print("== full models")
s0 = magpy.Sensor()
s1 = magpy.Sensor(pixel=PIXELS["plane"], position=[(0, 0, i) for i in range(3)])
s2 = magpy.Sensor(pixel=(1, 2, 3), handedness="left").rotate_from_angax([0, 45, 90], "z", start=0)
s3 = magpy.Sensor(pixel=PIXELS["grid"], position=(5, 5, 5), style_pixel_size=0.5, style_size=2)
cub = magpy.magnet.Cuboid(polarization=(0, 0, 1), dimension=(1, 1, 1), position=(-4, -4, -4))
objs = [s0, s1, s2, s3, cub, magpy.Collection(s1.copy(), cub.copy())]
before = state(objs)
for backend, cg in (("plotly", True), ("matplotlib", False)):
    for frames in (1, 2, [0, 2]):
        for kw in ({}, {"style_pixel_size": 0}, {"style_sizemode": "absolute", "style_size": 0.3},
                   {"units_length": "mm", "style_pixel_sizemode": "absolute", "style_pixel_size": 0.05},
                   {"zoom": 2, "style_arrows_y_show": False}):
            attempt(f"model {backend} frames={frames} {kw}", lambda: model(*objs, backend=backend, colorgrad=cg, style_path_frames=frames, **kw))
attempt("model sensors only", lambda: model(s0, s1, s2, s3))
attempt("model animation", lambda: model(s1, s2, cub, animation=True))
print("objects/defaults unchanged:", before == state(objs))
fig = magpy.show(*objs, backend="plotly", return_fig=True, style_path_frames=1)
digest("plotly fig", fig.to_dict()["data"])
print("objects/defaults unchanged:", before == state(objs))
