import os, sys; sys.path.insert(0, os.getcwd())
import functools
import hashlib
import re
import warnings

import numpy as np
from scipy.spatial.transform import Rotation as R

import magpylib as magpy
from magpylib._src.fields.field_wrap_BH import getBH_level1

warnings.simplefilter("ignore")


def h(x):
    x = np.ascontiguousarray(np.asarray(x))
    return f"{x.dtype}{x.shape} {hashlib.sha1(x.tobytes()).hexdigest()[:16]}"


def clean(err):
    return re.sub(r"0x[0-9a-f]+|id=\d+", "ADDR", str(err).replace("\n", " / "))


def attempt(label, func, *args, **kwargs):
    try:
        res = func(*args, **kwargs)
    except Exception as err:  # pylint: disable=broad-except
        print(f"{label}: EXC {type(err).__name__} ctx={type(err.__context__).__name__}: {clean(err)[:150]}")
        return None
    if res is None:
        print(f"{label}: None")
    else:
        print(f"{label}: {h(res)} {np.round(np.asarray(res, dtype=float).ravel()[:4], 9).tolist()}")
    return res


CALLS = []


def ff_plain(field, observers, moment):
    """no in_out parameter"""
    CALLS.append(("plain", field, h(observers), h(moment)))
    return observers * 2.0 + moment


def ff_inout(field, observers, moment, in_out="auto"):
    CALLS.append(("inout", field, h(observers), h(moment), in_out))
    return observers + {"auto": 0.0, "inside": 1.0, "outside": 2.0}.get(in_out, 9.0) * moment


def ff_kwargs(field, observers, **kw):
    """in_out only reachable through **kw: has no parameter called in_out"""
    CALLS.append(("kwargs", field, h(observers), list(kw)))
    return observers * 0.5


def ff_none(field, observers, moment):
    CALLS.append(("none", field))
    return None


def ff_none_inout(field, observers, in_out):
    CALLS.append(("none_inout", field, in_out))
    return None


def ff_int(field, observers, in_out):
    return np.ones(observers.shape, dtype=int)


def ff_badshape(field, observers):
    return np.ones((len(observers), 2))


def ff_raises(field, observers, in_out):
    raise RuntimeError(f"field function failed for {field}")


class CallableObj:
    def __call__(self, field, observers, in_out):
        CALLS.append(("callable", field, in_out))
        return observers[:, ::-1] * 1.0


n = 5
rng = np.random.default_rng(7)
obs = rng.normal(size=(n, 3))
pos = rng.normal(size=(n, 3))
rot = R.from_rotvec(rng.normal(size=(n, 3)))
mom = rng.normal(size=(n, 3))

print("== direct calls of getBH_level1")
for name, ff, extra in (
    ("plain", ff_plain, {"moment": mom}),
    ("inout", ff_inout, {"moment": mom}),
    ("kwargs", ff_kwargs, {"moment": mom, "foo": 1}),
    ("none", ff_none, {"moment": mom}),
    ("none_inout", ff_none_inout, {}),
    ("int result", ff_int, {}),
    ("callable object", CallableObj(), {}),
    ("partial", functools.partial(ff_inout, moment=mom), {}),
    ("lambda", lambda field, observers: observers + 1.0, {}),
):
    for in_out in ("auto", "inside", "outside", None):
        kw = dict(extra)
        if in_out is not None:
            kw["in_out"] = in_out
        CALLS.clear()
        attempt(
            f"[{name}] in_out={in_out}", getBH_level1,
            field_func=ff, field="B", position=pos, orientation=rot, observers=obs, **kw,
        )
        print("     calls:", CALLS)
        print("     caller dict untouched:", list(kw))

print("== single rotation / broadcasting")
attempt("single rot", getBH_level1, field_func=ff_plain, field="H", position=pos[0], orientation=rot[0],
        observers=obs, moment=mom, in_out="auto")
attempt("identity", getBH_level1, field_func=ff_inout, field="J", position=np.zeros(3), orientation=R.identity(),
        observers=obs, moment=mom[0], in_out="inside")

print("== error paths of getBH_level1")
attempt("missing in_out for required parameter", getBH_level1, field_func=ff_none_inout, field="B",
        position=pos, orientation=rot, observers=obs)
attempt("unexpected keyword", getBH_level1, field_func=ff_plain, field="B", position=pos, orientation=rot,
        observers=obs, moment=mom, dimension=1, in_out="auto")
attempt("missing keyword", getBH_level1, field_func=ff_plain, field="B", position=pos, orientation=rot,
        observers=obs, in_out="auto")
attempt("field func raises", getBH_level1, field_func=ff_raises, field="M", position=pos, orientation=rot,
        observers=obs, in_out="auto")
attempt("bad result shape", getBH_level1, field_func=ff_badshape, field="B", position=pos, orientation=rot,
        observers=obs, in_out="auto")
attempt("not callable", getBH_level1, field_func=3, field="B", position=pos, orientation=rot, observers=obs,
        in_out="auto")
attempt("not callable and bad shapes (order of errors)", getBH_level1, field_func=3, field="B",
        position=np.zeros((2, 3)), orientation=rot, observers=obs, in_out="auto")
attempt("builtin without signature", getBH_level1, field_func=dict.fromkeys, field="B", position=pos,
        orientation=rot, observers=obs, in_out="auto")
attempt("shape mismatch", getBH_level1, field_func=ff_plain, field="B", position=np.zeros((2, 3)),
        orientation=rot, observers=obs, moment=mom, in_out="auto")
attempt("orientation is not a Rotation", getBH_level1, field_func=ff_plain, field="B", position=pos,
        orientation=None, observers=obs, moment=mom, in_out="auto")
attempt("positional call", getBH_level1, ff_plain, "B", pos, rot, obs)
attempt("double observers", getBH_level1, field_func=ff_kwargs, field="B", position=pos, orientation=rot,
        observers=obs, **{"in_out": "auto", "x": 1})

print("== through the library: object oriented and functional interface")
sens = magpy.Sensor(pixel=[(0.1, 0.2, 0.3), (0.2, -0.1, 0.4)], position=(0.1, 0.2, 0.3)).rotate_from_angax(33, (1, 2, 3))
verts = [(0, 0, 0), (1, 0, 0), (0, 1, 0), (0, 0, 1)]
sources = {
    "Cuboid": magpy.magnet.Cuboid(polarization=(0.1, 0.2, 0.3), dimension=(1, 2, 3)),
    "Cylinder": magpy.magnet.Cylinder(polarization=(0.1, 0.2, 0.3), dimension=(1, 2)),
    "CylinderSegment": magpy.magnet.CylinderSegment(polarization=(0.1, 0.2, 0.3), dimension=(1, 2, 1, 10, 130)),
    "Sphere": magpy.magnet.Sphere(polarization=(0.1, 0.2, 0.3), diameter=1.5),
    "Tetrahedron": magpy.magnet.Tetrahedron(polarization=(0.1, 0.2, 0.3), vertices=verts),
    "TriangularMesh": magpy.magnet.TriangularMesh.from_ConvexHull(polarization=(0.1, 0.2, 0.3), points=verts),
    "Triangle": magpy.misc.Triangle(polarization=(0.1, 0.2, 0.3), vertices=verts[:3]),
    "Dipole": magpy.misc.Dipole(moment=(1, 2, 3)),
    "Circle": magpy.current.Circle(current=2, diameter=3),
    "Polyline": magpy.current.Polyline(current=2, vertices=verts),
    "Custom plain": magpy.misc.CustomSource(field_func=lambda field, observers: observers * 1.0),
    "Custom inout": magpy.misc.CustomSource(field_func=lambda field, observers, in_out="auto": observers + len(in_out)),
    "Custom None for H": magpy.misc.CustomSource(field_func=lambda field, observers: None if field == "H" else observers * 3.0),
}
for name, src in sources.items():
    src.move([(0.1, 0.2, 0.3), (0.3, 0.2, 0.1)]).rotate_from_angax([20, 40, 60], (1, 2, -1), start=0)
    for field in "BHJM":
        for in_out in ("auto", "inside", "outside"):
            attempt(f"[{name}] get{field} in_out={in_out}", getattr(magpy, "get" + field), src, sens, in_out=in_out)
    attempt(f"[{name}] src.getB", src.getB, sens, squeeze=False)
    attempt(f"[{name}] sens.getH", sens.getH, src)
attempt("all sources sumup", magpy.getB, list(sources.values()), sens, sumup=True, in_out="outside")
attempt("collection", magpy.Collection(*[s.copy() for s in sources.values()]).getB, sens)

o2 = [(0.1, 0.2, 0.3), (2.0, 1.5, -0.7), (0.2, 0.2, 0.2)]
rot3 = R.from_euler("xyz", [(10, 20, 30), (40, 50, 60), (70, 80, 90)], degrees=True)
for field in "BHJM":
    fn = getattr(magpy, "get" + field)
    for in_out in ("auto", "inside", "outside"):
        attempt(f"dict Cuboid {field} {in_out}", fn, "Cuboid", o2, polarization=(0.1, 0.2, 0.3), dimension=(1, 2, 3),
                orientation=rot3, in_out=in_out)
        attempt(f"dict Tetrahedron {field} {in_out}", fn, "Tetrahedron", o2, polarization=(0.1, 0.2, 0.3),
                vertices=verts, position=[(0, 0, 0), (0.1, 0.1, 0.1), (1, 1, 1)], in_out=in_out)
        attempt(f"dict Circle {field} {in_out}", fn, "Circle", o2, current=[1, 2, 3], diameter=2, in_out=in_out)
        attempt(f"dict Dipole {field} {in_out} squeeze=False", fn, "Dipole", o2[0], moment=(1, 2, 3), squeeze=False,
                in_out=in_out)
attempt("dict unknown kwarg", magpy.getB, "Cuboid", o2, polarization=(0.1, 0.2, 0.3), dimension=(1, 2, 3), bad=1)
attempt("dict missing kwarg", magpy.getB, "Cuboid", o2, dimension=(1, 2, 3))
attempt("H undefined through top level", magpy.getH, sources["Custom None for H"], sens)
