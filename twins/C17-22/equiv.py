import os, sys; sys.path.insert(0, os.getcwd())
import functools
import re
import warnings

import numpy as np

import magpylib as magpy
from magpylib._src.input_checks import validate_field_func

warnings.simplefilter("ignore")

LOG = []


def dig(r):
    if isinstance(r, np.ndarray):
        return f"ARR {r.dtype} {r.shape} {np.round(r, 6).tolist()}"
    if callable(r):
        return f"CALLABLE {getattr(r, '__name__', type(r).__name__)}"
    return f"RET {type(r).__name__} {r!r}"


def run(f):
    try:
        return dig(f())
    except Exception as e:  # pylint: disable=broad-except
        return re.sub(r"0x[0-9a-f]+|id=\d+", "ADDR", f"EXC {type(e).__name__}: {e}")


# ---- grammar of field_func candidates -------------------------------------
def good(field, observers):
    LOG.append((field, type(observers).__name__, observers.dtype.str, observers.tolist()))
    return observers * (1.0 if field == "B" else 2.0)


def returns_none(field, observers):
    LOG.append((field, observers.shape))
    return None


def b_only(field, observers):
    LOG.append((field, observers.shape))
    return observers * 1.0 if field == "B" else None


def h_only(field, observers):
    LOG.append((field, observers.shape))
    return observers * 1.0 if field == "H" else None


def returns_list(field, observers):
    LOG.append((field, observers.shape))
    return observers.tolist()


def h_returns_list(field, observers):
    LOG.append((field, observers.shape))
    return observers * 1.0 if field == "B" else [1, 2, 3]


def bad_shape(field, observers):
    LOG.append((field, observers.shape))
    return np.zeros((3, 2))


def h_bad_shape(field, observers):
    LOG.append((field, observers.shape))
    return observers * 1.0 if field == "B" else np.zeros(3)


def zero_dim(field, observers):
    return np.array(1.0)


def raises_inside(field, observers):
    LOG.append((field, observers.shape))
    raise RuntimeError(f"boom {field}")


def h_raises_inside(field, observers):
    LOG.append((field, observers.shape))
    if field == "H":
        raise KeyError("boom H")
    return observers


def mutates_observers(field, observers):
    LOG.append((field, observers.tolist()))
    observers += 1
    return observers


def wrong_names(a, b):
    return b


def one_arg(field):
    return None


def no_arg():
    return None


def swapped(observers, field):
    return None


def extra_args(field, observers, more, evenmore=1):
    LOG.append((field, observers.shape))
    return observers


def kwonly(*, field, observers):
    return observers


def varargs(*args):
    return args[1]


def with_default(field, observers=None):
    LOG.append((field, observers.shape))
    return observers.astype(float)


class CallableObj:
    def __call__(self, field, observers):
        LOG.append(("obj", field))
        return observers * 3.0


class CallableObjBad:
    def __call__(self, x, observers):
        return observers


class Sub(np.ndarray):
    pass


def returns_subclass(field, observers):
    return (observers * 1.0).view(Sub)


candidates = [
    ("None", None), ("int", 1), ("str", "abc"), ("list", [1, 2, 3]), ("array", np.zeros((2, 3))),
    ("good", good), ("returns_none", returns_none), ("b_only", b_only), ("h_only", h_only),
    ("returns_list", returns_list), ("h_returns_list", h_returns_list), ("bad_shape", bad_shape),
    ("h_bad_shape", h_bad_shape), ("zero_dim", zero_dim), ("raises_inside", raises_inside),
    ("h_raises_inside", h_raises_inside), ("mutates_observers", mutates_observers),
    ("wrong_names", wrong_names), ("one_arg", one_arg), ("no_arg", no_arg), ("swapped", swapped),
    ("extra_args", extra_args), ("kwonly", kwonly), ("varargs", varargs), ("with_default", with_default),
    ("lambda_ok", lambda field, observers: observers * 0.5), ("lambda_bad", lambda x: x),
    ("callable_obj", CallableObj()), ("callable_obj_bad", CallableObjBad()),
    ("callable_class", CallableObj), ("builtin_len", len), ("builtin_print", print), ("np_sum", np.sum),
    ("partial_good", functools.partial(good)), ("partial_extra", functools.partial(extra_args, more=2)),
    ("returns_subclass", returns_subclass), ("bound_method", CallableObj().__call__),
]

# ---- the validator directly ---------------------------------------------
for name, cand in candidates:
    LOG.clear()
    print("validate", name, run(lambda: validate_field_func(cand)), "| calls:", LOG)

# ---- CustomSource: constructor and setter, unchanged after rejection ----
for name, cand in candidates:
    LOG.clear()
    r1 = run(lambda: magpy.misc.CustomSource(field_func=cand).field_func)
    n_ctor = len(LOG)
    obj = magpy.misc.CustomSource(field_func=good)
    LOG.clear()

    def setit():
        obj.field_func = cand
        return obj.field_func

    r2 = run(setit)
    kept = obj.field_func is good
    stored = obj.field_func is cand
    print("Custom", name, "| ctor:", r1, n_ctor, "| set:", r2, len(LOG), "| same:", r1 == r2,
          "| kept_old:", kept, "| stored_identical:", stored)
    print("   getB:", run(lambda: obj.getB((1, 2, 3))), "| getH:", run(lambda: obj.getH([(1, 2, 3), (4, 5, 6)])))

# ---- original sources: field_func is not editable ----------------------
for cls in [magpy.magnet.Cuboid, magpy.magnet.Sphere, magpy.current.Circle, magpy.misc.Dipole, magpy.misc.Triangle]:
    for name, cand in [("None", None), ("good", good), ("int", 1), ("wrong_names", wrong_names)]:
        obj = cls()
        before = obj.field_func
        LOG.clear()

        def setit2():
            obj.field_func = cand
            return obj.field_func

        print(cls.__name__, name, run(setit2), "| unchanged:", obj.field_func is before, "| calls:", len(LOG))
    print(cls.__name__, "ctor kwarg", run(lambda: cls(field_func=good)))


# a subclass that switches editing on
class Editable(magpy.magnet.Cuboid):
    _editable_field_func = True


for flag in [True, 1, "yes", 0, "", None, [], [0]]:
    Editable._editable_field_func = flag
    ed = Editable(dimension=(1, 1, 1), polarization=(0, 0, 1))
    LOG.clear()

    def setit3():
        ed.field_func = good
        return ed.field_func

    print("Editable", repr(flag), run(setit3), "| calls:", len(LOG))
    print("Editable", repr(flag), "bad", run(lambda: setattr(ed, "field_func", wrong_names)))


# ---- batch 5 additions: outputs with unusual `shape`, both fields bad, order of the reports ----
class OddShape(np.ndarray):
    """ndarray subclass whose shape reads as a list (never equal to the tuple (2, 3))"""

    @property
    def shape(self):
        LOG.append("shape read")
        return [2, 3]


def returns_oddshape(field, observers):
    LOG.append(field)
    return np.zeros((2, 3)).view(OddShape)


def both_bad(field, observers):
    LOG.append(field)
    return "text" if field == "B" else np.zeros(5)


def b_shape_h_type(field, observers):
    LOG.append(field)
    return np.zeros((2, 3, 1)) if field == "B" else 7


def b_none_h_bad(field, observers):
    LOG.append(field)
    return None if field == "B" else np.zeros((2, 4))


def keeps_observers(field, observers):
    LOG.append((field, id(observers) == KEEP.get("id")))
    KEEP["id"] = id(observers)
    KEEP.setdefault("objs", []).append(observers)
    return observers.astype(float)


KEEP = {}
extra = [
    ("returns_oddshape", returns_oddshape), ("both_bad", both_bad), ("b_shape_h_type", b_shape_h_type),
    ("b_none_h_bad", b_none_h_bad), ("keeps_observers", keeps_observers), ("bool", True), ("type_int", int),
    ("callable_no_sig", type("NoSig", (), {"__call__": len})()),
]
for name, cand in extra:
    LOG.clear()
    print("validate+", name, run(lambda: validate_field_func(cand)), "| calls:", LOG)
    LOG.clear()
    print("custom+", name, run(lambda: magpy.misc.CustomSource(field_func=cand).field_func), "| calls:", LOG)
print("fresh observer arrays:", len(KEEP["objs"]), [o.dtype.str for o in KEEP["objs"]],
      len({id(o) for o in KEEP["objs"]}))
print("returns", validate_field_func(good), validate_field_func(None))
