import os, sys; sys.path.insert(0, os.getcwd())

# Exercises MagicProperties.__init__ / __setattr__ / as_dict / update (the machinery behind
# every style object): construction with valid/invalid (magic) keywords, frozen attribute
# errors, order of the property assignments, nested/flattened dictionaries, and the style
# paths of copy(): lazy styles, `style_*` overrides, rejected overrides, independence.
import re

import numpy as np

import magpylib as magpy
from magpylib._src.defaults.defaults_utility import MagicProperties
from magpylib._src.style import BaseStyle, Description, Line, MagnetStyle, Model3d, Path, SensorStyle, Trace3d


def clean(txt):
    return re.sub(r"id=\d+", "id=#", re.sub(r" at 0x[0-9a-f]+", " at 0x#", str(txt)))


def attempt(name, func):
    try:
        res = func()
        print(name, "ok", clean(res))
        return res
    except BaseException as err:  # pylint: disable=broad-except
        print(name, "ERR", type(err).__name__, clean(err).replace("\n", " | ")[:400])
        return None


LOG = []


class Inner(MagicProperties):
    def __init__(self, u=None, v=None, **kwargs):
        super().__init__(u=u, v=v, **kwargs)

    @property
    def u(self):
        LOG.append("get inner.u")
        return self._u

    @u.setter
    def u(self, val):
        LOG.append(f"set inner.u={val!r}")
        self._u = val

    @property
    def v(self):
        return self._v

    @v.setter
    def v(self, val):
        LOG.append(f"set inner.v={val!r}")
        if val == "boom":
            raise ValueError("v rejects boom")
        self._v = val


class Outer(MagicProperties):
    not_a_property = 5

    def __init__(self, zeta=None, alpha=None, inner=None, **kwargs):
        super().__init__(zeta=zeta, alpha=alpha, inner=inner, **kwargs)

    @property
    def zeta(self):
        LOG.append("get zeta")
        return self._zeta

    @zeta.setter
    def zeta(self, val):
        LOG.append(f"set zeta={val!r}")
        self._zeta = val

    @property
    def alpha(self):
        LOG.append("get alpha")
        return self._alpha

    @alpha.setter
    def alpha(self, val):
        LOG.append(f"set alpha={val!r}")
        if val == "bad":
            raise TypeError("alpha rejects bad")
        self._alpha = val

    @property
    def inner(self):
        LOG.append("get inner")
        return self._inner

    @inner.setter
    def inner(self, val):
        LOG.append(f"set inner={val!r}")
        if isinstance(val, dict):
            val = Inner(**val)
        elif val is None:
            val = Inner()
        self._inner = val


def logged(name, func):
    del LOG[:]
    res = attempt(name, func)
    print("   log", LOG)
    return res


# 1. construction ----------------------------------------------------------------
o = logged("Outer()", Outer)
print("   dict keys", list(vars(o)))
logged("Outer(alpha, zeta)", lambda: Outer(alpha=1, zeta=2))
logged("Outer(inner dict)", lambda: Outer(inner={"u": 1}))
logged("Outer(inner magic)", lambda: Outer(inner_u=3, inner_v=4, alpha=0))
logged("Outer(unknown)", lambda: Outer(beta=1))
logged("Outer(unknown magic)", lambda: Outer(beta_x=1, alpha=2))
logged("Outer(unknown nested)", lambda: Outer(inner_w=1))
logged("Outer(rejected value)", lambda: Outer(alpha="bad", zeta=1))
logged("Outer(rejected nested value)", lambda: Outer(inner_v="boom"))
logged("Outer(class attribute as key)", lambda: Outer(not_a_property=1))
logged("Outer(private key)", lambda: Outer(_zeta=1))
for cls, kw in [
    (BaseStyle, {}),
    (BaseStyle, {"label": 12, "color": "r", "opacity": 0.5}),
    (BaseStyle, {"path_line_width": 2, "path": {"marker": {"size": 3}}, "description": "txt"}),
    (BaseStyle, {"labell": "x"}),
    (BaseStyle, {"path_lime_width": 2}),
    (BaseStyle, {"opacity": 2}),
    (MagnetStyle, {"magnetization_color_north": "#aabbcc", "magnetization_mode": "arrow"}),
    (MagnetStyle, {"magnetisation": {}}),
    (SensorStyle, {"size": 2, "pixel_size": 3, "arrows_x_color": "g"}),
    (Line, {"style": "dashed", "width": 1}),
    (Line, {"widht": 1}),
    (Description, {"text": "t", "show": False}),
    (Description, {"text": 1}),
    (Path, {"frames": [1, 2], "numbering": True}),
    (Trace3d, {"backend": "generic", "constructor": "Mesh3d", "kwargs": {"x": [1]}}),
    (Model3d, {"data": [{"backend": "generic", "constructor": "Mesh3d"}], "showdefault": False}),
]:
    attempt(f"{cls.__name__}({kw})", lambda: cls(**kw))

# 2. frozen attribute errors --------------------------------------------------------
o = Outer(alpha=1)
for key in ["beta", "alpha", "_alpha", "_beta", "not_a_property", "_set_properties", "_no_property_error", "__isfrozen", "_MagicProperties__isfrozen", "as_dict"]:
    logged(f"setattr {key}", lambda: setattr(o, key, 7))
    print("   hasattr", hasattr(o, key), "class has", hasattr(Outer, key))
print("   dict keys", list(vars(o)))
st = BaseStyle()
attempt("style.foo =", lambda: setattr(st, "foo", 1))
attempt("style.path.foo =", lambda: setattr(st.path, "foo", 1))
attempt("style.label =", lambda: setattr(st, "label", 3))
attempt("getattr unknown", lambda: st.foo)

# 3. as_dict ------------------------------------------------------------------------
o = Outer(alpha=[1, 2], zeta={"k": 1}, inner_u="x")
d = logged("as_dict", o.as_dict)
print("   alias", d["alpha"] is o._alpha, d["zeta"] is o._zeta, list(d), list(d["inner"]))
logged("as_dict flat", lambda: o.as_dict(flatten=True))
logged("as_dict flat sep", lambda: o.as_dict(flatten=True, separator="_"))
logged("as_dict bad sep", lambda: o.as_dict(flatten=True, separator=1))


class WithAsDict:
    def as_dict(self, *args, **kwargs):
        LOG.append(f"foreign as_dict {args} {kwargs}")
        raise RuntimeError("foreign as_dict fails")


o.alpha = WithAsDict()
logged("as_dict foreign failing", o.as_dict)
o.alpha = type("Cls", (), {"as_dict": 5})()
logged("as_dict not callable", o.as_dict)
for style in [BaseStyle(label="a", path_line_color="blue"), MagnetStyle(), SensorStyle(pixel_color="k")]:
    attempt(f"{type(style).__name__}.as_dict", style.as_dict)
    attempt(f"{type(style).__name__}.as_dict flat", lambda: style.as_dict(flatten=True, separator="_"))
    attempt(f"{type(style).__name__} repr", lambda: repr(style))

# 4. update ---------------------------------------------------------------------------
o = Outer(alpha=1, zeta=2, inner_u=3)
logged("update kw", lambda: o.update(alpha=5))
logged("update arg", lambda: o.update({"zeta": 6, "inner": {"v": 1}}))
logged("update magic", lambda: o.update(inner_u=9))
logged("update arg+kw", lambda: o.update({"alpha": 1, "inner_u": 2}, alpha=3))
logged("update unknown", lambda: o.update(beta=1))
logged("update unknown no match", lambda: o.update(beta=1, alpha=8, _match_properties=False))
logged("update none only", lambda: o.update(alpha=0, inner_v=5, _replace_None_only=True))
logged("update rejected", lambda: o.update(zeta=0, alpha="bad"))
print("   state", o._zeta, o._alpha, o._inner._u, o._inner._v)
logged("update rejected nested", lambda: o.update(alpha=11, inner_v="boom"))
print("   state", o._zeta, o._alpha, o._inner._u, o._inner._v)
logged("update bad arg", lambda: o.update(5))
logged("update returns self", lambda: o.update() is o)
arg = {"alpha": [1], "inner": {"u": [2]}}
o.update(arg)
print("   arg untouched", arg, o._alpha is arg["alpha"], o._inner._u is arg["inner"]["u"])

# 5. styles of objects and copies ----------------------------------------------------------
src = magpy.magnet.Cuboid(polarization=(0, 0, 1), dimension=(1, 1, 1), style_label="m", style_path_line_width=3)
col = magpy.Collection(src, style_color="r")
for name, kw in [
    ("plain", {}),
    ("label", {"style_label": "other"}),
    ("magic", {"style_path_line_color": "g", "style_magnetization_show": False}),
    ("style dict", {"style": {"opacity": 0.3, "path": {"frames": 2}}}),
    ("unknown", {"style_bad": 1}),
    ("unknown nested", {"style_path_bad": 1}),
    ("rejected", {"style_opacity": 3}),
    ("not style", {"styl_label": 1}),
]:
    cp = attempt(f"copy {name}", lambda: src.copy(**kw))
    if cp is not None:
        print("   copy", cp.style.as_dict(flatten=True, separator="_"))
        cp.style.path.line.width = 9
        cp.style.label = "changed"
    print("   orig", src.style.label, src.style.path.line.width, src.style.opacity, src.parent is col, col.children == [src])
lazy = magpy.Sensor(style_size=2, style_bad=1)
attempt("lazy bad style", lambda: lazy.style)
attempt("lazy bad style copy", lazy.copy)
lazy2 = magpy.Sensor(style_size=2)
cp = lazy2.copy()
print("lazy copy", cp._style_kwargs, lazy2._style_kwargs, cp.style.size, lazy2.style.size, cp.style.label, lazy2.style.label)
cc = col.copy(style_label="cc")
print("collection copy", cc.style.as_dict(flatten=True), cc[0].style.label, cc[0].style is src.style)
print("B", np.round(cc.getB((1, 2, 3)), 10).tolist(), np.round(col.getB((1, 2, 3)), 10).tolist())
magpy.defaults.reset()
attempt("defaults update", lambda: magpy.defaults.display.style.base.update(color="blue").color)
attempt("defaults bad", lambda: setattr(magpy.defaults.display, "bad", 1))
magpy.defaults.reset()
