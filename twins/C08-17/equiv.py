import os, sys; sys.path.insert(0, os.getcwd())
# Twin4-2: input_checks.check_format_input_obj - type table + one nested recursive collector
#          writing into a shared list instead of self-recursion with list concatenation
import hashlib
import itertools
import re
import warnings

import numpy as np

import magpylib as magpy
from magpylib._src.input_checks import check_format_input_obj

warnings.simplefilter("ignore")


def h(a):
    a = np.ascontiguousarray(a)
    return hashlib.sha1(a.tobytes()).hexdigest()[:12] + str(a.shape)


def clean(msg):
    msg = re.sub(r"0x[0-9a-f]+", "0x?", re.sub(r"id=\d+", "id=?", str(msg)))
    return msg.replace("\n", " | ")[:160]


def build():
    names = {}

    def reg(name, obj):
        obj.style.label = name
        names[id(obj)] = name
        return obj

    a = reg("cub", magpy.magnet.Cuboid(polarization=(1, 2, 3), dimension=(1, 2, 3)))
    b = reg("loop", magpy.current.Circle(current=3, diameter=2, position=(1, 1, 1)))
    c = reg("dip", magpy.misc.Dipole(moment=(1, 0, 2), position=[(2, 2, 2), (3, 3, 3)]))
    d = reg("cust", magpy.misc.CustomSource(field_func=lambda field, observers: observers * 2.0))
    s1 = reg("s1", magpy.Sensor(position=(4, 4, 4)))
    s2 = reg("s2", magpy.Sensor(pixel=[(0, 0, 0), (0, 0, 1)], position=(-4, 3, 2)))
    s3 = reg("s3", magpy.Sensor(position=(0, 5, 0)))
    inner2 = reg("inner2", magpy.Collection(c, s3))
    inner = reg("inner", magpy.Collection(b, s2, inner2))
    empty = reg("empty", magpy.Collection())
    top = reg("top", magpy.Collection(a, inner, s1, empty, d))
    return names, dict(a=a, b=b, c=c, d=d, s1=s1, s2=s2, s3=s3, inner2=inner2, inner=inner, empty=empty, top=top)


NAMES, O = build()


def nm(objs):
    return [NAMES.get(id(o), repr(o)) for o in objs]


def tree_state():
    return [
        (
            n,
            None if o._parent is None else NAMES[id(o._parent)],
            nm(getattr(o, "_children", [])),
            nm(getattr(o, "_sources", [])),
            nm(getattr(o, "_sensors", [])),
            nm(getattr(o, "_collections", [])),
            h(o._position),
        )
        for n, o in O.items()
    ]


def call(tag, fn):
    before = tree_state()
    try:
        res = fn()
        out = nm(res) if isinstance(res, list) else res
        print(f"{tag} -> {type(res).__name__} {out}")
    except BaseException as err:  # pylint: disable=broad-except
        ctx = type(err.__context__).__name__ if err.__context__ is not None else None
        cause = type(err.__cause__).__name__ if err.__cause__ is not None else None
        print(f"{tag} raised {type(err).__name__} ctx={ctx} cause={cause} :: {clean(err)}")
    print("    tree-unchanged:", before == tree_state())


print("== direct calls")
ALLOWS = [
    "sources",
    "sensors",
    "collections",
    "sources+sensors",
    "sensors+sources",
    "collections+sensors+sources",
    "sensors+sources+collections",
    "source",
    "",
    "sources+",
    "Sources",
    "sources + sensors",
    "observers",
]
INPUTS = {
    "top": lambda: O["top"],
    "inner": lambda: O["inner"],
    "empty": lambda: O["empty"],
    "list": lambda: [O["s1"], O["top"], O["a"], O["s1"]],
    "tuple-junk": lambda: (O["a"], 1.5, "x", None, O["inner2"]),
    "junk-first": lambda: [None, O["top"]],
    "nested-list": lambda: [[O["a"], O["b"]], O["s1"]],
    "gen": lambda: (o for o in (O["inner"], O["a"])),
    "str": lambda: "ab",
    "emptylist": lambda: [],
    "dict": lambda: {O["a"]: 1, O["top"]: 2},
    "array": lambda: np.array([1.0, 2.0]),
}
for (iname, inp), allow, rec, tc in itertools.product(INPUTS.items(), ALLOWS, (True, False), (False, True)):
    if allow not in ("sources", "collections+sensors+sources", "source") and iname not in ("top", "tuple-junk"):
        continue
    call(f"{iname}|{allow!r}|rec={rec}|tc={tc}", lambda: check_format_input_obj(inp(), allow, recursive=rec, typechecks=tc))

print("== bad arguments")
call("not iterable", lambda: check_format_input_obj(O["a"], "sources"))
call("None", lambda: check_format_input_obj(None, "sources"))
call("allow None", lambda: check_format_input_obj(O["top"], None))
call("allow list", lambda: check_format_input_obj(O["top"], ["sources"]))
call("allow bytes", lambda: check_format_input_obj(O["top"], b"sources"))
call("recursive array", lambda: check_format_input_obj(O["top"], "sources", recursive=np.array([1, 2])))
call("recursive array no collection", lambda: check_format_input_obj([O["a"], O["s1"]], "sources", recursive=np.array([1, 2])))
call("recursive 0", lambda: check_format_input_obj(O["top"], "sources", recursive=0))
call("recursive str", lambda: check_format_input_obj(O["top"], "sensors", recursive="yes"))
call("typechecks array", lambda: check_format_input_obj([O["a"], 3], "sources", typechecks=np.array([1, 2])))
call("positional", lambda: check_format_input_obj(O["top"], "sensors", False, True))
call("returns fresh list", lambda: check_format_input_obj(O["top"], "collections+sensors+sources") is not O["top"]._children)

print("== through the Collection interface")
for prop in ("children_all", "sources_all", "sensors_all", "collections_all", "children", "sources", "sensors", "collections"):
    for cname in ("top", "inner", "inner2", "empty"):
        call(f"{cname}.{prop}", lambda: list(getattr(O[cname], prop)))

x1 = magpy.Sensor()
x2 = magpy.magnet.Sphere(polarization=(0, 0, 1), diameter=1)
NAMES[id(x1)] = "x1"
NAMES[id(x2)] = "x2"
O["x1"] = x1
O["x2"] = x2
call("add junk", lambda: O["top"].add(x1, "junk", x2))
call("add list", lambda: O["top"].add([x1, x2]).children)
call("add again", lambda: O["top"].add(x1))
call("add self", lambda: O["inner2"].add(O["top"]))
call("add nested list", lambda: O["empty"].add([[x1]]))
call("remove deep", lambda: O["top"].remove(O["c"]).children_all)
call("remove deep non-recursive", lambda: O["top"].remove(O["s3"], recursive=False))
call("remove missing ignore", lambda: O["top"].remove(O["c"], errors="ignore").children_all)
call("remove junk", lambda: O["top"].remove(7))
call("remove x1 x2", lambda: O["top"].remove(x1, x2).children_all)
call("set children", lambda: setattr(O["empty"], "children", [x1, x2]) or O["empty"].children_all)
call("describe", lambda: O["top"].describe(format="label", return_string=True).replace("\n", " / "))

print("== field computation with the collections")
objs = list(O.values())
for fname in ("getB", "getH"):
    f = getattr(magpy, fname)
    for tag, fn in {
        "top@pos": lambda: f(O["top"], (1, 2, 3)),
        "top@top": lambda: f(O["top"], O["top"], pixel_agg="mean"),
        "inner.method": lambda: getattr(O["inner"], fname)(),
        "empty": lambda: f(O["a"], magpy.Collection()),
        "col without sources": lambda: f(magpy.Collection(magpy.Sensor()), (1, 2, 3)),
    }.items():
        before = tree_state()
        for rep in range(2):
            try:
                res = fn()
                print(f"{fname} {tag}[{rep}] -> {h(res)} {np.round(np.ravel(res)[:3], 12).tolist()}")
            except Exception as err:  # pylint: disable=broad-except
                print(f"{fname} {tag}[{rep}] raised {type(err).__name__} :: {clean(err)}")
        print("    tree-unchanged:", before == tree_state())
