import os, sys; sys.path.insert(0, os.getcwd())
import hashlib
import re
import warnings

import numpy as np

import magpylib as magpy
from magpylib._src.fields.field_BH_polyline import current_vertices_field

warnings.simplefilter("ignore")
np.seterr(all="ignore")


def dig(name, arr):
    arr0 = np.asarray(arr)
    arr = np.ascontiguousarray(np.asarray(arr, dtype=float))
    h = hashlib.sha256(arr.tobytes()).hexdigest()[:16]
    print(name, arr.shape, arr0.dtype, h, np.round(arr.ravel()[:6], 12).tolist())


def attempt(name, func, *args, **kwargs):
    try:
        dig(name, func(*args, **kwargs))
    except Exception as err:  # pylint: disable=broad-except
        msg = re.sub(r"id=\d+|0x[0-9a-fA-F]+", "ID", str(err).replace("\n", " "))
        print(name, type(err).__name__, msg[:60])


def ragged(sets, dtype=float):
    out = np.empty(len(sets), dtype=object)
    for i, vs in enumerate(sets):
        out[i] = np.array(vs, dtype=dtype)
    return out


rng = np.random.default_rng(3)
v3 = [(0, 0, 0), (1, 1, 1), (2, 0, 1)]
v3b = [(0, 0, 0), (0, 0, 2), (1, 0, 2)]
v5 = [(0, 0, 0), (1, 0, 0), (1, 1, 0), (0, 1, 0), (0, 0, 0)]
v2 = [(-1, -1, -1), (1, 2, 3)]
v4z = [(0, 0, 0), (0, 0, 0), (1, 0, 0), (1, 0, 0)]  # zero length segments
v1 = [(0.5, 0.5, 0.5)]  # a single vertex: no segment at all
vnan = [(0, 0, 0), (np.nan,) * 3, (1, 1, 1), (2, 1, 1)]
v9 = rng.normal(size=(9, 3)).tolist()
v12 = rng.normal(size=(12, 3)).tolist()
sets = [v3, v5, v2, v4z, v3b, v1, vnan, v9, v3, v12, v2, v1]
n = len(sets)
obs = rng.normal(size=(n, 3)) * 2
obs[1] = (0.5, 0.0, 0.0)  # on a segment
obs[4] = (0.0, 0.0, 5.0)  # on the extension of a segment
cur = rng.normal(size=n) * 3
rag = ragged(sets)

for f in "BHJM":
    attempt("ragged-" + f, current_vertices_field, f, obs, cur, rag)

# every vertex set alone, permutations, duplicates, subsets that start / end with short sets
full = current_vertices_field("H", obs, cur, rag)
alone = np.array(
    [current_vertices_field("H", obs[i : i + 1], cur[i : i + 1], np.array([sets[i]], dtype=float))[0] for i in range(n)]
)
print("alone close to joint", np.allclose(alone, full, rtol=1e-10, atol=1e-18, equal_nan=True))
for name, idx in (
    ("reversed", list(range(n))[::-1]),
    ("perm", rng.permutation(n).tolist()),
    ("dups", [7, 7, 0, 7, 5, 5, 9]),
    ("single-first", [5, 0, 1]),
    ("single-last", [0, 1, 5]),
    ("two", [2, 7]),
    ("two-singles-and-one", [5, 11, 9]),
    ("long-short", [9, 2]),
):
    sub = current_vertices_field("H", obs[idx], cur[idx], rag[idx])
    dig("subset-" + name, sub)
    print("   equals rows of joint", np.array_equal(sub, full[idx], equal_nan=True))

# the sums are taken over the right rows: compare with a plain loop over segments
from magpylib._src.fields.field_BH_polyline import BHJM_current_polyline

manual = []
for i, vs in enumerate(sets):
    vs = np.array(vs, dtype=float)
    acc = np.zeros(3)
    for a, b in zip(vs[:-1], vs[1:]):
        acc = acc + BHJM_current_polyline("H", obs[i : i + 1], a[None], b[None], cur[i : i + 1])[0]
    manual.append(acc)
print("manual segment loop close", np.allclose(np.array(manual), full, rtol=1e-9, atol=1e-15, equal_nan=True))

# other containers and dtypes for the ragged case
attempt("list-of-arrays", current_vertices_field, "B", obs[:3], cur[:3], [np.array(s, float) for s in sets[:3]])
attempt("tuple-of-arrays", current_vertices_field, "B", obs[:3], cur[:3], tuple(np.array(s, float) for s in sets[:3]))
attempt("int-vertices", current_vertices_field, "B", obs[:3], cur[:3], ragged(sets[:3], dtype=int))
attempt("f32-all", current_vertices_field, "B", obs[:3].astype(np.float32), cur[:3].astype(np.float32), ragged(sets[:3], dtype=np.float32))
attempt("int-current", current_vertices_field, "B", obs[:3], np.array([1, 2, 3]), rag[:3])
attempt("fortran-observers", current_vertices_field, "B", np.asfortranarray(obs), cur, rag)
attempt("strided", current_vertices_field, "B", obs[::2], cur[::2], rag[::2])
o, c = obs.copy(), cur.copy()
r2 = ragged(sets)
current_vertices_field("B", o, c, r2)
print("inputs untouched", np.array_equal(o, obs), np.array_equal(c, cur), all(np.array_equal(a, b, equal_nan=True) for a, b in zip(r2, rag)))

# uniform case and segment interface are not touched, but still the same
uniform = np.array([v3, v3b, v3, v3b, v3], dtype=float)
attempt("uniform", current_vertices_field, "B", obs[:5], cur[:5], uniform)
attempt("objarray-equal-lengths", current_vertices_field, "B", obs[:5], cur[:5], ragged([v3, v3b, v3, v3b, v3]))
attempt("segments", current_vertices_field, "B", obs[:5], cur[:5], segment_start=uniform[:, 0], segment_end=uniform[:, 1])

# error paths
attempt("err-field", current_vertices_field, "X", obs, cur, rag)
attempt("err-obs-short", current_vertices_field, "B", obs[:3], cur, rag)
attempt("err-obs-long", current_vertices_field, "B", obs, cur[:4], rag[:4])
attempt("err-cur-short", current_vertices_field, "B", obs, cur[:3], rag)
attempt("err-cur-scalar", current_vertices_field, "B", obs[:2], 3.0, rag[:2])
attempt("err-empty-set", current_vertices_field, "B", obs[:3], cur[:3], ragged([v3, np.zeros((0, 3)), v5]))
attempt("err-2comp-set", current_vertices_field, "B", obs[:2], cur[:2], ragged([v3, np.zeros((4, 2))]))
attempt("err-1d-set", current_vertices_field, "B", obs[:2], cur[:2], ragged([v3, np.zeros(6)]))
attempt("err-0d-set", current_vertices_field, "B", obs[:2], cur[:2], [np.array(v3, float), np.array(1.0)])
attempt("err-list-sets", current_vertices_field, "B", obs[:2], cur[:2], [v3, v5])
attempt("err-generator", current_vertices_field, "B", obs[:2], cur[:2], (np.array(s, float) for s in sets[:2]))
attempt("err-obs-list", current_vertices_field, "B", obs[:2].tolist(), cur[:2], rag[:2])
attempt("err-obs-2comp", current_vertices_field, "B", obs[:2, :2], cur[:2], rag[:2])
attempt("err-None-current", current_vertices_field, "B", obs[:2], None, rag[:2])

# object oriented: polylines with different vertex counts and path lengths
lines = []
for i, vs in enumerate([v3, v5, v9, v2, v4z, v12, v3b]):
    s = magpy.current.Polyline(current=cur[i], vertices=vs, position=(0.1 * i, 0, 0))
    if i % 3:
        s.move(np.linspace((0, 0, 0), (0.2, 0.1 * i, -0.1), i + 1)[1:])
        s.rotate_from_angax(np.linspace(0, 30, i + 1), "y", start=0)
    lines.append(s)
lines.insert(3, magpy.current.Circle(current=2, diameter=1.5, position=(0, 0, -1)))
sens = [
    magpy.Sensor(pixel=[(0, 0, 0), (0.1, 0.2, 0.3)], position=(2, 2, 2)),
    magpy.Sensor(pixel=[(0.5, 0, 0), (0, 0, 0.4)], position=np.linspace((1, 1, 1), (0, 0, 0), 3)),
]
for f in ("getB", "getH", "getJ"):
    out = getattr(magpy, f)(lines, sens, squeeze=False)
    dig("oo-" + f, out)
    ok = True
    for l, s in enumerate(lines):
        alone1 = getattr(magpy, f)(s, sens, squeeze=False)[0]
        m = len(alone1)
        ok = ok and np.allclose(out[l, :m], alone1, rtol=1e-9, atol=1e-15, equal_nan=True) and all(
            np.allclose(step, alone1[-1], rtol=1e-9, atol=1e-15, equal_nan=True) for step in out[l, m:]
        )
    print("  each source alone equals joint", ok)
dig("oo-reordered", magpy.getB(lines[::-1], sens[::-1], squeeze=False))
dig("oo-sumup", magpy.getB(lines, sens, sumup=True))
dig("oo-collection", magpy.getH(magpy.Collection(*lines[:3]), sens))
attempt("dict-vertices", magpy.getB, "Polyline", obs[:4], current=cur[:4], vertices=np.array(v5, dtype=float))
attempt("dict-segments", magpy.getB, "Polyline", obs[:5], current=cur[:5], segment_start=np.zeros((5, 3)), segment_end=np.array(v5, dtype=float) + 1.0)
