import os, sys; sys.path.insert(0, os.getcwd())
# Equivalence digest for twin 2 (apply_rotation: compound-anchor and
# rotate-about-anchor blocks extracted into helpers).
import warnings

import numpy as np
from scipy.spatial.transform import Rotation as R

import magpylib as magpy
from magpylib._src.obj_classes.class_BaseTransform import apply_rotation

warnings.simplefilter("ignore")


def dig(a):
    return (np.round(np.asarray(a, dtype=float), 9) + 0.0).tolist()


def state(obj):
    return dig(obj._position), dig(obj._orientation.as_quat())


def show(tag, fn):
    try:
        print(tag, "->", fn())
    except BaseException as err:  # pylint: disable=broad-except
        print(tag, "-> EXC", type(err).__name__, str(err)[:150])


def sensor(n):
    s = magpy.Sensor(position=[(1 + i, 2 * i, -i) for i in range(n)])
    s.rotate_from_angax([7 * (i + 1) for i in range(n)], (1, 1, 0), start=0)
    return s


ANCHORS = {
    "none": None,
    "zero": 0,
    "single": (1, -1, 2),
    "two": [(1, 0, 0), (0, 2, 0)],
    "three": [(1, 0, 0), (0, 2, 0), (0, 0, 3)],
}
ROTS = {
    "scalar": R.from_rotvec((0.1, -0.2, 0.3)),
    "one": R.from_rotvec([(0.1, -0.2, 0.3)]),
    "two": R.from_euler("xy", [(10, 20), (30, 40)], degrees=True),
    "three": R.from_rotvec([(0, 0, 0.25), (0, 0.5, 0), (0.75, 0, 0.1)]),
    "None": None,
}

# 1) single objects: rotation x anchor x start x path length (+ aliasing of _position)
for n in (1, 3):
    for rk, rot in ROTS.items():
        for ak, anc in ANCHORS.items():
            for start in ("auto", -5, -2, 0, 1, 4):
                s = sensor(n)
                before = s._position

                def run(s=s, rot=rot, anc=anc, start=start):
                    out = s.rotate(rot, anchor=anc, start=start)
                    return out is s

                show(f"rot n={n} r={rk} a={ak} st={start}", run)
                print("   ", state(s), "same_array", s._position is before, dig(before))

# 2) direct apply_rotation with explicit parent_path (anchor None -> compound anchor)
for n in (1, 2, 4):
    for rk, rot in ROTS.items():
        for plen in (1, 2, 5):
            for start in ("auto", -6, -1, 0, 2, 5):
                s = sensor(n)
                pp = np.array([(0.5 * k, 1.0, -k) for k in range(plen)], dtype=float)
                pp0 = pp.copy()
                show(
                    f"apply n={n} r={rk} plen={plen} st={start}",
                    lambda s=s, rot=rot, pp=pp, start=start: apply_rotation(
                        s, rot, anchor=None, start=start, parent_path=pp
                    )
                    is s,
                )
                print("   ", state(s), "parent untouched", np.array_equal(pp, pp0))
                # an explicit anchor wins over the parent_path
                s = sensor(n)
                apply_rotation(s, rot, anchor=(1, 1, 1), start=start, parent_path=pp)
                print("   explicit", state(s))

# 3) Collections, nested, with paths of different length
for start in ("auto", -4, -1, 0, 1, 3):
    for rk, rot in ROTS.items():
        for ak in ("none", "zero", "single", "two"):
            inner = magpy.Collection(sensor(2), position=[(0, 0, 1), (0, 1, 1), (1, 1, 1)])
            outer = magpy.Collection(inner, sensor(1), position=(3, 2, 1))
            show(
                f"coll r={rk} a={ak} st={start}",
                lambda: outer.rotate(rot, anchor=ANCHORS[ak], start=start) is outer,
            )
            print(
                "   ",
                state(outer),
                state(inner),
                [state(c) for c in inner.children],
                state(outer.children[1]),
            )

# 4) error paths: nothing may change
s = sensor(2)
ref = state(s)
for tag, kw in {
    "bad rot": dict(rotation=(1, 2, 3)),
    "bad anchor str": dict(rotation=ROTS["scalar"], anchor="x"),
    "bad anchor shape": dict(rotation=ROTS["scalar"], anchor=(1, 2)),
    "bad anchor 1": dict(rotation=ROTS["scalar"], anchor=1),
    "bad start": dict(rotation=ROTS["scalar"], start=1.5),
    "bad start str": dict(rotation=ROTS["scalar"], start="end"),
}.items():
    show(tag, lambda kw=kw: s.rotate(**kw))
    print("    unchanged", state(s) == ref)
show(
    "bad parent_path",
    lambda: apply_rotation(s, ROTS["two"], parent_path=np.zeros((2, 2)), start=0),
)
print("    state", state(s))
show("empty anchor", lambda: s.rotate(ROTS["two"], anchor=np.zeros((0, 3)), start=0))
print("    state", state(s))
show("empty anchor scalar rot", lambda: s.rotate(ROTS["scalar"], anchor=np.zeros((0, 3))))
print("    state", state(s))
