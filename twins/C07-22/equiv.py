import os, sys; sys.path.insert(0, os.getcwd())
import hashlib
import re
import warnings

import numpy as np

import magpylib as magpy


def h(x):
    x = np.ascontiguousarray(np.asarray(x))
    return f"{x.shape} {x.dtype} {hashlib.sha1(x.tobytes()).hexdigest()[:16]}"


def dig(x):
    if x is None:
        return "None"
    x = np.asarray(x)
    with np.errstate(all="ignore"):
        return f"{h(x)} {np.round(x.astype(float), 10).ravel()[:9].tolist()}"


def run(name, fn):
    """print digest of result, or exception type/message, plus ordered list of warnings"""
    with warnings.catch_warnings(record=True) as rec:
        warnings.simplefilter("always")
        try:
            res = "-> " + dig(fn())
        except Exception as err:  # pylint: disable=broad-except
            msg = re.sub(r"0x[0-9a-f]+", "ADDR", str(err).replace("\n", " / "))
            res = f"-> EXC {type(err).__name__} | {msg[:200]}"
    ws = [f"{w.category.__name__}:{str(w.message)[:50]}" for w in rec]
    print(name, res, "| warn:", ws)


from magpylib._src.fields.field_BH_cuboid import BHJM_magnet_cuboid

nan, inf = np.nan, np.inf
e = 1e-16
# cuboid with half lengths (0.5, 1, 1.5)
obs = np.array(
    [
        (0.1, 0.2, 0.3), (2, 3, 4), (0.5, 0.2, 0.3), (-0.5, 0.2, 0.3), (0.1, 1, 0.3), (0.1, 0.2, -1.5),  # in, out, faces
        (0.5, 1, 0.3), (0.5, -1, 1.5), (-0.5, 1, -1.5), (0.1, 1, 1.5), (0.5, 0.2, 1.5),  # edges, corners
        (0.5, 1, 2.0), (0.5, 3, 1.5), (2, 1, 1.5),  # on the prolongation of an edge (outside)
        (0.5 + e, 1 - e, 0.3), (0.5 + 1e-14, 1, 0.3), (0.5 - 1e-14, 1, 0.3), (0.5 * (1 + 9e-16), 1, 0.2),  # tolerance
        (0.5, 0.2, 5), (0, 0, 0), (-0.0, 1.0, -1.5), (0.5000001, 0.2, 0.3), (0.4999999, 1, 1.5),
    ],
    dtype=float,
)
n = len(obs)
dim = np.tile((1.0, 2, 3), (n, 1))
pol = np.tile((0.1, -0.2, 0.3), (n, 1))
dim_mix = dim.copy(); dim_mix[::3] *= -1; dim_mix[1, 0] = 0; dim_mix[6, 2] = 0; dim_mix[19] = 0
pol_mix = pol.copy(); pol_mix[2] = 0; pol_mix[7] = (0, 0, 1); pol_mix[8] = (0, -0.0, 0); pol_mix[12] = (nan, 0, 0)
SETS = {
    "std": (dim, pol),
    "mix": (dim_mix, pol_mix),
    "int": (np.tile((1, 2, 3), (n, 1)), np.tile((1, 0, 2), (n, 1))),
    "dnan": (np.where(np.arange(3 * n).reshape(n, 3) % 7 == 0, nan, dim), pol),
    "dinf": (np.where(np.arange(3 * n).reshape(n, 3) % 5 == 0, inf, dim), pol),
    "dhuge": (dim * 1e150, pol),
    "dtiny": (dim * 1e-200, pol),
    "ohuge": (dim, pol),
}
for name, (d, p) in SETS.items():
    o = obs * 1e-200 if name == "dtiny" else (np.where(obs > 1, inf, obs) if name == "ohuge" else obs)
    for field in "BHJM":
        run(f"BHJM_cuboid {name} {field}", lambda: BHJM_magnet_cuboid(field, o, d, p))
    for i in range(n):
        run(f"  row{i} {name} H", lambda: BHJM_magnet_cuboid("H", o[i : i + 1], d[i : i + 1], p[i : i + 1]))

o2, d2, p2 = obs.copy(), dim_mix.copy(), pol_mix.copy()
BHJM_magnet_cuboid("H", o2, d2, p2)
print("inputs untouched", np.array_equal(o2, obs), np.array_equal(d2, dim_mix), np.array_equal(p2, pol_mix, equal_nan=True))
run("empty", lambda: BHJM_magnet_cuboid("B", np.zeros((0, 3)), np.zeros((0, 3)), np.zeros((0, 3))))

for field in ("X", "BH", "", None, 1):
    run(f"err field {field!r}", lambda: BHJM_magnet_cuboid(field, obs, dim, pol))
for field in "BJ":
    run(f"err dim shape {field}", lambda: BHJM_magnet_cuboid(field, obs, dim[:3], pol))
    run(f"err pol shape {field}", lambda: BHJM_magnet_cuboid(field, obs, dim, pol[:3]))
    run(f"err obs shape {field}", lambda: BHJM_magnet_cuboid(field, obs[:3], dim, pol))
    run(f"err dim (n,2) {field}", lambda: BHJM_magnet_cuboid(field, obs, dim[:, :2], pol))
    run(f"err obs (n,2) {field}", lambda: BHJM_magnet_cuboid(field, obs[:, :2], dim, pol))
    run(f"single dim {field}", lambda: BHJM_magnet_cuboid(field, obs, dim[0], pol))
    run(f"single dim (1,3) {field}", lambda: BHJM_magnet_cuboid(field, obs, dim[:1], pol))
    run(f"single pol {field}", lambda: BHJM_magnet_cuboid(field, obs, dim, pol[0]))
    run(f"single obs {field}", lambda: BHJM_magnet_cuboid(field, obs[0], dim, pol))
    run(f"list dim {field}", lambda: BHJM_magnet_cuboid(field, obs, dim.tolist(), pol))
    run(f"obs nan/inf-inf {field}", lambda: BHJM_magnet_cuboid(field, np.array([(inf, 0, nan), (0, inf, 0)]), np.array([(inf, 1, 1), (1, inf, 1.0)]), pol[:2]))

run("core", lambda: magpy.core.magnet_cuboid_Bfield(observers=obs, dimensions=dim, polarizations=pol))
for field in "BHJM":
    get = getattr(magpy, "get" + field)
    cub = magpy.magnet.Cuboid(dimension=(1, 2, 3), polarization=(0.1, -0.2, 0.3))
    cub2 = magpy.magnet.Cuboid(dimension=(1, 2, 3), polarization=(0, 0, 0), position=(1, 0, 0))
    sens = magpy.Sensor(pixel=obs)
    run(f"top {field}", lambda: get([cub, cub2], sens))
    run(f"src {field}", lambda: getattr(cub, "get" + field)(obs))
    run(f"sens {field}", lambda: getattr(sens, "get" + field)(cub, cub2))
    run(f"coll {field}", lambda: getattr(magpy.Collection(cub, cub2), "get" + field)(obs))
    run(f"func {field}", lambda: get("Cuboid", obs, dimension=np.abs(dim_mix) + 1e-3, polarization=pol_mix))
    run(f"func single {field}", lambda: get("Cuboid", obs, dimension=(1, 2, 3), polarization=(0.1, -0.2, 0.3)))
    run(f"df {field}", lambda: get(cub, obs, output="dataframe")[[field + "x", field + "y", field + "z"]].to_numpy())
