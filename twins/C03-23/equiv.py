import os, sys; sys.path.insert(0, os.getcwd())
import hashlib
import re
import warnings

import numpy as np
from scipy.spatial.transform import Rotation as R

import magpylib as magpy
from magpylib._src.obj_classes.class_BaseTransform import apply_rotation

warnings.simplefilter("ignore")

H = hashlib.sha256()


def exc(err):
    msg = re.sub(r"id=\d+|0x[0-9a-f]+", "#", str(err))
    return f"EXC {type(err).__name__}: {msg[:110]!r}"


def state(obj):
    return hashlib.sha256(
        obj._position.tobytes() + obj._orientation.as_quat().tobytes()
    ).hexdigest()[:12] + f" len={len(obj._position)}/{len(obj._orientation)}"


def fresh(n):
    obj = magpy.Sensor(position=[(k + 1, 2 * k, -k) for k in range(n)])
    obj.orientation = R.from_rotvec([(0.1 * k, 0.2, 0.3 * k) for k in range(n)])
    return obj


rotations = {
    "None": None,
    "scalar": R.from_rotvec((0.2, -0.1, 0.4)),
    "vec1": R.from_rotvec([(0.2, -0.1, 0.4)]),
    "vec2": R.from_rotvec([(0.1, 0.2, 0.3), (0.5, -0.4, 0.3)]),
    "vec4": R.from_rotvec([(0.1, 0.2, 0.3), (0.5, -0.4, 0.3), (1.0, 2.0, -0.5), (0, 0, 1.5)]),
}
anchors = {
    "None": None,
    "0": 0,
    "0.0": 0.0,
    "(3,)": (1, 2, 3),
    "(1,3)": [(1, 2, 3)],
    "(2,3)": [(1, 2, 3), (0, -1, 2)],
    "(3,3)": np.array([(1, 2, 3), (0, -1, 2), (4, 4, 4.5)]),
    "(5,3)": [(k, 1, -k) for k in range(5)],
}
starts = ("auto", 0, 1, -2, -7)

# 1) every combination of rotation length / anchor length / start on plain objects
count = 0
for rname, rot in rotations.items():
    for aname, anchor in anchors.items():
        for start in starts:
            for n in (1, 3):
                obj = fresh(n)
                try:
                    res = obj.rotate(rot, anchor=anchor, start=start)
                    line = f"rot={rname} anchor={aname} start={start} n={n}: {state(obj)} self={res is obj}"
                except Exception as err:  # pylint: disable=broad-except
                    line = f"rot={rname} anchor={aname} start={start} n={n}: {exc(err)} {state(obj)}"
                H.update(line.encode())
                if count % 23 == 0:
                    print(line)
                count += 1
print("plain table", count, H.hexdigest()[:20])

# 2) the caller's anchor array must never be modified
for aname in ("(3,)", "(1,3)", "(2,3)", "(3,3)"):
    arr = np.array(anchors[aname], dtype=float)
    keep = arr.copy()
    for rname in ("scalar", "vec2", "vec4"):
        fresh(2).rotate(rotations[rname], anchor=arr)
    print("anchor untouched", aname, np.array_equal(arr, keep))

# 3) collections: children get the same anchor / the parent path (compound rotation)
for rname, rot in rotations.items():
    for aname in ("None", "0", "(3,)", "(2,3)", "(5,3)"):
        for start in ("auto", 1, -4):
            obj = fresh(2)
            child = magpy.magnet.Cuboid(
                polarization=(0, 0, 1), dimension=(1, 1, 1), position=[(5, 5, k) for k in range(3)]
            )
            inner = magpy.Collection(child, position=(0, 1, 0))
            col = magpy.Collection(obj, inner, position=(1, 1, 1))
            try:
                col.rotate(rot, anchor=anchors[aname], start=start)
                line = (
                    f"col rot={rname} anchor={aname} start={start}: "
                    f"{state(col)} | {state(obj)} | {state(inner)} | {state(child)}"
                )
            except Exception as err:  # pylint: disable=broad-except
                line = f"col rot={rname} anchor={aname} start={start}: {exc(err)}"
            H.update(line.encode())
            if start == -4 and aname in ("None", "(2,3)"):
                print(line)
print("collection table", H.hexdigest()[:20])

# 4) other entry points ending in apply_rotation
obj = fresh(2)
obj.rotate_from_angax([10, 20, 30], "z", anchor=[(1, 0, 0), (2, 0, 0), (3, 0, 0)], start=1)
print("angax", state(obj))
obj.rotate_from_euler([10, 20], "xy", anchor=(1, 1, 1))
print("euler", state(obj))
obj.rotate_from_quat((0, 0, 1, 1), anchor=[(0, 0, 1), (0, 1, 0)], start=0)
print("quat", state(obj))
obj.rotate_from_rotvec([(0, 0, 10), (0, 20, 0), (30, 0, 0)], anchor=0, start=-1)
print("rotvec", state(obj))
obj.rotate_from_matrix([(0, -1, 0), (1, 0, 0), (0, 0, 1)], anchor=[(1, 2, 3)] * 4, start=2)
print("matrix", state(obj))
obj.rotate_from_mrp((0, 0, 1), anchor=((1, 1, 1), (2, 2, 2)))
print("mrp", state(obj))
obj = fresh(3)
apply_rotation(obj, rotations["vec2"], anchor=[(1, 1, 1)] * 3, start=1, parent_path=np.zeros((2, 3)))
print("apply_rotation anchor+parent_path", state(obj))
obj = fresh(3)
apply_rotation(obj, rotations["vec2"], anchor=None, start=-1, parent_path=np.arange(6.0).reshape(2, 3))
print("apply_rotation parent_path", state(obj))
col = magpy.Collection(fresh(2), fresh(1))
col.orientation = rotations["vec4"]
print("orientation setter", state(col), state(col[0]), state(col[1]))

# 5) field of a source after multi-anchor rotations
src = magpy.magnet.Cuboid(polarization=(0.1, 0.2, 0.3), dimension=(1, 2, 3), position=(1, 0, 0))
src.rotate(rotations["vec4"], anchor=[(0, 0, 0), (0, 1, 0)], start=0)
src.rotate(rotations["scalar"], anchor=[(1, 1, 1), (2, 2, 2), (3, 3, 3)], start=2)
B = src.getB((3, 3, 3))
print("field", B.shape, hashlib.sha256(B.tobytes()).hexdigest()[:16], state(src))

# 6) error paths
bad_inputs = {
    "anchor (2,)": dict(rotation=rotations["scalar"], anchor=(1, 2)),
    "anchor (2,2)": dict(rotation=rotations["vec2"], anchor=[(1, 2), (3, 4)]),
    "anchor str": dict(rotation=rotations["scalar"], anchor="origin"),
    "anchor 1": dict(rotation=rotations["scalar"], anchor=1),
    "anchor 3d": dict(rotation=rotations["scalar"], anchor=np.zeros((2, 2, 3))),
    "rotation str": dict(rotation="z", anchor=(1, 2, 3)),
    "rotation quat-array": dict(rotation=np.array((0, 0, 0, 1)), anchor=[(1, 2, 3)] * 2),
    "start str": dict(rotation=rotations["vec2"], anchor=[(1, 2, 3)] * 3, start="x"),
    "start float": dict(rotation=rotations["vec2"], anchor=0, start=1.0),
}
for name, kw in bad_inputs.items():
    obj = fresh(2)
    try:
        obj.rotate(**kw)
        print("bad", name, "no error", state(obj))
    except Exception as err:  # pylint: disable=broad-except
        print("bad", name, exc(err), state(obj))

# 7) additions for twins5/3: calling conventions of apply_rotation and which error wins
def call(name, func, *objs):
    try:
        res = func()
        print(name, "ok", "returns target" if any(res is o for o in objs) else type(res).__name__,
              *[state(o) for o in objs])
    except Exception as err:  # pylint: disable=broad-except
        print(name, exc(err), *[state(o) for o in objs])


rs, rv = rotations["scalar"], rotations["vec2"]
obj = fresh(3)
call("positional all", lambda: apply_rotation(obj, rv, (1, 2, 3), 1, np.ones((3, 3))), obj)
call("positional rot only", lambda: apply_rotation(obj, rs), obj)
call("keywords all", lambda: apply_rotation(
    target_object=obj, rotation=rv, anchor=None, start=-2, parent_path=np.arange(9.0).reshape(3, 3)), obj)
call("rotation None", lambda: apply_rotation(obj, None, parent_path=np.arange(9.0).reshape(3, 3)), obj)
call("missing rotation", lambda: apply_rotation(obj), obj)
call("unknown keyword", lambda: apply_rotation(obj, rs, anchors=0), obj)
call("too many", lambda: apply_rotation(obj, rs, None, 0, None, 1), obj)
# order of the input checks
call("bad rot + bad anchor + bad start", lambda: apply_rotation(obj, "r", anchor="a", start="s"), obj)
call("bad anchor + bad start", lambda: apply_rotation(obj, rs, anchor="a", start="s"), obj)
call("bad start", lambda: apply_rotation(obj, rv, anchor=[(1, 1, 1)] * 3, start="s"), obj)
call("bad start + bad parent_path", lambda: apply_rotation(obj, rv, start=1.5, parent_path="pp"), obj)
call("bad parent_path", lambda: apply_rotation(obj, rv, start=1, parent_path="pp"), obj)
call("bad parent_path but anchor", lambda: apply_rotation(obj, rv, anchor=0, start=1, parent_path="pp"), obj)
call("bad target", lambda: apply_rotation("target", rv, anchor=0, start=1), obj)
call("bad target + bad start", lambda: apply_rotation("target", rv, anchor=0, start=None), obj)
call("parent_path 1-d", lambda: apply_rotation(obj, rv, start=0, parent_path=np.array((1.0, 2, 3))), obj)
call("parent_path too long", lambda: apply_rotation(obj, rs, start=0, parent_path=np.ones((7, 3))), obj)
call("parent_path (4,2)", lambda: apply_rotation(obj, rs, start=0, parent_path=np.ones((4, 2))), obj)
# parent_path is never written to, the object's own position array is modified in place when no padding
pp = np.arange(12.0).reshape(4, 3)
keep = pp.copy()
obj = fresh(3)
own = obj._position
call("parent_path padded", lambda: apply_rotation(obj, rotations["vec4"], start=2, parent_path=pp), obj)
print("parent_path untouched", np.array_equal(pp, keep), "own array kept", obj._position is own)
obj = fresh(3)
own = obj._position
call("no padding", lambda: apply_rotation(obj, rv, start=1, parent_path=pp), obj)
print("parent_path untouched", np.array_equal(pp, keep), "own array kept", obj._position is own)
# the checked rotation/anchor are what is used: int quaternion of None, anchor 0
for n in (1, 3):
    for rot in (None, rs, rv):
        for anchor in (None, 0, (1, 2, 3), [(1, 2, 3)] * 3):
            for ppath in (None, np.arange(9.0).reshape(3, 3)):
                obj = fresh(n)
                call(f"grid n={n} rot={'None' if rot is None else len(rot.as_quat().shape)} "
                     f"anchor={np.shape(anchor)} pp={ppath is not None}",
                     lambda: apply_rotation(obj, rot, anchor, "auto", ppath), obj)
# a subclass that overrides rotate/_rotate still sees the same calls through the orientation setter
class Noisy(magpy.Sensor):
    def _rotate(self, rotation, anchor=None, start="auto", parent_path=None):
        print("   _rotate called", np.shape(anchor), start, parent_path is None)
        return super()._rotate(rotation, anchor=anchor, start=start, parent_path=parent_path)


noisy = Noisy(position=(1, 2, 3))
col = magpy.Collection(noisy, fresh(2))
col.rotate(rv, start=0)
col.orientation = rs
print("noisy", state(noisy), state(col), state(col[1]))
