import os, sys; sys.path.insert(0, os.getcwd())
import hashlib
import re
import warnings

import numpy as np
from scipy.spatial.transform import Rotation as R

import magpylib as magpy
from magpylib._src.fields.field_wrap_BH import getBH_dict_level2

warnings.simplefilter("ignore")


def h(x):
    x = np.ascontiguousarray(np.asarray(x))
    return f"{x.shape} {x.dtype} {hashlib.sha1(x.tobytes()).hexdigest()[:16]}"


def dig(x):
    if x is None:
        return "None"
    x = np.asarray(x)
    return f"{h(x)} {np.round(x.astype(float), 10).ravel()[:6].tolist()}"


def run(name, fn):
    try:
        print(name, "->", dig(fn()))
    except Exception as err:  # pylint: disable=broad-except
        msg = re.sub(r"0x[0-9a-f]+|id=\d+", "ADDR", str(err).replace("\n", " / "))
        print(name, "-> EXC", type(err).__name__, "|", msg[:200])


n = 4
obs1 = (0.3, 0.2, 0.7)
obsn = [(0.3 + 0.1 * i, 0.2, 0.7 - 0.2 * i) for i in range(n)]
posn = [(0.1 * i, -0.1 * i, 0.05 * i) for i in range(n)]
rotn = R.from_rotvec([(0.1 * i, 0.2, 0.3 * i) for i in range(n)])
rot1 = R.from_rotvec((0.3, 0.2, 0.1))
tetra = [(0, 0, 0), (1, 0, 0), (0, 1, 0), (0, 0, 1)]
tri = [(0, 0, 0), (1, 0, 0), (0, 1, 0)]
mesh = [[(0, 0, 0), (0, 1, 0), (1, 0, 0)], [(0, 0, 0), (1, 0, 0), (0, 0, 1)],
        [(0, 0, 0), (0, 0, 1), (0, 1, 0)], [(1, 0, 0), (0, 1, 0), (0, 0, 1)]]

# single parameter sets and (n,..) parameter arrays for every registered class
CASES = {
    "Cuboid": [dict(polarization=(0.1, 0.2, 0.3), dimension=(1, 2, 3)),
               dict(polarization=[(0.1 * i, 0.2, 0.3) for i in range(n)], dimension=[(1, 2, 3 + i) for i in range(n)])],
    "Cylinder": [dict(polarization=(0.1, 0.2, 0.3), dimension=(1, 2)),
                 dict(polarization=(0.1, 0.2, 0.3), dimension=[(1 + i, 2) for i in range(n)])],
    "CylinderSegment": [dict(polarization=(0.1, 0.2, 0.3), dimension=(1, 2, 3, 10, 170)),
                        dict(polarization=[(0.1, 0.2, 0.3 * i) for i in range(n)], dimension=(1, 2, 3, 10, 170))],
    "Sphere": [dict(polarization=(0.1, 0.2, 0.3), diameter=1.5),
               dict(polarization=(0.1, 0.2, 0.3), diameter=[1.5, 1, 2, 0.5])],
    "Tetrahedron": [dict(polarization=(0.1, 0.2, 0.3), vertices=tetra),
                    dict(polarization=[(0.1, 0.2, 0.3)] * n, vertices=[tetra] * n)],
    "Triangle": [dict(polarization=(0.1, 0.2, 0.3), vertices=tri),
                 dict(polarization=[(0.1 * i, 0.2, 0.3) for i in range(n)], vertices=tri)],
    "TriangularMesh": [dict(polarization=(0.1, 0.2, 0.3), mesh=mesh),
                       dict(polarization=[(0.1 * i, 0.2, 0.3) for i in range(n)], mesh=[mesh] * n)],
    "Circle": [dict(current=2.5, diameter=1.2),
               dict(current=[1, 2, 3, 4], diameter=[1.2, 1.3, 1.4, 1.5])],
    "Polyline": [dict(current=2.5, segment_start=(0, 0, 0), segment_end=(1, 1, 1)),
                 dict(current=[1, 2, 3, 4], segment_start=[(0, 0, 0.1 * i) for i in range(n)], segment_end=(1, 1, 1)),
                 dict(current=2.5, vertices=[(0, 0, 0), (1, 1, 1), (2, 0, 1)]),
                 dict(current=[1, 2, 3, 4], vertices=[[(0, 0, 0), (1, 1, 1), (2, 0, 1)]] * n),
                 # ragged vertices
                 dict(current=[1, 2, 3, 4], vertices=[[(0, 0, 0), (1, 1, 1)], [(0, 0, 0), (1, 1, 1), (2, 0, 1)],
                                                      [(0, 0, 0), (1, 0, 1)], [(0, 0, 0), (1, 1, 1), (2, 0, 1), (3, 3, 3)]])],
    "Dipole": [dict(moment=(1, 2, 3)), dict(moment=[(1, 2, 3 * i) for i in range(n)])],
}

print("registered:", sorted(magpy._src.utility.get_registered_sources()))
for cls, sets in CASES.items():
    for k, params in enumerate(sets):
        for field in "BHJM":
            f = getattr(magpy, "get" + field)
            run(f"{cls}.{k}.{field}.obs1", lambda: f(cls, obs1, **params))
            run(f"{cls}.{k}.{field}.obsn", lambda: f(cls, obsn, **params))
        run(f"{cls}.{k}.posn", lambda: magpy.getB(cls, obsn, position=posn, **params))
        run(f"{cls}.{k}.rot1", lambda: magpy.getH(cls, obs1, orientation=rot1, position=(1, 2, 3), **params))
        run(f"{cls}.{k}.rotn", lambda: magpy.getB(cls, obsn, orientation=rotn, position=posn, **params))
        run(f"{cls}.{k}.nosqueeze", lambda: magpy.getB(cls, obs1, squeeze=False, **params))
        run(f"{cls}.{k}.nosqueeze.n", lambda: magpy.getH(cls, [obs1], position=[(1, 2, 3)], squeeze=False, **params))

# in_out is handed through to the magnets that know it
run("in_out.tetra", lambda: magpy.getB("Tetrahedron", obsn, in_out="outside", **CASES["Tetrahedron"][0]))
run("in_out.mesh", lambda: magpy.getB("TriangularMesh", obsn, in_out="inside", **CASES["TriangularMesh"][0]))
run("in_out.cuboid", lambda: magpy.getB("Cuboid", obsn, in_out="inside", **CASES["Cuboid"][0]))

# direct call of the level2 function, custom source without field: returns None
run("custom.none", lambda: getBH_dict_level2("CustomSource", obsn, field="B"))
run("direct", lambda: getBH_dict_level2("Dipole", obsn, field="H", moment=(1, 2, 3), position=posn, orientation=rotn, squeeze=False))

# comparison with the object interface (same numbers)
obj = magpy.magnet.Cuboid(polarization=(0.1, 0.2, 0.3), dimension=(1, 2, 3), position=(1, 2, 3), orientation=rot1)
a = magpy.getB("Cuboid", obsn, position=(1, 2, 3), orientation=rot1, polarization=(0.1, 0.2, 0.3), dimension=(1, 2, 3))
print("same as object interface:", np.array_equal(a, obj.getB(obsn)), np.array_equal(a, magpy.Sensor(pixel=obsn).getB(obj)))

# error paths
run("err.unknown-class", lambda: magpy.getB("Cube", obs1, polarization=(1, 2, 3), dimension=(1, 2, 3)))
run("err.unknown-class-direct", lambda: getBH_dict_level2("Cube", obs1, field="B"))
run("err.unhashable-class", lambda: getBH_dict_level2(["Cuboid"], obs1, field="B"))
run("err.lengths", lambda: magpy.getB("Cuboid", obsn, polarization=[(1, 2, 3)] * 3, dimension=(1, 2, 3)))
run("err.lengths2", lambda: magpy.getB("Circle", obsn, current=[1, 2], diameter=[1, 2, 3], position=posn))
run("err.not-arraylike", lambda: magpy.getB("Cuboid", obs1, polarization=None, dimension=(1, 2, 3)))
run("err.not-arraylike2", lambda: magpy.getB("Circle", obs1, current=object(), diameter=1))
run("err.string", lambda: magpy.getB("Circle", obs1, current="a", diameter=1))
run("err.missing", lambda: magpy.getB("Cuboid", obs1, polarization=(1, 2, 3)))
run("err.unknown-kwarg", lambda: magpy.getB("Cuboid", obs1, polarization=(1, 2, 3), dimension=(1, 2, 3), bla=1))
run("err.kwargs-with-object", lambda: magpy.getB(obj, obs1, polarization=(1, 2, 3)))
run("err.orientation-none", lambda: magpy.getB("Dipole", obs1, moment=(1, 2, 3), orientation=None))
run("err.bad-field", lambda: getBH_dict_level2("Dipole", obs1, field="X", moment=(1, 2, 3)))
run("err.ragged-obs", lambda: magpy.getB("Dipole", [(1, 2, 3), (1, 2)], moment=(1, 2, 3)))
run("err.too-many-dims", lambda: magpy.getB("Dipole", [[obs1, obs1]], moment=(1, 2, 3)))


# a user-registered class: field function without result (None is handed through), own parameter
class MySource(magpy.misc.CustomSource):
    _field_func = staticmethod(lambda field, observers, strength: None if field == "H" else observers * strength[:, None])
    _field_func_kwargs_ndim = {"strength": 1}


run("user-class.none", lambda: magpy.getH("MySource", obsn, strength=2))
run("user-class.none.nosqueeze", lambda: magpy.getH("MySource", obsn, strength=2, squeeze=False))
run("user-class.single", lambda: magpy.getB("MySource", obsn, strength=2))
run("user-class.n", lambda: magpy.getB("MySource", obsn, strength=[1, 2, 3, 4], position=posn, orientation=rotn))
run("user-class.n1", lambda: magpy.getB("MySource", [obs1], strength=[3], squeeze=False))
