import os, sys; sys.path.insert(0, os.getcwd())
import re

import magpylib as magpy
from magpylib._src.defaults.defaults_classes import DefaultSettings, default_settings
from magpylib._src.display.traces_generic import MagpyMarkers
from magpylib._src.style import get_families, get_style


def run(label, func):
    try:
        res = func()
    except BaseException as e:  # deterministic digest of the error path
        msg = str(e).split("`{")[0]  # sets in the message have no deterministic order
        msg = re.sub(r"id=\d+", "id=N", msg)[:100]
        res = f"EXC {type(e).__name__}: {msg!r}"
    print(f"{label}: {res}")


def digest(style, drop_none=True):
    flat = style.as_dict(flatten=True, separator="_")
    return type(style).__name__, [
        (k, v) for k, v in flat.items() if not drop_none or not (v is None or v == [])
    ]


verts = [(0, 0, 0), (1, 0, 0), (0, 1, 0), (0, 0, 1)]
objs = {
    "cuboid": magpy.magnet.Cuboid(polarization=(0, 0, 1), dimension=(1, 1, 1)),
    "cylinder": magpy.magnet.Cylinder(polarization=(0, 0, 1), dimension=(1, 1), style_color="g"),
    "segment": magpy.magnet.CylinderSegment(polarization=(0, 0, 1), dimension=(1, 2, 1, 0, 90)),
    "sphere": magpy.magnet.Sphere(polarization=(0, 0, 1), diameter=1),
    "tetra": magpy.magnet.Tetrahedron(polarization=(0, 0, 1), vertices=verts),
    "mesh": magpy.magnet.TriangularMesh.from_ConvexHull(polarization=(0, 0, 1), points=verts),
    "circle": magpy.current.Circle(current=1, diameter=1),
    "polyline": magpy.current.Polyline(current=1, vertices=[(0, 0, 0), (1, 1, 1)]),
    "sensor": magpy.Sensor(style_size=4),
    "dipole": magpy.misc.Dipole(moment=(0, 0, 1)),
    "triangle": magpy.misc.Triangle(polarization=(0, 0, 1), vertices=verts[:3]),
    "custom": magpy.misc.CustomSource(),
    "markers": MagpyMarkers((0, 0, 0), (1, 1, 1)),
    "collection": magpy.Collection(magpy.Sensor(), style_label="coll"),
}


class MetaRaisesType(type):
    def __instancecheck__(cls, inst):
        raise TypeError("meta says no")


class MetaRaisesValue(type):
    def __instancecheck__(cls, inst):
        raise ValueError("meta says no differently")


class MetaTrue(type):
    def __instancecheck__(cls, inst):
        return True


class A(metaclass=MetaRaisesType):
    pass


class B(metaclass=MetaRaisesValue):
    pass


class C(metaclass=MetaTrue):
    pass


class MySensor(magpy.Sensor):
    pass


# ---- get_families -----------------------------------------------------------
for name, obj in objs.items():
    run(f"families {name}", lambda: get_families(obj))
for label, obj in {
    "None": None, "int": 3, "str": "magnet", "object()": object(), "class object": object, "class type": type,
    "class int": int, "class Sensor": magpy.Sensor, "subclass instance": MySensor(), "tuple of classes": (magpy.Sensor, object),
    "tuple with non class": (1, 2), "empty tuple": (), "meta TypeError": A, "meta ValueError": B, "meta True": C, "union": int | str,
}.items():
    run(f"families {label}", lambda: get_families(obj))

# ---- get_style: plain defaults, whole flat dict incl. order -----------------
for name, obj in objs.items():
    run(f"style {name}", lambda: digest(get_style(obj, default_settings), drop_none=False))

# ---- layering: base < family (in family order) < object < kwargs ---------------
D = magpy.defaults.display.style
D.base.color = "purple"
D.base.opacity = 0.9
D.base.path.line.width = 9
D.magnet.magnetization.color.north = "orange"
D.magnet.magnetization.show = False
D.magnet.magnetization.arrow.width = 4
D.triangularmesh.magnetization.color.north = "pink"  # later family wins over `magnet`
D.triangularmesh.magnetization.arrow.width = None  # unset family leaf: lower layer shows through
D.triangularmesh.orientation.color = "cyan"
D.triangle.magnetization.show = True
D.markers.opacity = 0.6  # family leaf wins over the base leaf
D.markers.path.line.width = None
D.current.arrow.width = 5
D.sensor.size = 13
D.sensor.pixel.size = None
D.dipole.pivot = "tail"
D.triangle.orientation.size = 3
D.markers.marker.symbol = "x"
for name, obj in objs.items():
    run(f"changed {name}", lambda: digest(get_style(obj, default_settings, style_path_line_style=":")))
objs["mesh"].style.opacity = 0.1
objs["sensor"].style.path.line.width = 2
run("object wins mesh", lambda: [kv for kv in digest(get_style(objs["mesh"], default_settings))[1] if kv[0] in ("opacity", "color")])
run("kwargs win mesh", lambda: [kv for kv in digest(get_style(objs["mesh"], default_settings, style_opacity=0.2, style={"color": "k"}))[1] if kv[0] in ("opacity", "color")])
run("object wins sensor", lambda: [kv for kv in digest(get_style(objs["sensor"], default_settings))[1] if kv[0] in ("path_line_width", "size")])
run("own style untouched", lambda: digest(objs["mesh"].style))
run("defaults untouched", lambda: (D.base.opacity, D.magnet.magnetization.color.north, D.triangularmesh.magnetization.color.north, D.triangularmesh.magnetization.arrow.width))

# other settings objects do not leak into each other
other = DefaultSettings()
other.display.style.base.opacity = 0.3
run("other settings", lambda: [kv for kv in digest(get_style(objs["cuboid"], other))[1] if kv[0] in ("opacity", "color", "path_line_width")])
run("global settings", lambda: [kv for kv in digest(get_style(objs["cuboid"], default_settings))[1] if kv[0] in ("opacity", "color", "path_line_width")])
magpy.defaults.reset()
run("after reset", lambda: digest(get_style(objs["cuboid"], default_settings)))
run("after reset mesh", lambda: digest(get_style(objs["mesh"], default_settings)))

# ---- non magpylib objects and error paths ----------------------------------
class Styled:
    def __init__(self):
        self.style = magpy.Sensor().style


run("foreign object with style", lambda: digest(get_style(Styled(), default_settings, style_color="r")))
run("foreign object without style", lambda: get_style(object(), default_settings))
run("class object as obj", lambda: get_style(object, default_settings))
run("bad key", lambda: get_style(objs["cuboid"], default_settings, style_nope=1))
run("bad nested key", lambda: get_style(objs["cuboid"], default_settings, style_path_nope=1))
run("bad value", lambda: get_style(objs["cuboid"], default_settings, style_opacity=3))
run("no display", lambda: get_style(objs["cuboid"], object()))
run("no display + bad key", lambda: get_style(objs["cuboid"], object(), style_nope=1))
run("style None", lambda: get_style(objs["cuboid"], default_settings, style=None))


class FakeStyleDefaults:
    """default style with a broken family and a missing base"""

    def __init__(self, with_base):
        if with_base:
            self.base = default_settings.display.style.base

    @property
    def magnet(self):
        raise AttributeError("broken family is skipped")

    @property
    def sensor(self):
        raise KeyError("broken family propagates")


class FakeSettings:
    def __init__(self, with_base=True):
        self.display = type("Disp", (), {})()
        self.display.style = FakeStyleDefaults(with_base)


run("fake defaults, AttributeError family", lambda: digest(get_style(objs["cuboid"], FakeSettings()))[1][:4])
run("fake defaults, KeyError family", lambda: get_style(objs["sensor"], FakeSettings()))
run("fake defaults, no base", lambda: get_style(objs["cuboid"], FakeSettings(False)))
run("fake defaults, no base + bad key", lambda: get_style(objs["cuboid"], FakeSettings(False), style_nope=1))

# ---- end to end ---------------------------------------------------------------
from magpylib._src.display.traces_utility import get_flatten_objects_properties_recursive
flat = get_flatten_objects_properties_recursive(*objs.values(), colorsequence=("#111111", "#222222"), style_kwargs={"style_opacity": 0.4})
for obj, props in flat.items():
    print(type(obj).__name__, props["style"].color, props["style"].opacity, props["legendtext"])
