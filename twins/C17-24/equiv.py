import os, sys; sys.path.insert(0, os.getcwd())
import re
import warnings
from fractions import Fraction

import numpy as np

import magpylib as magpy
from magpylib._src.input_checks import (
    check_format_input_anchor,
    check_format_input_angle,
    check_format_input_axis,
    check_format_input_cylinder_segment,
    check_format_input_vector,
)

warnings.simplefilter("ignore")


def dig(r):
    if isinstance(r, np.ndarray):
        return f"ARR {r.dtype} {r.shape} {r.tolist()}"
    return f"RET {type(r).__name__} {r!r}"


def run(f):
    try:
        out = dig(f())
    except Exception as e:  # pylint: disable=broad-except
        out = f"EXC {type(e).__name__}: {e} | cause={type(e.__cause__).__name__}"
    return re.sub(r"0x[0-9a-f]+|id=\d+", "ADDR", out)


def emit(*args):
    print(re.sub(r"0x[0-9a-f]+|id=\d+", "ADDR", " ".join(str(a) for a in args)))


class Seq:
    """sequence-like, but not list/tuple/ndarray"""

    def __len__(self):
        return 3

    def __getitem__(self, i):
        return (1.0, 2.0, 3.0)[i]


class LoudFloat:
    def __float__(self):
        raise RuntimeError("no float for you")


values = [
    None, 0, 2, -1, 1.5, True, 3 + 1j, Fraction(1, 4), np.float64(2.5), np.int8(-3), "1", "abc", b"123",
    (), [], [[]], [(), ()], (1,), (1, 2), (1, 2, 3), [1, 2, 3], (0, 1, 2), (-1, 2, 3), (1, 2, 3, 4), (1, 2, 3, 4, 5),
    [(1, 2, 3)], [(1, 2, 3)] * 2, [(1, 2, 3)] * 3, [(1, 2, 3)] * 4, [(0, 2, 3)] * 3, [[(1, 2, 3)] * 2] * 2, [[[(1, 2, 3)] * 2] * 2] * 2,
    (1, "a", 3), ("1", "2", "3"), (1, None, 3), (1, [2], 3), [(1, 2, 3), (1, 2)], (1, 2, LoudFloat()), (True, False, True),
    {1, 2, 3}, {"a": 1}, range(3), Seq(), (x for x in (1, 2, 3)).__class__, (1, 2, 3 + 0j), (1, 2, 3 + 1j),
    np.array([1, 2, 3]), np.array([1.0, 2.0]), np.array([1.0, 0.0, 2.0]), np.array([[1, 2, 3]] * 3, dtype=np.float32),
    np.array([[1, 2, 3]] * 4, dtype=np.int16), np.array(5.0), np.array([]), np.zeros((0, 3)), np.zeros((3, 0)),
    np.array(["a", "b", "c"]), np.array(["1", "2", "3"]), np.array([1, 2, 3], dtype=object), np.array([1, None, 3], dtype=object),
    np.array([True, False, True]), np.array([1, 2, 3], dtype=complex), np.arange(12.0).reshape(2, 2, 3)[:, :, ::-1],
    np.ma.masked_array([1, 2, 3], mask=[0, 1, 0]), np.ones((1,) * 19 + (3,)), np.ones((1,) * 20 + (3,)),
    (1e400, 2, 3), (10**400, 2, 3), (np.inf, -np.inf, 1),
]

option_sets = [
    dict(dims=(1,), shape_m1=3),
    dict(dims=(1,), shape_m1=3, allow_None=True),
    dict(dims=(1,), shape_m1=3, allow_None=True, forbid_negative0=True),
    dict(dims=(1,), shape_m1=2, allow_None=True, forbid_negative0=True),
    dict(dims=(1,), shape_m1=5, allow_None=True),
    dict(dims=(1, 2), shape_m1=3, reshape=(-1, 3)),
    dict(dims=(1, 2), shape_m1=3, reshape=(-1, 3), forbid_negative0=True),
    dict(dims=(1, 2), shape_m1=3, reshape=(3, -1), allow_None=True),
    dict(dims=(1, 2), shape_m1=3, reshape=(7, 7)),
    dict(dims=(1, 2), shape_m1=3, reshape=[-1, 3]),
    dict(dims=(1, 2), shape_m1=3, reshape=True),
    dict(dims=(2,), shape_m1=3, length=3, allow_None=True),
    dict(dims=(2,), shape_m1=3, length=4, allow_None=True),
    dict(dims=(2,), shape_m1=3),
    dict(dims=(1,), shape_m1="any"),
    dict(dims=(0, 1), shape_m1="any", length=3),
    dict(dims=(), shape_m1=3),
    dict(dims=[1, 2, 3], shape_m1=3, length=2, forbid_negative0=True),
    dict(dims=range(1, 20), shape_m1=3, allow_None=True),
]

# 1) the generic validator on the full grid (positional and keyword call styles)
for v in values:
    for kw in option_sets:
        emit("vector", repr(v)[:80].replace("\n", " "), {k: kw[k] for k in sorted(kw)}, "->",
              run(lambda: check_format_input_vector(v, sig_name="sn", sig_type="st", **kw)))
emit("positional call:", run(lambda: check_format_input_vector((1, 2, 3), (1,), 3, "sn", "st", None, (1, 3), False, True)))
emit("positional call:", run(lambda: check_format_input_vector((1, 2), (1,), 3, "sn", "st")))
for v in [np.array([1.0, 2.0, 3.0]), np.array([[1.0, 2.0, 3.0]])]:
    out = check_format_input_vector(v, dims=(1, 2), shape_m1=3, sig_name="sn", sig_type="st")
    out2 = check_format_input_vector(v, dims=(1, 2), shape_m1=3, sig_name="sn", sig_type="st", reshape=(-1, 3))
    emit("copy semantics:", out is v, np.shares_memory(out, v), np.shares_memory(out2, v), out.flags.owndata, out.flags.writeable)

# 2) the validators built on top of it
for v in values:
    emit("anchor", repr(v)[:60].replace("\n", " "), run(lambda: check_format_input_anchor(v)))
    emit("axis", repr(v)[:60].replace("\n", " "), run(lambda: check_format_input_axis(v)))
    emit("angle", repr(v)[:60].replace("\n", " "), run(lambda: check_format_input_angle(v)))
    emit("cylseg", repr(v)[:60].replace("\n", " "), run(lambda: check_format_input_cylinder_segment(v)))

# 3) every vector attribute through constructor and setter
specs = [
    (magpy.magnet.Cuboid, "dimension"), (magpy.magnet.Cylinder, "dimension"), (magpy.magnet.CylinderSegment, "dimension"),
    (magpy.magnet.Tetrahedron, "vertices"), (magpy.misc.Triangle, "vertices"), (magpy.current.Polyline, "vertices"),
    (magpy.misc.Dipole, "moment"), (magpy.Sensor, "pixel"), (magpy.Sensor, "position"), (magpy.magnet.Cuboid, "position"),
    (magpy.magnet.Cuboid, "polarization"), (magpy.magnet.Sphere, "magnetization"), (magpy.Collection, "position"),
]
for cls, attr in specs:
    for v in values:
        r1 = run(lambda: getattr(cls(**{attr: v}), attr))
        obj = cls()
        before = dig(getattr(obj, attr))

        def setit():
            setattr(obj, attr, v)
            return getattr(obj, attr)

        r2 = run(setit)
        after = dig(getattr(obj, attr))
        emit(cls.__name__, attr, repr(v)[:60].replace("\n", " "), "| ctor:", r1, "| set:", r2, "| same:", r1 == r2,
              "| unchanged_on_err:", (not r2.startswith("EXC")) or before == after)
        if isinstance(v, np.ndarray) and isinstance(getattr(obj, attr), np.ndarray):
            emit("   shares_memory:", np.shares_memory(getattr(obj, attr), v))

# 4) accepted objects compute
cub = magpy.magnet.Cuboid(dimension=[1, 2, 3], polarization=np.array([0.1, 0.2, 0.3]), position=[(0, 0, 0), (1, 1, 1)])
emit("getB:", dig(np.round(cub.getB(magpy.Sensor(pixel=[(2, 2, 2), (3, 3, 3)])), 12)))


# 5) batch 5 additions: WHEN the message parts are rendered, exotic containers, exception chaining
class LogName:
    """a sig_name / sig_type that logs every time it is formatted into a message"""

    def __init__(self, tag):
        self.tag = tag

    def __format__(self, spec):
        print(f"      format {self.tag}")
        return self.tag


class LoudMeta(type):
    def __repr__(cls):
        print("      repr of the input's type")
        return "<LoudType>"


class LoudList(list, metaclass=LoudMeta):
    pass


class BadMeta(type):
    def __repr__(cls):
        raise RuntimeError("type repr fails")


class BadList(list, metaclass=BadMeta):
    pass


class NotAList(metaclass=LoudMeta):
    pass


class StrRaises:
    def __float__(self):
        raise ValueError(ErrText())


class ErrText:
    def __str__(self):
        print("      str of the conversion error's argument")
        return "custom text"


class MyArr(np.ndarray):
    pass


probe_values = [
    (1, 2, 3), None, "abc", (1, 2), (1, "a", 3), LoudList([1, 2, 3]), LoudList([1, 2]), LoudList(["a"]), BadList([1, 2, 3]),
    NotAList(), (1, 2, StrRaises()), np.arange(3.0).view(MyArr), np.ma.masked_array([1.0, 2.0, 3.0], mask=[0, 0, 1]),
    np.array([0.0, -1.0, 2.0]), [0, 1, 2], np.array([[1, 2, 3]], dtype=np.uint8), np.array([1, 2, 3], dtype=">f8"),
    np.arange(6.0).reshape(2, 3).T, np.arange(6.0).reshape(2, 3, order="F"),
]
for v in probe_values:
    for kw in (dict(), dict(allow_None=True), dict(forbid_negative0=True), dict(reshape=(-1, 3)), dict(reshape=(2, 2))):
        emit("probe", repr(v)[:50].replace("\n", " ") if not isinstance(v, BadList) else "BadList", kw)
        res = run(lambda: check_format_input_vector(v, dims=(1, 2), shape_m1=3, sig_name=LogName("SN"), sig_type=LogName("ST"), **kw))
        emit("   ->", res)

for v in [(1, "a", 3), (1, 2, LoudFloat()), (1, [2], 3)]:
    try:
        check_format_input_vector(v, dims=(1,), shape_m1=3, sig_name="sn", sig_type="st")
    except Exception as e:  # pylint: disable=broad-except
        emit("chain", type(e).__name__, "| cause:", type(e.__cause__).__name__, str(e.__cause__)[:60], "| context is cause:",
             e.__context__ is e.__cause__, "| suppress:", e.__suppress_context__)

r = check_format_input_vector(np.arange(3.0).view(MyArr), dims=(1,), shape_m1=3, sig_name="sn", sig_type="st")
emit("subclass input gives", type(r).__name__, r.dtype, r.flags.owndata)
r = check_format_input_vector(np.arange(6.0).reshape(2, 3).T[:3:1].T, dims=(2,), shape_m1=3, sig_name="sn", sig_type="st")
emit("contiguity", r.flags.c_contiguous, r.flags.owndata)

# the two small helpers are still there for check_format_input_vector2
from magpylib._src.input_checks import check_format_input_vector2, is_array_like, make_float_array

emit("helpers", run(lambda: is_array_like((1, 2), "m")), run(lambda: is_array_like(1, "m")),
     run(lambda: make_float_array((1, 2), "m")), run(lambda: make_float_array("a", "m")))
emit("vector2", run(lambda: check_format_input_vector2([[1, 2, 3]], (None, 3), "p")), run(lambda: check_format_input_vector2("x", (None, 3), "p")))
