import os, sys; sys.path.insert(0, os.getcwd())
import hashlib
import re
import warnings

import numpy as np


def noid(txt):
    """object ids differ from run to run"""
    return re.sub(r"id=\d+", "id=#", re.sub(r"0x[0-9a-f]+", "0x#", txt))


def dig(x):
    """deterministic digest of an array / dataframe / anything"""
    try:
        import pandas as pd

        if isinstance(x, pd.DataFrame):
            return (
                f"df{x.shape} cols={list(x.columns)} "
                + hashlib.sha1(noid(x.to_csv()).encode()).hexdigest()[:12]
            )
    except ImportError:
        pass
    a = np.asarray(x)
    if a.dtype == object:
        return f"obj {a!r}"
    a = np.ascontiguousarray(a, dtype=float)
    return (
        f"{a.shape} sum={np.round(np.nansum(a), 12)!r} "
        + hashlib.sha1(a.tobytes()).hexdigest()[:12]
    )


def run(label, func, *args, **kwargs):
    """call and print digest or exception (type, first and last message line)"""
    with warnings.catch_warnings(record=True) as wlist:
        warnings.simplefilter("always")
        try:
            res = func(*args, **kwargs)
            out = dig(res)
        except BaseException as err:  # pylint: disable=broad-except
            msg = str(err).strip().splitlines() or [""]
            out = noid(f"!! {type(err).__name__}: {msg[0][:150]} || {msg[-1][:150]}")
            res = None
    wtxt = "".join(
        noid(f" [W {w.category.__name__}: {str(w.message)[:60]}]") for w in wlist
    )
    print(f"{label}: {out}{wtxt}")
    return res

import magpylib as magpy


def srcs():
    s = [
        magpy.magnet.Cuboid(polarization=(0.1, 0.2, 0.3), dimension=(1, 2, 3), position=(0.5, 0, 0)),
        magpy.current.Circle(current=3.0, diameter=2.0, position=[(0, 0, 0.1), (0, 0, 0.2), (0, 0, 0.3)]),
        magpy.misc.Dipole(moment=(1, 2, 3), position=(-1, 0.3, 0)),
        magpy.magnet.Sphere(polarization=(0, 0, 1), diameter=1.0).rotate_from_angax(30, "x"),
        magpy.magnet.Cylinder(polarization=(0.3, 0, 1), dimension=(1, 2), position=(0, 2, 0)),
        magpy.current.Polyline(current=-2.0, vertices=[(0, 0, 0), (1, 1, 0), (1, 2, 3)]),
        magpy.magnet.Cuboid(polarization=(1e-9, -3, 7e5), dimension=(0.3, 0.2, 0.1), position=(0, 0, -1)).rotate_from_angax([0, 20, 40], "z", start=0),
        magpy.misc.CustomSource(field_func=lambda field, observers: np.full_like(observers, np.nan if field == "H" else -0.0)),
        magpy.misc.CustomSource(field_func=lambda field, observers: -0.0 * observers, position=(1, 1, 1)),
        magpy.misc.Dipole(moment=(0, 0, 1e-3), position=(0.1, 0.1, 0.1)),
    ]
    for i, o in enumerate(s):
        o.style.label = f"s{i}"
    return s


S = srcs()
C = magpy.Collection
OBS = {
    "pos": [(0.3, 0.2, 1.0), (1, 2, 3)],
    "sens": [
        magpy.Sensor(position=(0, 0, 2), pixel=[(0, 0, 0), (0.1, 0, 0)], style_label="x0"),
        magpy.Sensor(position=[(1, 1, 1), (1, 1, 2)], pixel=[(0, 0, 0), (0, 0.1, 0)], handedness="left", style_label="x1").rotate_from_angax([10, 40], "y", start=0),
    ],
    "one": magpy.Sensor(position=(1, 0.2, 0.7), style_label="x2").rotate_from_angax(33, (1, 2, 3)),
}


def layouts():
    """name -> (top level list, flat member index lists)"""
    s = S
    return {
        "flat": lambda: ([s[0], s[1], s[2]], [[0], [1], [2]]),
        "single-child cols only": lambda: ([C(s[0]), C(s[1])], [[0], [1]]),
        "col first": lambda: ([C(s[0], s[1]), s[2], s[3]], [[0, 1], [2], [3]]),
        "col middle": lambda: ([s[0], C(s[1], s[2], s[3]), s[4]], [[0], [1, 2, 3], [4]]),
        "col last": lambda: ([s[0], s[1], C(s[2], s[3])], [[0], [1], [2, 3]]),
        "adjacent cols": lambda: ([C(s[0], s[1]), C(s[2], s[3], s[4]), C(s[5])], [[0, 1], [2, 3, 4], [5]]),
        "single-child + big": lambda: ([C(s[0]), s[1], C(s[2], s[3])], [[0], [1], [2, 3]]),
        "nested": lambda: ([s[0], C(s[1], C(s[2], C(s[3], s[4])), s[5]), s[6]], [[0], [1, 2, 3, 4, 5], [6]]),
        "with sensors/empty inside": lambda: ([C(s[0], magpy.Sensor(), C(), s[1]), s[2]], [[0, 1], [2]]),
        "one big col": lambda: ([C(*s)], [list(range(10))]),
        "bare col": lambda: (C(s[0], s[1], s[6]), [[0, 1, 6]]),
        "dup bare + col": lambda: ([s[0], C(s[1], s[2]), s[0], s[0]], [[0], [1, 2], [0], [0]]),
        "nan/-0 members": lambda: ([C(s[7], s[0]), s[7], C(s[8]), C(s[8].copy(), s[9])], [[7, 0], [7], [8], [8, 9]]),
        "many": lambda: ([C(s[0], s[1]), s[2], C(s[3]), C(s[4], s[5], s[6]), s[7], C(s[9], s[8]), s[2]], [[0, 1], [2], [3], [4, 5, 6], [7], [9, 8], [2]]),
    }


def release():
    for o in S:
        o._parent = None


for lname in layouts():
    release()
    top, members = layouts()[lname]()
    for oname, obs in OBS.items():
        for field in "BHJM":
            f = getattr(magpy, "get" + field)
            res = run(f"{lname}|{oname}|{field}", f, top, obs, squeeze=False)
            run(f"{lname}|{oname}|{field}|sumup", f, top, obs, squeeze=False, sumup=True)
            if field in "BH":
                # reference: flat evaluation of all sources on an unrotated copy of the observers is
                # not available for rotated sensors, so compare on the level of the digest only there;
                # for plain positions the entry must be bitwise the np.sum over the member fields
                if oname == "pos":
                    flat = f([S[i] for m in members for i in m], obs, squeeze=False)
                    starts = np.cumsum([0] + [len(m) for m in members])
                    is_col = [not isinstance(top, list) or isinstance(top[i], magpy.Collection) for i in range(len(members))]
                    summed = len(flat) > len(members)  # the library sums only when something is to be merged
                    ref = np.stack([
                        np.sum(flat[a : a + len(m)], axis=0) if (c and summed) else flat[a]
                        for a, m, c in zip(starts, members, is_col)
                    ])
                    print("   bitwise equal to sum of members:", res.tobytes() == ref.tobytes(), res.flags["C_CONTIGUOUS"], res.dtype)
        run(f"{lname}|{oname}|B|agg", magpy.getB, top, obs, pixel_agg="mean")
        run(f"{lname}|{oname}|H|df", magpy.getH, top, obs, output="dataframe")
    release()
    top, members = layouts()[lname]()
    if isinstance(top, magpy.Collection):
        run(f"{lname}|method", top.getB, OBS["sens"])
    run(f"{lname}|sensor method", OBS["one"].getH, top if isinstance(top, list) else [top], sumup=True)
    print("   paths", [len(o._position) for o in S], [len(x._position) for x in OBS["sens"]])

print("== errors")
release()
s = S
run("empty col", magpy.getB, [s[0], C()], (1, 2, 3))
run("sensor-only col", magpy.getB, [C(magpy.Sensor()), s[0]], (1, 2, 3))
run("nested empty", magpy.getB, [s[0], C(C())], (1, 2, 3))
release()
run("missing field_func in col", magpy.getB, [s[0], C(s[1], magpy.misc.CustomSource())], (1, 2, 3))
release()
run("None field in col", magpy.getB, [C(s[1], magpy.misc.CustomSource(field_func=lambda field, observers: None)), s[0]], (1, 2, 3))
release()
run("list in list", magpy.getB, [s[0], [C(s[1], s[2])]], (1, 2, 3))
release()
run("uninit in col", magpy.getB, [C(s[1], magpy.magnet.Cuboid()), s[0]], (1, 2, 3))
release()
run("ragged pixels", magpy.getB, [C(s[1], s[2]), s[0]], [OBS["sens"][0], OBS["one"]])
print("   paths", [len(o._position) for o in S], [len(x._position) for x in OBS["sens"]])
