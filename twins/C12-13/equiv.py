import os, sys; sys.path.insert(0, os.getcwd())
import hashlib
import re
import warnings

import numpy as np

import magpylib as magpy
from magpylib._src.fields import field_BH_triangularmesh as mod
from magpylib._src.fields.field_BH_triangularmesh import get_intersecting_triangles
from magpylib._src.fields.field_BH_triangularmesh import segments_intersect_facets

np.set_printoptions(precision=10, linewidth=200)
assert os.path.abspath(mod.__file__).startswith(os.getcwd()), mod.__file__


def digest(tag, arr):
    arr = np.asarray(arr)
    dt = str(arr.dtype)
    raw = np.ascontiguousarray(arr.astype(float))
    h = hashlib.sha256(raw.tobytes()).hexdigest()[:16]
    print(tag, arr.shape, dt, h, np.array2string(raw.ravel()[:40], precision=6))


def attempt(tag, func):
    with warnings.catch_warnings(record=True) as rec:
        warnings.simplefilter("always")
        try:
            res = func()
            if isinstance(res, np.ndarray):
                digest(tag, res)
            else:
                print(tag, "->", re.sub(r"id=\d+", "id=N", repr(res)))
        except Exception as err:  # pylint: disable=broad-except
            print(tag, "EXC", type(err).__name__, re.sub(r"id=\d+", "id=N", str(err))[:200].replace("\n", " | "))
    for w in rec:
        print("   WARN", w.category.__name__, re.sub(r"id=\d+", "id=N", str(w.message))[:120])


rng = np.random.default_rng(4403)
tet_v = np.array([(0, 0, 0), (1, 0, 0), (0, 1, 0), (0, 0, 1)], dtype=float)
tet_f = np.array([(0, 2, 1), (0, 1, 3), (1, 2, 3), (0, 3, 2)])
cube_v = np.array(
    [(0, 0, 0), (1, 0, 0), (1, 1, 0), (0, 1, 0), (0, 0, 1), (1, 0, 1), (1, 1, 1), (0, 1, 1)], dtype=float
) - 0.5
cube_f = np.array(
    [(0, 2, 1), (0, 3, 2), (4, 5, 6), (4, 6, 7), (0, 1, 5), (0, 5, 4),
     (2, 3, 7), (2, 7, 6), (1, 2, 6), (1, 6, 5), (0, 4, 7), (0, 7, 3)]
)


def meshes(scale):
    out = {
        "tet": (tet_v, tet_f),
        "cube": (cube_v, cube_f),
        "cross": (np.concatenate([tet_v, tet_v + (0.2, 0.2, -0.5)]), np.concatenate([tet_f, tet_f + 4])),
        "cubes": (np.concatenate([cube_v, cube_v * 0.7 + (0.5, 0.4, 0.3)]), np.concatenate([cube_f, cube_f + 8])),
        "apart": (np.concatenate([cube_v, tet_v + (3, 0.2, -0.1)]), np.concatenate([cube_f, tet_f + 8])),
        "touch": (np.concatenate([tet_v, tet_v + (1, 0, 0)]), np.concatenate([tet_f, tet_f + 4])),
        "single": (tet_v, tet_f[:1]),
    }
    rv = rng.normal(size=(30, 3))
    rf = np.array([rng.choice(30, size=3, replace=False) for _ in range(25)])
    out["soup"] = (rv, rf)
    return {k: (v * scale, f) for k, (v, f) in out.items()}


# 1) self-intersection detection on whole meshes; the absolute eps is a parameter, scale it as well
for scale in (1.0, 1e-3, 1e3, 1e-9, 1e9):
    for name, (v, f) in meshes(scale).items():
        attempt(f"git {name} s={scale:g} default", lambda: get_intersecting_triangles(v, f))
        attempt(f"git {name} s={scale:g} eps*s", lambda: get_intersecting_triangles(v, f, eps=1e-6 * scale))
        attempt(f"git {name} s={scale:g} r", lambda: get_intersecting_triangles(v, f, r=0.8 * scale, eps=1e-6 * scale))
        attempt(f"git {name} s={scale:g} rf=3", lambda: get_intersecting_triangles(v, f, r_factor=3, eps=1e-7 * scale))
        attempt(f"git {name} s={scale:g} rf=1", lambda: get_intersecting_triangles(v, f, r_factor=1))

# 2) pairwise kernel directly: random segments against random facets
for scale in (1.0, 1e-6, 1e6):
    seg = rng.normal(size=(200, 2, 3)) * scale
    fac = rng.normal(size=(200, 3, 3)) * scale
    attempt(f"sif random s={scale:g}", lambda: segments_intersect_facets(seg, fac, eps=1e-6 * scale))
    attempt(f"sif random s={scale:g} default eps", lambda: segments_intersect_facets(seg, fac))
    attempt(f"sif 3-point segments s={scale:g}", lambda: segments_intersect_facets(fac[::-1], fac, eps=1e-6 * scale))
    attempt(f"sif f32 s={scale:g}", lambda: segments_intersect_facets(seg.astype(np.float32), fac.astype(np.float32), eps=1e-6 * scale))
tri = np.array([[(0, 0, 0), (1, 0, 0), (0, 1, 0)]], dtype=float)
cases = {
    "through": [(0.2, 0.2, -1), (0.2, 0.2, 1)],
    "miss": [(2, 2, -1), (2, 2, 1)],
    "above": [(0.2, 0.2, 0.5), (0.2, 0.2, 1)],
    "endpoint on plane": [(0.2, 0.2, 0), (0.2, 0.2, 1)],
    "through edge": [(0.5, 0, -1), (0.5, 0, 1)],
    "through corner": [(0, 0, -1), (0, 0, 1)],
    "in plane": [(-1, 0.2, 0), (2, 0.2, 0)],
    "zero length": [(0.2, 0.2, 0.3), (0.2, 0.2, 0.3)],
    "nan": [(np.nan, 0.2, -1), (0.2, 0.2, 1)],
}
for name, sg in cases.items():
    attempt(f"sif {name}", lambda: segments_intersect_facets(np.array([sg], dtype=float), tri))
attempt("sif degenerate facet", lambda: segments_intersect_facets(np.array([cases["through"]], dtype=float), np.zeros((1, 3, 3))))
attempt("sif empty", lambda: segments_intersect_facets(np.zeros((0, 2, 3)), np.zeros((0, 3, 3))))
attempt("sif broadcast 1 facet", lambda: segments_intersect_facets(rng.normal(size=(5, 2, 3)), tri))

# 3) error paths
seg = rng.normal(size=(6, 2, 3))
fac = rng.normal(size=(6, 3, 3))
attempt("err eps=0", lambda: segments_intersect_facets(seg, fac, eps=0))
attempt("err eps<0", lambda: segments_intersect_facets(seg, fac, eps=-1.0))
attempt("err eps nan", lambda: segments_intersect_facets(seg, fac, eps=np.nan))
attempt("err eps None", lambda: segments_intersect_facets(seg, fac, eps=None))
attempt("err eps array", lambda: segments_intersect_facets(seg, fac, eps=np.array([1e-6, 1e-6])))
attempt("err int input", lambda: segments_intersect_facets((seg * 5).astype(int), (fac * 5).astype(int)))
attempt("err seg (n,1,3)", lambda: segments_intersect_facets(seg[:, :1], fac))
attempt("err fac (n,2,3)", lambda: segments_intersect_facets(seg, fac[:, :2]))
attempt("err n mismatch", lambda: segments_intersect_facets(seg[:4], fac))
attempt("err seg (n,2,2)", lambda: segments_intersect_facets(seg[:, :, :2], fac))
attempt("err both bad", lambda: segments_intersect_facets(seg[:4, :1], fac[:, :2]))
attempt("err list", lambda: segments_intersect_facets(seg.tolist(), fac))
v, f = meshes(1.0)["cross"]
attempt("err r_factor<1", lambda: get_intersecting_triangles(v, f, r_factor=0.5))
attempt("err r_factor None", lambda: get_intersecting_triangles(v, f, r_factor=None))
attempt("err eps=0 outer", lambda: get_intersecting_triangles(v, f, eps=0))
attempt("err r=0", lambda: get_intersecting_triangles(v, f, r=0))
attempt("err r<0", lambda: get_intersecting_triangles(v, f, r=-1.0))
attempt("err vertices list", lambda: get_intersecting_triangles(v.tolist(), f))
attempt("err faces float", lambda: get_intersecting_triangles(v, f.astype(float)))
attempt("err faces out of range", lambda: get_intersecting_triangles(v, f + 5))
attempt("err no faces", lambda: get_intersecting_triangles(v, f[:0]))
attempt("err faces (n,2)", lambda: get_intersecting_triangles(v, f[:, :2]))
attempt("err faces (n,4)", lambda: get_intersecting_triangles(v, np.concatenate([f, f[:, :1]], axis=1)))
attempt("int vertices", lambda: get_intersecting_triangles((v * 10).astype(int), f))

# 4) object interface: status + data at several length units
for scale in (1e-3, 1.0, 1e3):
    for name in ("cross", "cubes", "apart", "cube"):
        v, f = meshes(scale)[name]
        def run():
            m = magpy.magnet.TriangularMesh(
                vertices=v, faces=f, polarization=(0.1, 0.2, 0.3),
                check_open="skip", check_disconnected="skip", reorient_faces="skip",
                check_selfintersecting="warn",
            )
            return (m.status_selfintersecting, m.status_selfintersecting_data.tolist())
        attempt(f"obj {name} s={scale:g}", run)
        attempt(f"obj raise {name} s={scale:g}", lambda: magpy.magnet.TriangularMesh(
            vertices=v, faces=f, polarization=(0.1, 0.2, 0.3), check_open="skip", check_disconnected="skip",
            reorient_faces="skip", check_selfintersecting="raise").getB((0.1 * scale, 0.2 * scale, 5 * scale)))
