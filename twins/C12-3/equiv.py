import os, sys; sys.path.insert(0, os.getcwd())
import hashlib
import warnings

import numpy as np

import magpylib as magpy
from magpylib._src.fields.field_BH_cylinder import BHJM_magnet_cylinder
from magpylib._src.fields.field_BH_cylinder import magnet_cylinder_diametral_Hfield

warnings.simplefilter("ignore")
np.set_printoptions(precision=10, linewidth=200)


def digest(tag, arr):
    arr = np.ascontiguousarray(np.asarray(arr, dtype=float))
    h = hashlib.sha256(arr.tobytes()).hexdigest()[:16]
    print(tag, arr.shape, h)
    print(np.array2string(arr.ravel()[:12], precision=10))


def attempt(tag, func):
    try:
        digest(tag, func())
    except Exception as err:  # pylint: disable=broad-except
        print(tag, "EXC", type(err).__name__, str(err)[:120].replace("\n", " | "))


rng = np.random.default_rng(123)

# cylinder: diameter 2 (r0=1), height 3 (z0=1.5)
special = np.array(
    [
        (0, 0, 0),  # centre (r=0)
        (0, 0, 1.0),  # on axis inside
        (0, 0, 4.0),  # on axis outside
        (0.01, 0.02, 0.3),  # small r
        (0.03, 0.0, 2.5),  # small r outside
        (1, 0, 0.2),  # on hull (r=r0 special case)
        (0, -1, 0.7),  # on hull
        (0.6, 0.8, 3.0),  # r=r0 outside in z
        (0.3, 0.2, 1.5),  # on top base
        (0.3, 0.2, -1.5),  # on bottom base
        (1, 0, 1.5),  # on edge
        (0, 1, -1.5),  # on edge
        (0.6, 0.8, 1.5),  # on edge (r only approx 1)
        (1 + 1e-15, 0, 1.5),
        (1, 0, 1.5 * (1 + 1e-15)),
        (1 + 1e-14, 0, 0.1),
        (1 - 1e-14, 0, 0.1),
        (3, 4, 5),
    ],
    dtype=float,
)
rand = rng.uniform(-2, 2, size=(22, 3))
obs0 = np.concatenate([special, rand])
n = len(obs0)
dim0 = np.tile((2.0, 3.0), (n, 1))
pol0 = rng.uniform(-1, 1, size=(n, 3))
pol0[1] = (0, 0, 1)  # purely axial
pol0[5] = (1, 0, 0)  # purely diametral
pol0[6] = (0, 0.5, 0)
pol0[8] = 0  # zero polarization
pol0[20] = (0, 0, -0.3)
pol0[21] = (0.2, -0.1, 0)

for scale in (1.0, 1e-9, 1e-3, 1e6, 1e9):
    for pscale in (1.0, 1e-12, 1e12):
        for field in "BHJM":
            attempt(
                f"cyl s={scale:g} p={pscale:g} {field}",
                lambda: BHJM_magnet_cylinder(
                    field=field,
                    observers=obs0 * scale,
                    dimension=dim0 * scale,
                    polarization=pol0 * pscale,
                ),
            )

# small instance count (scalar cel branch), only-axial, only-diametral, only-small-r
for field in "BHJM":
    attempt(f"cyl small-n {field}", lambda: BHJM_magnet_cylinder(field, obs0[:7], dim0[:7], pol0[:7]))
    pol_ax = pol0 * (0, 0, 1)
    pol_tv = pol0 * (1, 1, 0)
    attempt(f"cyl axial {field}", lambda: BHJM_magnet_cylinder(field, obs0, dim0, pol_ax))
    attempt(f"cyl diametral {field}", lambda: BHJM_magnet_cylinder(field, obs0, dim0, pol_tv))
    attempt(
        f"cyl small-r only {field}",
        lambda: BHJM_magnet_cylinder(field, obs0[[0, 1, 2, 3, 4]], dim0[:5], pol_tv[[5, 6, 21, 5, 6]]),
    )
    attempt(
        f"cyl empty {field}",
        lambda: BHJM_magnet_cylinder(field, np.zeros((0, 3)), np.zeros((0, 2)), np.zeros((0, 3))),
    )
    attempt(
        f"cyl int {field}",
        lambda: BHJM_magnet_cylinder(
            field,
            np.array([(0, 0, 0), (1, 0, 0), (1, 0, 1), (3, 3, 3)]),
            np.array([(2, 2)] * 4),
            np.array([(1, 2, 3), (0, 0, 1), (1, 0, 0), (1, 1, 1)]),
        ),
    )

# core function directly: mix of small r / general / r == 1
z0c = np.array([1.0, 2.0, 0.5, 1.5, 1.0, 3.0, 0.2, 1.0, 1.0, 2.0, 1.0, 0.7])
rc = np.array([1.0, 2.0, 0.01, 0.04, 1.0, 0.5, 1.0, 0.0499, 0.05, 7.0, 1.0, 0.9])
zc = np.array([2.0, 3.0, 0.1, -2.0, 0.0, 1.0, 0.3, 0.4, 0.4, -1.0, 5.0, 0.0])
phic = np.linspace(-3, 3, 12)
attempt("core diametral mixed", lambda: magnet_cylinder_diametral_Hfield(z0c, rc, zc, phic))
attempt("core diametral n<10", lambda: magnet_cylinder_diametral_Hfield(z0c[:6], rc[:6], zc[:6], phic[:6]))
gen = rc >= 0.05
attempt("core diametral general only", lambda: magnet_cylinder_diametral_Hfield(z0c[gen], rc[gen], zc[gen], phic[gen]))
attempt("core diametral small only", lambda: magnet_cylinder_diametral_Hfield(z0c[~gen], rc[~gen], zc[~gen], phic[~gen]))
attempt(
    "core diametral all r==1",
    lambda: magnet_cylinder_diametral_Hfield(np.ones(3), np.ones(3), np.array([0.5, 2.0, -1]), np.array([0.1, 0.2, 0.3])),
)

# error paths
attempt("err field", lambda: BHJM_magnet_cylinder("X", obs0, dim0, pol0))
attempt("err field None", lambda: BHJM_magnet_cylinder(None, obs0, dim0, pol0))
attempt("err shape dim", lambda: BHJM_magnet_cylinder("B", obs0[:5], dim0[:4], pol0[:5]))
for field in "BHJM":
    attempt(f"err shape pol {field}", lambda: BHJM_magnet_cylinder(field, obs0[:5], dim0[:5], pol0[:4]))
attempt("err dim cols", lambda: BHJM_magnet_cylinder("J", obs0, np.tile((1.0, 2.0, 3.0), (n, 1)), pol0))
attempt("err pol cols", lambda: BHJM_magnet_cylinder("B", obs0, dim0, pol0[:, :2]))
attempt("err core shapes", lambda: magnet_cylinder_diametral_Hfield(z0c, rc[:5], zc, phic))

# object interface at several length units
for scale in (1.0, 1e-9, 1e9):
    cyl = magpy.magnet.Cylinder(polarization=(0.1, -0.2, 0.3), dimension=np.array((2.0, 3.0)) * scale)
    cyl.rotate_from_angax(25, (1, 0, 2))
    grid = np.concatenate([rand[:8], [(0, 0, 0), (0.2, 0.1, 0.3)]]) * scale
    for func in (magpy.getB, magpy.getH, magpy.getJ, magpy.getM):
        attempt(f"obj {func.__name__} s={scale:g}", lambda: func(cyl, grid))
