import os, sys; sys.path.insert(0, os.getcwd())
import hashlib
import re
import warnings

import numpy as np

import magpylib as magpy
from magpylib._src.fields import field_BH_triangularmesh as tm

np.set_printoptions(precision=10, linewidth=200)


def clean(text):
    return re.sub(r"id=\d+", "id=N", str(text)).replace("\n", " | ")


def show(tag, res):
    if isinstance(res, np.ndarray):
        flags = (res.flags["C_CONTIGUOUS"], res.flags["F_CONTIGUOUS"], res.flags["OWNDATA"])
        h = hashlib.sha256(np.ascontiguousarray(res).tobytes()).hexdigest()[:16]
        print(tag, "ndarray", res.shape, res.dtype, flags, h, res.tolist() if res.size < 40 else "")
    else:
        print(tag, "->", type(res).__name__, clean(repr(res)))


def attempt(tag, func):
    with warnings.catch_warnings(record=True) as rec:
        warnings.simplefilter("always")
        try:
            show(tag, func())
        except Exception as err:  # pylint: disable=broad-except
            print(tag, "EXC", type(err).__name__, clean(err)[:400])
    for w in rec:
        print("   WARN", w.category.__name__, os.path.basename(w.filename), clean(w.message)[:400])


cube_v = (
    np.array(
        [(0, 0, 0), (1, 0, 0), (1, 1, 0), (0, 1, 0), (0, 0, 1), (1, 0, 1), (1, 1, 1), (0, 1, 1)],
        dtype=float,
    )
    - 0.5
)
cube_f = np.array(
    [
        (0, 2, 1), (0, 3, 2), (4, 5, 6), (4, 6, 7), (0, 1, 5), (0, 5, 4),
        (2, 3, 7), (2, 7, 6), (1, 2, 6), (1, 6, 5), (0, 4, 7), (0, 7, 3),
    ]
)
bad_f = cube_f.copy()
bad_f[[1, 4, 8, 11]] = bad_f[[1, 4, 8, 11]][:, [0, 2, 1]]
tet_v = np.array([(0, 0, 0), (1, 0, 0), (0, 1, 0), (0, 0, 1)], dtype=float)
tet_f = np.array([(0, 2, 1), (0, 1, 3), (1, 2, 3), (0, 3, 2)])
two_v = np.concatenate([cube_v, tet_v + (3, 0.2, -0.1)])
two_f = np.concatenate([bad_f, tet_f[:, [0, 2, 1]] + len(cube_v)])

obs = np.array([(0.1, 0.2, 0.3), (0.4, -0.4, 0.1), (2, 2, 2), (0.5, 0.5, 0.5), (3.1, 0.3, 0.0)])


def state(src):
    return (
        f"open={src.status_open} reoriented={src.status_reoriented} "
        f"disc={src.status_disconnected} selfint={src.status_selfintersecting} "
        f"open_data={None if src.status_open_data is None else src.status_open_data.tolist()} "
        f"faces={src.faces.tolist()}"
    )


MODES = (True, False, "warn", "raise", "ignore", "skip", 1, 0, 1.0)
BAD_MODES = ("Warn", "", None, 2, "skipp", (), b"warn")

print("== constructor: reorient_faces mode x check_open mode x mesh")
for mname, v, f in (("closed", cube_v, bad_f), ("open", cube_v, bad_f[:-1]), ("two", two_v, two_f)):
    for co in ("skip", "ignore", "warn", "raise"):
        for mode in MODES + BAD_MODES:

            def build():
                faces_in = f.copy()
                src = magpy.magnet.TriangularMesh(
                    vertices=v, faces=faces_in, polarization=(0.1, 0.2, -0.3),
                    check_open=co, reorient_faces=mode,
                    check_disconnected="ignore", check_selfintersecting="skip",
                )
                print("    ", state(src), "input kept:", np.array_equal(faces_in, f))
                return src.getB(obs)

            attempt(f"ctor {mname} check_open={co!r} reorient={mode!r}", build)

print("== method called later, repeatedly, return value")
for mname, v, f in (("closed", cube_v, bad_f), ("open", cube_v, bad_f[:-2])):
    for mode in MODES + BAD_MODES:

        def later():
            src = magpy.magnet.TriangularMesh(
                vertices=v, faces=f, polarization=(0.1, 0.2, -0.3),
                check_open="skip", reorient_faces="skip",
                check_disconnected="skip", check_selfintersecting="skip",
            )
            print("    before:", state(src))
            res = "unset"
            try:
                res = src.reorient_faces(mode)
            finally:
                print("    after: ", state(src), "returned", repr(res))
            res2 = src.reorient_faces(mode=mode)
            print("    again: ", state(src), "returned", repr(res2))
            return src.getH(obs)

        attempt(f"later {mname} mode={mode!r}", later)

print("== default mode argument, length units")
for scale in (1e-9, 1e-3, 1.0, 1e6):
    def dflt():
        src = magpy.magnet.TriangularMesh(
            vertices=two_v * scale, faces=two_f, polarization=(0.1, 0.2, -0.3),
            check_open="skip", reorient_faces="skip",
            check_disconnected="skip", check_selfintersecting="skip",
        )
        src.reorient_faces()
        print("    ", state(src))
        return src.getB(obs * scale)

    attempt(f"default {scale:g}", dflt)

print("== fix_trimesh_orientation directly")
attempt("fix cube", lambda: tm.fix_trimesh_orientation(cube_v, bad_f))
attempt("fix cube good", lambda: tm.fix_trimesh_orientation(cube_v, cube_f))
attempt("fix all flipped", lambda: tm.fix_trimesh_orientation(cube_v, cube_f[:, [0, 2, 1]]))
attempt("fix two", lambda: tm.fix_trimesh_orientation(two_v, two_f))
attempt("fix int32 F", lambda: tm.fix_trimesh_orientation(cube_v, np.asfortranarray(bad_f.astype(np.int32))))
attempt("fix uint8", lambda: tm.fix_trimesh_orientation(cube_v, bad_f.astype(np.uint8)))
attempt("fix empty", lambda: tm.fix_trimesh_orientation(cube_v, np.zeros((0, 3), dtype=int)))
res = tm.fix_trimesh_orientation(cube_v, cube_f)
print("result is a copy:", res is not cube_f, not np.shares_memory(res, cube_f))
attempt("E fix 4 columns good", lambda: tm.fix_trimesh_orientation(tet_v, np.c_[tet_f, tet_f[:, 0]]))
attempt("E fix 4 columns bad", lambda: tm.fix_trimesh_orientation(tet_v, np.c_[tet_f[:, [0, 2, 1]], tet_f[:, 0]]))
attempt("E fix 2 columns", lambda: tm.fix_trimesh_orientation(tet_v, tet_f[:, :2]))
attempt("E fix list faces", lambda: tm.fix_trimesh_orientation(tet_v, tet_f[:, [0, 2, 1]].tolist()))
attempt("E fix tuple faces", lambda: tm.fix_trimesh_orientation(tet_v, tuple(map(tuple, tet_f.tolist()))))
attempt("E fix None", lambda: tm.fix_trimesh_orientation(tet_v, None))
attempt("E fix int verts", lambda: tm.fix_trimesh_orientation((tet_v * 2).astype(int), tet_f))
attempt("E fix float faces", lambda: tm.fix_trimesh_orientation(tet_v, tet_f.astype(float)))
