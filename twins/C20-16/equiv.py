import os, sys; sys.path.insert(0, os.getcwd())
import hashlib
import re

import magpylib as magpy
from magpylib._src.defaults.defaults_utility import get_defaults_dict
from magpylib._src.defaults.defaults_utility import linearize_dict
from magpylib._src.defaults.defaults_utility import validate_style_keys
from magpylib._src.defaults.defaults_values import DEFAULTS
from magpylib._src.style import get_style


def run(label, func):
    try:
        res = func()
    except BaseException as e:  # deterministic digest of the error path
        msg = re.sub(r"id=\d+", "id=N", str(e))
        res = f"EXC {type(e).__name__}: {msg[:300]!r}"
    print(f"{label}: {res}")


def signature(d):
    """order, types and values of a nested structure"""
    if isinstance(d, dict):
        return ("dict", [(k, signature(v)) for k, v in d.items()])
    if isinstance(d, (list, tuple)):
        return (type(d).__name__, [signature(v) for v in d])
    return (type(d).__name__, repr(d))


def containers(d, acc):
    if isinstance(d, (dict, list)):
        acc.append(id(d))
        for v in d.values() if isinstance(d, dict) else d:
            containers(v, acc)
    return acc


def digest(obj):
    return hashlib.sha256(repr(obj).encode()).hexdigest()[:16]


def _msg(func):
    try:
        func()
    except ValueError as e:
        return e
    return None


# ---- the table itself --------------------------------------------------------
print("repr digest:", digest(DEFAULTS))
print("signature digest:", digest(signature(DEFAULTS)))
ids = containers(DEFAULTS, [])
print("containers / distinct containers:", len(ids), len(set(ids)))
flat = linearize_dict(DEFAULTS, separator=".")
print("number of leaves:", len(flat))
for k, v in flat.items():
    print("  ", k, "=", repr(v), type(v).__name__)

# ---- sub tables through get_defaults_dict --------------------------------------
for arg in (
    None,
    "display",
    "display.style",
    "display.style.magnet",
    "display.style.magnet.magnetization.arrow",
    "display.style.current.arrow",
    "display.style.triangle",
    "display.style.triangle.orientation",
    "display.style.triangularmesh.orientation",
    "display.style.triangularmesh.mesh",
    "display.style.triangularmesh.mesh.disconnected",
    "display.style.triangularmesh.mesh.disconnected.colorsequence",
    "display.style.markers",
    "display.style.nope",
    "display.style.magnet.magnetization.arrow.offset.x",
):
    run(f"get_defaults_dict({arg!r})", lambda: signature(get_defaults_dict(arg)))

# a returned dict is independent of the table and of a second result
d1 = get_defaults_dict("display.style")
d1["magnet"]["magnetization"]["arrow"]["offset"] = 99
d1["triangularmesh"]["mesh"]["grid"]["line"]["color"] = "pink"
d2 = get_defaults_dict("display.style")
print("independent:", d2["magnet"]["magnetization"]["arrow"]["offset"],
      d2["triangle"]["magnetization"]["arrow"]["offset"],
      d2["triangularmesh"]["mesh"]["grid"]["line"]["color"],
      d2["triangularmesh"]["mesh"]["disconnected"]["line"]["color"])

# the families do not share nested dictionaries: change one, the other stays
DEFAULTS["display"]["style"]["magnet"]["magnetization"]["arrow"]["width"] = 7
print("table aliasing:", DEFAULTS["display"]["style"]["triangle"]["magnetization"]["arrow"]["width"],
      DEFAULTS["display"]["style"]["current"]["arrow"]["width"])
DEFAULTS["display"]["style"]["magnet"]["magnetization"]["arrow"]["width"] = 2

# ---- valid style keys (derived from the table) -----------------------------------
run("validate ok", lambda: validate_style_keys({"magnetization_show": 1, "mesh_grid_show": 1, "orientation": 1, "arrow": 1, "pixel_size": 2, "marker": 1, "pivot": 1}))
run("validate bad", lambda: str(_msg(lambda: validate_style_keys({"offset": 1}))).split("\n")[0])


# ---- library defaults built from the table + reset ----------------------------------
def defaults_digest():
    return digest(sorted(magpy.defaults.as_dict(flatten=True, separator=".").items(), key=lambda kv: kv[0]))


print("library defaults:", defaults_digest())
for k, v in magpy.defaults.display.style.as_dict(flatten=True, separator="_").items():
    print("  ", k, "=", repr(v))
magpy.defaults.display.style.magnet.magnetization.arrow.offset = 0.3
magpy.defaults.display.style.triangularmesh.mesh.disconnected.colorsequence = ("r", "g")
magpy.defaults.display.style.triangularmesh.orientation.show = True
magpy.defaults.display.style.current.arrow.width = 5
print("changed:", defaults_digest())
magpy.defaults.reset()
print("after reset:", defaults_digest())

# ---- resolution for one object of every family ----------------------------------------
objs = [
    magpy.magnet.Cuboid(polarization=(0, 0, 1), dimension=(1, 1, 1)),
    magpy.current.Circle(current=1, diameter=1),
    magpy.current.Polyline(current=1, vertices=[(0, 0, 0), (1, 1, 1)]),
    magpy.Sensor(),
    magpy.misc.Dipole(moment=(1, 2, 3)),
    magpy.misc.Triangle(polarization=(0, 0, 1), vertices=[(0, 0, 0), (1, 0, 0), (0, 1, 0)]),
    magpy.magnet.TriangularMesh.from_ConvexHull(
        polarization=(0, 0, 1), points=[(0, 0, 0), (1, 0, 0), (0, 1, 0), (0, 0, 1)]
    ),
    magpy.misc.CustomSource(),
]
for obj in objs:
    st = get_style(obj, magpy.defaults, style_color="r")
    items = st.as_dict(flatten=True, separator="_")
    print(type(obj).__name__, digest(sorted((k, repr(v)) for k, v in items.items() if k != "label")))
    for k, v in items.items():
        if k.startswith(("magnetization", "arrow", "orientation", "mesh")):
            print("    ", k, "=", repr(v))
