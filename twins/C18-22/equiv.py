import os, sys; sys.path.insert(0, os.getcwd())

# Exercises the `orientation` getter and setter (also through copy(orientation=...)):
# plain objects, empty and nested collections (children rotate about the collection
# position after the old collection orientation is rotated away), paths of different
# lengths, None, rejected inputs and the state they leave behind.
import warnings

import numpy as np
from scipy.spatial.transform import Rotation as R

import magpylib as magpy

warnings.simplefilter("ignore")


def r(a):
    return (np.round(np.asarray(a, dtype=float), 9) + 0.0).tolist()


def state(o):
    out = [type(o).__name__, r(o._position), r(o._orientation.as_quat())]
    if isinstance(o, magpy.Collection):
        out.append([state(c) for c in o.children])
    return out


def attempt(label, func):
    try:
        res = func()
        print(label, "->", res)
    except BaseException as err:  # noqa
        print(label, "-> raised", type(err).__name__, "|", str(err).replace("\n", " / "))


def make_tree():
    s1 = magpy.magnet.Cuboid(
        polarization=(0, 0, 1), dimension=(1, 2, 3), position=[(1, 0, 0), (2, 0, 0), (3, 0, 0)]
    )
    s2 = magpy.current.Circle(current=2, diameter=1.5, position=(0, 1, 0))
    s2.rotate_from_angax([10, 20], "x", start=0)
    x1 = magpy.Sensor(pixel=[(0, 0, 0), (0, 0, 0.1)], position=(0, 0, 2))
    inner = magpy.Collection(s2, x1, position=(0.5, 0.5, 0.5))
    inner.rotate_from_angax(30, "z")
    outer = magpy.Collection(s1, inner, position=[(0, 0, 0), (0, 0, 1)])
    outer.rotate_from_angax(15, "y", anchor=None)
    return outer, inner, s1, s2, x1


ORIS = {
    "None": None,
    "single": R.from_rotvec((0.1, 0.2, 0.3)),
    "len1": R.from_rotvec([(0.1, 0.2, 0.3)]),
    "len2": R.from_rotvec([(0.1, 0, 0), (0.2, 0, 0)]),
    "len5": R.from_rotvec([(0, 0, 0.1 * k) for k in range(1, 6)]),
}

# getter: a single rotation for paths of length 1, the whole path otherwise
for name, ori in ORIS.items():
    obj = magpy.Sensor(orientation=ori)
    got = obj.orientation
    print("get", name, got.single, r(got.as_quat()), got is obj._orientation)

# setter on an object without children: padding / slicing of the position path
src = magpy.magnet.Sphere(polarization=(0, 0, 1), diameter=1, position=[(1, 0, 0), (2, 0, 0), (3, 0, 0)])
for name, ori in ORIS.items():
    src.orientation = ori
    print("set", name, state(src), src.orientation.single)
for bad in [1, (0, 0, 0, 1), "z", [R.from_rotvec((0, 0, 1))], np.eye(3)]:
    before = state(src)
    attempt(f"set bad {type(bad).__name__}", lambda: setattr(src, "orientation", bad))
    print("   unchanged", state(src) == before)
attempt("init bad", lambda: magpy.Sensor(orientation=(0, 0, 0, 1)))

# setter on collections
for name, ori in ORIS.items():
    outer, inner, s1, s2, x1 = make_tree()
    outer.orientation = ori
    print("coll set", name, state(outer))
    print("   B", r(outer.getB()))
    inner.orientation = ori
    print("inner set", name, state(outer))
    print("   B", r(outer.getB()))
    outer.orientation = None
    inner.orientation = None
    print("back to unit", name, state(outer))
outer, inner, s1, s2, x1 = make_tree()
before = state(outer)
for bad in [1, "z", (0, 0, 0, 1)]:
    attempt(f"coll set bad {type(bad).__name__}", lambda: setattr(outer, "orientation", bad))
    print("   unchanged", state(outer) == before)
empty = magpy.Collection(position=[(1, 1, 1), (2, 2, 2), (3, 3, 3)])
empty.orientation = ORIS["len2"]
print("empty coll", state(empty))

# copy with orientation override: only the copy (and its subtree) turns
outer, inner, s1, s2, x1 = make_tree()
before = state(outer)
for name, ori in ORIS.items():
    cp = outer.copy(orientation=ori)
    print("copy coll", name, state(cp), cp._parent, state(outer) == before)
    print("   links", all(c._parent is cp for c in cp.children), all(c._parent is cp[1] for c in cp[1].children))
    cp2 = inner.copy(orientation=ori)
    print("copy inner", name, state(cp2), cp2._parent, state(outer) == before)
    cp3 = s2.copy(orientation=ori)
    print("copy src", name, state(cp3), cp3._parent, state(outer) == before)
    cp3.orientation = R.from_rotvec((1, 0, 0))
    cp.orientation = R.from_rotvec((0, 1, 0))
    cp2.rotate_from_angax(45, "x")
    print("   later change invisible", state(outer) == before)
attempt("copy bad orientation", lambda: outer.copy(orientation="z"))
print("after rejected copy", len(outer.children), state(outer) == before)
attempt("reset_path", lambda: state(make_tree()[0].reset_path()))
