import os, sys; sys.path.insert(0, os.getcwd())
import hashlib
import re
import types
import warnings

import numpy as np
from scipy.spatial.transform import Rotation as R

import magpylib as magpy
from magpylib._src.utility import check_static_sensor_orient
from magpylib._src.utility import format_src_inputs

warnings.simplefilter("ignore")


def dig(name, arr):
    arr = np.ascontiguousarray(np.asarray(arr, dtype=float))
    h = hashlib.sha256(arr.tobytes()).hexdigest()[:16]
    print(name, arr.shape, h, np.round(arr.ravel()[:4], 12).tolist())


def attempt(name, func, *args, **kwargs):
    try:
        res = func(*args, **kwargs)
        print(name, "ok", res)
    except Exception as err:  # pylint: disable=broad-except
        msg = re.sub(r"id=\d+|0x[0-9a-fA-F]+", "ID", str(err).replace("\n", " "))
        print(name, type(err).__name__, msg[:70], "...", msg[-60:])


pix = [(0, 0, 0), (0.1, 0.2, 0.3)]


def make_sensors():
    s_static = magpy.Sensor(pixel=pix, position=(2, 2, 2))
    s_static_rot = magpy.Sensor(pixel=pix, position=(-2, 1, 1))
    s_static_rot.rotate_from_angax(70, (1, 1, 0))
    s_transl = magpy.Sensor(pixel=pix, position=(1, -2, 1))
    s_transl.rotate_from_angax(25, "y")
    s_transl.move([(0, 0, 0.1 * i) for i in range(1, 4)])
    s_unit_path = magpy.Sensor(pixel=pix, position=(0, 0, 4))
    s_unit_path.move([(0.1, 0, 0), (0.2, 0, 0)])
    s_rotpath = magpy.Sensor(pixel=pix, position=(1, 1, -3))
    s_rotpath.rotate_from_angax([10, 20, 30], "z")
    s_last_differs = magpy.Sensor(pixel=pix, position=(3, 1, 0))
    s_last_differs.move([(0, 0, 0.1)] * 3)
    s_last_differs.rotate_from_angax(1e-6, "x", start=-1)
    s_first_differs = magpy.Sensor(pixel=pix, position=(3, 1, 1))
    s_first_differs.rotate_from_angax([0, 40, 40, 40], "x", start=0)
    s_back = magpy.Sensor(pixel=pix, position=(3, 3, 0))  # returns to the first orientation
    s_back.rotate_from_angax([30, -30], "z")
    s_two = magpy.Sensor(pixel=pix, position=[(1, 2, 3), (1, 2, 4)])
    return [
        s_static,
        s_static_rot,
        s_transl,
        s_unit_path,
        s_rotpath,
        s_last_differs,
        s_first_differs,
        s_back,
        s_two,
    ]


def make_sources():
    cub = magpy.magnet.Cuboid(polarization=(0.1, 0.2, 0.3), dimension=(1, 2, 3))
    cub.move([(0.1 * i, 0, 0) for i in range(1, 4)])
    cyl = magpy.magnet.Cylinder(
        polarization=(0.3, 0.2, 0.1), dimension=(1, 2), position=(0, 3, 0)
    )
    circ = magpy.current.Circle(current=2.5, diameter=1.5, position=(0, 0, -2))
    circ.rotate_from_angax([5, 7], "x", start=1)
    dip = magpy.misc.Dipole(moment=(1, 2, 3), position=(0, -3, 0))
    return cub, cyl, circ, dip


sens = make_sensors()
cub, cyl, circ, dip = make_sources()

# 1) static-orientation classification: joint, one by one, permuted, container kinds
res = check_static_sensor_orient(sens)
print("static", res, [type(v).__name__ for v in res], type(res).__name__)
print("single", [check_static_sensor_orient([s]) for s in sens])
perm = [4, 0, 4, 8, 2, 6, 1]
print("perm", check_static_sensor_orient([sens[i] for i in perm]))
print("tuple", check_static_sensor_orient(tuple(sens[:3])))
print("gen", check_static_sensor_orient(s for s in sens[3:6]))
print("empty", check_static_sensor_orient([]))

# stand-ins: NaN quaternions never compare equal, zero-length paths fail on rot[0]
ns = types.SimpleNamespace
nanrot = ns(as_quat=lambda: np.full((2, 4), np.nan))
attempt("nan_path", check_static_sensor_orient, [ns(_position=[0, 0], orientation=nanrot)])
attempt("nan_static", check_static_sensor_orient, [ns(_position=[0], orientation=None)])
emptyrot = ns(as_quat=lambda: np.zeros((0, 4)))
attempt("len0", check_static_sensor_orient, [ns(_position=[], orientation=emptyrot)])
attempt("no_attr", check_static_sensor_orient, [sens[0], ns()])
attempt("not_iterable", check_static_sensor_orient, 7)
attempt("partial", check_static_sensor_orient, [sens[4], ns(_position=[1, 2], orientation=None)])

# 2) format_src_inputs: bare source, lists, tuples, collections, nested collections, duplicates
inner = magpy.Collection(circ, dip)
outer = magpy.Collection(cyl, inner, sens[0])
only_sens = magpy.Collection(magpy.Sensor())


def show(name, inp):
    try:
        sources, src_list = format_src_inputs(inp)
        print(
            name,
            type(sources).__name__,
            [type(s).__name__ for s in sources],
            [type(s).__name__ for s in src_list],
            sources is inp,
        )
    except Exception as err:  # pylint: disable=broad-except
        msg = re.sub(r"id=\d+|0x[0-9a-fA-F]+", "ID", str(err).replace("\n", " "))
        print(name, type(err).__name__, msg[:40], "...", msg[-70:])


show("bare", cub)
show("bare_coll", outer)
show("list", [cub, outer, cub])
show("tuple", (outer, cub, outer))
show("empty_list", [])
show("empty_tuple", ())
show("none", None)
show("number_in_list", [cub, 1, cyl])
show("sensor_in_list", [cub, sens[0]])
show("sensor_bare", sens[0])
show("coll_without_sources", [cub, only_sens])
show("empty_coll", magpy.Collection())
show("nested_list", [cub, [cub]])
show("string_in_list", [cub, "Cuboid"])
show("array", np.array([1.0, 2.0]))

# 3) through the field interface: every sensor kind, collections, permutation, element-wise
srcs = [outer, cub, dip]
for name, func in (("B", magpy.getB), ("H", magpy.getH)):
    out = func(srcs, sens, squeeze=False)
    dig(name + "_all", out)
    for k, sn in enumerate(sens):
        one = func(srcs, sn, squeeze=False)
        m = one.shape[1]
        print(" alone", k, bool(np.all(one[:, :, 0] == out[:, :m, k])))
dig("B_perm", magpy.getB([cub, outer, cub, dip], [sens[i] for i in perm], squeeze=False))
dig("B_sumup", magpy.getB(srcs, sens[4:7], sumup=True, squeeze=False))
dig("B_small", magpy.getB(dip, sens[0], squeeze=False))
dig("B_method", cub.getB(sens[5], sens[6]))
dig("B_sens_method", sens[7].getB(cub, outer))

for name, kw in (
    ("e_number", dict(sources=[cub, 1])),
    ("e_empty", dict(sources=[])),
    ("e_sensor", dict(sources=sens[0])),
    ("e_coll_no_src", dict(sources=[only_sens])),
):
    try:
        magpy.getB(observers=sens, **kw)
        print(name, "no error")
    except Exception as err:  # pylint: disable=broad-except
        msg = re.sub(r"id=\d+|0x[0-9a-fA-F]+", "ID", str(err).replace("\n", " "))
        print(name, type(err).__name__, msg[:40], "...", msg[-70:])

print([len(o._position) for o in [cub, cyl, circ, dip, inner, outer] + sens])
