import os, sys; sys.path.insert(0, os.getcwd())
import hashlib
import re

import numpy as np

import magpylib as magpy
from magpylib._src.defaults.defaults_utility import color_validator
from magpylib._src.style import get_style


def run(label, func):
    try:
        res = func()
        res = (type(res).__name__, repr(res))
    except BaseException as e:
        msg = re.sub(r"id=\d+", "id=N", str(e))
        res = f"EXC {type(e).__name__}: len={len(msg)} sha={hashlib.sha256(msg.encode()).hexdigest()[:12]} {msg[:110]!r}"
    print(f"{label}: {res}")


INPUTS = [
    None, "red", "r", "k", "w", "Blue", " light blue ", "LIGHTBLUE", "notacolor", "", " ",
    "#fff", "#FFF", "#ffffff", "#AbCdEf", "#ffff", "#fffffff", "#ggg", "fff", "#12345", "#ffffff ", "# f f f",
    "#fff\n", "#١٢٣", "＃fff", "#FFFFFF00",
    "rgb(1,2,3)", "RGB(1, 2, 3)", "rgb(255,255,255)", "rgb(300,2,3)", "rgb(-1,2,3)", "rgb(1,2)", "rgb(1,2,3,4)",
    "rgb(1.5,2,3)", "rgb(a,b,c)", "rgb()", "rgb", "rgba(1,2,3)", "rgb[1,2,3]", "rgb(1,2,3", "rgb( 1 , 2 , 3 )",
    0, 1, 0.5, 1.0, 0.0, -0.5, 1.5, 2, True, False, "0.5", ".5", "1", "1e-1", " 0.5 ", "nan", "inf", float("nan"),
    np.float64(0.3), np.int64(1),
    (1, 2, 3), (255, 0, 128), (1, 2, 3, 4), (0.1, 0.2, 0.3), (0.1, 0.2, 0.3, 0.4), (1.0, 1.0, 1.0), (0.0, 0.0, 0.0),
    (1, 2.0, 3), (1, 2), (), (1,), (1, 2, 3, 4, 5), (-1, 2, 3), (256, 2, 3), (True, False, True), (2.0, 0.5, 0.5),
    (-0.1, 0.5, 0.5), (float("nan"), 0.1, 0.1), (float("inf"), 0.1, 0.1), ("a", "b", "c"), ("1", "2", "3"),
    (None, None, None), (np.float64(0.5), 0.5, 0.5), (np.int64(1), 2, 3), ((1, 2, 3),), ("red",),
    1j, b"red", len, frozenset([1]),
]

for i, v in enumerate(INPUTS):
    run(f"cv[{i}] {v!r}", lambda v=v: color_validator(v))
    run(f"cv[{i}] noNone", lambda v=v: color_validator(v, allow_None=False, parent_name="Parent"))

# the same inputs without the cache in front (1 == 1.0 == True share a cache entry)
for i, v in enumerate(INPUTS):
    run(f"raw[{i}]", lambda v=v: color_validator.__wrapped__(v, False, "P"))
run("raw list", lambda: color_validator.__wrapped__([0.5, 0.5, 0.5]))
run("raw list4", lambda: color_validator.__wrapped__([1, 2, 3, 0.5]))
run("raw list bad", lambda: color_validator.__wrapped__([1, 2, "3"]))

# unhashable inputs never reach the body (lru_cache)
run("list", lambda: color_validator([1, 2, 3]))
run("dict", lambda: color_validator({}))
run("kw", lambda: color_validator(color_input="#abc", allow_None=False))
print("cache api:", hasattr(color_validator, "cache_info"), hasattr(color_validator, "__wrapped__"))

# every kind of color leaf, every notation
run("base", lambda: magpy.magnet.Cuboid(polarization=(0, 0, 1), dimension=(1, 1, 1), style_color=(1, 2, 3)).style.color)
run("base_bad", lambda: magpy.magnet.Cuboid(polarization=(0, 0, 1), dimension=(1, 1, 1), style_color=(1, 2)).style.color)
run("magn", lambda: magpy.magnet.Cuboid(polarization=(0, 0, 1), dimension=(1, 1, 1), style={"magnetization": {"color": {"north": "rgb(1,2,3)", "south": 0.5, "middle": "#FFF"}}}).style.magnetization.color)
run("magn_bad", lambda: magpy.magnet.Cuboid(polarization=(0, 0, 1), dimension=(1, 1, 1), style_magnetization_color_north="rgb(1,2)").style)
s = magpy.Sensor()
s.style.pixel.color = (0.5, 0.5, 0.5)
s.style.arrows.x.color = "m"
run("sensor", lambda: (s.style.pixel.color, s.style.arrows.x.color))
run("sensor_bad", lambda: setattr(s.style.pixel, "color", "#gggggg"))
run("sensor_keep", lambda: s.style.pixel.color)
run("line", lambda: magpy.current.Polyline(current=1, vertices=((0, 0, 0), (1, 1, 1)), style_line_color="y", style_arrow_color=(9, 9, 9, 9)).style)
run("colorsequence", lambda: magpy.defaults.display.update(colorsequence=["r", "#fff", (1, 2, 3), 0.5]).colorsequence)
run("colorsequence_bad", lambda: magpy.defaults.display.update(colorsequence=["r", None]))
run("defaults", lambda: magpy.defaults.display.style.update(base_color="g", magnet_magnetization_color_south=(0.0, 1.0, 0.0)).base.color)
cube = magpy.magnet.Cuboid(polarization=(0, 0, 1), dimension=(1, 1, 1))
run("resolved", lambda: (get_style(cube, magpy.defaults).color, get_style(cube, magpy.defaults, style_color="rgb(4,5,6)").color, get_style(cube, magpy.defaults).magnetization.color.south))
run("resolved_bad", lambda: get_style(cube, magpy.defaults, style_color="rgb(4,5)"))
magpy.defaults.reset()
run("reset", lambda: (magpy.defaults.display.style.base.color, magpy.defaults.display.style.magnet.magnetization.color.south, magpy.defaults.display.colorsequence[:3]))
