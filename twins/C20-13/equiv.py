import os, sys; sys.path.insert(0, os.getcwd())
import re

import magpylib as magpy
from magpylib._src.defaults.defaults_utility import MagicProperties
from magpylib._src.style import BaseStyle, Line, MagnetStyle, Path, SensorStyle, Trace3d


def run(label, func):
    try:
        res = func()
    except BaseException as e:  # deterministic digest of the error path
        msg = re.sub(r"id=\d+", "id=N", str(e))[:300]
        res = f"EXC {type(e).__name__}: {msg!r}"
    print(f"{label}: {res}")


def flat(obj):
    d = obj.as_dict(flatten=True, separator="_")
    return type(obj).__name__, [(k, d[k]) for k in sorted(d) if not (d[k] is None or d[k] == [])]


LOG = []


class Logged(MagicProperties):
    """records the order in which the setters are called"""

    @property
    def beta(self):
        return self._beta

    @beta.setter
    def beta(self, val):
        LOG.append(("beta", val))
        assert val != "bad", "bad beta"
        self._beta = val

    @property
    def alpha(self):
        return self._alpha

    @alpha.setter
    def alpha(self, val):
        LOG.append(("alpha", val))
        self._alpha = val

    @property
    def sub(self):
        return self._sub

    @sub.setter
    def sub(self, val):
        LOG.append(("sub", val if not isinstance(val, MagicProperties) else val.as_dict()))
        self._sub = Line(**val) if isinstance(val, dict) else Line() if val is None else val

    not_a_property = 5

    def method(self):
        return None


def log():
    res = list(LOG)
    LOG.clear()
    return res


# ---- property names, constructor -------------------------------------------
lg = Logged()
print("init order:", log())
names = lg._property_names_generator()
print("names:", list(names), "| exhausted:", list(names))
print("iter is self:", (lambda it: iter(it) is it)(lg._property_names_generator()))
for cls in (BaseStyle, MagnetStyle, SensorStyle, Path, Trace3d, type(magpy.defaults), type(magpy.defaults.display)):
    print(cls.__name__, list(cls()._property_names_generator()))
run("init kwargs", lambda: (Logged(alpha=1, sub_width=2, sub={"color": "r"}).as_dict(), log()))
run("init magic merges", lambda: (Logged(sub_width=2, sub_color="g").as_dict(), log()))
run("init bad name", lambda: Logged(gamma=1))
print("   log:", log())
run("init bad value", lambda: Logged(alpha=1, beta="bad"))
print("   log:", log())
run("frozen", lambda: setattr(lg, "gamma", 1))
run("private attribute of frozen", lambda: setattr(lg, "_gamma", 1))
run("existing private attribute", lambda: (setattr(lg, "_alpha", 7), lg.alpha)[1])
run("class attribute", lambda: (setattr(lg, "not_a_property", 6), lg.not_a_property)[1])
run("repr", lambda: repr(lg))

# ---- update -----------------------------------------------------------------
lg = Logged(alpha=0)
log()
run("update dict", lambda: (lg.update({"alpha": 1, "sub": {"width": 3}}) is lg, lg.as_dict(), log()))
run("update kwargs magic", lambda: (lg.update(sub_color="r", beta=2).as_dict(), log()))
d = {"alpha": 5, "sub_width": 1}
run("update dict + kwargs, kwargs win", lambda: (lg.update(d, alpha=6, sub_style="solid").as_dict(), log()))
print("   caller dict untouched:", d)
run("update nothing", lambda: (lg.update().as_dict(), log()))
run("update None", lambda: (lg.update(None).as_dict(), log()))
run("update unknown name", lambda: lg.update(gamma=1))
print("   log, state:", log(), lg.as_dict())
run("update unknown nested name", lambda: lg.update(sub_gamma=1))
print("   log, state:", log(), lg.as_dict())
run("update unknown name, no match required", lambda: (lg.update(gamma=1, alpha=9, _match_properties=False).as_dict(), log()))
run("update bad value: earlier setters already applied", lambda: lg.update(alpha=10, beta="bad", sub_width=9))
print("   log, state:", log(), lg.as_dict())
run("replace None only", lambda: (lg.update(alpha=11, beta=12, sub_width=13, sub_color="b", _replace_None_only=True).as_dict(), log()))
lg2 = Logged()
log()
run("replace None only on empty", lambda: (lg2.update({"alpha": 1, "sub": {"width": 1}}, _replace_None_only=True).as_dict(), log()))
run("arg not a dict", lambda: lg.update(5))
run("arg list", lambda: lg.update([("alpha", 1)]))
run("arg MagicProperties", lambda: lg.update(Logged(alpha=3)))
log()
run("non str key", lambda: lg.update({1: 2}))
run("positional flags", lambda: (lg.update({"gamma": 1, "alpha": 20}, False, True).as_dict(), log()))
run("Line instance as value", lambda: (lg.update(sub=Line(width=4)).as_dict(), log()))

# ---- styles of objects, defaults, reset -------------------------------------
st = MagnetStyle()
run("style update", lambda: flat(st.update({"color": "r", "magnetization": {"show": False}}, magnetization_color_north="g", path_line_width=2)))
run("style update last wins", lambda: flat(st.update(color="b").update({"color": "y"})))
run("style update invalid", lambda: st.update(colour="b"))
run("style update invalid value", lambda: st.update(opacity=2, color="k"))
print("   state:", flat(st))
cp = st.copy()
cp.update(color="w", path_line_width=7)
print("copy independent:", flat(st)[1][:2], flat(cp)[1][:2], type(cp).__name__)
s1 = magpy.Sensor(style_size=3, style={"pixel_size": 2})
s2 = s1.copy(style_arrows_x_color="r")
s1.style.update(size=4)
print("objects:", flat(s1.style)[1], flat(s2.style)[1])
run("object bad init", lambda: magpy.Sensor(style_nope=1).style)

magpy.defaults.display.style.magnet.update(magnetization_show=False, magnetization_color={"north": "k"})
magpy.defaults.display.update(backend="plotly", animation_fps=11, style_base_color="g")
magpy.defaults.update({"display": {"autosizefactor": 3}}, display_animation_slider=False)
dd = magpy.defaults.display
print("defaults:", dd.backend, dd.animation.fps, dd.style.base.color, dd.autosizefactor, dd.animation.slider, dd.style.magnet.magnetization.color.north)
run("defaults bad", lambda: magpy.defaults.update(display_nope=1))
run("defaults bad value", lambda: magpy.defaults.update(display_animation_fps=-1))
before = flat(magpy.defaults)
magpy.defaults.reset()
after = flat(magpy.defaults)
print("reset changed", len([1 for a, b in zip(before[1], after[1]) if a != b]), "leaves;", dd is not magpy.defaults.display)
dd = magpy.defaults.display
print("defaults after reset:", dd.backend, dd.animation.fps, dd.style.base.color, dd.autosizefactor, dd.animation.slider, dd.style.magnet.magnetization.color.north)
print(len(after[1]), after[1][:12])
