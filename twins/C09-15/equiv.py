import os, sys; sys.path.insert(0, os.getcwd())
# Equivalence digest for twins3/5 (BaseGeo._init_position_orientation split into
# a module-level formatting phase and an assignment phase).
import warnings

import numpy as np
from scipy.spatial.transform import Rotation as R

import magpylib as magpy
from magpylib._src.obj_classes.class_BaseGeo import BaseGeo

warnings.simplefilter("ignore")


def dig(a):
    return (np.round(np.asarray(a, dtype=float), 9) + 0.0).tolist()


def state(obj):
    pos, ori = obj._position, obj._orientation
    return (
        dig(pos), str(pos.dtype), pos.shape, pos.flags.writeable,
        dig(ori.as_quat()), len(ori), type(ori).__name__,
    )


def tree_state(obj):
    out = [state(obj)]
    for child in getattr(obj, "children", []):
        out.extend(tree_state(child))
    return out


def show(tag, fn):
    try:
        print(tag, "->", fn())
    except BaseException as err:  # pylint: disable=broad-except
        print(tag, "-> EXC", type(err).__name__, repr(str(err))[:220], type(err.__cause__).__name__)


def empty_rotation():
    return R.from_quat(np.zeros((0, 4)))


POSITIONS = {
    "default": "DEFAULT",
    "t3": (1, 2, 3), "l3": [1.5, -2, 3], "a3": np.array([1, 2, 3]), "a3f": np.array([1.0, 2.0, 3.0]),
    "l13": [(1, 2, 3)], "l23": [(1, 2, 3), (4, 5, 6)], "a43": np.arange(12.0).reshape(4, 3),
    "a43T": np.arange(12.0).reshape(3, 4).T, "a43i": np.arange(12).reshape(4, 3),
    "e03": np.zeros((0, 3)), "e": [], "t2": (1, 2), "l32": [(1, 2)] * 3, "a223": np.zeros((2, 2, 3)),
    "None": None, "0": 0, "str": "abc", "lstr": ["a", "b", "c"], "ragged": [(1, 2, 3), (1, 2)],
    "nan": (np.nan, 1, 2), "inf": [(np.inf, 0, 0)] * 2, "bool": (True, False, True), "set": {1, 2, 3},
    "rot": R.from_rotvec((0, 0, 1)), "a0d": np.array(1.0),
}
ORIENTATIONS = {
    "default": "DEFAULT",
    "None": None,
    "scalar": lambda: R.from_rotvec((0.1, -0.2, 0.3)),
    "one": lambda: R.from_rotvec([(0.1, -0.2, 0.3)]),
    "two": lambda: R.from_euler("xy", [(10, 20), (30, 40)], degrees=True),
    "four": lambda: R.from_rotvec([(0, 0, 0.25), (0, 0.5, 0), (0.75, 0, 0.1), (1, 1, 1)]),
    "five": lambda: R.from_rotvec([(0, 0, 0.1 * k) for k in range(5)]),
    "empty": empty_rotation,
    "tuple": (0, 0, 0, 1), "array": np.array([(0, 0, 0, 1.0)] * 2), "int": 1, "str": "x", "list": [None],
}


def kwargs(pk, ok):
    kw = {}
    if pk != "default":
        kw["position"] = POSITIONS[pk]
    if ok != "default":
        ori = ORIENTATIONS[ok]
        kw["orientation"] = ori() if callable(ori) else ori
    return kw


# 1) init of plain objects: every position form x every orientation form
for pk in POSITIONS:
    for ok in ORIENTATIONS:
        show(f"Sensor pos={pk} ori={ok}", lambda: state(magpy.Sensor(**kwargs(pk, ok))))
for pk in ("default", "t3", "l23", "a43", "e03", "t2", "None"):
    for ok in ("default", "None", "scalar", "two", "five", "empty", "tuple"):
        show(f"BaseGeo pos={pk} ori={ok}", lambda: state(BaseGeo(**kwargs(pk, ok))))
        show(f"BaseGeo positional pos={pk} ori={ok}", lambda: state(BaseGeo(
            *[v for v in (kwargs(pk, ok).get("position", (0.0, 0.0, 0.0)),
                          kwargs(pk, ok).get("orientation"))])))
        show(f"Cuboid pos={pk} ori={ok}", lambda: state(magpy.magnet.Cuboid(
            polarization=(0, 0, 1), dimension=(1, 2, 3), **kwargs(pk, ok))))
        show(f"Circle pos={pk} ori={ok}", lambda: state(magpy.current.Circle(
            current=1, diameter=2, **kwargs(pk, ok))))
        show(f"Collection pos={pk} ori={ok}", lambda: tree_state(magpy.Collection(
            magpy.Sensor(position=[(1, 1, 1)] * 3), magpy.Collection(magpy.Sensor()),
            **kwargs(pk, ok))))

# 2) getters right after init, equal path lengths
for pk in ("default", "t3", "l13", "l23", "a43"):
    for ok in ("default", "scalar", "one", "two", "five"):
        s = magpy.Sensor(**kwargs(pk, ok))
        o = s.orientation
        print(f"getters pos={pk} ori={ok}", dig(s.position), s.position.shape,
              dig(o.as_quat()), o.single, len(s._position) == len(s._orientation))

# 3) no aliasing between the inputs and the stored path
for pk in ("a3f", "a43", "a43T"):
    for ok in ("scalar", "two", "five"):
        pos_in = POSITIONS[pk].copy()
        rot_in = ORIENTATIONS[ok]()
        rot_q = rot_in.as_quat().copy()
        s = magpy.Sensor(position=pos_in, orientation=rot_in)
        print(f"alias pos={pk} ori={ok}", s._position is pos_in,
              np.shares_memory(s._position, pos_in), s._orientation is rot_in)
        s.move((1, 1, 1)).rotate_from_angax(45, "z", anchor=0)
        print("    inputs untouched", np.array_equal(pos_in, POSITIONS[pk]),
              np.array_equal(rot_in.as_quat(), rot_q), state(s))
        pos_in[...] = 99.0
        print("    object untouched", state(s))

# 4) __init__ called again on an existing object (also with rejected input)
s = magpy.Sensor(position=[(1, 2, 3)] * 3, orientation=R.from_rotvec([(0, 0, 0.1)] * 3))
before = state(s)
for tag, kw in {
    "bad pos": dict(position=(1, 2)),
    "bad ori": dict(orientation=(0, 0, 0, 1)),
    "bad both": dict(position="abc", orientation="x"),
    "empty pos": dict(position=np.zeros((0, 3))),
    "empty ori": dict(position=[(1, 2, 3)] * 2, orientation=empty_rotation()),
}.items():
    show(f"re-init {tag}", lambda kw=kw: s.__init__(**kw))
    print("    unchanged", state(s) == before)
show("re-init direct method bad", lambda: s._init_position_orientation((1, 2, 3, 4), None))
print("    unchanged", state(s) == before)
show("re-init direct method", lambda: s._init_position_orientation([(0, 0, 1)], R.from_rotvec([(0, 1, 0)] * 2)))
print("   ", state(s))
show("re-init good", lambda: s.__init__(position=(9, 9, 9)))
print("   ", state(s))

# 5) objects built with paths keep following the path semantics afterwards
s = magpy.Sensor(position=[(1, 2, 3), (4, 5, 6)], orientation=R.from_rotvec([(0, 0, 0.1 * k) for k in range(4)]))
print("seq0", state(s))
s.move([(1, 0, 0)] * 2, start=-1)
print("seq1", state(s))
s.rotate_from_angax([10, 20], "x", anchor=0, start=-7)
print("seq2", state(s))
s.position = [(0, 0, 0)] * 2
print("seq3", state(s))
s.orientation = None
print("seq4", state(s))
c = s.copy(position=[(1, 1, 1)] * 3)
print("copy", state(c), state(s))
col = magpy.Collection(s, c, position=[(1, 0, 0)] * 2, orientation=R.from_rotvec([(0, 0, 1)] * 3))
col.rotate_from_angax(90, "z")
print("col", tree_state(col))
print("doc", BaseGeo._init_position_orientation.__name__, callable(BaseGeo._init_position_orientation))
