import os, sys; sys.path.insert(0, os.getcwd())

# Exercises the keyword overrides of BaseGeo.copy and BaseGeo._process_style_kwargs
# (constructor style / style_* arguments and copy(style..., attr..., parent=...)).
import re

import numpy as np
from scipy.spatial.transform import Rotation as R

import magpylib as magpy
from magpylib._src.obj_classes.class_BaseGeo import BaseGeo


def clean(txt):
    return re.sub(r"id=\d+", "id=#", str(txt))


def r(a):
    return np.round(np.asarray(a, dtype=float), 10).tolist()


class Loud:
    """value that records when it is deep-copied"""

    log = []

    def __init__(self, name, fail=False):
        self.name, self.fail = name, fail

    def __deepcopy__(self, memo):
        Loud.log.append(self.name)
        if self.fail:
            raise RuntimeError("no copy of " + self.name)
        return Loud(self.name + "'")

    def __repr__(self):
        return f"Loud({self.name})"


print("== _process_style_kwargs")
d_in = {"color": "r", "path": {"line": {"width": 2}}}
nested = {"line": {"style": "--"}}
calls = [
    dict(),
    dict(style=None),
    dict(style={}),
    dict(style=d_in),
    dict(style_color="g"),
    dict(style=d_in, style_color="g", style_path_line_width=5),
    dict(style=None, style_path=nested, style_label="L"),
    dict(style_="empty key"),
    dict(style_a=Loud("a"), style_b=Loud("b")),
    dict(style={"x": Loud("s")}, style_a=Loud("a")),
    dict(stylecolor="g"),
    dict(style_color="g", color="b", style_label="never"),
    dict(style_a=Loud("a"), bad=1, style_b=Loud("b")),
    dict(style_a=Loud("a", fail=True), bad=1),
    dict(bad=1, style_a=Loud("a", fail=True)),
    dict(style=Loud("st", fail=True), bad=1),
    dict(style=magpy.Sensor().style, style_label="obj"),
    dict(style="text", style_label="obj"),
]
for kw in calls:
    Loud.log.clear()
    try:
        out = BaseGeo._process_style_kwargs(**kw)
        alias = [out is kw.get("style")]
        if isinstance(out, dict):
            alias += [out.get(k) is v for k, v in (kw.get("style") or {}).items()
                      if isinstance(v, (dict, Loud))] if isinstance(kw.get("style"), dict) else []
            alias += [out.get(k[6:]) is v for k, v in kw.items() if isinstance(v, (dict, Loud))]
        res = (clean(out), alias)
    except Exception as e:
        res = (type(e).__name__, str(e))
    print(sorted(kw), "->", res, Loud.log)
print(d_in, nested)

print("== constructor")
for kw in (dict(style_label="a", style_color="r"), dict(style={"label": "b"}, style_opacity=0.3),
           dict(stylelabel="x"), dict(foo=3), dict(style_label="a", foo=3)):
    try:
        s = magpy.Sensor(**kw)
        print(sorted(kw), s._style_kwargs, s.style.label, s.style.color, s.style.opacity)
    except Exception as e:
        print(sorted(kw), type(e).__name__, e)

print("== copy overrides")
src = magpy.magnet.Cuboid(polarization=(0.1, 0.2, 0.3), dimension=(1, 2, 3),
                          position=(1, 1, 1), style_label="orig", style_color="blue")
par = magpy.Collection(src, style_label="par")
other = magpy.Collection(style_label="other")
rot = R.from_euler("z", 30, degrees=True)
pathstyle = {"line": {"width": 3}}
cases = [
    dict(),
    dict(position=(2, 6, 10)),
    dict(position=[(1, 2, 3), (4, 5, 6)], orientation=rot),
    dict(orientation=rot, position=[(1, 2, 3), (4, 5, 6)]),
    dict(polarization=(1, 0, 0), dimension=(3, 3, 3)),
    dict(style_label="new"),
    dict(style={"color": "red"}),
    dict(style={"color": "red"}, style_label="both", style_opacity=0.1),
    dict(style_label="first", position=(9, 9, 9), style_color="g", dimension=(2, 2, 2)),
    dict(style_path=pathstyle, style_path_line_style=":"),
    dict(parent=other),
    dict(parent=None, style_label="free", position=(3, 3, 3)),
    dict(parent=other, position=(7, 7, 7), style_label="joined"),
    # error paths
    dict(stylelabel="x"),
    dict(style_label="x", stylecolor="g"),
    dict(style_nope=1),
    dict(style_color="nocolor"),
    dict(dimension=(1, 2)),
    dict(position=(1, 2)),
    dict(position=(5, 5, 5), dimension="bad", style_label="later"),
    dict(parent="bad"),
    dict(parent=other, dimension=(-1, 1)),
    dict(parent=other, style_nope=1),
    dict(parent=other, stylenope=1, position=(1, 2)),
    dict(style_label="x", position=(1, 2), stylebad=3),
    dict(not_an_attribute_but_settable=5),
]
for kw in cases:
    n_other = len(other)
    try:
        c = src.copy(**kw)
        res = [
            r(c._position), r(c._orientation.as_quat()), r(c.polarization), r(c.dimension),
            c.style.label, c.style.color, c.style.opacity, c.style.path.line.width,
            c.style.path.line.style,
            None if c.parent is None else c.parent.style.label,
            getattr(c, "not_an_attribute_but_settable", "-"),
        ]
        if c.parent is not None:
            c.parent.remove(c)
    except Exception as e:
        res = [type(e).__name__, clean(e).split("\n")[0]]
    # the original is never touched
    orig = [r(src._position), r(src._orientation.as_quat()), r(src.polarization), r(src.dimension),
            src.style.label, src.style.color, src.style.opacity, src.style.path.line.width,
            src.parent is par, len(par), len(other) == n_other, len(other),
            hasattr(src, "not_an_attribute_but_settable")]
    print(list(kw), "->", res)
    print("    orig", orig)
print(pathstyle)

print("== override values are not shared with the copy")
st = {"path": {"line": {"width": 1}}}
c = src.copy(style=st)
st["path"]["line"]["width"] = 9
print(c.style.path.line.width, st)
pos = np.array([(1.0, 2.0, 3.0), (4.0, 5.0, 6.0)])
c = src.copy(position=pos)
pos[0, 0] = 100
print(r(c.position))

print("== collection copy with overrides")
col = magpy.Collection(magpy.Sensor(style_label="s"), magpy.Collection(style_label="sub"), style_label="col")
cc = col.copy(position=(1, 1, 1), style_label="cc", children=[magpy.Sensor(style_label="only")])
print([ch.style.label for ch in cc.children], [ch.style.label for ch in col.children], r(col.position),
      r(cc.position), cc.style.label, col.style.label)
cc = col.copy(sensors=[], style_color="r")
print([ch.style.label for ch in cc.children], [ch.style.label for ch in col.children], col.style.color)
