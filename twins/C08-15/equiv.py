import os, sys; sys.path.insert(0, os.getcwd())
# Twin3-5: getBH_level2 - observer positions per sensor (helper, hoisted pixel read) and
#          summation over collection children (helper with guard clause)
import hashlib
import re
import warnings

import numpy as np
from scipy.spatial.transform import Rotation as R

import magpylib as magpy

warnings.simplefilter("ignore")


def h(a):
    a = np.ascontiguousarray(a)
    return hashlib.sha1(a.tobytes()).hexdigest()[:12] + str(a.shape)


def clean(msg):
    msg = re.sub(r"0x[0-9a-f]+", "0x?", re.sub(r"id=\d+", "id=?", str(msg)))
    return msg.replace("\n", " | ")[:140]


def snap(objs):
    return [
        (
            h(o._position),
            h(o._orientation.as_quat()),
            None if getattr(o, "_pixel", None) is None else h(o._pixel),
            None if getattr(o, "_pixel", None) is None else id(o._pixel),
            None if o._parent is None else id(o._parent),
            [id(c) for c in getattr(o, "_children", [])],
        )
        for o in objs
    ]


def run(tag, fn, objs, extra=None):
    before = snap(objs)
    orients = [o._orientation for o in objs]
    for rep in range(2):
        try:
            res = fn()
            print(f"{tag}[{rep}] -> {h(res)} {np.round(np.ravel(res)[:3], 10).tolist()}")
        except Exception as err:  # pylint: disable=broad-except
            ctx = type(err.__context__).__name__ if err.__context__ is not None else None
            print(f"{tag}[{rep}] raised {type(err).__name__} ctx={ctx} :: {clean(err)}")
        if extra is not None:
            print("   ", extra())
        print(
            "   state-same=%s orient-identity=%s lens=%s"
            % (
                before == snap(objs),
                all(o._orientation is r for o, r in zip(objs, orients)),
                [(len(o._position), len(o._orientation)) for o in objs][:6],
            )
        )


# ---------------------------------------------------------------- observer positions
# a custom source at the origin with unit orientation sees the observer positions as they were built
seen = []


def probe(field, observers):
    seen.append((field, h(observers), observers.dtype.str, observers.flags.writeable))
    return observers * 1.0


def drain():
    out = list(seen)
    seen.clear()
    return out


probe_src = magpy.misc.CustomSource(field_func=probe)
drain()


def sensors():
    out = {}
    out["no pixel static"] = magpy.Sensor(position=(1, 2, 3))
    out["no pixel rotated"] = magpy.Sensor(position=(1, 2, 3)).rotate_from_angax(33, (1, 2, 3))
    out["no pixel path"] = magpy.Sensor().move([(1, 0, 0), (2, 0, 0), (3, 0, 1)])
    out["no pixel rot path"] = magpy.Sensor(position=(0, 0, 1)).rotate_from_angax([10, 20, 30], "x", anchor=0)
    out["pixel (3,)"] = magpy.Sensor(pixel=(0.1, 0.2, 0.3), position=(1, 2, 3)).rotate_from_angax(70, "y")
    out["pixel (0,0,0)"] = magpy.Sensor(pixel=(0, 0, 0), position=(1, 2, 3)).rotate_from_angax([5, 6], "y")
    s = magpy.Sensor(pixel=[(0.1, 0.2, 0.3), (0, 0, 0), (-1, 2, 5)], position=(1, 2, 3))
    out["pixel (3,3) rot path"] = s.rotate_from_angax(np.linspace(0, 300, 4), (1, 1, 0), anchor=(0, 1, 0), start=0)
    pix = np.arange(2 * 4 * 3, dtype=float).reshape(2, 4, 3) / 7
    out["pixel (2,4,3) move"] = magpy.Sensor(pixel=pix, orientation=R.from_euler("xyz", (10, 20, 30), degrees=True)).move(
        [(0.5, 0, 0)] * 2
    )
    out["pixel (1,1,1,3)"] = magpy.Sensor(pixel=[[[(1, 2, 3)]]], handedness="left")
    out["int pixel"] = magpy.Sensor(pixel=np.array([(1, 2, 3), (4, 5, 6)]), position=(1, 0, 0))
    return out


sd = sensors()
for tag, s in sd.items():
    run(f"probe one sensor: {tag}", lambda: probe_src.getB(s), [probe_src, s], extra=drain)
for fld in "BH":
    run(f"probe get{fld} all sensors mean", lambda: getattr(magpy, "get" + fld)(
        probe_src, list(sd.values()), pixel_agg="mean"), [probe_src, *sd.values()], extra=drain)
grp = [sd["no pixel static"], sd["pixel (3,)"], sd["no pixel rot path"], sd["pixel (0,0,0)"]]
run("probe same-shape group", lambda: magpy.getB(probe_src, grp), [probe_src, *grp], extra=drain)
run("probe same sensor twice", lambda: magpy.getB(probe_src, [grp[2], grp[2]]), [probe_src, *grp], extra=drain)
run("probe pos_vec", lambda: magpy.getB(probe_src, [(1, 2, 3), (4, 5, 6)]), [probe_src], extra=drain)
run("probe pos_vec grid", lambda: magpy.getB(probe_src, np.ones((2, 2, 2, 3))), [probe_src], extra=drain)
moving = magpy.misc.CustomSource(field_func=probe, position=[(0, 0, 0), (1, 1, 1), (2, 2, 2), (3, 3, 3), (4, 4, 4)])
run("probe moving source / short sensor paths", lambda: magpy.getB(moving, [grp[0], grp[2], grp[3]]),
    [moving, *grp], extra=drain)
userpix = np.array([(0.1, 0.2, 0.3), (1, 2, 3.0)])
before = h(userpix)
su = magpy.Sensor(pixel=userpix)
run("user pixel array", lambda: magpy.getB(probe_src, su), [probe_src, su], extra=drain)
print("user pixel array unchanged:", before == h(userpix), "sensor holds copy:", su._pixel is not userpix)

# inconsistent private state: zip() of orientation and position truncates
for with_pixel in (False, True):
    s = magpy.Sensor(position=[(0, 0, 0), (1, 1, 1), (2, 2, 2)], pixel=[(1, 2, 3), (4, 5, 6)] if with_pixel else None)
    s._orientation = R.from_quat([(0, 0, 0, 1)] * 2)
    run(f"inconsistent sensor pixel={with_pixel}", lambda: magpy.getB(probe_src, s), [probe_src, s], extra=drain)
    s2 = magpy.Sensor(position=[(0, 0, 0), (1, 1, 1)], pixel=[(1, 2, 3), (4, 5, 6)] if with_pixel else None)
    s2._orientation = R.from_quat([(0, 0, 0, 1)] * 3)
    run(f"inconsistent sensor (long orient) pixel={with_pixel}", lambda: magpy.getB(probe_src, s2), [probe_src, s2], extra=drain)
    s3 = magpy.Sensor(pixel=[(1, 2, 3), (4, 5, 6)] if with_pixel else None)
    s3._orientation = R.from_quat((0, 0, 0, 1))  # single rotation, not a path
    run(f"single rotation sensor pixel={with_pixel}", lambda: magpy.getB(probe_src, s3), [probe_src], extra=drain)
sbad = magpy.Sensor()
sbad._pixel = np.ones((2, 2))
run("corrupt pixel shape", lambda: magpy.getB(probe_src, [grp[2], sbad], pixel_agg="mean"), [probe_src, sbad, grp[2]], extra=drain)

# ---------------------------------------------------------------- summation over collections
print("== collections")


def make():
    cub = magpy.magnet.Cuboid(polarization=(0.1, 0.2, 0.3), dimension=(1, 2, 3))
    cub.rotate_from_angax([10, 20, 30], (1, 2, 3))
    cyl = magpy.magnet.Cylinder(polarization=(0.3, 0.2, 0.1), dimension=(1, 2), position=(1, 1, 1))
    loop = magpy.current.Circle(current=3, diameter=2, position=(0, 0, -2))
    dip = magpy.misc.Dipole(moment=(1, 2, 3), position=(3, 3, 3))
    sph = magpy.magnet.Sphere(polarization=(1, 2, 3), diameter=1, position=(-3, 0, 0))
    line = magpy.current.Polyline(current=1, vertices=[(0, 0, 0), (1, 1, 1), (2, 0, 0)], position=(0, 4, 0))
    return cub, cyl, loop, dip, sph, line


cub, cyl, loop, dip, sph, line = make()
c2 = magpy.Collection(loop, cyl)
c1 = magpy.Collection(dip)
c3 = magpy.Collection(sph, magpy.Collection(line, magpy.Sensor(position=(9, 9, 9))))
c3.move([(0.1, 0, 0), (0.2, 0, 0)])
sens = magpy.Sensor(pixel=[(0, 0, 0), (0.1, 0.2, 0.3)], position=(2, 2, 2)).rotate_from_angax([10, 20, 30, 40], "z")
objs = [cub, cyl, loop, dip, sph, line, c1, c2, c3, sens]
layouts = {
    "[c2]": [c2],
    "[c1]": [c1],
    "[c1, c1]": [c1, c1],
    "[cub, c2]": [cub, c2],
    "[c2, cub]": [c2, cub],
    "[c1, c2]": [c1, c2],
    "[c2, c1, c3]": [c2, c1, c3],
    "[cub, c2, cub, c3, c1, cub]": [cub, c2, cub, c3, c1, cub],
    "[c2, c2]": [c2, c2],
    "[c3, loop, cyl]": [c3, loop, cyl],
    "bare c3": c3,
    "tuple (c2, c3)": (c2, c3),
}
for name, srcs in layouts.items():
    for field in "BHJM":
        f = getattr(magpy, "get" + field)
        run(f"{name} get{field}", lambda: f(srcs, sens), objs)
    run(f"{name} getB sumup squeeze=False", lambda: magpy.getB(srcs, sens, sumup=True, squeeze=False), objs)
    run(f"{name} getH pixel_agg", lambda: magpy.getH(srcs, [sens, (1, 2, 3)], pixel_agg="mean"), objs)
# collection row equals the sum of the child rows computed in the same call order
Bc = magpy.getB([cub, c2, c3], sens)
Bs = magpy.getB([cub, loop, cyl, sph, line], sens)
print("c2 row == loop+cyl:", np.array_equal(Bc[1], Bs[1] + Bs[2]), " c3 row == sph+line:", np.array_equal(Bc[2], Bs[3] + Bs[4]))
run("c2.getB", lambda: c2.getB(sens), objs)
run("sens.getH(c3, cub)", lambda: sens.getH(c3, cub), objs)

# failures around the touched blocks
calls = {"n": 0}


def flaky(field, observers):
    calls["n"] += 1
    if calls["n"] > 2:  # two trial calls at construction
        raise RuntimeError(f"flaky call {calls['n']}")
    return observers * 1.0


bad = magpy.misc.CustomSource(field_func=flaky)
cbad = magpy.Collection(cyl.copy(), bad)
run("collection with failing custom source", lambda: magpy.getB([cub, cbad, c2], sens), objs + [bad, cbad])
nof = magpy.misc.CustomSource()
cnof = magpy.Collection(loop.copy(), nof)
run("collection with undefined field_func", lambda: magpy.getH([c2, cnof], sens), objs + [nof, cnof])
onlyB = magpy.misc.CustomSource(field_func=lambda field, observers: observers * 2.0 if field == "B" else None)
conlyB = magpy.Collection(onlyB, dip.copy())
run("collection B ok", lambda: magpy.getB([conlyB, cub], sens), objs + [onlyB, conlyB])
run("collection H unsupported", lambda: magpy.getH([conlyB, cub], sens), objs + [onlyB, conlyB])
run("empty collection", lambda: magpy.getB([c2, magpy.Collection()], sens), objs)
