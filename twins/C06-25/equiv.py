import os, sys; sys.path.insert(0, os.getcwd())
import hashlib
import re
import warnings

import numpy as np

import magpylib as magpy
from magpylib._src.fields import field_BH_triangularmesh as tm
from magpylib._src.fields.field_BH_triangularmesh import BHJM_magnet_trimesh

warnings.simplefilter("ignore")
np.seterr(all="ignore")


def dig(name, arr):
    arr0 = np.asarray(arr)
    arr = np.ascontiguousarray(np.asarray(arr, dtype=float))
    h = hashlib.sha256(arr.tobytes()).hexdigest()[:16]
    print(name, arr.shape, arr0.dtype, h, np.round(arr.ravel()[:6], 12).tolist())


def attempt(name, func, *args, **kwargs):
    try:
        dig(name, func(*args, **kwargs))
    except Exception as err:  # pylint: disable=broad-except
        msg = re.sub(r"id=\d+|0x[0-9a-fA-F]+", "ID", str(err).replace("\n", " "))
        print(name, type(err).__name__, msg[:60])


def mesh_of(src):
    return np.array(src.mesh, dtype=float)


def objarr(items):
    out = np.empty(len(items), dtype=object)
    for i, m in enumerate(items):
        out[i] = m
    return out


tetra = magpy.magnet.TriangularMesh(
    polarization=(0, 0, 1),
    vertices=[(0, 0, 0), (1, 0, 0), (0, 1, 0), (0, 0, 1)],
    faces=[(0, 2, 1), (0, 1, 3), (0, 3, 2), (1, 2, 3)],
    reorient_faces=True,
)
corners = np.array([(x, y, z) for x in (-0.5, 0.5) for y in (-0.5, 0.5) for z in (-0.5, 0.5)])
cube = magpy.magnet.TriangularMesh.from_ConvexHull(polarization=(1, 0, 0), points=corners)
cube2 = magpy.magnet.TriangularMesh.from_ConvexHull(polarization=(0, 1, 0), points=corners * 2.0)
m_t, m_c, m_c2 = mesh_of(tetra), mesh_of(cube), mesh_of(cube2)
m_c_perm = m_c[::-1].copy()  # same body, faces listed in another order: NOT an equal mesh
print("faces", m_t.shape, m_c.shape, m_c2.shape)

obs = np.array(
    [
        (0.1, 0.1, 0.1),  # inside all
        (0.2, 0.2, 0.7),  # inside big cube only
        (3.0, 1.0, 2.0),  # outside
        (0.45, -0.45, 0.3),  # inside cubes
        (0.0, 0.0, 0.0),  # corner of tetra / centre of cubes
        (-0.9, 0.9, 0.9),  # inside big cube
        (5.0, 5.0, 5.0),
        (0.25, 0.25, 0.25),
        (0.3, 0.3, 0.3),
        (0.2, 0.1, 0.1),
    ]
)
n = len(obs)
pol = np.array([(0.1 * i, 0.2, -0.1 * i + 0.3) for i in range(1, n + 1)])

# calls of the inside test: which rows were handed over together, with which mesh
calls = []
orig_mask = tm.mask_inside_trimesh


def spy(points, faces):
    res = orig_mask(points, faces)
    calls.append((len(points), faces.shape[0], int(res.sum())))
    return res


# uniform (4D array): runs c c | c2 c2 c2 | c | c_perm | c2 c2 | c
mesh_u = np.array([m_c, m_c, m_c2, m_c2, m_c2, m_c, m_c_perm, m_c2, m_c2, m_c])
# ragged (object array): t | c c | t t | c2 | t | c | c_perm | t
mesh_r = objarr([m_t, m_c, m_c, m_t, m_t, m_c2, m_t, m_c, m_c_perm, m_t])
# equal face counts but different bodies next to each other, NaN mesh (never equal to itself)
m_nan = m_c.copy()
m_nan[0, 0, 0] = np.nan
mesh_n = np.array([m_c, m_nan, m_nan, m_c, m_c])

tm.mask_inside_trimesh = spy
for label, mesh in (("uni", mesh_u), ("rag", mesh_r), ("nan", mesh_n)):
    k = len(mesh)
    for field in "BHJM":
        for in_out in ("auto", "inside", "outside"):
            calls.clear()
            attempt(f"{label}_{field}_{in_out}", BHJM_magnet_trimesh, field, obs[:k], mesh, pol[:k], in_out)
            print("   inside-test calls (rows, faces, hits):", calls)
tm.mask_inside_trimesh = orig_mask

# each row depends on its own mesh / observer / polarization only; order and duplicates
for label, mesh in (("uni", mesh_u), ("rag", mesh_r)):
    full = BHJM_magnet_trimesh("B", obs, mesh, pol)
    single = []
    for i in range(n):
        mm = mesh[i : i + 1] if mesh.ndim != 1 else objarr([mesh[i]])
        single.append(BHJM_magnet_trimesh("B", obs[i : i + 1], mm, pol[i : i + 1])[0])
    print(label, "rows alone close to joint", np.allclose(np.array(single), full, rtol=1e-10, atol=1e-15, equal_nan=True))
    for name, idx in (("reversed", list(range(n))[::-1]), ("perm", [3, 9, 0, 5, 1, 7, 2, 8, 4, 6]), ("dups", [1, 1, 2, 1, 5, 5])):
        sub = BHJM_magnet_trimesh("B", obs[idx], mesh[idx], pol[idx])
        print(label, name, "close to rows of joint", np.allclose(sub, full[idx], rtol=1e-10, atol=1e-15, equal_nan=True))
        dig(f"{label}-{name}", sub)
    for fld in "JM":
        fj = BHJM_magnet_trimesh(fld, obs, mesh, pol)
        idx = [3, 9, 0, 5, 1, 7, 2, 8, 4, 6]
        print(label, fld, "perm exact", np.array_equal(BHJM_magnet_trimesh(fld, obs[idx], mesh[idx], pol[idx]), fj[idx]))

# smallest cases; inputs are left untouched
attempt("one-row-uni", BHJM_magnet_trimesh, "B", obs[:1], mesh_u[:1], pol[:1])
attempt("one-row-rag", BHJM_magnet_trimesh, "J", obs[:1], objarr([m_t]), pol[:1])
attempt("two-rows-equal", BHJM_magnet_trimesh, "J", obs[:2], mesh_u[:2], pol[:2])
attempt("two-rows-different", BHJM_magnet_trimesh, "J", obs[1:3], mesh_u[1:3], pol[1:3])
attempt("zero-rows-J", BHJM_magnet_trimesh, "J", obs[:0], mesh_u[:0], pol[:0])
attempt("zero-rows-B", BHJM_magnet_trimesh, "B", obs[:0], mesh_u[:0], pol[:0])
attempt("zero-rows-B-rag", BHJM_magnet_trimesh, "B", obs[:0], mesh_r[:0], pol[:0])
o, p, m = obs.copy(), pol.copy(), mesh_u.copy()
BHJM_magnet_trimesh("B", o, m, p)
print("inputs untouched", np.array_equal(o, obs), np.array_equal(p, pol), np.array_equal(m, mesh_u))
attempt("int-pol-J", BHJM_magnet_trimesh, "J", obs[:3], mesh_u[:3], np.array([[1, 2, 3]] * 3))
attempt("fortran", BHJM_magnet_trimesh, "B", np.asfortranarray(obs), np.asfortranarray(mesh_u), np.asfortranarray(pol))

# error / corner paths
attempt("err-field-X", BHJM_magnet_trimesh, "X", obs, mesh_u, pol)
attempt("err-field-int", BHJM_magnet_trimesh, 1, obs, mesh_u, pol)
attempt("in_out-other", BHJM_magnet_trimesh, "J", obs, mesh_u, pol, in_out="x")
attempt("err-more-observers-than-meshes-J", BHJM_magnet_trimesh, "J", obs, mesh_u[:4], pol)
attempt("err-more-observers-than-meshes-J-rag", BHJM_magnet_trimesh, "J", obs, mesh_r[:4], pol)
attempt("fewer-observers-than-meshes-J", BHJM_magnet_trimesh, "J", obs[:4], mesh_u, pol[:4])
attempt("err-pol-short", BHJM_magnet_trimesh, "J", obs, mesh_u, pol[:4])
attempt("err-pol-short-B", BHJM_magnet_trimesh, "B", obs, mesh_u, pol[:4])
attempt("err-mesh-0d", BHJM_magnet_trimesh, "B", obs, np.array(1.0), pol)
attempt("err-mesh-list-J", BHJM_magnet_trimesh, "J", obs[:2], [m_c, m_t], pol[:2])
attempt("err-mesh-bad-faces", BHJM_magnet_trimesh, "J", obs[:2], objarr([m_c, np.zeros((4, 2, 3))]), pol[:2])
attempt("err-mesh-bad-first", BHJM_magnet_trimesh, "J", obs[:3], objarr([np.zeros((4, 2, 3)), m_c, m_c]), pol[:3])
attempt("err-obs-2comp", BHJM_magnet_trimesh, "J", obs[:2, :2], mesh_u[:2], pol[:2])

# through the object oriented interface (paths + pixels + several meshes, repeated objects)
tetra.position = [(0, 0, 0), (0.1, 0, 0), (0.2, 0, 0)]
cube2.rotate_from_angax([10, 20, 30, 40], "z")
sens = magpy.Sensor(pixel=[(0.1, 0.1, 0.1), (2, 2, 2)], position=(0.05, 0.05, 0.05))
sens2 = magpy.Sensor(pixel=[(0.2, 0.2, 0.2), (0.3, 0.1, 0.1)], position=[(0, 0, 0), (0.3, 0, 0)])
srcs = [tetra, cube, cube2, cube, tetra, magpy.magnet.Sphere(polarization=(1, 1, 1), diameter=0.5)]
for field in "BHJM":
    for in_out in ("auto", "inside", "outside"):
        out = getattr(magpy, "get" + field)(srcs, [sens, sens2], squeeze=False, in_out=in_out)
        dig(f"oo_{field}_{in_out}", out)
    out = getattr(magpy, "get" + field)(srcs, [sens, sens2], squeeze=False)
    ok = True
    for l, s in enumerate(srcs):
        alone = getattr(magpy, "get" + field)(s, [sens, sens2], squeeze=False)[0]
        m_ = len(alone)
        ok = ok and np.allclose(out[l, :m_], alone, rtol=1e-9, atol=1e-13) and all(
            np.allclose(step, alone[-1], rtol=1e-9, atol=1e-13) for step in out[l, m_:]
        )
    print("  each source alone equals joint", ok)
dig("oo-sumup", magpy.getB(srcs, [sens, sens2], sumup=True))
dig("oo-collection", magpy.getJ(magpy.Collection(tetra, cube), [sens, sens2]))
attempt("dict-J", magpy.getJ, "TriangularMesh", obs, mesh=m_c, polarization=(1, 2, 3))
