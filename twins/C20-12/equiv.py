import os, sys; sys.path.insert(0, os.getcwd())
import re

import numpy as np

import magpylib as magpy
from magpylib._src.defaults.defaults_utility import color_validator
from magpylib._src.style import BaseStyle, Line, MagnetizationColor


def run(label, func):
    try:
        res = func()
        res = f"{type(res).__name__} {res!r}"
    except BaseException as e:  # deterministic digest of the error path
        msg = str(e).split("    - A named CSS color")[0]
        msg = re.sub(r"id=\d+", "id=N", msg)
        res = f"EXC {type(e).__name__}: {msg!r}"
    print(f"{label}: {res}")


class Floaty:
    """hashable object converting to float, counts conversions"""

    calls = 0

    def __init__(self, value):
        self.value = value

    def __float__(self):
        type(self).calls += 1
        return self.value

    def __repr__(self):
        return f"Floaty({self.value})"


class BadFloat:
    def __float__(self):
        raise KeyError("no float")

    def __repr__(self):
        return "BadFloat()"


inputs = [
    None,
    "red", "r", "g", "b", "y", "m", "c", "k", "w", "Red", " dark blue ", "DarkBlue", "nocolor", "",
    "#ff0000", "#FFF", "#abcd", "#12345g", "ff0000",
    "rgb(1,2,3)", "rgb(255, 204, 0)", "RGB(1,2,3)", "rgb(1,2)", "rgb(1,2,3,4)", "rgb(a,b,c)", "rgb(1.5,2,3)",
    "rgba(1,2,3,4)", "rgb(300,2,3)", "rgb(-1,2,3)", "rgb",
    ".5", "0", "1", "1.0", "0.25", "2", "-1", "nan", "inf", "1e-3",
    0, 1, 0.5, 1.0, 0.999, 2, -0.5, 255, float("nan"), float("inf"),
    True, False,
    np.float64(0.5), np.int64(1), np.float32(0.25),
    (255, 0, 0), (1.0, 0.0, 0.0), (0.5, 0.25, 1.0), (1, 0.5, 0), (255, 0, 0, 128), (1.0, 0.0, 0.0, 0.5),
    (1, 2), (1, 2, 3, 4, 5), (), (256, 0, 0), (-1, 0, 0), (True, False, True), ("a", "b", "c"),
    (2.0, 0.0, 0.0), (float("inf"), 0.0, 0.0), (float("nan"), 0.0, 0.0),
    (np.float64(1.0), np.float64(0.0), np.float64(0.0)), (np.int64(1), np.int64(2), np.int64(3)),
    b"red", frozenset({"red"}), Floaty(0.5), Floaty(3.0), BadFloat(),
]

color_validator.cache_clear()
for inp in inputs:
    run(f"{inp!r}", lambda: color_validator(inp))
print("float conversions:", Floaty.calls)

# keyword variants
run("None not allowed", lambda: color_validator(None, allow_None=False))
run("None not allowed, named", lambda: color_validator(None, allow_None=False, parent_name="Display"))
run("invalid, named parent", lambda: color_validator("nocolor", parent_name="BaseStyle"))
run("positional", lambda: color_validator("g", True, "X"))
run("grey, rebinding shows in message", lambda: color_validator("7", parent_name="P"))
run("grey out of range int", lambda: color_validator(7))

# unhashable arguments are rejected by the cache wrapper
run("list", lambda: color_validator([255, 0, 0]))
run("dict", lambda: color_validator({"r": 1}))
run("ndarray", lambda: color_validator(np.array([1, 2, 3])))
run("tuple with list", lambda: color_validator(([1], 2, 3)))

# cache: equal keys share one entry (1 == 1.0 == True), wrapper attributes are available
color_validator.cache_clear()
run("1 first", lambda: color_validator(1))
run("True after 1", lambda: color_validator(True))
run("1.0 after 1", lambda: color_validator(1.0))
info = color_validator.cache_info()
print("cache:", info.hits, info.misses, info.maxsize, info.currsize)
print("wrapper:", color_validator.__name__, callable(color_validator.__wrapped__), color_validator.cache_parameters())
color_validator.cache_clear()
run("same input twice a", lambda: color_validator("nocolor"))
run("same input twice b", lambda: color_validator("nocolor"))
info = color_validator.cache_info()
print("cache (errors are not cached):", info.hits, info.misses, info.currsize)

# through the style setters
st = BaseStyle()
for val in ("r", (0, 128, 255), 0.5, "rgb(1,2,3)", None, "nocolor", [1, 2, 3]):
    run(f"BaseStyle.color={val!r}", lambda: (setattr(st, "color", val), st.color)[1])
ln = Line()
for val in ("dark blue", "#abc", (1.0, 1.0, 0.0), "xx"):
    run(f"Line.color={val!r}", lambda: (setattr(ln, "color", val), ln.color)[1])
run("MagnetizationColor", lambda: MagnetizationColor(north="r", south=(0, 255, 0), middle=0.5).as_dict())
run("colorsequence", lambda: (setattr(magpy.defaults.display, "colorsequence", ["r", (1, 2, 3), ".2", "#fff"]), magpy.defaults.display.colorsequence)[1])
run("colorsequence bad", lambda: setattr(magpy.defaults.display, "colorsequence", ["r", "rgb(1,2)"]))
run("colorsequence None element", lambda: setattr(magpy.defaults.display, "colorsequence", ["r", None]))
run("object", lambda: magpy.Sensor(style_color=(10, 20, 30)).style.color)
run("object bad", lambda: magpy.Sensor(style_color="nocolor").style.color)
run("reset", lambda: magpy.defaults.reset().display.colorsequence[:3])
