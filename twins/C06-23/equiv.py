import os, sys; sys.path.insert(0, os.getcwd())
import hashlib
import re
import warnings

import numpy as np

import magpylib as magpy
from magpylib._src.fields.field_BH_triangle import BHJM_triangle
from magpylib._src.fields.field_BH_triangle import solid_angle
from magpylib._src.fields.field_BH_triangle import triangle_Bfield

warnings.simplefilter("ignore")
np.seterr(all="ignore")


def dig(name, arr):
    arr0 = np.asarray(arr)
    arr = np.ascontiguousarray(np.asarray(arr, dtype=float))
    h = hashlib.sha256(arr.tobytes()).hexdigest()[:16]
    print(name, arr.shape, arr0.dtype, h, np.round(arr.ravel()[:6], 12).tolist())


def attempt(name, func, *args, **kwargs):
    try:
        dig(name, func(*args, **kwargs))
    except Exception as err:  # pylint: disable=broad-except
        msg = re.sub(r"id=\d+|0x[0-9a-fA-F]+", "ID", str(err).replace("\n", " "))
        print(name, type(err).__name__, msg[:60])


rng = np.random.default_rng(5)
tri = np.array([(0, 0, 0), (1, 0, 0), (0, 1, 0)], dtype=float)
special_obs = np.array(
    [
        (0.3, 0.2, 0.7),  # general
        (0.25, 0.25, 0.0),  # in plane, inside the triangle -> solid angle +-2pi -> reset
        (0.25, 0.25, 1e-20),  # almost in plane
        (0.25, 0.25, -1e-20),
        (2.0, 2.0, 0.0),  # in plane, outside
        (0.0, 0.0, 0.0),  # corner -> nan
        (1.0, 0.0, 0.0),  # corner
        (0.5, 0.0, 0.0),  # on edge
        (0.5, 0.5, 0.0),  # on edge
        (2.0, 0.0, 0.0),  # on edge extension
        (-3.0, 0.0, 0.0),  # on edge extension
        (0.0, -1.0, 0.0),  # on edge extension
        (0.5, 0.0, 1e-14),  # very close to edge
        (0.1, 0.1, -0.4),  # below
        (np.nan, 0.0, 1.0),
        (1e8, 2e8, 3e8),  # far away
        (1e-9, 1e-9, 1e-9),  # very close to a corner
    ]
)
n_sp = len(special_obs)
verts = np.concatenate([np.tile(tri, (n_sp, 1, 1)), rng.normal(size=(20, 3, 3))])
verts[n_sp + 3] = verts[n_sp + 3][[0, 0, 1]]  # degenerate triangle (two equal vertices)
obs = np.concatenate([special_obs, rng.normal(size=(20, 3))])
obs[n_sp + 5] = verts[n_sp + 5].mean(axis=0)  # in plane inside of a general triangle
pol = rng.normal(size=(len(obs), 3))
pol[2] = 0
n = len(obs)

attempt("core", triangle_Bfield, obs, verts, pol)
for f in "BHJM":
    attempt("bhjm-" + f, BHJM_triangle, f, obs, verts, pol)
B = triangle_Bfield(obs, verts, pol)
print("nan rows", np.flatnonzero(np.isnan(B).any(axis=1)).tolist())
print("signs of zeros", np.signbit(B[:n_sp]).astype(int).ravel().tolist())
rows = np.concatenate([triangle_Bfield(obs[i : i + 1], verts[i : i + 1], pol[i : i + 1]) for i in range(n)])
print("rowwise equals joint", np.allclose(rows, B, rtol=1e-9, atol=1e-13, equal_nan=True))
perm = rng.permutation(n)
print("permuted equals joint", np.array_equal(triangle_Bfield(obs[perm], verts[perm], pol[perm]), B[perm], equal_nan=True))
dup = np.array([1, 1, 0, 9, 1, 5, 5])
print("duplicates equal joint", np.array_equal(triangle_Bfield(obs[dup], verts[dup], pol[dup]), B[dup], equal_nan=True))

# solid angle directly
R = np.swapaxes(verts, 0, 1) - obs
r = np.sqrt(np.sum(R * R, axis=-1))
sa = solid_angle(R, r)
dig("solid-angle", sa)
print("zero solid angles", np.flatnonzero(sa == 0).tolist(), "owns data", sa.flags.owndata, sa.flags.writeable, sa.flags.c_contiguous)
o_R, o_r = R.copy(), r.copy()
solid_angle(R, r)
print("solid-angle inputs untouched", np.array_equal(R, o_R, equal_nan=True), np.array_equal(r, o_r, equal_nan=True))
attempt("solid-angle-one", solid_angle, R[:, 1:2], r[:, 1:2])
attempt("solid-angle-none", solid_angle, R[:, :0], r[:, :0])
attempt("solid-angle-f32", solid_angle, R.astype(np.float32), r.astype(np.float32))
attempt("solid-angle-int", solid_angle, np.round(R[:, n_sp:] * 3).astype(int), np.round(r[:, n_sp:] * 3).astype(int))
attempt("solid-angle-lists", solid_angle, R.tolist(), r.tolist())
attempt("solid-angle-mismatch", solid_angle, R, r[:, :5])
attempt("solid-angle-2d", solid_angle, R[0], r[0])

# layouts, dtypes, sizes
attempt("core-fortran", triangle_Bfield, np.asfortranarray(obs), np.asfortranarray(verts), np.asfortranarray(pol))
attempt("core-strided", triangle_Bfield, obs[::3], verts[::3], pol[::3])
attempt("core-f32", triangle_Bfield, obs.astype(np.float32), verts.astype(np.float32), pol.astype(np.float32))
attempt("core-mixed-dtype", triangle_Bfield, obs.astype(np.float32), verts, pol)
attempt("core-int", triangle_Bfield, np.array([[2, 1, 1], [1, 1, 0], [5, 0, 0]]), np.tile(tri.astype(int) * 4, (3, 1, 1)), np.array([[1, 1, 1], [1, 2, 3], [3, 2, 1]]))
attempt("core-one", triangle_Bfield, obs[1:2], verts[1:2], pol[1:2])
attempt("core-none", triangle_Bfield, obs[:0], verts[:0], pol[:0])
attempt("core-one-observer-many-triangles", triangle_Bfield, obs[:1], verts[:5], pol[:5])
attempt("core-many-observers-one-triangle", triangle_Bfield, obs[:5], verts[:1], pol[:1])
attempt("core-lists", triangle_Bfield, obs[:3].tolist(), verts[:3], pol[:3].tolist())
o, v, p = obs.copy(), verts.copy(), pol.copy()
triangle_Bfield(o, v, p)
print("inputs untouched", np.array_equal(o, obs, equal_nan=True), np.array_equal(v, verts), np.array_equal(p, pol))

# error paths
attempt("err-field", BHJM_triangle, "X", obs, verts, pol)
attempt("err-obs-short", triangle_Bfield, obs[:4], verts, pol)
attempt("err-pol-short", triangle_Bfield, obs, verts, pol[:4])
attempt("err-verts-4pts", triangle_Bfield, obs[:3], rng.normal(size=(3, 4, 3)), pol[:3])
attempt("err-verts-2d", triangle_Bfield, obs[:3], tri, pol[:3])
attempt("err-verts-list", triangle_Bfield, obs[:3], verts[:3].tolist(), pol[:3])
attempt("err-pol-list-M", BHJM_triangle, "M", obs[:3], verts[:3], pol[:3].tolist())
attempt("err-obs-2comp", triangle_Bfield, obs[:3, :2], verts[:3], pol[:3])
attempt("err-None", triangle_Bfield, None, verts[:3], pol[:3])

# object oriented: Triangle, TriangularMesh, Tetrahedron (all built on the triangle field)
srcs = []
for i in range(4):
    s = magpy.misc.Triangle(polarization=pol[n_sp + i], vertices=verts[n_sp + i + 6])
    if i:
        s.move(np.linspace((0, 0, 0), (0.1 * i, 0.2, -0.1), i + 1)[1:])
        s.rotate_from_angax(np.linspace(0, 40, i + 1), "z", start=0)
    srcs.append(s)
srcs.append(magpy.misc.Triangle(polarization=(0.1, 0.2, 0.3), vertices=tri))
srcs.append(magpy.magnet.Tetrahedron(polarization=(0.1, 0.2, 0.3), vertices=[(0, 0, 0), (1, 0, 0), (0, 1, 0), (0, 0, 1)]))
srcs.append(magpy.magnet.TriangularMesh.from_ConvexHull(polarization=(0.3, 0.2, 0.1), points=rng.normal(size=(9, 3))))
sens = [
    magpy.Sensor(pixel=[(0.25, 0.25, 0), (0.5, 0, 0), (0, 0, 0)], position=(0, 0, 0)),
    magpy.Sensor(pixel=[(0.1, 0, 0), (0.3, 0.1, 0.1), (2, 0, 0)], position=np.linspace((1, 1, 1), (0, 0, 0), 3)),
]
for f in ("getB", "getH", "getJ", "getM"):
    out = getattr(magpy, f)(srcs, sens, squeeze=False)
    dig("oo-" + f, out)
    ok = True
    for l, s in enumerate(srcs):
        alone = getattr(magpy, f)(s, sens, squeeze=False)[0]
        m = len(alone)
        ok = ok and np.allclose(out[l, :m], alone, rtol=1e-9, atol=1e-12, equal_nan=True) and all(
            np.allclose(step, alone[-1], rtol=1e-9, atol=1e-12, equal_nan=True) for step in out[l, m:]
        )
    print("  each source alone equals joint", ok)
dig("oo-sumup", magpy.getB(srcs, sens, sumup=True))
attempt("dict-B", magpy.getB, "Triangle", special_obs, vertices=tri, polarization=(1, 2, 3))
attempt("core-api", magpy.core.triangle_Bfield, obs[:4], verts[:4], pol[:4])
