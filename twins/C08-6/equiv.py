import os, sys; sys.path.insert(0, os.getcwd())
# Twin2-1: try/finally path reset in getBH_level2 -> `with` context manager
import hashlib
import re
import warnings

import numpy as np

import magpylib as magpy

warnings.simplefilter("ignore")


def h(a):
    a = np.ascontiguousarray(a)
    return hashlib.sha1(a.tobytes()).hexdigest()[:12] + str(a.shape)


def snap(objs):
    return [
        (
            h(o._position),
            h(o._orientation.as_quat()),
            None if getattr(o, "pixel", None) is None else h(o.pixel),
            None if o.parent is None else id(o.parent),
            repr(o.style.label),
        )
        for o in objs
    ]


def clean(msg):
    msg = re.sub(r"0x[0-9a-f]+", "0x?", re.sub(r"id=\d+", "id=?", str(msg)))
    return msg[:100].replace("\n", " ")


def run(tag, fn, objs, expect_inst=None):
    before = snap(objs)
    orients = [o._orientation for o in objs]
    for rep in range(2):
        try:
            res = fn()
            if isinstance(res, np.ndarray):
                print(f"{tag}[{rep}] ->", h(res), np.round(res.ravel()[:4], 12).tolist())
            else:
                print(f"{tag}[{rep}] ->", type(res).__name__, h(res.to_numpy()[:, 4:].astype(float)))
        except BaseException as err:  # pylint: disable=broad-except
            ident = "" if expect_inst is None else f" same-instance={err is expect_inst}"
            ctx = type(err.__context__).__name__ if err.__context__ is not None else None
            cause = type(err.__cause__).__name__ if err.__cause__ is not None else None
            print(f"{tag}[{rep}] raised", type(err).__name__, clean(err), f"ctx={ctx} cause={cause}" + ident)
        after = snap(objs)
        print(
            "   state-same=%s orient-identity=%s lens=%s"
            % (
                [b == a for b, a in zip(before, after)],
                [o._orientation is r for o, r in zip(objs, orients)],
                [(len(o._position), len(o._orientation)) for o in objs],
            )
        )


def make():
    cub = magpy.magnet.Cuboid(polarization=(0.1, 0.2, 0.3), dimension=(1, 2, 3))
    cub.rotate_from_angax(33, (1, 2, 3))
    cyl = magpy.magnet.Cylinder(polarization=(0.3, 0.2, 0.1), dimension=(1, 2), position=(1, 1, 1))
    cyl.move(np.linspace((0, 0, 0), (1, 0.5, 0.2), 3), start=0)
    cyl.rotate_from_angax(np.linspace(0, 77, 3), "y", start=0)
    loop = magpy.current.Circle(current=3, diameter=2, position=(0, 0, -2))
    tet = magpy.magnet.Tetrahedron(
        polarization=(0.1, 0.2, 0.3), vertices=[(0, 0, 0), (1, 0, 0), (0, 0, 1), (0, 1, 0)]
    )
    sens = magpy.Sensor(pixel=[(0, 0, 0), (0.1, 0.2, 0.3)], position=(2, 2, 2))
    sens.rotate_from_angax(np.linspace(10, 200, 5), (1, 1, 0), start=0)
    sens2 = magpy.Sensor(position=(-2, 1, 3), handedness="left")
    sens2.move([(0.1, 0, 0), (0.2, 0, 0)])
    col = magpy.Collection(loop, cyl, style_label="thecol")
    return cub, cyl, loop, tet, sens, sens2, col


cub, cyl, loop, tet, sens, sens2, col = make()
objs = [cub, cyl, loop, tet, sens, sens2, col]

# ---- successful calls with mixed path lengths 1, 3, 1, 1, 5, 3
for field in "BHJM":
    run(
        f"mixed-{field}",
        lambda field=field: getattr(magpy, "get" + field)([cub, col, tet], [sens, sens2], pixel_agg="mean"),
        objs,
    )
run("sumup", lambda: magpy.getB([cub, col, cub], sens, sumup=True, squeeze=False), objs)
run("static-only", lambda: magpy.getH([cub, loop], (1, 2, 3)), objs)
run("dataframe", lambda: magpy.getB([cub, col], sens, output="dataframe"), objs)
run("method", lambda: cyl.getB(sens2), objs)
run("sensor-method", lambda: sens.getH(cub, tet, sumup=True), objs)
run("collection-method", lambda: col.getB(sens, sens2, pixel_agg="max"), objs)

# ---- failures before the tiling
run("bad-pixel_agg", lambda: magpy.getB(cub, [sens, sens2], pixel_agg="nonsense"), objs)
run("bad-pixel_agg2", lambda: magpy.getB(cub, [sens, sens2], pixel_agg="array"), objs)
run("pix-shapes", lambda: magpy.getB([cub, cyl], [sens, sens2]), objs)
run("no-sources", lambda: magpy.getB([], sens), objs)
run("bad-observer", lambda: magpy.getB(cyl, "nope"), objs)
nodim = magpy.magnet.Cuboid(polarization=(1, 2, 3))
noexc = magpy.magnet.Sphere(diameter=1)
run("missing-dim", lambda: magpy.getB([cyl, nodim], sens), objs + [nodim])
run("missing-exc", lambda: magpy.getH([cyl, noexc], sens), objs + [noexc])
run("kwargs-mix", lambda: magpy.getB(cyl, sens, dimension=(1, 2, 3)), objs)

# ---- failures after the computation
run("bad-output", lambda: magpy.getB([cub, cyl], sens, output="table"), objs)

# ---- failures while the paths are tiled
run("bad-in_out", lambda: magpy.getB([cyl, tet], sens, in_out="sideways"), objs)
nofunc = magpy.misc.CustomSource(position=(1, 2, 3))
run("no-field_func", lambda: magpy.getB([cyl, cub, nofunc], sens), objs + [nofunc])


class Script:
    """custom field function with scripted behaviour per invocation"""

    def __init__(self, script):
        self.script = script
        self.calls = 0

    def __call__(self, field, observers):
        self.calls += 1
        action = self.script.get(self.calls, "ok")
        if action == "ok":
            return np.ones_like(observers) * (1 if field == "B" else 2)
        if action == "none":
            return None
        if action == "shape":
            return np.ones((len(observers) + 1, 3))
        if action == "scalar":
            return 1.0
        raise action


# inspect.getfullargspec must see (field, observers)
def wrap(script):
    scr = Script(script)

    def func(field, observers):
        return scr(field, observers)

    return func, scr


INST = {
    "ValueError": ValueError("boom"),
    "StopIteration": StopIteration("stop"),
    "RuntimeError": RuntimeError("rt"),
    "KeyboardInterrupt": KeyboardInterrupt(),
    "GeneratorExit": GeneratorExit(),
    "SystemExit": SystemExit(3),
    "MagpylibMissingInput": magpy._src.exceptions.MagpylibMissingInput("mi"),
}
for name, inst in INST.items():
    # invocations 1,2 happen in the validation at construction, 3 = first getB, 4 = second getB
    func, scr = wrap({3: inst})
    cust = magpy.misc.CustomSource(field_func=func, position=(0.5, 0, 0))
    run(f"custom-raise-{name}", lambda: magpy.getB([cyl, cust, cub], [sens]), objs + [cust], expect_inst=inst)
    print("   calls:", scr.calls)

for action in ("none", "shape", "scalar"):
    func, scr = wrap({4: action})
    cust = magpy.misc.CustomSource(field_func=func)
    cust.move([(1, 1, 1)] * 6)
    run(f"custom-{action}-on-2nd", lambda: magpy.getH([cust, cyl], [sens, sens2], pixel_agg="min"), objs + [cust])
    print("   calls:", scr.calls)

# custom source supports only B
cust = magpy.misc.CustomSource(field_func=lambda field, observers: np.zeros_like(observers) if field == "B" else None)
run("custom-H-unsupported", lambda: cust.getH(sens, sens2, pixel_agg="mean"), objs + [cust])
run("custom-J-unsupported", lambda: magpy.getJ([cub, cust], sens), objs + [cust])
run("custom-B-supported", lambda: magpy.getB([cub, cust], sens), objs + [cust])

# ---- the caller's arrays are untouched
obs = np.array([(1.0, 2, 3), (2, 3, 4), (-1, -2, -3)])
obs0 = obs.copy()
run("user-array", lambda: magpy.getB([cyl, tet], obs), objs)
print("user array unchanged:", np.array_equal(obs, obs0), h(obs))
