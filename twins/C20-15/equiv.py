import os, sys; sys.path.insert(0, os.getcwd())
import re

import numpy as np

import magpylib as magpy
from magpylib._src.style import BaseStyle, Description, Legend, Line, MagnetStyle, Path, Trace3d


def run(label, func):
    try:
        res = func()
        res = f"{type(res).__name__} {res!r}"
    except BaseException as e:  # deterministic digest of the error path
        msg = re.sub(r"id=\d+", "id=N", str(e))
        msg = re.sub(r" at 0x[0-9a-f]+", "", msg)
        res = f"EXC {type(e).__name__}: {msg!r}"
    label = re.sub(r" at 0x[0-9a-f]+", "", label)
    print(f"{label}: {res}")


def set_get(obj, name, val):
    setattr(obj, name, val)
    return getattr(obj, name)


class MyStr(str):
    pass


class MyInt(int):
    pass


def gen():
    yield 1
    yield 5


def gen_fail():
    yield 1
    raise KeyError("inside generator")


class Iter:
    def __iter__(self):
        return iter((3, 4))

    def __repr__(self):
        return "Iter()"


# ---- Path.frames ------------------------------------------------------------
path = Path()
frames = [
    None, 0, 3, -2, True, MyInt(2), np.int64(4), np.int32(1), np.uint8(1), 2.0, np.float64(2.0), "3", "", b"12", 1j,
    [], [1, 2, 3], (0, 5), [1, 2.0], [1, "2"], [True, 1], [None], [[1, 2]], range(3), {1, 2}, {4: "a"},
    np.array([1, 2]), np.array([1.0, 2.0]), np.array(3), np.array([[1, 2], [3, 4]]), gen(), gen_fail(), Iter(), object,
]
for val in frames:
    run(f"frames={val!r}"[:60], lambda: set_get(path, "frames", val))
path.frames = (7,)
run("rejected value leaves the old one", lambda: set_get(path, "frames", [1.5]))
print("   kept:", path.frames)
run("Path(frames=...)", lambda: Path(frames=[1, 2]).as_dict())
run("style path_frames", lambda: BaseStyle(path_frames=np.arange(3)).path.frames)
run("style path_frames bad", lambda: BaseStyle(path_frames=1.5))
run("update", lambda: BaseStyle().update(path={"frames": 4}).path.frames)
run("object", lambda: magpy.Sensor(style_path_frames=[0, 2]).style.path.frames)
run("object bad", lambda: magpy.Sensor(style_path_frames="ab").style.path.frames)
run("defaults", lambda: set_get(magpy.defaults.display.style.base.path, "frames", [1, 3]))
run("defaults bad", lambda: set_get(magpy.defaults.display.style.base.path, "frames", [1, 3.5]))
run("reset", lambda: magpy.defaults.reset().display.style.base.path.frames)

# ---- BaseStyle.description / legend -----------------------------------------
st = BaseStyle()
texts = ["abc", "", MyStr("sub"), None, {"text": "d", "show": False}, {"show": True}, {}, Description(text="x"), Legend(text="y"),
         5, ["a"], b"abc", {"nope": 1}, {"text": 5}, {"text_x": 1}]
for name in ("description", "legend"):
    for val in texts:
        run(f"{name}={val!r}", lambda: (lambda r: (type(r).__name__, r.as_dict()))(set_get(st, name, val)))
desc = Description(text="keep", show=True)
run("instance kept", lambda: set_get(st, "description", desc) is desc)
leg = Legend(text="keep")
run("instance kept", lambda: set_get(st, "legend", leg) is leg)
run("string makes a new instance", lambda: (set_get(st, "description", "new") is not desc, desc.as_dict()))
run("string resets show", lambda: (setattr(st, "description", {"text": "a", "show": False}), setattr(st, "description", "b"), st.description.as_dict())[2])
run("init", lambda: MagnetStyle(description="m", legend="l").as_dict()["legend"])
run("magic", lambda: (MagnetStyle(description_text="m", legend_show=False).description.as_dict()))
run("update str", lambda: BaseStyle(description={"show": False}).update(description="u").description.as_dict())
run("update str + magic", lambda: BaseStyle().update(description="u", description_show=True).description.as_dict())
run("object", lambda: magpy.Sensor(style_description="sd", style_legend="sl").style.as_dict()["description"])
run("object bad", lambda: magpy.Sensor(style_description=5).style)

# ---- Trace3d.args / kwargs --------------------------------------------------
CALLS = []


def returns(value, tag):
    def func():
        CALLS.append(tag)
        return value

    func.__qualname__ = func.__name__ = f"returns_{tag}"
    return func


def raising():
    CALLS.append("raising")
    raise KeyError("in callable")


class CallableTuple(tuple):
    def __call__(self):
        CALLS.append("CallableTuple")
        return {"called": 1}


tr = Trace3d()
print("fresh:", tr.args, tr.kwargs)
args_values = [None, (), (1, 2), [1, 2], {"a": 1}, "ab", 5, returns((1,), "tuple"), returns([1], "list"), returns(None, "none"),
               returns({}, "dict"), raising, CallableTuple((1,)), tuple, dict, lambda x: (x,)]
for name in ("args", "kwargs"):
    for val in args_values:
        shown = getattr(val, "__name__", None) or repr(val)
        run(f"{name}={shown}", lambda: (lambda r: r is val)(set_get(tr, name, val)))
        print("   calls:", CALLS[:], "| stored is rejected value:", getattr(tr, name) is val)
        CALLS.clear()
run("Trace3d(args, kwargs)", lambda: (lambda t: (t.args, t.kwargs))(Trace3d(args=(1,), kwargs={"x": [0]})))
run("Trace3d bad args", lambda: Trace3d(args=[1]))
run("Trace3d bad kwargs", lambda: Trace3d(kwargs=(1,)))
run("update", lambda: (lambda t: (t.args, t.kwargs))(Trace3d().update(args=(2,), kwargs={"y": 1})))
run("update bad (args comes first)", lambda: tr.update(kwargs=5, args=(9,)))
print("   state:", tr.args)
sens = magpy.Sensor()
run("add_trace", lambda: (lambda t: (t.args, t.kwargs, t.constructor))(
    sens.style.model3d.add_trace(backend="matplotlib", constructor="plot", args=(1, 2), kwargs={"ls": "-"}).data[0]))
run("add_trace bad", lambda: sens.style.model3d.add_trace(backend="matplotlib", constructor="plot", args=[1, 2]))
run("add_trace dict bad", lambda: sens.style.model3d.add_trace({"constructor": "plot", "kwargs": [1]}))
print("traces:", len(sens.style.model3d.data), len(sens.copy().style.model3d.data))
