import os, sys; sys.path.insert(0, os.getcwd())
# Twin 2: grouping of sources by field_func and scatter of group results in getBH_level2
import hashlib
import re
import warnings

import numpy as np
from scipy.spatial.transform import Rotation as R

import magpylib as magpy

warnings.simplefilter("ignore")
np.set_printoptions(precision=10, suppress=False, linewidth=200)


def h(a):
    a = np.ascontiguousarray(a)
    return hashlib.sha1(a.tobytes()).hexdigest()[:12] + str(a.shape)


def snap(objs):
    out = []
    for o in objs:
        out.append(
            (
                type(o).__name__,
                h(o._position),
                h(o._orientation.as_quat()),
                id(o._position),
                id(o._orientation),
                id(o.parent) if o.parent is not None else None,
            )
        )
    return out


def show(tag, val):
    if isinstance(val, np.ndarray):
        print(tag, val.shape, h(val), np.round(val.ravel()[:6], 12).tolist())
    else:
        print(tag, val)


def run(tag, fn, objs):
    before = snap(objs)
    ids_orient = [o._orientation for o in objs]
    for rep in range(2):
        try:
            res = fn()
            show(f"{tag}[{rep}] ->", res if isinstance(res, np.ndarray) else type(res).__name__)
        except Exception as err:  # pylint: disable=broad-except
            msg = re.sub(r"0x[0-9a-f]+", "0x?", re.sub(r"id=\d+", "id=?", str(err)))
            print(f"{tag}[{rep}] raised", type(err).__name__, msg[:90].replace("\n", " "))
        after = snap(objs)
        same = [b[1:3] == a[1:3] for b, a in zip(before, after)]
        same_orient_obj = [o._orientation is r for o, r in zip(objs, ids_orient)]
        lens = [(len(o._position), len(o._orientation)) for o in objs]
        print(f"   state-same={same} orient-identity={same_orient_obj} lens={lens}")


def make():
    cub = magpy.magnet.Cuboid(polarization=(0.1, 0.2, 0.3), dimension=(1, 2, 3))
    cub.rotate_from_angax(33, (1, 2, 3))
    cyl = magpy.magnet.Cylinder(polarization=(0.3, 0.2, 0.1), dimension=(1, 2), position=(1, 1, 1))
    cyl.move(np.linspace((0, 0, 0), (1, 0.5, 0.2), 3), start=0)
    cyl.rotate_from_angax(np.linspace(0, 77, 3), "y", start=0)
    loop = magpy.current.Circle(current=3, diameter=2, position=(0, 0, -2))
    sens = magpy.Sensor(pixel=[(0, 0, 0), (0.1, 0.2, 0.3)], position=(2, 2, 2))
    sens.rotate_from_angax(np.linspace(10, 200, 5), (1, 1, 0), start=0)
    sens2 = magpy.Sensor(position=(-2, 1, 3), handedness="left")
    sens2.move([(0.1, 0, 0), (0.2, 0, 0)])
    col = magpy.Collection(loop, cyl)
    return cub, cyl, loop, sens, sens2, col


cub, cyl, loop, sens, sens2, col = make()
objs = [cub, cyl, loop, sens, sens2, col]

# success: mixed path lengths 1, 3, 1, 5, 3
run("mixed", lambda: magpy.getB([cub, col], [sens, sens2], pixel_agg="mean"), objs)
run("mixedH-sumup", lambda: magpy.getH([cub, cyl, loop], sens, sumup=True), objs)
run("static-only", lambda: magpy.getB([cub, loop], (1, 2, 3)), objs)
run("all-same-len", lambda: cyl.getB(sens2), objs)
run("src-method", lambda: cub.getJ(sens, squeeze=False), objs)
run("sens-method", lambda: sens.getM(cub, cyl), objs)
run("dataframe", lambda: magpy.getB(cub, sens, output="dataframe").shape, objs)

# failures after tiling happened
state = {"n": 0, "fail_on": 1, "mode": "raise"}


def ff(field, observers):
    state["n"] += 1
    if state["n"] > 2 and (state["n"] - 2) % 2 == state["fail_on"] % 2:
        if state["mode"] == "raise":
            raise RuntimeError("boom")
        if state["mode"] == "none":
            return None
        if state["mode"] == "shape":
            return np.zeros((len(observers) + 1, 3))
    return np.ones((len(observers), 3)) * (1 if field == "B" else 2)


cust = magpy.misc.CustomSource(field_func=ff, position=(1, 2, 3))
cust.move([(1, 1, 1)] * 2)
objs2 = objs + [cust]
for mode in ("raise", "none", "shape"):
    state["mode"] = mode
    run(f"custom-{mode}", lambda: magpy.getB([cub, cust, cyl], [sens, sens2], pixel_agg="max"), objs2)

cust_noH = magpy.misc.CustomSource(
    field_func=lambda field, observers: None if field == "H" else np.zeros_like(observers)
)
run("custom-unsupported", lambda: magpy.getH([cyl, cust_noH], sens), objs + [cust_noH])
cust_none = magpy.misc.CustomSource()
run("custom-nofunc", lambda: magpy.getH([cyl, cust_none], sens), objs + [cust_none])

nodim = magpy.magnet.Cuboid(polarization=(1, 2, 3))
run("missing-dim", lambda: magpy.getB([cyl, nodim], sens), objs + [nodim])
noexc = magpy.magnet.Cuboid(dimension=(1, 2, 3))
run("missing-exc", lambda: magpy.getB([cyl, noexc], sens), objs + [noexc])
run("bad-pixel-agg", lambda: magpy.getB(cyl, sens, pixel_agg="bad"), objs)
run("bad-output", lambda: magpy.getB(cyl, sens, output="bad"), objs)
run("bad-pixshape", lambda: magpy.getB(cyl, [sens, sens2]), objs)
run("bad-pixel-agg-func", lambda: magpy.getB(cyl, [sens, sens2], pixel_agg="array"), objs)
run("same-obj-twice", lambda: magpy.getB([cub, cub, cyl], [sens, sens]), objs)

# interleaved source types -> several groups with non-contiguous "order"
cub2 = cub.copy(position=(3, 0, 0), polarization=(1, 0, 0))
loop2 = loop.copy(current=-7, position=(0, 3, 0))
cust_ok = magpy.misc.CustomSource(
    field_func=lambda field, observers: observers * (2.0 if field == "B" else 3.0)
)
cust_ok2 = magpy.misc.CustomSource(field_func=cust_ok.field_func, position=(0, 0, 1))
tet = magpy.magnet.Tetrahedron(
    polarization=(0.1, 0.2, 0.3), vertices=[(0, 0, 0), (1, 0, 0), (0, 1, 0), (0, 0, -1)]
)
objs3 = objs + [cub2, loop2, cust_ok, cust_ok2, tet]
inter = [cub, loop, cub2, cust_ok, loop2, cyl, tet, cust_ok2, cub]
for fld in "BHJM":
    run(
        f"interleaved-{fld}",
        lambda fld=fld: getattr(magpy, "get" + fld)(inter, [sens, sens2], pixel_agg="mean"),
        objs3,
    )
res = magpy.getB(inter, sens)
for i, s_ in enumerate(inter):
    print("single-vs-group", i, bool(np.all(res[i] == s_.getB(sens))))
col2 = magpy.Collection(cub2, cust_ok, loop2)
run("interleaved-col", lambda: magpy.getB([loop, col2, cub, col], sens, sumup=False), objs3 + [col2])
run("interleaved-col-sum", lambda: magpy.getH([loop, col2, cub, col], sens, sumup=True), objs3 + [col2])
run("nofunc-late", lambda: magpy.getB([cub, loop, cust_none, cub2], sens), objs3 + [cust_none])
run("noH-late", lambda: magpy.getH([cub, loop, cust_noH, cub2], sens), objs3 + [cust_noH])
run("noJ-custom", lambda: magpy.getJ([cub, cust_ok], sens), objs3)
