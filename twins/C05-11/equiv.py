import os, sys; sys.path.insert(0, os.getcwd())
import builtins
import hashlib
import re
import warnings

import numpy as np

import magpylib as magpy
from magpylib._src.input_checks import check_dimensions
from magpylib._src.input_checks import check_excitations

warnings.simplefilter("ignore")
_print = builtins.print


def print(*args):  # deterministic: strip object ids / addresses
    txt = " ".join(str(a) for a in args)
    txt = re.sub(r"id=\d+", "id=#", txt)
    txt = re.sub(r"0x[0-9a-f]+", "0x#", txt)
    _print(txt)


def dig(name, arr):
    arr = np.asarray(arr)
    h = hashlib.sha256(np.ascontiguousarray(arr).tobytes()).hexdigest()[:16]
    print(name, arr.shape, h, np.round(arr.ravel()[:6], 12).tolist())


def err(name, fn):
    try:
        res = fn()
        print(name, "no error ->", res if not isinstance(res, np.ndarray) else "array")
    except BaseException as e:  # pylint: disable=broad-except
        print(name, type(e).__name__, "|", str(e)[:160].replace("\n", " / "))


# ---------------------------------------------------------------- real sources
def good():
    return [
        magpy.magnet.Cuboid(polarization=(0.1, 0.2, 0.3), dimension=(1, 2, 3)),
        magpy.magnet.Cylinder(polarization=(0.1, 0.2, 0.3), dimension=(1, 2)),
        magpy.magnet.CylinderSegment(polarization=(0.1, 0.2, 0.3), dimension=(1, 2, 3, 0, 90)),
        magpy.magnet.Sphere(polarization=(0.3, -0.2, 0.1), diameter=1.5),
        magpy.magnet.Tetrahedron(polarization=(0.3, -0.2, 0.1), vertices=[(0, 0, 0), (1, 0, 0), (0, 1, 0), (0, 0, 1)]),
        magpy.current.Circle(current=2.0, diameter=2.0),
        magpy.current.Polyline(current=2.0, vertices=[(0, 0, 0), (1, 1, 1), (2, 0, 1)]),
        magpy.misc.Dipole(moment=(1, 2, 3)),
        magpy.misc.Triangle(polarization=(1, 2, 3), vertices=[(0, 0, 0), (1, 0, 0), (0, 1, 0)]),
        magpy.misc.CustomSource(field_func=lambda field, observers: observers * 2.0),
        magpy.misc.CustomSource(),
    ]


bad = {
    "cuboid_nodim": lambda: magpy.magnet.Cuboid(polarization=(1, 2, 3)),
    "cuboid_nopol": lambda: magpy.magnet.Cuboid(dimension=(1, 2, 3)),
    "cuboid_nothing": lambda: magpy.magnet.Cuboid(),
    "cyl_nodim": lambda: magpy.magnet.Cylinder(polarization=(1, 2, 3)),
    "cylseg_nodim": lambda: magpy.magnet.CylinderSegment(polarization=(1, 2, 3)),
    "sphere_nodia": lambda: magpy.magnet.Sphere(polarization=(1, 2, 3)),
    "sphere_nopol": lambda: magpy.magnet.Sphere(diameter=3),
    "tetra_novert": lambda: magpy.magnet.Tetrahedron(polarization=(1, 2, 3)),
    "tetra_nopol": lambda: magpy.magnet.Tetrahedron(vertices=[(0, 0, 0), (1, 0, 0), (0, 1, 0), (0, 0, 1)]),
    "circle_nodia": lambda: magpy.current.Circle(current=1),
    "circle_nocur": lambda: magpy.current.Circle(diameter=1),
    "circle_nothing": lambda: magpy.current.Circle(),
    "line_novert": lambda: magpy.current.Polyline(current=1),
    "line_nocur": lambda: magpy.current.Polyline(vertices=[(0, 0, 0), (1, 1, 1)]),
    "dipole_nomom": lambda: magpy.misc.Dipole(),
    "tri_novert": lambda: magpy.misc.Triangle(polarization=(1, 2, 3)),
    "tri_nopol": lambda: magpy.misc.Triangle(vertices=[(0, 0, 0), (1, 0, 0), (0, 1, 0)]),
}

print("== direct calls, good lists")
err("dims good", lambda: check_dimensions(good()))
err("exc good", lambda: check_excitations(good()))
err("dims empty", lambda: check_dimensions([]))
err("exc empty", lambda: check_excitations(()))
err("dims generator", lambda: check_dimensions(s for s in good()))
err("exc generator", lambda: check_excitations(s for s in good()))

print("== direct calls, single bad source / bad source in the middle / two bad ones")
for name, mk in bad.items():
    err(f"dims {name}", lambda mk=mk: check_dimensions([mk()]))
    err(f"exc  {name}", lambda mk=mk: check_excitations([mk()]))
    err(f"dims mid {name}", lambda mk=mk: check_dimensions(good()[:3] + [mk()] + good()[3:]))
    err(f"exc  mid {name}", lambda mk=mk: check_excitations(good()[:3] + [mk()] + good()[3:]))
names = list(bad)
for a, b in zip(names, names[1:] + names[:1]):
    err(f"dims first-of {a},{b}", lambda a=a, b=b: check_dimensions([good()[0], bad[a](), bad[b]()]))
    err(f"exc  first-of {a},{b}", lambda a=a, b=b: check_excitations([good()[0], bad[a](), bad[b]()]))


# ------------------------------------------------- fake objects: which getters are read, how often
class Probe:
    """records every attribute access that reaches a property getter"""

    def __init__(self, log, **vals):
        self.__dict__["_log"] = log
        self.__dict__["_vals"] = vals

    def __getattr__(self, name):
        self._log.append(name)
        if name in self._vals:
            val = self._vals[name]
            if isinstance(val, BaseException):
                raise val
            return val
        raise AttributeError(name)

    def __repr__(self):
        return f"Probe({sorted(self._vals)})"


probe_cases = {
    "none": {},
    "dimension set": {"dimension": (1, 2, 3)},
    "dimension None, diameter set": {"dimension": None, "diameter": 3},
    "diameter None, vertices set": {"diameter": None, "vertices": 1},
    "vertices None": {"vertices": None},
    "vertices 0 (falsy, not None)": {"vertices": 0},
    "polarization None, current set": {"polarization": None, "current": 1},
    "current None, moment set": {"current": None, "moment": 1},
    "moment None": {"moment": None},
    "current 0.0": {"current": 0.0},
    "all set": {k: 1 for k in ("dimension", "diameter", "vertices", "polarization", "current", "moment")},
    "all None": {k: None for k in ("dimension", "diameter", "vertices", "polarization", "current", "moment")},
    "diameter raises KeyError": {"diameter": KeyError("boom")},
    "current raises ValueError": {"current": ValueError("boom")},
    "dimension raises StopIteration": {"dimension": StopIteration("stop")},
    "polarization raises StopIteration": {"polarization": StopIteration("stop")},
}
print("== probes")
for label, vals in probe_cases.items():
    for fname, fn in (("dims", check_dimensions), ("exc", check_excitations)):
        log = []
        err(f"{fname} probe[{label}]", lambda fn=fn, log=log, vals=vals: fn([Probe(log, **vals), Probe(log, **vals)]))
        print("     accesses:", log)

# ------------------------------------------------- through the field computation
print("== getB/getH with uninitialised sources (bare, in lists, in nested collections, sumup)")
obs = np.array([(5.5, 4.0, 3.0), (-2.0, 6.5, 2.0)])
for name, mk in bad.items():
    err(f"getB bare {name}", lambda mk=mk: magpy.getB(mk(), obs))
    err(f"getH list {name}", lambda mk=mk: magpy.getH([good()[0], mk(), good()[5]], obs, sumup=True))
    err(
        f"getB nested {name}",
        lambda mk=mk: magpy.getB([good()[7], magpy.Collection(good()[3], magpy.Collection(mk(), good()[0]))], obs),
    )
    err(f"method {name}", lambda mk=mk: mk().getB(obs))
    err(f"coll method {name}", lambda mk=mk: magpy.Collection(good()[3], mk()).getH(obs))
    err(f"sensor method {name}", lambda mk=mk: magpy.Sensor().getB(good()[3], mk()))

print("== order: dimension is checked (for all sources) before excitation")
err("dim then exc", lambda: magpy.getB([bad["cuboid_nopol"](), bad["sphere_nodia"]()], obs))
err("exc then dim", lambda: magpy.getB([bad["sphere_nodia"](), bad["cuboid_nopol"]()], obs))
err("nothing", lambda: magpy.getB([bad["circle_nothing"]()], obs))

print("== good sources still compute, sums agree")
srcs = [s for s in good() if not (isinstance(s, magpy.misc.CustomSource) and s.field_func is None)]
for f in "BHJM":
    fn = getattr(magpy, "get" + f)
    single = np.array([fn(s, obs) for s in srcs])
    dig(f"{f} list", fn(srcs, obs))
    print(f"{f} list==single", bool((fn(srcs, obs) == single).all()))
    dig(f"{f} sumup", fn(srcs, obs, sumup=True))
    dig(f"{f} coll", fn(magpy.Collection(*[s.copy() for s in srcs]), obs))
