import os, sys; sys.path.insert(0, os.getcwd())
import builtins
import hashlib
import re
import warnings

import numpy as np
from scipy.spatial.transform import Rotation as R

import magpylib as magpy

warnings.simplefilter("ignore")
_print = builtins.print


def print(*args):  # deterministic: strip object ids / addresses
    txt = " ".join(str(a) for a in args)
    txt = re.sub(r"id=\d+", "id=#", txt)
    txt = re.sub(r"0x[0-9a-f]+", "0x#", txt)
    _print(txt)


def dig(name, arr):
    arr = np.asarray(arr)
    h = hashlib.sha256(np.ascontiguousarray(arr).tobytes()).hexdigest()[:16]
    print(name, arr.shape, h, np.round(arr.ravel()[:6], 12).tolist())


def err(name, fn):
    try:
        fn()
        print(name, "no error")
    except BaseException as e:  # pylint: disable=broad-except
        ctx = type(e.__context__).__name__ if e.__context__ is not None else None
        print(name, type(e).__name__, str(e).splitlines()[0][:100] if str(e) else "", "| context:", ctx)


def mk():
    s1 = magpy.magnet.Cuboid(polarization=(0.1, 0.2, 0.3), dimension=(1, 2, 3), position=(0.1, 0, 0))
    s2 = magpy.magnet.Sphere(polarization=(0.3, -0.2, 0.1), diameter=1.5, position=(3, 1, 0))
    s3 = magpy.current.Circle(current=12.0, diameter=2.0, position=(0, -3, 1))
    s4 = magpy.misc.Dipole(moment=(1, 2, 3), position=(-3, 0, 0.5))
    s5 = magpy.magnet.Cylinder(polarization=(0, 0.1, 0.4), dimension=(1, 2), position=(0, 4, 0))
    s2.rotate_from_angax([10, 20, 30], "y", start=0)  # path length 3
    s3.rotate_from_angax(77, (1, 2, 3))  # static but rotated
    s5.move([(0.1, 0, 0)] * 5, start=0)  # path length 5
    s4.rotate_from_angax([5, 10], "z", anchor=0, start=0)  # path length 2
    sa = magpy.Sensor(pixel=[(0, 0, 0), (0.1, 0.2, 0.3)], position=(1, 5, 2)).rotate_from_angax(33, (1, 2, 3))
    sb = magpy.Sensor(position=(1, -5, 2), handedness="left")
    sb.pixel = [(0, 0, 0), (0.1, 0, 0)]
    sb.rotate_from_angax([1, 2, 3, 4], "x", start=0)  # path length 4, changing orientation
    sc = magpy.Sensor(pixel=[(0, 0, 0), (0, 0, 1)]).move([(0, 0, 1), (0, 0, 2)], start=0)  # translation path
    return [s1, s2, s3, s4, s5], [sa, sb, sc]


def snapshot(objs):
    """positions / quaternions / identity of the orientation objects"""
    return [(o._position.copy(), o._orientation.as_quat().copy(), o._orientation, o._position) for o in objs]


def compare(name, objs, snap):
    same_val = all(
        np.array_equal(o._position, p) and np.array_equal(o._orientation.as_quat(), q)
        for o, (p, q, _, _) in zip(objs, snap)
    )
    same_rot_obj = [o._orientation is r for o, (_, _, r, _) in zip(objs, snap)]
    same_pos_obj = [o._position is p for o, (_, _, _, p) in zip(objs, snap)]
    print(name, "restored values:", same_val, "| same orientation object:", same_rot_obj, "| same position object:", same_pos_obj)
    print(name, "path lengths:", [len(o._position) for o in objs], [len(o._orientation) for o in objs])


obs = np.array([(0.5, 4.0, 3.0), (-2.0, 1.5, 2.0)])

# --- regular computations with mixed path lengths -----------------------------------------
for field in ("B", "H"):
    getf = getattr(magpy, "get" + field)
    srcs, sens = mk()
    snap = snapshot(srcs + sens)
    dig(field + " all, sensors", getf(srcs, sens))
    compare(field + " all, sensors", srcs + sens, snap)
    dig(field + " sumup", getf(srcs, sens, sumup=True))
    dig(field + " static only", getf([srcs[0], srcs[2]], sens[0]))
    compare(field + " static only", srcs + sens, snap)
    dig(field + " static src, path sensor", getf(srcs[0], sens[1]))
    dig(field + " path src, positions", getf([srcs[4], srcs[0]], obs))
    dig(field + " same path length everywhere", getf([srcs[1]], obs))
    compare(field + " after several", srcs + sens, snap)
    col = magpy.Collection(srcs[1], srcs[3], magpy.Collection(srcs[4]))
    col.move([(0, 0, 0.1)] * 3)
    snap2 = snapshot(srcs + sens)
    dig(field + " collection with moved children", getf([srcs[0], col, srcs[2]], sens, squeeze=False))
    dig(field + " duplicate source", getf([srcs[1], srcs[0], srcs[1]], obs))
    dig(field + " pixel_agg", getf([srcs[0], col], sens, pixel_agg="mean"))
    df = getf([col, srcs[0]], sens[2], output="dataframe")
    print(field, "df", df.shape, int(df["path"].max()))
    dig(field + " df values", df[[field + k for k in "xyz"]].to_numpy())
    compare(field + " after collection runs", srcs + sens, snap2)
    # collection that holds sources and sensors, used through its own method
    mixed = magpy.Collection(srcs[0], srcs[2], sens[1])
    dig(field + " mixed collection method", getattr(mixed, "get" + field)())
    compare(field + " after mixed", [srcs[0], srcs[2], sens[1]], [snap2[0], snap2[2], snap2[6]])

# --- error paths: everything must be restored, the same exception must come out -----------
class Boom(Exception):
    pass


ARMED = {"on": False}


def raiser(exc):
    def field_func(field, observers):
        if ARMED["on"]:
            raise exc
        return observers * 1.0

    return field_func


def bad_shape(field, observers):
    return observers[:1] if ARMED["on"] else observers * 1.0


cases = {
    "field_func missing": lambda: magpy.misc.CustomSource(),
    "field_func returns None": lambda: magpy.misc.CustomSource(field_func=lambda field, observers: None),
    "field_func raises Boom": lambda: magpy.misc.CustomSource(field_func=raiser(Boom("boom"))),
    "field_func raises StopIteration": lambda: magpy.misc.CustomSource(field_func=raiser(StopIteration("stop"))),
    "field_func raises KeyboardInterrupt": lambda: magpy.misc.CustomSource(field_func=raiser(KeyboardInterrupt())),
    "field_func raises GeneratorExit": lambda: magpy.misc.CustomSource(field_func=raiser(GeneratorExit())),
    "field_func raises RuntimeError": lambda: magpy.misc.CustomSource(field_func=raiser(RuntimeError("generator didn't stop"))),
    "field_func bad shape": lambda: magpy.misc.CustomSource(field_func=bad_shape),
}
for name, make in cases.items():
    srcs, sens = mk()
    bad = make()
    bad.move([(1, 0, 0)] * 2, start=0)
    allobj = srcs + sens + [bad]
    snap = snapshot(allobj)
    ARMED["on"] = True
    err(name, lambda: magpy.getB([srcs[1], magpy.Collection(srcs[4], bad), srcs[0]], sens))
    ARMED["on"] = False
    compare(name, allobj, snap)
    # and the objects still work afterwards
    dig(name + " afterwards", magpy.getH(srcs, sens, sumup=True))

# errors raised before any path is touched
srcs, sens = mk()
snap = snapshot(srcs + sens)
err("bad observers", lambda: magpy.getB(srcs, "nope"))
err("different pixel shapes", lambda: magpy.getB(srcs, [sens[0], magpy.Sensor()]))
err("bad output", lambda: magpy.getB(srcs, sens, output="xml"))
err("bad pixel_agg", lambda: magpy.getB(srcs, sens, pixel_agg="nope"))
err("empty collection", lambda: magpy.getB([srcs[0], magpy.Collection()], sens))
compare("after early errors", srcs + sens, snap)

# broken object: orientation path shorter than position path -> tiling itself may fail/behave oddly
srcs, sens = mk()
srcs[4]._orientation = R.from_quat([[0, 0, 0, 1.0]] * 2)
snap = snapshot(srcs + sens)
err("inconsistent path", lambda: dig("inconsistent path result", magpy.getB(srcs, sens[1])))
compare("inconsistent path", srcs + sens, snap)
srcs, sens = mk()
srcs[1]._position = srcs[1]._position[:, :2]  # tiling by concatenate still works, computation fails
snap = snapshot(srcs + sens)
err("bad position shape", lambda: magpy.getB(srcs, sens[1]))
compare("bad position shape", srcs + sens, snap)
srcs, sens = mk()
srcs[0]._position = np.zeros(3)  # 1D position: np.concatenate in the tiling step fails
snap = snapshot(srcs + sens)
err("1D position", lambda: magpy.getB(srcs, sens[1]))
compare("1D position", srcs + sens, snap)
