import os, sys; sys.path.insert(0, os.getcwd())
import hashlib
import re
import warnings

import numpy as np

import magpylib as magpy
from magpylib._src.input_checks import check_format_input_observers

warnings.simplefilter("ignore")


def h(x):
    x = np.ascontiguousarray(np.asarray(x))
    return f"{x.dtype}{x.shape} {hashlib.sha1(x.tobytes()).hexdigest()[:12]}"


def clean(err):
    txt = re.sub(r"0x[0-9a-f]+|id=\d+", "ADDR", str(err).replace("\n", " / "))
    return txt if len(txt) < 400 else txt[:150] + " ... " + txt[-200:]


def chain(err):
    """type names along __cause__ / __context__"""
    out = []
    cur = err
    while cur is not None and len(out) < 6:
        out.append(
            f"{type(cur).__name__}(cause={type(cur.__cause__).__name__},suppress={cur.__suppress_context__})"
        )
        cur = cur.__context__
    return " <- ".join(out)


s_nopix = magpy.Sensor(position=(1, 2, 3))
s_pix1 = magpy.Sensor(pixel=(0.1, 0.2, 0.3))
s_pix2 = magpy.Sensor(pixel=[(0.1, 0.2, 0.3), (0.4, 0.5, 0.6)])
s_pix2b = magpy.Sensor(pixel=[(1, 2, 3), (4, 5, 6)], position=[(0, 0, 0), (1, 1, 1)])
s_pix13 = magpy.Sensor(pixel=[(0.1, 0.2, 0.3)])
s_pix223 = magpy.Sensor(pixel=np.arange(12).reshape(2, 2, 3))
cub = magpy.magnet.Cuboid(polarization=(0.1, 0.2, 0.3), dimension=(1, 2, 3))
c_sens = magpy.Collection(s_pix2.copy(), s_pix2b.copy())
c_nested = magpy.Collection(s_nopix.copy(), magpy.Collection(s_pix1.copy(), magpy.Collection(s_pix13.copy())))
c_mixed = magpy.Collection(cub.copy(), s_pix2.copy())
c_src = magpy.Collection(cub.copy())
c_empty = magpy.Collection()

NAMES = {id(v): k for k, v in list(globals().items()) if isinstance(v, (magpy.Sensor, magpy.Collection))}


def describe(sens):
    nm = NAMES.get(id(sens))
    if nm is None and sens.parent is not None:
        nm = f"child{sens.parent.children.index(sens)}of({NAMES.get(id(sens.parent), '?')})"
    if nm is None:
        nm = "new"
    pix = "None" if sens.pixel is None else h(sens.pixel)
    return f"{nm}[pix={pix} pos={h(sens.position)}]"


def attempt(label, func, *args, show=None, **kwargs):
    try:
        res = func(*args, **kwargs)
    except Exception as err:  # pylint: disable=broad-except
        print(f"{label}: EXC {chain(err)}: {clean(err)}")
        return
    print(f"{label}: {show(res) if show else h(res)}")


def show_obs(res):
    sensors, shapes = res
    return (
        f"{type(sensors).__name__} n={len(sensors)} shapes={shapes!r} {type(shapes).__name__} "
        + " ".join(describe(s) for s in sensors)
    )


INPUTS = {
    # plain position vectors
    "posvec tuple (3,)": (1, 2, 3),
    "posvec list (3,)": [1.5, 2, 3],
    "posvec int array (3,)": np.array([1, 2, 3]),
    "posvec (1,3)": [(1, 2, 3)],
    "posvec (4,3)": np.arange(12.0).reshape(4, 3),
    "posvec (2,2,3)": np.arange(12).reshape(2, 2, 3).tolist(),
    "posvec strings": ["1", "2", "3"],
    "posvec bool": [True, False, True],
    # objects
    "bare sensor": s_pix2,
    "bare sensor nopix": s_nopix,
    "bare collection": c_sens,
    "bare nested collection": c_nested,
    "bare mixed collection": c_mixed,
    "sensor list": [s_pix2, s_pix2b],
    "sensor tuple": (s_pix2, s_pix2b),
    "sensor duplicates": [s_pix2, s_pix2, s_pix2b, s_pix2],
    "(3,) / (1,3) / no pixel": [s_nopix, s_pix1, s_pix13],
    "sensor + collection + posvec": [s_pix2, c_sens, [(1, 2, 3), (4, 5, 6)], c_mixed],
    "posvec first": [(1, 2, 3), s_nopix, c_nested],
    "posvecs of same shape, ragged container": [[(1, 2, 3), (4, 5, 6)], s_pix2, np.zeros((2, 3))],
    "object array": np.array([s_pix2, s_pix2b], dtype=object),
    "different shapes": [s_pix2, s_pix223],
    "different shapes posvec": [s_nopix, [(1, 2, 3), (4, 5, 6)]],
    # errors
    "None": None,
    "int": 1,
    "string": "abc",
    "set": {1, 2, 3},
    "generator": (x for x in [(1, 2, 3)]),
    "source": cub,
    "empty list": [],
    "empty tuple": (),
    "empty array": np.array([]),
    "empty (0,3)": np.zeros((0, 3)),
    "bad shape (2,)": (1, 2),
    "bad shape (2,2)": [(1, 2), (3, 4)],
    "0-dim inside": [s_pix2, 1],
    "source inside": [s_pix2, cub],
    "string inside": [s_pix2, "abc"],
    "None inside": [None, s_pix2],
    "bad posvec inside": [s_pix2, (1, 2)],
    "ragged posvec inside": [s_pix2, [(1, 2, 3), (1, 2)]],
    "source collection": c_src,
    "source collection inside": [s_pix2, c_src],
    "empty collection": c_empty,
    "empty collection inside": [c_empty, s_pix2],
    "bad after bad": [c_src, 1],
    "ragged numbers": [(1, 2, 3), (1, 2)],
    "nested sensor list": [[s_pix2, s_pix2b]],
}


def regen(lab, inp):
    return (x for x in [(1, 2, 3)]) if lab == "generator" else inp


print("== check_format_input_observers directly")
for lab, inp in INPUTS.items():
    for agg in (None, "mean"):
        attempt(f"[{lab}] pixel_agg={agg}", check_format_input_observers, regen(lab, inp), agg, show=show_obs)
attempt("[default pixel_agg]", check_format_input_observers, [s_pix2, s_pix223], show=show_obs)
attempt("[keyword]", check_format_input_observers, inp=[s_pix2, s_pix223], pixel_agg="max", show=show_obs)

print("== through the interfaces")
for lab, inp in INPUTS.items():
    attempt(f"getB [{lab}]", magpy.getB, cub, regen(lab, inp))
    attempt(f"cub.getH [{lab}] pixel_agg", cub.getH, regen(lab, inp), pixel_agg="mean")
for lab in ("sensor list", "sensor + collection + posvec", "different shapes", "string inside", "source collection inside"):
    inp = INPUTS[lab]
    attempt(f"cub.getJ(*inputs) [{lab}]", cub.getJ, *inp)
    attempt(f"coll.getM [{lab}]", magpy.Collection(cub.copy()).getM, *inp)
    attempt(f"dataframe [{lab}]", magpy.getB, cub, inp, output="dataframe", pixel_agg="min",
            show=lambda df: f"df{df.shape} {h(df.iloc[:, -3:].to_numpy())}")
attempt("functional interface", magpy.getB, "Cuboid", [(1, 2, 3), (2, 3, 4)], polarization=(0.1, 0.2, 0.3), dimension=(1, 2, 3))
print("sensor states:", " ".join(describe(s) for s in (s_nopix, s_pix1, s_pix2, s_pix2b, s_pix13, s_pix223)))
