import os, sys; sys.path.insert(0, os.getcwd())
# Twin3-2: getBH_level2 pre-flight warnings (`in_out` ignored, open / unchecked meshes) moved to helpers
import hashlib
import re
import warnings

import numpy as np

import magpylib as magpy
from magpylib._src.fields import field_wrap_BH


def h(a):
    a = np.ascontiguousarray(a)
    return hashlib.sha1(a.tobytes()).hexdigest()[:12] + str(a.shape)


def clean(msg):
    msg = re.sub(r"0x[0-9a-f]+", "0x?", re.sub(r"id=\d+", "id=?", str(msg)))
    return msg.replace("\n", " | ")[:170]


def snap(objs):
    out = []
    for o in objs:
        rec = [h(o._position), h(o._orientation.as_quat()), None if o._parent is None else id(o._parent)]
        for name in ("_pixel", "_vertices", "_faces", "_polarization", "_magnetization", "_dimension"):
            v = getattr(o, name, None)
            rec.append(None if v is None else h(v))
        for name in ("_status_open", "_status_disconnected", "_status_selfintersecting", "_status_reoriented"):
            rec.append(getattr(o, name, "n/a"))
        out.append(tuple(rec))
    return out


def reset_registry():
    field_wrap_BH.__dict__.pop("__warningregistry__", None)


vv = ((0, 0, 0), (1, 0, 0), (0, 1, 0), (0, 0, 1))
closed_faces = ((0, 1, 2), (0, 1, 3), (0, 2, 3), (1, 2, 3))
open_faces = ((0, 1, 2), (0, 1, 3), (0, 2, 3))


def mesh(faces, label, **kw):
    with warnings.catch_warnings():
        warnings.simplefilter("ignore")
        return magpy.magnet.TriangularMesh(
            polarization=(0.1, 0.2, 0.3), vertices=vv, faces=faces, style_label=label, **kw
        )


m_closed = mesh(closed_faces, "closed")
m_open = mesh(open_faces, "open", check_open="ignore", reorient_faces="ignore")
m_unchecked = mesh(closed_faces, "unchecked", check_open="skip", reorient_faces="skip")
m_unchecked_open = mesh(
    open_faces, "unchecked-open", check_open="skip", reorient_faces="skip", check_disconnected="skip"
)
m_open.move([(0.1, 0, 0), (0.2, 0, 0)])
tet = magpy.magnet.Tetrahedron(polarization=(0.1, 0.2, 0.3), vertices=[(0, 0, 0), (1, 0, 0), (0, 0, 1), (0, 1, 0)])
cub = magpy.magnet.Cuboid(polarization=(0.1, 0.2, 0.3), dimension=(1, 2, 3), style_label="cub")
cub.rotate_from_angax([10, 20, 30], "z")
loop = magpy.current.Circle(current=1, diameter=2)
nodim = magpy.magnet.Cuboid(polarization=(1, 2, 3))
sens = magpy.Sensor(pixel=[(2, 2, 2), (0.1, 0.1, 0.1)], position=(0.3, 0.2, 0.1))
col = magpy.Collection(cub, m_unchecked, style_label="col")
objs = [m_closed, m_open, m_unchecked, m_unchecked_open, tet, cub, loop, nodim, sens, col]
print("status_open:", [getattr(o, "status_open", "n/a") for o in objs])


def run(tag, fn, mode="always"):
    before = snap(objs)
    orients = [o._orientation for o in objs]
    for rep in range(2):
        with warnings.catch_warnings(record=True) as rec:
            warnings.simplefilter(mode)
            try:
                res = fn()
                print(f"{tag}[{mode},{rep}] ->", h(res), np.round(np.ravel(res)[:3], 10).tolist())
            except Exception as err:  # pylint: disable=broad-except
                ctx = type(err.__context__).__name__ if err.__context__ is not None else None
                print(f"{tag}[{mode},{rep}] raised {type(err).__name__} ctx={ctx} :: {clean(err)}")
        for w in rec:
            print(f"   warning {w.category.__name__} in {os.path.basename(w.filename)}: {clean(w.message)}")
        print(
            "   n_warn=%d state-same=%s orient-identity=%s"
            % (len(rec), before == snap(objs), all(o._orientation is r for o, r in zip(objs, orients)))
        )


obs = [(0.1, 0.1, 0.1), (2, 2, 2)]
for mode in ("always", "error"):
    reset_registry()
    for field in "BHJM":
        f = getattr(magpy, "get" + field)
        run(f"get{field} all meshes", lambda f=f: f([m_closed, m_open, cub, m_unchecked, m_unchecked_open], sens), mode)
        run(f"get{field} closed only", lambda f=f: f([m_closed, cub], obs), mode)
        run(f"get{field} same open mesh twice + collection", lambda f=f: f([m_open, col, m_open], obs), mode)
        for in_out in ("auto", "inside", "outside"):
            run(f"get{field} in_out={in_out} no tet", lambda f=f, io=in_out: f([cub, loop], obs, in_out=io), mode)
            run(f"get{field} in_out={in_out} tet", lambda f=f, io=in_out: f([cub, tet], obs, in_out=io), mode)
            run(f"get{field} in_out={in_out} closed mesh", lambda f=f, io=in_out: f(m_closed, obs, in_out=io), mode)
    run("getB in_out + open mesh", lambda: magpy.getB([loop, m_unchecked_open], sens, in_out="outside"), mode)
    run("getB in_out ignored + unchecked in collection", lambda: magpy.getB([loop, col], sens, in_out="inside", sumup=True), mode)
    run("cub.getB in_out", lambda: cub.getB(obs, in_out="inside"), mode)
    run("m_open.getB", lambda: m_open.getB(sens), mode)
    run("m_open.getH", lambda: m_open.getH(sens), mode)
    run("sens.getB", lambda: sens.getB(m_unchecked, cub), mode)
    # odd in_out values (compared with != "auto" only, then handed to the core functions)
    run("getB in_out=None", lambda: magpy.getB(cub, obs, in_out=None), mode)
    run("getB in_out=bad tet", lambda: magpy.getB(tet, obs, in_out="bad"), mode)
    run("getB in_out=bad cub", lambda: magpy.getB(cub, obs, in_out="bad"), mode)
    # failures before the warnings: nothing is warned about
    run("getB missing dimension", lambda: magpy.getB([m_open, nodim], obs, in_out="inside"), mode)
    run("getB bad source", lambda: magpy.getB([m_open, 3], obs, in_out="inside"), mode)
    # failures after the warnings
    run("getB bad observers", lambda: magpy.getB([m_open, cub], "nope", in_out="inside"), mode)
    run("getB bad pixel_agg", lambda: magpy.getB([m_unchecked], obs, pixel_agg="nope"), mode)
    run("getB bad output", lambda: magpy.getB([m_unchecked, cub], sens, output="nope"), mode)
    # functional interface never reaches the checks
    run("getB dict", lambda: magpy.getB("Cuboid", obs, dimension=(1, 2, 3), polarization=(1, 2, 3), in_out="inside"), mode)

# de-duplication of repeated warnings with the standard filters (registry of the module)
for mode in ("default", "module", "once"):
    reset_registry()
    run("dedup getB", lambda: magpy.getB([m_open, m_unchecked, m_open, loop], obs), mode)
    run("dedup getB in_out", lambda: magpy.getB([cub, loop], obs, in_out="inside"), mode)
reset_registry()
