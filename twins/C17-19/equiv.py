import os, sys; sys.path.insert(0, os.getcwd())
import hashlib
import re
import warnings
from fractions import Fraction

import numpy as np

import magpylib as magpy

warnings.simplefilter("ignore")


def hexd(a):
    a = np.ascontiguousarray(np.asarray(a, dtype=float))
    return f"{a.shape} {hashlib.md5(a.tobytes()).hexdigest()[:12]} {np.round(a, 10).tolist()}"


def run(f):
    try:
        r = f()
        out = "OK" if r is None else repr(r)
    except Exception as e:  # pylint: disable=broad-except
        out = f"EXC {type(e).__name__}: {e!s} | cause={type(e.__cause__).__name__}"
    return re.sub(r"0x[0-9a-f]+|id=\d+", "ADDR", out)


def emit(*args):
    print(re.sub(r"0x[0-9a-f]+|id=\d+", "ADDR", " ".join(str(a) for a in args)))


def state(o):
    return "pos " + hexd(o.position) + " ori " + hexd(o.orientation.as_quat())


class LoudFloat:
    def __float__(self):
        raise RuntimeError("no float for you")


angles = [
    0, 1, 45, -30.5, 720, 1e-12, 1e300, True, np.float32(12.5), np.int8(-90), Fraction(45, 2), np.inf, np.nan, 1j,
    (10, 20, 30), [15], [], np.array([5.0, -5.0]), np.arange(4), np.linspace(0, 360, 5), (1, 2.5, True), np.array([1, 2], dtype=np.int8),
    None, "45", [[1, 2]], np.array(3.0), (1, "a"), (1, None), (1, LoudFloat()), {1, 2}, range(3), np.array([np.inf, 1.0]), np.array([1e300, 2.0]),
]
axes = ["x", "y", "z", (0, 0, 1), (1, 2, 3), [0, -4, 0], np.array((1e-200, 0, 0)), np.array((1e200, 1e200, 0)), (1, 1, 1), (0, 0, 0), "w", (1, 2), None,
        (np.inf, 0, 0), (np.nan, 1, 0), np.array([3, 4, 0], dtype=np.int16)]

emit("== rotate_from_angax: angle x axis x degrees (bit-exact digests)")
for ang in angles:
    for ax in axes:
        for deg in (True, False):
            o = magpy.Sensor(position=(1, 2, 3))
            r = run(lambda: o.rotate_from_angax(ang, ax, anchor=(0.5, 0, -1), degrees=deg) and None)
            emit(type(ang).__name__, repr(ang)[:34].replace("\n", " "), "| ax", repr(ax)[:30], "| deg", deg, "|", r, "|", state(o))

emit("== objects with paths, anchors, start, children")
mk = {
    "Cuboid": lambda: magpy.magnet.Cuboid(polarization=(0, 0, 1), dimension=(1, 2, 3), position=[(1, 0, 0), (2, 0, 0), (3, 0, 0)]),
    "Circle": lambda: magpy.current.Circle(current=1, diameter=2).rotate_from_angax(33, (1, 2, 3)),
    "Coll": lambda: magpy.Collection(magpy.Sensor(position=(1, 1, 1)), magpy.misc.Dipole(moment=(1, 2, 3), position=[(0, 0, 0), (0, 1, 0)]), position=(0, 0, 1)),
}
calls = [
    dict(angle=90, axis="z"), dict(angle=90, axis="z", anchor=0), dict(angle=[10, 20, 30], axis=(1, 1, 0)), dict(angle=[10, 20, 30], axis="y", anchor=(1, 2, 3), start=1),
    dict(angle=np.pi / 3, axis=(0, 1, 1), degrees=False), dict(angle=[0.1, 0.2], axis="x", anchor=[(1, 0, 0), (2, 0, 0)], start=-1, degrees=False),
    dict(angle=-45, axis=[0, 0, -1], start=0), dict(angle=(1, 2, 3, 4, 5), axis="z", start=-7), dict(angle=12, axis="x", degrees=1), dict(angle=12, axis="x", start=1.0),
    dict(angle=12, axis="x", anchor="a"), dict(angle=12, axis="x", anchor=(1, 2)),
]
for name, f in mk.items():
    for kw in calls:
        o = f()
        base = state(o)
        r = run(lambda: o.rotate_from_angax(**kw))
        s = state(o)
        emit(name, {k: (v.tolist() if isinstance(v, np.ndarray) else v) for k, v in kw.items()}, "|", r, "|", "SAME" if s == base else s)
        for c in getattr(o, "children", []):
            emit("    child", state(c))
    o = f()
    emit(name, "positional", run(lambda: o.rotate_from_angax(30, "y", (1, 0, 0), 0, True)), state(o))
    emit(name, "field", hexd(magpy.getB(o, (0.3, 0.4, 0.5))) if name != "Coll" else hexd(o.children[0].getB(o.children[1])))

emit("== inputs are not modified, chained calls accumulate")
ang = np.array([10.0, 20.0])
ax = np.array([0.0, 3.0, 4.0])
s = magpy.Sensor()
s.rotate_from_angax(ang, ax).rotate_from_angax(ang, ax, degrees=False).rotate_from_angax(5, ax)
emit(ang.tolist(), ax.tolist(), state(s))
lst = [10, 20]
s.rotate_from_angax(lst, [0, 0, 2], start=0)
emit(lst, state(s))
