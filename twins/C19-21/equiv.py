import os, sys; sys.path.insert(0, os.getcwd())
# --- digest helpers (arrays are compared bitwise: dtype, shape, bytes) ---
import hashlib
import re
import warnings

import numpy as np
from scipy.spatial.transform import Rotation as R

warnings.simplefilter("ignore")


def canon(o):
    """deterministic text of nested structures; arrays by dtype/shape/bytes"""
    if isinstance(o, dict):
        return "{" + ",".join(f"{canon(k)}:{canon(v)}" for k, v in o.items()) + "}"
    if isinstance(o, (list, tuple)):
        return type(o).__name__ + "(" + ",".join(canon(v) for v in o) + ")"
    if isinstance(o, np.ndarray):
        if o.dtype.kind == "O":
            return f"ndO{o.shape}[" + ",".join(canon(v) for v in o.ravel().tolist()) + "]"
        data = np.ascontiguousarray(o)
        if data.dtype.kind == "f":
            data = data + 0.0  # -0.0 stays, nothing else changes
        return f"nd<{o.dtype}{o.shape}{hashlib.sha256(data.tobytes()).hexdigest()[:12]}>"
    if isinstance(o, (bool, np.bool_)):
        return f"b{bool(o)}"
    if isinstance(o, (float, np.floating)):
        return f"f{type(o).__name__}{float(o).hex()}"
    if isinstance(o, (int, np.integer)):
        return f"i{type(o).__name__}{int(o)}"
    if o is None:
        return "None"
    if isinstance(o, str):
        return "s" + repr(re.sub(r"id=\d+|0x[0-9a-f]+", "#", o))
    if isinstance(o, R):
        return "rot" + canon(o.as_quat())
    return re.sub(r"id=\d+|0x[0-9a-f]+", "#", repr(o))


def digest(label, o):
    s = canon(o)
    print(f"{label}: {hashlib.sha256(s.encode()).hexdigest()[:16]} len={len(s)}")
    return s


def attempt(label, func, show=False):
    try:
        res = func()
    except BaseException as err:  # pylint: disable=broad-except
        msg = re.sub(r"id=\d+|0x[0-9a-f]+", "#", str(err))
        print(f"{label}: EXC {type(err).__name__}: {msg}")
        return None
    s = digest(label, res)
    if show:
        print("   ", s[:300])
    return res

# --- end of helpers ---
import copy

import matplotlib

matplotlib.use("Agg")
import numpy as np

import magpylib as magpy
from magpylib._src.display.backend_matplotlib import generic_trace_to_matplotlib
from magpylib._src.display.traces_generic import get_frames
from magpylib._src.display.traces_utility import subdivide_mesh_by_facecolor


def mesh(facecolor, as_list=False, **extra):
    """two stacked tetrahedra + loose vertices, 7 faces"""
    x = np.array([0.0, 1.0, 0.0, 0.0, 1.0, 2.0, 3.0, 9.0])
    y = np.array([0.0, 0.0, 1.0, 0.0, 1.0, 2.0, 1.0, 9.0])
    z = np.array([0.0, 0.0, 0.0, 1.0, 1.0, 2.0, 0.5, 9.0])
    i = [0, 0, 0, 1, 1, 4, 6]
    j = [1, 2, 3, 2, 4, 5, 5]
    k = [2, 3, 1, 3, 2, 6, 4]
    if not as_list:
        i, j, k = (np.array(v) for v in (i, j, k))
    return {"type": "mesh3d", "x": x, "y": y, "z": z, "i": i, "j": j, "k": k,
            "facecolor": facecolor, **extra}


def run(trace):
    before_keys = list(trace)
    fc_before = trace["facecolor"] if "facecolor" in trace else None
    res = subdivide_mesh_by_facecolor(trace)
    return {
        "res": res,
        "input_after": trace,
        "keys_same": before_keys == list(trace),
        "fc_replaced": trace["facecolor"] is not fc_before,
        "aliases": [[sub[k] is trace[k] for k in sub if k in trace] for sub in res],
    }


cases = {
    "two colors": mesh(["red", "blue", "red", "blue", "red", "red", "blue"]),
    "with None": mesh(["red", None, "red", None, "g", "g", None]),
    "all None": mesh([None] * 7),
    "one color": mesh(["k"] * 7),
    "all distinct": mesh(list("abcdefg")),
    "array colors": mesh(np.array(["r", "b", "r", "b", "r", "b", "r"])),
    "object array": mesh(np.array(["r", None, "r", "b", "r", "b", None], dtype=object)),
    "numeric colors": mesh([1, 2, 1, 2, 3, 3, 1]),
    "float colors": mesh([0.5, 0.25, 0.5, 0.25, 0.5, 0.5, 0.5]),
    "list ijk": mesh(["red", "blue", "red", "blue", "red", "red", "blue"], as_list=True),
    "existing color": mesh(["r", "b", "r", "b", "r", "b", "r"], color="green", opacity=0.3),
    "color before": {"color": "green", "name": "n", **mesh(["r", "b"] * 3 + ["r"])},
    "extra keys": mesh(["r", "b", "r", "b", "r", "b", "r"], legendgroup="lg", row=1, col=2,
                       intensity=np.arange(8.0)),
    "tuple colors": mesh(("r", "b", "r", "b", "r", "b", "r")),
    "rgb strings": mesh(["rgb(1,2,3)", "rgb(238,238,238)"] * 3 + ["black"]),
    "black and None": mesh(["black", None, "black", None, "a", "a", None]),
}
for label, tr in cases.items():
    attempt(f"direct {label}", lambda tr=tr: run(tr), show=label in ("two colors", "with None"))

# error / edge paths
err = {
    "empty facecolor": {**mesh([]), },
    "empty facecolor, no ijk": {"type": "mesh3d", "facecolor": []},
    "no facecolor": {k: v for k, v in mesh([]).items() if k != "facecolor"},
    "no i": {k: v for k, v in mesh(["r"] * 7).items() if k != "i"},
    "no k": {k: v for k, v in mesh(["r"] * 7).items() if k != "k"},
    "no y": {k: v for k, v in mesh(["r"] * 7).items() if k != "y"},
    "no i, no x": {k: v for k, v in mesh(["r"] * 7).items() if k not in "ix"},
    "x list": {**mesh(["r"] * 7), "x": [0.0] * 8},
    "short facecolor": mesh(["r", "b"]),
    "long facecolor": mesh(["r", "b"] * 5),
    "scalar facecolor": mesh("red"),
    "None facecolor": mesh(None),
    "2d facecolor": mesh([["r", "b"]] * 7),
    "short x": {**mesh(["r"] * 7), "x": np.arange(3.0)},
    "negative index": {**mesh(["r"] * 7), "i": np.array([0, 0, 0, 1, 1, 4, -1])},
    "float index": {**mesh(["r"] * 7), "i": np.array([0.0, 0, 0, 1, 1, 4, 6])},
    "mixed None/number": mesh([1, None, 1, None, 2, 2, 2]),
}
for label, tr in err.items():
    attempt(f"edge {label}", lambda tr=tr: run(tr))


class NoCopy(dict):
    copy = None


attempt("edge no copy, no i", lambda: run(NoCopy({k: v for k, v in mesh(["r"] * 7).items() if k != "i"})))
attempt("edge not a dict", lambda: subdivide_mesh_by_facecolor([1, 2]))

# through the matplotlib translation
for label in ("two colors", "with None", "existing color"):
    tr = {
        "two colors": mesh(["red", "blue", "red", "blue", "red", "red", "blue"]),
        "with None": mesh(["red", None, "red", None, "g", "g", None], opacity=0.5),
        "existing color": mesh(["r", "b", "r", "b", "r", "b", "r"], color="green", opacity=0.3),
    }[label]
    for showlegend in (True, False):
        tr2 = {**tr, "showlegend": showlegend, "name": "m"}
        res = generic_trace_to_matplotlib(tr2)
        for r in res:
            r.pop("legend_handler", None)
        digest(f"mpl {label} showlegend={showlegend}", res)

# full models: sensors (facecolor meshes) and magnets, matplotlib data and figure
sens = magpy.Sensor(pixel=[(0, 0, 0), (0, 0, 1), (1, 0, 0)], position=[(0, 0, 0), (1, 1, 1), (2, 0, 1)])
sens.rotate_from_angax([0, 30, 60], "y", start=0)
sens2 = magpy.Sensor(position=(3, 3, 3), style_arrows_x_color="orange", style_color="pink")
cube = magpy.magnet.Cuboid(polarization=(0, 0, 1), dimension=(1, 2, 3), position=(-2, 0, 0))
cube.style.magnetization.color.mode = "tricolor"
coll = magpy.Collection(sens2, cube)
coll.move([(0, 0, 0), (0, 0, 1)], start=0)


def snapshot(objs):
    return canon([(o.position, o.orientation, o.style.as_dict()) for o in objs]) + canon(
        magpy.defaults.as_dict() if hasattr(magpy.defaults, "as_dict") else repr(magpy.defaults)
    )


before = snapshot([sens, sens2, cube, coll])
for frames in (None, 2, [0, 2], [1]):
    kw = {} if frames is None else {"style_path_frames": frames}
    import matplotlib.pyplot as plt

    fig = plt.figure()
    ax = fig.add_subplot(projection="3d")
    magpy.show(sens, coll, canvas=ax, backend="matplotlib", **kw)
    out = []
    for c in ax.collections:
        vec = getattr(c, "_vec", None)
        if vec is None:
            vec = getattr(c, "_faces", None)
        out.append(("coll", type(c).__name__, np.array(vec), np.array(c.get_facecolor())))
    for l in ax.lines:
        out.append(("line", [np.array(d) for d in l.get_data_3d()], l.get_color()))
    digest(f"mpl figure frames={frames}", out)
    print("    n collections", len(ax.collections), "n lines", len(ax.lines))
    plt.close(fig)
print("objects/defaults unchanged:", before == snapshot([sens, sens2, cube, coll]))
