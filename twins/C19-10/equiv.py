import os, sys; sys.path.insert(0, os.getcwd())
import hashlib
import json
import re
import warnings

import numpy as np
from scipy.spatial.transform import Rotation as R

import magpylib as magpy
from magpylib._src.display.traces_generic import get_frames
from magpylib._src.display.traces_utility import DEFAULT_ROW_COL_PARAMS
from magpylib._src.display.traces_utility import process_show_input_objs

warnings.simplefilter("ignore")


def norm(o):
    """deterministic, JSON-able view of nested trace structures"""
    if isinstance(o, dict):
        return {str(k): norm(v) for k, v in sorted(o.items(), key=lambda kv: str(kv[0]))}
    if isinstance(o, (list, tuple)):
        return [type(o).__name__, [norm(v) for v in o]]
    if isinstance(o, np.ndarray):
        if o.dtype.kind in "fiu":
            return ["nd", list(o.shape), np.round(o.astype(float), 9).tolist()]
        return ["nd", list(o.shape), [norm(v) for v in o.ravel().tolist()]]
    if isinstance(o, (float, np.floating)):
        return round(float(o), 9)
    if isinstance(o, (int, np.integer, bool, type(None))):
        return o
    if isinstance(o, str):
        return re.sub(r"id=\d+|0x[0-9a-f]+", "#", o)
    if isinstance(o, R):
        return ["rot", np.round(o.as_quat(), 9).tolist()]
    return re.sub(r"id=\d+|0x[0-9a-f]+", "#", repr(o))


def digest(label, o):
    s = json.dumps(norm(o), sort_keys=True)
    print(f"{label}: {hashlib.sha256(s.encode()).hexdigest()[:16]} len={len(s)}")
    return s


def attempt(label, func):
    try:
        res = func()
    except Exception as err:  # pylint: disable=broad-except
        print(f"{label}: EXC {type(err).__name__}: {err}")
        return None
    digest(label, res)
    return res


def model(*objs, backend="plotly", colorgrad=True, **kw):
    objects, *_ = process_show_input_objs(
        objs, **{k: v for k, v in kw.items() if k in DEFAULT_ROW_COL_PARAMS})
    style_kw = {k: v for k, v in kw.items() if k.startswith("style")}
    kw = {k: v for k, v in kw.items() if k not in DEFAULT_ROW_COL_PARAMS and k not in style_kw}
    return get_frames(objects, backend=backend, supports_colorgradient=colorgrad,
                      style_kwargs=style_kw, **kw)


import plotly.graph_objects as go

from magpylib._src.display.backend_plotly import display_plotly
from magpylib._src.display.backend_plotly import generic_trace_to_plotly

SHOW_CALLS = []
go.Figure.show = lambda self, *args, **kwargs: SHOW_CALLS.append((len(self.data), args, kwargs))

# --- generic_trace_to_plotly: in-place translation of scatter traces only
traces = {
    "mesh": {"type": "mesh3d", "line_width": 2, "line_dash": "dashed", "marker_symbol": "o", "marker_size": 3},
    "scatter3d full": {"type": "scatter3d", "line_width": 2, "line_dash": "dashed", "marker_symbol": "o",
                       "marker_size": [1, 2, 3]},
    "scatter 2d": {"type": "scatter", "line_width": 0, "line_dash": None, "marker_symbol": None},
    "scatter unknown": {"type": "scatter3d", "line_width": None, "line_dash": "weird", "marker_symbol": "?",
                        "marker_size": 10},
    "scatter tuple dash": {"type": "scatter3d", "line_dash": (0, (1, 1)), "marker_symbol": "D"},
    "scatter bare": {"type": "scatter3d"},
    "other": {"type": "surface", "marker_size": 4},
}
for label, tr in traces.items():
    res = attempt(f"g2p {label}", lambda: generic_trace_to_plotly(tr))
    print("  same object returned:", res is tr if res is not None else None)
attempt("err g2p no type", lambda: generic_trace_to_plotly({"line_width": 1}))
attempt("err g2p type None", lambda: generic_trace_to_plotly({"type": None}))
attempt("err g2p unhashable dash", lambda: generic_trace_to_plotly({"type": "scatter3d", "line_dash": [1, 2]}))
attempt("err g2p marker_size str", lambda: generic_trace_to_plotly({"type": "scatter3d", "marker_size": "big"}))
attempt("err g2p line_width str", lambda: generic_trace_to_plotly({"type": "scatter3d", "line_width": "a"}))


def scene():
    cube = magpy.magnet.Cuboid(polarization=(0, 0, 1), dimension=(1, 2, 3))
    cube.position = [(0, 0, 0), (1, 2, 3), (2, 4, 6)]
    cube.rotate_from_angax([0, 45, 90], (1, 1, 0), start=0)
    loop = magpy.current.Circle(current=1, diameter=2, position=(0, 0, -2))
    sens = magpy.Sensor(pixel=[(0, 0, 0), (0, 0, 1)], position=[(4, 0, 0), (4, 1, 0), (4, 2, 0)])
    return cube, magpy.Collection(loop, sens)


def extra_scene():
    cube, coll = scene()
    cube.style.model3d.add_trace(backend="plotly", constructor="Scatter3d",
                                 kwargs={"x": [0, 1], "y": [0, 0], "z": [0, 9], "mode": "lines"})
    return cube, coll


def figdict(fig):
    d = fig.to_dict()
    return {"data": d["data"], "frames": d.get("frames"), "layout": d["layout"]}


def snapshot(objs):
    flat = [o for obj in objs for o in ([obj, *obj.children_all] if hasattr(obj, "children_all") else [obj])]
    return json.dumps(norm([[o.style.as_dict(), o.position, o.orientation] for o in flat]
                           + [magpy.defaults.as_dict()]))


# --- display_plotly through show: new figure / given canvas / subplots / animation / extra traces
def run_show(label, make_scene, **kw):
    objs = make_scene()
    before = snapshot(objs)
    attempt(label, lambda: figdict(magpy.show(*objs, backend="plotly", return_fig=True, **kw)))
    print("  unchanged:", snapshot(objs) == before)


run_show("show default", scene)
run_show("show frames+units", scene, style_path_frames=1, units_length="mm", zoom=1)
run_show("show extra plotly trace", extra_scene)
run_show("show animation", scene, animation=True)
run_show("show animation slider", extra_scene, animation=2, animation_slider=True)
run_show("show canvas", scene, canvas=go.Figure())
run_show("show canvas forced update", extra_scene, canvas=go.Figure(), canvas_update=True)
run_show("show fig kwargs", scene, fig_layout_title_text="my title", renderer="json")
objs = scene()
attempt("show subplots", lambda: figdict(magpy.show(
    {"objects": objs, "col": 1}, {"objects": objs, "col": 2, "output": "Bx"},
    {"objects": objs[0], "col": 1, "row": 2, "units_length": "cm"},
    backend="plotly", return_fig=True)))
from plotly.subplots import make_subplots
canvas = make_subplots(rows=1, cols=2, specs=[[{"type": "scene"}, {"type": "scene"}]])
attempt("show subplots on canvas with grid", lambda: figdict(magpy.show(
    {"objects": objs, "col": 1}, {"objects": objs[0], "col": 2}, backend="plotly", canvas=canvas, return_fig=True)))

# --- return value / figure display logic
print("return None, figure shown:", magpy.show(*scene(), backend="plotly", renderer="json"), SHOW_CALLS)
SHOW_CALLS.clear()
fig = go.Figure()
print("canvas given, no return:", magpy.show(*scene(), backend="plotly", canvas=fig), SHOW_CALLS, len(fig.data))
print("canvas given, return:", magpy.show(*scene(), backend="plotly", canvas=fig, return_fig=True) is fig, SHOW_CALLS)
print("return_fig truthy non-bool:", type(magpy.show(*scene(), backend="plotly", return_fig=1)).__name__, SHOW_CALLS)

# --- display_plotly directly on a generic model, error paths
attempt("direct", lambda: figdict(display_plotly(model(*scene()), return_fig=True)))
attempt("direct show_kwargs", lambda: display_plotly(model(*scene()), renderer="png", show_kwargs={"width": 3}))
print("  show calls:", SHOW_CALLS)
SHOW_CALLS.clear()
attempt("err subplots without specs", lambda: display_plotly(model(*scene()), max_rows=1, max_cols=2, return_fig=True))
attempt("err canvas wrong type", lambda: display_plotly(model(*scene()), canvas=object(), return_fig=True))
attempt("err canvas wrong type subplots", lambda: display_plotly(
    model(*scene()), canvas=object(), max_rows=1, max_cols=None, subplot_specs=np.array([[{"type": "scene"}]])))
attempt("err data without frames", lambda: display_plotly({}, return_fig=True))
attempt("err return_fig array", lambda: display_plotly(model(*scene()), return_fig=np.array([1, 2])))
attempt("err frame without extra traces", lambda: display_plotly(
    {"frames": [{"data": []}], "ranges": {}, "labels": {}}, return_fig=True))
print("show calls at end:", SHOW_CALLS)
