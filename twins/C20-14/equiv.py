import os, sys; sys.path.insert(0, os.getcwd())
import numpy as np

import magpylib as magpy
from magpylib._src.defaults.defaults_classes import Animation, DefaultSettings, Display
from magpylib._src.defaults.defaults_utility import get_defaults_dict

NAMES = ("fps", "maxfps", "maxframes", "time")


def run(label, func):
    try:
        res = func()
        res = f"{type(res).__name__} {res!r}"
    except BaseException as e:  # deterministic digest of the error path
        res = f"EXC {type(e).__name__}: {str(e)!r}"
    print(f"{label}: {res}")


def set_get(obj, name, val):
    setattr(obj, name, val)
    return getattr(obj, name)


class MyInt(int):
    pass


class Weird(int):
    def __gt__(self, other):
        raise KeyError("compare")

    def __repr__(self):
        return "Weird()"


# ---- class level ------------------------------------------------------------
print("properties:", list(Animation()._property_names_generator()))
for name in NAMES + ("slider", "output"):
    prop = getattr(Animation, name)
    print(name, type(prop).__name__, repr(prop.__doc__), prop.fset is not None, prop.fdel)
print("own class attributes:", sorted(k for k in vars(Animation) if not k.startswith("__")))

# ---- setters ----------------------------------------------------------------
values = [1, 25, 10**12, None, True, MyInt(4), np.int64(3), 0, -5, False, 2.0, 2.5, "3", [1], (2,), np.array(2), Weird()]
anim = Animation()
print("fresh:", anim.as_dict(), repr(anim))
for name in NAMES:
    for val in values:
        run(f"{name}={val!r}", lambda: set_get(anim, name, val))
    print("   kept after rejection:", name, getattr(anim, name), getattr(anim, "_" + name))
print("state:", anim.as_dict())
for name in NAMES:
    run(f"del {name}", lambda: delattr(anim, name))
raw = Animation.__new__(Animation)
for name in NAMES:
    run(f"unset {name}", lambda: getattr(raw, name))
run("private attribute is what the getter reads", lambda: (setattr(anim, "_fps", "direct"), anim.fps)[1])
run("frozen: new private name", lambda: setattr(anim, "_fps2", 1))
run("frozen: new name", lambda: setattr(anim, "fps2", 1))

# ---- constructor / update / copy --------------------------------------------
run("init", lambda: Animation(fps=3, maxfps=4, maxframes=5, time=6, slider=False, output="gif").as_dict())
run("init bad", lambda: Animation(fps=3, maxfps=-4))
run("init bad name", lambda: Animation(fpss=3))
a1 = Animation(fps=7)
run("update", lambda: a1.update(maxfps=9, time=2).as_dict())
run("update dict", lambda: a1.update({"maxframes": 11, "fps": None}).as_dict())
run("update bad (fps comes first and is applied)", lambda: a1.update(time=0, fps=8))
print("   state:", a1.as_dict())
a2 = a1.copy()
a2.fps = 99
print("copy independent:", a1.fps, a2.fps)
run("Display(animation=dict)", lambda: Display(animation={"fps": 12, "time": 3}).animation.as_dict())
run("Display(animation_fps)", lambda: Display(animation_fps=13).animation.as_dict())
run("Display bad", lambda: Display(animation_maxframes=0))

# ---- library defaults -------------------------------------------------------
dflt = magpy.defaults.display.animation
print("defaults:", dflt.as_dict())
magpy.defaults.display.animation.fps = 1
magpy.defaults.display.animation.update(maxfps=2, maxframes=3)
magpy.defaults.display.update(animation_time=4)
print("changed:", magpy.defaults.display.animation.as_dict())
run("defaults bad", lambda: setattr(magpy.defaults.display.animation, "time", 1.5))
run("defaults bad via update", lambda: magpy.defaults.update(display_animation_maxfps="x"))
print("still:", magpy.defaults.display.animation.as_dict())
magpy.defaults.reset()
print("reset:", magpy.defaults.display.animation.as_dict(), magpy.defaults.display.animation is not dflt)
print("matches hard coded:", magpy.defaults.display.animation.as_dict() == get_defaults_dict("display.animation"))
print("new settings:", DefaultSettings().display.animation.as_dict())
