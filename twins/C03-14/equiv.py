import os, sys; sys.path.insert(0, os.getcwd())
import hashlib
import re
import warnings

import numpy as np
from scipy.spatial.transform import Rotation as R

import magpylib as magpy
from magpylib._src.fields.field_wrap_BH import getBH_dict_level2

warnings.simplefilter("ignore")


def dig(name, val):
    if isinstance(val, BaseException):
        msg = re.sub(r"id=\d+|0x[0-9a-f]+", "#", str(val))
        print(f"{name}: EXC {type(val).__name__}: {msg[:160]!r}")
    elif val is None:
        print(f"{name}: None")
    else:
        a = np.asarray(val)
        h = hashlib.sha256(np.ascontiguousarray(a).tobytes()).hexdigest()[:16]
        print(f"{name}: shape={a.shape} dtype={a.dtype} sha={h} sum={np.sum(a):.12e}")


def run(name, func):
    try:
        dig(name, func())
    except Exception as err:  # pylint: disable=broad-except
        dig(name, err)


obs1 = (1.0, 2.0, 3.0)
obs4 = [(1, 2, 3), (2, -1, 0.5), (0.1, 0.2, 4), (-3, -3, 1)]
rot1 = R.from_rotvec((0.2, -0.4, 0.6))
rot4 = R.from_rotvec([(0.2, -0.4, 0.6), (0, 0, 1.5), (1, 0, 0), (0.3, 0.3, 0.3)])
pos4 = [(0, 0, 0), (0.1, 0, 0), (0, 0.2, 0), (0, 0, -0.3)]

cases = {
    "Cuboid scalar": ("Cuboid", obs1, dict(polarization=(0.1, 0.2, 0.3), dimension=(1, 2, 3))),
    "Cuboid obs4": ("Cuboid", obs4, dict(polarization=(0.1, 0.2, 0.3), dimension=(1, 2, 3))),
    "Cuboid posed": ("Cuboid", obs4, dict(polarization=(0.1, 0.2, 0.3), dimension=(1, 2, 3), position=(0.3, 0.2, 0.1), orientation=rot1)),
    "Cuboid path": ("Cuboid", obs4, dict(polarization=(0.1, 0.2, 0.3), dimension=(1, 2, 3), position=pos4, orientation=rot4)),
    "Cuboid pol4 obs1": ("Cuboid", obs1, dict(polarization=[(0.1, 0.2, 0.3)] * 4, dimension=(1, 2, 3), orientation=rot4)),
    "Cuboid len1 vectors": ("Cuboid", [obs1], dict(polarization=[(0.1, 0.2, 0.3)], dimension=[(1, 2, 3)], position=[(1, 0, 0)])),
    "Cylinder": ("Cylinder", obs4, dict(polarization=(0.1, 0.2, 0.3), dimension=(1, 2), position=pos4)),
    "CylinderSegment": ("CylinderSegment", obs4, dict(polarization=(0.1, 0.2, 0.3), dimension=(1, 2, 3, 10, 150), orientation=rot4)),
    "Sphere diam4": ("Sphere", obs4, dict(polarization=(0.1, 0.2, 0.3), diameter=[1, 0.5, 0.25, 2])),
    "Sphere diam scalar": ("Sphere", obs4, dict(polarization=(0.1, 0.2, 0.3), diameter=1.5, position=(1, 1, 1), orientation=rot1)),
    "Dipole": ("Dipole", obs4, dict(moment=(1, 2, 3), position=pos4, orientation=rot4)),
    "Circle": ("Circle", obs4, dict(current=[1, 2, 3, 4], diameter=2.0, orientation=rot1)),
    "Circle int": ("Circle", obs4, dict(current=3, diameter=2)),
    "Polyline": ("Polyline", obs4, dict(current=1.5, segment_start=(0, 0, 0), segment_end=[(1, 0, 0), (0, 1, 0), (0, 0, 1), (1, 1, 1)], orientation=rot1)),
    "Triangle": ("Triangle", obs4, dict(polarization=(0.1, 0.2, 0.3), vertices=[(0, 0, 0), (1, 0, 0), (0, 1, 0)], position=pos4)),
    "Tetrahedron": ("Tetrahedron", obs4, dict(polarization=(0.1, 0.2, 0.3), vertices=[(0, 0, 0), (1, 0, 0), (0, 1, 0), (0, 0, 1)], orientation=rot4)),
    "Tetrahedron inside": ("Tetrahedron", obs4, dict(polarization=(0.1, 0.2, 0.3), vertices=[(0, 0, 0), (1, 0, 0), (0, 1, 0), (0, 0, 1)], in_out="inside")),
    "TriangularMesh": ("TriangularMesh", obs4, dict(polarization=(0.1, 0.2, 0.3), mesh=[[(0, 0, 0), (1, 0, 0), (0, 1, 0)], [(0, 0, 0), (0, 1, 0), (0, 0, 1)], [(0, 0, 0), (0, 0, 1), (1, 0, 0)], [(1, 0, 0), (0, 0, 1), (0, 1, 0)]], position=(0.2, 0, 0))),
    # ragged input: meshes with a different number of faces per instance
    "TriangularMesh ragged": ("TriangularMesh", [obs1, obs1], dict(polarization=(0.1, 0.2, 0.3), mesh=[
        [[(0, 0, 0), (1, 0, 0), (0, 1, 0)], [(0, 0, 0), (0, 1, 0), (0, 0, 1)], [(0, 0, 0), (0, 0, 1), (1, 0, 0)], [(1, 0, 0), (0, 0, 1), (0, 1, 0)]],
        [[(0, 0, 0), (1, 0, 0), (0, 1, 0)], [(0, 0, 0), (0, 1, 0), (0, 0, 1)], [(0, 0, 0), (0, 0, 1), (1, 0, 0)], [(1, 0, 0), (0, 0, 1), (0, 1, 0)], [(1, 0, 0), (0, 0, 1), (0, 1, 0)]],
    ])),
    "ragged polarization": ("Cuboid", obs4, dict(polarization=[(0.1, 0.2, 0.3), (0.1, 0.2)], dimension=(1, 2, 3))),
    "ragged dimension x3": ("Cuboid", obs1, dict(polarization=(0.1, 0.2, 0.3), dimension=[(1, 2, 3), (1, 2), (1,)])),
    # error paths
    "bad source name": ("Cube", obs4, dict(polarization=(0.1, 0.2, 0.3), dimension=(1, 2, 3))),
    "bad source lower": ("cuboid", obs4, dict(polarization=(0.1, 0.2, 0.3), dimension=(1, 2, 3))),
    "length mismatch": ("Cuboid", obs4, dict(polarization=[(0.1, 0.2, 0.3)] * 3, dimension=(1, 2, 3))),
    "length mismatch pos": ("Cuboid", obs4, dict(polarization=(0.1, 0.2, 0.3), dimension=(1, 2, 3), position=pos4[:2])),
    "set input": ("Cuboid", obs4, dict(polarization={0.1, 0.2, 0.3}, dimension=(1, 2, 3))),
    "None input": ("Cuboid", obs4, dict(polarization=None, dimension=(1, 2, 3))),
    "generator input": ("Cuboid", obs4, dict(polarization=(0.1, 0.2, 0.3), dimension=(x for x in (1, 2, 3)))),
    "string input": ("Cuboid", obs4, dict(polarization=(0.1, 0.2, 0.3), dimension="abc")),
    "nested strings": ("Cuboid", obs4, dict(polarization=(0.1, 0.2, 0.3), dimension=("a", "b", "c"))),
    "empty input": ("Cuboid", obs4, dict(polarization=[], dimension=(1, 2, 3))),
    "dict input": ("Cuboid", obs4, dict(polarization={"a": 1}, dimension=(1, 2, 3))),
    "missing dimension": ("Cuboid", obs4, dict(polarization=(0.1, 0.2, 0.3))),
    "unknown kwarg": ("Cuboid", obs4, dict(polarization=(0.1, 0.2, 0.3), dimension=(1, 2, 3), bla=[1, 2, 3, 4])),
    "unknown kwarg mismatch": ("Cuboid", obs4, dict(polarization=(0.1, 0.2, 0.3), dimension=(1, 2, 3), bla=[1, 2, 3])),
    "bad observers": ("Cuboid", "xyz", dict(polarization=(0.1, 0.2, 0.3), dimension=(1, 2, 3))),
    "bad orientation": ("Cuboid", obs4, dict(polarization=(0.1, 0.2, 0.3), dimension=(1, 2, 3), orientation=(0, 0, 0, 1))),
    "bool scalar": ("Circle", obs4, dict(current=True, diameter=2)),
}

for cn, (src, obs, kw) in cases.items():
    for fn_name, fn in (("B", magpy.getB), ("H", magpy.getH)):
        if callable(getattr(kw.get("dimension"), "send", None)):  # fresh generator per call
            kw = dict(kw, dimension=(x for x in (1, 2, 3)))
        run(f"{fn_name} {cn}", lambda: fn(src, obs, **kw))
    if callable(getattr(kw.get("dimension"), "send", None)):
        kw = dict(kw, dimension=(x for x in (1, 2, 3)))
    run(f"B {cn} squeeze=False", lambda: magpy.getB(src, obs, squeeze=False, **kw))

run("J Cuboid", lambda: magpy.getJ("Cuboid", obs4, polarization=(0.1, 0.2, 0.3), dimension=(1, 2, 3), orientation=rot4))
run("M Sphere", lambda: magpy.getM("Sphere", obs4, polarization=(0.1, 0.2, 0.3), diameter=10, position=pos4))
run("M Dipole (None field)", lambda: magpy.getM("Dipole", obs4, moment=(1, 2, 3)))
run("J Circle (None field) squeeze=False", lambda: magpy.getJ("Circle", obs4, current=1, diameter=1, squeeze=False))

# direct calls of level2 incl. defaults
run("direct default", lambda: getBH_dict_level2("Dipole", obs4, field="B", moment=(1, 2, 3)))
run("direct unhashable source", lambda: getBH_dict_level2(["Dipole"], obs4, field="B", moment=(1, 2, 3)))
run("direct squeeze False 1 obs", lambda: getBH_dict_level2("Dipole", obs1, field="H", moment=(1, 2, 3), squeeze=False))

# the inputs of the caller are not modified
pol = np.array([(0.1, 0.2, 0.3)] * 4)
pos = np.array(pos4, dtype=float)
p0, q0 = pol.copy(), pos.copy()
magpy.getB("Cuboid", obs4, polarization=pol, dimension=(1, 2, 3), position=pos, orientation=rot4)
print("inputs untouched:", np.array_equal(p0, pol), np.array_equal(q0, pos))

# C03 on the functional interface: rigid motion of source and observers rotates the field
g = R.from_rotvec((0.7, -0.3, 0.2))
t = np.array((0.5, -1.0, 2.0))
B0 = magpy.getB("Cuboid", obs4, polarization=(0.1, 0.2, 0.3), dimension=(1, 2, 3), position=pos4, orientation=rot4)
B1 = magpy.getB("Cuboid", g.apply(obs4) + t, polarization=(0.1, 0.2, 0.3), dimension=(1, 2, 3),
                position=g.apply(pos4) + t, orientation=g * rot4)
dig("covariance residual", np.round(B1 - g.apply(B0), 12) + 0.0)
dig("B1", B1)

# string sources without a usable field function, and a user-registered source class
from magpylib._src.obj_classes.class_BaseExcitations import BaseSource  # noqa: E402


class MyNone(BaseSource):
    """registered automatically as subclass: field function that knows no field"""

    _field_func = staticmethod(lambda field, observers: None)
    _field_func_kwargs_ndim = {}


class MyLocal(BaseSource):
    """field = local observer position scaled by `gain` (ndim 1)"""

    _field_func = staticmethod(lambda field, observers, gain: observers * gain[:, None])
    _field_func_kwargs_ndim = {"gain": 1}


run("CustomSource string", lambda: magpy.getB("CustomSource", obs4))
run("MyNone squeeze", lambda: magpy.getB("MyNone", obs4))
run("MyNone no squeeze", lambda: magpy.getH("MyNone", obs4, squeeze=False))
run("MyLocal", lambda: magpy.getB("MyLocal", obs4, gain=2.0, position=pos4, orientation=rot4))
run("MyLocal gain4", lambda: magpy.getB("MyLocal", obs1, gain=[1, 2, 3, 4], orientation=rot1, squeeze=False))
run("MyLocal gain2d", lambda: magpy.getB("MyLocal", obs4, gain=[[1, 2, 3, 4]]))
