import os, sys; sys.path.insert(0, os.getcwd())

# Exercises the `position` input formatting of the constructor and of the setter
# (also through copy(position=...)), for plain objects and for collection trees
# (children follow, paths are padded / sliced), including rejected inputs.
import warnings

import numpy as np
from scipy.spatial.transform import Rotation as R

import magpylib as magpy

warnings.simplefilter("ignore")


def r(a):
    return np.round(np.asarray(a, dtype=float), 9).tolist()


def state(o):
    out = [type(o).__name__, r(o._position), r(o._orientation.as_quat())]
    if isinstance(o, magpy.Collection):
        out.append([state(c) for c in o.children])
    return out


def attempt(label, func):
    try:
        res = func()
        print(label, "->", res)
    except BaseException as err:  # noqa
        print(label, "-> raised", type(err).__name__, "|", str(err).replace("\n", " / "))


def make_tree():
    s1 = magpy.magnet.Cuboid(
        polarization=(0, 0, 1), dimension=(1, 2, 3), position=[(1, 0, 0), (2, 0, 0), (3, 0, 0)]
    )
    s2 = magpy.current.Circle(current=2, diameter=1.5, position=(0, 1, 0))
    s2.rotate_from_angax([10, 20], "x", start=0)
    x1 = magpy.Sensor(pixel=[(0, 0, 0), (0, 0, 0.1)], position=(0, 0, 2))
    inner = magpy.Collection(s2, x1, position=(0.5, 0.5, 0.5))
    inner.rotate_from_angax(30, "z")
    outer = magpy.Collection(s1, inner, position=[(0, 0, 0), (0, 0, 1)])
    return outer, inner, s1, s2, x1


# constructor inputs
for pos in [(1, 2, 3), [(1, 2, 3)], [(1, 2, 3), (4, 5, 6)], np.arange(12).reshape(4, 3), [1, 2, 3.5]]:
    attempt(f"init {np.shape(pos)}", lambda: state(magpy.Sensor(position=pos)))
    attempt(
        f"init+ori {np.shape(pos)}",
        lambda: state(
            magpy.Sensor(position=pos, orientation=R.from_rotvec([(0, 0, 0.1), (0, 0, 0.2), (0, 0, 0.3)]))
        ),
    )
for bad in [None, 1, "abc", (1, 2), [(1, 2, 3, 4)], [[(1, 2, 3)]], ("a", "b", "c"), {1, 2, 3}, [(1, 2, 3), (1, 2)]]:
    attempt(f"init bad {bad!r}", lambda: state(magpy.Sensor(position=bad)))
    attempt(f"init coll bad {bad!r}", lambda: state(magpy.Collection(position=bad)))

# setter on an object without children: padding / slicing of the orientation path
src = magpy.magnet.Sphere(polarization=(0, 0, 1), diameter=1)
src.rotate_from_angax([10, 20, 30], "y", start=0)
for pos in [(1, 1, 1), [(1, 1, 1)] * 5, [(0, 0, 1), (0, 0, 2)], np.array([[3.0, 2.0, 1.0]])]:
    src.position = pos
    print("set", np.shape(pos), state(src))
given = np.array([[1.0, 2.0, 3.0], [4.0, 5.0, 6.0]])
src.position = given
given[0, 0] = 99.0
print("independent of the input array", state(src))
for bad in [None, 1, "abc", (1, 2), [(1, 2, 3, 4)], [[(1, 2, 3)]], ("a", "b", "c")]:
    before = state(src)
    attempt(f"set bad {bad!r}", lambda: setattr(src, "position", bad))
    print("   unchanged", state(src) == before)

# setter on collections: children keep their relative position
for pos in [(1, 2, 3), [(1, 2, 3)], [(0, 0, 1), (0, 0, 2)], [(0, 0, k) for k in range(5)]]:
    outer, inner, s1, s2, x1 = make_tree()
    outer.position = pos
    print("coll set", np.shape(pos), state(outer))
    inner.position = pos
    print("inner set", np.shape(pos), state(outer))
    print("   B", r(outer.getB()))
outer, inner, s1, s2, x1 = make_tree()
before = state(outer)
for bad in [None, (1, 2), "xyz"]:
    attempt(f"coll set bad {bad!r}", lambda: setattr(outer, "position", bad))
    print("   unchanged", state(outer) == before)
empty = magpy.Collection()
empty.position = [(1, 1, 1), (2, 2, 2)]
print("empty coll", state(empty))

# copy with position override: only the copy (and its subtree) moves
outer, inner, s1, s2, x1 = make_tree()
before = state(outer)
for pos in [(5, 5, 5), [(1, 0, 0), (2, 0, 0), (3, 0, 0), (4, 0, 0)]]:
    cp = outer.copy(position=pos)
    print("copy coll", np.shape(pos), state(cp), cp._parent, state(outer) == before)
    print("   links", all(c._parent is cp for c in cp.children), all(c._parent is cp[1] for c in cp[1].children))
    cp2 = inner.copy(position=pos)
    print("copy inner", np.shape(pos), state(cp2), cp2._parent, state(outer) == before)
    cp3 = s1.copy(position=pos)
    print("copy src", np.shape(pos), state(cp3), cp3._parent, state(outer) == before)
    cp3.position = (9, 9, 9)
    cp.position = (7, 7, 7)
    print("   later change invisible", state(outer) == before)
attempt("copy bad position", lambda: outer.copy(position=(1, 2)))
print("children after rejected copy", len(outer.children), state(outer) == before)
attempt("reset_path", lambda: state(make_tree()[0].reset_path()))
