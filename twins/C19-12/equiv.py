import os, sys; sys.path.insert(0, os.getcwd())
import hashlib
import json
import re
import warnings

import numpy as np
from scipy.spatial.transform import Rotation as R

import magpylib as magpy
from magpylib._src.display.traces_generic import get_frames
from magpylib._src.display.traces_utility import DEFAULT_ROW_COL_PARAMS
from magpylib._src.display.traces_utility import process_show_input_objs

warnings.simplefilter("ignore")


def norm(o):
    """deterministic, JSON-able view of nested trace structures (keeps dict key order)"""
    if isinstance(o, dict):
        return ["dict", [[str(k), norm(v)] for k, v in o.items()]]
    if isinstance(o, (list, tuple)):
        return [type(o).__name__, [norm(v) for v in o]]
    if isinstance(o, np.ndarray):
        if o.dtype.kind in "fiu":
            return ["nd", str(o.dtype.kind), list(o.shape), np.round(o.astype(float), 9).tolist()]
        return ["nd", str(o.dtype.kind), list(o.shape), [norm(v) for v in o.ravel().tolist()]]
    if isinstance(o, (bool, np.bool_)):
        return bool(o)
    if isinstance(o, (float, np.floating)):
        return ["f", round(float(o), 9)]
    if isinstance(o, (int, np.integer)):
        return ["i", int(o)]
    if o is None:
        return None
    if isinstance(o, str):
        return re.sub(r"id=\d+|0x[0-9a-f]+", "#", o)
    if isinstance(o, R):
        return ["rot", np.round(o.as_quat(), 9).tolist()]
    return re.sub(r"id=\d+|0x[0-9a-f]+", "#", repr(o))


def digest(label, o):
    s = json.dumps(norm(o))
    print(f"{label}: {hashlib.sha256(s.encode()).hexdigest()[:16]} len={len(s)}")
    return s


def attempt(label, func):
    try:
        res = func()
    except Exception as err:  # pylint: disable=broad-except
        msg = re.sub(r"id=\d+|0x[0-9a-f]+", "#", str(err))
        print(f"{label}: EXC {type(err).__name__}: {msg}")
        return None
    digest(label, res)
    return res


def model(*objs, backend="plotly", colorgrad=True, **kw):
    objects, *_ = process_show_input_objs(
        objs, **{k: v for k, v in kw.items() if k in DEFAULT_ROW_COL_PARAMS})
    style_kw = {k: v for k, v in kw.items() if k.startswith("style")}
    kw = {k: v for k, v in kw.items() if k not in DEFAULT_ROW_COL_PARAMS and k not in style_kw}
    return get_frames(objects, backend=backend, supports_colorgradient=colorgrad,
                      style_kwargs=style_kw, **kw)


def state(objs):
    return json.dumps(norm([[o.style.as_dict(), o.position, o.orientation] for o in objs]
                           + [magpy.defaults.as_dict()]))

import plotly.graph_objects as go

from magpylib._src.display import display as disp
from magpylib._src.display.display import RegisteredBackend

SHOW_CALLS = []
go.Figure.show = lambda self, *args, **kwargs: SHOW_CALLS.append((len(self.data), args, kwargs))

CALLS = []


def recorder(data, **kwargs):
    """stands for a backend display function: records everything it is handed"""
    frames = data["frames"]
    summary = {
        "nframes": len(frames),
        "ntraces": [len(fr["data"]) for fr in frames],
        "extra": [len(fr["extra_backend_traces"]) for fr in frames],
        "data": hashlib.sha256(json.dumps(norm(data)).encode()).hexdigest()[:16],
        "input_kwargs": data["input_kwargs"],
        "labels": data["labels"],
    }
    CALLS.append(kwargs)
    print("   backend received:", json.dumps(norm(kwargs)))
    return {"summary": summary, "kwargs": kwargs, "kwargs order": list(kwargs)}


for name, anim, sub, cg, ao in (("rec", True, True, True, True), ("Rec2", False, False, False, False)):
    RegisteredBackend(name=name, show_func=recorder, supports_animation=anim, supports_subplots=sub,
                      supports_colorgradient=cg, supports_animation_output=ao)


def scene():
    cube = magpy.magnet.Cuboid(polarization=(0, 0, 1), dimension=(1, 2, 3))
    cube.position = [(0, 0, 0), (1, 2, 3), (2, 4, 6)]
    cube.rotate_from_angax([0, 45, 90], (1, 1, 0), start=0)
    loop = magpy.current.Circle(current=1, diameter=2, position=(0, 0, -2))
    sens = magpy.Sensor(position=(0, 0, 4), pixel=[(0, 0, 0), (0, 0, 1)])
    return cube, magpy.Collection(loop, sens)


def call(backend, **kwargs):
    objs = scene()
    objects, *_ = process_show_input_objs(objs)
    before = state(objs)
    with warnings.catch_warnings(record=True) as wrn:
        warnings.simplefilter("always")
        try:
            res = RegisteredBackend.show(*objects, backend=backend, **kwargs)
        finally:
            print("   warnings:", [str(w.message) for w in wrn], "| unchanged:", before == state(objs))
    return res


user_fig = {"a": 1, "b": 1}
user_backend = {"fig": {"a": 3, "e": 3}, "fig_c": 4, "show": {"x": 1}, "show_w": 9, "other": 7, "figure": 8}
cases = {
    "plain": {},
    "fig dict only": {"fig": user_fig},
    "fig magic only": {"fig_b": 2, "fig_layout_title": "t"},
    "show dict + magic": {"show": {"z": 3, "y": 0}, "show_y": 2},
    "backend dict": {"rec": user_backend},
    "backend magic": {"rec_fig_d": 5, "rec_show_renderer": "x", "rec_fig": {"q": 1}, "rec_show": {"r": 2},
                      "rec_canvas_thing": 1},
    "all precedence": {"fig": user_fig, "fig_b": 2, "fig_a": 0, "rec": user_backend, "rec_fig_c": 5,
                       "rec_fig_a": 6, "show": {"x": 0, "w": 0}, "show_x": 5, "rec_show_x": 6},
    "dropped lookalikes": {"figure": 1, "shower": 2, "fig": {}, "show": {}, "recx": 3, "rec_": 4, "figx_a": 5,
                           "showy_b": 6, "fig_": 7, "show_": 8},
    "other backends ignored": {"plotly": {"fig": {"a": 1}}, "plotly_fig_b": 2, "matplotlib_show_x": 3},
    "style kwargs": {"style_color": "r", "style": {"magnetization": {"show": False}, "path_frames": 1},
                     "style_path_show": False},
    "display kwargs": {"colorsequence": ["#000000", "#111111"], "animation": True, "animation_fps": 3,
                       "animation_slider": True, "autosizefactor": 5, "backendx": 1},
    "canvas passthrough": {"canvas": "CNV", "canvas_update": True, "return_fig": True, "max_rows": 2,
                           "max_cols": 3, "subplot_specs": "specs", "title": "ttl", "whatever": {"a": 1}},
    "err fig not mapping": {"fig": 5},
    "err fig pairs": {"fig": [("a", 1)]},
    "err show not mapping": {"show": 5, "fig": {"a": 1}},
    "err backend not mapping": {"rec": 5},
    "err backend fig not mapping": {"rec": {"fig": 5}},
    "err backend show not mapping": {"rec": {"fig": {"ok": 1}, "show": "ab"}},
    "err backend non str keys": {"rec": {1: 2}},
    "err style bad": {"style": 5},
    "err unknown display kwarg": {"animation_bad": 5, "animation": True},
}
for label, kwargs in cases.items():
    attempt(f"rec {label}", lambda: call("rec", **kwargs))
print("user dicts untouched:", user_fig, user_backend)

# backend name with capitals (lower() only used for the magic prefix), unsupported features -> fallbacks
attempt("Rec2 capital name", lambda: call(
    "Rec2", Rec2={"fig": {"a": 1}}, Rec2_fig_b=2, rec2_fig_c=3, rec2_show_d=4, Rec2_show_e=5, fig_f=6))
attempt("Rec2 fallbacks", lambda: call(
    "Rec2", animation=True, animation_output="gif", row=2, col=None, fig_a=1, show={"b": 2}))
attempt("err unknown backend", lambda: call("nope", fig={"a": 1}))
attempt("err backend None", lambda: call(None))

# the helper order: what a backend receives, in which key order
print("last recorded kwargs order:", [list(c) for c in CALLS[-3:]])

# through the public show(): real plotly backend, fig/show kwargs reach figure and fig.show
attempt("show plotly fig kwargs", lambda: magpy.show(
    *scene(), backend="plotly", return_fig=True, fig_layout_title_text="T", fig={"layout_width": 300},
    plotly={"fig": {"layout_height": 200}}, plotly_fig_layout_width=400, style_path_frames=1,
    units_length="mm").to_dict())
attempt("show plotly show kwargs", lambda: magpy.show(
    *scene(), backend="plotly", show={"renderer": "json"}, show_validate=False, plotly_show_width=3))
print("fig.show calls:", SHOW_CALLS)
attempt("show plotly err fig", lambda: magpy.show(*scene(), backend="plotly", fig=3, return_fig=True))
attempt("show plotly err layout", lambda: magpy.show(*scene(), backend="plotly", fig_bad=3, return_fig=True))
with magpy.show_context(*scene(), backend="plotly", return_fig=True, fig_layout_title_text="ctx") as ctx:
    magpy.show(col=1, fig={"layout_width": 500})
    magpy.show(col=2, output="Bx", plotly_fig_layout_height=300)
attempt("show_context", lambda: ctx.show_return_value.to_dict())
import matplotlib
matplotlib.use("Agg")
attempt("show matplotlib fig kwargs", lambda: [
    magpy.show(*scene(), backend="matplotlib", return_fig=True, fig_figsize=(3, 2), fig={"dpi": 50},
               matplotlib_fig_dpi=60).get_size_inches().tolist()])
