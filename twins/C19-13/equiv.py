import os, sys; sys.path.insert(0, os.getcwd())
import hashlib
import json
import re
import warnings

import numpy as np
from scipy.spatial.transform import Rotation as R

import magpylib as magpy
from magpylib._src.display.traces_generic import get_frames
from magpylib._src.display.traces_utility import DEFAULT_ROW_COL_PARAMS
from magpylib._src.display.traces_utility import process_show_input_objs

warnings.simplefilter("ignore")


def norm(o):
    """deterministic, JSON-able view of nested trace structures (keeps dict key order)"""
    if isinstance(o, dict):
        return ["dict", [[str(k), norm(v)] for k, v in o.items()]]
    if isinstance(o, (list, tuple)):
        return [type(o).__name__, [norm(v) for v in o]]
    if isinstance(o, np.ndarray):
        if o.dtype.kind in "fiu":
            return ["nd", str(o.dtype.kind), list(o.shape), np.round(o.astype(float), 9).tolist()]
        return ["nd", str(o.dtype.kind), list(o.shape), [norm(v) for v in o.ravel().tolist()]]
    if isinstance(o, (bool, np.bool_)):
        return bool(o)
    if isinstance(o, (float, np.floating)):
        return ["f", round(float(o), 9)]
    if isinstance(o, (int, np.integer)):
        return ["i", int(o)]
    if o is None:
        return None
    if isinstance(o, str):
        return re.sub(r"id=\d+|0x[0-9a-f]+", "#", o)
    if isinstance(o, R):
        return ["rot", np.round(o.as_quat(), 9).tolist()]
    return re.sub(r"id=\d+|0x[0-9a-f]+", "#", repr(o))


def digest(label, o):
    s = json.dumps(norm(o))
    print(f"{label}: {hashlib.sha256(s.encode()).hexdigest()[:16]} len={len(s)}")
    return s


def attempt(label, func):
    try:
        res = func()
    except Exception as err:  # pylint: disable=broad-except
        msg = re.sub(r"id=\d+|0x[0-9a-f]+", "#", str(err))
        print(f"{label}: EXC {type(err).__name__}: {msg}")
        return None
    digest(label, res)
    return res


def model(*objs, backend="plotly", colorgrad=True, **kw):
    objects, *_ = process_show_input_objs(
        objs, **{k: v for k, v in kw.items() if k in DEFAULT_ROW_COL_PARAMS})
    style_kw = {k: v for k, v in kw.items() if k.startswith("style")}
    kw = {k: v for k, v in kw.items() if k not in DEFAULT_ROW_COL_PARAMS and k not in style_kw}
    return get_frames(objects, backend=backend, supports_colorgradient=colorgrad,
                      style_kwargs=style_kw, **kw)


def state(objs):
    return json.dumps(norm([[o.style.as_dict(), o.position, o.orientation] for o in objs]
                           + [magpy.defaults.as_dict()]))

from magpylib._src.utility import get_unit_factor
from magpylib._src.utility import unit_prefix


def show_val(label, func):
    try:
        res = func()
    except Exception as err:  # pylint: disable=broad-except
        print(f"{label}: EXC {type(err).__name__}: {err}")
        return
    print(f"{label}: {type(res).__name__} {res!r}")


class Unit:
    """hashable object with a custom string representation"""

    def __init__(self, txt):
        self.txt = txt

    def __str__(self):
        return self.txt

    def __repr__(self):
        return f"Unit({self.txt!r})"

    def __hash__(self):
        return hash(self.txt)

    def __eq__(self, other):
        return isinstance(other, Unit) and other.txt == self.txt


# --- get_unit_factor: all prefixes, odd strings, non-string inputs, targets, deci_centi flag
prefixes = ["y", "z", "a", "f", "p", "n", "µ", "m", "", "k", "M", "G", "T", "P", "E", "Z", "Y", "d", "c",
            "x", " ", "mm", "1", "h", "D", "u"]
for target in ("m", "", "T", "mm", "A/m", None, 5):
    for deci_centi in (True, False):
        for pref in prefixes:
            unit = f"{pref}{target}"
            show_val(f"factor({unit!r}, target={target!r}, dc={deci_centi})",
                     lambda: get_unit_factor(unit, target_unit=target, deci_centi=deci_centi))
for unit in (None, "", "m", "M", "mm", "m m", "mmm", " mm", "mm ", "km\n", 5, 5.0, 0, True, ("m",), (),
             Unit("mm"), Unit("m"), Unit(""), Unit("kilo"), b"mm", frozenset(), 1e-3):
    for target in ("m", "", "5", ".0", "rue", "m',)"):
        show_val(f"factor({unit!r}, target={target!r})", lambda: get_unit_factor(unit, target_unit=target))
for dc in (0, 1, "", "yes", None, (), (0,)):
    show_val(f"factor('cm', dc={dc!r})", lambda: get_unit_factor("cm", target_unit="m", deci_centi=dc))
    show_val(f"factor('qm', dc={dc!r})", lambda: get_unit_factor("qm", target_unit="m", deci_centi=dc))
show_val("err unhashable unit", lambda: get_unit_factor(["mm"], target_unit="m"))
show_val("err unhashable target", lambda: get_unit_factor("mm", target_unit=["m"]))
show_val("err unhashable flag", lambda: get_unit_factor("mm", target_unit="m", deci_centi=[]))
show_val("err positional target", lambda: get_unit_factor("mm", "m"))
show_val("err missing target", lambda: get_unit_factor("mm"))
show_val("repeat cached", lambda: [get_unit_factor("mm", target_unit="m") for _ in range(3)])
print("cache:", get_unit_factor.cache_info())

# --- unit_prefix
numbers = [0, 0.0, -0.0, 1, -1, 0.5, 0.001, 0.000999, 999, 999.9999, 1000, 1e3, 123456, -5e4, 1e-9, 2e-6,
           1e24, 9.99e26, 1e27, 1e-24, 1e-25, 1e-27, 1e300, 5e-324, np.float64(2500.0), np.float32(0.02),
           np.int64(7000000), True, 10**30, float("inf"), float("nan"), -float("inf")]
for num in numbers:
    show_val(f"unit_prefix({num!r})", lambda: unit_prefix(num))
    show_val(f"unit_prefix({num!r}, tuple)", lambda: unit_prefix(num, "m", 5, " ", True))
for kw in ({"unit": "T", "precision": 1}, {"unit": None, "char_between": None}, {"as_tuple": 1},
           {"as_tuple": "yes", "unit": "m"}, {"as_tuple": 0}, {"as_tuple": None}, {"as_tuple": []},
           {"precision": 0}, {"precision": "3"}, {"precision": -1}, {"precision": 2.0}):
    show_val(f"unit_prefix(12345.678, {kw})", lambda: unit_prefix(12345.678, **kw))
show_val("err array", lambda: unit_prefix(np.array([1.0, 2.0])))
show_val("err array tuple flag", lambda: unit_prefix(1.0, as_tuple=np.array([1, 0])))
show_val("err str", lambda: unit_prefix("1"))
show_val("err None", lambda: unit_prefix(None))
show_val("complex", lambda: unit_prefix(3 + 4j))
show_val("0-d array", lambda: unit_prefix(np.array(2.5e-5), as_tuple=True))


# --- through the display model: axis labels, ranges and vertices in the announced unit
def scene(scale):
    cube = magpy.magnet.Cuboid(polarization=(0, 0, 1), dimension=np.array((1, 2, 3)) * scale)
    cube.position = np.array([(0, 0, 0), (1, 2, 3), (2, 4, 6)]) * scale
    cube.rotate_from_angax([0, 45, 90], (1, 1, 0), start=0)
    loop = magpy.current.Circle(current=1, diameter=2 * scale, position=(0, 0, -2 * scale))
    sens = magpy.Sensor(position=(0, 0, 4 * scale), pixel=[(0, 0, 0), (0, 0, scale)])
    cube.style.model3d.add_trace(backend="matplotlib", constructor="plot", kwargs={"ls": "--"},
                                 args=([0, scale], [0, scale], [0, 2 * scale]))
    return cube, loop, sens


for scale in (1e-7, 1e-3, 0.05, 1, 2500, 1e26):
    for units in ("auto", "m", "mm", "cm", "dm", "km", "µm", "Ym", "", None, "inch", "mmm", "m ", 5, "k"):
        objs = scene(scale)
        before = state(objs)
        for backend, cg in (("plotly", True), ("matplotlib", False)):
            res = attempt(f"model scale={scale} units={units!r} {backend}", lambda: model(
                *objs, backend=backend, colorgrad=cg, units_length=units, style_path_frames=[0, 2]))
            if res is not None:
                print("   labels:", res["labels"], "ranges:",
                      {k: np.round(v, 6).tolist() for k, v in res["ranges"].items()})
        print("   unchanged:", before == state(objs))
attempt("show plotly mm", lambda: magpy.show(*scene(0.01), backend="plotly", return_fig=True,
                                             units_length="mm").to_dict())
attempt("subplots mixed units", lambda: model(
    {"objects": scene(1), "col": 1, "units_length": "cm"},
    {"objects": scene(1)[:2], "col": 2, "units_length": "auto"},
    {"objects": scene(1), "col": 3, "output": "Bx"}))
print("cache:", get_unit_factor.cache_info())
