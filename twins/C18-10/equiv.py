import os, sys; sys.path.insert(0, os.getcwd())

# Exercises the `style` setter of BaseGeo objects and the freezing of style /
# property objects (MagicProperties.__init__), on originals and on copies.
import copy
import re

import magpylib as magpy
from magpylib._src.defaults.defaults_utility import MagicProperties
from magpylib._src.style import BaseStyle, Line, MagnetStyle, Model3d, Trace3d
from magpylib._src.style import SensorStyle


def clean(txt):
    txt = re.sub(r"id=\d+", "id=#", str(txt))
    return re.sub(r" at 0x[0-9a-f]+", " at 0x#", txt)


def run(label, func):
    try:
        res = func()
    except BaseException as e:  # noqa: B036
        res = type(e).__name__ + ":" + clean(e).split("\n")[0][:120]
    print(label, res)


def changed(style, ref):
    flat = style.as_dict(flatten=True, separator="_")
    return sorted((k, str(v)) for k, v in flat.items() if str(ref.get(k)) != str(v))


REF_MAGNET = MagnetStyle().as_dict(flatten=True, separator="_")
REF_SENSOR = SensorStyle().as_dict(flatten=True, separator="_")


def make(kind):
    if kind == "plain":
        return magpy.magnet.Cuboid(polarization=(0, 0, 1), dimension=(1, 1, 1))
    if kind == "lazy":
        return magpy.magnet.Cuboid(polarization=(0, 0, 1), dimension=(1, 1, 1), style_label="lz", style_color="r")
    if kind == "init":
        o = magpy.magnet.Cuboid(polarization=(0, 0, 1), dimension=(1, 1, 1), style_label="in")
        o.style.opacity = 0.5
        return o
    if kind == "lazy_bad":
        return magpy.magnet.Cuboid(polarization=(0, 0, 1), dimension=(1, 1, 1), style_nokey=1, style_label="lb")
    if kind == "sensor":
        return magpy.Sensor(style_size=2)
    raise ValueError(kind)


VALUES = [
    ("None", lambda: None),
    ("empty dict", lambda: {}),
    ("dict", lambda: {"color": "g", "path_line_width": 3}),
    ("nested dict", lambda: {"magnetization": {"show": False}, "label": 5}),
    ("bad key", lambda: {"nokey": 1}),
    ("bad value", lambda: {"opacity": 7}),
    ("MagnetStyle", lambda: MagnetStyle(color="b", label="given")),
    ("BaseStyle", lambda: BaseStyle(color="b")),
    ("SensorStyle", lambda: SensorStyle(size=3)),
    ("Line", lambda: Line(width=2)),
    ("str", lambda: "red"),
    ("int", lambda: 3),
    ("list", lambda: [("color", "g")]),
    ("dict subclass", lambda: type("D", (dict,), {})(color="y")),
]

print("== style setter")
for kind in ("plain", "lazy", "init", "lazy_bad", "sensor"):
    ref = REF_SENSOR if kind == "sensor" else REF_MAGNET
    for name, mk in VALUES:
        o = make(kind)
        val = mk()
        old_style = getattr(o, "_style", None)

        def assign(o=o, val=val):
            o.style = val
            return "ok"

        run(f"{kind} <- {name}:", assign)
        st = getattr(o, "_style", None)
        line = [st is None, st is val, old_style is not None and st is old_style, o._style_kwargs]
        run("    state", lambda: line + [changed(o.style, ref)])
        run("    again", lambda: [o.style is getattr(o, "_style", None), o.style is val])

print("== setter on copies and originals, independence")
for kind in ("plain", "lazy", "init", "sensor"):
    ref = REF_SENSOR if kind == "sensor" else REF_MAGNET
    for with_parent in (False, True):
        o = make(kind)
        par = magpy.Collection(o) if with_parent else None
        c = o.copy()
        c.style = {"color": "m", "label": "cset"}
        print(kind, with_parent, "copy set", getattr(o, "_style", None) is None, o._style_kwargs,
              changed(c.style, ref), changed(o.style, ref), c.style is not o.style)
        o.style = {"opacity": 0.1}
        o.style = None
        c2 = o.copy(style={"label": "kw"}, style_opacity=0.2)
        print("    orig set", changed(c.style, ref), changed(o.style, ref), changed(c2.style, ref),
              o.parent is par, c.parent is None, c2.parent is None)
        run("    bad on copy", lambda: setattr(c, "style", 3))
        run("    bad dict on copy", lambda: setattr(c, "style", {"nokey": 1}))
        print("    after bad", changed(c.style, ref), changed(o.style, ref))
o = make("lazy_bad")
run("copy of object with invalid pending style", lambda: o.copy())
run("set style of object with invalid pending style", lambda: setattr(o, "style", {"color": "r"}))
print(o._style_kwargs, getattr(o, "_style", None) is not None)

print("== frozen property objects")


class Prop(MagicProperties):
    """small property class"""

    def __init__(self, a=None, **kwargs):
        super().__init__(a=a, **kwargs)

    @property
    def a(self):
        """a"""
        return self._a

    @a.setter
    def a(self, val):
        if val == "boom":
            raise RuntimeError("boom")
        self._a = val


def frozen_digest(obj):
    out = [type(obj).__name__, list(vars(obj))[-2:], vars(obj).get("_MagicProperties__isfrozen")]
    for attr, val in (("nokey", 1), ("_private", 2), ("a", 3), ("label", "x"), ("_MagicProperties__isfrozen", True)):
        try:
            setattr(obj, attr, val)
            out.append((attr, "set"))
        except AttributeError as e:
            out.append((attr, "AttributeError:" + str(e).split("\n")[0]))
    return out


for mk in (Prop, lambda: Prop(a=5), BaseStyle, MagnetStyle, lambda: Line(width=1), Model3d, Trace3d,
           lambda: magpy.Sensor().style, lambda: magpy.Sensor(style_label="s").copy().style,
           lambda: copy.deepcopy(MagnetStyle(color="r")), lambda: MagnetStyle(color="r").copy(),
           lambda: magpy.defaults.display.style.magnet.copy()):
    run("frozen", lambda: frozen_digest(mk()))
run("init bad key", lambda: Prop(nokey=1))
run("init bad magic key", lambda: Prop(a_b=1))
run("init raising setter", lambda: Prop(a="boom"))
p = Prop.__new__(Prop)
run("unfrozen after failed init", lambda: [setattr(p, "anything", 1), vars(p)])
print("== defaults object still frozen and resettable")
run("defaults", lambda: setattr(magpy.defaults.display, "nokey", 1))
magpy.defaults.display.style.magnet.magnetization.show = False
magpy.defaults.reset()
print(magpy.defaults.display.style.magnet.magnetization.show)
