import os, sys; sys.path.insert(0, os.getcwd())
import hashlib
import re
import warnings

import numpy as np

import magpylib as magpy


def h(x):
    x = np.ascontiguousarray(np.asarray(x))
    return f"{x.dtype}{x.shape} {hashlib.sha1(x.tobytes()).hexdigest()[:16]}"


def clean(err):
    return re.sub(r"0x[0-9a-f]+|id=\d+", "ADDR", str(err).replace("\n", " / "))


def attempt(label, func, *args, **kwargs):
    """result digest + the ordered list of warnings (category, module file, text) that were issued"""
    with warnings.catch_warnings(record=True) as rec:
        warnings.simplefilter("always")
        try:
            res = func(*args, **kwargs)
            out = "df" + str(res.shape) + " " + h(res.iloc[:, -3:].to_numpy()) if hasattr(res, "columns") else h(res)
        except Exception as err:  # pylint: disable=broad-except
            out = f"EXC {type(err).__name__}: {clean(err)[:140]}"
    print(f"{label}: {out}")
    for w in rec:
        print(f"      WARN {w.category.__name__} [{os.path.basename(w.filename)}] {clean(w.message)[:150]}")
    return None


verts = [(0, 0, 0), (1, 0, 0), (0, 1, 0), (0, 0, 1)]
faces_closed = [(0, 2, 1), (0, 1, 3), (1, 2, 3), (0, 3, 2)]
faces_open = faces_closed[:3]
pol = (0.1, 0.2, 0.3)


def mesh(faces, check_open):
    with warnings.catch_warnings():
        warnings.simplefilter("ignore")
        return magpy.magnet.TriangularMesh(
            polarization=pol, vertices=verts, faces=faces, check_open=check_open,
            check_disconnected="skip", check_selfintersecting="skip", reorient_faces="skip",
        )


class MyMesh(magpy.magnet.TriangularMesh):
    """subclass: counts as a TriangularMesh"""


class NumpyStatusMesh(magpy.magnet.TriangularMesh):
    """status_open is a numpy bool"""

    @property
    def status_open(self):
        return np.bool_(self._status_open)


closed = mesh(faces_closed, "warn")
open_checked = mesh(faces_open, "ignore")
open_unchecked = mesh(faces_open, "skip")
closed_unchecked = mesh(faces_closed, "skip")
with warnings.catch_warnings():
    warnings.simplefilter("ignore")
    sub_open = MyMesh(polarization=pol, vertices=verts, faces=faces_open, check_open="ignore",
                      check_disconnected="skip", check_selfintersecting="skip", reorient_faces="skip")
    np_open = NumpyStatusMesh(polarization=pol, vertices=verts, faces=faces_open, check_open="ignore",
                              check_disconnected="skip", check_selfintersecting="skip", reorient_faces="skip")
    np_closed = NumpyStatusMesh(polarization=pol, vertices=verts, faces=faces_closed, check_open="ignore",
                                check_disconnected="skip", check_selfintersecting="skip", reorient_faces="skip")
print("status:", closed.status_open, open_checked.status_open, open_unchecked.status_open,
      closed_unchecked.status_open, sub_open.status_open, np_open.status_open, np_closed.status_open)

tetra = magpy.magnet.Tetrahedron(polarization=pol, vertices=verts)
cub = magpy.magnet.Cuboid(polarization=pol, dimension=(1, 2, 3))
circ = magpy.current.Circle(current=1, diameter=2)
dip = magpy.misc.Dipole(moment=(1, 2, 3))
tri = magpy.misc.Triangle(polarization=pol, vertices=verts[:3])
cust = magpy.misc.CustomSource(field_func=lambda field, observers, in_out="auto": observers * 1.0)
sens = magpy.Sensor(pixel=[(0.1, 0.2, 0.3), (2, 2, 2)], position=(0.05, 0.05, 0.05))
obs = [(0.1, 0.2, 0.3), (2, 2, 2), (-1, 0.5, 0.2)]

SRC = {
    "cub": cub, "tetra": tetra, "closed": closed, "open_checked": open_checked, "open_unchecked": open_unchecked,
    "closed_unchecked": closed_unchecked, "sub_open": sub_open, "np_open": np_open, "np_closed": np_closed,
    "circ": circ, "dip": dip, "tri": tri, "cust": cust,
}

print("== single sources, all fields, all in_out values")
for name, src in SRC.items():
    for field in "BHJM":
        for in_out in ("auto", "inside", "outside"):
            attempt(f"[{name}] get{field} in_out={in_out}", getattr(magpy, "get" + field), src, obs, in_out=in_out)

print("== other call forms")
for name, src in SRC.items():
    attempt(f"[{name}] src.getB(in_out=outside)", src.getB, sens, in_out="outside")
    attempt(f"[{name}] sens.getB(in_out=inside)", sens.getB, src, in_out="inside")
    attempt(f"[{name}] sens.getH(in_out=inside)", sens.getH, src, in_out="inside")
    attempt(f"[{name}] dataframe", magpy.getB, src, sens, in_out="outside", output="dataframe")

print("== lists and collections: order and number of warnings")
groups = {
    "cub+circ": [cub, circ],
    "cub+tetra": [cub, tetra],
    "tetra last": [cub, circ, dip, tetra],
    "mesh first": [closed, cub, circ],
    "three meshes": [open_checked, cub, open_unchecked, closed, sub_open],
    "same mesh twice": [open_unchecked, open_unchecked],
    "numpy status": [np_open, np_closed, open_checked],
    "all": list(SRC.values()),
}
for name, group in groups.items():
    for in_out in ("auto", "outside"):
        attempt(f"[{name}] getB list in_out={in_out}", magpy.getB, group, obs, in_out=in_out)
        attempt(f"[{name}] getH list in_out={in_out}", magpy.getH, group, obs, in_out=in_out)
        attempt(f"[{name}] sumup", magpy.getB, group, obs, in_out=in_out, sumup=True)
        uniq = list(dict.fromkeys(group))
        coll = magpy.Collection(*uniq, override_parent=True)
        attempt(f"[{name}] collection.getB", coll.getB, obs)
        attempt(f"[{name}] collection.getH dataframe", coll.getH, sens, output="dataframe")
        attempt(f"[{name}] getB(collection)", magpy.getB, coll, sens, in_out=in_out)
        nested = magpy.Collection(magpy.Collection(*uniq, override_parent=True), magpy.misc.Dipole(moment=(1, 1, 1)))
        attempt(f"[{name}] nested collection + cub", magpy.getB, [cub.copy(), nested], sens, in_out=in_out)
        for obj in uniq:
            obj.parent = None

print("== odd in_out values and error paths (warnings before the error?)")
for in_out in ("AUTO", "", None, 0, ("auto",), np.array(["auto"]), np.array(["auto", "x"])):
    attempt(f"cub in_out={in_out!r}", magpy.getB, cub, obs, in_out=in_out)
    attempt(f"tetra in_out={in_out!r}", magpy.getB, tetra, obs, in_out=in_out)
attempt("uninitialised source + in_out", magpy.getB, [magpy.magnet.Cuboid(), open_checked], obs, in_out="inside")
attempt("bad observers after warnings", magpy.getB, [cub, open_unchecked], "bad", in_out="inside")
attempt("bad pixel_agg after warnings", magpy.getB, [cub, open_checked], obs, in_out="inside", pixel_agg="nope")
attempt("bad output after warnings", magpy.getB, [cub, open_checked], obs, in_out="inside", output="nope")
attempt("bad source in list", magpy.getB, [cub, open_checked, 1], obs, in_out="inside")
attempt("kwargs with objects", magpy.getB, [cub, open_checked], obs, in_out="inside", dimension=3)
attempt("functional interface: no such warnings", magpy.getB, "Cuboid", obs, polarization=pol, dimension=(1, 2, 3),
        in_out="inside")
attempt("functional interface TriangularMesh", magpy.getB, "TriangularMesh", obs, polarization=pol,
        mesh=np.array(verts, dtype=float)[np.array(faces_open)], in_out="outside")

print("== default warning filter: repeated calls (once per location)")
with warnings.catch_warnings(record=True) as rec:
    warnings.resetwarnings()
    warnings.simplefilter("default")
    for _ in range(3):
        magpy.getB([open_checked, open_unchecked], obs)
        magpy.getB(cub, obs, in_out="inside")
print("   recorded with 'default' filter:", [(w.category.__name__, clean(w.message)[:40]) for w in rec])
