import os, sys; sys.path.insert(0, os.getcwd())
import hashlib
import itertools
import re
import warnings

import numpy as np
from scipy.spatial.transform import Rotation as R

import magpylib as magpy

warnings.simplefilter("ignore")


def dig(name, val):
    """print a deterministic digest of an array or exception"""
    if isinstance(val, BaseException):
        msg = re.sub(r"id=\d+|0x[0-9a-f]+", "#", str(val))
        print(f"{name}: EXC {type(val).__name__}: {msg[:120]!r}")
    elif val is None:
        print(f"{name}: None")
    else:
        a = np.asarray(val, dtype=float)
        h = hashlib.sha256(np.ascontiguousarray(a).tobytes()).hexdigest()[:16]
        print(f"{name}: shape={a.shape} sha={h} sum={np.sum(a):.12e}")


def run(name, func):
    try:
        dig(name, func())
    except Exception as err:  # pylint: disable=broad-except
        dig(name, err)


def state(objs):
    """digest of the paths of all objects (must be restored after getBH)"""
    parts = []
    for o in objs:
        parts.append(o._position.tobytes())
        parts.append(o._orientation.as_quat().tobytes())
    return hashlib.sha256(b"".join(parts)).hexdigest()[:16]


rot3 = R.from_rotvec([[0.1, 0.2, 0.3], [0.5, -0.4, 0.3], [1.0, 2.0, -0.5]])
pix = [(0, 0, 0), (0.1, 0, 0), (0, 0.1, 0.2)]

cub = magpy.magnet.Cuboid(
    polarization=(0.1, 0.2, 0.3), dimension=(1, 2, 3), position=(0.1, 0.2, 0.3)
).rotate_from_angax(33, (1, 2, 3))
circ = magpy.current.Circle(current=12.0, diameter=2.5, position=(0, 0, -2))
circ.rotate_from_angax([10, 20, 30], "x", anchor=0)
dip = magpy.misc.Dipole(moment=(1, 2, 3), position=(-3, 1, 1))
sph = magpy.magnet.Sphere(polarization=(0.3, -0.2, 0.1), diameter=1.5, position=(2, 2, -1))
col = magpy.Collection(dip, sph).rotate_from_angax(25, "y", anchor=(0, 0, 1))
srcs = [cub, col, circ]


def make_sensors(hand_a, hand_b):
    """one sensor of every kind: unrotated, static rotation, translation path with
    static rotation, rotation path; two of them with selectable handedness"""
    return {
        "unrot": magpy.Sensor(pixel=pix, position=(4, 4, 4), handedness=hand_a),
        "unrot-path": magpy.Sensor(pixel=pix, handedness=hand_b).move(
            [(5, 0, k) for k in range(3)], start=0
        ),
        "static": magpy.Sensor(pixel=pix, position=(-4, 3, 2), handedness=hand_a).rotate_from_angax(
            70, (1, 0, 1)
        ),
        "static-path": magpy.Sensor(pixel=pix, position=(-4, 3, 2), handedness=hand_b)
        .rotate_from_angax(50, (0, 1, 1))
        .move([(0, 0, 1), (0, 1, 1), (1, 1, 1)], start=0),
        "rot-path": magpy.Sensor(pixel=pix, position=(4, 4, 4), handedness=hand_a).rotate(
            rot3, anchor=0, start=0
        ),
        "rot-path-short": magpy.Sensor(pixel=pix, position=(4, -4, 4), handedness=hand_b).rotate(
            rot3[:2], anchor=(1, 1, 1), start=0
        ),
    }


for hand_a, hand_b in itertools.product(("right", "left"), repeat=2):
    sensors = make_sensors(hand_a, hand_b)
    allobjs = [cub, circ, dip, sph, col] + list(sensors.values())
    tag = f"[{hand_a[0]}{hand_b[0]}]"
    print(tag, "state0", state(allobjs))
    for name, sens in sensors.items():
        run(f"{tag} {name} B", lambda: magpy.getB(srcs, sens))
        run(f"{tag} {name} H sumup", lambda: magpy.getH(srcs, sens, sumup=True, squeeze=False))
    slist = list(sensors.values())
    run(f"{tag} all B", lambda: magpy.getB(srcs, slist))
    run(f"{tag} all reversed H", lambda: magpy.getH(srcs[::-1], slist[::-1]))
    run(f"{tag} same twice", lambda: magpy.getB(cub, [slist[4], slist[0], slist[4]]))
    run(f"{tag} single source", lambda: magpy.getB(col, slist))
    run(f"{tag} agg", lambda: magpy.getB(srcs, slist, pixel_agg="mean"))
    print(tag, "state1", state(allobjs))

# different pixel shapes (aggregator needed), sensors without pixel, bare positions
sensors = make_sensors("left", "right")
mixed = [
    sensors["rot-path"],
    magpy.Sensor(position=(3, 3, 3), handedness="left").rotate_from_angax(45, "z"),
    magpy.Sensor(
        pixel=np.arange(24.0).reshape(2, 4, 3) / 10, position=(5, -3, 2), handedness="left"
    ).rotate(rot3, anchor=(1, 1, 1)),
    [(7, 7, 7), (8, 8, 8)],
    sensors["unrot"],
]
for agg in ("mean", "min"):
    run(f"mixed agg {agg}", lambda agg=agg: magpy.getB(srcs, mixed, pixel_agg=agg))
    run(
        f"mixed agg {agg} nosqueeze",
        lambda agg=agg: magpy.getH(srcs, mixed, pixel_agg=agg, squeeze=False, sumup=True),
    )
run("positions only", lambda: magpy.getB(srcs, [(7, 7, 7), (8, 8, 8)]))
run(
    "dataframe",
    lambda: magpy.getB(
        srcs, [sensors["rot-path"], sensors["static"]], output="dataframe"
    ).to_numpy()[:, 4:].astype(float),
)

# error path inside the sensor rotation block: corrupted sensor whose orientation path is
# longer than its position path (tiled rotations do not fit the field array)
bad = magpy.Sensor(pixel=pix, position=[(1, 1, 5), (1, 2, 5), (1, 3, 5)], handedness="left")
bad._orientation = R.from_rotvec([[0, 0, 0.1 * k] for k in range(1, 5)])
allobjs = [cub, circ, dip, sph, col, bad] + list(sensors.values())
print("state err0", state(allobjs))
run("err corrupted sensor", lambda: magpy.getB(srcs, [sensors["static"], bad, sensors["unrot"]]))
print("state err1", state(allobjs))
run("err bad handedness", lambda: magpy.Sensor(handedness="up"))
run("err bad agg", lambda: magpy.getB(srcs, mixed, pixel_agg="nope"))
