import os, sys; sys.path.insert(0, os.getcwd())
# Equivalence digest for twin 3 (multi_anchor_behavior: helpers extracted).
import warnings

import numpy as np
from scipy.spatial.transform import Rotation as R

import magpylib as magpy
from magpylib._src.obj_classes.class_BaseTransform import multi_anchor_behavior

warnings.simplefilter("ignore")


def dig(a):
    return (np.round(np.asarray(a, dtype=float), 9) + 0.0).tolist()


def state(obj):
    return dig(obj._position), dig(obj._orientation.as_quat())


def show(tag, fn):
    try:
        print(tag, "->", fn())
    except BaseException as err:  # pylint: disable=broad-except
        print(tag, "-> EXC", type(err).__name__, str(err)[:150])


def quats(n):
    """deterministic unit quaternions, n=0 -> 1D scalar quaternion"""
    rv = [(0.1 * (k + 1), -0.2 * k, 0.05 * (k + 2)) for k in range(max(n, 1))]
    q = R.from_rotvec(rv).as_quat()
    return q[0] if n == 0 else q


ANCHORS = {
    "1d": np.array((1.0, 2.0, 3.0)),
    "(1,3)": np.array([(1.0, 2.0, 3.0)]),
    "(2,3)": np.array([(1.0, 2.0, 3.0), (-1.0, 0.0, 4.0)]),
    "(4,3)": np.arange(12.0).reshape(4, 3),
    "(0,3)": np.zeros((0, 3)),
    "int (2,3)": np.array([(1, 2, 3), (4, 5, 6)]),
}

# 1) direct calls: values, dtypes, shapes and identity (pass-through vs new object)
for ak, anchor in ANCHORS.items():
    for nq in (0, 1, 2, 3, 4):
        inrotQ = quats(nq)
        rotation = R.from_quat(inrotQ)
        a_copy, q_copy = anchor.copy(), inrotQ.copy()

        def run(anchor=anchor, inrotQ=inrotQ, rotation=rotation):
            a2, q2, r2 = multi_anchor_behavior(anchor, inrotQ, rotation)
            return (
                dig(a2), str(a2.dtype), a2.shape, a2 is anchor,
                dig(q2), q2.shape, q2 is inrotQ,
                dig(r2.as_quat()), r2 is rotation,
            )

        show(f"mab a={ak} nq={nq}", run)
        print("    inputs untouched", np.array_equal(anchor, a_copy), np.array_equal(inrotQ, q_copy))

# empty rotation path, if this scipy supports it
show(
    "mab empty quat",
    lambda: [
        x.shape if hasattr(x, "shape") else len(x)
        for x in multi_anchor_behavior(ANCHORS["(2,3)"], np.zeros((0, 4)), None)
    ],
)
show(
    "mab empty quat vs 1d anchor",
    lambda: [
        x.shape if hasattr(x, "shape") else x
        for x in multi_anchor_behavior(ANCHORS["1d"], np.zeros((0, 4)), None)
    ],
)
show("mab 3d anchor", lambda: multi_anchor_behavior(np.zeros((2, 2, 3)), quats(3), None)[0].shape)
show("mab 0d anchor", lambda: multi_anchor_behavior(np.array(1.0), quats(2), None)[0].shape)

# 2) public API: per-step anchors x rotation lengths x starts x path lengths
API_ANCHORS = {
    "zero": 0,
    "single": (1, -1, 2),
    "list1": [(1, -1, 2)],
    "two": [(1, 0, 0), (0, 2, 0)],
    "four": [(1, 0, 0), (0, 2, 0), (0, 0, 3), (1, 1, 1)],
}
for n in (1, 3):
    for nq in (0, 1, 2, 4):
        for ak, anc in API_ANCHORS.items():
            for start in ("auto", -5, -1, 0, 2):
                s = magpy.Sensor(position=[(1 + i, 2 * i, -i) for i in range(n)])
                rot = R.from_quat(quats(nq))
                show(
                    f"api n={n} nq={nq} a={ak} st={start}",
                    lambda: s.rotate(rot, anchor=anc, start=start) is s,
                )
                print("   ", state(s))

# the angax / rotvec front ends with per-step anchors
s = magpy.Sensor(position=(1, 0, 0))
s.rotate_from_angax(45, "z", anchor=[(0, 0, 0), (1, 1, 0), (2, 0, 0)])
s.rotate_from_rotvec([(0, 0, 10), (0, 20, 0)], anchor=(0, 1, 0), start=1)
s.rotate_from_angax([10, 20, 30, 40], (1, 1, 1), anchor=[(0, 0, 1), (0, 0, 2)], start=-2, degrees=False)
print("front ends", state(s))

# Collection with per-step anchors
c = magpy.Collection(magpy.Sensor(position=(1, 1, 1)), magpy.Sensor(position=[(0, 0, 1), (0, 0, 2)]))
c.rotate_from_angax(30, "y", anchor=[(1, 0, 0), (2, 0, 0), (3, 0, 0)], start=1)
print("coll", state(c), [state(ch) for ch in c.children])

# 3) error paths through the API: state must be untouched
s = magpy.Sensor(position=[(1, 2, 3), (4, 5, 6)])
ref = state(s)
for tag, anc in {
    "empty anchor": np.zeros((0, 3)),
    "bad shape": [(1, 2), (3, 4)],
    "3d": np.zeros((2, 2, 3)),
    "str": "origin",
    "number": 2,
    "ragged": [(1, 2, 3), (1, 2)],
}.items():
    show(f"err {tag} vec", lambda anc=anc: s.rotate(R.from_quat(quats(2)), anchor=anc, start=0))
    show(f"err {tag} scalar", lambda anc=anc: s.rotate(R.from_quat(quats(0)), anchor=anc))
    print("    unchanged", state(s) == ref)
