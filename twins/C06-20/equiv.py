import os, sys; sys.path.insert(0, os.getcwd())
import hashlib
import re
import warnings

import numpy as np

import magpylib as magpy
from magpylib._src.fields.field_BH_cylinder_segment import BHJM_cylinder_segment
from magpylib._src.fields.field_BH_cylinder_segment import determine_cases
from magpylib._src.fields.field_BH_cylinder_segment import magnet_cylinder_segment_Hfield

warnings.simplefilter("ignore")
np.seterr(all="ignore")


def dig(name, arr):
    arr = np.ascontiguousarray(np.asarray(arr, dtype=float))
    h = hashlib.sha256(arr.tobytes()).hexdigest()[:16]
    print(name, arr.shape, arr.dtype, h, np.round(arr.ravel()[:6], 10).tolist())


def attempt(name, func, *args, **kwargs):
    try:
        dig(name, func(*args, **kwargs))
    except Exception as err:  # pylint: disable=broad-except
        msg = re.sub(r"id=\d+|0x[0-9a-fA-F]+", "ID", str(err).replace("\n", " "))
        print(name, type(err).__name__, msg[:110])


def occurring_cases(observers, dimensions):
    r, phi, z = np.repeat(observers, 8, axis=0).T
    r_i = np.repeat(dimensions[:, :2], 4)
    phi_j = np.repeat(np.tile(dimensions[:, 2:4], 2), 2)
    z_k = np.ravel(np.tile(dimensions[:, 4:6], 4))
    return sorted(set(determine_cases(r, phi, z, r_i, phi_j, z_k).tolist()))


# core function: observers (r, phi, z) in cylinder coordinates,
# dimensions (r1, r2, phi1, phi2, z1, z2), magnetizations (M, phi, theta)
pi = np.pi
core_rows = [
    ((1.5, 0.3, 0.2), (1, 2, 0.1, 1.2, -1, 1)),  # general, inside
    ((3.0, 2.0, 2.0), (1, 2, 0.1, 1.2, -1, 1)),  # general, outside
    ((0.0, 0.0, 0.3), (1, 2, 0.1, 1.2, -1, 1)),  # on axis
    ((0.0, 0.0, 1.0), (1, 2, 0.1, 1.2, -1, 1)),  # on axis, z = z2
    ((0.0, 0.1, 0.3), (0, 2, 0.1, 1.2, -1, 1)),  # on axis, r1 = 0, phi = phi1
    ((0.0, 0.1, 1.0), (0, 2, 0.1, 1.2, -1, 1)),  # on axis, r1 = 0, phi = phi1, z = z2
    ((1.5, 0.1, 0.3), (0, 2, 0.1, 1.2, -1, 1)),  # r1 = 0, phi = phi1
    ((1.0, 0.5, 0.3), (1, 2, 0.1, 1.2, -1, 1)),  # r = r1
    ((2.0, 0.5, 1.0), (1, 2, 0.1, 1.2, -1, 1)),  # r = r2, z = z2
    ((1.0, 0.1, -1.0), (1, 2, 0.1, 1.2, -1, 1)),  # corner: r = r1, phi = phi1, z = z1
    ((1.5, 1.2, 0.0), (1, 2, 0.1, 1.2, -1, 1)),  # phi = phi2
    ((1.5, 0.1 + pi, 0.0), (1, 2, 0.1, 1.2, -1, 1)),  # phi = phi1 + pi
    ((1.5, 0.1 + pi, 1.0), (1, 2, 0.1, 1.2, -1, 1)),  # phi = phi1 + pi, z = z2
    ((0.0, 0.1 + pi, 1.0), (0, 2, 0.1, 1.2, -1, 1)),  # axis, r1 = 0, opposite, z = z2
    ((2.0, 0.1 + pi, 0.5), (1, 2, 0.1, 1.2, -1, 1)),  # r = r2, opposite
    ((0.7, -2.0, 0.5), (0, 1.5, -1.0, 2.5, 0, 2)),  # r1 = 0, general
    ((0.7, -2.0, 2.0), (0, 1.5, -1.0, 2.5, 0, 2)),  # r1 = 0, z = z2
    ((1.5, 2.5, 2.0), (0, 1.5, -1.0, 2.5, 0, 2)),  # r = r2, phi = phi2, z = z2
    ((0.0, 2.5 - pi, 0.0), (0, 1.5, -1.0, 2.5, 0, 2)),  # axis, opposite phi2, z = z1
    ((2.5, 0.4, -0.3), (0.5, 1, 0, 2 * pi, -0.5, 0.5)),  # closed ring
]
c_obs = np.array([r[0] for r in core_rows], dtype=float)
c_dim = np.array([r[1] for r in core_rows], dtype=float)
n = len(core_rows)
c_mag = np.c_[np.linspace(1e5, 1e6, n), np.linspace(-3, 3, n), np.linspace(0, pi, n)]

print("cases", occurring_cases(c_obs, c_dim))
attempt("core-all", magnet_cylinder_segment_Hfield, c_obs, c_dim, c_mag)
H_joint = magnet_cylinder_segment_Hfield(c_obs, c_dim, c_mag)
print("core nan pattern", hashlib.sha256(np.isnan(H_joint).tobytes()).hexdigest()[:12], int(np.isnan(H_joint).sum()))
H_rows = np.concatenate(
    [magnet_cylinder_segment_Hfield(c_obs[i : i + 1], c_dim[i : i + 1], c_mag[i : i + 1]) for i in range(n)]
)
dig("core-rows", H_rows)
print("core rows==joint", np.array_equal(H_joint, H_rows, equal_nan=True), np.allclose(H_joint, H_rows, rtol=1e-9, atol=0, equal_nan=True))
perm = np.random.default_rng(2).permutation(n)
H_perm = magnet_cylinder_segment_Hfield(c_obs[perm], c_dim[perm], c_mag[perm])
print("core perm", np.array_equal(H_perm, H_joint[perm], equal_nan=True), np.allclose(H_perm, H_joint[perm], rtol=1e-9, atol=0, equal_nan=True))
for name, idx in {"general": [0, 1], "axis": [2, 3, 4, 5], "one": [7], "nan-cases": [5, 9, 13], "empty": []}.items():
    print("cases", name, occurring_cases(c_obs[idx], c_dim[idx]) if idx else [])
    attempt(f"core-{name}", magnet_cylinder_segment_Hfield, c_obs[idx], c_dim[idx], c_mag[idx])
attempt(
    "core-int",
    magnet_cylinder_segment_Hfield,
    np.array([(1, 1, 2), (0, 0, 0), (3, 0, 1)]),
    np.array([(1, 2, 0, 1, -1, 1), (1, 2, 0, 1, 0, 1), (1, 3, 0, 2, -1, 1)]),
    np.array([(10, 0, 1), (20, 1, 2), (30, 2, 0)]),
)
o2, d2, m2 = c_obs.copy(), c_dim.copy(), c_mag.copy()
magnet_cylinder_segment_Hfield(o2, d2, m2)
print("core inputs untouched", np.array_equal(o2, c_obs), np.array_equal(d2, c_dim), np.array_equal(m2, c_mag))
attempt("core-err-dim-rows", magnet_cylinder_segment_Hfield, c_obs, c_dim[:3], c_mag)
attempt("core-err-mag-rows", magnet_cylinder_segment_Hfield, c_obs, c_dim, c_mag[:3])
attempt("core-err-one-dim", magnet_cylinder_segment_Hfield, c_obs[:4], c_dim[:1], c_mag[:4])
attempt("core-err-obs-cols", magnet_cylinder_segment_Hfield, c_obs[:, :2], c_dim, c_mag)
attempt("core-err-none", magnet_cylinder_segment_Hfield, None, c_dim, c_mag)
attempt("core-err-dim-cols", magnet_cylinder_segment_Hfield, c_obs, c_dim[:, :4], c_mag)

# BHJM level (Cartesian observers, dimension (r1, r2, h, phi1, phi2) in deg)
obs = np.array(
    [
        (0.7, 0.3, 0.2),  # inside
        (2.0, 1.0, -0.5),  # outside
        (1.0, 0.0, 0.0),  # on surface phi1 / r2
        (0.0, 0.0, 0.0),  # on the axis
        (0.0, 0.0, 1.0),  # on the axis, top plane
        (0.6, 0.6, 1.0),  # on top surface
        (0.5, 0.0, 0.3),  # on surface r1 and phi1
        (0.0, 0.8, 0.3),  # on surface phi2
        (-0.7, -0.3, 0.2),  # opposite side
        (0.3, 0.3, 0.5),  # r1 = 0 segment, inside
        (0.0, 0.0, 0.2),  # r1 = 0 segment, on axis (edge)
        (0.75, 0.0, 3.0),  # above, phi = phi1
    ]
)
m = len(obs)
dim = np.array([(0.5, 1.0, 2.0, 0, 90)] * m, dtype=float)
dim[9] = (0, 1.0, 2.0, 0, 90)
dim[10] = (0, 1.0, 2.0, -30, 200)
pol = np.array([(0.1 * (i + 1), -0.05 * i, 0.3 - 0.1 * i) for i in range(m)])
for f in "BHJM":
    attempt(f"bhjm-{f}", BHJM_cylinder_segment, f, obs, dim, pol)
for f in "BH":
    joint = BHJM_cylinder_segment(f, obs, dim, pol)
    rows = np.concatenate(
        [BHJM_cylinder_segment(f, obs[i : i + 1], dim[i : i + 1], pol[i : i + 1]) for i in range(m)]
    )
    print(f"bhjm-{f} rows==joint", np.array_equal(joint, rows, equal_nan=True), np.allclose(joint, rows, rtol=1e-9, atol=0, equal_nan=True))
surf = [2, 5, 6, 7]
attempt("bhjm-only-surface-B", BHJM_cylinder_segment, "B", obs[surf], dim[surf], pol[surf])
attempt("bhjm-only-surface-H", BHJM_cylinder_segment, "H", obs[surf], dim[surf], pol[surf])
attempt("bhjm-no-surface-B", BHJM_cylinder_segment, "B", obs[[0, 1, 8]], dim[[0, 1, 8]], pol[[0, 1, 8]])
attempt("bhjm-one-B", BHJM_cylinder_segment, "B", obs[:1], dim[:1], pol[:1])
attempt("bhjm-one-surface-H", BHJM_cylinder_segment, "H", obs[2:3], dim[2:3], pol[2:3])
attempt("bhjm-empty", BHJM_cylinder_segment, "B", obs[:0], dim[:0], pol[:0])
o2, d2, p2 = obs.copy(), dim.copy(), pol.copy()
BHJM_cylinder_segment("B", o2, d2, p2)
print("bhjm inputs untouched", np.array_equal(o2, obs), np.array_equal(d2, dim), np.array_equal(p2, pol))
attempt("bhjm-err-field", BHJM_cylinder_segment, "X", obs, dim, pol)
attempt("bhjm-err-dim-rows", BHJM_cylinder_segment, "B", obs, dim[:3], pol)
attempt("bhjm-err-dim-cols", BHJM_cylinder_segment, "B", obs, dim[:, :4], pol)
attempt("bhjm-err-pol-none", BHJM_cylinder_segment, "B", obs, dim, None)
attempt("bhjm-err-obs-cols", BHJM_cylinder_segment, "H", obs[:, :2], dim, pol)

# object oriented
s1 = magpy.magnet.CylinderSegment(polarization=(0.1, -0.2, 0.3), dimension=(0.5, 1, 2, 0, 90))
s1.move([(0.1 * i, 0, 0) for i in range(1, 4)])
s2 = magpy.magnet.CylinderSegment(polarization=(0, 0, 0.7), dimension=(0, 1, 1, -30, 200), position=(0, 2, 0))
s3 = magpy.magnet.CylinderSegment(polarization=(0.5, 0.5, 0), dimension=(1, 2, 1, 0, 360), position=(-1, -1, 1))
s3.rotate_from_angax([30, 60], "x")
s4 = magpy.magnet.CylinderSegment(polarization=(0.5, 0.5, 0.1), dimension=(0, 1, 1, 0, 360), position=(1, 1, 1))
sens = magpy.Sensor(pixel=[(1, 0, 1), (0, 0, 0), (-2, 3, 1), (0.7, 0.2, -0.5), (0.5, 0.5, 0)])
sens2 = magpy.Sensor(pixel=[(0, 0, 3), (0, 2, 0.2), (-1, -1, 1), (1, 1, 1), (0, 2, 0.5)], position=(0.01, 0, 0))
srcs = [s1, s2, s3, s4]
attempt("oo-B", magpy.getB, srcs, [sens, sens2], squeeze=False)
attempt("oo-H", magpy.getH, [s3, s1, s2, s1], [sens2, sens])
attempt("oo-J", magpy.getJ, srcs, sens)
H = magpy.getH(srcs, [sens, sens2], squeeze=False)
for i, c in enumerate(srcs):
    Hc = magpy.getH(c, [sens, sens2], squeeze=False)[0]
    k = Hc.shape[0]
    print(
        "oo source alone",
        i,
        np.allclose(H[i, :k], Hc, rtol=1e-9, atol=0),
        np.allclose(H[i, k:], np.repeat(Hc[-1:], 4 - k, axis=0), rtol=1e-9, atol=0),
    )
attempt(
    "dict-B",
    magpy.getB,
    "CylinderSegment",
    [(0, 0, 1), (1, 1, 1), (0, 0, 0), (0.7, 0.2, 0.3)],
    polarization=[(1, 2, 3), (0, 0, 1), (1, 0, 0), (0, 1, 0)],
    dimension=(0.5, 1, 2, 0, 90),
)
