import os, sys; sys.path.insert(0, os.getcwd())
import hashlib
import re
import builtins

import numpy as np

import magpylib as magpy
from magpylib._src.exceptions import MagpylibBadUserInput, MagpylibMissingInput


_print = builtins.print


def print(*args):  # deterministic: strip object ids / addresses
    txt = " ".join(str(a) for a in args)
    txt = re.sub(r"id=\d+", "id=#", txt)
    txt = re.sub(r"0x[0-9a-f]+", "0x#", txt)
    _print(txt)


class _Sanitized:
    """stdout wrapper: also the library's own print() output must be id-free"""

    def __init__(self, stream):
        self.stream = stream

    def write(self, txt):
        txt = re.sub(r"id=\d+", "id=#", txt)
        return self.stream.write(re.sub(r"0x[0-9a-f]+", "0x#", txt))

    def flush(self):
        self.stream.flush()


sys.stdout = _Sanitized(sys.stdout)


def dig(name, arr):
    arr = np.asarray(arr)
    h = hashlib.sha256(np.ascontiguousarray(arr).tobytes()).hexdigest()[:16]
    print(name, arr.shape, h, np.round(arr.ravel()[:6], 12).tolist())


def err(name, fn):
    try:
        fn()
        print(name, "no error")
    except Exception as e:  # pylint: disable=broad-except
        print(name, type(e).__name__, str(e).splitlines()[0][:90], "|", str(e).splitlines()[-1][:90])


from magpylib._src.utility import filter_objects, format_obj_input, format_src_inputs


def names(objs):
    return [f"{type(o).__name__}:{getattr(getattr(o, 'style', None), 'label', o)}" for o in objs]


def build():
    a = magpy.magnet.Cuboid(polarization=(0.1, 0.2, 0.3), dimension=(1, 2, 3), style_label="a")
    b = magpy.current.Circle(current=2.0, diameter=1.0, position=(0, 0, 2), style_label="b")
    c = magpy.misc.Dipole(moment=(1, 0, 2), position=(3, 0, 0), style_label="c")
    d = magpy.magnet.Sphere(polarization=(0, 0, 0.5), diameter=1.0, position=(0, 3, 0), style_label="d")
    x = magpy.Sensor(style_label="x", position=(1, 1, 1))
    y = magpy.Sensor(style_label="y", position=(-1, 2, 1), pixel=[(0, 0, 0), (0, 0, 0.1)])
    inner = magpy.Collection(c, y, style_label="inner")
    mid = magpy.Collection(b, inner, style_label="mid")
    empty = magpy.Collection(style_label="empty")
    top = magpy.Collection(a, mid, x, empty, style_label="top")
    return a, b, c, d, x, y, inner, mid, empty, top


a, b, c, d, x, y, inner, mid, empty, top = build()
sens_only = magpy.Collection(magpy.Sensor(style_label="s1"), style_label="sens_only")
nested_empty = magpy.Collection(magpy.Collection(style_label="e2"), style_label="nested_empty")


def show(key, inp):
    try:
        srcs, flat = format_src_inputs(inp)
        alias = srcs is inp
        print("fsi", key, type(srcs).__name__, names(srcs), type(flat).__name__, names(flat), "alias", alias)
    except Exception as e:  # pylint: disable=broad-except
        lines = str(e).splitlines()
        print("fsi", key, type(e).__name__, lines[0], "|", lines[-1], "| cause", type(e.__cause__).__name__)


good = {
    "bare source": d,
    "bare collection": top,
    "list": [d, top],
    "tuple": (top, d),
    "list of one": [a],
    "mixed order": [d, mid, a],
    "duplicates": [d, d, a, d],
    "inner only": [inner],
}
for key, inp in good.items():
    show(key, inp)

bad = {
    "empty list": [],
    "empty tuple": (),
    "None": None,
    "int": 3,
    "str": "Cuboid",
    "sensor": x,
    "list with sensor": [a, x],
    "list with int": [a, d, 1],
    "nested list": [a, [d]],
    "nested tuple": (a, (d,)),
    "empty collection": empty,
    "list with empty collection": [d, empty, 1],
    "sensor-only collection": [sens_only],
    "nested empty collection": nested_empty,
    "bad first then empty col": [1, empty],
    "array": np.array([1.0, 2.0, 3.0]),
    "class": magpy.magnet.Cuboid,
    "dict": {"a": a},
    "set": {a},
    "generator": (s for s in [a, d]),
}
for key, inp in bad.items():
    show(key, inp)

# the flat list is a fresh list, not the collection's internal list
srcs, flat = format_src_inputs(mid)
flat.append("x")
srcs.append("y")
print("fresh", names(mid.children), names(mid.sources), names(format_src_inputs(mid)[1]))
lst = [d, mid]
srcs, flat = format_src_inputs(lst)
srcs.pop()
print("input untouched", names(lst))

# through the field interface
obs = np.array([(0.5, 4.0, 3.0), (-2.0, 1.5, 2.0)])
for key, inp in good.items():
    dig("getB " + key, magpy.getB(inp, obs))
    dig("getH sumup " + key, magpy.getH(inp, obs, sumup=True))
    dig("getB squeeze0 " + key, magpy.getB(inp, obs, squeeze=False))
for key, inp in bad.items():
    if key == "str":
        continue  # functional interface
    err("getB " + key, lambda inp=inp: magpy.getB(inp, obs))
err("getB str", lambda: magpy.getB("NoSuchSource", obs))
dig("src.getB", d.getB(obs))
dig("col.getB", top.getB(pixel_agg="mean"))
dig("sens.getH", x.getH(d, top, sumup=True))
