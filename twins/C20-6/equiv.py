import os, sys; sys.path.insert(0, os.getcwd())
import re

import magpylib as magpy
from magpylib._src.obj_classes.class_BaseGeo import BaseGeo
from magpylib._src.style import MagnetStyle


def run(label, func):
    try:
        res = func()
    except BaseException as e:  # deterministic digest of the error path
        msg = re.sub(r"id=\d+", "id=N", str(e))[:140]
        res = f"EXC {type(e).__name__}: {msg!r}"
    print(f"{label}: {res}")


def digest(style):
    flat = style.as_dict(flatten=True, separator="_")
    return type(style).__name__, [
        (k, flat[k]) for k in sorted(flat) if not (flat[k] is None or flat[k] == [])
    ]


def cub(**kw):
    return magpy.magnet.Cuboid(polarization=(0, 0, 1), dimension=(1, 1, 1), **kw)


class NoCopy:
    """value that refuses to be deep-copied"""

    def __deepcopy__(self, memo):
        raise RuntimeError("no deepcopy")


# ---- _process_style_kwargs directly ----------------------------------------
P = BaseGeo._process_style_kwargs
run("nothing", lambda: P())
run("style None only", lambda: P(style=None))
sty = {"path": {"line": {"width": 1}}}
res = P(style=sty)
print("style only:", res, res is not sty, res["path"] is not sty["path"])
lst = [1, 2]
res = P(style_a=lst, style_b_c=2)
print("kwargs only:", res, res["a"] is not lst)
res = P(style=sty, style_color="r", style_path_line_width=4)
print("both:", res, sty)
res = P(style={}, style_x=1)
print("empty style + kwargs:", res)
run("empty style dict only", lambda: P(style={}))
run("style obj only", lambda: type(P(style=MagnetStyle(color="r"))).__name__)
run("style obj + kwargs", lambda: digest(P(style=MagnetStyle(color="r"), style_opacity=0.5)))
run("bad kwarg", lambda: P(stile_color=1))
run("bad kwarg exactly 'style_'", lambda: P(style_=1))
run("bad kwarg after good", lambda: P(style_color="r", foo=1, bar=2))
run("uncopyable then bad kwarg", lambda: P(style_label=NoCopy(), foo=1))
run("bad kwarg then uncopyable", lambda: P(foo=1, style_label=NoCopy()))
run("uncopyable style, bad kwarg", lambda: P(style=NoCopy(), foo=1))
run("uncopyable style alone", lambda: P(style=NoCopy()))
run("style not a dict + kwargs", lambda: P(style=[1], style_color="r"))
run("style str + kwargs", lambda: P(style="red", style_color="r"))
run("style str alone", lambda: P(style="red"))
run("generator value", lambda: P(style_label=(i for i in ()), foo=1))

# ---- via __init__ -----------------------------------------------------------
a = cub(style_color="red", style_path_line_width=3)
b = cub(style={"color": "blue", "path_line_width": 3}, style_color="red")
print("pending:", a._style_kwargs, b._style_kwargs, cub()._style_kwargs)
print("equal:", digest(a.style) == digest(b.style), digest(a.style))
run("init bad kwarg", lambda: cub(stile_color="r"))

# ---- copy -------------------------------------------------------------------
s0 = magpy.Sensor()
c0 = s0.copy()
print("copy no style:", getattr(c0, "_style", None), c0._style_kwargs, getattr(s0, "_style", None))
s1 = magpy.Sensor(style_label="sens", style_size=3)
c1 = s1.copy()
c2 = c1.copy()
print("labels:", s1.style.label, c1.style.label, c2.style.label, c1.style is not s1.style)
s2 = magpy.Sensor(style_size=2)
c3 = s2.copy()
print("label None:", s2.style.label, c3.style.label, digest(c3.style))
s3 = magpy.Sensor()
s3.style.color = "r"
print("label None, style made:", s3.copy().style.label)
s4 = magpy.Sensor(style_label="")
run("label empty", lambda: repr(s4.copy().style.label))
s5 = magpy.Sensor(style_label="a_09")
print("label a_09:", s5.copy().style.label, s5.copy(style_label="given").style.label)

c4 = s1.copy(position=(1, 2, 3), style_color="g", style={"size": 7}, pixel=[(0, 0, 0), (1, 1, 1)])
print("overrides:", c4.position, c4.pixel.shape, digest(c4.style), digest(s1.style))
c5 = s1.copy(style_label="other", style_pixel_size=2)
print("label override:", c5.style.label, s1.style.label, digest(c5.style))
sty = {"pixel": {"size": 5}}
c6 = s1.copy(style=sty)
sty["pixel"]["size"] = 1
print("style dict independent:", c6.style.pixel.size, sty)
c7 = s1.copy(style=None)
print("style None:", digest(c7.style))

coll = magpy.Collection(style_label="coll")
c8 = s1.copy(parent=coll, style_color="b")
print("parent:", c8.parent is coll, len(coll.children), s1.parent)
coll2 = magpy.Collection()
run("bad attr, parent untouched", lambda: s1.copy(position=(1, 2), parent=coll2))
print("   children:", len(coll2.children))
run("bad style value, parent untouched", lambda: s1.copy(parent=coll2, style_opacity=3))
print("   children:", len(coll2.children))
run("bad style name", lambda: s1.copy(style_nope=1))
run("bad style_ prefix", lambda: s1.copy(stylecolor="r"))
run("exactly style_", lambda: s1.copy(style_=1))
run("setattr of unknown name", lambda: hasattr(s1.copy(foo=3), "foo"))
run("bad attr before bad style", lambda: s1.copy(position="x", style_nope=1))
run("bad style before bad attr", lambda: s1.copy(style_nope=1, position="x"))
run("uncopyable style value + bad attr", lambda: s1.copy(style_label=NoCopy(), position="x"))
run("uncopyable style value", lambda: s1.copy(style_label=NoCopy()))
bad = magpy.Sensor(style_nope=1)
run("copy of bad", lambda: bad.copy())
run("copy of bad with kwargs", lambda: bad.copy(position="x"))
child = magpy.Sensor(style_label="child")
par = magpy.Collection(child)
cc = child.copy(style_color="y")
print("child copy:", cc.parent, child.parent is par, cc.style.label, digest(cc.style))
mag = cub(style_magnetization_show=False)
mc = mag.copy(polarization=(1, 0, 0), style_magnetization_color_north="r", dimension=(2, 2, 2))
print("magnet copy:", mc.polarization, mc.dimension, digest(mc.style), digest(mag.style))
