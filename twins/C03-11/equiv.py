import os, sys; sys.path.insert(0, os.getcwd())
import hashlib
import re
import warnings

import numpy as np
from scipy.spatial.transform import Rotation as R

import magpylib as magpy
from magpylib._src.utility import check_static_sensor_orient

warnings.simplefilter("ignore")


def dig(name, val):
    """print a deterministic digest of an array or exception"""
    if isinstance(val, BaseException):
        msg = re.sub(r"id=\d+|0x[0-9a-f]+", "#", str(val))
        print(f"{name}: EXC {type(val).__name__}: {msg[:120]!r}")
    elif val is None:
        print(f"{name}: None")
    else:
        a = np.asarray(val, dtype=float)
        h = hashlib.sha256(np.ascontiguousarray(a).tobytes()).hexdigest()[:16]
        print(f"{name}: shape={a.shape} sha={h} sum={np.sum(a):.12e}")


def run(name, func):
    try:
        dig(name, func())
    except Exception as err:  # pylint: disable=broad-except
        dig(name, err)


def state(objs):
    parts = []
    for o in objs:
        parts.append(o._position.tobytes())
        parts.append(o._orientation.as_quat().tobytes())
    return hashlib.sha256(b"".join(parts)).hexdigest()[:16]


rot3 = R.from_rotvec([[0.1, 0.2, 0.3], [0.5, -0.4, 0.3], [1.0, 2.0, -0.5]])
pix = [(0, 0, 0), (0.1, 0, 0), (0, 0.1, 0.2)]

cub = magpy.magnet.Cuboid(
    polarization=(0.1, 0.2, 0.3), dimension=(1, 2, 3), position=(0.1, 0.2, 0.3)
).rotate_from_angax(33, (1, 2, 3))
circ = magpy.current.Circle(current=12.0, diameter=2.5, position=(0, 0, -2))
circ.rotate_from_angax([10, 20, 30], "x", anchor=0)
dip = magpy.misc.Dipole(moment=(1, 2, 3), position=(-3, 1, 1))
col = magpy.Collection(dip).rotate_from_angax(25, "y", anchor=(0, 0, 1))
srcs = [cub, col, circ]


def make_sensors():
    """sensors of every kind with respect to the two classifications"""
    sens = {
        "unrot": magpy.Sensor(pixel=pix, position=(4, 4, 4)),
        "unrot-path": magpy.Sensor(pixel=pix).move([(5, 0, k) for k in range(3)], start=0),
        "static": magpy.Sensor(pixel=pix, position=(-4, 3, 2)).rotate_from_angax(70, (1, 0, 1)),
        "static-path": magpy.Sensor(pixel=pix, position=(-4, 3, 2), handedness="left")
        .rotate_from_angax(50, (0, 1, 1))
        .move([(0, 0, 1), (0, 1, 1), (1, 1, 1)], start=0),
        "rot-path": magpy.Sensor(pixel=pix, position=(4, 4, 4)).rotate(rot3, anchor=0, start=0),
        "rot-path-short": magpy.Sensor(pixel=pix, position=(4, -4, 4), handedness="left").rotate(
            rot3[:2], anchor=(1, 1, 1), start=0
        ),
        # full turn: quaternion (0,0,0,-1) is a unit rotation but not `unitQ`
        "minus-unit": magpy.Sensor(pixel=pix, position=(1, 5, 1)).rotate_from_angax(360, "z"),
        # unit rotation only at the first path step
        "unit-then-rot": magpy.Sensor(pixel=pix, position=(1, 5, 1)).rotate_from_angax(
            [0, 0, 40], "z", start=0
        ),
        # rotated first, the same afterwards (differs only at step 0)
        "rot-then-same": magpy.Sensor(pixel=pix, position=(1, 5, 1)).rotate_from_angax(
            [40, 10, 10], "x", start=0
        ),
    }
    return sens


sensors = make_sensors()
names = list(sensors)
print("static flags:", check_static_sensor_orient(list(sensors.values())))
print("static flags types:", [type(v).__name__ for v in check_static_sensor_orient(list(sensors.values()))])
print("static flags empty:", check_static_sensor_orient([]))
print("static flags tuple input:", check_static_sensor_orient(tuple(sensors.values())[:3]))
print("static flags generator input:", check_static_sensor_orient(s for s in list(sensors.values())[3:6]))

# every sensor alone and all together, B and H, with and without sumup
for nm, s in sensors.items():
    st0 = state([s] + srcs)
    run(f"B {nm}", lambda s=s: magpy.getB(srcs, s))
    run(f"H {nm} sumup", lambda s=s: magpy.getH(srcs, s, sumup=True))
    run(f"B {nm} squeeze=False", lambda s=s: magpy.getB(cub, s, squeeze=False))
    print(f"   state restored: {st0 == state([s] + srcs)}")

allsens = list(sensors.values())
st0 = state(allsens + srcs)
run("B all", lambda: magpy.getB(srcs, allsens))
run("B all reversed", lambda: magpy.getB(srcs, allsens[::-1]))
run("H all pixel_agg", lambda: magpy.getH(srcs, allsens, pixel_agg="mean"))
run("B sensor collection", lambda: magpy.getB(srcs, magpy.Collection(*make_sensors().values())))
run("B bare positions", lambda: magpy.getB(srcs, [(1, 2, 3), (2, 3, 4)]))
run("B sensor.getB", lambda: allsens[4].getB(cub, circ))
run("B collection getB", lambda: col.getB(allsens[2]))
print(f"state restored: {st0 == state(allsens + srcs)}")

# dataframe output
df = magpy.getB(srcs, allsens[:3], output="dataframe")
dig("dataframe", df[["Bx", "By", "Bz"]].to_numpy())


# error paths reaching the touched code
class NoPath:
    """not a sensor: has no _position / _orientation"""


run("static flags bad object", lambda: check_static_sensor_orient([sensors["static"], NoPath()]))
run("static flags None", lambda: check_static_sensor_orient(None))

broken = magpy.Sensor(pixel=pix, position=(1, 1, 1))
broken._orientation = None  # as_quat fails in the unit-rotation test
st0 = state(srcs)
run("getB broken orientation", lambda: magpy.getB(srcs, [sensors["static"], broken]))
print(f"state restored: {st0 == state(srcs)}")

broken2 = magpy.Sensor(pixel=pix).move([(1, 0, 0), (2, 0, 0)], start=0)
del broken2._position  # static test fails (after the unit rotation test succeeded)
run("getB broken position", lambda: magpy.getB(srcs, [broken2]))
run("getB no observers", lambda: magpy.getB(srcs, []))
run("getB bad observers", lambda: magpy.getB(srcs, "xyz"))
