import os, sys; sys.path.insert(0, os.getcwd())
import hashlib
import re
import warnings

import numpy as np

import magpylib as magpy


def h(x):
    x = np.ascontiguousarray(np.asarray(x))
    return f"{x.shape} {x.dtype} {hashlib.sha1(x.tobytes()).hexdigest()[:16]}"


def dig(x):
    if x is None:
        return "None"
    x = np.asarray(x)
    with np.errstate(all="ignore"):
        return f"{h(x)} {np.round(x.astype(float), 10).ravel()[:9].tolist()}"


def run(name, fn):
    """print digest of result, or exception type/message, plus ordered list of warnings"""
    with warnings.catch_warnings(record=True) as rec:
        warnings.simplefilter("always")
        try:
            res = "-> " + dig(fn())
        except Exception as err:  # pylint: disable=broad-except
            msg = re.sub(r"0x[0-9a-f]+", "ADDR", str(err).replace("\n", " / "))
            res = f"-> EXC {type(err).__name__} | {msg[:200]}"
    ws = [f"{w.category.__name__}:{str(w.message)[:50]}" for w in rec]
    print(name, res, "| warn:", ws)


from magpylib._src.fields.field_BH_dipole import BHJM_dipole

nan, inf = np.nan, np.inf
obs = np.array(
    [(0.3, 0.2, 0.7), (0, 0, 0), (1, 0, 0), (0, 0, -2), (-0.0, 0.0, -0.0), (1e-170, 0, 0), (1e-200, 1e-200, 0),
     (1e200, 0, 0), (3, -4, 5), (0, 0, 0), (nan, 0, 0), (inf, 1, 0), (0, 0, 0), (0, 0, 0)],
    dtype=float,
)
n = len(obs)
mom = np.tile((1.0, -2, 3), (n, 1))
mom_mix = mom.copy()
mom_mix[1] = (1, 0, -2); mom_mix[4] = (0, 0, 0); mom_mix[9] = (nan, 1, 0); mom_mix[12] = (inf, -inf, 0); mom_mix[13] = (-0.0, 0.0, 5); mom_mix[2] = (0, 0, 0)
SETS = {
    "std": (obs, mom),
    "mix": (obs, mom_mix),
    "nocentre": (obs[[0, 2, 3, 8]], mom_mix[[0, 2, 3, 8]]),
    "nocentre-nan": (obs[[0, 2, 10, 11, 5, 6, 7]], mom_mix[[0, 2, 10, 11, 5, 6, 7]]),   # nan survives without centre
    "centre+nan": (obs[[0, 1, 10, 11, 6]], mom_mix[[0, 1, 10, 11, 6]]),   # nan_to_num acts on all rows
    "allcentre": (np.zeros((3, 3)), mom_mix[[1, 4, 9]]),
    "int": (np.array([(0, 0, 0), (1, 2, 3), (0, 0, 0)]), np.array([(1, 0, -1), (1, 2, 3), (0, 0, 0)])),
}
for name, (o, m) in SETS.items():
    for field in "BHJM":
        run(f"BHJM_dipole {name} {field}", lambda: BHJM_dipole(field, o, m))
    run(f"core {name}", lambda: magpy.core.dipole_Hfield(observers=o, moments=m))
    run(f"core positional {name}", lambda: magpy.core.dipole_Hfield(o, m))
    for i in range(len(o)):
        run(f"  row{i} {name}", lambda: magpy.core.dipole_Hfield(o[i : i + 1], m[i : i + 1]))

o2, m2 = obs.copy(), mom_mix.copy()
with warnings.catch_warnings():
    warnings.simplefilter("ignore")  # (line numbers of warnings are not part of the digest)
    res = magpy.core.dipole_Hfield(o2, m2)
print("inputs untouched", np.array_equal(o2, obs, equal_nan=True), np.array_equal(m2, mom_mix, equal_nan=True), "fresh", not np.shares_memory(res, m2), res.flags.owndata)
run("empty", lambda: magpy.core.dipole_Hfield(np.zeros((0, 3)), np.zeros((0, 3))))

for field in ("X", "MJ", "", None):
    run(f"err field {field!r}", lambda: BHJM_dipole(field, obs, mom))
for o, m, name in [
    (obs, mom[:3], "mom short"), (obs[:3], mom, "obs short"), (np.zeros((3, 3)), mom[:2], "centre mom short"),
    (obs, mom[0], "single mom"), (np.zeros((2, 3)), mom[0], "centre single mom"), (obs[0], mom, "single obs"),
    (np.zeros(3), mom[0], "single both centre"), (obs[0], mom[0], "single both"), (obs.tolist(), mom, "list obs"),
    (obs, mom.tolist(), "list mom"), (np.zeros((2, 3)), [[1, 2, 3], [0, 0, 1]], "centre list mom"),
    (obs[:, :2], mom, "obs (n,2)"), (obs, mom[:, :2], "mom (n,2)"), (np.zeros((2, 3)), np.ones((2, 2)), "centre mom (n,2)"),
    (obs, None, "mom None"), (obs, 1.0, "mom scalar"), (np.zeros((2, 3)), 1.0, "centre mom scalar"),
]:
    run(f"err core {name}", lambda: magpy.core.dipole_Hfield(o, m))
    run(f"err BHJM M {name}", lambda: BHJM_dipole("M", o, m))
    run(f"err BHJM B {name}", lambda: BHJM_dipole("B", o, m))

with np.errstate(all="raise"):
    run("errstate raise centre", lambda: magpy.core.dipole_Hfield(obs, mom_mix))
    run("errstate raise no centre", lambda: magpy.core.dipole_Hfield(obs[[0, 2]], mom_mix[[0, 2]]))
print("errstate after", sorted(np.geterr().items()))

for field in "BHJM":
    get = getattr(magpy, "get" + field)
    dip = magpy.misc.Dipole(moment=(1, -2, 3), position=(0.3, 0.2, 0.7))
    dip2 = magpy.misc.Dipole(moment=(0, 0, 3)).rotate_from_angax(45, "x")
    sens = magpy.Sensor(pixel=obs[:9])
    run(f"top {field}", lambda: get([dip, dip2], sens))
    run(f"src {field}", lambda: getattr(dip, "get" + field)(obs[:9]))
    run(f"sens {field}", lambda: getattr(sens, "get" + field)(dip, dip2))
    run(f"coll {field}", lambda: getattr(magpy.Collection(dip, dip2), "get" + field)(obs[:9]))
    run(f"func {field}", lambda: get("Dipole", obs, moment=mom_mix))
    run(f"func single {field}", lambda: get("Dipole", obs, moment=(1, -2, 3)))
    run(f"df {field}", lambda: get(dip, obs[:9], output="dataframe")[[field + "x", field + "y", field + "z"]].to_numpy())
