import os, sys; sys.path.insert(0, os.getcwd())
import hashlib
import re
import warnings

import numpy as np

import magpylib as magpy

warnings.simplefilter("ignore")


def dig(name, arr):
    arr = np.ascontiguousarray(np.asarray(arr, dtype=float))
    h = hashlib.sha256(arr.tobytes()).hexdigest()[:16]
    print(name, arr.shape, h, np.round(arr.ravel()[:4], 12).tolist())


def make():
    cub = magpy.magnet.Cuboid(polarization=(0.1, 0.2, 0.3), dimension=(1, 2, 3))
    cub.move([(0.1 * i, 0, 0) for i in range(1, 4)])  # length 4
    cub.rotate_from_angax([3, 6, 9, 12], "y", start=0)
    cyl = magpy.magnet.Cylinder(
        polarization=(0.3, 0.2, 0.1), dimension=(1, 2), position=(0, 3, 0)
    )
    cyl.rotate_from_angax(33, (1, 2, 3))  # length 1, rotated
    circ = magpy.current.Circle(current=2.5, diameter=1.5, position=(0, 0, -2))
    circ.rotate_from_angax([5, 7], "x", start=1)  # length 3
    dip = magpy.misc.Dipole(moment=(1, 2, 3), position=(0, -3, 0))
    dip.move([(0, 0, 0.1)] * 5)  # length 6
    line = magpy.current.Polyline(
        current=1.5, vertices=[(0, 0, 0), (1, 0, 0), (1, 1, 1)], position=(4, 0, 0)
    )
    line.rotate_from_angax([1, 2], "z")  # length 3
    return [cub, cyl, circ, dip, line]


def make_sensors():
    pix = [(0, 0, 0), (0.1, 0.2, 0.3)]
    s1 = magpy.Sensor(pixel=pix, position=(2, 2, 2))
    s2 = magpy.Sensor(pixel=pix, position=(-2, 1, 1))
    s2.rotate_from_angax([10, 20, 30, 40, 50, 60, 70], (1, 1, 0))  # length 8
    s3 = magpy.Sensor(pixel=pix, position=(1, -2, 1), handedness="left")
    s3.rotate_from_angax(25, "y")
    s3.move([(0, 0, 0.1)] * 2)  # length 3
    return [s1, s2, s3]


srcs = make()
sens = make_sensors()
objs = srcs + sens


def snapshot():
    return [(o._position.copy(), o._orientation, o._orientation.as_quat().copy()) for o in objs]


def check_restored(tag, snap):
    ok_pos = all(
        p.shape == o._position.shape and bool(np.all(p == o._position))
        for (p, _, _), o in zip(snap, objs)
    )
    ok_same_rot = all(r is o._orientation for (_, r, _), o in zip(snap, objs))
    ok_quat = all(
        bool(np.all(q == o._orientation.as_quat())) for (_, _, q), o in zip(snap, objs)
    )
    print(" restored", tag, ok_pos, ok_same_rot, ok_quat, [len(o._position) for o in objs])


def run(tag, func, *args, **kwargs):
    snap = snapshot()
    try:
        out = func(*args, **kwargs)
        if hasattr(out, "to_numpy"):
            out = out[[c for c in out.columns if c[0] in "BHJM" and len(c) == 2]].to_numpy()
        dig(tag, out)
    except Exception as err:  # pylint: disable=broad-except
        msg = re.sub(r"id=\d+|0x[0-9a-fA-F]+", "ID", str(err).replace("\n", " "))
        print(tag, type(err).__name__, msg[:80])
        out = None
    check_restored(tag, snap)
    return out


# 1) every path length from 1 to 8 mixed; element (l, m, k) equals the pair alone at its last pose
full = run("B_all", magpy.getB, srcs, sens, squeeze=False)
run("H_all", magpy.getH, srcs, sens, squeeze=False)
flags = []
for l, src in enumerate(srcs):
    for k, sn in enumerate(sens):
        one = magpy.getB(src, sn, squeeze=False)  # (1, m_pair, 1, 2, 3)
        m_pair = one.shape[1]
        same = bool(np.all(one[0, :, 0] == full[l, :m_pair, k]))
        # beyond both paths nothing moves any more
        frozen = bool(np.all(full[l, m_pair:, k] == full[l, m_pair - 1, k]))
        flags.append((same, frozen))
print("pairs", flags)

# 2) subsets in which a different object is the longest one, or nobody needs padding
run("static_only", magpy.getB, [srcs[1]], sens[0], squeeze=False)
run("all_static", magpy.getB, [srcs[1], srcs[1]], [sens[0], sens[0]], squeeze=False)
run("equal_len3", magpy.getB, [srcs[2], srcs[4]], sens[2], squeeze=False)
run("source_longest", magpy.getB, [srcs[3], srcs[0], srcs[1]], [sens[0], sens[2]], squeeze=False)
run("sensor_longest", magpy.getB, [srcs[1], srcs[0]], sens[1], squeeze=False)
run("array_observer", magpy.getB, srcs, [(1, 2, 3), (2, 3, 4)], squeeze=False)
run("squeeze", magpy.getB, srcs[0], sens[0])

# 3) the same object several times, as a source in a collection and as a bare source
col = magpy.Collection(srcs[0], srcs[2], sens[2])
objs.append(col)
run("duplicates", magpy.getB, [srcs[0], col, srcs[0], srcs[1]], [sens[2], sens[2], sens[0]], squeeze=False)
run("col_self", col.getB, squeeze=False)
run("sumup", magpy.getH, srcs, sens, sumup=True, squeeze=False)
run("agg", magpy.getB, srcs, sens, pixel_agg="max", squeeze=False)
run("dataframe", magpy.getB, srcs[:2], sens[:2], output="dataframe")
run("src_method", srcs[3].getH, *sens, squeeze=False)
run("sens_method", sens[1].getB, *srcs, squeeze=False)

# 4) failures after the paths were padded: everything must be back afterwards
nofunc = magpy.misc.CustomSource(position=[(0, 0, 0), (1, 1, 1)])
objs.append(nofunc)
run("e_no_field_func", magpy.getB, [srcs[0], nofunc, srcs[3]], sens, squeeze=False)
badfunc = magpy.misc.CustomSource(field_func=lambda field, observers: None)
objs.append(badfunc)
run("e_none_field", magpy.getB, [srcs[1], badfunc], sens)


def raising(field, observers):
    if len(observers) > 2:  # the validation at construction uses two observers
        raise ZeroDivisionError("inside field function")
    return np.zeros_like(observers)


boom = magpy.misc.CustomSource(field_func=raising, position=(1, 1, 1))
objs.append(boom)
run("e_field_raises", magpy.getH, [srcs[3], boom, srcs[0]], sens[1:])
run("e_bad_output", magpy.getB, srcs, sens, output="table")

broken_sens = magpy.Sensor(pixel=[(0, 0, 0), (0.1, 0.2, 0.3)], position=(0, 1, 0))
broken_sens._pixel = np.zeros((2, 2))
run("e_pixel_stage", magpy.getB, srcs, [sens[1], broken_sens], pixel_agg="mean")


class NoQuat:
    """orientation stand-in that fails as soon as the padding needs its quaternions"""

    def __len__(self):
        return 1

    def as_quat(self):
        raise RuntimeError("no quaternions")


broken_src = magpy.magnet.Sphere(polarization=(0, 0, 1), diameter=1, position=(5, 5, 5))
good_rot = broken_src._orientation
broken_src._orientation = NoQuat()
snap_pos = broken_src._position.copy()
snap = snapshot()
try:
    magpy.getB([srcs[0], broken_src, srcs[2]], sens)
    print("e_padding no error")
except Exception as err:  # pylint: disable=broad-except
    print("e_padding", type(err).__name__, str(err)[:60])
check_restored("e_padding", snap)
print(
    " broken_src",
    broken_src._position.shape,
    bool(np.all(broken_src._position == snap_pos)),
    type(broken_src._orientation).__name__,
)
broken_src._orientation = good_rot
run("after_repair", magpy.getB, [srcs[0], broken_src, srcs[2]], sens, squeeze=False)

# 5) failures before anything is padded
run("e_no_observers", magpy.getB, srcs, [])
run("e_no_sources", magpy.getB, [], sens)
run("e_kwargs", magpy.getB, srcs, sens, diameter=3)

# 6) results after all the failures are the same as at the start
again = run("B_all_again", magpy.getB, srcs, sens, squeeze=False)
print("unchanged", bool(np.all(again == full)))
