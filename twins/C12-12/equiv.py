import os, sys; sys.path.insert(0, os.getcwd())
import hashlib
import warnings

import numpy as np

import magpylib as magpy
from magpylib._src.fields import field_BH_triangle as mod
from magpylib._src.fields.field_BH_triangle import BHJM_triangle
from magpylib._src.fields.field_BH_triangle import norm_vector
from magpylib._src.fields.field_BH_triangle import solid_angle
from magpylib._src.fields.field_BH_triangle import triangle_Bfield
from magpylib._src.fields.field_BH_triangle import vcross3

warnings.simplefilter("ignore")
np.set_printoptions(precision=10, linewidth=200)
assert os.path.abspath(mod.__file__).startswith(os.getcwd()), mod.__file__


def digest(tag, arr):
    arr = np.asarray(arr)
    kind = arr.dtype.kind
    flags = (arr.flags["C_CONTIGUOUS"], arr.flags["F_CONTIGUOUS"], arr.flags["OWNDATA"])
    raw = np.ascontiguousarray(arr.astype(float))
    h = hashlib.sha256(raw.tobytes()).hexdigest()[:16]
    print(tag, arr.shape, kind, flags, h)
    print(np.array2string(raw.ravel()[:18], precision=10))


def attempt(tag, func):
    try:
        digest(tag, func())
    except Exception as err:  # pylint: disable=broad-except
        print(tag, "EXC", type(err).__name__, str(err)[:160].replace("\n", " | "))


rng = np.random.default_rng(3302)
n = 40
verts = rng.normal(size=(n, 3, 3))
obs = rng.normal(size=(n, 3)) * 2
pol = rng.normal(size=(n, 3))

# special observers for a fixed triangle: corner, edge, edge extension, in plane, above centre
tri = np.array([(0.0, 0.0, 0.0), (1.0, 0.0, 0.0), (0.0, 1.0, 0.0)])
special = np.array(
    [
        (0, 0, 0), (1, 0, 0), (0, 1, 0),          # corners
        (0.5, 0, 0), (0, 0.3, 0), (0.5, 0.5, 0),  # on edges
        (2, 0, 0), (-1, 0, 0), (0, 3, 0),         # edge extensions
        (0.2, 0.2, 0), (3, 3, 0),                 # in plane inside / outside
        (0.2, 0.2, 1e-9), (0.2, 0.2, 1e9), (1 / 3, 1 / 3, 0.5), (0.2, 0.3, -0.7),
    ],
    dtype=float,
)
sp_verts = np.tile(tri, (len(special), 1, 1))
sp_pol = np.tile((0.3, -0.2, 1.0), (len(special), 1))

# 1) helpers
attempt("vcross3", lambda: vcross3(verts[:, 0], verts[:, 1]))
attempt("vcross3 int", lambda: vcross3(np.arange(12).reshape(4, 3), np.arange(12)[::-1].reshape(4, 3)))
attempt("norm_vector", lambda: norm_vector(verts))
attempt("norm_vector degenerate", lambda: norm_vector(np.zeros((2, 3, 3))))
R = np.swapaxes(verts, 0, 1) - obs
r = np.sqrt(np.sum(R * R, axis=-1))
attempt("solid_angle", lambda: solid_angle(R, r))
attempt("solid_angle lists", lambda: solid_angle(list(R), list(r)))
attempt("solid_angle 4 rows", lambda: solid_angle(np.concatenate([R, R[:1]]), np.concatenate([r, r[:1]])))
Rs = np.swapaxes(sp_verts, 0, 1) - special
rs = np.sqrt(np.sum(Rs * Rs, axis=-1))
attempt("solid_angle special", lambda: solid_angle(Rs, rs))

# 2) core field, unit / excitation scaling
for scale in (1.0, 1e-9, 1e-3, 1e3, 1e9):
    for amp in (1e-12, 1.0, 1e12):
        attempt(
            f"core random s={scale:g} a={amp:g}",
            lambda: triangle_Bfield(observers=obs * scale, vertices=verts * scale, polarizations=pol * amp),
        )
        attempt(
            f"core special s={scale:g} a={amp:g}",
            lambda: triangle_Bfield(observers=special * scale, vertices=sp_verts * scale, polarizations=sp_pol * amp),
        )
attempt("core single", lambda: triangle_Bfield(obs[:1], verts[:1], pol[:1]))
attempt("core empty", lambda: triangle_Bfield(obs[:0], verts[:0], pol[:0]))
attempt("core int", lambda: triangle_Bfield(np.array([[2, 1, 1]]), np.array([[(0, 0, 0), (0, 0, 1), (1, 0, 0)]]), np.array([[1, 1, 1]])))
attempt("core f32", lambda: triangle_Bfield(obs.astype(np.float32), verts.astype(np.float32), pol.astype(np.float32)))
attempt("core degenerate tri", lambda: triangle_Bfield(obs[:2], np.zeros((2, 3, 3)), pol[:2]))

# 3) BHJM level
for field in "BHJM":
    attempt(f"BHJM {field}", lambda: BHJM_triangle(field=field, observers=obs, vertices=verts, polarization=pol))
    attempt(f"BHJM {field} special", lambda: BHJM_triangle(field, special, sp_verts, sp_pol))
    attempt(f"BHJM {field} int pol", lambda: BHJM_triangle(field, obs[:3], verts[:3], np.array([(1, 2, 3)] * 3)))
    attempt(f"BHJM {field} empty", lambda: BHJM_triangle(field, obs[:0], verts[:0], pol[:0]))
p_in = pol.copy()
out = BHJM_triangle("J", obs, verts, p_in)
print("J result aliases input:", out is p_in, np.shares_memory(out, p_in), np.array_equal(p_in, pol))

# 4) error paths
for bad in ("X", "", "BH", "b", None, 1, ("B",)):
    attempt(f"err field {bad!r}", lambda: BHJM_triangle(bad, obs, verts, pol))
attempt("err pol list B", lambda: BHJM_triangle("B", obs, verts, pol.tolist()))
attempt("err pol list M", lambda: BHJM_triangle("M", obs, verts, pol.tolist()))
attempt("err obs short", lambda: BHJM_triangle("B", obs[:5], verts, pol))
attempt("err pol short", lambda: BHJM_triangle("B", obs, verts, pol[:5]))
attempt("err pol short J", lambda: BHJM_triangle("J", obs, verts, pol[:5]))
attempt("err verts (n,4,3)", lambda: BHJM_triangle("B", obs, rng.normal(size=(n, 4, 3)), pol))
attempt("err verts (n,2,3)", lambda: BHJM_triangle("H", obs, verts[:, :2], pol))
attempt("err verts (n,3,2)", lambda: BHJM_triangle("B", obs, verts[:, :, :2], pol))
attempt("err verts 2D", lambda: BHJM_triangle("B", obs, verts[:, 0], pol))
attempt("err verts list", lambda: triangle_Bfield(obs, verts.tolist(), pol))
attempt("err obs list", lambda: triangle_Bfield(obs.tolist(), verts, pol))
attempt("err pol list core", lambda: triangle_Bfield(obs, verts, pol.tolist()))
attempt("err obs (n,2)", lambda: triangle_Bfield(obs[:, :2], verts, pol))
attempt("err pol (n,2)", lambda: triangle_Bfield(obs, verts, pol[:, :2]))
attempt("err None", lambda: triangle_Bfield(None, verts, pol))

# 5) object interface at three length units (Triangle and a TriangularMesh built from triangles)
for scale in (1e-3, 1.0, 1e6):
    t = magpy.misc.Triangle(vertices=tri * scale, polarization=(0.1, 0.2, 0.3), position=(0.1 * scale, 0, 0))
    t.rotate_from_angax(33, (1, 2, 3))
    for f in ("getB", "getH", "getJ", "getM"):
        attempt(f"obj {f} s={scale:g}", lambda: getattr(t, f)(special * scale))
    tet = magpy.magnet.Tetrahedron(vertices=np.array([(0, 0, 0), (1, 0, 0), (0, 1, 0), (0, 0, 1)]) * scale, polarization=(1, 2, 3))
    attempt(f"tetra getB s={scale:g}", lambda: tet.getB(special * scale))
