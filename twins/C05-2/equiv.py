import os, sys; sys.path.insert(0, os.getcwd())
import hashlib
import re
import builtins

import numpy as np

import magpylib as magpy
from magpylib._src.exceptions import MagpylibBadUserInput, MagpylibMissingInput


_print = builtins.print


def print(*args):  # deterministic: strip object ids / addresses
    txt = " ".join(str(a) for a in args)
    txt = re.sub(r"id=\d+", "id=#", txt)
    txt = re.sub(r"0x[0-9a-f]+", "0x#", txt)
    _print(txt)


def dig(name, arr):
    arr = np.asarray(arr)
    h = hashlib.sha256(np.ascontiguousarray(arr).tobytes()).hexdigest()[:16]
    print(name, arr.shape, h, np.round(arr.ravel()[:6], 12).tolist())


def err(name, fn):
    try:
        fn()
        print(name, "no error")
    except Exception as e:  # pylint: disable=broad-except
        print(name, type(e).__name__, str(e).splitlines()[0][:90])


def mk():
    s1 = magpy.magnet.Cuboid(polarization=(0.1, 0.2, 0.3), dimension=(1, 2, 3), position=(0.1, 0, 0))
    s2 = magpy.magnet.Sphere(polarization=(0.3, -0.2, 0.1), diameter=1.5, position=(3, 1, 0))
    s3 = magpy.current.Circle(current=12.0, diameter=2.0, position=(0, -3, 1))
    s4 = magpy.misc.Dipole(moment=(1, 2, 3), position=(-3, 0, 0.5))
    s5 = magpy.magnet.Cylinder(polarization=(0, 0.1, 0.4), dimension=(1, 2), position=(0, 4, 0))
    s6 = magpy.current.Polyline(current=3.0, vertices=[(0, 0, 5), (1, 1, 5), (2, 0, 6)])
    s2.rotate_from_angax([10, 20, 30], "y", start=0)
    s5.move([(0.1, 0, 0)] * 4, start=0)
    return s1, s2, s3, s4, s5, s6


obs = np.array([(0.5, 4.0, 3.0), (0.2, 0.1, 0.3), (6.0, 0.0, -1.0)])
sens = magpy.Sensor(pixel=[(0, 0, 0), (-0.9, -5.1, -1.8)], position=(1, 5, 2)).rotate_from_angax(33, (1, 2, 3))


def ff1(field, observers):
    return observers * (2.0 if field == "B" else 3.0)


def ff2(field, observers):
    return observers[:, ::-1] + 1.0


for field in ("B", "H", "J", "M"):
    getf = getattr(magpy, "get" + field)
    # interleaved source types: groups scatter into non-contiguous positions of B
    s = mk()
    t = mk()
    order = [s[0], t[2], s[1], t[0], s[2], t[1], s[3], t[5], s[4], t[3], s[5], t[4]]
    res = getf(order, obs)
    dig(field + " interleaved", res)
    for i, src in enumerate(order):
        single = getf(src, obs, squeeze=False)[0, :, 0]
        full = res[i]
        # single-source path may be shorter than the joint path: compare last step
        print(field, i, type(src).__name__, bool(np.array_equal(full[-1], single[-1])))
    dig(field + " interleaved sumup", getf(order, sens, sumup=True))
    # reversed order gives reversed result
    dig(field + " reversed", getf(order[::-1], obs))
    # groups inside collections
    c1 = magpy.Collection(s[0], t[2], s[1])
    c2 = magpy.Collection(t[0], magpy.Collection(s[2], t[1]))
    dig(field + " collections", getf([c1, s[3], c2, t[5]], obs))
    # single source / single group
    dig(field + " one source", getf(s[4], obs))
    dig(field + " one group", getf([s[0], t[0]], obs))

# custom sources: same function shared -> one group; different functions -> two groups
s = mk()
ca = magpy.misc.CustomSource(field_func=ff1, position=(1, 0, 0))
cb = magpy.misc.CustomSource(field_func=ff2)
cc = magpy.misc.CustomSource(field_func=ff1).rotate_from_angax(45, "z")
dig("custom B", magpy.getB([ca, s[0], cb, cc, s[1]], obs))
dig("custom H", magpy.getH([cc, cb, magpy.Collection(ca, s[2])], obs))
print("paths", [len(x.position.reshape(-1, 3)) for x in s])

# error paths
s = mk()
bad = magpy.misc.CustomSource()
bad2 = magpy.misc.CustomSource(style_label="second")
err("no field_func first", lambda: magpy.getB([bad, s[0], bad2], obs))
err("no field_func later", lambda: magpy.getH([s[0], s[1], bad2, bad], obs))
print("paths after error", [len(x.position.reshape(-1, 3)) for x in s])
none_b = magpy.misc.CustomSource(field_func=lambda field, observers: None if field == "B" else observers)
err("field_func None for B", lambda: magpy.getB([s[0], none_b, s[1]], obs))
dig("field_func ok for H", magpy.getH([s[0], none_b, s[1]], obs))
wrong = magpy.misc.CustomSource(field_func=lambda field, observers: observers)
wrong._field_func = lambda field, observers: observers[:2]  # wrong output length, bypass setter check
err("field_func wrong shape", lambda: magpy.getB([s[0], wrong], obs))
print("paths after error", [len(x.position.reshape(-1, 3)) for x in s])


def boom(field, observers):
    raise RuntimeError("boom " + field)


wrong._field_func = boom
err("field_func raises", lambda: magpy.getH([s[4], wrong, s[1]], obs))
print("paths after error", [len(x.position.reshape(-1, 3)) for x in s])
