import os, sys; sys.path.insert(0, os.getcwd())
import hashlib
import re
import warnings

import numpy as np
from scipy.spatial.transform import Rotation as R

import magpylib as magpy

warnings.simplefilter("ignore")


def dig(name, val):
    """print a deterministic (bit-exact) digest of an array or exception"""
    if isinstance(val, BaseException):
        msg = re.sub(r"id=\d+|0x[0-9a-f]+", "#", str(val))
        print(f"{name}: EXC {type(val).__name__}: {msg[:120]!r}")
    elif val is None:
        print(f"{name}: None")
    else:
        a = np.asarray(val, dtype=float)
        h = hashlib.sha256(np.ascontiguousarray(a).tobytes()).hexdigest()[:16]
        print(f"{name}: shape={a.shape} sha={h} sum={np.sum(a):.12e}")


def run(name, func):
    try:
        dig(name, func())
    except Exception as err:  # pylint: disable=broad-except
        dig(name, err)


def state(objs):
    parts = []
    for o in objs:
        parts.append(o._position.tobytes())
        parts.append(o._orientation.as_quat().tobytes())
    return hashlib.sha256(b"".join(parts)).hexdigest()[:16]


rot3 = R.from_rotvec([[0.1, 0.2, 0.3], [0.5, -0.4, 0.3], [1.0, 2.0, -0.5]])

cub = magpy.magnet.Cuboid(
    polarization=(0.1, 0.2, 0.3), dimension=(1, 2, 3), position=(0.1, 0.2, 0.3)
).rotate_from_angax(33, (1, 2, 3))
circ = magpy.current.Circle(current=12.0, diameter=2.5, position=(0, 0, -2))
circ.rotate_from_angax([10, 20, 30], "x", anchor=0)
dip = magpy.misc.Dipole(moment=(1, 2, 3), position=(-3, 1, 1))
sph = magpy.magnet.Sphere(polarization=(0.3, 0, 0.1), diameter=0.7, position=(2, -3, 1))
col = magpy.Collection(dip, sph).rotate_from_angax(25, "y", anchor=(0, 0, 1))
srcs = [cub, col, circ]

rng = np.random.default_rng(7)
pixels = {
    "none": None,
    "3": (0.1, 0.2, 0.3),
    "1x3": [(0.1, 0.2, 0.3)],
    "4x3": rng.uniform(-0.3, 0.3, (4, 3)),
    "2x2x3": rng.uniform(-0.3, 0.3, (2, 2, 3)),
    "1x4x3": rng.uniform(-0.3, 0.3, (1, 4, 3)),
    "4x1x3": rng.uniform(-0.3, 0.3, (4, 1, 3)),
    "2x1x2x3": rng.uniform(-0.3, 0.3, (2, 1, 2, 3)),
    "1x1x3": rng.uniform(-0.3, 0.3, (1, 1, 3)),
}


def sensor_set(pixel):
    return [
        magpy.Sensor(pixel=pixel, position=(4, 4, 4)).rotate(rot3, anchor=0, start=0),
        magpy.Sensor(pixel=pixel, position=(-4, 3, 2), handedness="left").rotate_from_angax(
            70, (1, 0, 1)
        ),
        magpy.Sensor(pixel=pixel, position=(1, 5, 1)),
    ]


aggs = (None, "mean", "max", "min", "sum", "std", "median", "ptp", "linalg")

# all sensors with the same pixel shape
for pname, pixel in pixels.items():
    sens = sensor_set(pixel)
    before = state([cub, dip, sph, col, circ, *sens])
    for agg in aggs:
        for squeeze in (True, False):
            run(f"same/{pname}/{agg}/sq={squeeze}/3sens",
                lambda: magpy.getB(srcs, sens, pixel_agg=agg, squeeze=squeeze))
            run(f"same/{pname}/{agg}/sq={squeeze}/1sens/sumup",
                lambda: magpy.getH(srcs, sens[1], pixel_agg=agg, squeeze=squeeze, sumup=True))
            run(f"same/{pname}/{agg}/sq={squeeze}/1src",
                lambda: magpy.getB(cub, sens[::-1], pixel_agg=agg, squeeze=squeeze))
    print(f"same/{pname}/state-unchanged:", before == state([cub, dip, sph, col, circ, *sens]))

# bare position observers of several shapes
for shape in ((3,), (1, 3), (5, 3), (2, 2, 3), (1, 1, 1, 3), (2, 3, 1, 3)):
    pos = rng.uniform(2, 3, shape)
    for agg in (None, "mean", "max"):
        for squeeze in (True, False):
            run(f"pos/{shape}/{agg}/sq={squeeze}",
                lambda: magpy.getB(srcs, pos, pixel_agg=agg, squeeze=squeeze))
            run(f"pos-list/{shape}/{agg}/sq={squeeze}",
                lambda: magpy.getH(srcs, [pos, pos + 1], pixel_agg=agg, squeeze=squeeze))

# sensors with different pixel shapes: aggregator needed
names = list(pixels)
combos = [
    ("none", "4x3"),
    ("4x3", "none"),
    ("3", "1x3", "none"),
    ("4x3", "2x2x3"),
    ("4x3", "2x2x3", "1x4x3", "none", "2x1x2x3"),
    ("1x4x3", "4x1x3"),
    ("2x1x2x3", "1x1x3", "4x3", "4x3"),
]
for combo in combos:
    sens = [
        magpy.Sensor(pixel=pixels[n], position=(4 + i, 4, 4 - i), handedness=("left", "right")[i % 2])
        .rotate(rot3[: 1 + i % 3], anchor=0, start=0)
        for i, n in enumerate(combo)
    ]
    before = state([cub, dip, sph, col, circ, *sens])
    for agg in aggs:
        for squeeze in (True, False):
            run(f"mixed/{'+'.join(combo)}/{agg}/sq={squeeze}",
                lambda: magpy.getB(srcs, sens, pixel_agg=agg, squeeze=squeeze))
            run(f"mixed/{'+'.join(combo)}/{agg}/sq={squeeze}/sumup",
                lambda: magpy.getH(cub, sens, pixel_agg=agg, squeeze=squeeze, sumup=True))
    run(f"mixed/{'+'.join(combo)}/with-pos",
        lambda: magpy.getB(srcs, [*sens, (1.0, 2.0, 3.0), [(3.0, 3, 3), (4, 4, 4)]], pixel_agg="mean"))
    print(f"mixed/{'+'.join(combo)}/state-unchanged:", before == state([cub, dip, sph, col, circ, *sens]))

# dataframe output
sens = sensor_set(pixels["2x2x3"])
for agg in (None, "mean"):
    run(f"df/{agg}",
        lambda: magpy.getB(srcs, sens, pixel_agg=agg, output="dataframe")[["Bx", "By", "Bz"]].to_numpy())
    run(f"df/{agg}/index",
        lambda: magpy.getB(srcs, sens, pixel_agg=agg, output="dataframe")[["path", "pixel"]].to_numpy())
run("df/mixed",
    lambda: magpy.getH(srcs, [sens[0], (1.0, 2, 3)], pixel_agg="max", output="dataframe")[["Hx", "Hy", "Hz"]].to_numpy())

# error paths of the pixel handling
for agg in ("newaxis", "nope", "abs", "array", "pi", 3, ("mean",), ""):
    run(f"err/agg={agg!r}", lambda: magpy.getB(srcs, sens, pixel_agg=agg))
run("err/empty-observers", lambda: magpy.getB(srcs, []))
run("err/bad-pixel", lambda: magpy.Sensor(pixel=(1, 2)))
run("err/bad-pos", lambda: magpy.getB(srcs, (1, 2)))
run("err/different-shapes", lambda: magpy.getB(srcs, [sens[0], (1.0, 2, 3)]))
# pixel changed behind the setter to something that breaks inside the try block
bad = magpy.Sensor(pixel=pixels["4x3"], position=(1, 1, 7)).rotate(rot3, anchor=0, start=0)
short = magpy.Sensor(pixel=pixels["4x3"], position=(1, 1, 7))
bad._pixel = np.ones((4, 2))
short._pixel = np.ones((4, 2))
before = state([cub, dip, sph, col, circ, short])
run("err/broken-pixel", lambda: magpy.getB(srcs, [short, bad]))
print("err/broken-pixel/state-unchanged:", before == state([cub, dip, sph, col, circ, short]))
# shape (2, 6): reshape(-1, 3) works, but pixel count and shape disagree afterwards
bad._pixel = np.ones((2, 6))
short._pixel = np.ones((2, 6))
run("err/odd-pixel", lambda: magpy.getB(srcs, [short, bad]))
run("err/odd-pixel/agg", lambda: magpy.getB(srcs, [short, bad], pixel_agg="mean"))
print("err/odd-pixel/state-unchanged:", before == state([cub, dip, sph, col, circ, short]))
