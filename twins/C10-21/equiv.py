import os, sys; sys.path.insert(0, os.getcwd())
# Deterministic digest of the Collection transform machinery (C10).
# Output must be identical with and without the refactoring patch.
import hashlib
import warnings

import numpy as np
from scipy.spatial.transform import Rotation as R

import magpylib as magpy
from magpylib._src.obj_classes import class_BaseGeo as bg
from magpylib._src.obj_classes import class_BaseTransform as bt

warnings.simplefilter("ignore")
np.set_printoptions(precision=9, suppress=True, linewidth=200)

LINES = []


def emit(tag, *vals):
    parts = [tag]
    for v in vals:
        if isinstance(v, R):
            v = v.as_quat()
        if isinstance(v, np.ndarray):
            # exact bytes (bitwise equality expected) + rounded view for readability
            h = hashlib.sha1(np.ascontiguousarray(v).tobytes()).hexdigest()[:12]
            parts.append(f"{v.shape}{v.dtype}#{h}:{np.round(v, 9).tolist()}")
        else:
            parts.append(repr(v))
    LINES.append(" | ".join(parts))


def state(tag, *objs):
    for i, o in enumerate(objs):
        emit(f"{tag}[{i}]", o._position, o._orientation.as_quat())


def attempt(tag, fn):
    try:
        out = fn()
        LINES.append(f"{tag} -> ok {type(out).__name__}")
    except BaseException as err:  # pylint: disable=broad-except
        LINES.append(f"{tag} -> {type(err).__name__}: {str(err)[:160]!r}")


def tree(pathlen=1):
    """nested collection tree: top(c_in(cube, sens2), sphere, sens)"""
    cube = magpy.magnet.Cuboid(
        polarization=(0.1, 0.2, 0.3), dimension=(1, 2, 3), position=(1, 2, 3)
    )
    sph = magpy.magnet.Sphere(
        polarization=(0.3, 0, 0.1), diameter=1.5, position=(-2, 0.5, 1)
    )
    sens = magpy.Sensor(position=(0.3, -0.2, 4), pixel=[(0, 0, 0), (0.1, 0.2, 0.3)])
    sens2 = magpy.Sensor(position=(3, 3, -1), pixel=[(0, 0, 0.1), (0.2, 0, 0)])
    sens.rotate_from_angax(33, (1, 2, 3))
    cube.rotate_from_euler((10, 20, 30), "xyz")
    c_in = magpy.Collection(cube, sens2, position=(0.5, 0.5, 0.5))
    c_in.rotate_from_rotvec((5, 10, 15))
    top = magpy.Collection(c_in, sph, sens, position=(-1, 1, 0.25))
    if pathlen > 1:
        top.move(np.linspace((0, 0, 0), (1, 2, 3), pathlen)[1:], start=1)
    return top, c_in, cube, sph, sens, sens2


def allobjs(t):
    return t


# ---------------------------------------------------------------- module helpers
for start in ["auto", 0, 1, 3, 7, -1, -3, -7, np.int64(2), np.int64(-9)]:
    for scalar in (True, False):
        for lenop, lenip in [(1, 1), (4, 1), (4, 3), (2, 6)]:
            pad, st = bt.path_padding_param(scalar, lenop, lenip, start)
            emit("ppp", start, scalar, lenop, lenip, pad, type(pad).__name__, st)

s0 = magpy.Sensor(position=[(1, 2, 3), (2, 3, 4), (3, 4, 5)])
for inp, start in [
    (np.array([1.0, 1, 1]), "auto"),
    (np.array([[1.0, 1, 1]] * 2), "auto"),
    (np.array([[1.0, 1, 1]] * 2), 1),
    (np.array([[1.0, 1, 1]] * 5), -5),
    (np.array([1.0, 1, 1]), -6),
    (np.array([0.0, 0, 0, 1]), 2),
]:
    pp, op, st, en, padded = bt.path_padding(inp, start, s0)
    emit("pp", start, pp, op, st, en, padded)

p1 = np.arange(12.0).reshape(4, 3)
for p2 in [np.arange(6.0).reshape(2, 3), np.arange(18.0).reshape(6, 3), p1 + 1]:
    out = bg.pad_slice_path(p1, p2)
    emit("psp", out, out is p2, np.shares_memory(out, p2))

# ---------------------------------------------------------------- move on collections
for pathlen in (1, 4):
    for disp, start in [
        ((1, 2, 3), "auto"),
        ((1, 2, 3), 2),
        ((1, 2, 3), -2),
        ([(1, 2, 3), (2, 3, 4)], "auto"),
        ([(1, 2, 3), (2, 3, 4), (0, 0, 1)], 1),
        ([(1, 2, 3), (2, 3, 4), (0, 0, 1)], -6),
        (np.array([(0.5, 0, 0)] * 3), np.int64(3)),
    ]:
        t = tree(pathlen)
        t[0].move(disp, start=start)
        state(f"move top L{pathlen} {start}", *t)
        t = tree(pathlen)
        t[1].move(disp, start=start)
        state(f"move inner L{pathlen} {start}", *t)
        t = tree(pathlen)
        t[2].move(disp, start=start)
        state(f"move child L{pathlen} {start}", *t)

# ---------------------------------------------------------------- rotate on collections
ROTS = [
    ("rotate", lambda o, a, s: o.rotate(R.from_rotvec((0.2, -0.1, 0.4)), anchor=a, start=s)),
    ("rotateN", lambda o, a, s: o.rotate(None, anchor=a, start=s)),
    (
        "rotateV",
        lambda o, a, s: o.rotate(
            R.from_rotvec([(0.2, -0.1, 0.4), (0.1, 0.1, 0.1), (0, 0, 1)]), anchor=a, start=s
        ),
    ),
    ("angax", lambda o, a, s: o.rotate_from_angax(37, "y", anchor=a, start=s)),
    ("angaxV", lambda o, a, s: o.rotate_from_angax([10, 20, 30, 40], (1, 1, 0), anchor=a, start=s)),
    ("angaxR", lambda o, a, s: o.rotate_from_angax(0.3, (0, 2, 1), anchor=a, start=s, degrees=False)),
    ("angaxI", lambda o, a, s: o.rotate_from_angax(np.int64(45), [0, 0, 1], anchor=a, start=s)),
    ("rotvec", lambda o, a, s: o.rotate_from_rotvec([(10, 20, 30), (5, 5, 5)], anchor=a, start=s)),
    ("euler", lambda o, a, s: o.rotate_from_euler((15, 25), "zx", anchor=a, start=s)),
    ("matrix", lambda o, a, s: o.rotate_from_matrix([(0, -1, 0), (1, 0, 0), (0, 0, 1)], anchor=a, start=s)),
    ("mrp", lambda o, a, s: o.rotate_from_mrp((0.1, 0.2, 0.3), anchor=a, start=s)),
    ("quat", lambda o, a, s: o.rotate_from_quat([(0, 0, 1, 1), (1, 0, 0, 1)], anchor=a, start=s)),
]
ANCHORS = [
    None,
    0,
    (1, -2, 0.5),
    [(1, 0, 0), (0, 1, 0)],
    [(1, 0, 0), (0, 1, 0), (0, 0, 1), (1, 1, 1), (2, 2, 2)],
]
STARTS = ["auto", 0, 2, -1, -7, 5]
for pathlen in (1, 4):
    for name, op in ROTS:
        for anc in ANCHORS:
            for st in STARTS:
                for target in (0, 1, 2):
                    t = tree(pathlen)
                    op(t[target], anc, st)
                    h = hashlib.sha1()
                    for o in t:
                        h.update(np.ascontiguousarray(o._position).tobytes())
                        h.update(np.ascontiguousarray(o._orientation.as_quat()).tobytes())
                    LINES.append(
                        f"rot {name} L{pathlen} a={anc!r} s={st!r} t={target} "
                        f"lens={[len(o._position) for o in t]} #{h.hexdigest()[:16]}"
                    )
# a few in full
t = tree(4)
t[0].rotate_from_angax([10, 20, 30], "z", start=2)
state("full angax top", *t)
t = tree(4)
t[1].rotate_from_angax([10, 20, 30], "z", anchor=None, start=-6)
state("full angax inner", *t)
t = tree(1)
t[0].rotate_from_rotvec([(0, 0, 10), (0, 20, 0)], anchor=[(1, 1, 1)] * 4, start=1)
state("full rotvec top", *t)

# ---------------------------------------------------------------- setters / reset_path
for pathlen in (1, 4):
    for target in (0, 1, 2):
        t = tree(pathlen)
        t[target].position = (7, 8, 9)
        state(f"pos= scalar L{pathlen} t{target}", *t)
        t = tree(pathlen)
        t[target].position = [(7, 8, 9), (1, 1, 1)]
        state(f"pos= short L{pathlen} t{target}", *t)
        t = tree(pathlen)
        t[target].position = np.arange(18.0).reshape(6, 3)
        state(f"pos= long L{pathlen} t{target}", *t)
        t = tree(pathlen)
        t[target].orientation = R.from_rotvec((0.3, 0.2, 0.1))
        state(f"ori= scalar L{pathlen} t{target}", *t)
        t = tree(pathlen)
        t[target].orientation = R.from_rotvec([(0.3, 0.2, 0.1), (0, 0, 1)])
        state(f"ori= short L{pathlen} t{target}", *t)
        t = tree(pathlen)
        t[target].orientation = R.from_rotvec([(0.3, 0.2, 0.1)] * 6)
        state(f"ori= long L{pathlen} t{target}", *t)
        t = tree(pathlen)
        t[target].orientation = None
        state(f"ori= None L{pathlen} t{target}", *t)
        t = tree(pathlen)
        t[target].reset_path()
        state(f"reset L{pathlen} t{target}", *t)

# sequences + field invariance seen by own sensor
t = tree(3)
top = t[0]
B0 = top.getB()
top.move((1, 2, 3)).rotate_from_angax(40, (1, 2, 3), anchor=(1, 0, 0))
top.position = [(0, 0, 1), (0, 1, 0), (1, 0, 0)]
top.orientation = R.from_rotvec([(0.1, 0, 0), (0, 0.2, 0), (0, 0, 0.3)])
t[1].rotate_from_euler(12, "y").move((0.1, 0.1, 0.1))
state("seq", *t)
emit("seq B", top.getB())
t2 = tree(3)
B0 = t2[0].getB()
t2[0].move((1, 2, 3)).rotate_from_angax(40, (1, 2, 3), anchor=(1, 0, 0))
t2[0].position = [(0, 0, 1), (0, 1, 0), (1, 0, 0)]
t2[0].orientation = R.from_rotvec([(0.1, 0, 0), (0, 0.2, 0), (0, 0, 0.3)])
emit("seq invariance", bool(np.allclose(B0, t2[0].getB(), rtol=1e-10, atol=1e-14)))

# aliasing: anchor slice of parent path must not be modified, returns self
t = tree(2)
ppos = t[0]._position
pid = id(ppos)
ret = t[0].rotate_from_angax(10, "z")
emit("alias", ret is t[0], id(t[0]._position) == pid, t[0]._position)
ret = t[0].move((1, 1, 1))
emit("alias2", ret is t[0], id(t[0]._position) == pid)
user_anchor = np.array([(1.0, 2, 3), (4, 5, 6)])
user_disp = np.array([(1.0, 2, 3), (4, 5, 6)])
t[0].rotate_from_angax([10, 20, 30], "x", anchor=user_anchor)
t[0].move(user_disp)
emit("user inputs untouched", user_anchor, user_disp)

# ---------------------------------------------------------------- error paths
def fresh():
    return tree(2)[0]


attempt("err move str", lambda: fresh().move("abc"))
attempt("err move shape", lambda: fresh().move((1, 2)))
attempt("err move 3d", lambda: fresh().move(np.zeros((2, 2, 3))))
attempt("err move start", lambda: fresh().move((1, 2, 3), start=1.5))
attempt("err move start str", lambda: fresh().move((1, 2, 3), start="x"))
attempt("err rotate type", lambda: fresh().rotate((1, 2, 3)))
attempt("err rotate anchor", lambda: fresh().rotate(None, anchor=(1, 2)))
attempt("err rotate anchor1", lambda: fresh().rotate(None, anchor=1))
attempt("err rotate start", lambda: fresh().rotate(None, start=None))
attempt("err angax angle", lambda: fresh().rotate_from_angax("a", "z"))
attempt("err angax angle2d", lambda: fresh().rotate_from_angax([[1, 2]], "z"))
attempt("err angax axis", lambda: fresh().rotate_from_angax(10, "w"))
attempt("err angax axis0", lambda: fresh().rotate_from_angax(10, (0, 0, 0)))
attempt("err angax axis shape", lambda: fresh().rotate_from_angax(10, (0, 1)))
attempt("err angax start", lambda: fresh().rotate_from_angax(10, "z", start=0.5))
attempt("err angax degrees", lambda: fresh().rotate_from_angax(10, "z", degrees=1))
attempt("err angax anchor", lambda: fresh().rotate_from_angax(10, "z", anchor="a"))
attempt(
    "err anchor/rot mismatch",
    lambda: fresh().rotate(R.from_rotvec([(0, 0, 1)] * 3), anchor=[(0, 0, 0)] * 2),
)


def _setpos(v):
    f = fresh()
    f.position = v


def _setori(v):
    f = fresh()
    f.orientation = v


attempt("err pos=", lambda: _setpos((1, 2)))
attempt("err pos= str", lambda: _setpos("a"))
attempt("err ori=", lambda: _setori((1, 2, 3)))
# state after a rejected operation is unchanged
f = tree(2)
attempt("err keep", lambda: f[0].rotate_from_angax(10, "z", anchor=(1, 2)))
state("after rejected", *f)
attempt("err keep2", lambda: f[0].move((1, 2, 3), start=2.0))
state("after rejected2", *f)



# ---------------------------------------------------------------- twin4-4: recursion of move / _rotate through the tree
import re


def deep():
    """4 levels: top(l1(l2(l3(leaf), s2), s1), s0)"""
    leaf = magpy.magnet.Cuboid(polarization=(1, 2, 3), dimension=(1, 1, 1), position=(1, 2, 3), style_label="leaf")
    l3 = magpy.Collection(leaf, position=(0, 0, 1), style_label="l3")
    s2 = magpy.Sensor(position=[(0, 1, 0), (0, 2, 0)], style_label="s2")
    l2 = magpy.Collection(l3, s2, position=[(0, 1, 1), (0, 2, 2)], style_label="l2")
    s1 = magpy.Sensor(position=(1, 0, 0), style_label="s1")
    l1 = magpy.Collection(l2, s1, position=(1, 1, 0), style_label="l1")
    l1.rotate_from_angax(20, (1, 1, 1))
    s0 = magpy.Sensor(position=(2, 2, 2), style_label="s0")
    top = magpy.Collection(l1, s0, position=(-1, 0, 0.5), style_label="top")
    return [top, l1, l2, l3, leaf, s2, s1, s0]


# order in which the module functions are applied to the objects of the tree (looked up at call time)
ORDER = []
_orig_move, _orig_rot = bt.apply_move, bt.apply_rotation


def _log_move(target_object, displacement, start="auto"):
    ORDER.append(("move", target_object.style.label, repr(start)))
    return _orig_move(target_object, displacement, start=start)


def _log_rot(target_object, rotation, anchor=None, start="auto", parent_path=None):
    ORDER.append(
        (
            "rot",
            target_object.style.label,
            repr(start),
            None if anchor is None else np.round(np.asarray(anchor, dtype=float), 9).tolist(),
            None if parent_path is None else np.round(parent_path, 9).tolist(),
        )
    )
    return _orig_rot(target_object, rotation, anchor=anchor, start=start, parent_path=parent_path)


bt.apply_move, bt.apply_rotation = _log_move, _log_rot
try:
    for target in range(8):
        for opname, op in [
            ("move s", lambda o: o.move((1, 2, 3))),
            ("move v", lambda o: o.move([(1, 2, 3), (0, 0, 1), (1, 1, 1)], start=1)),
            ("rot None anchor", lambda o: o.rotate_from_angax(30, "z")),
            ("rot vec None anchor", lambda o: o.rotate_from_angax([10, 20, 30], "y", start=-1)),
            ("rot anchor", lambda o: o.rotate_from_rotvec((10, 20, 30), anchor=(1, 1, 1), start=0)),
            ("_rotate parent_path", lambda o: o._rotate(R.from_rotvec((0, 0, 0.3)), parent_path=np.array([(5.0, 5, 5), (6, 6, 6)]))),
            ("_rotate positional", lambda o: o._rotate(R.from_rotvec([(0, 0, 0.3)] * 2), (1, 0, 0), 1, None)),
        ]:
            d = deep()
            ORDER.clear()
            ret = op(d[target])
            LINES.append(f"order {opname} t{target} self={ret is d[target]} {ORDER}")
            state(f"deep {opname} t{target}", *d)
finally:
    bt.apply_move, bt.apply_rotation = _orig_move, _orig_rot


# dispatch to overridden methods of children, and partial effects when a child fails
class Stubborn(magpy.Sensor):
    """a child that refuses some operations"""

    def move(self, displacement, start="auto"):
        LINES.append(f"Stubborn.move {displacement!r} {start!r}")
        raise RuntimeError("I do not move")

    def _rotate(self, rotation, anchor=None, start="auto", parent_path=None):
        LINES.append(
            f"Stubborn._rotate anchor={anchor!r} start={start!r} "
            f"pp={None if parent_path is None else np.round(parent_path, 9).tolist()}"
        )
        raise RuntimeError("I do not rotate")


for pos in (0, 1, 2):
    kids = [magpy.Sensor(position=(i, 0, 0)) for i in range(2)]
    kids.insert(pos, Stubborn(position=(9, 9, 9)))
    col = magpy.Collection(*kids, position=(1, 1, 1))
    outer = magpy.Collection(col, magpy.Sensor(position=(0, 0, 7)), position=(0, 2, 0))
    objs = [outer, col, *kids, outer[1]]
    attempt(f"stubborn move pos{pos}", lambda: outer.move((1, 1, 1)))
    state(f"stubborn move pos{pos}", *objs)
    attempt(f"stubborn rotate pos{pos}", lambda: outer.rotate_from_angax(45, "z"))
    state(f"stubborn rotate pos{pos}", *objs)
    attempt(f"stubborn rotate anchor pos{pos}", lambda: col.rotate_from_angax([45, 90], "x", anchor=0))
    state(f"stubborn rotate anchor pos{pos}", *objs)


# children given as tuple / generator-free iterables, and objects without children
class TupleKids(magpy.Sensor):
    """user class with a tuple of children"""

    kids = ()

    @property
    def children(self):
        return self.kids


for n in (0, 1, 3):
    tk = TupleKids(position=[(1, 2, 3), (3, 2, 1)])
    tk.kids = tuple(magpy.Sensor(position=(i, i, i)) for i in range(n))
    tk.move((1, 1, 1)).rotate_from_angax(30, "z").rotate_from_angax([10, 20, 30], "x", anchor=(1, 1, 1), start=1)
    state(f"tuplekids n={n}", tk, *tk.kids)

# invalid input: the children are asked first, nothing is changed
for opname, op in [
    ("move bad", lambda o: o.move((1, 2))),
    ("move bad start", lambda o: o.move((1, 2, 3), start="a")),
    ("rotate bad", lambda o: o.rotate("z")),
    ("rotate bad anchor", lambda o: o.rotate(None, anchor=(1, 2))),
    ("rotate bad start", lambda o: o.rotate(None, start=0.5)),
    ("_rotate bad parent_path", lambda o: o._rotate(R.from_rotvec((0, 0, 1)), parent_path=5)),
]:
    for target in (0, 2, 4):
        d = deep()
        attempt(f"deep err {opname} t{target}", lambda: op(d[target]))
        state(f"deep err {opname} t{target}", *d)

# own-sensor field invariance under operations on the top collection
d = deep()
B0 = d[0].getB()
d[0].move((1, 2, 3)).rotate_from_angax(33, (1, 2, 3), anchor=(0, 1, 0)).rotate_from_angax(12, "x")
LINES.append(f"deep field invariance {bool(np.allclose(B0, d[0].getB(), rtol=1e-9, atol=1e-15))}")
emit("deep B", d[0].getB())

# ---------------------------------------------------------------- twins5: identity of the handed-down frame path, call forms
SEEN = []
CUR = []
_orig_rot2, _orig_move2 = bt.apply_rotation, bt.apply_move


def _id_rot(target_object, rotation, anchor=None, start="auto", parent_path=None):
    SEEN.append(
        (
            "rot",
            target_object.style.label,
            [i for i, o in enumerate(CUR) if parent_path is o._position],
            type(start).__name__,
            type(anchor).__name__,
        )
    )
    return _orig_rot2(target_object, rotation, anchor=anchor, start=start, parent_path=parent_path)


def _id_move(target_object, displacement, start="auto"):
    SEEN.append(("move", target_object.style.label, type(displacement).__name__, [i for i, o in enumerate(CUR) if displacement is o], repr(start)))
    return _orig_move2(target_object, displacement, start=start)


bt.apply_rotation, bt.apply_move = _id_rot, _id_move
try:
    for target in range(8):
        for opname, op in [
            ("rot", lambda o: o.rotate(R.from_rotvec((0.1, 0.2, 0.3)))),
            ("rot kw", lambda o: o.rotate(rotation=R.from_rotvec([(0.1, 0.2, 0.3)] * 3), anchor=None, start=np.int64(1))),
            ("_rotate empty pp", lambda o: o._rotate(R.from_rotvec((0.1, 0.2, 0.3)), parent_path=np.ones((1, 3)))),
            ("_rotate kw", lambda o: o._rotate(rotation=None, start=-1, anchor=(0, 0, 1), parent_path=None)),
            ("move pos", lambda o: o.move((1, 2, 3), 1)),
            ("move kw", lambda o: o.move(start=-2, displacement=np.array([(1.0, 2, 3), (3, 2, 1)]))),
            ("move list", lambda o: o.move([1, 2, 3])),
        ]:
            CUR = deep()
            SEEN.clear()
            ret = op(CUR[target])
            LINES.append(f"seen {opname} t{target} self={ret is CUR[target]} {SEEN}")
            state(f"seen {opname} t{target}", *CUR)
finally:
    bt.apply_rotation, bt.apply_move = _orig_rot2, _orig_move2

# wrong call forms
attempt("move no arg", lambda: deep()[0].move())
attempt("move extra", lambda: deep()[0].move((1, 2, 3), 0, 1))
attempt("move bad kw", lambda: deep()[0].move((1, 2, 3), begin=0))
attempt("_rotate extra", lambda: deep()[0]._rotate(None, None, 0, None, 1))
attempt("rotate bad kw", lambda: deep()[0].rotate(None, parent_path=None))
import inspect

LINES.append(f"sig move {inspect.signature(magpy.Collection.move)} {hashlib.sha1(magpy.Collection.move.__doc__.encode()).hexdigest()[:10]}")
LINES.append(f"sig _rotate {inspect.signature(magpy.Collection._rotate)} {hashlib.sha1(magpy.Collection._rotate.__doc__.encode()).hexdigest()[:10]}")
LINES.append(f"sig rotate {inspect.signature(magpy.Collection.rotate)} {hashlib.sha1(magpy.Collection.rotate.__doc__.encode()).hexdigest()[:10]}")


# a Collection subclass whose own move / rotate are overridden is honoured on every level
class LogCol(magpy.Collection):
    def move(self, displacement, start="auto"):
        LINES.append(f"LogCol.move {self.style.label} {start!r}")
        return super().move(displacement, start=start)

    def _rotate(self, rotation, anchor=None, start="auto", parent_path=None):
        LINES.append(f"LogCol._rotate {self.style.label} {start!r} pp={None if parent_path is None else parent_path.shape}")
        return super()._rotate(rotation, anchor=anchor, start=start, parent_path=parent_path)


inner = LogCol(magpy.Sensor(position=(1, 1, 1)), position=(0, 0, 2), style_label="in")
mid = magpy.Collection(inner, magpy.Sensor(position=(2, 0, 0)), position=(1, 0, 0), style_label="mid")
outer = LogCol(mid, position=(0, 1, 0), style_label="out")
outer.move((1, 1, 1)).rotate_from_angax(25, "y").move([(0, 0, 1)] * 2).rotate_from_angax([5, 10, 15], "x", start=1)
mid.rotate_from_angax(15, "z", anchor=(3, 3, 3)).move((0, 1, 0), start=-1)
state("logcol", outer, mid, inner, inner[0], mid[1])

LINES[:] = [re.sub(r"id=\d+", "id=#", line) for line in LINES]
digest = hashlib.sha256("\n".join(LINES).encode()).hexdigest()
for line in LINES:
    print(line)
print("N_LINES", len(LINES))
print("DIGEST", digest)
