import os, sys; sys.path.insert(0, os.getcwd())
import hashlib
import warnings

import numpy as np

import magpylib as magpy
from magpylib._src.fields.field_BH_triangularmesh import BHJM_magnet_trimesh

warnings.simplefilter("ignore")


def digest(name, arr):
    arr = np.asarray(arr)
    h = hashlib.sha256(np.ascontiguousarray(arr).tobytes()).hexdigest()[:16]
    print(name, arr.shape, arr.dtype, h)
    with np.printoptions(precision=10, linewidth=200):
        print(arr.astype(int) if arr.dtype == bool else np.round(arr, 12))


def attempt(label, fn):
    try:
        digest(label, fn())
    except Exception as e:  # noqa: BLE001
        print(label, "EXC", type(e).__name__, str(e)[:100].replace("\n", " | "))


def tetra_faces(v):
    v = np.asarray(v, dtype=float)
    return np.array([v[[0, 2, 1]], v[[0, 1, 3]], v[[1, 2, 3]], v[[0, 3, 2]]])


def cube_faces(a=1.0, c=(0, 0, 0)):
    cube = magpy.magnet.TriangularMesh.from_ConvexHull(
        points=[
            (x, y, z) for x in (-a / 2, a / 2) for y in (-a / 2, a / 2) for z in (-a / 2, a / 2)
        ],
        polarization=(0, 0, 1),
    )
    return cube.mesh + np.array(c, dtype=float)


rng = np.random.default_rng(5)
T1 = tetra_faces([(0, 0, 0), (1, 0, 0), (0, 1, 0), (0, 0, 1)])
T2 = tetra_faces([(0, 0, 0), (2, 0, 0), (0, 2, 0), (0, 0, 2)])
C1 = cube_faces(1.0)

# uniform mesh input (ndim 4) with runs of identical meshes: T1 T1 T1 T2 T2 T1 T2 T2
order = [T1, T1, T1, T2, T2, T1, T2, T2]
mesh_u = np.array(order)
n = len(order)
obs = rng.uniform(-0.2, 0.8, (n, 3))
obs[0] = (0.1, 0.1, 0.1)
obs[1] = (0.3, 0.3, 0.3)
obs[2] = (1.5, 1.5, 1.5)
obs[3] = (0.5, 0.5, 0.5)
obs[5] = (0.25, 0.25, 0.0)  # on a face
pol = rng.uniform(-1, 1, (n, 3))
pol[4] = 0

for in_out in ("auto", "inside", "outside", "bla"):
    for field in "BHJM":
        attempt(f"uniform-{in_out}-{field}", lambda: BHJM_magnet_trimesh(field, obs, mesh_u, pol, in_out=in_out))

# ragged mesh input (ndim 1, object array): T1 T1 C1 C1 C1 T2 C1 T1
order_r = [T1, T1, C1, C1, C1, T2, C1, T1]
mesh_r = np.empty(len(order_r), dtype=object)
for i, m in enumerate(order_r):
    mesh_r[i] = m
for in_out in ("auto", "inside", "outside"):
    for field in "BHJM":
        attempt(f"ragged-{in_out}-{field}", lambda: BHJM_magnet_trimesh(field, obs, mesh_r, pol, in_out=in_out))

# single element, integer polarization, default in_out
pol_int = np.array([(1, -2, 3)] * n)
for field in "BHJM":
    attempt(f"single-{field}", lambda: BHJM_magnet_trimesh(field, obs[:1], mesh_u[:1], pol[:1]))
    attempt(f"int-{field}", lambda: BHJM_magnet_trimesh(field, obs, mesh_u, pol_int))

# inputs unchanged / no aliasing
o2, m2, p2 = obs.copy(), mesh_u.copy(), pol.copy()
for field in "BHJM":
    res = BHJM_magnet_trimesh(field, o2, m2, p2)
    print(field, "alias", np.shares_memory(res, p2), np.shares_memory(res, o2))
print("inputs unchanged", np.array_equal(o2, obs), np.array_equal(m2, mesh_u), np.array_equal(p2, pol))

# object interface: two different meshes in one call (ragged), path, rotated
m1 = magpy.magnet.TriangularMesh.from_ConvexHull(
    points=[(0, 0, 0), (1, 0, 0), (0, 1, 0), (0, 0, 1)], polarization=(0.1, 0.2, 0.3)
)
m2 = magpy.magnet.TriangularMesh.from_ConvexHull(
    points=[(x, y, z) for x in (-1, 1) for y in (-1, 1) for z in (-1, 1)],
    polarization=(-0.3, 0.2, 0.5),
)
m1.rotate_from_angax([10, 20, 30], "z")
m2.move((0.1, 0.2, 0.3))
pts = rng.uniform(-1.2, 1.2, (15, 3))
for in_out in ("auto", "inside", "outside"):
    res = {f: magpy.getB([m1, m2], pts, in_out=in_out) if f == "B" else getattr(magpy, f"get{f}")([m1, m2], pts, in_out=in_out) for f in "BHJM"}
    for f in "BHJM":
        digest(f"obj-{in_out}-{f}", res[f])
    print("BHJ", np.allclose(res["B"], magpy.mu_0 * res["H"] + res["J"], rtol=1e-12, atol=1e-15))
    print("JM", np.allclose(res["J"], magpy.mu_0 * res["M"], rtol=1e-14, atol=0))

# error paths: the core function does not validate `field` itself
for bad in ("X", "BH", "", "JM", 5, None):
    try:
        BHJM_magnet_trimesh(bad, obs, mesh_u, pol)
        print("no error", repr(bad))
    except Exception as e:  # noqa: BLE001
        print(repr(bad), type(e).__name__, str(e).replace("\n", " | "))
attempt("shape-obs-B", lambda: BHJM_magnet_trimesh("B", obs[:3], mesh_u, pol))
attempt("shape-obs-J", lambda: BHJM_magnet_trimesh("J", obs[:3], mesh_u, pol))
attempt("shape-pol-J", lambda: BHJM_magnet_trimesh("J", obs, mesh_u, pol[:3]))
attempt("shape-mesh-J", lambda: BHJM_magnet_trimesh("J", obs, mesh_u[:3], pol))
attempt("shape-mesh-B", lambda: BHJM_magnet_trimesh("B", obs, mesh_u[:3], pol))
attempt("empty-J", lambda: BHJM_magnet_trimesh("J", obs[:0], mesh_u[:0], pol[:0]))
attempt("empty-B", lambda: BHJM_magnet_trimesh("B", obs[:0], mesh_u[:0], pol[:0]))
attempt("empty-ragged-B", lambda: BHJM_magnet_trimesh("B", obs[:0], mesh_r[:0], pol[:0]))
attempt("object-api-bad-field", lambda: magpy.getB(m1, pts, field="X") if False else m1.getB(pts, in_out="wrong"))

# --- additions for batch 2: the inside-outside test of the mesh, called directly
from magpylib._src.fields.field_BH_triangularmesh import mask_inside_trimesh

grid = np.array(
    [(x, y, z) for x in (-0.6, -0.5, 0, 0.5, 0.5 + 5e-13, 0.5 + 2e-12) for y in (0, 0.5, 0.7) for z in (-0.5, 0.1, 3)]
)
attempt("inside-cube-grid", lambda: mask_inside_trimesh(grid, C1))
attempt("inside-tetra-grid", lambda: mask_inside_trimesh(grid, T1))
attempt("inside-int-points", lambda: mask_inside_trimesh(np.array([(0, 0, 0), (1, 1, 1), (5, 0, 0)]), C1 * 4))
attempt("inside-int-faces", lambda: mask_inside_trimesh(grid, (T2 * 1).astype(int)))
attempt("inside-nan", lambda: mask_inside_trimesh(np.array([(np.nan, 0, 0), (0, 0, 0.1), (np.inf, 0, 0)]), C1))
attempt("inside-no-points", lambda: mask_inside_trimesh(np.zeros((0, 3)), C1))
attempt("inside-all-outside-box", lambda: mask_inside_trimesh(grid + 10, C1))
attempt("inside-no-faces", lambda: mask_inside_trimesh(grid, np.zeros((0, 3, 3))))
attempt("inside-points-1d", lambda: mask_inside_trimesh(np.array((0.0, 0, 0)), C1))
attempt("inside-points-4col", lambda: mask_inside_trimesh(np.zeros((3, 4)), C1))
attempt("inside-points-list", lambda: mask_inside_trimesh([(0, 0, 0)], C1))
attempt("inside-faces-list", lambda: mask_inside_trimesh(grid, C1.tolist()))
attempt("inside-faces-badshape", lambda: mask_inside_trimesh(grid, np.zeros((4, 3, 2))))
g2, c2 = grid.copy(), C1.copy()
res = mask_inside_trimesh(g2, c2)
print("inputs unchanged", np.array_equal(g2, grid), np.array_equal(c2, C1), res.dtype)

# mesh validity checks of the object interface use the same test (reorientation of faces)
pts_cloud = [(x, y, z) for x in (-1, 1) for y in (-1, 1) for z in (-1, 1)] + [(0, 0, 2)]
tm = magpy.magnet.TriangularMesh.from_ConvexHull(points=pts_cloud, polarization=(0.1, 0.2, 0.3))
flipped = tm.faces[:, ::-1]
tm2 = magpy.magnet.TriangularMesh(
    vertices=tm.vertices, faces=flipped, polarization=(0.1, 0.2, 0.3), reorient_faces=True
)
digest("reoriented-faces", tm2.faces)
digest("reoriented-J", tm2.getJ(grid))
digest("reoriented-B", tm2.getB(grid))


# --- additions for batch 4: the bounding-box quick check, called directly
from magpylib._src.fields.field_BH_triangularmesh import mask_inside_enclosing_box

V1 = C1.reshape(-1, 3)
e = 1e-12
edge_pts = np.array(
    [
        (0.5 + d, 0.0, 0.0) for d in (-2 * e, -e, -e / 2, 0, e / 2, e, np.nextafter(e, 0), np.nextafter(e, 1), 2 * e)
    ]
    + [(0.0, -0.5 - d, 0.0) for d in (-2 * e, -e, 0, e / 2, e, np.nextafter(e, 0), np.nextafter(e, 1), 2 * e)]
    + [(0.1, 0.2, 0.5 + d) for d in (-e, 0, e / 2, e, 2 * e)]
    + [(np.nan, 0, 0), (0, np.nan, 0), (0, 0, np.nan), (np.inf, 0, 0), (0, -np.inf, 0), (-0.0, 0.0, -0.0)]
)
attempt("box-edge", lambda: mask_inside_enclosing_box(edge_pts, V1))
attempt("box-grid", lambda: mask_inside_enclosing_box(grid, V1))
attempt("box-grid-tetra", lambda: mask_inside_enclosing_box(grid, T1.reshape(-1, 3)))
attempt("box-shifted", lambda: mask_inside_enclosing_box(grid, V1 + (0.3, -0.2, 1e-12)))
attempt("box-int-vertices", lambda: mask_inside_enclosing_box(grid * 2, (V1 * 2).astype(int)))
attempt("box-int-points", lambda: mask_inside_enclosing_box(np.array([(0, 0, 0), (1, 0, 0), (0, -1, 0), (2, 0, 0)]), (V1 * 2).astype(int)))
attempt("box-f32-vertices", lambda: mask_inside_enclosing_box(edge_pts, V1.astype(np.float32)))
attempt("box-f32-both", lambda: mask_inside_enclosing_box(edge_pts.astype(np.float32), V1.astype(np.float32)))
attempt("box-f16-vertices", lambda: mask_inside_enclosing_box(edge_pts, V1.astype(np.float16)))
attempt("box-one-vertex", lambda: mask_inside_enclosing_box(grid, np.array([(0.5, 0.0, 0.1)])))
attempt("box-no-points", lambda: mask_inside_enclosing_box(np.zeros((0, 3)), V1))
attempt("box-one-point", lambda: mask_inside_enclosing_box(np.array([(0.1, 0.1, 0.1)]), V1))
attempt("box-fortran", lambda: mask_inside_enclosing_box(np.asfortranarray(grid), np.asfortranarray(V1)))
attempt("box-point-1d", lambda: mask_inside_enclosing_box(np.array((0.1, 0.2, 0.3)), V1))
attempt("box-points-3d", lambda: mask_inside_enclosing_box(np.zeros((2, 5, 3)), V1))
attempt("box-vertices-3d", lambda: mask_inside_enclosing_box(grid[:3], C1[:, :, :]))
attempt("box-vertices-3d-mismatch", lambda: mask_inside_enclosing_box(grid, C1))
attempt("box-vertices-list", lambda: mask_inside_enclosing_box(grid, V1.tolist()))
attempt("box-bool", lambda: mask_inside_enclosing_box(np.ones((2, 3), dtype=bool), V1))
for label, (p_, v_) in {
    "no-vertices": (grid, np.zeros((0, 3))),
    "points-2col": (grid[:, :2], V1),
    "points-4col": (np.zeros((3, 4)), V1),
    "vertices-2col": (grid, V1[:, :2]),
    "vertices-4col": (grid, np.zeros((5, 4))),
    "vertices-1d": (grid, np.array((1.0, 2, 3))),
    "points-list": (grid.tolist(), V1),
    "points-none": (None, V1),
    "vertices-none": (grid, None),
    "points-str": (np.array([("a", "b", "c")]), V1),
    "points-complex": (grid * (1 + 0j), V1),
    "points-object-none": (np.array([(0.0, 0.0, None), (0.0, 0.0, 0.0)], dtype=object), V1),
}.items():
    attempt("box-bad-" + label, lambda: mask_inside_enclosing_box(p_, v_))
g3, v3 = edge_pts.copy(), V1.copy()
res = mask_inside_enclosing_box(g3, v3)
print("box inputs unchanged", np.array_equal(g3, edge_pts, equal_nan=True), np.array_equal(v3, V1), res.dtype, res.flags.owndata, res.flags.writeable)
