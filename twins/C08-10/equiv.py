import os, sys; sys.path.insert(0, os.getcwd())
# Twin2-5: check_format_pixel_agg (try/except/else) and check_format_input_observers
#          (merged guards, continue-style loop, all_same inlined)
import hashlib
import re
import warnings

import numpy as np

import magpylib as magpy
from magpylib._src.input_checks import check_format_input_observers
from magpylib._src.input_checks import check_format_pixel_agg

warnings.simplefilter("ignore")


def h(a):
    a = np.ascontiguousarray(a)
    return hashlib.sha1(a.tobytes()).hexdigest()[:12] + str(a.dtype) + str(a.shape)


def clean(msg):
    msg = re.sub(r"0x[0-9a-f]+", "0x?", re.sub(r"id=\d+", "id=?", str(msg)))
    msg = msg.replace("\n", " | ")
    return msg[:70] + " ... " + msg[-110:] if len(msg) > 190 else msg


def describe_exc(err):
    ctx = type(err.__context__).__name__ if err.__context__ is not None else None
    cause = type(err.__cause__).__name__ if err.__cause__ is not None else None
    return f"raised {type(err).__name__} (ctx {ctx}, cause {cause}): {clean(err)}"


class Weird:
    def __repr__(self):
        return "Weird()"


print("===== check_format_pixel_agg")
AGGS = [None, "mean", "max", "min", "std", "median", "sum", "prod", "ptp", "argmax", "all", "any",
        "nanmean", "count_nonzero", "size", "ndim", "linalg", "array", "cumsum", "sort", "abs", "pi",
        "dot", "nonsense", "", "Mean", "mean ", 3, 2.5, np.mean, ("mean",), ["mean"], b"mean", Weird(), True, 0]
test = np.arange(24.0).reshape(2, 4, 3)
for agg in AGGS:
    try:
        func = check_format_pixel_agg(agg)
        if func is None:
            out = "-> None"
        else:
            out = f"-> {getattr(func, '__name__', type(func).__name__)} same-as-np-attr={func is getattr(np, agg)} value={func(test)!r}"
    except BaseException as err:  # pylint: disable=broad-except
        out = describe_exc(err)
    print(clean(f"pixel_agg={agg!r}:"), out)

print("===== check_format_input_observers")
s_none = magpy.Sensor()
s_vec = magpy.Sensor(pixel=(1, 2, 3))
s_two = magpy.Sensor(pixel=[(1, 2, 3), (2, 3, 4)], position=(1, 1, 1))
s_grid = magpy.Sensor(pixel=np.arange(18).reshape(2, 3, 3) * 1.0)
cub = magpy.magnet.Cuboid(polarization=(1, 2, 3), dimension=(1, 2, 3))
col_s = magpy.Collection(s_two, s_none)
col_mixed = magpy.Collection(cub.copy(), s_vec)
col_nested = magpy.Collection(magpy.Collection(s_grid), cub.copy())
col_src = magpy.Collection(cub.copy())
col_empty = magpy.Collection()
KNOWN = {id(o): n for n, o in dict(s_none=s_none, s_vec=s_vec, s_two=s_two, s_grid=s_grid).items()}

user_arr = np.array([(1.0, 2, 3), (4, 5, 6)])
user_int = np.arange(12).reshape(2, 2, 3)
OBSERVERS = {
    "sensor": s_none,
    "sensor-vec": s_vec,
    "collection": col_s,
    "collection-mixed": col_mixed,
    "collection-nested": col_nested,
    "collection-sources-only": col_src,
    "collection-empty": col_empty,
    "source": cub,
    "None": None,
    "string": "abc",
    "int": 3,
    "dict": {"a": 1},
    "generator": (x for x in [(1, 2, 3)]),
    "empty-list": [],
    "empty-tuple": (),
    "empty-array": np.array([]),
    "empty-array-2d": np.zeros((0, 3)),
    "array-0d": np.array(1.0),
    "posvec-tuple": (1, 2, 3),
    "posvec-list2": [(1, 2, 3), (4, 5, 6)],
    "posvec-array": user_arr,
    "posvec-int-array": user_int,
    "posvec-bad-last-dim": [(1, 2), (3, 4)],
    "posvec-len4": (1, 2, 3, 4),
    "posvec-strings": ["a", "b", "c"],
    "posvec-numeric-strings": ["1", "2", "3"],
    "ragged": [(1, 2, 3), (1, 2)],
    "list-sensors-same": [s_two, s_two, magpy.Sensor(pixel=[(0, 0, 0), (1, 1, 1)])],
    "list-sensors-none-vec": [s_none, s_vec],
    "list-sensors-diff": [s_none, s_two],
    "list-sensors-diff-late": [s_two, s_two, s_grid],
    "list-diff-first": [s_grid, s_two, s_two],
    "list-aba": [s_two, s_grid, s_two],
    "list-sensor-posvec": [s_none, (1, 2, 3)],
    "list-sensor-posvec2": [s_two, [(1, 2, 3), (2, 3, 4)]],
    "list-sensor-posvec-diff": [s_two, (1, 2, 3)],
    "list-posvecs-diff": [(1, 2, 3), [(1, 2, 3), (2, 3, 4)]],
    "list-col-sensor": [col_s, s_two, col_nested],
    "tuple-col-posvec": (col_mixed, (0, 0, 0)),
    "list-with-empty-collection": [s_none, col_empty],
    "list-with-source-collection": [col_src, s_none],
    "list-with-source": [s_none, cub],
    "list-with-string": [s_none, "abc"],
    "list-with-None": [s_none, None],
    "list-with-bad-posvec": [s_none, (1, 2)],
    "list-with-bad-posvec-first": [(1, 2, 3, 4), s_none],
    "list-with-ragged": [s_none, [(1, 2, 3), (1, 2)]],
    "object-array": np.array([s_none, s_two], dtype=object),
    "list-single-sensor": [s_grid],
}


def describe(res):
    sensors, shapes = res
    names = []
    for sen in sensors:
        if id(sen) in KNOWN:
            names.append(KNOWN[id(sen)])
        else:
            names.append(f"new({type(sen).__name__},{None if sen.pixel is None else h(sen.pixel)})")
    return f"sensors={names} pix_shapes={shapes} ({type(shapes).__name__} of {sorted({type(x).__name__ for x in shapes})})"


for name, obs in OBSERVERS.items():
    for agg in (None, "mean"):
        if name == "generator":
            obs = (x for x in [(1, 2, 3)])
        try:
            out = describe(check_format_input_observers(obs, agg))
        except BaseException as err:  # pylint: disable=broad-except
            out = describe_exc(err)
        print(f"{name} agg={agg}:", out)
try:
    print("default pixel_agg:", describe(check_format_input_observers([s_none, s_two])))
except Exception as err:  # pylint: disable=broad-except
    print("default pixel_agg:", describe_exc(err))
print("user arrays unchanged:", h(user_arr), h(user_int), user_int.dtype)

print("===== through getB / getH")
for name, obs in OBSERVERS.items():
    for agg in (None, "max", "nonsense"):
        if name == "generator":
            obs = (x for x in [(1, 2, 3)])
        try:
            res = magpy.getB(cub, obs, pixel_agg=agg)
            out = "-> " + h(res)
        except BaseException as err:  # pylint: disable=broad-except
            out = describe_exc(err)
        print(f"getB {name} agg={agg}:", out)
print("sensor pixels unchanged:", [None if s.pixel is None else h(s.pixel) for s in (s_none, s_vec, s_two, s_grid)])
print("children unchanged:", [len(c.children) for c in (col_s, col_mixed, col_nested, col_src, col_empty)])
