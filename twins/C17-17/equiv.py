import os, sys; sys.path.insert(0, os.getcwd())
import re
import warnings
from fractions import Fraction

import numpy as np

import magpylib as magpy
from magpylib._src.input_checks import check_format_input_vector2

warnings.simplefilter("ignore")


def dig(r):
    if isinstance(r, np.ndarray):
        return f"ARR {r.dtype} {r.shape} sum={float(np.sum(r)) if r.size else 0.0!r} own={r.flags.owndata}"
    return f"RET {type(r).__name__} {r!r}"


def run(f):
    try:
        out = dig(f())
    except Exception as e:  # pylint: disable=broad-except
        out = f"EXC {type(e).__name__}: {e!s} | cause={type(e.__cause__).__name__}"
    return re.sub(r"0x[0-9a-f]+|id=\d+", "ADDR", out)


def emit(*args):
    print(re.sub(r"0x[0-9a-f]+|id=\d+", "ADDR", " ".join(str(a) for a in args)))


LOG = []


class Dim:
    """shape entry that logs how it is compared"""

    def __init__(self, val, answer=None):
        self.val, self.answer = val, answer

    def __ne__(self, other):
        LOG.append(("ne", self.val, other))
        if isinstance(self.answer, Exception):
            raise self.answer
        return (self.val != other) if self.answer is None else self.answer

    def __eq__(self, other):
        LOG.append(("eq", self.val, other))
        return self.val == other

    def __repr__(self):
        return f"Dim({self.val})"


class LoudFloat:
    def __float__(self):
        raise RuntimeError("no float for you")


class Named:
    def __format__(self, spec):
        LOG.append("format")
        return "NAMED"


inputs = [
    None, 0, 1.5, "abc", Fraction(1, 2), {1, 2}, range(3), (), [], [[]], [[[]]], (1, 2, 3), [(1, 2, 3)], [[(1, 2, 3)] * 3],
    [[(1, 2, 3)] * 3] * 2, np.ones((4, 3, 3)), np.ones((0, 3, 3)), np.ones((4, 3, 2)), np.ones((4, 2, 3)), np.ones((4, 2, 2)),
    np.ones((3, 3)), np.ones((2, 4, 3, 3)), np.ones((4, 3, 3), dtype=np.int8), np.ones((4, 3, 3), dtype=bool),
    np.ones((4, 3, 3), dtype=complex), np.ones((4, 3, 3), dtype=object), np.array(5.0), [[(1, 2, "a")] * 3], [[(1, 2, None)] * 3],
    [[(1, 2, LoudFloat())] * 3], [[(1, 2, 3)] * 3, [(1, 2, 3)] * 2], [[("1", "2", "3")] * 3], np.arange(54.0).reshape(2, 3, 3, 3)[:, :, :, 0],
    np.arange(27.0).reshape(3, 3, 3).T, [[(np.inf, 0, 0)] * 3],
]
shapes = [
    [None, 3, 3], (None, 3, 3), (4, 3, 3), (None, None, None), (None, 3), (3,), (), [], (None,), (None, 3, 3, 3), (1, 3, 3), (None, 2, 3),
    (None, 3, 2), (4, 2, 2), (4.0, 3.0, 3.0), (np.int64(4), 3, 3), ("4", 3, 3), (None, np.array([3, 3]), 3), 3, None, "abc", {None: 1, 3: 2, 4: 3},
    iter((None, 3, 3)), np.array((4, 3, 3)),
]

emit("== validator: inputs x shapes")
for v in inputs:
    for sh in shapes:
        sh_use = iter((None, 3, 3)) if not isinstance(sh, (list, tuple, int, str, dict, np.ndarray, type(None))) else sh
        r = run(lambda: check_format_input_vector2(v, sh_use, "mesh"))
        emit(type(v).__name__, repr(v)[:40].replace("\n", " "), "| shape", repr(sh)[:40], "|", r)

emit("== comparison protocol (order, short circuit, truth test)")
specs = [
    (Dim(4), Dim(3), Dim(3)), (Dim(5), Dim(3), Dim(3)), (Dim(4), Dim(2), Dim(3)), (None, Dim(3), Dim(9)), (Dim(4, answer=0), Dim(3, answer=""), Dim(3)),
    (Dim(4, answer=1), Dim(3), Dim(3)), (Dim(4), Dim(3, answer=KeyError("cmp")), Dim(3)), (Dim(4), None, Dim(3, answer=np.array([True, False]))),
    (Dim(4, answer=np.bool_(False)), Dim(3, answer=np.array([False])), None), (Dim(4), Dim(3)), (Dim(4), Dim(3), Dim(3), Dim(1)),
]
for spec in specs:
    LOG.clear()
    r = run(lambda: check_format_input_vector2(np.ones((4, 3, 3)), spec, "p"))
    emit(spec, "|", r, "| log", LOG)

emit("== returned object / param_name formatting")
src = np.arange(36.0).reshape(4, 3, 3)
out = check_format_input_vector2(src, (None, 3, 3), "mesh")
emit("copy", out is not src, np.shares_memory(out, src), out.dtype, out.flags.owndata, bool(np.all(out == src)))
lst = [[(1, 2, 3)] * 3] * 2
out = check_format_input_vector2(lst, [None, 3, 3], "mesh")
emit("list", dig(out), out.tolist() == [[list(r) for r in t] for t in lst])
for v, sh in ((np.ones((4, 3, 3)), (None, 3, 3)), (np.ones((4, 3, 2)), (None, 3, 3)), (np.ones((3, 3)), (None, 3, 3)), ("x", (None,)), ([LoudFloat()], (None,))):
    LOG.clear()
    emit(run(lambda: check_format_input_vector2(v, sh, Named())), "| log", LOG)
emit(run(lambda: check_format_input_vector2(np.ones((4, 3, 3)), shape=(None, 3, 3), param_name="kw")))
emit(run(lambda: check_format_input_vector2(inp=np.ones((4, 3)), shape=(None, 3, 3), param_name="kw")))

emit("== TriangularMesh.from_mesh")
tetra = [[(0, 0, 0), (1, 0, 0), (0, 1, 0)], [(0, 0, 0), (0, 1, 0), (0, 0, 1)], [(0, 0, 0), (0, 0, 1), (1, 0, 0)], [(1, 0, 0), (0, 0, 1), (0, 1, 0)]]
meshes = [tetra, np.array(tetra), np.array(tetra, dtype=np.float32), tuple(map(tuple, tetra)), tetra[:3], np.array(tetra)[:, :, :2], np.array(tetra)[:, :2],
          np.array(tetra).reshape(-1, 3), [tetra], None, "abc", 5, [], np.zeros((0, 3, 3)), np.array(tetra, dtype=object), [[(0, 0, "a")] * 3] * 4]
for m in meshes:
    def build():
        return magpy.magnet.TriangularMesh.from_mesh(polarization=(0, 0, 1), mesh=m, check_open="ignore", check_disconnected="ignore",
                                                          check_selfintersecting="ignore")
    emit(type(m).__name__, repr(m)[:40].replace("\n", " "), "|", run(lambda: build().vertices), "|", run(lambda: build().faces), "|",
         run(lambda: np.round(build().getB((0.3, 0.4, 0.5)), 12).tolist()))
arr = np.array(tetra, dtype=float)
tm = magpy.magnet.TriangularMesh.from_mesh(polarization=(0, 0, 1), mesh=arr)
arr[0, 0, 0] = 55.0
emit("independent", tm.vertices.tolist(), tm.mesh.tolist() == np.array(tetra, dtype=float).tolist(), np.shares_memory(tm.vertices, arr))
