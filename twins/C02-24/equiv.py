import os, sys; sys.path.insert(0, os.getcwd())
import hashlib
import warnings

import numpy as np

import magpylib as magpy
from magpylib._src.fields.field_BH_sphere import BHJM_magnet_sphere

warnings.simplefilter("ignore")


def digest(name, arr):
    arr = np.asarray(arr)
    h = hashlib.sha256(np.ascontiguousarray(arr).tobytes()).hexdigest()[:16]
    print(name, arr.shape, arr.dtype, h)
    with np.printoptions(precision=10, linewidth=200):
        print(np.round(arr, 12))


rng = np.random.default_rng(1)
obs = rng.uniform(-2, 2, (12, 3))
# add special observers: centre, exactly on the surface, NaN, inf-ish
obs[0] = (0, 0, 0)
obs[1] = (0.5, 0, 0)
obs[2] = (0, 0, -0.5)
obs[3] = (np.nan, 0, 0)
obs[4] = (1e200, 0, 0)
dia = np.array([1.0, 1, 1, 1, 1, 2, -2, 3, 0.5, 0, 1, 4])
pol = rng.uniform(-1, 1, (12, 3))
pol[5] = 0
pol_int = np.array([(1, 2, 3)] * 12)  # integer dtype input

for field in "BHJM":
    digest(f"core-{field}", BHJM_magnet_sphere(field, obs, dia, pol))
    digest(f"core-int-{field}", BHJM_magnet_sphere(field, obs, dia, pol_int))

# inputs must not be modified / outputs must not alias inputs
o2, d2, p2 = obs.copy(), dia.copy(), pol.copy()
for field in "BHJM":
    res = BHJM_magnet_sphere(field, o2, d2, p2)
    print(field, "alias", np.shares_memory(res, p2), np.shares_memory(res, o2))
print("inputs unchanged", np.array_equal(o2, obs, equal_nan=True), np.array_equal(d2, dia), np.array_equal(p2, pol))

# B = mu0*H + J through the object interface
sph = magpy.magnet.Sphere(diameter=1.3, polarization=(0.1, -0.2, 0.3))
sph.rotate_from_angax(33, (1, 2, 3)).move((0.1, 0.2, -0.1))
pts = rng.uniform(-1, 1, (20, 3))
B, H, J, M = (getattr(sph, f"get{f}")(pts) for f in "BHJM")
digest("obj-B", B)
digest("obj-H", H)
digest("obj-J", J)
digest("obj-M", M)
print("BHJ", np.allclose(B, magpy.mu_0 * H + J, rtol=1e-12, atol=1e-15))

# error paths
for bad in ("X", "BH", 5, None):
    try:
        BHJM_magnet_sphere(bad, obs, dia, pol)
        print("no error", bad)
    except Exception as e:  # noqa: BLE001
        print(repr(bad), type(e).__name__, str(e).replace("\n", " | "))
try:
    BHJM_magnet_sphere("B", obs, dia[:3], pol)
except Exception as e:  # noqa: BLE001
    print("shape", type(e).__name__)

# ===== cuboid (batch-1 script) =====
import hashlib
import warnings

import numpy as np

import magpylib as magpy
from magpylib._src.fields.field_BH_cuboid import BHJM_magnet_cuboid

warnings.simplefilter("ignore")


def digest(name, arr):
    arr = np.asarray(arr)
    h = hashlib.sha256(np.ascontiguousarray(arr).tobytes()).hexdigest()[:16]
    print(name, arr.shape, arr.dtype, h)
    with np.printoptions(precision=10, linewidth=200):
        print(np.round(arr, 12))


rng = np.random.default_rng(2)
n = 24
obs = rng.uniform(-1.5, 1.5, (n, 3))
dim = np.tile((2.0, 1.0, 3.0), (n, 1))
pol = rng.uniform(-1, 1, (n, 3))
# special observers (half sizes are 1, .5, 1.5)
obs[0] = (0, 0, 0)  # centre
obs[1] = (1, 0.1, 0.2)  # on x-face
obs[2] = (0.3, -0.5, 0.2)  # on y-face
obs[3] = (0.3, 0.1, 1.5)  # on z-face
obs[4] = (1, 0.5, 0.3)  # on z-edge
obs[5] = (1, 0.2, -1.5)  # on y-edge
obs[6] = (0.2, 0.5, 1.5)  # on x-edge
obs[7] = (1, 0.5, 1.5)  # corner
obs[8] = (1, 0.5, 2.5)  # on edge line extension, outside
obs[9] = (1 + 1e-16, 0.5 - 1e-17, 0.1)  # numerically on edge
obs[10] = (np.nan, 0, 0)
obs[11] = (np.inf, 0, 0)
obs[12] = (3, 3, 3)
pol[13] = 0  # zero polarization
dim[14] = (2, 0, 3)  # zero dimension
dim[15] = (-2, 1, -3)  # negative dimension
obs[15] = (0.1, 0.1, 0.1)
dim[16] = (1e-20, 1e-20, 1e-20)
obs[16] = (1e-21, 0, 0)

for field in "BHJM":
    digest(f"core-{field}", BHJM_magnet_cuboid(field, obs, dim, pol))

pol_int = np.array([(1, -2, 3)] * n)
dim_int = np.array([(2, 1, 3)] * n)
for field in "BHJM":
    digest(f"core-int-{field}", BHJM_magnet_cuboid(field, obs, dim_int, pol_int))

# aliasing / input preservation
o2, d2, p2 = obs.copy(), dim.copy(), pol.copy()
for field in "BHJM":
    res = BHJM_magnet_cuboid(field, o2, d2, p2)
    print(field, "alias", np.shares_memory(res, p2), np.shares_memory(res, o2))
print(
    "inputs unchanged",
    np.array_equal(o2, obs, equal_nan=True),
    np.array_equal(d2, dim),
    np.array_equal(p2, pol),
)

# object interface: B = mu0 H + J incl. surfaces/edges, rotated
cube = magpy.magnet.Cuboid(dimension=(2, 1, 3), polarization=(0.3, -0.2, 0.7))
pts = np.array(obs[:13])
pts = pts[np.isfinite(pts).all(axis=1)]
B, H, J, M = (getattr(cube, f"get{f}")(pts) for f in "BHJM")
for nme, arr in zip("BHJM", (B, H, J, M)):
    digest(f"obj-{nme}", arr)
print("BHJ", np.allclose(B, magpy.mu_0 * H + J, rtol=1e-12, atol=1e-15))
print("JM", np.allclose(J, magpy.mu_0 * M, rtol=1e-14, atol=0))
cube.rotate_from_angax(41, (1, -1, 0.5)).move((0.2, 0.1, 0))
B, H, J, M = (getattr(cube, f"get{f}")(pts) for f in "BHJM")
for nme, arr in zip("BHJM", (B, H, J, M)):
    digest(f"objrot-{nme}", arr)
print("BHJ", np.allclose(B, magpy.mu_0 * H + J, rtol=1e-12, atol=1e-15))

# error paths
for bad in ("X", "BH", 5, None):
    try:
        BHJM_magnet_cuboid(bad, obs, dim, pol)
        print("no error", bad)
    except Exception as e:  # noqa: BLE001
        print(repr(bad), type(e).__name__, str(e).replace("\n", " | "))
for args in ((obs, dim[:3], pol), (obs[:5], dim, pol), (obs, dim, pol[:2]), (obs[:, :2], dim, pol)):
    for field in "BJ":
        try:
            BHJM_magnet_cuboid(field, *args)
            print("no error")
        except Exception as e:  # noqa: BLE001
            print("shape", field, type(e).__name__, str(e)[:80])

# ===== tetrahedron (batch-2 script) =====
import hashlib
import warnings

import numpy as np

import magpylib as magpy
from magpylib._src.fields.field_BH_tetrahedron import BHJM_magnet_tetrahedron

warnings.simplefilter("ignore")


def digest(name, arr):
    arr = np.asarray(arr)
    h = hashlib.sha256(np.ascontiguousarray(arr).tobytes()).hexdigest()[:16]
    print(name, arr.shape, arr.dtype, h)
    with np.printoptions(precision=10, linewidth=200):
        print(np.round(arr, 12))


rng = np.random.default_rng(3)
n = 16
base = np.array([(0, 0, 0), (1, 0, 0), (0, 1, 0), (0, 0, 1)], dtype=float)
verts = np.tile(base, (n, 1, 1))
# half of them left-handed (p2 <-> p3 swapped) so that check_chirality acts
verts[::2] = verts[::2][:, (0, 1, 3, 2)]
verts[10:] += rng.uniform(-0.2, 0.2, (n - 10, 4, 3))
obs = rng.uniform(-0.3, 1.0, (n, 3))
obs[0] = (0.1, 0.1, 0.1)  # inside
obs[1] = (0.2, 0.2, 0.2)  # inside
obs[2] = (0.25, 0.25, 0.0)  # on a face
obs[3] = (0.5, 0.0, 0.0)  # on an edge
obs[4] = (0.0, 0.0, 0.0)  # on a vertex
obs[5] = (2, 2, 2)  # outside
obs[6] = (1 / 3, 1 / 3, 1 / 3)  # on the slanted face
pol = rng.uniform(-1, 1, (n, 3))
pol[7] = 0

for in_out in ("auto", "inside", "outside"):
    for field in "BHJM":
        v = verts.copy()
        res = BHJM_magnet_tetrahedron(field, obs, v, pol, in_out=in_out)
        digest(f"core-{in_out}-{field}", res)
        # in-place effect on the vertices input (chirality fix) must be the same
        digest(f"verts-after-{in_out}-{field}", v)
        print("alias", np.shares_memory(res, pol), np.shares_memory(res, obs))

# default in_out and integer inputs
v = verts.copy()
digest("default-B", BHJM_magnet_tetrahedron("B", obs, v, pol))
pol_int = np.array([(1, -2, 3)] * n)
for field in "BHJM":
    digest(f"int-{field}", BHJM_magnet_tetrahedron(field, obs, verts.copy(), pol_int))

# unknown in_out value behaves like 'auto' in the core function
digest("weird-in_out-J", BHJM_magnet_tetrahedron("J", obs, verts.copy(), pol, in_out="bla"))

# object interface
tet = magpy.magnet.Tetrahedron(
    vertices=[(0, 0, 0), (1, 0, 0), (0, 0, 1), (0, 1, 0)], polarization=(0.2, -0.4, 0.9)
)
tet.rotate_from_angax(27, (1, 2, -1)).move((0.1, -0.1, 0.05))
pts = rng.uniform(-0.2, 0.8, (25, 3))
for in_out in ("auto",):
    B, H, J, M = (getattr(tet, f"get{f}")(pts, in_out=in_out) for f in "BHJM")
    for nme, arr in zip("BHJM", (B, H, J, M)):
        digest(f"obj-{nme}", arr)
    print("BHJ", np.allclose(B, magpy.mu_0 * H + J, rtol=1e-12, atol=1e-15))
    print("JM", np.allclose(J, magpy.mu_0 * M, rtol=1e-14, atol=0))
digest("obj-vertices", tet.vertices)

# error paths
for bad in ("X", "BH", 5, None):
    try:
        BHJM_magnet_tetrahedron(bad, obs, verts.copy(), pol)
        print("no error", bad)
    except Exception as e:  # noqa: BLE001
        print(repr(bad), type(e).__name__, str(e).replace("\n", " | "))
for args in ((obs, verts[:3].copy(), pol), (obs[:5], verts.copy(), pol), (obs, verts.copy(), pol[:2])):
    for field in "BHJ":
        try:
            BHJM_magnet_tetrahedron(field, *args)
            print("no error")
        except Exception as e:  # noqa: BLE001
            print("shape", field, type(e).__name__, str(e)[:90])
# degenerate (flat) tetrahedron -> singular matrix in point_inside
flat = np.tile(np.array([(0, 0, 0), (1, 0, 0), (0, 1, 0), (1, 1, 0)], dtype=float), (2, 1, 1))
for field in "BHJM":
    try:
        res = BHJM_magnet_tetrahedron(field, obs[:2], flat.copy(), pol[:2])
        digest(f"flat-{field}", res)
    except Exception as e:  # noqa: BLE001
        print("flat", field, type(e).__name__, str(e)[:90])

# --- additions for batch 2: check_chirality directly, tiny and empty inputs
from magpylib._src.fields.field_BH_tetrahedron import check_chirality


def attempt(name, fn):
    try:
        digest(name, fn())
    except Exception as e:  # noqa: BLE001
        print(name, type(e).__name__, str(e).replace("\n", " | ")[:160])


v = verts.copy()
out = check_chirality(v)
digest("chir-out", out)
print("chir same object", out is v)
vi = np.array([[(0, 0, 0), (2, 0, 0), (0, 0, 2), (0, 2, 0)], [(0, 0, 0), (2, 0, 0), (0, 2, 0), (0, 0, 2)]])
digest("chir-int", check_chirality(vi))
digest("chir-int-inplace", vi)
attempt("chir-empty", lambda: check_chirality(np.zeros((0, 4, 3))))
attempt("chir-3pts", lambda: check_chirality(np.zeros((2, 3, 3))))
attempt("chir-2d", lambda: check_chirality(np.zeros((2, 4, 2))))
attempt("chir-list", lambda: check_chirality(verts.tolist()))
attempt("chir-nan", lambda: check_chirality(np.full((2, 4, 3), np.nan)))
for field in "BHJM":
    attempt(f"one-{field}", lambda: BHJM_magnet_tetrahedron(field, obs[:1], verts[:1].copy(), pol[:1]))
    attempt(f"empty-{field}", lambda: BHJM_magnet_tetrahedron(field, obs[:0], verts[:0].copy(), pol[:0]))
    attempt(f"n1-m5-{field}", lambda: BHJM_magnet_tetrahedron(field, obs[:1], verts[:5].copy(), pol[:5]))
    attempt(f"n0-m1-{field}", lambda: BHJM_magnet_tetrahedron(field, obs[:0], verts[:1].copy(), pol[:1]))
    attempt(f"n4-m1-{field}", lambda: BHJM_magnet_tetrahedron(field, obs[:4], verts[:1].copy(), pol[:1]))

# ===== batch 5 additions: the +-J translation step of sphere (H), cuboid (H), tetrahedron (B)
import hashlib
import warnings

import numpy as np

import magpylib as magpy
from magpylib._src.fields.field_BH_cuboid import BHJM_magnet_cuboid
from magpylib._src.fields.field_BH_sphere import BHJM_magnet_sphere
from magpylib._src.fields.field_BH_tetrahedron import BHJM_magnet_tetrahedron

warnings.simplefilter("ignore")


def digest5(name, arr):
    arr = np.asarray(arr)
    h = hashlib.sha256(np.ascontiguousarray(arr).tobytes()).hexdigest()[:16]
    print(name, arr.shape, arr.dtype, h)
    with np.printoptions(precision=10, linewidth=200):
        print(np.round(arr, 12))


def attempt5(label, fn):
    try:
        digest5(label, fn())
    except Exception as e:  # noqa: BLE001
        print(label, "EXC", type(e).__name__, str(e)[:160].replace("\n", " | "))


rng5 = np.random.default_rng(55)
n5 = 40
O5 = rng5.uniform(-1.2, 1.2, (n5, 3))
O5[0] = 0
O5[1] = (1, 0, 0)  # on the sphere / cuboid face
O5[2] = (np.nan, 0, 0)
O5[3] = (0.5, 0.5, 0.5)
pol_kinds = {
    "float": rng5.uniform(-1, 1, (n5, 3)),
    "int": rng5.integers(-3, 4, (n5, 3)),
    "nan": np.where(rng5.uniform(size=(n5, 3)) < 0.2, np.nan, 0.5),
    "inf": np.where(rng5.uniform(size=(n5, 3)) < 0.2, np.inf, -0.5),
    "zero": np.zeros((n5, 3)),
    "negzero": -np.zeros((n5, 3)),
    "f32": rng5.uniform(-1, 1, (n5, 3)).astype(np.float32),
    "fortran": np.asfortranarray(rng5.uniform(-1, 1, (n5, 3))),
    "strided": rng5.uniform(-1, 1, (n5, 6))[:, ::2],
}
tet = np.array([(-1, -1, -1), (1.5, -1, -1), (-1, 1.5, -1), (-1, -1, 1.5)], float)
tet_lh = tet[[0, 2, 1, 3]]
for kname, P5 in pol_kinds.items():
    keep = P5.copy()
    for fld in "BHJM":
        attempt5(f"sphere-{kname}-{fld}", lambda: BHJM_magnet_sphere(fld, O5, np.full(n5, 2.0), P5))
        attempt5(f"cuboid-{kname}-{fld}", lambda: BHJM_magnet_cuboid(fld, O5, np.tile((2.0, 2.0, 2.0), (n5, 1)), P5))
        for io in ("auto", "inside", "outside"):
            attempt5(f"tetra-{kname}-{fld}-{io}", lambda: BHJM_magnet_tetrahedron(fld, O5, np.tile(tet, (n5, 1, 1)), P5, in_out=io))
        attempt5(f"tetra-lh-{kname}-{fld}", lambda: BHJM_magnet_tetrahedron(fld, O5, np.tile(tet_lh, (n5, 1, 1)), P5))
    print("pol untouched", kname, np.array_equal(keep, P5, equal_nan=True), P5.dtype)

# all inside / all outside / empty / single / 1-D (no batch axis)
Pf = pol_kinds["float"]
for fld in "BH":
    attempt5(f"sphere-allin-{fld}", lambda: BHJM_magnet_sphere(fld, O5 * 0.1, np.full(n5, 5.0), Pf))
    attempt5(f"sphere-allout-{fld}", lambda: BHJM_magnet_sphere(fld, O5 + 9, np.full(n5, 1.0), Pf))
    attempt5(f"cuboid-allin-{fld}", lambda: BHJM_magnet_cuboid(fld, O5 * 0.1, np.tile((5.0, 5, 5), (n5, 1)), Pf))
    attempt5(f"cuboid-allout-{fld}", lambda: BHJM_magnet_cuboid(fld, O5 + 9, np.tile((1.0, 1, 1), (n5, 1)), Pf))
    attempt5(f"tetra-allin-{fld}", lambda: BHJM_magnet_tetrahedron(fld, O5 * 0.01 - 0.5, np.tile(tet, (n5, 1, 1)), Pf))
    attempt5(f"tetra-allout-{fld}", lambda: BHJM_magnet_tetrahedron(fld, O5 + 9, np.tile(tet, (n5, 1, 1)), Pf))
    attempt5(f"sphere-empty-{fld}", lambda: BHJM_magnet_sphere(fld, np.zeros((0, 3)), np.zeros(0), np.zeros((0, 3))))
    attempt5(f"cuboid-empty-{fld}", lambda: BHJM_magnet_cuboid(fld, np.zeros((0, 3)), np.zeros((0, 3)), np.zeros((0, 3))))
    attempt5(f"tetra-empty-{fld}", lambda: BHJM_magnet_tetrahedron(fld, np.zeros((0, 3)), np.zeros((0, 4, 3)), np.zeros((0, 3))))
    attempt5(f"sphere-1d-{fld}", lambda: BHJM_magnet_sphere(fld, np.array((0.1, 0.2, 0.3)), np.array(2.0), np.array((0.1, 0.2, 0.3))))
    attempt5(f"sphere-1d-out-{fld}", lambda: BHJM_magnet_sphere(fld, np.array((2.1, 0.2, 0.3)), np.array(2.0), np.array((0.1, 0.2, 0.3))))
    attempt5(f"cuboid-1d-{fld}", lambda: BHJM_magnet_cuboid(fld, np.array((0.1, 0.2, 0.3)), np.array((2.0, 2, 2)), np.array((0.1, 0.2, 0.3))))
    attempt5(f"tetra-1d-{fld}", lambda: BHJM_magnet_tetrahedron(fld, np.array((0.1, 0.2, 0.3)), tet, np.array((0.1, 0.2, 0.3))))
    # malformed polarization reaching (or not) the translation step
    attempt5(f"sphere-pol-short-{fld}", lambda: BHJM_magnet_sphere(fld, O5, np.full(n5, 2.0), Pf[:7]))
    attempt5(f"sphere-pol-1row-{fld}", lambda: BHJM_magnet_sphere(fld, O5, np.full(n5, 2.0), Pf[:1]))
    attempt5(f"cuboid-pol-short-{fld}", lambda: BHJM_magnet_cuboid(fld, O5, np.tile((2.0, 2, 2), (n5, 1)), Pf[:7]))
    attempt5(f"tetra-pol-short-{fld}", lambda: BHJM_magnet_tetrahedron(fld, O5, np.tile(tet, (n5, 1, 1)), Pf[:7]))
    attempt5(f"tetra-pol-1row-{fld}", lambda: BHJM_magnet_tetrahedron(fld, O5, np.tile(tet, (n5, 1, 1)), Pf[:1]))
    attempt5(f"sphere-pol-list-{fld}", lambda: BHJM_magnet_sphere(fld, O5, np.full(n5, 2.0), Pf.tolist()))
    attempt5(f"tetra-pol-list-{fld}", lambda: BHJM_magnet_tetrahedron(fld, O5, np.tile(tet, (n5, 1, 1)), Pf.tolist()))
    attempt5(f"sphere-pol-cplx-{fld}", lambda: BHJM_magnet_sphere(fld, O5, np.full(n5, 2.0), Pf * 1j))
    attempt5(f"cuboid-pol-cplx-{fld}", lambda: BHJM_magnet_cuboid(fld, O5, np.tile((2.0, 2, 2), (n5, 1)), Pf * 1j))
    attempt5(f"tetra-pol-cplx-{fld}", lambda: BHJM_magnet_tetrahedron(fld, O5, np.tile(tet, (n5, 1, 1)), Pf * 1j))

# objects: B = mu0*H + J and J = mu0*M, with path and rotated sensor
srcs = [
    magpy.magnet.Sphere(diameter=2, polarization=(0.1, 0.2, 0.3)),
    magpy.magnet.Cuboid(dimension=(2, 2, 2), magnetization=(1e5, -2e5, 3e5)),
    magpy.magnet.Tetrahedron(vertices=tet, polarization=(0.3, 0.2, -0.1)),
]
sens = magpy.Sensor(pixel=O5[3:12], position=(0.05, 0, 0)).rotate_from_angax(25, "z")
for s_ in srcs:
    s_.move([(0, 0, 0), (0.1, 0.1, 0)]).rotate_from_angax([0, 0, 40], (1, 1, 0), start=0)
    res = {f: getattr(magpy, "get" + f)(s_, sens) for f in "BHJM"}
    for f, v in res.items():
        digest5(f"obj-{type(s_).__name__}-{f}", v)
    print("BHJ", np.allclose(res["B"], magpy.mu_0 * res["H"] + res["J"], rtol=1e-10, atol=1e-14), "JM", np.allclose(res["J"], magpy.mu_0 * res["M"]))
