import os, sys; sys.path.insert(0, os.getcwd())
# Twin3-4: BaseSource.getB/H/M/J -> one parametrised helper, CustomSource.__init__ keyword call,
#          Collection._validate_getBH_inputs early returns
import hashlib
import inspect
import re
import warnings

import numpy as np

import magpylib as magpy

warnings.simplefilter("ignore")


def h(a):
    a = np.ascontiguousarray(a)
    return hashlib.sha1(a.tobytes()).hexdigest()[:12] + str(a.shape)


def clean(msg):
    msg = re.sub(r"0x[0-9a-f]+", "0x?", re.sub(r"id=\d+", "id=?", str(msg)))
    return msg.replace("\n", " | ")[:140]


def snap(objs):
    return [
        (
            h(o._position),
            h(o._orientation.as_quat()),
            None if getattr(o, "_pixel", None) is None else h(o._pixel),
            None if getattr(o, "_vertices", None) is None else h(o._vertices),
            None if o._parent is None else id(o._parent),
            [id(c) for c in getattr(o, "_children", [])],
            getattr(o, "_field_func", None) is None,
        )
        for o in objs
    ]


def digest(res):
    if isinstance(res, np.ndarray):
        return f"{h(res)} {np.round(np.ravel(res)[:3], 10).tolist()}"
    return f"{type(res).__name__}{res.shape} {h(res.to_numpy()[:, 4:].astype(float))}"


def run(tag, fn, objs, ref=None):
    before = snap(objs)
    orients = [o._orientation for o in objs]
    for rep in range(2):
        try:
            res = fn()
            extra = ""
            if ref is not None:
                extra = f" equals-top-level={np.array_equal(res, ref(), equal_nan=True)}"
            print(f"{tag}[{rep}] -> {digest(res)}{extra}")
        except Exception as err:  # pylint: disable=broad-except
            cause = type(err.__cause__).__name__ if err.__cause__ is not None else None
            ctx = type(err.__context__).__name__ if err.__context__ is not None else None
            print(f"{tag}[{rep}] raised {type(err).__name__} cause={cause} ctx={ctx} :: {clean(err)}")
        print(
            "   state-same=%s orient-identity=%s"
            % (before == snap(objs), all(o._orientation is r for o, r in zip(objs, orients)))
        )


print("== signatures")
for cls in (magpy.magnet.Cuboid, magpy.misc.CustomSource, magpy.current.Circle, magpy.Collection):
    for name in ("getB", "getH", "getM", "getJ"):
        meth = getattr(cls, name)
        print(cls.__name__, name, inspect.signature(meth), "doc-hash", hashlib.sha1(meth.__doc__.encode()).hexdigest()[:10])
print("CustomSource.__init__", inspect.signature(magpy.misc.CustomSource.__init__))


def fBH(field, observers):
    if field in "BH":
        return observers * (2.0 if field == "B" else 3.0)
    return None


def make():
    cub = magpy.magnet.Cuboid(polarization=(0.1, 0.2, 0.3), dimension=(1, 2, 3))
    cub.rotate_from_angax([10, 20, 30], (1, 2, 3))
    tet = magpy.magnet.Tetrahedron(
        polarization=(0.1, 0.2, 0.3), vertices=[(0, 0, 0), (1, 0, 0), (0, 0, 1), (0, 1, 0)], position=(0.1, 0, 0)
    )
    loop = magpy.current.Circle(current=3, diameter=2, position=(0, 0, -2))
    dip = magpy.misc.Dipole(moment=(1, 2, 3), position=(3, 3, 3))
    cust = magpy.misc.CustomSource(field_func=fBH, position=(1, 0, 0))
    s1 = magpy.Sensor(pixel=[(0, 0, 0), (0.1, 0.2, 0.3)], position=(0.2, 0.2, 0.2))
    s1.move([(0.1, 0, 0)] * 3)
    s2 = magpy.Sensor(pixel=[(0.1, 0, 0), (0.1, 0.2, 0.9)], position=(-2, 1, 3), handedness="left")
    s3 = magpy.Sensor(position=(0.3, 0.3, 0.3))
    return cub, tet, loop, dip, cust, s1, s2, s3


print("== BaseSource methods")
objs = make()
cub, tet, loop, dip, cust, s1, s2, s3 = objs
star_inputs = {
    "pos_vec": ((0.1, 0.2, 0.3),),
    "pos_vec array": (np.array([(0.1, 0.2, 0.3), (1, 2, 3)]),),
    "one sensor": (s1,),
    "two sensors": (s1, s2),
    "list of sensors": ([s1, s2],),
    "sensor + pos_vecs": (s1, [(1, 2, 3), (2, 3, 4)]),
    "none": (),
    "bad": ("x",),
    "two bad": (1, 2),
    "mixed pixel shapes": (s1, s3),
}
for src, sname in ((cub, "cub"), (tet, "tet"), (loop, "loop"), (dip, "dip"), (cust, "cust")):
    for field in "BHJM":
        meth = getattr(src, "get" + field)
        top = getattr(magpy, "get" + field)
        for iname, inp in star_inputs.items():
            obs = inp[0] if len(inp) == 1 else list(inp)
            run(f"{sname}.get{field}({iname})", lambda: meth(*inp), objs,
                ref=(lambda: top(src, obs)) if iname not in ("none", "bad", "two bad", "mixed pixel shapes") else None)
for field in "BHJM":
    meth = getattr(tet, "get" + field)
    top = getattr(magpy, "get" + field)
    for kw in (
        {"squeeze": False},
        {"pixel_agg": "mean"},
        {"pixel_agg": "max", "squeeze": False},
        {"output": "dataframe"},
        {"in_out": "inside"},
        {"in_out": "outside", "squeeze": False, "pixel_agg": "min"},
        {"pixel_agg": "nope"},
        {"output": "nope"},
        {"in_out": "nope"},
    ):
        run(f"tet.get{field}(s1, s3, {kw})", lambda: meth(s1, s3, **kw), objs)
    try:
        meth(s1, sumup=True)
    except TypeError as err:
        print(f"tet.get{field}(sumup=True) TypeError", clean(err))
    try:
        meth(s1, field="H")
    except TypeError as err:
        print(f"tet.get{field}(field='H') TypeError", clean(err))
    try:
        meth(observers=s1)
    except TypeError as err:
        print(f"tet.get{field}(observers=...) TypeError", clean(err))
nodim = magpy.magnet.Cuboid(polarization=(1, 2, 3))
noexc = magpy.current.Circle(diameter=1)
for field in "BHJM":
    run(f"nodim.get{field}", lambda: getattr(nodim, "get" + field)(s1), objs + (nodim,))
    run(f"noexc.get{field}", lambda: getattr(noexc, "get" + field)(s1), objs + (noexc,))

print("== CustomSource construction")
par = magpy.Collection()


def describe(c):
    return (
        h(c._position), h(c._orientation.as_quat()), c._field_func is fBH, c.field_func is fBH,
        repr(c.style.label), repr(c.style.color), c.parent is par, c._editable_field_func,
    )


ctor = {
    "defaults": lambda: magpy.misc.CustomSource(),
    "keywords": lambda: magpy.misc.CustomSource(position=(1, 2, 3), field_func=fBH, style={"color": "red"}),
    "positional": lambda: magpy.misc.CustomSource([(1, 2, 3), (2, 3, 4)], None, fBH, {"label": "pos"}),
    "style kwargs": lambda: magpy.misc.CustomSource(field_func=fBH, style_label="kw", style_color="blue"),
    "style + style kwargs": lambda: magpy.misc.CustomSource(style={"label": "a"}, style_color="green"),
    "parent": lambda: magpy.misc.CustomSource(field_func=fBH, parent=par),
    "field_func None": lambda: magpy.misc.CustomSource(field_func=None),
    "bad kwarg": lambda: magpy.misc.CustomSource(foo=1),
    "bad style kwarg": lambda: magpy.misc.CustomSource(style_foo=1).style,
    "too many positional": lambda: magpy.misc.CustomSource((0, 0, 0), None, fBH, None, 5),
    "field_func twice": lambda: magpy.misc.CustomSource((0, 0, 0), None, fBH, field_func=fBH),
    "bad field_func": lambda: magpy.misc.CustomSource(field_func=3),
    "bad field_func args": lambda: magpy.misc.CustomSource(field_func=lambda a, b: b),
    "field_func wrong shape": lambda: magpy.misc.CustomSource(field_func=lambda field, observers: observers[:1]),
    "bad position": lambda: magpy.misc.CustomSource(position=(1, 2)),
    "bad orientation": lambda: magpy.misc.CustomSource(orientation=3),
    "bad style": lambda: magpy.misc.CustomSource(style=3),
    "bad parent": lambda: magpy.misc.CustomSource(parent=3),
}
for tag, fn in ctor.items():
    try:
        obj = fn()
        print(f"{tag}: {describe(obj) if isinstance(obj, magpy.misc.CustomSource) else type(obj).__name__}")
    except Exception as err:  # pylint: disable=broad-except
        cause = type(err.__cause__).__name__ if err.__cause__ is not None else None
        print(f"{tag}: raised {type(err).__name__} cause={cause} :: {clean(err)}")
print("children of par:", len(par.children))
c = magpy.misc.CustomSource(field_func=fBH, position=(1, 1, 1))
run("cust.getB", lambda: c.getB(s1), objs + (c,))
run("cust.getJ (None)", lambda: c.getJ(s1), objs + (c,))

print("== Collection._validate_getBH_inputs / Collection.getX")
objs = make()
cub, tet, loop, dip, cust, s1, s2, s3 = objs
s4 = magpy.Sensor(pixel=[(0, 0, 0), (0.3, 0.2, 0.1)], position=(1, 1, 1))
c_src = magpy.Collection(cub, loop)
c_sens = magpy.Collection(s2, s4)
c_mixed = magpy.Collection(dip, magpy.Collection(cust, s1))
c_empty = magpy.Collection()
allobjs = objs + (s4, c_src, c_sens, c_mixed, c_empty)
nm = {id(o): n for o, n in zip(allobjs, "cub tet loop dip cust s1 s2 s3 s4 c_src c_sens c_mixed c_empty".split())}


def show(v):
    if isinstance(v, tuple):
        return "(" + ", ".join(show(x) for x in v) + ")"
    if isinstance(v, list):
        return "[" + ", ".join(show(x) for x in v) + "]"
    return nm.get(id(v), clean(repr(v)))


for cname, coll in (("c_src", c_src), ("c_sens", c_sens), ("c_mixed", c_mixed), ("c_empty", c_empty)):
    for iname, inp in {
        "no input": (),
        "one sensor": (s2,),
        "two sensors": (s2, s4),
        "list": ([s2, s4],),
        "one source": (tet,),
        "two sources": (tet, dip),
        "pos_vec": ((1, 2, 3),),
        "None": (None,),
    }.items():
        try:
            res = coll._validate_getBH_inputs(*inp)
            print(f"{cname}._validate({iname}) -> {type(res).__name__} {show(res)}")
        except Exception as err:  # pylint: disable=broad-except
            print(f"{cname}._validate({iname}) raised {type(err).__name__} :: {clean(err)}")
        for field in "BH":
            run(f"{cname}.get{field}({iname})", lambda: getattr(coll, "get" + field)(*inp), allobjs)
for field in "JM":
    run(f"c_src.get{field}(s2, s4, squeeze=False)", lambda: getattr(c_src, "get" + field)(s2, s4, squeeze=False), allobjs)
    run(f"c_sens.get{field}(tet, pixel_agg)", lambda: getattr(c_sens, "get" + field)(tet, pixel_agg="mean"), allobjs)
    run(f"c_mixed.get{field}()", lambda: getattr(c_mixed, "get" + field)(output="dataframe"), allobjs)
