import os, sys; sys.path.insert(0, os.getcwd())
import hashlib
import re
import warnings

import numpy as np

import magpylib as magpy
from magpylib._src.obj_classes.class_BaseExcitations import BaseMagnet

np.set_printoptions(precision=17, linewidth=200)


def clean(text):
    text = re.sub(r"id=\d+", "id=N", str(text))
    text = re.sub(r"0x[0-9a-f]+", "0xN", text)
    return text.replace("\n", " | ")


def fmt(res):
    if isinstance(res, np.ndarray):
        h = hashlib.sha256(np.ascontiguousarray(res).tobytes()).hexdigest()[:16]
        return f"ndarray{res.shape}{res.dtype} own={res.flags['OWNDATA']} {h} {res.tolist()}"
    return f"{type(res).__name__}:{clean(repr(res))}"


def state(src):
    return (
        f"M={fmt(src.magnetization)} J={fmt(src.polarization)} "
        f"_M is M:{src._magnetization is src.magnetization} _J is J:{src._polarization is src.polarization} "
        f"shared:{src._magnetization is src._polarization and src._magnetization is not None}"
    )


def attempt(tag, func, mode="always"):
    with warnings.catch_warnings(record=True) as rec:
        warnings.simplefilter(mode)
        try:
            res = func()
            print(tag, "->", res if isinstance(res, str) else fmt(res))
        except Exception as err:  # pylint: disable=broad-except
            print(tag, "EXC", type(err).__name__, clean(err)[:400])
    for w in rec:
        print("   WARN", w.category.__name__, os.path.basename(w.filename), clean(w.message)[:200])


classes = {
    "Cuboid": lambda **kw: magpy.magnet.Cuboid(dimension=(1, 2, 3), **kw),
    "Cylinder": lambda **kw: magpy.magnet.Cylinder(dimension=(1, 2), **kw),
    "Sphere": lambda **kw: magpy.magnet.Sphere(diameter=1.5, **kw),
    "CylinderSegment": lambda **kw: magpy.magnet.CylinderSegment(dimension=(1, 2, 3, 0, 90), **kw),
    "Tetrahedron": lambda **kw: magpy.magnet.Tetrahedron(
        vertices=[(0, 0, 0), (1, 0, 0), (0, 1, 0), (0, 0, 1)], **kw
    ),
}

values = [
    None,
    (0, 0, 0),
    (1, 2, 3),
    [1e-12, 0, 0],
    (0, 0, 1999.9999),
    (0, 0, 2000),
    (0, 2000.0000001, 0),
    (1154.7005383792514, 1154.7005383792514, 1154.7005383792514),
    np.array([1e12, -1e12, 5e11]),
    np.array([1, 2, 3], dtype=int),
    np.array([1, 2, 3], dtype=np.float32),
    (np.nan, 0, 0),
    (np.inf, 0, 0),
    (-1e6, 2e6, -3e6),
]
bad = [
    (1, 2),
    (1, 2, 3, 4),
    [(1, 2, 3)],
    "abc",
    ("a", "b", "c"),
    5,
    {"a": 1},
    [],
    np.zeros((3, 1)),
    True,
]

print("=== constructor, one excitation")
for cname, make in classes.items():
    for v in values:
        attempt(f"{cname} mag={v!r}", lambda: state(make(magnetization=v)))
        attempt(f"{cname} pol={v!r}", lambda: state(make(polarization=v)))

print("=== constructor, both / bad")
make = classes["Cuboid"]
for m in [(1, 2, 3), (1e6, 0, 0), (1, 2), "x", None]:
    for p in [(0.1, 0.2, 0.3), (1, 2), "y", None]:
        attempt(f"both mag={m!r} pol={p!r}", lambda: state(make(magnetization=m, polarization=p)))
for v in bad:
    attempt(f"ctor bad mag={v!r}", lambda: state(make(magnetization=v)))
    attempt(f"ctor bad pol={v!r}", lambda: state(make(polarization=v)))

print("=== setters after construction")
for cname in ("Cuboid", "Sphere"):
    for start in ({}, {"magnetization": (1e6, 2e6, 3e6)}, {"polarization": (0.1, 0.2, 0.3)}):
        for v in values + bad:
            src = classes[cname](**start)

            def set_m():
                src.magnetization = v
                return state(src)

            def set_p():
                src.polarization = v
                return state(src)

            attempt(f"{cname} {start} set M={v!r}", set_m)
            print("     after:", state(src))
            attempt(f"{cname} {start} set J={v!r}", set_p)
            print("     after:", state(src))

print("=== input aliasing / copies")
arr = np.array([1e6, 2e6, 3e6])
src = make(magnetization=arr)
print("M is input:", src.magnetization is arr, "shares:", np.shares_memory(src.magnetization, arr))
arr[0] = 7.0
print(state(src))
arr = np.array([0.1, 0.2, 0.3])
src = make(polarization=arr)
print("J is input:", src.polarization is arr, "shares:", np.shares_memory(src.polarization, arr))
arr[0] = 7.0
print(state(src))
src.polarization[1] = 9.0
print(state(src))

print("=== warnings turned into errors: state left behind")
for v in [(1, 2, 3), (0, 0, 1999), (0, 0, 2001), (0, 0, 0)]:
    src = make(polarization=(0.5, 0.5, 0.5))

    def set_m():
        src.magnetization = v
        return state(src)

    attempt(f"error-mode set M={v!r}", set_m, mode="error")
    print("     after:", state(src))
    attempt(f"error-mode ctor M={v!r}", lambda: state(make(magnetization=v)), mode="error")
    attempt(
        f"error-mode ctor both M={v!r}",
        lambda: state(make(magnetization=v, polarization=(1, 1, 1))),
        mode="error",
    )

print("=== warning count / order in a sequence")
with warnings.catch_warnings(record=True) as rec:
    warnings.simplefilter("always")
    src = make(magnetization=(1, 0, 0))
    src.magnetization = (0, 1, 0)
    src.polarization = (0, 0, 1)
    src.magnetization = None
    src.magnetization = (0, 0, 1500)
    try:
        make(magnetization=(3, 0, 0), polarization=(1, 1, 1))
    except ValueError as err:
        print("ValueError", err)
print([(w.category.__name__, clean(w.message)[:60], os.path.basename(w.filename)) for w in rec])

print("=== subclass hooks and descriptors")
print(type(BaseMagnet.magnetization).__name__, type(BaseMagnet.polarization).__name__)
print(BaseMagnet.magnetization.fget.__doc__, "|", BaseMagnet.magnetization.fset.__doc__)
print(BaseMagnet.polarization.fget.__doc__, "|", BaseMagnet.polarization.fset.__doc__)


class Loud(magpy.magnet.Cuboid):
    def _magnetization_low_warning(self):
        print("   hook called; state:", state(self))


Loud(dimension=(1, 1, 1), magnetization=(1, 2, 3))
Loud(dimension=(1, 1, 1), magnetization=(1e6, 2, 3))
Loud(dimension=(1, 1, 1), polarization=(1, 2, 3))

print("=== fields: unit invariance at object level")
obs = np.array([(0.1, 0.2, 0.3), (2, 1, 0.5), (0.5, 1, 1.5), (-3, 0.2, 0.1)])
for s in (1e-9, 1e-3, 1.0, 1e3, 1e9):
    for e in (1e-12, 1.0, 1e12):
        for field in "BHJM":
            with warnings.catch_warnings():
                warnings.simplefilter("ignore")
                c1 = magpy.magnet.Cuboid(dimension=np.array((1, 2, 3)) * s, polarization=(e, -2 * e, 0.5 * e))
                c2 = magpy.magnet.Cuboid(dimension=np.array((1, 2, 3)) * s, magnetization=(e, -2 * e, 0.5 * e))
                r1 = getattr(c1, "get" + field)(obs * s)
                r2 = getattr(c2, "get" + field)(obs * s)
            print(s, e, field, fmt(r1)[:60], fmt(r2)[:60])
