import os, sys; sys.path.insert(0, os.getcwd())
# Deterministic digest of Sensor / pixel / pixel_agg behaviour (property C04).
import hashlib
import re
import warnings

import numpy as np
from scipy.spatial.transform import Rotation as R

import magpylib as magpy
from magpylib._src.input_checks import check_format_input_observers
from magpylib._src.input_checks import check_format_pixel_agg

warnings.simplefilter("ignore")


def dig(name, arr):
    arr = np.asarray(arr)
    h = hashlib.sha256(np.ascontiguousarray(arr).tobytes()).hexdigest()[:16]
    print(name, arr.shape, arr.dtype, np.round(float(np.sum(arr)), 10), h)


def err(name, func):
    try:
        out = func()
        print(name, "no error", type(out).__name__)
    except Exception as e:  # pylint: disable=broad-except
        cause = type(e.__cause__).__name__
        msg = re.sub(r"id=\d+", "id=#", str(e)).replace("\n", "|")
        msg = re.sub(r"0x[0-9a-f]+", "0x#", msg)
        print(name, type(e).__name__, cause, msg[:260])


def state(name, obj):
    dig(name + ".pos", obj._position)
    dig(name + ".ori", obj._orientation.as_quat())
    print(name, "ids", len(obj._position), len(obj._orientation))


rng = np.random.default_rng(4)


def sources():
    s1 = magpy.magnet.Cuboid(polarization=(0.1, -0.2, 0.3), dimension=(1, 2, 3))
    s1.position = (0.3, 0.1, -0.2)
    s1.rotate_from_angax(33, (1, 2, 3))
    s2 = magpy.current.Circle(current=2.5, diameter=1.5, position=(-0.5, 0.2, 1))
    s2.move(np.linspace((0, 0, 0), (0.4, 0.3, 0.2), 4), start=0)
    s3 = magpy.magnet.Sphere(polarization=(0.3, 0.2, 0.1), diameter=0.7)
    s4 = magpy.misc.Dipole(moment=(1, 2, 3), position=(2, 2, 2))
    col = magpy.Collection(s3, s4)
    col.rotate_from_angax(12, "y", anchor=(1, 0, 0))
    return s1, s2, col


def sensors():
    pix_a = rng.uniform(-0.3, 0.3, size=(2, 3, 3))
    pix_b = rng.uniform(-0.3, 0.3, size=(5, 3))
    pix_c = rng.uniform(-0.3, 0.3, size=(3,))
    # static, unrotated, no pixel
    a = magpy.Sensor(position=(1.5, 0.2, 0.4))
    # static, rotated
    b = magpy.Sensor(position=(1.2, -1.9, 0.7), pixel=pix_a)
    b.rotate_from_rotvec((0.3, -0.5, 0.8), degrees=False)
    # translation-only path, rotated
    c = magpy.Sensor(position=(0, 2.5, 0.1), pixel=pix_a, handedness="left")
    c.rotate_from_angax(71, (1, -1, 0.2))
    c.move(np.linspace((0, 0, 0), (1, 0.5, -0.3), 4), start=0)
    # rotating path
    d = magpy.Sensor(position=(-2.1, 0.3, 0.3), pixel=pix_a)
    d.rotate_from_angax(np.linspace(0, 200, 4), (0.1, 1, 0.5), start=0, anchor=0)
    # rotating path, left handed, different pixel shape
    e = magpy.Sensor(position=(0.2, 0.3, -2.3), pixel=pix_b, handedness="left")
    e.rotate_from_angax(np.linspace(10, 100, 4), "x", start=0)
    # translation path without rotation, pixel shape (3,)
    f = magpy.Sensor(position=(0.2, 3, 1), pixel=pix_c)
    f.move(np.linspace((0, 0, 0), (0.3, 0.3, 0.3), 3), start=0)
    # path of length 2 (shorter than the others -> tiled)
    g = magpy.Sensor(position=[(2, 2, -1), (2, 2.2, -1)], pixel=pix_b)
    g.orientation = R.from_rotvec([(0.1, 0.2, 0.3), (0.3, 0.2, 0.1)])
    return a, b, c, d, e, f, g


def extra():
    # Collection.getB/getH/getM/getJ: who is source, who is observer
    s1, s2, col = sources()
    a, b, c, d, e, f, g = sensors()
    only_src = magpy.Collection(s1.copy(), s2.copy())
    only_sens = magpy.Collection(b.copy(), d.copy(handedness="left"), c.copy())
    only_sens_mixed = magpy.Collection(a.copy(), e.copy(), magpy.Collection(g.copy()))
    both = magpy.Collection(s1.copy(), b.copy(), magpy.Collection(s2.copy(), d.copy()))
    both.rotate_from_angax(np.linspace(0, 40, 3), "z", anchor=(1, 1, 0), start=0)
    empty = magpy.Collection()
    nested_empty = magpy.Collection(magpy.Collection())

    def show(name, coll, *inputs):
        def run():
            src, sens = coll._validate_getBH_inputs(*inputs)
            desc = []
            for x in (src, sens):
                if x is coll:
                    desc.append("self")
                elif inputs and x is inputs[0]:
                    desc.append("inputs[0]")
                elif x is inputs or x == inputs:
                    desc.append(f"inputs:{type(x).__name__}:{len(x)}")
                else:
                    desc.append(f"other:{type(x).__name__}")
            print(name, "->", desc)
            return src
        err(name, run)

    for cname, coll in (("only_src", only_src), ("only_sens", only_sens), ("both", both), ("empty", empty), ("nested_empty", nested_empty)):
        show(f"val {cname} ()", coll)
        show(f"val {cname} (b)", coll, b)
        show(f"val {cname} (s1)", coll, s1)
        show(f"val {cname} ([b,c])", coll, [b, c])
        show(f"val {cname} (b,c)", coll, b, c)
        show(f"val {cname} (s1,s2)", coll, s1, s2)
        show(f"val {cname} (())", coll, ())
    for meth in ("getB", "getH", "getM", "getJ"):
        dig(f"{meth} only_src sens", getattr(only_src, meth)(d))
        dig(f"{meth} only_src two sens", getattr(only_src, meth)(b, d))
        dig(f"{meth} only_src list", getattr(only_src, meth)([b, d, c]))
        dig(f"{meth} only_src pos", getattr(only_src, meth)((1, 2, 3)))
        dig(f"{meth} only_src pos grid", getattr(only_src, meth)(np.ones((2, 2, 3)), squeeze=False))
        dig(f"{meth} only_src three pos", getattr(only_src, meth)((1, 2, 3), (2, 3, 4), (3, 4, 5)))
        dig(f"{meth} only_src mixed agg", getattr(only_src, meth)(a, e, g, pixel_agg="mean"))
        dig(f"{meth} only_src sens coll", getattr(only_src, meth)(only_sens))
        dig(f"{meth} only_sens src", getattr(only_sens, meth)(s1))
        dig(f"{meth} only_sens two src", getattr(only_sens, meth)(s1, col))
        err(f"{meth} only_sens list", lambda: getattr(only_sens, meth)([s1, s2, col], squeeze=False))
        dig(f"{meth} only_sens src coll", getattr(only_sens, meth)(only_src, pixel_agg="max"))
        dig(f"{meth} only_sens_mixed", getattr(only_sens_mixed, meth)(s1, s2, pixel_agg="min"))
        dig(f"{meth} both", getattr(both, meth)())
        dig(f"{meth} both agg", getattr(both, meth)(pixel_agg="sum", squeeze=False))
        df = getattr(only_src, meth)(b, d, output="dataframe")
        dig(f"{meth} df", df[[meth[-1] + k for k in "xyz"]].to_numpy())
        print(meth, "coll equals top-level", np.array_equal(getattr(only_src, meth)(b, d), getattr(magpy, meth)(only_src, [b, d])))
        err(f"{meth} both with input", lambda: getattr(both, meth)(b))
        err(f"{meth} both with src input", lambda: getattr(both, meth)(s1))
        err(f"{meth} only_src none", lambda: getattr(only_src, meth)())
        err(f"{meth} only_src src input", lambda: getattr(only_src, meth)(s1))
        err(f"{meth} only_sens none", lambda: getattr(only_sens, meth)())
        err(f"{meth} only_sens sens input", lambda: getattr(only_sens, meth)(b))
        err(f"{meth} only_sens mixed no agg", lambda: getattr(only_sens_mixed, meth)(s1))
        err(f"{meth} empty none", lambda: getattr(empty, meth)())
        err(f"{meth} empty src", lambda: getattr(empty, meth)(s1))
        err(f"{meth} empty sens", lambda: getattr(empty, meth)(b))
        err(f"{meth} nested_empty src", lambda: getattr(nested_empty, meth)(s1))
        err(f"{meth} bad kw", lambda: getattr(only_src, meth)(b, sumup=True))
    for name, obj in (("both", both), ("only_src", only_src), ("only_sens", only_sens)):
        state("after " + name, obj)
    for ch in both.sources_all + both.sensors_all:
        state("after child", ch)


def common():
    s1, s2, col = sources()
    a, b, c, d, e, f, g = sensors()
    allsens = (a, b, c, d, e, f, g)

    # single sensors, all fields
    for name, sens in zip("abcdefg", allsens):
        for field in ("getB", "getH"):
            dig(f"{field} [{name}]", getattr(magpy, field)([s1, s2, col], sens))
        dig(f"sens.getB [{name}]", sens.getB(s1, s2, col, sumup=True))
        dig(f"nosqueeze [{name}]", magpy.getB(s2, sens, squeeze=False))
    dig("getJ", magpy.getJ([s1, col], [b, c, d]))
    dig("getM", magpy.getM([s1, col], [b, c, d]))

    # several sensors with same pixel shape
    dig("same-shape", magpy.getB([s1, s2, col], [b, c, d]))
    dig("same-shape sumup", magpy.getH([s1, s2, col], [d, c, b, c], sumup=True))
    dig("sensor collection", magpy.getB(s1, magpy.Collection(b.copy(), d.copy())))
    dig("pos_vec + sens", magpy.getB(s1, [b, np.ones((2, 3, 3)), c]))
    dig("bare pos_vec", magpy.getB([s1, col], [(1, 2, 3), (2, 3, 4)]))
    dig("bare pos", magpy.getB(col, (1, 2, 3)))

    # pixel_agg
    for agg in ("mean", "min", "max", "sum", "std", "median", "ptp", "prod", "var"):
        dig(f"agg {agg} same", magpy.getB([s1, s2], [b, c, d], pixel_agg=agg))
        dig(f"agg {agg} mixed", magpy.getB([s1, col], list(allsens), pixel_agg=agg))
        dig(
            f"agg {agg} mixed nosqueeze",
            magpy.getH(s2, [e, a, f, b], pixel_agg=agg, squeeze=False, sumup=True),
        )
        dig(f"agg {agg} single", magpy.getB(s1, e, pixel_agg=agg))
    dig("agg posvec mixed", magpy.getB(s1, [a, (1, 2, 3), np.ones((4, 3))], pixel_agg="mean"))

    # dataframe
    df = magpy.getB([s1, s2], [b, c], output="dataframe")
    dig("df", df[["Bx", "By", "Bz"]].to_numpy())
    print(
        "df cols",
        list(df.columns),
        len(df),
        [re.sub(r"id=\d+", "id=#", v) for v in df["sensor"].unique()],
    )
    df = magpy.getB([s1, s2], [b, e], output="dataframe", pixel_agg="max", sumup=True)
    dig("df agg", df[["Bx", "By", "Bz"]].to_numpy())
    print("df agg cols", list(df.columns), len(df), list(df["source"].unique()))

    # state after computation (tiled paths restored)
    for name, obj in zip("abcdefg", allsens):
        state(name, obj)
    state("s1", s1)
    state("s2", s2)

    # error paths
    err("mixed shapes no agg", lambda: magpy.getB(s1, [b, e]))
    err("bad agg name", lambda: magpy.getB(s1, [b, e], pixel_agg="nope"))
    err("bad agg non reducing", lambda: magpy.getB(s1, b, pixel_agg="array"))
    err("bad agg non reducing 2", lambda: magpy.getB(s1, b, pixel_agg="cumsum"))
    err("bad agg type", lambda: magpy.getB(s1, b, pixel_agg=3))
    err("bad agg newaxis", lambda: magpy.getB(s1, b, pixel_agg="newaxis"))
    err("bad agg pi", lambda: magpy.getB(s1, b, pixel_agg="pi"))
    err("agg fmt None", lambda: check_format_pixel_agg(None))
    print("agg fmt mean", check_format_pixel_agg("mean") is np.mean)
    err("bad observers", lambda: magpy.getB(s1, "xyz"))
    err("empty observers", lambda: magpy.getB(s1, []))
    err("bad observers 2", lambda: magpy.getB(s1, [b, "xyz"]))
    err("bad observers 3", lambda: magpy.getB(s1, [(1, 2), b]))
    err("src in observers", lambda: magpy.getB(s1, [s1, b]))
    err("empty coll observers", lambda: magpy.getB(s1, [magpy.Collection(s2.copy()), b]))
    err("bad pixel", lambda: magpy.Sensor(pixel=(1, 2)))
    err("bad handedness", lambda: magpy.Sensor(handedness="up"))
    err("obs fmt", lambda: check_format_input_observers([b, e], None))
    sens_l, shapes = check_format_input_observers([a, b, f, (1, 2, 3), e], "mean")
    print("obs fmt shapes", shapes, [type(s).__name__ for s in sens_l])
    sens_l, shapes = check_format_input_observers((1, 2, 3))
    print("obs fmt shapes", shapes, len(sens_l))

    # failing computation restores tiled paths
    s_bad = magpy.misc.CustomSource(position=(1, 1, 1))
    err("missing field_func", lambda: magpy.getB([s1, s_bad], [d, g, a], pixel_agg="max"))
    for name, obj in (("d", d), ("g", g), ("a", a), ("s1", s1), ("s_bad", s_bad)):
        state(name + " after fail", obj)

    def bad_func(field, observers):
        raise RuntimeError("boom")

    s_bad2 = magpy.misc.CustomSource(field_func=None, position=(1, 1, 1))
    s_bad2._field_func = bad_func
    err("raising field_func", lambda: magpy.getB([s1, s_bad2], [d, g, a], pixel_agg="mean"))
    for name, obj in (("d", d), ("g", g), ("a", a), ("s1", s1)):
        state(name + " after fail2", obj)

    # --- additional cases (second batch) ---
    # the same sensor object several times, left-handed ones included
    dig("dup sensors", magpy.getB([s1, s2], [c, d, c, e, e], pixel_agg="mean"))
    dig("dup sensors same", magpy.getH([s1, col], [c, d, c, b]))
    # empty pixel array
    z = magpy.Sensor(pixel=np.zeros((0, 3)), position=(1, 1, 1), handedness="left")
    z.rotate_from_angax([10, 20, 30], "z")
    dig("empty pixel", magpy.getB(s1, z))
    dig("empty pixel mixed", magpy.getB([s1, s2], [z, d, a], pixel_agg="sum"))
    # sensors in nested collections with own paths
    inner = magpy.Collection(b.copy(), e.copy(handedness="right"))
    outer = magpy.Collection(inner, d.copy(handedness="left"), s3c := s1.copy())
    outer.rotate_from_angax(np.linspace(0, 90, 6), "z", anchor=(0, 0, 1), start=0)
    dig("nested coll", magpy.getB([s1, s2], outer, pixel_agg="median"))
    dig("nested coll + sens", magpy.getH(outer, [outer, a, (0.1, 0.2, 0.3)], pixel_agg="max"))
    for name, obj in (("inner", inner), ("outer", outer), ("s3c", s3c)):
        state(name, obj)
    # only static objects (max path length 1)
    dig("all static", magpy.getB([s1, col], [a, b], pixel_agg="min"))
    dig("all static 2", magpy.getB(s1, [b, b.copy(handedness="left")]))
    # unit orientation path of length > 1 (unrotated but has a path)
    u = magpy.Sensor(position=[(0, 0, 2), (0, 0, 2.5), (0, 0, 3)], pixel=[(0, 0, 0), (0.1, 0, 0)], handedness="left")
    dig("unrotated path", magpy.getB([s1, s2], u))
    # sensor that is also part of the sources' collection
    mixed = magpy.Collection(s1.copy(), b.copy())
    dig("mixed coll", magpy.getB(mixed, mixed))
    df = magpy.getB([s1, s2], [b, c, d], output="dataframe", pixel_agg="mean")
    dig("df agg2", df[["Bx", "By", "Bz"]].to_numpy())
    print("df agg2 shape", df.shape, list(df["pixel"].unique()), list(df["path"].unique()))
    df = magpy.getH(s1, a, output="dataframe", sumup=True, squeeze=False)
    dig("df single", df[["Hx", "Hy", "Hz"]].to_numpy())
    print("df single", df.shape, [re.sub(r"id=\d+", "id=#", v) for v in df["source"].unique()])
    err("bad output", lambda: magpy.getB(s1, b, output="xarray"))
    err("bad output after fail", lambda: magpy.getB([s1, magpy.misc.CustomSource()], b, output="xarray"))
    err("kwargs", lambda: magpy.getB(s1, b, dimension=(1, 2, 3)))
    dig("agg nosqueeze same", magpy.getB([s1, s2], [b, c], pixel_agg="mean", squeeze=False))
    dig("nosqueeze same", magpy.getB([s1, s2], [b, c], squeeze=False))
    dig("sumup nosqueeze", magpy.getB([s1, s2], [b, c], squeeze=False, sumup=True))
    extra()


if __name__ == "__main__":
    common()
