import os, sys; sys.path.insert(0, os.getcwd())
import re
import warnings
from fractions import Fraction

import numpy as np

import magpylib as magpy

# warnings outside of run() are silenced (their text contains source line numbers)
warnings.simplefilter("ignore")


def dig(r):
    if isinstance(r, np.ndarray):
        return f"ARR {r.dtype} {r.shape} {np.round(r, 12).tolist()}"
    return f"RET {type(r).__name__} {r!r}"


def run(f):
    with warnings.catch_warnings(record=True) as w:
        warnings.simplefilter("always")
        try:
            out = dig(f())
        except Exception as e:  # pylint: disable=broad-except
            out = f"EXC {type(e).__name__}: {e} | cause={type(e.__cause__).__name__}"
        wtxt = sorted({x.category.__name__ for x in w})
    return re.sub(r"0x[0-9a-f]+|id=\d+", "ADDR", out + (f" | warn={wtxt}" if wtxt else ""))


P = [(0, 0, 0), (1, 0, 0), (1, 1, 0), (0, 1, 2)]
values = [
    None, 0, 1, -1.5, True, 1 + 2j, Fraction(1, 3), "abc", b"1", (), [], [[]], [[], []], (1,), (1, 2), (1, 2, 3), [1, 2, 3],
    [(1, 2, 3)], ((1, 2, 3),), [(1, 2, 3)] * 2, [(1, 2, 3), (4, 5, 6)], P, tuple(P), P * 5, [(0, 0, 0)] * 2,
    [(1, 2)] * 2, [(1, 2, 3, 4)] * 2, [(1,)] * 3, [[(1, 2, 3)] * 2], [[(1, 2, 3)] * 2] * 2, [[[(1, 2, 3)] * 2] * 2] * 2,
    [(1, 2, 3), (4, 5)], [(1, 2, 3), (4, 5, "a")], [("1", "2", "3"), ("4", "5", "6")], [(1, 2, 3), (4, 5, None)],
    [(1, 2, 3), None], {1, 2, 3}, {"a": 1}, range(6), iter(P),
    np.array(P), np.array(P, dtype=np.float32), np.array(P, dtype=int), np.array(P[:1]), np.array(P[:2]), np.array(P)[:, :2],
    np.array(P).T, np.array(P, dtype=object), np.array(P, dtype=bool), np.array(P, dtype=complex), np.array(5.0), np.zeros((0, 3)),
    np.zeros((2, 0)), np.array(P)[::-1], np.array(P * 2)[::2], np.array([["a", "b", "c"]] * 2), np.ma.masked_array(P),
    [(np.inf, 0, 0), (0, -np.inf, 0)], [(1e308, 1e308, 1e308), (-1e308, 0, 0)],
]

for cls in [magpy.current.Polyline, magpy.current.Line]:
    for v in values:
        if isinstance(v, type(iter(P))):
            v = None  # an exhausted iterator is not reproducible - skip
        r1 = run(lambda: cls(current=1.0, vertices=v).vertices)
        obj = cls(current=1.0, vertices=[(9, 9, 9), (8, 8, 8), (7, 7, 7)])
        before = dig(obj.vertices)

        def setit():
            obj.vertices = v
            return obj.vertices

        r2 = run(setit)
        after = dig(obj.vertices)
        print(cls.__name__, repr(v)[:90].replace("\n", " "), "| ctor:", r1, "| set:", r2, "| same:", r1 == r2,
              "| unchanged_on_err:", (not r2.startswith("EXC")) or before == after)
        if isinstance(v, np.ndarray) and isinstance(obj.vertices, np.ndarray):
            print("   shares_memory:", np.shares_memory(obj.vertices, v), "| is same object:", obj.vertices is v)
        print("   getB:", run(lambda: obj.getB((0.3, 0.2, 0.1))), "| descr:", run(lambda: obj._default_style_description))

# None means "not yet set": accepted, read back as None, field computation reports the missing input
pl = magpy.current.Polyline(current=2)
print("default:", dig(pl.vertices), run(lambda: pl.getB((1, 2, 3))), run(lambda: magpy.getH(pl, (1, 2, 3))))
pl.vertices = P
print("set:", dig(pl.vertices), run(lambda: pl.getB((1, 2, 3))))
pl.vertices = None
print("reset:", dig(pl.vertices), run(lambda: pl.getB((1, 2, 3))))

# stored value is an independent float copy
src = np.array(P, dtype=float)
pl.vertices = src
src[0, 0] = 123.0
print("independent of caller:", dig(pl.vertices))
lst = [list(p) for p in P]
pl.vertices = lst
lst[0][0] = 55
print("independent of caller list:", dig(pl.vertices))

# positional constructor arguments, copy(), in a Collection, getBH_dict style interface
print("positional:", run(lambda: magpy.current.Polyline(1, P).vertices), run(lambda: magpy.current.Polyline(1, [(1, 2, 3)]).vertices))
print("copy kw:", run(lambda: pl.copy(vertices=[(0, 0, 0), (1, 1, 1)]).vertices), run(lambda: pl.copy(vertices=[(0, 0, 0)]).vertices))
col = magpy.Collection(magpy.current.Polyline(1, P), magpy.current.Polyline(1))
print("collection getB:", run(lambda: col.getB((1, 2, 3))))
print("functional:", run(lambda: magpy.getB("Polyline", (1, 2, 3), current=1, vertices=P)),
      run(lambda: magpy.getB("Polyline", (1, 2, 3), current=1, vertices=[(1, 2, 3)])))
