import os, sys; sys.path.insert(0, os.getcwd())
import hashlib
import re
import warnings

import numpy as np

import magpylib as magpy


def digest(name, arr):
    if arr is None:
        print(name, None)
        return
    arr = np.asarray(arr)
    h = hashlib.sha256(np.ascontiguousarray(arr).tobytes()).hexdigest()[:16]
    print(name, arr.shape, arr.dtype, h, np.array2string(arr, precision=17))


def scrub(msg):
    return re.sub(r"id=\d+", "id=#", str(msg)).replace("\n", " | ")


def show(label, obj):
    digest(label + ".J", obj.polarization)
    digest(label + ".M", obj.magnetization)
    if obj.polarization is not None:
        print(
            label,
            "J==mu0*M (setter constant)",
            np.array_equal(obj.polarization, obj.magnetization * (4 * np.pi * 1e-7))
            or np.array_equal(obj.magnetization, obj.polarization / (4 * np.pi * 1e-7)),
            "allclose mu_0",
            np.allclose(obj.polarization, magpy.mu_0 * obj.magnetization, rtol=1e-9),
        )


def in_mag_setter(w):
    """is the warning attributed to a line of the BaseMagnet.magnetization setter?"""
    import inspect

    from magpylib._src.obj_classes.class_BaseExcitations import BaseMagnet

    fset = BaseMagnet.magnetization.fset
    lines, start = inspect.getsourcelines(fset)
    return (
        os.path.samefile(w.filename, inspect.getsourcefile(fset))
        and start <= w.lineno < start + len(lines)
    )


def attempt(label, fn):
    with warnings.catch_warnings(record=True) as rec:
        warnings.simplefilter("always")
        try:
            res = fn()
            print(label, "ok")
        except Exception as e:  # noqa: BLE001
            res = None
            print(label, "EXC", type(e).__name__, scrub(e))
    for w in rec:
        print(
            label,
            "WARN",
            w.category.__name__,
            os.path.basename(w.filename),
            "in-magnetization-setter" if in_mag_setter(w) else "elsewhere",
            scrub(w.message),
        )
    return res


makers = {
    "Cuboid": lambda **kw: magpy.magnet.Cuboid(dimension=(1, 2, 3), **kw),
    "Cylinder": lambda **kw: magpy.magnet.Cylinder(dimension=(1, 2), **kw),
    "CylinderSegment": lambda **kw: magpy.magnet.CylinderSegment(dimension=(1, 2, 1, 0, 90), **kw),
    "Sphere": lambda **kw: magpy.magnet.Sphere(diameter=1, **kw),
    "Tetrahedron": lambda **kw: magpy.magnet.Tetrahedron(
        vertices=[(0, 0, 0), (1, 0, 0), (0, 1, 0), (0, 0, 1)], **kw
    ),
}

for name, mk in makers.items():
    o = attempt(f"{name} init none", lambda: mk())
    show(f"{name} none", o)
    o = attempt(f"{name} init pol", lambda: mk(polarization=(0.1, 0.2, 0.3)))
    show(f"{name} pol", o)
    o = attempt(f"{name} init mag", lambda: mk(magnetization=(1e5, -2e5, 3e5)))
    show(f"{name} mag", o)
    o = attempt(f"{name} init low mag", lambda: mk(magnetization=(1, 2, 3)))
    show(f"{name} lowmag", o)
    attempt(f"{name} init both", lambda: mk(magnetization=(1e5, 0, 0), polarization=(1, 0, 0)))
    attempt(f"{name} init both lowmag", lambda: mk(magnetization=(1, 0, 0), polarization=(1, 0, 0)))
    attempt(f"{name} init both badmag", lambda: mk(magnetization=(1, 0), polarization=(1, 0, 0)))
    attempt(f"{name} init both badpol", lambda: mk(magnetization=(1e5, 0, 0), polarization="x"))
    attempt(f"{name} init bad pol", lambda: mk(polarization=(1, 2)))
    attempt(f"{name} init bad mag", lambda: mk(magnetization="abc"))

# setters on an existing object
c = magpy.magnet.Cuboid(dimension=(1, 1, 1), polarization=(1, 2, 3))
inp = np.array([4.0, 5.0, 6.0])


def setattr_(obj, nme, val):
    setattr(obj, nme, val)


attempt("set pol ndarray", lambda: setattr_(c, "polarization", inp))
show("after set pol", c)
print("pol aliases input", c.polarization is inp, np.shares_memory(c.polarization, inp))
print("mag aliases pol", np.shares_memory(c.magnetization, c.polarization))
attempt("set mag list", lambda: setattr_(c, "magnetization", [1e6, 0, -1e6]))
show("after set mag", c)
attempt("set mag int tuple", lambda: setattr_(c, "magnetization", (3000, 0, 0)))
show("after set mag int", c)
attempt("set mag norm just below", lambda: setattr_(c, "magnetization", (1999.999, 0, 0)))
show("after below", c)
attempt("set mag norm exactly 2000", lambda: setattr_(c, "magnetization", (2000, 0, 0)))
show("after 2000", c)
attempt("set mag zero", lambda: setattr_(c, "magnetization", (0, 0, 0)))
show("after zero", c)
attempt("set mag nan", lambda: setattr_(c, "magnetization", (np.nan, 0, 0)))
show("after nan", c)
attempt("set pol None", lambda: setattr_(c, "polarization", None))
show("after pol None", c)
attempt("set mag again", lambda: setattr_(c, "magnetization", (1e5, 1e5, 1e5)))
attempt("set mag None", lambda: setattr_(c, "magnetization", None))
show("after mag None", c)

# failed sets leave the state untouched
attempt("set pol again", lambda: setattr_(c, "polarization", (0.5, 0.5, 0.5)))
for bad in ((1, 2), (1, 2, 3, 4), [[1, 2, 3]], "abc", 5, ("a", "b", "c"), {1, 2, 3}):
    attempt(f"bad pol {bad!r}", lambda b=bad: setattr_(c, "polarization", b))
    attempt(f"bad mag {bad!r}", lambda b=bad: setattr_(c, "magnetization", b))
show("after bad sets", c)

# low-magnetization warning turned into an error: both attributes are already set
c2 = magpy.magnet.Sphere(diameter=1, polarization=(1, 1, 1))
with warnings.catch_warnings():
    warnings.simplefilter("error")
    try:
        c2.magnetization = (1, 2, 3)
    except Exception as e:  # noqa: BLE001
        print("warn-as-error", type(e).__name__, scrub(e))
show("after warn-as-error", c2)

# field consistency through the object interface
with warnings.catch_warnings():
    warnings.simplefilter("ignore")
    m = magpy.magnet.Cuboid(dimension=(1, 2, 3), magnetization=(1e5, 2e5, -3e5))
    pts = [(0, 0, 0), (0.2, 0.3, 0.1), (2, 2, 2)]
    B, H, J, M = m.getB(pts), m.getH(pts), m.getJ(pts), m.getM(pts)
    for nme, arr in zip("BHJM", (B, H, J, M)):
        digest("field-" + nme, arr)
    print("BHJ", np.allclose(B, magpy.mu_0 * H + J, rtol=1e-12, atol=1e-15))
    # copy keeps both
    mc = m.copy(polarization=(0.1, 0.1, 0.1))
    show("copy", mc)

# default warning filter: repeated low-magnetization sets on the same object
c3 = magpy.magnet.Sphere(diameter=1, polarization=(1, 1, 1))
with warnings.catch_warnings(record=True) as rec:
    warnings.simplefilter("default")
    for _ in range(3):
        c3.magnetization = (1, 2, 3)
    c3.magnetization = (1, 2, 4)
print("default-filter warnings", len(rec), [in_mag_setter(w) for w in rec])
