import os, sys; sys.path.insert(0, os.getcwd())

# Exercises the `sources`, `sensors`, `collections` (and `children`) setters of
# collections, directly and through the keyword overrides of `copy()`.
import re

import numpy as np

import magpylib as magpy


def clean(txt):
    return re.sub(r"id=\d+", "id=#", str(txt))


def r(a):
    return np.round(np.asarray(a, dtype=float), 10).tolist()


def tree(c):
    return clean(c.describe(format="type+label", return_string=True)).split("\n")


def links_ok(c):
    ok = True
    for ch in c.children:
        ok = ok and ch._parent is c
        if isinstance(ch, magpy.Collection):
            ok = ok and links_ok(ch)
    return ok


def labels(objs):
    return [o.style.label for o in objs]


def state(c):
    return [labels(c.children), labels(c.sources), labels(c.sensors), labels(c.collections), links_ok(c)]


def build():
    objs = {
        "s1": magpy.Sensor(style_label="s1"),
        "s2": magpy.Sensor(style_label="s2"),
        "d1": magpy.misc.Dipole(moment=(1, 2, 3), style_label="d1"),
        "d2": magpy.misc.Dipole(moment=(3, 2, 1), position=(1, 0, 0), style_label="d2"),
        "sub_s": magpy.Sensor(style_label="sub_s"),
        "sub_d": magpy.misc.Dipole(moment=(0, 0, 1), style_label="sub_d"),
    }
    objs["sub"] = magpy.Collection(objs["sub_s"], objs["sub_d"], style_label="sub")
    objs["empty"] = magpy.Collection(style_label="empty")
    objs["col"] = magpy.Collection(
        objs["s1"], objs["d1"], objs["sub"], objs["s2"], objs["d2"], objs["empty"], style_label="col"
    )
    # objects outside of the collection
    objs["xs"] = magpy.Sensor(style_label="xs")
    objs["xd"] = magpy.misc.Dipole(moment=(1, 1, 1), style_label="xd")
    objs["xc"] = magpy.Collection(magpy.Sensor(style_label="xc_s"), style_label="xc")
    objs["owned_s"] = magpy.Sensor(style_label="owned_s")
    objs["owned_d"] = magpy.misc.Dipole(moment=(1, 1, 1), style_label="owned_d")
    objs["owner"] = magpy.Collection(objs["owned_s"], objs["owned_d"], style_label="owner")
    return objs


def parents(o):
    return {k: (None if v._parent is None else v._parent.style.label) for k, v in o.items()}


CASES = [
    ("sources", lambda o: [o["xd"]]),
    ("sources", lambda o: []),
    ("sources", lambda o: o["xd"]),
    ("sources", lambda o: (o["d2"], o["xd"], o["d1"])),
    ("sources", lambda o: [o["owned_d"]]),
    ("sources", lambda o: [o["sub_d"]]),
    ("sources", lambda o: [o["xs"]]),
    ("sources", lambda o: [o["xc"]]),
    ("sources", lambda o: [o["xd"], o["xd"]]),
    ("sources", lambda o: "bad"),
    ("sources", lambda o: [o["xd"], 1]),
    ("sources", lambda o: None),
    ("sensors", lambda o: [o["xs"]]),
    ("sensors", lambda o: []),
    ("sensors", lambda o: o["xs"]),
    ("sensors", lambda o: [o["s2"], o["s1"]]),
    ("sensors", lambda o: [o["owned_s"], o["sub_s"]]),
    ("sensors", lambda o: [o["xd"]]),
    ("sensors", lambda o: [o["xc"]]),
    ("sensors", lambda o: [o["xs"], o["xs"]]),
    ("sensors", lambda o: 3.5),
    ("collections", lambda o: [o["xc"]]),
    ("collections", lambda o: []),
    ("collections", lambda o: o["xc"]),
    ("collections", lambda o: [o["empty"], o["sub"]]),
    ("collections", lambda o: [o["owner"]]),
    ("collections", lambda o: [o["col"]]),
    ("collections", lambda o: [o["xs"], o["xd"]]),
    ("collections", lambda o: [o["xc"], o["xc"]]),
    ("collections", lambda o: "bad"),
    ("children", lambda o: [o["xs"], o["xd"], o["xc"]]),
    ("children", lambda o: []),
    ("children", lambda o: [o["d1"], o["owned_s"]]),
    ("children", lambda o: [o["col"]]),
    ("children", lambda o: [o["xs"], "bad"]),
]

print("== setters on the collection itself")
for attr, make in CASES:
    o = build()
    col = o["col"]
    val = make(o)
    try:
        setattr(col, attr, val)
        res = "ok"
    except Exception as e:
        res = type(e).__name__ + ":" + clean(e).split("\n")[0][:90]
    print(attr, res, state(col), state(o["owner"]), state(o["sub"]))
    print("   ", parents(o))

print("== the same as keyword overrides of copy()")
for attr, make in CASES:
    o = build()
    col = o["col"]
    top = magpy.Collection(col, style_label="top")
    before = (tree(top), parents(o))
    val = make(o)
    try:
        c = col.copy(**{attr: val})
        res = ["ok", c.parent is None, state(c), tree(c)]
        # the override took objects over; the original collection is as before
    except Exception as e:
        res = [type(e).__name__ + ":" + clean(e).split("\n")[0][:90]]
    print(attr, res)
    print("   ", tree(top) == before[0], state(col), col.parent is top, links_ok(top), parents(o) == before[1],
          state(o["owner"]))

print("== field of a copy with replaced sources, later mutation")
o = build()
col = o["col"]
obs = (0.3, 0.4, 2.5)
c = col.copy(sources=[o["xd"]], position=(1, 1, 1))
print(r(1e6 * magpy.getB(c.sources_all, obs, sumup=True)), r(1e6 * magpy.getB(col.sources_all, obs, sumup=True)), r(c.position), r(col.position), r(o["xd"].position))
c.sensors = []
c.collections = []
print(state(c), state(col))
col.sources = []
print(state(c), state(col), parents(o))
