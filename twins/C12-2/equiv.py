import os, sys; sys.path.insert(0, os.getcwd())
import hashlib
import warnings

import numpy as np

import magpylib as magpy
from magpylib._src.fields.field_BH_polyline import BHJM_current_polyline
from magpylib._src.fields.field_BH_polyline import current_polyline_Hfield
from magpylib._src.fields.field_BH_polyline import current_vertices_field

warnings.simplefilter("ignore")
np.set_printoptions(precision=10, linewidth=200)


def digest(tag, arr):
    flags = getattr(arr, "flags", None)
    layout = (flags.c_contiguous, flags.f_contiguous) if flags is not None else None
    arr = np.ascontiguousarray(np.asarray(arr, dtype=float))
    h = hashlib.sha256(arr.tobytes()).hexdigest()[:16]
    print(tag, arr.shape, layout, h)
    print(np.array2string(arr.ravel()[:12], precision=10))


def attempt(tag, func):
    try:
        digest(tag, func())
    except Exception as err:  # pylint: disable=broad-except
        print(tag, "EXC", type(err).__name__, str(err)[:120].replace("\n", " | "))


rng = np.random.default_rng(122)
n = 30
p1 = rng.uniform(-1, 1, size=(n, 3))
p2 = rng.uniform(-1, 1, size=(n, 3))
po = rng.uniform(-2, 2, size=(n, 3))
cur = rng.uniform(-5, 5, size=n)

# on-line observers (inside segment, on the extension, at the end points)
po_on = po.copy()
po_on[0] = p1[0] + 0.3 * (p2[0] - p1[0])
po_on[1] = p1[1] + 1.7 * (p2[1] - p1[1])
po_on[2] = p1[2]
po_on[3] = p2[3]
po_on[4] = p1[4] - 2.5 * (p2[4] - p1[4])
# observers whose projection is below / above / between the end points
p1[10], p2[10], po[10] = (0, 0, 0), (1, 0, 0), (-3, 1, 0)
p1[11], p2[11], po[11] = (0, 0, 0), (1, 0, 0), (4, 1, 0)
p1[12], p2[12], po[12] = (0, 0, 0), (1, 0, 0), (0.5, 0, 2)
p1[13], p2[13], po[13] = (0, 0, 0), (1, 0, 0), (0, 1, 0)
p1[14], p2[14], po[14] = (0, 0, 0), (1, 0, 0), (1, 0, 1)
po_on[10:15] = po[10:15]

for scale in (1.0, 1e-9, 1e-4, 1e5, 1e9):
    for cscale in (1.0, 1e-12, 1e12):
        attempt(
            f"core offline s={scale:g} c={cscale:g}",
            lambda: current_polyline_Hfield(po * scale, p1 * scale, p2 * scale, cur * cscale),
        )
        attempt(
            f"core online s={scale:g} c={cscale:g}",
            lambda: current_polyline_Hfield(po_on * scale, p1 * scale, p2 * scale, cur * cscale),
        )
        for field in "BHJM":
            attempt(
                f"BHJM {field} s={scale:g} c={cscale:g}",
                lambda: BHJM_current_polyline(
                    field, po_on * scale, p1 * scale, p2 * scale, cur * cscale
                ),
            )

# all observers on line
attempt("core all online", lambda: current_polyline_Hfield(p1[:4] * 1.0, p1[:4], p2[:4], cur[:4]))
# small n, single element, empty
attempt("core single", lambda: current_polyline_Hfield(po[:1], p1[:1], p2[:1], cur[:1]))
attempt("core single online", lambda: current_polyline_Hfield(po_on[:1], p1[:1], p2[:1], cur[:1]))
attempt(
    "core empty",
    lambda: current_polyline_Hfield(np.zeros((0, 3)), np.zeros((0, 3)), np.zeros((0, 3)), np.zeros(0)),
)
# integer inputs
attempt(
    "core int",
    lambda: current_polyline_Hfield(
        np.array([(1, 1, 1), (2, 2, 2), (2, 0, 0)]),
        np.array([(0, 0, 0), (0, 0, 0), (0, 0, 0)]),
        np.array([(1, 0, 0), (-1, 0, 0), (1, 0, 0)]),
        np.array([100, 200, 300]),
    ),
)
# inputs must not be modified
snap = (po_on.copy(), p1.copy(), p2.copy(), cur.copy())
current_polyline_Hfield(po_on, p1, p2, cur)
print("inputs untouched", all(np.array_equal(a, b) for a, b in zip(snap, (po_on, p1, p2, cur))))

# zero-length and nan segments through the BHJM layer
p2z = p2.copy()
p2z[5] = p1[5]
p1n = p1.copy()
p1n[6] = np.nan
for field in "BH":
    attempt(f"BHJM zero-len {field}", lambda: BHJM_current_polyline(field, po_on, p1, p2z, cur))
    attempt(f"BHJM nan seg {field}", lambda: BHJM_current_polyline(field, po_on, p1n, p2z, cur))
    attempt(f"BHJM all zero {field}", lambda: BHJM_current_polyline(field, po_on, p1, p1, cur))

# error paths
attempt("err field", lambda: BHJM_current_polyline("X", po, p1, p2, cur))
attempt("err shape", lambda: current_polyline_Hfield(po[:5], p1[:4], p2[:4], cur[:4]))
attempt("err shape cur", lambda: current_polyline_Hfield(po[:5], p1[:5], p2[:5], cur[:4]))
attempt("err shape cur online", lambda: current_polyline_Hfield(po_on[:5], p1[:5], p2[:5], cur[:4]))
attempt("err list", lambda: current_polyline_Hfield(po.tolist(), p1.tolist(), p2.tolist(), cur))

# vertices interface + object interface
verts = rng.uniform(-1, 1, size=(4, 6, 3))
attempt(
    "vertices field",
    lambda: current_vertices_field("H", po_on[:4], cur[:4], vertices=verts),
)
for scale in (1.0, 1e-9, 1e9):
    line = magpy.current.Polyline(
        current=2.5, vertices=np.array([(0, 0, 0), (1, 0, 0), (1, 1, 0), (0, 1, 1), (0, 0, 0)]) * scale
    )
    line.rotate_from_angax(40, (1, 1, 0))
    grid = np.concatenate([po[:8], [(0.5, 0, 0), (2, 0, 0)]]) * scale
    attempt(f"obj B s={scale:g}", lambda: magpy.getB(line, grid))
    attempt(f"obj H s={scale:g}", lambda: magpy.getH(line, grid))
