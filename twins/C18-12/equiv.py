import os, sys; sys.path.insert(0, os.getcwd())

# Exercises Collection.remove and utility.rec_obj_remover: direct and deep removal,
# order of the `==` comparisons during the search, `errors=` variants, outdated
# object lists, detaching via `parent = None` / `parent = other`, re-adding with
# override_parent, and the same operations on copies of a tree (original untouched).
import re

import numpy as np

import magpylib as magpy
from magpylib._src.utility import rec_obj_remover


def clean(txt):
    return re.sub(r"id=\d+", "id=#", str(txt))


def r(a):
    return np.round(np.asarray(a, dtype=float), 10).tolist()


def labels(objs):
    return [o.style.label for o in objs]


def links_ok(c):
    ok = True
    for ch in c.children:
        ok = ok and ch._parent is c
        if isinstance(ch, magpy.Collection):
            ok = ok and links_ok(ch)
    return ok


def state(c):
    return [labels(c.children), labels(c.sources), labels(c.sensors), labels(c.collections), links_ok(c)]


EQLOG = []


class EqSensor(magpy.Sensor):
    """logs the comparisons made with it; equal to sensors with the same `key`"""

    def __init__(self, key, **kwargs):
        super().__init__(**kwargs)
        self.key = key

    def __eq__(self, other):
        EQLOG.append((self.style.label, getattr(getattr(other, "style", None), "label", repr(other))))
        return isinstance(other, EqSensor) and other.key == self.key

    __hash__ = magpy.Sensor.__hash__


def build():
    o = {
        "s1": magpy.Sensor(style_label="s1"),
        "d1": magpy.misc.Dipole(moment=(1, 2, 3), style_label="d1"),
        "e1": EqSensor(1, style_label="e1"),
        "a_s": magpy.Sensor(style_label="a_s"),
        "a_e": EqSensor(2, style_label="a_e"),
        "aa_d": magpy.misc.Dipole(moment=(0, 1, 0), style_label="aa_d"),
        "aa_e": EqSensor(1, style_label="aa_e"),
        "b_d": magpy.misc.Dipole(moment=(0, 0, 1), style_label="b_d"),
        "b_e": EqSensor(2, style_label="b_e"),
        "s2": magpy.Sensor(style_label="s2"),
    }
    o["aa"] = magpy.Collection(o["aa_d"], o["aa_e"], style_label="aa")
    o["a"] = magpy.Collection(o["a_s"], o["aa"], o["a_e"], style_label="a")
    o["b"] = magpy.Collection(o["b_d"], o["b_e"], style_label="b")
    o["empty"] = magpy.Collection(style_label="empty")
    o["col"] = magpy.Collection(
        o["s1"], o["a"], o["d1"], o["empty"], o["b"], o["e1"], o["s2"], style_label="col"
    )
    o["out_s"] = magpy.Sensor(style_label="out_s")
    o["out_e1"] = EqSensor(1, style_label="out_e1")
    o["out_e2"] = EqSensor(2, style_label="out_e2")
    o["out_e3"] = EqSensor(3, style_label="out_e3")
    o["out_c"] = magpy.Collection(style_label="out_c")
    return o


def parents(o):
    return {k: (None if v._parent is None else v._parent.style.label) for k, v in o.items()}


def attempt(name, func):
    del EQLOG[:]
    try:
        res = func()
        print(name, "ok", clean(res))
    except Exception as err:  # pylint: disable=broad-except
        print(name, "ERR", type(err).__name__, clean(err).replace("\n", " | "))
    print("   eq", EQLOG)


CASES = [
    ("direct", lambda o: o["col"].remove(o["s1"])),
    ("deep", lambda o: o["col"].remove(o["aa_d"])),
    ("deep non recursive", lambda o: o["col"].remove(o["aa_d"], recursive=False)),
    ("deep non recursive ignore", lambda o: o["col"].remove(o["aa_d"], recursive=False, errors="ignore")),
    ("deep non recursive bad errors", lambda o: o["col"].remove(o["aa_d"], recursive=False, errors="warn")),
    ("bad errors but found", lambda o: o["col"].remove(o["aa_d"], errors="warn")),
    ("sub collection", lambda o: o["col"].remove(o["aa"])),
    ("collection then its child", lambda o: o["col"].remove(o["a"], o["aa_d"])),
    ("collection then its child ignore", lambda o: o["col"].remove(o["a"], o["aa_d"], errors="ignore")),
    ("child then its collection", lambda o: o["col"].remove(o["aa_d"], o["a"])),
    ("list input", lambda o: o["col"].remove([o["s1"], o["b_d"], o["s2"]])),
    ("tuple input", lambda o: o["col"].remove((o["s2"], o["s1"]))),
    ("same twice", lambda o: o["col"].remove(o["s1"], o["s1"])),
    ("same twice ignore", lambda o: o["col"].remove(o["s1"], o["s1"], errors="ignore")),
    ("outsider", lambda o: o["col"].remove(o["out_s"])),
    ("outsider ignore", lambda o: o["col"].remove(o["out_s"], errors="ignore")),
    ("second unknown", lambda o: o["col"].remove(o["s1"], o["out_s"], o["s2"])),
    ("nothing", lambda o: o["col"].remove()),
    ("bad type", lambda o: o["col"].remove(1)),
    ("bad type in list", lambda o: o["col"].remove([o["s1"], "x"])),
    ("self", lambda o: o["col"].remove(o["col"])),
    ("from sub", lambda o: o["a"].remove(o["aa_e"])),
    ("from sub, sibling branch", lambda o: o["a"].remove(o["b_d"])),
    ("from empty", lambda o: o["empty"].remove(o["s1"], errors="ignore")),
    # objects with their own `==`: the first equal object in search order is removed
    ("eq top", lambda o: o["col"].remove(o["e1"])),
    ("eq deep", lambda o: o["col"].remove(o["aa_e"])),
    ("eq b", lambda o: o["col"].remove(o["b_e"])),
    ("eq outsider equal to member", lambda o: o["col"].remove(o["out_e1"])),
    ("eq outsider equal to deep member", lambda o: o["col"].remove(o["out_e2"])),
    ("eq outsider equal to deep member non recursive", lambda o: o["col"].remove(o["out_e2"], recursive=False)),
    ("eq outsider equal to none", lambda o: o["col"].remove(o["out_e3"])),
    ("eq outsider equal to none ignore", lambda o: o["col"].remove(o["out_e3"], errors="ignore")),
    # the module function itself
    ("rec direct", lambda o: rec_obj_remover(o["col"], o["d1"])),
    ("rec deep", lambda o: rec_obj_remover(o["col"], o["aa_e"])),
    ("rec missing", lambda o: rec_obj_remover(o["col"], o["out_s"])),
    ("rec missing eq", lambda o: rec_obj_remover(o["col"], o["out_e3"])),
    ("rec empty", lambda o: rec_obj_remover(o["empty"], o["s1"])),
    ("rec non collection child arg", lambda o: rec_obj_remover(o["col"], 5)),
    ("rec non iterable parent", lambda o: rec_obj_remover(o["s1"], o["s1"])),
    # parent setter and add(override_parent) use remove
    ("parent none", lambda o: setattr(o["aa_d"], "parent", None)),
    ("parent other", lambda o: setattr(o["aa_d"], "parent", o["out_c"])),
    ("parent sibling", lambda o: setattr(o["aa"], "parent", o["b"])),
    ("parent bad", lambda o: setattr(o["aa_d"], "parent", 3)),
    ("add override", lambda o: o["out_c"].add(o["aa"], o["s1"], override_parent=True)),
    ("add no override", lambda o: o["out_c"].add(o["aa"])),
]

for name, func in CASES:
    o = build()
    attempt(name, lambda: func(o))
    print("   ", state(o["col"]), state(o["a"]), state(o["aa"]), state(o["b"]), state(o["out_c"]))
    print("   ", parents(o))

# copies: removal in the copy must not touch the original and vice versa -------------
o = build()
top = magpy.Collection(o["col"], style_label="top")
cp = o["col"].copy()
print("copy", state(cp), cp.parent, state(o["col"]), o["col"].parent is top)
by_label = {c.style.label: c for c in cp.children_all}
attempt("cp remove deep", lambda: cp.remove(by_label["aa_d_01"] if "aa_d_01" in by_label else by_label["aa_d"]))
print("   ", state(cp), [state(c) for c in cp.collections_all], state(o["col"]), state(o["aa"]))
attempt("cp remove original's object", lambda: cp.remove(o["s1"]))
attempt("orig remove copy's object", lambda: o["col"].remove(cp.children[0]))
print("   ", state(cp), state(o["col"]))
attempt("orig remove", lambda: o["col"].remove(o["a"], o["s2"]))
print("   ", state(cp), state(o["col"]), state(top))
sub_cp = cp.collections[0].copy(parent=cp)
print("copy into copy", state(cp), sub_cp.parent is cp, state(o["col"]))
attempt("detach copy", lambda: setattr(sub_cp, "parent", None))
print("   ", state(cp), sub_cp.parent, links_ok(sub_cp))
child_cp = o["b_d"].copy()
print("child copy", child_cp.parent, state(o["b"]))
attempt("remove child copy from original", lambda: o["col"].remove(child_cp))
print("   ", state(o["col"]), state(o["b"]))
print("B", r(magpy.getB(o["col"], (1, 2, 3))), r(magpy.getB(cp, (1, 2, 3))))
