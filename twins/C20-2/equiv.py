import os, sys; sys.path.insert(0, os.getcwd())
import copy
from types import MappingProxyType

import magpylib as magpy
from magpylib._src.defaults.defaults_utility import get_defaults_dict, update_nested_dict
from magpylib._src.defaults.defaults_values import DEFAULTS
from magpylib._src.defaults.defaults_classes import DefaultSettings
from magpylib._src.style import BaseStyle


def run(label, func):
    try:
        res = func()
    except BaseException as e:  # deterministic digest of the error path
        res = f"EXC {type(e).__name__}: {str(e)[:80]!r}"
    print(f"{label}: {res!r}")


# ---- update_nested_dict ----------------------------------------------------
d0 = {"a": 1, "b": None, "c": {"d": None, "e": 5, "f": {"g": None}}, "h": {"i": 1}}
u0 = {"a": 10, "b": 20, "c": {"d": 30, "e": 50, "f": {"g": 70, "x": 1}, "y": 2}, "h": 7, "z": {"zz": 1}, "w": 3}
for sk in (False, True):
    for rn in (False, True):
        d, u = copy.deepcopy(d0), copy.deepcopy(u0)
        run(f"und sk={sk} rn={rn}", lambda: update_nested_dict(d, u, same_keys_only=sk, replace_None_only=rn))
        run(f"und sk={sk} rn={rn} order", lambda: list(update_nested_dict(d, u, same_keys_only=sk, replace_None_only=rn)))
        print("   inputs untouched:", d == d0, u == u0)
        for dd in (None, 5, "s", [1]):
            run(f"und nonmap d={dd!r} sk={sk} rn={rn}", lambda: update_nested_dict(dd, {"q": {"r": 1}}, same_keys_only=sk, replace_None_only=rn))
run("und positional", lambda: update_nested_dict({"a": None, "b": 1}, {"a": 2, "b": 3, "c": 4}, 1, "yes"))
run("und zero flags", lambda: update_nested_dict({"a": None, "b": 1}, {"a": 2, "b": 3, "c": 4}, 0, ""))
run("und mappingproxy u-value", lambda: update_nested_dict({"a": {"b": 1}}, {"a": MappingProxyType({"b": 2, "c": 3})}))
run("und leaf d-value, mapping u-value", lambda: update_nested_dict({"a": 5, "n": None}, {"a": {"b": 2}, "n": {"k": 1}}, replace_None_only=True))
run("und dict d-value, leaf u-value", lambda: update_nested_dict({"a": {"b": 1}}, {"a": 3}, replace_None_only=True))
run("und new mapping key, same keys", lambda: update_nested_dict({"a": 1}, {"b": {"c": 1}}, same_keys_only=True))
run("und new mapping key", lambda: update_nested_dict({"a": 1}, {"b": {"c": 1}}, same_keys_only=False, replace_None_only=True))
leaf = [1, 2, 3]
sub = {"k": leaf}
d = {"a": {"x": [9]}, "n": None}
u = {"a": {"y": leaf}, "n": sub, "m": sub}
res = update_nested_dict(d, u)
print("alias:", res["a"]["y"] is leaf, res["a"]["x"] is d["a"]["x"], res["n"] is sub, res["n"] == sub, res["m"] is sub, res["m"]["k"] is leaf)
res = update_nested_dict(None, u)
print("alias none:", res is u, res == u, res["n"] is sub)
res = update_nested_dict(7, u, replace_None_only=True)
print("alias nonmap:", res)
run("err u not mapping", lambda: update_nested_dict({"a": 1}, 5))
run("err u not mapping, d None", lambda: update_nested_dict(None, 5))
run("err u not mapping, d leaf kept", lambda: update_nested_dict(3, 5, replace_None_only=True))
run("err u list", lambda: update_nested_dict({"a": 1}, [("a", 2)]))

# ---- get_defaults_dict -----------------------------------------------------
snapshot = copy.deepcopy(DEFAULTS)
full = get_defaults_dict()
print("full:", full == DEFAULTS, full is DEFAULTS, full["display"] is DEFAULTS["display"])
for arg in ("display", "display.style", "display.style.base", "display.style.base.path.line",
            "display.style.magnet.magnetization.color.north", "display.backend",
            "display.colorsequence", "display.animation"):
    sub = get_defaults_dict(arg)
    ref = DEFAULTS
    for key in arg.split("."):
        ref = ref[key]
    mutable = isinstance(sub, (dict, list))
    print(f"gdd {arg}: equal={sub == ref} independent={(sub is not ref) if mutable else 'n/a'} type={type(sub).__name__}")
    if isinstance(sub, dict):
        nested = [k for k, v in sub.items() if isinstance(v, (dict, list))]
        print("    nested independent:", all(sub[k] is not ref[k] for k in nested), sorted(sub)[:4])
print("gdd leaf value:", get_defaults_dict("display.style.base.path.line.width"), get_defaults_dict("display.autosizefactor"))
# mutation of a result never reaches the defaults
got = get_defaults_dict("display.style")
got["base"]["color"] = "mutated"
got["magnet"]["magnetization"]["color"]["north"] = "mutated"
cs = get_defaults_dict("display.colorsequence")
print("colorsequence same tuple:", cs is DEFAULTS["display"]["colorsequence"])
print("defaults intact:", DEFAULTS == snapshot, get_defaults_dict("display.style.base.color"))
run("gdd err missing", lambda: get_defaults_dict("display.nope"))
run("gdd err missing first", lambda: get_defaults_dict("nope.style"))
run("gdd err through leaf", lambda: get_defaults_dict("display.backend.x"))
run("gdd err through None leaf", lambda: get_defaults_dict("display.style.base.color.x"))
run("gdd err empty", lambda: get_defaults_dict(""))
run("gdd err type", lambda: get_defaults_dict(5))

# ---- DefaultSettings.reset -------------------------------------------------
defaults = magpy.defaults
ref_flat = defaults.as_dict(flatten=True)
defaults.display.style.base.color = "red"
defaults.display.style.magnet.update(magnetization_color_north="blue", magnetization={"show": False})
defaults.display.backend = "plotly"
defaults.display.animation.fps = 7
defaults.display.colorsequence = ["r", "g"]
defaults.display.style.base.label = "unset by default"
changed = defaults.as_dict(flatten=True)
print("changed:", sorted(k for k in ref_flat if ref_flat[k] != changed[k]))
display_before = defaults.display
ret = defaults.reset()
print("reset:", ret is defaults, defaults.as_dict(flatten=True) == ref_flat, defaults.display is display_before)
print("reset twice:", defaults.reset().reset() is defaults, defaults.as_dict(flatten=True) == ref_flat)
fresh = DefaultSettings()
print("fresh:", fresh.as_dict(flatten=True) == ref_flat, fresh.display is not defaults.display)
fresh.display.style.sensor.size = 9
print("independent:", defaults.display.style.sensor.size, fresh.reset().display.style.sensor.size)
flat = defaults.as_dict(flatten=True, separator="_")
print(len(flat), [(k, flat[k]) for k in sorted(flat)][::15])

# ---- through the style classes --------------------------------------------
s = BaseStyle(path_line_width=2, path={"marker_size": 3}, color="r")
s.update({"path_line": {"style": "--"}}, path_marker_symbol="x", opacity=0.5)
s.update(path_line_width=None, _replace_None_only=True, color="blue", label="L")
print(s.as_dict(flatten=True))
s.update(bad_key=1, path_bad=2, label="M", _match_properties=False)
print(s.as_dict(flatten=True))
run("style bad key", lambda: s.update(bad_key=1))
run("style bad nested key", lambda: s.update(path_bad=1))
magpy.defaults.reset()
