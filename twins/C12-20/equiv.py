import os, sys; sys.path.insert(0, os.getcwd())
import hashlib
import re
import warnings

import numpy as np

import magpylib as magpy
from magpylib.magnet import TriangularMesh

np.set_printoptions(precision=10, linewidth=200)


def clean(text):
    text = re.sub(r"id=\d+", "id=N", str(text))
    text = re.sub(r"0x[0-9a-f]+", "0xN", text)
    return text.replace("\n", " | ")


def show(tag, res):
    if isinstance(res, np.ndarray):
        flags = (res.flags["C_CONTIGUOUS"], res.flags["F_CONTIGUOUS"], res.flags["OWNDATA"])
        h = hashlib.sha256(np.ascontiguousarray(res).tobytes()).hexdigest()[:16]
        print(tag, "ndarray", res.shape, res.dtype, flags, h, res.tolist() if res.size < 40 else "")
    else:
        print(tag, "->", type(res).__name__, clean(repr(res)))


def attempt(tag, func):
    with warnings.catch_warnings(record=True) as rec:
        warnings.simplefilter("always")
        try:
            show(tag, func())
        except Exception as err:  # pylint: disable=broad-except
            cause = type(err.__cause__).__name__ if err.__cause__ is not None else None
            print(tag, "EXC", type(err).__name__, clean(err)[:400], "| cause:", cause)
    for w in rec:
        print("   WARN", w.category.__name__, os.path.basename(w.filename), clean(w.message)[:200])


cube_v = (
    np.array(
        [(0, 0, 0), (1, 0, 0), (1, 1, 0), (0, 1, 0), (0, 0, 1), (1, 0, 1), (1, 1, 1), (0, 1, 1)],
        dtype=float,
    )
    - 0.5
)
cube_f = np.array(
    [
        (0, 2, 1), (0, 3, 2), (4, 5, 6), (4, 6, 7), (0, 1, 5), (0, 5, 4),
        (2, 3, 7), (2, 7, 6), (1, 2, 6), (1, 6, 5), (0, 4, 7), (0, 7, 3),
    ]
)
tet_v = np.array([(0, 0, 0), (1, 0, 0), (0, 1, 0), (0, 0, 1)], dtype=float)
tet_f = np.array([(0, 2, 1), (0, 1, 3), (1, 2, 3), (0, 3, 2)])
obs = np.array([(0.1, 0.2, 0.3), (0.4, -0.4, 0.1), (2, 2, 2), (0.5, 0.5, 0.5)])


def describe(src):
    show("    vertices", src.vertices)
    show("    faces", src.faces)
    print("    status", src.status_open, src.status_disconnected, src.status_selfintersecting, src.status_reoriented)


print("== _validate_mode_arg")
vals = [
    True, False, "warn", "raise", "ignore", "skip", 1, 0, 1.0, 0.0, np.True_, np.False_,
    np.int64(1), np.float32(0), 1 + 0j, "Warn", "", None, 2, -1, "skipp", (), [], b"warn",
    np.array(True), np.array([True]), np.array([1, 0]), np.array(["warn"]), np.array("warn"),
    np.nan, {"a": 1}, ("warn",), "True",
]
for val in vals:
    def call():
        res = TriangularMesh._validate_mode_arg(val)
        return (type(res).__name__, res, res is val)

    attempt(f"mode {type(val).__name__} {val!r}", call)
attempt("mode name kw", lambda: TriangularMesh._validate_mode_arg("x", arg_name="my arg"))
attempt("mode name pos", lambda: TriangularMesh._validate_mode_arg("x", "my arg"))
attempt("mode via instance", lambda: TriangularMesh(vertices=tet_v, faces=tet_f, polarization=(0, 0, 1))._validate_mode_arg(True))

print("== _input_check via constructor")
kw = dict(polarization=(0.1, 0.2, 0.3))
def ctor(**over):
    def build():
        src = TriangularMesh(**{**kw, **over})
        describe(src)
        return src.getB(obs)
    return build

attempt("ok arrays", ctor(vertices=cube_v, faces=cube_f))
attempt("ok lists", ctor(vertices=cube_v.tolist(), faces=cube_f.tolist()))
attempt("ok tuples", ctor(vertices=tuple(map(tuple, tet_v)), faces=tuple(map(tuple, tet_f))))
attempt("ok float faces", ctor(vertices=tet_v, faces=tet_f.astype(float)))
attempt("ok float faces frac", ctor(vertices=tet_v, faces=tet_f + 0.7))
attempt("ok negative idx", ctor(vertices=tet_v, faces=tet_f - 4))
attempt("ok int verts", ctor(vertices=(tet_v * 2).astype(int), faces=tet_f))
attempt("E no vertices", ctor(faces=tet_f))
attempt("E no faces", ctor(vertices=tet_v))
attempt("E neither", ctor())
attempt("E idx too large", ctor(vertices=tet_v, faces=tet_f + 1))
attempt("E idx too negative", ctor(vertices=tet_v, faces=tet_f - 5))
attempt("E verts (n,2)", ctor(vertices=tet_v[:, :2], faces=tet_f))
attempt("E verts 1d", ctor(vertices=(1, 2, 3), faces=tet_f))
attempt("E verts 3d", ctor(vertices=cube_v[cube_f], faces=tet_f))
attempt("E faces (n,4)", ctor(vertices=tet_v, faces=np.c_[tet_f, tet_f[:, 0]]))
attempt("E faces 1d", ctor(vertices=tet_v, faces=(0, 1, 2)))
attempt("E faces str", ctor(vertices=tet_v, faces="abc"))
attempt("E verts str", ctor(vertices="abc", faces=tet_f))
attempt("E faces nan", ctor(vertices=tet_v, faces=tet_f * np.nan))
attempt("E empty faces", ctor(vertices=tet_v, faces=np.zeros((0, 3))))
attempt("E empty verts", ctor(vertices=np.zeros((0, 3)), faces=tet_f))
attempt("E both bad", ctor(vertices=(1, 2, 3), faces=(0, 1)))

print("== from_mesh / from_triangles / from_ConvexHull at several length units")
rng = np.random.default_rng(3)
cloud = rng.uniform(-1, 1, (12, 3))
for scale in (1e-9, 1e-3, 1.0, 1e6):
    mesh = (cube_v * scale)[cube_f]

    def fm():
        src = TriangularMesh.from_mesh(mesh=mesh, polarization=(0.1, 0.2, 0.3))
        describe(src)
        return src.getB(obs * scale)

    def fm_list():
        src = TriangularMesh.from_mesh(mesh=mesh.tolist(), polarization=(0.1, 0.2, 0.3), reorient_faces=False)
        describe(src)
        return src.getH(obs * scale)

    def ft():
        trias = [magpy.misc.Triangle(vertices=v, polarization=(9, 9, 9)) for v in mesh[::-1]]
        src = TriangularMesh.from_triangles(triangles=trias, polarization=(0.1, 0.2, 0.3))
        describe(src)
        return src.getB(obs * scale)

    def ft_coll():
        trias = magpy.Collection([magpy.misc.Triangle(vertices=v, polarization=(9, 9, 9)) for v in mesh])
        src = TriangularMesh.from_triangles(triangles=trias, magnetization=(1e5, 2e5, 3e5), position=(scale, 0, 0))
        describe(src)
        return src.getB(obs * scale)

    def fch():
        src = TriangularMesh.from_ConvexHull(points=cloud * scale, polarization=(0.1, 0.2, 0.3))
        describe(src)
        return src.getB(obs * scale)

    attempt(f"from_mesh {scale:g}", fm)
    attempt(f"from_mesh list {scale:g}", fm_list)
    attempt(f"from_triangles {scale:g}", ft)
    attempt(f"from_triangles coll {scale:g}", ft_coll)
    attempt(f"from_ConvexHull {scale:g}", fch)

print("== from_* special / error paths")
mesh = cube_v[cube_f]
attempt("from_mesh open", lambda: TriangularMesh.from_mesh(mesh=mesh[:-1], polarization=(0, 0, 1)).status_open)
attempt("from_mesh float32", lambda: TriangularMesh.from_mesh(mesh=mesh.astype(np.float32), polarization=(0, 0, 1)).getB(obs))
attempt("from_mesh int", lambda: TriangularMesh.from_mesh(mesh=(mesh * 2).astype(int), polarization=(0, 0, 1)).getB(obs))
attempt("from_mesh near-duplicate verts", lambda: TriangularMesh.from_mesh(mesh=mesh + rng.uniform(0, 1e-17, mesh.shape), polarization=(0, 0, 1)).vertices)
attempt("from_mesh modes", lambda: TriangularMesh.from_mesh(mesh=mesh[:-1], polarization=(0, 0, 1), check_open="raise"))
attempt("from_mesh bad mode", lambda: TriangularMesh.from_mesh(mesh=mesh, polarization=(0, 0, 1), check_disconnected="no"))
attempt("E from_mesh None", lambda: TriangularMesh.from_mesh(polarization=(0, 0, 1)))
attempt("E from_mesh (n,3)", lambda: TriangularMesh.from_mesh(mesh=cube_v, polarization=(0, 0, 1)))
attempt("E from_mesh (n,3,2)", lambda: TriangularMesh.from_mesh(mesh=mesh[:, :, :2], polarization=(0, 0, 1)))
attempt("E from_mesh (n,4,3)", lambda: TriangularMesh.from_mesh(mesh=np.concatenate([mesh, mesh[:, :1]], axis=1), polarization=(0, 0, 1)))
attempt("E from_mesh empty", lambda: TriangularMesh.from_mesh(mesh=np.zeros((0, 3, 3)), polarization=(0, 0, 1)))
attempt("E from_mesh str", lambda: TriangularMesh.from_mesh(mesh="mesh", polarization=(0, 0, 1)))
attempt("E from_triangles None", lambda: TriangularMesh.from_triangles(polarization=(0, 0, 1)))
attempt("E from_triangles tuple", lambda: TriangularMesh.from_triangles(triangles=(magpy.misc.Triangle(vertices=mesh[0]),), polarization=(0, 0, 1)))
attempt("E from_triangles mixed", lambda: TriangularMesh.from_triangles(triangles=[magpy.misc.Triangle(vertices=mesh[0]), magpy.Sensor()], polarization=(0, 0, 1)))
attempt("E from_triangles empty", lambda: TriangularMesh.from_triangles(triangles=[], polarization=(0, 0, 1)))
attempt("E from_triangles no verts", lambda: TriangularMesh.from_triangles(triangles=[magpy.misc.Triangle()], polarization=(0, 0, 1)))
attempt("E from_triangles one", lambda: TriangularMesh.from_triangles(triangles=[magpy.misc.Triangle(vertices=mesh[0])], polarization=(0, 0, 1)).status_open)
attempt("E from_ConvexHull None", lambda: TriangularMesh.from_ConvexHull(polarization=(0, 0, 1)))


def flat_hull():
    # the Qhull message contains a random run-id -> report the exception type only
    try:
        return TriangularMesh.from_ConvexHull(points=cube_v[:4], polarization=(0, 0, 1))
    except Exception as err:  # pylint: disable=broad-except
        return "raised " + type(err).__name__


attempt("E from_ConvexHull flat", flat_hull)
