import os, sys; sys.path.insert(0, os.getcwd())
import re
import warnings

import numpy as np

import magpylib as magpy

TM = magpy.magnet.TriangularMesh
SKIP = dict(check_open="skip", check_disconnected="skip", check_selfintersecting="skip", reorient_faces="skip")


def dig(r):
    if isinstance(r, np.ndarray):
        return f"ARR {r.dtype} {r.shape} {np.round(r, 9).tolist()}"
    if isinstance(r, tuple):
        return "(" + ", ".join(dig(x) for x in r) + ")"
    return f"RET {type(r).__name__} {r!r}"


def run(f):
    with warnings.catch_warnings(record=True) as w:
        warnings.simplefilter("always")
        try:
            out = dig(f())
        except Exception as e:  # pylint: disable=broad-except
            out = f"EXC {type(e).__name__}: {e} | cause={type(e.__cause__).__name__}"
        wtxt = sorted({f"{x.category.__name__}:{str(x.message)[:60]}" for x in w})
    return re.sub(r"0x[0-9a-f]+|id=\d+", "ADDR", out + (f" | warn={wtxt}" if wtxt else ""))


V4 = [(0, 0, 0), (1, 0, 0), (0, 1, 0), (0, 0, 1)]
F4 = [(0, 1, 2), (0, 1, 3), (0, 2, 3), (1, 2, 3)]

vertex_values = [
    None, 1, 1.5, "abc", (), [], [[]], (1, 2, 3), [(1, 2, 3)], [(1, 2)] * 4, [(1, 2, 3, 4)] * 4, V4, tuple(V4),
    np.array(V4), np.array(V4, dtype=np.float32), np.array(V4, dtype=int), [[V4]], [(0, 0, 0), (1, 0, 0), (0, 1, "a")],
    [(0, 0, 0), (1, 0, 0), (0, 1)], V4 + [(1, 1, 1)], V4[:3], {1, 2, 3}, np.array(V4, dtype=object),
    [("0", "0", "0"), ("1", "0", "0"), ("0", "1", "0"), ("0", "0", "1")], np.array(V4)[:, ::-1], np.array(5.0),
]
face_values = [
    None, 1, "abc", (), [], [[]], (0, 1, 2), [(0, 1, 2)], [(0, 1)] * 4, F4, tuple(F4), np.array(F4),
    np.array(F4, dtype=float), np.array(F4, dtype=np.uint8), [(0, 1, 4)], [(0, 1, -1)], [(0, 1, -4)], [(0, 1, -5)],
    [(0.9, 1.9, 2.9)], [(0, 1, 2.5)] + F4, [(0, 1, "x")], [(0, 1, None)], [[F4]], [(0, 1, 1e3)], F4 + [(3, 3, 3)],
    [(0, 1, 2), (0, 1)], np.array(F4).T[:3],
]

# 1) the private check itself on an existing object (full grid)
base = TM(vertices=V4, faces=F4, polarization=(0, 0, 1))
for v in vertex_values:
    for f in face_values:
        print("_input_check", repr(v)[:70], "|", repr(f)[:70], "->", run(lambda: base._input_check(v, f)))

# 2) through the constructor: value stored, read back, copies
for v in vertex_values:
    for f in [None, F4, np.array(F4), [(0, 1, 4)], "abc"]:
        def make():
            m = TM(vertices=v, faces=f, polarization=(0, 0, 1), **SKIP)
            return m.vertices, m.faces, m.mesh
        print("ctor", repr(v)[:70], "|", repr(f)[:40], "->", run(make))
for f in face_values:
    def make2():
        m = TM(vertices=V4, faces=f, polarization=(0, 0, 1), **SKIP)
        return m.vertices, m.faces
    print("ctor V4 |", repr(f)[:70], "->", run(make2))

# 3) independence from caller arrays + default checks + field computation
va, fa = np.array(V4, dtype=float), np.array(F4)
m = TM(vertices=va, faces=fa, polarization=(0.1, 0.2, 0.3))
print("shares:", np.shares_memory(m.vertices, va), np.shares_memory(m.faces, fa))
va[0] = 99
fa[0] = 3
print("after caller mutation:", dig(m.vertices), dig(m.faces))
print("getB:", run(lambda: m.getB((0.2, 0.3, 0.4))), "getH:", run(lambda: m.getH([(2, 2, 2), (0.1, 0.1, 0.1)])))
print("status:", m.status_open, m.status_disconnected, m.status_reoriented)

# 4) error ordering: both missing / both malformed / first missing second malformed ...
for v, f in [(None, None), (None, "abc"), ("abc", None), ("abc", "abc"), ([(1, 2)], [(1, 2)]), (V4, [(0, 1, 9)]), ([(1, 2)], [(0, 1, 9)])]:
    print("order", repr(v)[:30], repr(f)[:30], run(lambda: TM(vertices=v, faces=f, polarization=(0, 0, 1))))

# 5) other constructors funnel through the same check
tri = np.array(V4)[np.array(F4)]
print("from_mesh:", run(lambda: TM.from_mesh(mesh=tri, polarization=(0, 0, 1)).faces))
print("from_mesh bad:", run(lambda: TM.from_mesh(mesh=tri[:, :2], polarization=(0, 0, 1)).faces))
print("from_ConvexHull:", run(lambda: TM.from_ConvexHull(points=V4 + [(0.1, 0.1, 0.1)], polarization=(0, 0, 1)).vertices))
trias = [magpy.misc.Triangle(vertices=t, polarization=(0, 0, 1)) for t in tri]
print("from_triangles:", run(lambda: TM.from_triangles(triangles=trias, polarization=(0, 0, 1)).vertices))
