import os, sys; sys.path.insert(0, os.getcwd())
import re

import magpylib as magpy
from magpylib._src.style import BaseStyle, CurrentStyle, MagnetStyle, SensorStyle
from magpylib._src.style import TriangleStyle, TriangularMeshStyle


def run(label, func):
    try:
        res = func()
    except BaseException as e:  # deterministic digest of the error path
        msg = re.sub(r"id=\d+", "id=N", str(e))[:220]
        res = f"EXC {type(e).__name__}: {msg!r}"
    print(f"{label}: {res}")


def digest(style):
    flat = style.as_dict(flatten=True, separator="_")
    return type(style).__name__, [(k, flat[k]) for k in sorted(flat) if not (flat[k] is None or flat[k] == [])]


def cub(**kw):
    return magpy.magnet.Cuboid(polarization=(0, 0, 1), dimension=(1, 1, 1), **kw)


class DictSub(dict):
    """a dict subclass is a style dictionary too"""


class MagnetSub(MagnetStyle):
    """an instance of a subclass of the style class is accepted (and ignored)"""


# ---- the setter on every object class ------------------------------------------
objs = [
    cub(),
    magpy.current.Circle(current=1, diameter=1),
    magpy.Sensor(),
    magpy.misc.Dipole(moment=(1, 2, 3)),
    magpy.misc.Triangle(polarization=(0, 0, 1), vertices=[(0, 0, 0), (1, 0, 0), (0, 1, 0)]),
    magpy.magnet.TriangularMesh.from_ConvexHull(
        polarization=(0, 0, 1), points=[(0, 0, 0), (1, 0, 0), (0, 1, 0), (0, 0, 1)]
    ),
    magpy.misc.CustomSource(),
    magpy.Collection(),
]
for obj in objs:
    name = type(obj).__name__
    print("=====", name, obj._style_class.__name__)
    print("no style yet:", getattr(obj, "_style", None) is None)
    obj.style = {"color": "blue", "path_line_width": 4, "label": "L"}
    first = obj.style
    path = first.path
    print("dict:", digest(obj.style), obj._style is first)
    obj.style = {"path": {"marker": {"size": 7}}, "opacity": 0.5}
    print("nested dict adds:", digest(obj.style), obj.style is first, obj.style.path is path)
    path = obj.style.path
    obj.style = None
    print("None:", digest(obj.style), obj.style is first, obj.style.path is path)
    path = obj.style.path
    obj.style = {}
    print("empty dict:", digest(obj.style), obj.style is first, obj.style.path is path)
    obj.style = DictSub(color="g")
    print("dict subclass:", digest(obj.style), obj.style is first)
    other = obj._style_class(color="yellow", label="other")
    obj.style = other
    print("style instance is not taken over:", digest(obj.style), obj.style is first, obj.style is other)
    run("int", lambda: setattr(obj, "style", 3))
    run("str", lambda: setattr(obj, "style", "color"))
    run("list", lambda: setattr(obj, "style", [("color", "r")]))
    run("False", lambda: setattr(obj, "style", False))
    run("class instead of instance", lambda: setattr(obj, "style", obj._style_class))
    run("bad key", lambda: setattr(obj, "style", {"nope": 1}))
    run("bad nested key", lambda: setattr(obj, "style", {"path": {"nope": 1}}))
    run("bad value", lambda: setattr(obj, "style", {"opacity": -1}))
    run("bad color", lambda: setattr(obj, "style", {"color": "nocolor"}))
    run("partly applied", lambda: setattr(obj, "style", {"label": "changed", "opacity": 2}))
    print("after errors:", digest(obj.style), obj.style is first)
    for cls in (BaseStyle, MagnetStyle, CurrentStyle, SensorStyle, TriangleStyle, TriangularMeshStyle, MagnetSub):
        run(f"instance of {cls.__name__}", lambda: setattr(obj, "style", cls()))
    print("unchanged:", digest(obj.style), obj.style is first)

# ---- the property object itself ---------------------------------------------------
print("style property:", type(type(objs[0]).style).__name__, type(objs[0]).style.fset is not None,
      type(objs[0]).style.fdel, (type(objs[0]).style.__doc__ or "").strip()[:40])

# ---- interplay with arguments given at init (applied lazily) ---------------------------
lazy = magpy.Sensor(style_size=5)
lazy.style = {"color": "red"}
print("setter flushes pending first:", digest(lazy.style), lazy._style_kwargs)
lazy2 = magpy.Sensor(style_size=5, style_color="blue")
lazy2.style = {"color": "red"}
print("setter wins over init:", digest(lazy2.style))
lazy3 = magpy.Sensor(style_size=5)
lazy3.style = None
print("None flushes pending:", digest(lazy3.style), lazy3._style_kwargs)
lazy4 = magpy.Sensor(style_size=5)
lazy4.style = SensorStyle(size=9)
print("instance flushes pending:", digest(lazy4.style), lazy4._style_kwargs)
lazy5 = magpy.Sensor(style_size=5)
run("wrong type still flushes pending", lambda: setattr(lazy5, "style", 1))
print("   pending:", lazy5._style_kwargs, lazy5._style is not None)
bad = cub(style_opacity=3, style_label="x")
for val in ({"color": "r"}, None, MagnetStyle(), 5):
    run(f"setter on object with invalid init arguments ({type(val).__name__})", lambda: setattr(bad, "style", val))
    print("   still pending:", bad._style_kwargs)
bad2 = magpy.Sensor(style_nope=1)
run("setter on object with invalid init name", lambda: setattr(bad2, "style", {"color": "r"}))
run("setter on object with invalid init name, wrong type", lambda: setattr(bad2, "style", 5))

# ---- last assignment wins, all notations ----------------------------------------------
s = magpy.Sensor(style={"color": "k"}, style_label="init")
s.style = {"color": "blue", "pixel_size": 4}
s.style.update(color="g")
s.style = dict(label="last")
s.style.pixel.size = 2
print("sequence:", digest(s.style))
s.style = {"pixel": {"size": 3}, "pixel_color": "r"}
print("sequence 2:", digest(s.style))

# ---- styles of objects and copies stay independent ---------------------------------------
a, b = cub(), cub()
shared = {"path": {"line": {"width": 3}}, "color": "r"}
a.style = shared
b.style = shared
a.style.path.line.width = 9
shared["color"] = "b"
print("independent:", digest(a.style), digest(b.style), shared)
c = a.copy()
c.style = {"color": "m"}
print("copy:", digest(a.style), digest(c.style))
a.style = b.style
print("assigning another object's style:", digest(a.style), a.style is b.style)

# ---- end to end: show kwarg > object > defaults ---------------------------------------------
from magpylib._src.style import get_style

a.style = {"color": "orange", "opacity": 0.3}
print("resolved:", [(k, v) for k, v in digest(get_style(a, magpy.defaults, style_opacity=0.9))[1] if k in ("color", "opacity", "magnetization_arrow_width")])
