import os, sys; sys.path.insert(0, os.getcwd())
import numpy as np

import magpylib as magpy
from magpylib._src.style import BaseStyle, MagnetizationColor, MagnetStyle


def run(label, func):
    try:
        res = func()
    except BaseException as e:
        res = f"EXC {type(e).__name__}: {str(e)[:200]!r}"
    print(f"{label}: {res!r}")


class F(float):
    pass


VALUES = [
    None, 0, 1, 0.0, 1.0, 0.5, True, False, -0.0, 1e-300, 1 - 1e-16,
    np.float64(0.25), np.float64(1.5), np.int64(1), np.float32(0.5), F(0.3), F(3),
    -1, 2, 1.0000001, -1e-12, float("nan"), float("inf"), -float("inf"),
    "0.5", "", (0.5,), [0.5], {}, 1j, b"1", np.array(0.5), np.array([0.5]), object,
]

for i, v in enumerate(VALUES):
    def set_opacity(v=v):
        s = BaseStyle()
        s.opacity = v
        return (type(s.opacity).__name__, s.opacity is v, repr(s.opacity))

    def set_opacity_init(v=v):
        s = BaseStyle(opacity=v)
        return (type(s.opacity).__name__, s.opacity is v)

    def set_transition(v=v):
        c = MagnetizationColor()
        c.transition = v
        return (type(c.transition).__name__, c.transition is v, repr(c.transition))

    def set_transition_magic(v=v):
        s = MagnetStyle(magnetization_color_transition=v)
        return repr(s.magnetization.color.transition)

    run(f"opacity[{i}]", set_opacity)
    run(f"opacity_init[{i}]", set_opacity_init)
    run(f"transition[{i}]", set_transition)
    run(f"transition_magic[{i}]", set_transition_magic)

# the failed assignment leaves the old value in place
s = BaseStyle(opacity=0.3)
run("keep", lambda: setattr(s, "opacity", 7))
print("after failed set:", s.opacity)

# through objects, defaults and show-level resolution
cube = magpy.magnet.Cuboid(polarization=(0, 0, 1), dimension=(1, 1, 1), style_opacity=0.4)
run("obj", lambda: cube.style.opacity)
run("obj_bad", lambda: magpy.magnet.Cuboid(polarization=(0, 0, 1), dimension=(1, 1, 1), style_opacity=1.4).style.opacity)
run("obj_update_bad", lambda: cube.style.update(magnetization_color_transition=-0.1))
run("obj_update", lambda: cube.style.update(magnetization_color_transition=0).magnetization.color.transition)
run("defaults_bad", lambda: setattr(magpy.defaults.display.style.base, "opacity", "1"))
run("defaults", lambda: magpy.defaults.display.style.update(base_opacity=0.7, magnet_magnetization_color_transition=1).base.opacity)
from magpylib._src.style import get_style
run("resolved", lambda: (get_style(cube, magpy.defaults, style_opacity=1).opacity, get_style(cube, magpy.defaults).opacity))
run("resolved_bad", lambda: get_style(cube, magpy.defaults, style_opacity=-1).opacity)
magpy.defaults.reset()
run("reset", lambda: (magpy.defaults.display.style.base.opacity, magpy.defaults.display.style.magnet.magnetization.color.transition))
