import os, sys; sys.path.insert(0, os.getcwd())
import numpy as np

import magpylib as magpy
from magpylib._src import style as st
from magpylib._src.style import get_style


def run(label, func):
    try:
        res = func()
    except BaseException as e:
        res = f"EXC {type(e).__name__}: {str(e)[:200]!r}"
    print(f"{label}: {res!r}")


class F(float):
    pass


VALUES = [
    None, 0, 1, 3, 0.0, -0.0, 2.5, True, False, 1e300, float("inf"),
    np.float64(0.25), np.int64(2), np.float32(0.5), F(0.3), F(-3),
    -1, -1e-300, float("nan"), -float("inf"),
    "1", "", (1,), [1], {}, 1j, np.array(1.0), np.array([1.0, 2.0]), len,
]

# (class, attribute): the six leaves that now share the validator, plus subclasses / the untouched Pixel.size
SITES = [
    (st.Line, "width"), (st.Arrow, "width"), (st.CurrentLine, "width"),
    (st.Orientation, "size"), (st.DefaultSensor, "size"), (st.SensorStyle, "size"),
    (st.Arrow, "size"), (st.Marker, "size"), (st.DefaultDipole, "size"), (st.DipoleStyle, "size"),
    (st.Pixel, "size"),
]

for cls, attr in SITES:
    for i, v in enumerate(VALUES):
        def by_attr(v=v):
            o = cls()
            setattr(o, attr, v)
            got = getattr(o, attr)
            return (type(got).__name__, got is v, repr(got))

        def by_init(v=v):
            got = getattr(cls(**{attr: v}), attr)
            return (type(got).__name__, got is v)

        def by_update(v=v):
            got = getattr(cls().update({attr: v}), attr)
            return (type(got).__name__, got is v)

        run(f"{cls.__name__}.{attr}[{i}] attr", by_attr)
        run(f"{cls.__name__}.{attr}[{i}] init", by_init)
        run(f"{cls.__name__}.{attr}[{i}] update", by_update)

# a rejected value leaves the old one in place
m = st.Marker(size=3)
run("keep", lambda: setattr(m, "size", -3))
print("after failed set:", m.size)

# nested notations, objects, defaults, resolution, reset
sens = magpy.Sensor(style_size=2, style_arrows_x_color="r")
loop = magpy.current.Circle(current=1, diameter=1, style={"arrow": {"size": 2, "width": 3}})
dip = magpy.misc.Dipole(moment=(0, 0, 1))
dip.style.size = 4
run("objs", lambda: (sens.style.size, loop.style.arrow.size, loop.style.arrow.width, dip.style.size))
run("obj_bad1", lambda: magpy.Sensor(style_size=-2).style.size)
run("obj_bad2", lambda: loop.style.update(arrow_width="3"))
run("obj_bad3", lambda: loop.style.update(line_width=-1))
run("obj_bad4", lambda: magpy.misc.Dipole(moment=(0, 0, 1), style={"size": [1]}).style)
run("path_marker", lambda: magpy.magnet.Sphere(polarization=(0, 0, 1), diameter=1, style_path_marker_size=-1).style)
run("triangle", lambda: magpy.misc.Triangle(polarization=(0, 0, 1), vertices=((0, 0, 0), (1, 0, 0), (0, 1, 0)), style_orientation_size=-1).style)
run("defaults_bad", lambda: magpy.defaults.display.style.update(dipole_size=-1))
run("defaults", lambda: magpy.defaults.display.style.update(dipole_size=5, sensor_size=0, current_arrow_width=7, markers_marker_size=9).dipole.size)
run("resolved", lambda: (get_style(dip, magpy.defaults).size, get_style(sens, magpy.defaults, style_size=8).size,
                         get_style(magpy.misc.Dipole(moment=(0, 0, 1)), magpy.defaults).size,
                         get_style(loop, magpy.defaults).arrow.width, get_style(magpy.current.Polyline(), magpy.defaults).arrow.width))
run("resolved_bad", lambda: get_style(sens, magpy.defaults, style_size=-8).size)
magpy.defaults.reset()
ds = magpy.defaults.display.style
run("reset", lambda: (ds.dipole.size, ds.sensor.size, ds.current.arrow.width, ds.markers.marker.size))
