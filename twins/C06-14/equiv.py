import os, sys; sys.path.insert(0, os.getcwd())
import hashlib
import re
import warnings

import numpy as np

import magpylib as magpy

warnings.simplefilter("ignore")


def dig(name, arr):
    arr = np.ascontiguousarray(np.asarray(arr, dtype=float))
    h = hashlib.sha256(arr.tobytes()).hexdigest()[:16]
    print(name, arr.shape, h, np.round(arr.ravel()[:4], 12).tolist())


def attempt(name, func, *args, **kwargs):
    try:
        res = func(*args, **kwargs)
        print(name, "ok", np.shape(res))
    except Exception as err:  # pylint: disable=broad-except
        msg = re.sub(r"id=\d+|0x[0-9a-fA-F]+", "ID", str(err).replace("\n", " "))
        print(name, type(err).__name__, msg[:60], "...", msg[-60:])


verts = [(0, 0, 0), (1, 0, 0), (0, 1, 0), (0, 0, 1)]


def make():
    cub = magpy.magnet.Cuboid(polarization=(0.1, 0.2, 0.3), dimension=(1, 2, 3))
    cub.move([(0.1 * i, 0, 0) for i in range(1, 4)])  # length 4
    cub2 = magpy.magnet.Cuboid(
        polarization=(0.3, 0.0, 0.1), dimension=(1, 1, 1), position=(0, -4, 0)
    )
    cyl = magpy.magnet.Cylinder(
        polarization=(0.3, 0.2, 0.1), dimension=(1, 2), position=(0, 3, 0)
    )
    circ = magpy.current.Circle(current=2.5, diameter=1.5, position=(0, 0, -2))
    circ.rotate_from_angax([5, 7], "x", start=1)  # length 3
    dip = magpy.misc.Dipole(moment=(1, 2, 3), position=(0, -3, 0))
    line = magpy.current.Polyline(current=1.5, vertices=verts, position=(4, 0, 0))
    line2 = magpy.current.Polyline(current=0.5, vertices=verts[:2], position=(4, 4, 0))
    mesh = magpy.magnet.TriangularMesh.from_ConvexHull(
        polarization=(0, 0, 0.4), points=verts, position=(-4, 0, 0)
    )
    return cub, cub2, cyl, circ, dip, line, line2, mesh


cub, cub2, cyl, circ, dip, line, line2, mesh = make()

sens = magpy.Sensor(pixel=[(0, 0, 0), (0.1, 0.2, 0.3)], position=(2, 2, 2))
sens.rotate_from_angax([10, 20], "z")  # length 3
sens2 = magpy.Sensor(pixel=[(0, 0, 0), (0.1, 0.2, 0.3)], position=(-1, 1, 2))
obs = [sens, sens2]

c_two = magpy.Collection(cub, circ)  # children of different classes
c_one = magpy.Collection(dip)  # a single child: nothing to delete
c_lines = magpy.Collection(line, line2, mesh)  # ragged polylines and a mesh
c_inner = magpy.Collection(cyl)
c_nested = magpy.Collection(c_inner, cub2, magpy.Sensor())  # nested, with a sensor
c_nested.move([(0, 0, 0.2), (0, 0, 0.4)])


def children_sum(col, observers, func):
    kids = magpy._src.utility.format_obj_input(col, allow="sources")
    each = func(kids, observers, squeeze=False)
    return np.sum(each, axis=0)


configs = {
    "col_first": [c_two, dip],
    "col_last": [dip, c_two],
    "col_middle": [cyl, c_two, cub2],
    "only_col": [c_two],
    "bare_col": c_two,
    "two_cols": [c_two, c_lines],
    "cols_between": [cub2, c_lines, cyl, c_nested, dip],
    "one_child_and_more": [c_one, c_lines],
    "only_one_child_cols": [c_one, c_inner],  # flattened list not longer: block skipped
    "same_col_twice": [c_two, cub2, c_two],
    "col_and_own_child": [cub, c_two, circ],
    "nested": [c_nested, c_one, c_two],
    "all": [c_lines, cub2, c_nested, c_one, cyl, c_two, dip, c_two],
}

for name, srcs in configs.items():
    for fname, func in (("B", magpy.getB), ("H", magpy.getH)):
        out = func(srcs, obs, squeeze=False)
        dig(f"{name}/{fname}", out)
        # every output row is the field of that entry alone
        lst = srcs if isinstance(srcs, list) else [srcs]
        flags = []
        for i, entry in enumerate(lst):
            alone = func(entry, obs, squeeze=False)
            m = alone.shape[1]
            same = bool(np.all(alone[0] == out[i, :m]))
            if isinstance(entry, magpy.Collection):
                tot = children_sum(entry, obs, func)
                # (sensor rotation is applied after the summation: only close, not equal)
                ref = out[i, : tot.shape[0]]
                same = same and bool(np.allclose(tot, ref, rtol=1e-10, atol=1e-16))
            flags.append(same)
        print("  rows", flags)

# squeeze, sumup, pixel_agg, dataframe and object methods with collections
dig("squeeze", magpy.getB([c_two, c_lines], sens))
dig("sumup", magpy.getB(configs["all"], obs, sumup=True, squeeze=False))
dig("agg", magpy.getB(configs["cols_between"], obs, pixel_agg="mean", squeeze=False))
df = magpy.getH(configs["nested"], obs, output="dataframe")
dig("df", df[["Hx", "Hy", "Hz"]].to_numpy())
print([re.sub(r"id=\d+", "ID", v) for v in dict.fromkeys(df["source"])])
dig("col_method", c_lines.getB(obs, squeeze=False))
dig("sens_method", sens.getB(c_two, cyl, c_nested, squeeze=False))
dig("J", magpy.getJ([c_lines, c_two], obs, squeeze=False))
dig("M", magpy.getM([c_two, c_lines, cub2], obs, squeeze=False))

# error paths around collections
attempt("e_no_sources", magpy.getB, [cub2, magpy.Collection(magpy.Sensor())], obs)
attempt("e_empty_col", magpy.getB, [magpy.Collection(), cub2], obs)
half = magpy.Collection(magpy.magnet.Sphere(polarization=(1, 0, 0)), dip.copy())
attempt("e_uninitialised_child", magpy.getB, [cub2, half], obs)
attempt("e_bad_output", magpy.getB, [c_two, cub2], obs, output="table")

objs = [cub, cub2, cyl, circ, dip, line, line2, mesh, sens, sens2]
objs += [c_two, c_one, c_lines, c_inner, c_nested]
print([len(o._position) for o in objs])
