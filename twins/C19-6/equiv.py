import os, sys; sys.path.insert(0, os.getcwd())
import hashlib
import json
import re
import warnings

import numpy as np
from scipy.spatial.transform import Rotation as R

import magpylib as magpy
from magpylib._src.display.traces_generic import get_frames
from magpylib._src.display.traces_utility import DEFAULT_ROW_COL_PARAMS
from magpylib._src.display.traces_utility import group_traces
from magpylib._src.display.traces_utility import merge_traces
from magpylib._src.display.traces_utility import process_show_input_objs

warnings.simplefilter("ignore")


def norm(o):
    """deterministic, JSON-able view of nested trace structures"""
    if isinstance(o, dict):
        return {str(k): norm(v) for k, v in sorted(o.items(), key=lambda kv: str(kv[0]))}
    if isinstance(o, (list, tuple)):
        return [type(o).__name__, [norm(v) for v in o]]
    if isinstance(o, np.ndarray):
        if o.dtype.kind in "fiu":
            return ["nd", list(o.shape), np.round(o.astype(float), 9).tolist()]
        return ["nd", list(o.shape), [norm(v) for v in o.ravel().tolist()]]
    if isinstance(o, (float, np.floating)):
        return round(float(o), 9)
    if isinstance(o, (int, np.integer, bool, type(None))):
        return o
    if isinstance(o, str):
        return re.sub(r"id=\d+|0x[0-9a-f]+", "#", o)
    if isinstance(o, R):
        return ["rot", np.round(o.as_quat(), 9).tolist()]
    return re.sub(r"id=\d+|0x[0-9a-f]+", "#", repr(o))


def digest(label, o):
    s = json.dumps(norm(o), sort_keys=True)
    print(f"{label}: {hashlib.sha256(s.encode()).hexdigest()[:16]} len={len(s)}")
    return s


def attempt(label, func):
    try:
        res = func()
    except Exception as err:  # pylint: disable=broad-except
        print(f"{label}: EXC {type(err).__name__}: {err}")
        return None
    digest(label, res)
    return res


def mesh(shift, **kw):
    return {"type": "mesh3d", "x": np.array([0.0, 1, 0, 0]) + shift, "y": np.array([0.0, 0, 1, 0]),
            "z": np.array([0.0, 0, 0, 1]), "i": np.array([0, 0]), "j": np.array([1, 2]),
            "k": np.array([2, 3]), **kw}


def scat(shift, **kw):
    return {"type": "scatter3d", "x": np.array([0.0, 1]) + shift, "y": np.array([0.0, 2]),
            "z": np.array([1.0, 1]), **kw}


# --- merge_traces directly: order of result groups, single traces, unsupported types
m1, m2, m3 = mesh(0, color="red"), mesh(2, color="blue", extra=1), mesh(5)
s1, s2 = scat(0, mode="lines"), scat(3, mode="markers")
other1, other2 = {"type": "surface", "x": [1]}, {"type": "surface", "x": [2]}
none1, none2 = {"type": None, "x": [1]}, {"type": None, "x": [2]}
res = attempt("empty", lambda: merge_traces())
res = attempt("single mesh", lambda: merge_traces(m1))
print("single is same object:", res[0] is m1)
res = attempt("single scatter", lambda: merge_traces(s1))
print("single is same object:", res[0] is s1)
attempt("two meshes", lambda: merge_traces(m1, m2))
attempt("three meshes", lambda: merge_traces(m3, m1, m2))
attempt("two scatters lines", lambda: merge_traces(dict(s1), dict(s2)))
attempt("two scatters markers", lambda: merge_traces(dict(s2), dict(s1)))
attempt("mixed order 1", lambda: merge_traces(dict(s1), m1, dict(s2), m2, other1))
attempt("mixed order 2", lambda: merge_traces(other1, m1, dict(s1), other2, m2))
res = attempt("unsupported pair kept", lambda: merge_traces(other1, other2, none1, none2))
print("unsupported same objects:", [a is b for a, b in zip(res, (other1, other2, none1, none2))])
attempt("one of each", lambda: merge_traces(m1, dict(s1), other1, none1))
res = merge_traces(m1, dict(s1), other1, none1)
print("types order:", [t["type"] for t in res])
print("inputs untouched:", sorted(m1), sorted(m2), m1["color"], m2["color"])

# --- error paths
attempt("err no type", lambda: merge_traces(m1, {"x": [0]}))
attempt("err unhashable type", lambda: merge_traces({"type": ["mesh3d"]}))
attempt("err mesh without x", lambda: merge_traces(m1, {"type": "mesh3d", "i": [0], "j": [1], "k": [2]}))
attempt("err scatter without z", lambda: merge_traces(dict(s1), {"type": "scatter3d", "x": [0], "y": [0]}))
attempt("err not a dict", lambda: merge_traces(m1, 3))

# --- through group_traces (legendgroup / color grouping) and the full model of show
attempt("group_traces", lambda: group_traces(
    mesh(0, legendgroup="a", color="r"), mesh(1, legendgroup="a", color="r"),
    mesh(2, legendgroup="b", color="r"), scat(0, legendgroup="a", mode="lines"),
    scat(1, legendgroup="a", mode="lines"), scat(2, legendgroup="a", mode="markers")))


def model(*objs, backend="plotly", colorgrad=True, **kw):
    objects, *_ = process_show_input_objs(
        objs, **{k: v for k, v in kw.items() if k in DEFAULT_ROW_COL_PARAMS})
    style_kw = {k: v for k, v in kw.items() if k.startswith("style")}
    kw = {k: v for k, v in kw.items() if k not in DEFAULT_ROW_COL_PARAMS and k not in style_kw}
    return get_frames(objects, backend=backend, supports_colorgradient=colorgrad,
                      style_kwargs=style_kw, **kw)


def scene():
    cube = magpy.magnet.Cuboid(polarization=(0, 0, 1), dimension=(1, 2, 3))
    cube.position = [(0, 0, 0), (1, 2, 3), (2, 4, 6), (3, 6, 9)]
    cube.rotate_from_angax([0, 30, 60, 90], (1, 1, 0), start=0)
    cube.style.model3d.add_trace(backend="generic", constructor="scatter3d",
                                 kwargs={"x": [0, 1], "y": [0, 0], "z": [0, 0], "mode": "lines"})
    loop = magpy.current.Circle(current=1, diameter=2, position=[(0, 0, 1), (0, 0, 2), (0, 0, 3)])
    line = magpy.current.Polyline(current=-1, vertices=[(0, 0, 0), (1, 1, 1), (2, 0, 1)])
    sens = magpy.Sensor(pixel=[(0, 0, 0), (0, 0, 1)], position=[(4, 0, 0), (4, 1, 0)])
    coll = magpy.Collection(cube, magpy.Collection(loop, line), sens)
    return coll, magpy.misc.Dipole(moment=(1, 1, 1), position=(0, 3, 0))


for frames in (None, 1, [0, 2]):
    for backend, cg in (("plotly", True), ("matplotlib", False)):
        objs = scene()
        before = json.dumps(norm([[o.style.as_dict(), o.position, o.orientation] for o in objs]
                                 + [magpy.defaults.as_dict()]))
        attempt(f"model frames={frames} backend={backend}", lambda: model(
            *objs, backend=backend, colorgrad=cg, units_length="cm",
            **({} if frames is None else {"style_path_frames": frames})))
        after = json.dumps(norm([[o.style.as_dict(), o.position, o.orientation] for o in objs]
                                + [magpy.defaults.as_dict()]))
        print("  unchanged:", before == after)
attempt("show plotly", lambda: magpy.show(*scene(), backend="plotly", return_fig=True).to_dict()["data"])
attempt("show plotly anim", lambda: magpy.show(
    *scene(), backend="plotly", return_fig=True, animation=True).to_dict()["frames"])
