import os, sys; sys.path.insert(0, os.getcwd())
import hashlib
import warnings

import numpy as np

import magpylib as magpy
from magpylib._src.fields.field_BH_tetrahedron import BHJM_magnet_tetrahedron
from magpylib._src.fields.field_BH_tetrahedron import check_chirality
from magpylib._src.fields.field_BH_tetrahedron import point_inside

warnings.simplefilter("ignore")
np.set_printoptions(precision=10, linewidth=200)


def digest(tag, arr):
    arr = np.asarray(arr)
    kind = arr.dtype.kind
    flags = (arr.flags["C_CONTIGUOUS"], arr.flags["OWNDATA"])
    arr = np.ascontiguousarray(arr.astype(float))
    h = hashlib.sha256(arr.tobytes()).hexdigest()[:16]
    print(tag, arr.shape, kind, flags, h)
    print(np.array2string(arr.ravel()[:15], precision=10))


def attempt(tag, func):
    try:
        digest(tag, func())
    except Exception as err:  # pylint: disable=broad-except
        print(tag, "EXC", type(err).__name__, str(err)[:120].replace("\n", " | "))


rng = np.random.default_rng(2505)

tet_r = np.array([(0, 0, 0), (1, 0, 0), (0, 1, 0), (0, 0, 1)], dtype=float)  # right-handed
tet_l = tet_r[[0, 1, 3, 2]]  # left-handed
special = np.array(
    [
        (0.1, 0.1, 0.1),  # inside
        (0.25, 0.25, 0.25),  # inside
        (1 / 3, 1 / 3, 1 / 3),  # on the oblique face
        (0.2, 0.2, 0.0),  # on a face
        (0.5, 0.0, 0.0),  # on an edge
        (0.0, 0.0, 0.0),  # corner
        (1.0, 1.0, 1.0),  # outside
        (-0.1, 0.2, 0.3),  # outside
        (0.3, 0.3, 0.41),  # just outside
        (3.0, -2.0, 5.0),
    ]
)
rand_obs = rng.uniform(-0.5, 1.5, size=(8, 3))
obs0 = np.concatenate([special, rand_obs])
n = len(obs0)
vert0 = np.empty((n, 4, 3))
for i in range(n):
    vert0[i] = tet_l if i % 2 else tet_r
vert0[-3:] = rng.uniform(-1, 1, size=(3, 4, 3))  # random tetrahedra (random chirality)
pol0 = rng.uniform(-1, 1, size=(n, 3))
pol0[2] = 0
pol0[5] = (0, 0, 1)

for scale in (1.0, 1e-9, 1e-3, 1e6, 1e9):
    for pscale in (1.0, 1e-12, 1e12):
        for field in "BHJM":
            for in_out in ("auto", "inside", "outside"):
                def run():
                    verts = vert0 * scale
                    res = BHJM_magnet_tetrahedron(field, obs0 * scale, verts, pol0 * pscale, in_out=in_out)
                    # the vertices input is re-ordered in place for B/H: part of the observable behaviour
                    return np.concatenate([res.ravel(), (verts / scale).ravel()])
                attempt(f"tet s={scale:g} p={pscale:g} {field} {in_out}", run)

# helpers called directly
for scale in (1.0, 1e-9, 1e9):
    attempt(f"inside auto s={scale:g}", lambda: point_inside(obs0 * scale, vert0 * scale, "auto"))
attempt("inside inside", lambda: point_inside(obs0, vert0, "inside"))
attempt("inside outside", lambda: point_inside(obs0, vert0, "outside"))
attempt("inside other", lambda: point_inside(obs0, vert0, "whatever"))
attempt("inside None", lambda: point_inside(obs0, vert0, None))
attempt("inside empty auto", lambda: point_inside(obs0[:0], vert0[:0], "auto"))
attempt("inside empty inside", lambda: point_inside(obs0[:0], vert0[:0], "inside"))
attempt("inside empty outside", lambda: point_inside(obs0[:0], vert0[:0], "outside"))
attempt("inside len mismatch inside", lambda: point_inside(obs0[:3], vert0, "inside"))
pts = vert0.copy()
out = check_chirality(pts)
print("chirality returns same object", out is pts, "changed rows", np.flatnonzero((pts != vert0).any(axis=(1, 2))).tolist())
attempt("chirality", lambda: check_chirality(vert0.copy()))
attempt("chirality twice", lambda: check_chirality(check_chirality(vert0.copy())))
attempt("chirality empty", lambda: check_chirality(vert0[:0].copy()))
attempt("chirality int", lambda: check_chirality((vert0[:4] * 3).astype(int)))
attempt("chirality degenerate", lambda: check_chirality(np.zeros((2, 4, 3))))

# int / empty / single inputs, inputs untouched (observers, polarization)
for field in "BHJM":
    attempt(f"tet empty {field}", lambda: BHJM_magnet_tetrahedron(field, obs0[:0], vert0[:0].copy(), pol0[:0]))
    attempt(f"tet empty inside {field}", lambda: BHJM_magnet_tetrahedron(field, obs0[:0], vert0[:0].copy(), pol0[:0], in_out="inside"))
    attempt(f"tet single {field}", lambda: BHJM_magnet_tetrahedron(field, obs0[:1], vert0[1:2].copy(), pol0[:1]))
    attempt(
        f"tet int {field}",
        lambda: BHJM_magnet_tetrahedron(
            field, np.array([(1, 1, 1), (5, 5, 5)]), np.array([tet_l * 4, tet_r * 4]).astype(int), np.array([(1, 2, 3), (0, 0, 1)])
        ),
    )
o, p = obs0.copy(), pol0.copy()
BHJM_magnet_tetrahedron("B", o, vert0.copy(), p)
print("untouched", np.array_equal(o, obs0), np.array_equal(p, pol0))

# object interface at three units
for scale in (1.0, 1e-6, 1e6):
    def build():
        t1 = magpy.magnet.Tetrahedron(polarization=(0.1, -0.2, 0.3), vertices=tet_l * scale)
        t2 = magpy.magnet.Tetrahedron(polarization=(0.3, 0.2, 0.1), vertices=tet_r * scale, position=(0.1 * scale, 0, 0))
        o_ = special * scale
        return np.concatenate([magpy.getB([t1, t2], o_).ravel(), magpy.getH([t1, t2], o_).ravel(),
                               magpy.getJ(t1, o_).ravel(), magpy.getM(t2, o_).ravel(), t1.vertices.ravel() / scale])
    attempt(f"obj s={scale:g}", build)

# error paths
degenerate = vert0.copy()
degenerate[1] = [(0, 0, 0), (1, 0, 0), (2, 0, 0), (0, 1, 0)]  # flat tetrahedron -> singular matrix
for field in "BHJM":
    attempt(f"err degenerate {field}", lambda: BHJM_magnet_tetrahedron(field, obs0, degenerate.copy(), pol0))
    attempt(f"err degenerate inside {field}", lambda: BHJM_magnet_tetrahedron(field, obs0, degenerate.copy(), pol0, in_out="inside"))
attempt("err field X", lambda: BHJM_magnet_tetrahedron("X", obs0, vert0.copy(), pol0))
attempt("err obs short B", lambda: BHJM_magnet_tetrahedron("B", obs0[:5], vert0.copy(), pol0))
attempt("err obs short J", lambda: BHJM_magnet_tetrahedron("J", obs0[:5], vert0.copy(), pol0))
attempt("err obs short J inside", lambda: BHJM_magnet_tetrahedron("J", obs0[:5], vert0.copy(), pol0, in_out="inside"))
attempt("err pol short H", lambda: BHJM_magnet_tetrahedron("H", obs0, vert0.copy(), pol0[:5]))
attempt("err vert 3 pts", lambda: BHJM_magnet_tetrahedron("B", obs0, vert0[:, :3].copy(), pol0))
attempt("err vert 5 pts", lambda: BHJM_magnet_tetrahedron("B", obs0, np.concatenate([vert0, vert0[:, :1]], axis=1), pol0))
attempt("err vert 2d", lambda: BHJM_magnet_tetrahedron("H", obs0, vert0[0].copy(), pol0))
attempt("err vert list", lambda: BHJM_magnet_tetrahedron("H", obs0, vert0.tolist(), pol0))
attempt("err pol list", lambda: BHJM_magnet_tetrahedron("H", obs0, vert0.copy(), pol0.tolist()))
attempt("err in_out array", lambda: BHJM_magnet_tetrahedron("J", obs0, vert0.copy(), pol0, in_out=np.array(["inside", "auto"])))
