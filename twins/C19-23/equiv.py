import os, sys; sys.path.insert(0, os.getcwd())
# --- digest helpers (arrays are compared bitwise: dtype, shape, bytes) ---
import hashlib
import re
import warnings

import numpy as np
from scipy.spatial.transform import Rotation as R

warnings.simplefilter("ignore")


def canon(o):
    """deterministic text of nested structures; arrays by dtype/shape/bytes"""
    if isinstance(o, dict):
        return "{" + ",".join(f"{canon(k)}:{canon(v)}" for k, v in o.items()) + "}"
    if isinstance(o, (list, tuple)):
        return type(o).__name__ + "(" + ",".join(canon(v) for v in o) + ")"
    if isinstance(o, np.ndarray):
        if o.dtype.kind == "O":
            return f"ndO{o.shape}[" + ",".join(canon(v) for v in o.ravel().tolist()) + "]"
        data = np.ascontiguousarray(o)
        if data.dtype.kind == "f":
            data = data + 0.0  # -0.0 stays, nothing else changes
        return f"nd<{o.dtype}{o.shape}{hashlib.sha256(data.tobytes()).hexdigest()[:12]}>"
    if isinstance(o, (bool, np.bool_)):
        return f"b{bool(o)}"
    if isinstance(o, (float, np.floating)):
        return f"f{type(o).__name__}{float(o).hex()}"
    if isinstance(o, (int, np.integer)):
        return f"i{type(o).__name__}{int(o)}"
    if o is None:
        return "None"
    if isinstance(o, str):
        return "s" + repr(re.sub(r"id=\d+|0x[0-9a-f]+", "#", o))
    if isinstance(o, R):
        return "rot" + canon(o.as_quat())
    return re.sub(r"id=\d+|0x[0-9a-f]+", "#", repr(o))


def digest(label, o):
    s = canon(o)
    print(f"{label}: {hashlib.sha256(s.encode()).hexdigest()[:16]} len={len(s)}")
    return s


def attempt(label, func, show=False):
    try:
        res = func()
    except BaseException as err:  # pylint: disable=broad-except
        msg = re.sub(r"id=\d+|0x[0-9a-f]+", "#", str(err))
        print(f"{label}: EXC {type(err).__name__}: {msg}")
        return None
    s = digest(label, res)
    if show:
        print("   ", s[:300])
    return res

# --- end of helpers ---
import numpy as np
from scipy.spatial.transform import Rotation as R

import magpylib as magpy
from magpylib._src.display.traces_base import make_Arrow, make_Prism, make_Pyramid
from magpylib.graphics import model3d

bases = (3, 4, 6, 30, 1, 2, 0, -1, 2.0, 3.5, None, True, "3", np.int32(5), np.array(4), [3])
sizes = ((1.0, 1.0), (0.3, 2.0), (2, 3), (0.0, 1.0), (1.0, 0.0), (-1.0, -2.0),
         (float("nan"), 1.0), (1.0, float("inf")), (1e-9, 1e9), (np.float32(0.5), np.float32(1.5)))
for name, fn in (("Prism", make_Prism), ("Pyramid", make_Pyramid), ("Arrow", make_Arrow)):
    for base in bases:
        for diameter, height in sizes if isinstance(base, int) and not isinstance(base, bool) and base > 2 else sizes[:2]:
            attempt(
                f"{name} base={base!r} d={diameter!r} h={height!r}",
                lambda: fn(base=base, diameter=diameter, height=height),
                show=(name != "Arrow" and base == 3 and diameter == 1.0 and height == 1.0),
            )

for name, fn in (("Pyramid", make_Pyramid), ("Arrow", make_Arrow)):
    for pivot in ("tail", "tip", "middle", "bad", None):
        for height in (1, 2.5, "h", None):
            attempt(f"{name} pivot={pivot} h={height!r}", lambda: fn(base=5, pivot=pivot, height=height))

rot = R.from_euler("xyz", [(10, 20, 30)], degrees=True)
for name, fn in (("Prism", make_Prism), ("Pyramid", make_Pyramid), ("Arrow", make_Arrow)):
    for backend in ("generic", "plotly", "matplotlib", "plotly-dict", None):
        attempt(
            f"{name} backend={backend}",
            lambda: fn(backend, base=7, diameter=0.7, height=1.3, position=(1, 2, 3), orientation=rot,
                       show=False, scale=3, opacity=0.4, type="zzz"),
        )
    attempt(f"{name} defaults", fn)
    attempt(f"{name} diameter str", lambda: fn(diameter="d"))
    attempt(f"{name} diameter None", lambda: fn(diameter=None))
    attempt(f"{name} diameter array3", lambda: fn(diameter=np.array([1.0, 2.0, 3.0])))
    attempt(f"{name} height array3", lambda: fn(height=np.array([1.0, 2.0, 3.0])))
    attempt(f"{name} base None, diameter str", lambda: fn(base=None, diameter="d"))
    attempt(f"{name} bad position", lambda: fn(position=(1, 2)))
attempt("public prism", lambda: model3d.make_Prism(base=8, diameter=2, height=3, color="blue"))
attempt("public pyramid", lambda: model3d.make_Pyramid(base=8, diameter=2, height=3, pivot="tip"))
attempt("public arrow", lambda: model3d.make_Arrow(base=8, diameter=0.2, height=3, pivot="tail"))

# full models: Cylinder (prism), Dipole (arrow), Triangle / TriangularMesh orientation (cone / arrow3d)
cyl = magpy.magnet.Cylinder(polarization=(0, 0, 1), dimension=(1, 2), position=[(0, 0, 0), (1, 1, 1), (2, 0, 1)])
cyl.rotate_from_angax([0, 30, 60], "y", start=0)
dip = magpy.misc.Dipole(moment=(1, 2, 3), position=(3, 0, 0))
dip2 = magpy.misc.Dipole(moment=(0, 0, -1), position=(3, 3, 0), style_pivot="tail", style_size=2)
tri = magpy.misc.Triangle(polarization=(0, 0, 1), vertices=[(0, 0, 0), (1, 0, 0), (0, 1, 0)], position=(-3, 0, 0))
tri.style.orientation.symbol = "arrow3d"
mesh = magpy.magnet.TriangularMesh.from_pyvista if False else None
tet = magpy.magnet.TriangularMesh.from_ConvexHull(
    polarization=(0, 0, 1), points=[(0, 0, 0), (1, 0, 0), (0, 1, 0), (0, 0, 1)], position=(0, -3, 0)
)
tet.style.orientation.show = True
tet.style.orientation.symbol = "cone"
coll = magpy.Collection(dip2, tri)
coll.move([(0, 0, 0), (0, 0, 2)], start=0)
objs = [cyl, dip, tet, coll]


def snapshot():
    return canon([(o.position, o.orientation, o.style.as_dict()) for o in [*objs, *coll.children]])


before = snapshot()
for backend in ("plotly", "matplotlib"):
    for frames in (None, [0], 2):
        for units in (None, "cm"):
            kw = {}
            if frames is not None:
                kw["style_path_frames"] = frames
            if units is not None:
                kw["units_length"] = units

            def full():
                if backend == "plotly":
                    fig = magpy.show(*objs, backend="plotly", return_fig=True, **kw)
                    return [
                        {k: (np.array(v) if isinstance(v, (list, tuple, np.ndarray)) and k in "xyzijk" else str(v))
                         for k, v in tr.to_plotly_json().items()}
                        for tr in fig.data
                    ] + [str(fig.layout.scene.xaxis.title.text), str(fig.layout.scene.xaxis.range)]
                import matplotlib

                matplotlib.use("Agg")
                import matplotlib.pyplot as plt

                fig = plt.figure()
                ax = fig.add_subplot(projection="3d")
                magpy.show(*objs, canvas=ax, backend="matplotlib", **kw)
                out = [("coll", np.array(getattr(c, "_vec", None))) for c in ax.collections]
                out += [("line", [np.array(d) for d in l.get_data_3d()]) for l in ax.lines]
                out += [ax.get_xlabel(), ax.get_xlim()]
                plt.close(fig)
                return out

            attempt(f"show {backend} frames={frames} units={units}", full)
print("objects unchanged:", before == snapshot())
