import os, sys; sys.path.insert(0, os.getcwd())
import builtins
import hashlib
import re
import warnings

import numpy as np
from scipy.spatial.transform import Rotation as R

import magpylib as magpy

warnings.simplefilter("ignore")
_print = builtins.print


def print(*args):  # deterministic: strip object ids / addresses
    txt = " ".join(str(a) for a in args)
    txt = re.sub(r"id=\d+", "id=#", txt)
    txt = re.sub(r"0x[0-9a-f]+", "0x#", txt)
    _print(txt)


def dig(name, arr):
    arr = np.asarray(arr)
    h = hashlib.sha256(np.ascontiguousarray(arr).tobytes()).hexdigest()[:16]
    print(name, arr.shape, h, np.round(arr.ravel()[:6], 12).tolist())


def hb(arr):
    return hashlib.sha256(np.ascontiguousarray(arr).tobytes()).hexdigest()[:12]


def world():
    """objects with path lengths 1, 1, 2, 3, 5, 5 (sources) and 1, 4, 5 (sensors)"""
    w = {}
    w["a1"] = magpy.magnet.Cuboid(polarization=(0.1, 0.2, 0.3), dimension=(1, 2, 3), position=(1, 0, 0))
    w["b1"] = magpy.current.Circle(current=3.0, diameter=2.0, position=(0, 1, 0)).rotate_from_angax(30, "x")
    w["c2"] = magpy.misc.Dipole(moment=(1, 2, 3), position=[(0, 0, 1), (0, 0.5, 1)])
    w["d3"] = magpy.magnet.Sphere(polarization=(0.3, -0.2, 0.1), diameter=1.5, position=(1, 1, 0))
    w["d3"].rotate_from_angax([15, 40], (1, 2, 3), anchor=0)
    w["e5"] = magpy.magnet.Cylinder(polarization=(0.3, 0.2, 0.1), dimension=(1, 1))
    w["e5"].move([(0.1 * i, 0, 0.2 * i) for i in range(1, 5)])
    w["f5"] = magpy.current.Polyline(current=1.5, vertices=[(0, 0, 0), (1, 1, 1), (2, 0, 1)])
    w["f5"].rotate_from_angax([10, 20, 30, 40], "z", anchor=(1, 0, 0))
    w["x1"] = magpy.Sensor(position=(5, 5, 5)).rotate_from_angax(45, (1, 1, 0))
    w["x4"] = magpy.Sensor(position=(-5, 5, 5), pixel=[(0, 0, 0), (0.1, 0.2, 0.3)], handedness="left")
    w["x4"].rotate_from_angax([5, 10, 15], "y", anchor=0)
    w["x5"] = magpy.Sensor(position=[(4, -4, 4 + 0.1 * i) for i in range(5)])
    return w


def snapshot(w):
    # keeps references to the attribute objects so that identity can be compared reliably
    return {
        k: (len(o._position), hb(o._position), hb(o._orientation.as_quat()), o._orientation, o._position)
        for k, o in w.items()
    }


def compare(before, after):
    out = []
    for k in before:
        b, a = before[k], after[k]
        out.append(
            f"{k}:len={a[0]},pos={'=' if a[1] == b[1] else 'CHANGED'},rot={'=' if a[2] == b[2] else 'CHANGED'},"
            f"rot_obj={'same' if a[3] is b[3] else 'new'},pos_obj={'same' if a[4] is b[4] else 'new'}"
        )
    return " ".join(out)


def run(name, fn, w=None):
    w = world() if w is None else w
    before = snapshot(w)
    try:
        res = fn(w)
        if hasattr(res, "shape") and not hasattr(res, "columns"):
            dig(name, res)
        elif hasattr(res, "columns"):
            print(name, "df", res.shape, hb(res[[c for c in res.columns if c[0] in "BH"]].to_numpy()))
        else:
            print(name, res)
    except BaseException as e:  # pylint: disable=broad-except
        print(name, "raised", type(e).__name__, "|", str(e)[:120].replace("\n", " / "))
    print("    ", compare(before, snapshot(w)))


S = ["a1", "b1", "c2", "d3", "e5", "f5"]
X = ["x1", "x4", "x5"]

print("==== single source x single sensor (every pair of path lengths)")
for s in S:
    for x in X:
        run(f"B {s} {x}", lambda w: magpy.getB(w[s], w[x]))
        run(f"H {s} {x} nosqueeze", lambda w: magpy.getH(w[s], w[x], squeeze=False))

print("==== subsets with different maximal path length")
subsets = [
    (["a1", "b1"], ["x1"]),  # everything static: no tiling
    (["a1", "c2"], ["x1"]),  # max 2
    (["c2", "d3"], ["x1"]),  # max 3
    (["a1", "d3"], ["x4"]),  # max 4 from sensor
    (["e5", "f5"], ["x5"]),  # all at max: nothing to reset
    (["a1", "b1", "c2", "d3", "e5", "f5"], ["x1", "x5"]),
    (["f5", "e5", "d3", "c2", "b1", "a1"], ["x5", "x1"]),
    (["a1", "a1", "c2", "a1"], ["x1", "x1"]),  # duplicates: unique objects only
]
for ss, xx in subsets:
    for f in "BH":
        fn = getattr(magpy, "get" + f)
        run(f"{f} {ss} {xx}", lambda w: fn([w[k] for k in ss], [w[k] for k in xx]))
        run(f"{f} sumup {ss} {xx}", lambda w: fn([w[k] for k in ss], [w[k] for k in xx], sumup=True))
    run(f"B agg {ss} {xx + ['x4']}", lambda w: magpy.getB([w[k] for k in ss], [w[k] for k in xx + ["x4"]], pixel_agg="mean"))
    run(f"B df {ss} {xx}", lambda w: magpy.getB([w[k] for k in ss], [w[k] for k in xx], output="dataframe"))

print("==== collections (children with different path lengths, moved collections)")


def coll_case(w):
    c1 = magpy.Collection(w["a1"], w["c2"])
    c2 = magpy.Collection(w["d3"], magpy.Collection(w["e5"], w["x4"]))
    c2.move([(0, 0, 0.1), (0, 0, 0.2)])
    w["c1"], w["c2c"] = c1, c2
    res = magpy.getB([c1, w["b1"], c2, w["f5"]], [w["x1"], w["x5"]])
    parts = magpy.getB([w["a1"], w["c2"], w["b1"], w["d3"], w["e5"], w["f5"]], [w["x1"], w["x5"]])
    print("    allclose with rotated sensor:", bool(np.allclose(res[2], np.sum(parts[3:5], axis=0), rtol=1e-12, atol=0)))
    # bitwise on the unrotated sensor (the collection sum is formed before the sensor back-rotation)
    res = res[:, :, 1]
    parts = parts[:, :, 1]
    ok = (
        (res[0] == np.sum(parts[0:2], axis=0)).all()
        and (res[1] == parts[2]).all()
        and (res[2] == np.sum(parts[3:5], axis=0)).all()
        and (res[3] == parts[5]).all()
    )
    print("    collection entries equal np.sum of members:", bool(ok))
    return res


run("collections", coll_case)
run("collection method", lambda w: magpy.Collection(w["a1"], w["c2"], w["d3"]).getH(w["x5"], w["x1"]))
run("collection method agg", lambda w: magpy.Collection(w["a1"], w["c2"], w["d3"]).getH(w["x4"], w["x1"], pixel_agg="max"))
run("mixed collection getB()", lambda w: magpy.Collection(w["a1"], w["d3"], w["x1"], w["x5"]).getB())
run("sensor method", lambda w: w["x4"].getB(w["a1"], w["e5"], sumup=True))
run("source method positions", lambda w: w["d3"].getB([(1, 2, 3), (2, 3, 4)]))
run("source method positions static", lambda w: w["a1"].getB((1, 2, 3)))

print("==== consistency: the tiled static tail equals the static result")


def tail(w):
    full = magpy.getB([w["a1"], w["c2"]], w["x5"])  # (2 sources, 5 path, 3)
    a_static = magpy.getB(w["a1"], (4, -4, 4.4))
    c_last = magpy.getB(w["c2"], (4, -4, 4.4))[-1]
    return [bool((full[0, -1] == a_static).all()), bool((full[1, -1] == c_last).all())]


run("tail", tail)

print("==== failures: state must be restored / untouched")


def bad_ff(field, observers):
    raise ArithmeticError("boom")


def none_ff(field, observers):
    return None


def with_custom(ff):
    def fn(w):
        cs = magpy.misc.CustomSource(field_func=lambda field, observers: observers * 1.0, position=(1, 2, 3))
        cs._field_func = ff
        w["cs"] = cs
        return magpy.getB([w["a1"], cs, w["d3"]], [w["x1"], w["x5"]])

    return fn


run("field_func raises", with_custom(bad_ff))
run("field_func returns None", with_custom(none_ff))
run("field_func missing", with_custom(None))


def stop_ff(field, observers):
    raise StopIteration("stop")


def kbd_ff(field, observers):
    raise KeyboardInterrupt("kbd")


run("field_func StopIteration", with_custom(stop_ff))
run("field_func KeyboardInterrupt", with_custom(kbd_ff))
run("bad output type", lambda w: magpy.getB([w["a1"], w["d3"]], w["x5"], output="nope"))
run("different pixel shapes", lambda w: magpy.getB([w["a1"], w["d3"]], [w["x1"], w["x4"]]))
run("bad pixel_agg", lambda w: magpy.getB([w["a1"], w["d3"]], [w["x1"], w["x4"]], pixel_agg="nope"))
run("uninitialised source", lambda w: magpy.getB([w["a1"], magpy.magnet.Cuboid()], w["x5"]))


def no_orient(key):
    def fn(w):
        del w[key]._orientation
        try:
            return magpy.getB([w["a1"], w["c2"], w["e5"]], [w["x1"], w["x5"]])
        finally:
            print("    positions after:", {k: len(w[k]._position) for k in ("a1", "c2", "e5", "x1", "x5")})
            w[key]._orientation = R.from_quat([[0, 0, 0, 1]] * len(w[key]._position))

    return fn


run("short-path source without _orientation", no_orient("a1"))
run("short-path source (len 2) without _orientation", no_orient("c2"))
run("full-path source without _orientation", no_orient("e5"))


def bad_position(key):
    def fn(w):
        w[key]._position = w[key]._position[0]  # 1D position: len 3, tiling fails for shorter paths
        try:
            return magpy.getB([w["a1"], w["c2"], w["e5"]], [w["x1"], w["x5"]])
        finally:
            print("    positions after:", {k: np.shape(w[k]._position) for k in ("a1", "c2", "e5", "x1", "x5")})

    return fn


run("1D position on short-path source", bad_position("a1"))
run("1D position on full-path source", bad_position("e5"))


def inconsistent(w):
    w["c2"]._orientation = R.from_quat([[0, 0, 0, 1]] * 4)  # position path 2, orientation path 4
    return magpy.getB([w["a1"], w["c2"], w["e5"]], [w["x1"], w["x5"]])


run("inconsistent path", inconsistent)

print("==== repeated calls on the same objects give the same bits (no drift from tiling)")
w = world()
first = magpy.getB([w[k] for k in S], [w[k] for k in ("x1", "x5")])
for i in range(3):
    again = magpy.getB([w[k] for k in S], [w[k] for k in ("x1", "x5")])
    print("  repeat", i, bool((again == first).all()))
run("after repeats", lambda w: magpy.getH([w[k] for k in S], w["x4"]), w)
