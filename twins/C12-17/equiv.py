import os, sys; sys.path.insert(0, os.getcwd())
import hashlib
import re
import warnings

import numpy as np

import magpylib as magpy
from magpylib._src.fields import field_BH_triangularmesh as tm

np.set_printoptions(precision=10, linewidth=200)


def clean(text):
    return re.sub(r"id=\d+", "id=N", str(text)).replace("\n", " | ")


def digest(tag, arr):
    arr = np.asarray(arr)
    flags = (arr.flags["C_CONTIGUOUS"], arr.flags["F_CONTIGUOUS"], arr.flags["OWNDATA"])
    raw = np.ascontiguousarray(arr)
    h = hashlib.sha256(raw.tobytes()).hexdigest()[:16]
    print(tag, arr.shape, arr.dtype, flags, h)
    if arr.dtype == bool:
        print("   ", "".join("1" if b else "0" for b in arr.ravel()[:120]))
    else:
        print("   ", np.array2string(arr.ravel()[:36], precision=10))


def attempt(tag, func):
    with warnings.catch_warnings(record=True) as rec:
        warnings.simplefilter("always")
        try:
            res = func()
            if isinstance(res, np.ndarray):
                digest(tag, res)
            else:
                print(tag, "->", clean(repr(res)))
        except Exception as err:  # pylint: disable=broad-except
            print(tag, "EXC", type(err).__name__, clean(err)[:300])
    for w in rec:
        print("   WARN", w.category.__name__, clean(w.message)[:300])


cube_v = (
    np.array(
        [(0, 0, 0), (1, 0, 0), (1, 1, 0), (0, 1, 0), (0, 0, 1), (1, 0, 1), (1, 1, 1), (0, 1, 1)],
        dtype=float,
    )
    - 0.5
)
cube_f = np.array(
    [
        (0, 2, 1), (0, 3, 2), (4, 5, 6), (4, 6, 7), (0, 1, 5), (0, 5, 4),
        (2, 3, 7), (2, 7, 6), (1, 2, 6), (1, 6, 5), (0, 4, 7), (0, 7, 3),
    ]
)
tet_v = np.array([(0, 0, 0), (1, 0, 0), (0, 1, 0), (0, 0, 1)], dtype=float)
tet_f = np.array([(0, 2, 1), (0, 1, 3), (1, 2, 3), (0, 3, 2)])
two_v = np.concatenate([cube_v, tet_v + (3, 0.2, -0.1)])
two_f = np.concatenate([cube_f, tet_f + len(cube_v)])
three_v = np.concatenate([two_v, tet_v * 0.5 + (-4, 1, 2)])
three_f = np.concatenate([two_f, tet_f + len(two_v)])
# octahedron
octa_v = np.array([(1, 0, 0), (-1, 0, 0), (0, 1, 0), (0, -1, 0), (0, 0, 1), (0, 0, -1)], dtype=float)
octa_f = np.array([(0, 2, 4), (2, 1, 4), (1, 3, 4), (3, 0, 4), (2, 0, 5), (1, 2, 5), (3, 1, 5), (0, 3, 5)])

bodies = {
    "cube": (cube_v, cube_f),
    "tet": (tet_v, tet_f),
    "octa": (octa_v, octa_f),
    "two": (two_v, two_f),
    "three": (three_v, three_f),
}

rng = np.random.default_rng(42)


def variants(f):
    """flip patterns, row permutations and cyclic rotations of the index triples"""
    out = {"asis": f.copy()}
    g = f.copy()
    g[:] = g[:, [0, 2, 1]]
    out["allflip"] = g
    g = f.copy()
    g[0] = g[0][[0, 2, 1]]
    out["flip0"] = g
    g = f.copy()
    g[-1] = g[-1][[0, 2, 1]]
    out["fliplast"] = g
    g = f.copy()
    sel = rng.random(len(f)) < 0.5
    g[sel] = g[sel][:, [0, 2, 1]]
    out["fliprand"] = g
    g = f.copy()
    sel = rng.random(len(f)) < 0.5
    g[sel] = g[sel][:, [0, 2, 1]]
    g = g[rng.permutation(len(g))]
    out["fliprand+perm"] = g
    g = f[::-1].copy()
    g[::2] = g[::2][:, [1, 2, 0]]
    out["reversed+rot"] = g
    return out


print("== get_inwards_mask / fix_trimesh_orientation on closed bodies")
for scale in (1e-9, 1e-3, 1.0, 1e6):
    for name, (v, f) in bodies.items():
        for vname, g in variants(f).items():
            keep = g.copy()
            attempt(f"mask {name} {vname} {scale:g}", lambda: tm.get_inwards_mask(v * scale, g))
            attempt(f"fix  {name} {vname} {scale:g}", lambda: tm.fix_trimesh_orientation(v * scale, g))
            if not np.array_equal(g, keep):
                print("    INPUT MODIFIED")

print("== odd meshes: open, non-manifold, duplicated faces, single triangle, soups")
attempt("open cube", lambda: tm.get_inwards_mask(cube_v, cube_f[:-2]))
attempt("open cube 2", lambda: tm.get_inwards_mask(cube_v, cube_f[[0, 3, 5, 7, 9, 11]]))
attempt("single tri", lambda: tm.get_inwards_mask(tet_v, tet_f[:1]))
attempt("two unconnected tris", lambda: tm.get_inwards_mask(two_v, two_f[[0, 13]]))
attempt("dup faces", lambda: tm.get_inwards_mask(tet_v, np.concatenate([tet_f, tet_f])))
attempt("dup faces reversed", lambda: tm.get_inwards_mask(tet_v, np.concatenate([tet_f, tet_f[:, [0, 2, 1]]])))
fin_v = np.concatenate([tet_v, [(0.3, 0.3, -1.0)]])
fin_f = np.concatenate([tet_f, [(0, 1, 4)]])  # extra fin on edge (0,1): non-manifold
attempt("fin", lambda: tm.get_inwards_mask(fin_v, fin_f))
attempt("fin reversed", lambda: tm.get_inwards_mask(fin_v, np.concatenate([tet_f, [(1, 0, 4)]])))
attempt("degenerate tri idx", lambda: tm.get_inwards_mask(tet_v, np.concatenate([tet_f, [(1, 1, 2)]])))
attempt("all same idx", lambda: tm.get_inwards_mask(tet_v, np.array([(1, 1, 1), (2, 2, 2)])))
attempt("4 columns", lambda: tm.get_inwards_mask(tet_v, np.c_[tet_f, tet_f[:, 0]]))
attempt("uint8 faces", lambda: tm.get_inwards_mask(tet_v, tet_f.astype(np.uint8)))
attempt("int32 faces", lambda: tm.fix_trimesh_orientation(tet_v, tet_f[:, [0, 2, 1]].astype(np.int32)))
attempt("float32 verts", lambda: tm.get_inwards_mask(cube_v.astype(np.float32), cube_f[:, [0, 2, 1]]))
attempt("list of tuples faces", lambda: tm.get_inwards_mask(tet_v, [tuple(r) for r in tet_f.tolist()]))

print("== error paths")
attempt("E empty faces", lambda: tm.get_inwards_mask(tet_v, np.zeros((0, 3), dtype=int)))
attempt("E 2 columns", lambda: tm.get_inwards_mask(tet_v, tet_f[:, :2]))
attempt("E 1d faces", lambda: tm.get_inwards_mask(tet_v, np.array([0, 1, 2])))
attempt("E float faces", lambda: tm.get_inwards_mask(tet_v, tet_f.astype(float)))
attempt("E index too large", lambda: tm.get_inwards_mask(tet_v, tet_f + 3))
attempt("E int verts", lambda: tm.get_inwards_mask((tet_v * 2).astype(int), tet_f))
attempt("E 3d faces", lambda: tm.get_inwards_mask(tet_v, tet_f[:, :, None] * np.ones(2, dtype=int)))
attempt("E faces None", lambda: tm.get_inwards_mask(tet_v, None))
attempt("E verts list", lambda: tm.get_inwards_mask(tet_v.tolist(), tet_f))
attempt("E fix list faces", lambda: tm.fix_trimesh_orientation(tet_v, tet_f.tolist()))
attempt("E verts (n,2)", lambda: tm.get_inwards_mask(tet_v[:, :2], tet_f))

print("== object interface")
for scale in (1e-6, 1.0, 1e4):
    for name in ("cube", "two", "octa"):
        v, f = bodies[name]
        g = variants(f)["fliprand+perm"]

        def build():
            src = magpy.magnet.TriangularMesh(
                vertices=v * scale, faces=g, polarization=(0.1, 0.2, -0.3), reorient_faces=True,
                check_disconnected="ignore",
            )
            print("    faces", src.faces.tolist(), src.status_reoriented)
            return src.getB(np.array([(0.1, 0.2, 0.3), (2, 2, 2), (3.1, 0.3, 0.0)]) * scale)

        attempt(f"obj {name} {scale:g}", build)
