import os, sys; sys.path.insert(0, os.getcwd())
import re

import magpylib as magpy


def run(label, func):
    try:
        res = func()
    except BaseException as e:  # deterministic digest of the error path
        msg = re.sub(r"id=\d+", "id=N", str(e)).split("\n\n Available style properties")[0]
        res = f"EXC {type(e).__name__}: {msg[:230]!r}"
    print(f"{label}: {res}")


def flat(obj):
    d = obj.style.as_dict(flatten=True, separator="_")
    return type(obj).__name__, sorted((k, v) for k, v in d.items() if v is not None and v != [])


class MyCollection(magpy.Collection):
    """subclass with its own `set_children_styles`: records how it is called"""

    calls = []

    def set_children_styles(self, arg=None, recursive=True, _validate=True, **kwargs):
        MyCollection.calls.append((self.style.label, sorted((arg or {}).items()), recursive, _validate, sorted(kwargs.items())))
        return super().set_children_styles(arg, recursive=recursive, _validate=_validate, **kwargs)


def make(cls=magpy.Collection):
    c1 = magpy.magnet.Cuboid(polarization=(0, 0, 1), dimension=(1, 1, 1))
    s1 = magpy.Sensor()
    l1 = magpy.current.Circle(current=1, diameter=1)
    d1 = magpy.misc.Dipole(moment=(1, 2, 3))
    t1 = magpy.misc.Triangle(polarization=(0, 0, 1), vertices=[(0, 0, 0), (1, 0, 0), (0, 1, 0)])
    deep = cls(d1, style_label="deep")
    inner = cls(l1, deep, style_label="inner")
    col = cls(c1, s1, inner, t1, style_label="top")
    return col, (c1, s1, l1, d1, t1, deep, inner)


def styles(objs):
    return [flat(o) for o in objs]


# ---- the notations, matching by first level name ------------------------------------
col, objs = make()
arg = {"color": "g", "magnetization_show": False, "path": {"line": {"width": 3}}}
run("dict", lambda: (col.set_children_styles(arg) is col, styles(objs)))
print("   caller dict untouched:", arg)
print("   collection itself untouched:", flat(col))
run("kwargs", lambda: (type(col.set_children_styles(opacity=0.5, arrow_width=3, size=2, pivot="tail", orientation_size=4)).__name__, styles(objs)))
run("dict + kwargs (kwargs win)", lambda: (col.set_children_styles({"color": "r", "opacity": 0.1}, color="b"), styles(objs))[1])
run("nested == underscore", lambda: (col.set_children_styles({"path": {"marker": {"size": 5}}}), col.set_children_styles(path_marker_symbol="x"), styles(objs))[2])
run("same first level twice", lambda: (col.set_children_styles(magnetization_show=True, magnetization_arrow_width=4, magnetization={"mode": "arrow"}), styles(objs))[1])
run("no argument", lambda: (col.set_children_styles(), styles(objs))[1])
run("empty dict", lambda: (col.set_children_styles({}), styles(objs))[1])
run("not recursive", lambda: (col.set_children_styles(color="k", recursive=False), styles(objs))[1])
run("recursive=0", lambda: (col.set_children_styles(color="w", recursive=0), styles(objs))[1])
run("last wins", lambda: (col.set_children_styles(color="r"), col.set_children_styles(color="y"), objs[3].style.update(color="m"), styles(objs))[3])

# ---- error paths --------------------------------------------------------------------------
run("invalid name", lambda: col.set_children_styles({"color": "c", "nope_x": 1}))
print("   nothing applied:", [s[1][:1] for s in styles(objs)])
run("invalid value: partial application in tree order", lambda: col.set_children_styles(opacity=3))
print("   ", [dict(s[1]).get("opacity") for s in styles(objs)])
run("invalid value for one family only", lambda: col.set_children_styles(color="b", pivot="nowhere"))
print("   ", [dict(s[1]).get("color") for s in styles(objs)])
run("invalid second level name", lambda: col.set_children_styles(color="c", path_nope=1))
print("   ", [dict(s[1]).get("color") for s in styles(objs)])
run("invalid second level name for one family only", lambda: col.set_children_styles(color="r", arrow_nope=1))
print("   ", [dict(s[1]).get("color") for s in styles(objs)])
run("arg not a dict", lambda: col.set_children_styles(5))
run("arg list", lambda: col.set_children_styles(["color"]))
run("non str key", lambda: col.set_children_styles({1: 2}))
run("non str key, not validated", lambda: col.set_children_styles({1: 2}, _validate=False))
run("_validate=False, unknown name ignored", lambda: (col.set_children_styles({"nope": 1, "color": "w"}, _validate=False), styles(objs))[1])
run("empty collection", lambda: magpy.Collection().set_children_styles(color="r").children)

# ---- children whose init style arguments are still pending / invalid ---------------------------
lazy = magpy.Sensor(style_size=5, style_color="r")
bad = magpy.Sensor(style_nope=1)
bad2 = magpy.magnet.Cuboid(polarization=(0, 0, 1), dimension=(1, 1, 1), style_opacity=7)
col2 = magpy.Collection(lazy)
run("pending first, then collection style", lambda: (col2.set_children_styles(color="g"), flat(lazy), lazy._style_kwargs)[1:])
col3 = magpy.Collection(magpy.Sensor(), bad, magpy.Sensor())
run("child with invalid init name", lambda: col3.set_children_styles(color="g"))
print("   ", [flat(ch) if ch is not bad else ch._style_kwargs for ch in col3.children])
run("child with invalid init name, nothing to apply", lambda: col3.set_children_styles())
col4 = magpy.Collection(magpy.Sensor(), bad2)
run("child with invalid init value", lambda: col4.set_children_styles(size=3))
print("   ", flat(col4.children[0]), bad2._style_kwargs)

# ---- subclass: the recursion goes through the class of the parent ---------------------------------
mcol, mobjs = make(MyCollection)
MyCollection.calls.clear()
run("subclass", lambda: (mcol.set_children_styles({"color": "g"}, opacity=0.2), styles(mobjs))[1])
for call in MyCollection.calls:
    print("   call:", call)
mixed_inner = magpy.Collection(magpy.Sensor(), style_label="plain inner")
mixed = MyCollection(mixed_inner, magpy.Sensor(), style_label="mixed")
MyCollection.calls.clear()
run("subclass parent, plain child collection", lambda: (mixed.set_children_styles(color="r"), [flat(o) for o in mixed.children_all])[1])
for call in MyCollection.calls:
    print("   call:", call)

# ---- precedence end to end -----------------------------------------------------------------------
from magpylib._src.style import get_style

col, objs = make()
col.set_children_styles(color="g", opacity=0.4)
objs[0].style.opacity = 0.6
res = get_style(objs[0], magpy.defaults, style_color="pink")
print("resolved:", res.color, res.opacity, res.magnetization.arrow.width, res.path.line.width)
cp = col.copy()
cp.set_children_styles(color="b")
print("copy independent:", [dict(flat(o)[1]).get("color") for o in col.children], [dict(flat(o)[1]).get("color") for o in cp.children])
