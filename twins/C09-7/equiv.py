import os, sys; sys.path.insert(0, os.getcwd())
# Equivalence digest for twins2/2 (rotate_from_angax: rotation vector
# construction moved into the module function _rotvec_from_angax).
import warnings
from fractions import Fraction

import numpy as np
from scipy.spatial.transform import Rotation as R

import magpylib as magpy

warnings.simplefilter("ignore")


def dig(a):
    return (np.round(np.asarray(a, dtype=float), 9) + 0.0).tolist()


def state(obj):
    return dig(obj._position), dig(obj._orientation.as_quat())


def show(tag, fn):
    try:
        print(tag, "->", fn())
    except BaseException as err:  # pylint: disable=broad-except
        print(tag, "-> EXC", type(err).__name__, str(err)[:150])


def sensor(n):
    s = magpy.Sensor(position=[(1 + i, 2 * i, -i) for i in range(n)])
    s.rotate_from_rotvec([(3 * (i + 1), -i, 2) for i in range(n)], start=0)
    return s


ANGLES = {
    "int": 30,
    "float": -12.5,
    "zero": 0,
    "bool": True,
    "npfloat": np.float64(100.0),
    "npint": np.int32(7),
    "fraction": Fraction(45, 2),
    "big": 725.0,
    "list1": [15],
    "list3": [15, 30, 45],
    "tuple2": (90, -90),
    "arr4": np.array([1.5, 2.5, 3.5, 400]),
    "intarr": np.array([10, 20]),
    "empty": [],
}
AXES = {
    "x": "x",
    "y": "y",
    "z": "z",
    "tuple": (1, 2, -3),
    "list": [0, 0, 5],
    "arr": np.array([0.1, 0.0, -0.1]),
    "tiny": (1e-200, 0, 0),
}

for n in (1, 3):
    for ak, angle in ANGLES.items():
        for xk, axis in AXES.items():
            for degrees in (True, False):
                for anchor, start in ((None, "auto"), (0, "auto"), ((1, 2, 3), 1), ([(1, 0, 0), (0, 1, 0)], -4)):
                    s = sensor(n)

                    def run():
                        return s.rotate_from_angax(angle, axis, anchor, start, degrees) is s

                    show(f"angax n={n} ang={ak} ax={xk} deg={degrees} anc={anchor} st={start}", run)
                    print("   ", state(s))

# keyword form, Collections (compound rotation), chained calls
for ak in ("int", "list3", "arr4"):
    for xk in ("z", "tuple"):
        inner = magpy.Collection(sensor(2), position=[(0, 0, 1), (0, 1, 1), (1, 1, 1)])
        outer = magpy.Collection(inner, sensor(1), position=(3, 2, 1))
        outer.rotate_from_angax(angle=ANGLES[ak], axis=AXES[xk], degrees=False, start=1)
        outer.rotate_from_angax(ANGLES[ak], AXES[xk]).rotate_from_angax(-5, "x", anchor=(1, 1, 1))
        print("coll", ak, xk, state(outer), state(inner), state(inner.children[0]), state(outer.children[1]))

# equals rotate() with the equivalent rotation
for ak in ("float", "list3"):
    s1, s2 = sensor(2), sensor(2)
    s1.rotate_from_angax(ANGLES[ak], (0, 3, 4), anchor=(1, 0, 0), start=1)
    ang = np.deg2rad(np.array(ANGLES[ak], dtype=float))
    rv = np.array((0, 0.6, 0.8)) * (ang if ang.ndim == 0 else ang[:, None])
    s2.rotate(R.from_rotvec(rv), anchor=(1, 0, 0), start=1)
    print("vs rotate", ak, np.allclose(s1._position, s2._position), np.allclose(
        (s1._orientation * s2._orientation.inv()).magnitude(), 0))

# inputs are not modified
ang_in = np.array([10.0, 20.0])
ax_in = np.array([0.0, 2.0, 0.0])
sensor(1).rotate_from_angax(ang_in, ax_in)
print("inputs untouched", dig(ang_in), dig(ax_in))

# error paths: nothing may change
s = sensor(2)
ref = state(s)
for tag, args in {
    "angle str": ("a", "z"),
    "angle None": (None, "z"),
    "angle 2d": ([[1, 2]], "z"),
    "angle text": (["a"], "z"),
    "angle dict": ({1: 2}, "z"),
    "axis bad str": (10, "w"),
    "axis empty str": (10, ""),
    "axis zero": (10, (0, 0, 0)),
    "axis 2": (10, (1, 2)),
    "axis 2d": (10, [(1, 2, 3)]),
    "axis None": (10, None),
    "axis number": (10, 1),
    "both bad": ("a", "w"),
    "axis nan": (10, (np.nan, 0, 0)),
    "axis inf": (10, (np.inf, 0, 0)),
    "angle nan": (np.nan, "x"),
    "angle inf list": ([np.inf, 1], "x"),
}.items():
    show(tag, lambda args=args: s.rotate_from_angax(*args) is s)
    print("    unchanged", state(s) == ref)
    s = sensor(2)
for tag, kw in {
    "start float": dict(start=1.0),
    "start str": dict(start="end"),
    "start None": dict(start=None),
    "degrees int": dict(degrees=1),
    "degrees str": dict(degrees="yes"),
    "degrees None": dict(degrees=None),
    "degrees npbool": dict(degrees=np.True_),
    "start+degrees": dict(start=1.5, degrees=0),
    "anchor bad": dict(anchor=(1, 2)),
    "anchor 1": dict(anchor=1),
}.items():
    show(tag, lambda kw=kw: s.rotate_from_angax(10, "z", **kw) is s)
    show(tag + " vec", lambda kw=kw: s.rotate_from_angax([10, 20], (1, 1, 1), **kw) is s)
    print("    unchanged", state(s) == ref)
show("axis bad + start bad", lambda: s.rotate_from_angax(10, "w", start="q"))
show("angle bad + degrees bad", lambda: s.rotate_from_angax("a", "z", degrees=3))
print("    unchanged", state(s) == ref)
