import os, sys; sys.path.insert(0, os.getcwd())
import hashlib
import re
import warnings

import numpy as np
from scipy.spatial.transform import Rotation as R

import magpylib as magpy
from magpylib._src.fields.field_wrap_BH import getBH_dict_level2

warnings.simplefilter("ignore")


def h(x):
    x = np.ascontiguousarray(np.asarray(x))
    return f"{x.shape} {x.dtype} {hashlib.sha1(x.tobytes()).hexdigest()[:16]}"


def dig(x):
    if x is None:
        return "None"
    x = np.asarray(x)
    return f"{h(x)} {np.round(x.astype(float), 10).ravel()[:6].tolist()}"


def chain(err):
    out = []
    for e in (err.__cause__, err.__context__):
        out.append("-" if e is None else f"{type(e).__name__}({str(e)[:40]})")
    return " cause/ctx=" + ",".join(out)


def run(name, fn):
    try:
        print(name, "->", dig(fn()))
    except Exception as err:  # pylint: disable=broad-except
        msg = re.sub(r"0x[0-9a-f]+|id=\d+", "ADDR", str(err).replace("\n", " / "))
        print(name, "-> EXC", type(err).__name__, "|", msg[:230], "|", chain(err))


n = 4
obs1 = (0.3, 0.2, 0.7)
obsn = [(0.3 + 0.1 * i, 0.2, 0.7 - 0.2 * i) for i in range(n)]
posn = [(0.1 * i, -0.1 * i, 0.05 * i) for i in range(n)]
rotn = R.from_rotvec([(0.1 * i, 0.2, 0.3 * i) for i in range(n)])
rot1 = R.from_rotvec((0.3, 0.2, 0.1))
rot1n = R.from_rotvec([(0.3, 0.2, 0.1)])
tetra = [(0, 0, 0), (1, 0, 0), (0, 1, 0), (0, 0, 1)]
tri = [(0, 0, 0), (1, 0, 0), (0, 1, 0)]
mesh = [[(0, 0, 0), (0, 1, 0), (1, 0, 0)], [(0, 0, 0), (1, 0, 0), (0, 0, 1)],
        [(0, 0, 0), (0, 0, 1), (0, 1, 0)], [(1, 0, 0), (0, 1, 0), (0, 0, 1)]]

CASES = {
    "Cuboid": [dict(polarization=(0.1, 0.2, 0.3), dimension=(1, 2, 3)),
               dict(polarization=[(0.1 * i, 0.2, 0.3) for i in range(n)], dimension=[(1, 2, 3 + i) for i in range(n)]),
               dict(polarization=[(0.1, 0.2, 0.3)], dimension=[(1, 2, 3)]),            # arrays of length 1
               dict(magnetization=(1e5, 2e5, 3e5), dimension=np.array([(1, 2, 3)] * n))],
    "Cylinder": [dict(polarization=(0.1, 0.2, 0.3), dimension=(1, 2)),
                 dict(polarization=(0.1, 0.2, 0.3), dimension=[(1 + i, 2) for i in range(n)])],
    "CylinderSegment": [dict(polarization=(0.1, 0.2, 0.3), dimension=(1, 2, 3, 10, 170)),
                        dict(polarization=[(0.1, 0.2, 0.3 * i) for i in range(n)], dimension=(1, 2, 3, 10, 170))],
    "Sphere": [dict(polarization=(0.1, 0.2, 0.3), diameter=1.5),
               dict(polarization=(0.1, 0.2, 0.3), diameter=[1.5, 1, 2, 0.5]),
               dict(polarization=(0.1, 0.2, 0.3), diameter=[1.5]),
               dict(polarization=(0.1, 0.2, 0.3), diameter=np.float32(1.5))],
    "Tetrahedron": [dict(polarization=(0.1, 0.2, 0.3), vertices=tetra),
                    dict(polarization=[(0.1, 0.2, 0.3)] * n, vertices=[tetra] * n),
                    dict(polarization=(0.1, 0.2, 0.3), vertices=[tetra])],
    "Triangle": [dict(polarization=(0.1, 0.2, 0.3), vertices=tri),
                 dict(polarization=[(0.1 * i, 0.2, 0.3) for i in range(n)], vertices=tri)],
    "TriangularMesh": [dict(polarization=(0.1, 0.2, 0.3), mesh=mesh),
                       dict(polarization=[(0.1 * i, 0.2, 0.3) for i in range(n)], mesh=[mesh] * n),
                       # ragged meshes
                       dict(polarization=(0.1, 0.2, 0.3), mesh=[mesh, mesh[:3], mesh[:2], mesh])],
    "Circle": [dict(current=2.5, diameter=1.2),
               dict(current=[1, 2, 3, 4], diameter=[1.2, 1.3, 1.4, 1.5]),
               dict(current=True, diameter=2)],
    "Polyline": [dict(current=2.5, segment_start=(0, 0, 0), segment_end=(1, 1, 1)),
                 dict(current=[1, 2, 3, 4], segment_start=[(0, 0, 0.1 * i) for i in range(n)], segment_end=(1, 1, 1)),
                 dict(current=2.5, vertices=[(0, 0, 0), (1, 1, 1), (2, 0, 1)]),
                 dict(current=[1, 2, 3, 4], vertices=[[(0, 0, 0), (1, 1, 1), (2, 0, 1)]] * n),
                 dict(current=[1, 2, 3, 4], vertices=[[(0, 0, 0), (1, 1, 1)], [(0, 0, 0), (1, 1, 1), (2, 0, 1)],
                                                      [(0, 0, 0), (1, 0, 1)], [(0, 0, 0), (1, 1, 1), (2, 0, 1), (3, 3, 3)]]),
                 # ragged sequence of length 1 is not ragged: one instance
                 dict(current=[3], vertices=[[(0, 0, 0), (1, 1, 1), (2, 0, 1)]])],
    "Dipole": [dict(moment=(1, 2, 3)), dict(moment=[(1, 2, 3 * i) for i in range(n)]), dict(moment=[(1, 2, 3)])],
}

print("registered:", sorted(magpy._src.utility.get_registered_sources()))
for cls, sets in CASES.items():
    for k, params in enumerate(sets):
        for field in "BHJM":
            f = getattr(magpy, "get" + field)
            run(f"{cls}.{k}.{field}.obs1", lambda: f(cls, obs1, **params))
            run(f"{cls}.{k}.{field}.obsn", lambda: f(cls, obsn, **params))
        run(f"{cls}.{k}.posn", lambda: magpy.getB(cls, obsn, position=posn, **params))
        run(f"{cls}.{k}.pos1n", lambda: magpy.getB(cls, obsn, position=[(1, 2, 3)], **params))
        run(f"{cls}.{k}.rot1", lambda: magpy.getH(cls, obs1, orientation=rot1, position=(1, 2, 3), **params))
        run(f"{cls}.{k}.rot1n", lambda: magpy.getH(cls, obsn, orientation=rot1n, **params))
        run(f"{cls}.{k}.rotn", lambda: magpy.getB(cls, obsn, orientation=rotn, position=posn, **params))
        run(f"{cls}.{k}.rotn.obs1", lambda: magpy.getB(cls, obs1, orientation=rotn, **params))
        run(f"{cls}.{k}.nosqueeze", lambda: magpy.getB(cls, obs1, squeeze=False, **params))
        run(f"{cls}.{k}.nosqueeze.n", lambda: magpy.getH(cls, [obs1], position=[(1, 2, 3)], squeeze=False, **params))
        run(f"{cls}.{k}.kwarg-order", lambda: magpy.getB(cls, obsn, **dict(reversed(list(params.items())))))

print("== same numbers as the object oriented interface")
obj = magpy.magnet.Cuboid(polarization=(0.1, 0.2, 0.3), dimension=(1, 2, 3), position=(1, 2, 3), orientation=rot1)
a = magpy.getB("Cuboid", obsn, position=(1, 2, 3), orientation=rot1, polarization=(0.1, 0.2, 0.3), dimension=(1, 2, 3))
print("Cuboid:", np.array_equal(a, obj.getB(obsn)), np.array_equal(a, magpy.Sensor(pixel=obsn).getB(obj)),
      np.array_equal(a, magpy.Collection(obj.copy()).getB(obsn)))
circs = [magpy.current.Circle(current=i + 1, diameter=1.2 + 0.1 * i, position=posn[i], orientation=rotn[i]) for i in range(n)]
b = magpy.getH("Circle", obsn, current=[1, 2, 3, 4], diameter=[1.2, 1.3, 1.4, 1.5], position=posn, orientation=rotn)
print("Circle per instance:", [bool(np.array_equal(b[i], circs[i].getH(obsn[i]))) for i in range(n)])

print("== other entry points")
run("in_out.tetra", lambda: magpy.getB("Tetrahedron", obsn, in_out="outside", **CASES["Tetrahedron"][0]))
run("in_out.mesh", lambda: magpy.getB("TriangularMesh", obsn, in_out="inside", **CASES["TriangularMesh"][0]))
run("in_out.cuboid", lambda: magpy.getB("Cuboid", obsn, in_out="inside", **CASES["Cuboid"][0]))
run("custom.none", lambda: getBH_dict_level2("CustomSource", obsn, field="B"))
run("custom.none.nosqueeze", lambda: getBH_dict_level2("CustomSource", obs1, field="H", squeeze=False))
run("direct", lambda: getBH_dict_level2("Dipole", obsn, field="H", moment=(1, 2, 3), position=posn, orientation=rotn, squeeze=False))
run("direct.positional", lambda: getBH_dict_level2("Dipole", obs1, field="B", moment=(1, 2, 3)))
run("sumup/pixel_agg/output are ignored", lambda: magpy.getB("Dipole", obsn, sumup=True, pixel_agg="mean", output="dataframe", moment=(1, 2, 3)))
run("sources= keyword", lambda: magpy.getB(sources="Dipole", observers=obsn, moment=(1, 2, 3)))

print("== error paths")
run("err.unknown-class", lambda: magpy.getB("Cube", obs1, polarization=(1, 2, 3), dimension=(1, 2, 3)))
run("err.unknown-class-direct", lambda: getBH_dict_level2("Cube", obs1, field="B"))
run("err.lowercase", lambda: magpy.getH("cuboid", obs1, polarization=(1, 2, 3), dimension=(1, 2, 3)))
run("err.base-class", lambda: magpy.getH("BaseMagnet", obs1, polarization=(1, 2, 3)))
run("err.empty-name", lambda: magpy.getH("", obs1))
run("err.unhashable-class", lambda: getBH_dict_level2(["Cuboid"], obs1, field="B"))
run("err.None-class", lambda: getBH_dict_level2(None, obs1, field="B"))
run("err.unknown-class-and-bad-orientation", lambda: magpy.getB("Cube", obs1, orientation=None))
run("err.lengths", lambda: magpy.getB("Cuboid", obsn, polarization=[(1, 2, 3)] * 3, dimension=(1, 2, 3)))
run("err.lengths2", lambda: magpy.getB("Circle", obsn, current=[1, 2], diameter=[1, 2, 3], position=posn))
run("err.lengths3", lambda: magpy.getB("Circle", obsn[:3], diameter=[1, 2], current=[1, 2], orientation=rotn))
run("err.lengths-ragged", lambda: magpy.getB("Polyline", obsn, current=[1, 2, 3], vertices=CASES["Polyline"][4]["vertices"]))
run("err.not-arraylike", lambda: magpy.getB("Cuboid", obs1, polarization=None, dimension=(1, 2, 3)))
run("err.not-arraylike2", lambda: magpy.getB("Circle", obs1, current=object(), diameter=1))
run("err.not-arraylike-then-lengths", lambda: magpy.getB("Circle", obsn, current=[1, 2], diameter=None))
run("err.lengths-then-not-arraylike", lambda: magpy.getB("Circle", obsn, diameter=None, current=[1, 2]))
run("err.string", lambda: magpy.getB("Circle", obs1, current="a", diameter=1))
run("err.missing", lambda: magpy.getB("Cuboid", obs1, polarization=(1, 2, 3)))
run("err.unknown-kwarg", lambda: magpy.getB("Cuboid", obs1, polarization=(1, 2, 3), dimension=(1, 2, 3), bla=1))
run("err.unknown-kwarg-vector", lambda: magpy.getB("Cuboid", obsn, polarization=(1, 2, 3), dimension=(1, 2, 3), bla=[1, 2]))
run("err.kwargs-with-object", lambda: magpy.getB(obj, obs1, polarization=(1, 2, 3)))
run("err.orientation-none", lambda: magpy.getB("Dipole", obs1, moment=(1, 2, 3), orientation=None))
run("err.orientation-array", lambda: magpy.getB("Dipole", obs1, moment=(1, 2, 3), orientation=(0, 0, 0, 1)))
run("err.bad-field", lambda: getBH_dict_level2("Dipole", obs1, field="X", moment=(1, 2, 3)))
run("err.ragged-obs", lambda: magpy.getB("Dipole", [(1, 2, 3), (1, 2)], moment=(1, 2, 3)))
run("err.too-many-dims", lambda: magpy.getB("Dipole", [[obs1, obs1]], moment=(1, 2, 3)))
run("err.empty-obs", lambda: magpy.getB("Dipole", [], moment=(1, 2, 3)))
run("err.empty-param", lambda: magpy.getB("Dipole", obs1, moment=[]))
run("err.scalar-obs", lambda: magpy.getB("Dipole", 1, moment=(1, 2, 3)))
run("err.observers-twice", lambda: magpy.getB("Dipole", obs1, moment=(1, 2, 3), **{"observers": obs1}))


print("== user-registered classes")


class MySource(magpy.misc.CustomSource):
    _field_func = staticmethod(lambda field, observers, strength: None if field == "H" else observers * strength[:, None])
    _field_func_kwargs_ndim = {"strength": 1}


class MyMatrixSource(magpy.misc.CustomSource):
    """parameter with three expected dimensions and one that overrides the default of observers"""
    _field_func = staticmethod(lambda field, observers, tensor: np.einsum("nij,nj->ni", tensor, observers))
    _field_func_kwargs_ndim = {"tensor": 3}


class MyPairsSource(magpy.misc.CustomSource):
    """table given as a sequence of pairs instead of a dict"""
    _field_func = staticmethod(lambda field, observers, gain: observers * gain[:, None])
    _field_func_kwargs_ndim = (("gain", 1),)


class MyZeroDimSource(magpy.misc.CustomSource):
    """table with an expected dimension of zero"""
    _field_func = staticmethod(lambda field, observers, gain: observers * gain)
    _field_func_kwargs_ndim = {"gain": 0}


class MyNoTableSource(magpy.misc.CustomSource):
    _field_func = staticmethod(lambda field, observers: observers * 2.0)
    _field_func_kwargs_ndim = None


run("user-class.none", lambda: magpy.getH("MySource", obsn, strength=2))
run("user-class.none.nosqueeze", lambda: magpy.getH("MySource", obsn, strength=2, squeeze=False))
run("user-class.single", lambda: magpy.getB("MySource", obsn, strength=2))
run("user-class.n", lambda: magpy.getB("MySource", obsn, strength=[1, 2, 3, 4], position=posn, orientation=rotn))
run("user-class.n1", lambda: magpy.getB("MySource", [obs1], strength=[3], squeeze=False))
eye = np.eye(3) * 2.0
run("matrix.single", lambda: magpy.getB("MyMatrixSource", obsn, tensor=eye))
run("matrix.n", lambda: magpy.getB("MyMatrixSource", obsn, tensor=[eye * i for i in range(n)]))
run("matrix.1", lambda: magpy.getB("MyMatrixSource", obsn, tensor=[eye]))
run("matrix.lengths", lambda: magpy.getB("MyMatrixSource", obsn, tensor=[eye, eye]))
run("pairs.single", lambda: magpy.getB("MyPairsSource", obsn, gain=2))
run("pairs.n", lambda: magpy.getB("MyPairsSource", obsn, gain=[1, 2, 3, 4]))
run("zerodim.scalar", lambda: magpy.getB("MyZeroDimSource", obsn, gain=2))
run("zerodim.scalar-then-bad", lambda: magpy.getB("MyZeroDimSource", obsn, gain=2, other=None))
run("zerodim.bad-then-scalar", lambda: magpy.getB("MyZeroDimSource", obsn, other=None, gain=2))
run("zerodim.vector", lambda: magpy.getB("MyZeroDimSource", obsn, gain=[1, 2, 3, 4]))
run("notable", lambda: magpy.getB("MyNoTableSource", obsn))
