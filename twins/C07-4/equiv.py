import os, sys; sys.path.insert(0, os.getcwd())
import hashlib
import re
import warnings

import numpy as np

import magpylib as magpy

warnings.simplefilter("ignore")


def clean(s):
    return re.sub(r"0x[0-9a-f]+|id=\d+", "ADDR", str(s))


def dig(x):
    if hasattr(x, "columns"):
        x = x.iloc[:, 4:].to_numpy()
    x = np.asarray(x)
    return f"{x.shape} {hashlib.sha1(np.ascontiguousarray(x).tobytes()).hexdigest()[:16]} {np.round(x.astype(float), 10).ravel()[:4].tolist()}"


def run(name, fn):
    try:
        print(name, "->", dig(fn()))
    except Exception as err:  # pylint: disable=broad-except
        print(name, "-> EXC", type(err).__name__, "|", clean(err).replace("\n", " / ")[:220])


def describe(x, names):
    """describe the (sources, sensors) selection by identity"""
    if isinstance(x, (list, tuple)):
        return type(x).__name__ + "[" + ", ".join(describe(i, names) for i in x) + "]"
    return names.get(id(x), repr(type(x).__name__))


cub = magpy.magnet.Cuboid(polarization=(0.1, 0.2, 0.3), dimension=(1, 2, 3))
cyl = magpy.magnet.Cylinder(polarization=(0.3, 0.2, 0.1), dimension=(1, 2), position=[(0, 0, 0), (0.1, 0, 0), (0.2, 0, 0)])
circ = magpy.current.Circle(current=2, diameter=3, position=(0, 0, 1))
s1 = magpy.Sensor(pixel=[(0, 0, 0), (0.1, 0.1, 0.1)], position=(2, 2, 2)).rotate_from_angax(30, "y")
s2 = magpy.Sensor(pixel=[(0, 0, 0), (0.1, 0.1, 0.1)], position=(-2, 2, 2))
ext1 = magpy.magnet.Sphere(polarization=(0, 0, 1), diameter=1)
ext2 = magpy.misc.Dipole(moment=(1, 2, 3), position=(1, 1, 1))
exts = magpy.Sensor(position=(1, 2, 3))

c_src = magpy.Collection(cub, cyl)
c_src_nested = magpy.Collection(magpy.Collection(circ), magpy.Collection())
c_sens = magpy.Collection(s1, s2)
c_mixed = magpy.Collection(cub.copy(), cyl.copy(), s1.copy(), s2.copy())
c_mixed_nested = magpy.Collection(magpy.Collection(circ.copy()), magpy.Collection(s1.copy()))
c_empty = magpy.Collection()
c_empty_nested = magpy.Collection(magpy.Collection())
colls = dict(c_src=c_src, c_src_nested=c_src_nested, c_sens=c_sens, c_mixed=c_mixed,
             c_mixed_nested=c_mixed_nested, c_empty=c_empty, c_empty_nested=c_empty_nested)
names = {id(v): k for k, v in {**colls, "ext1": ext1, "ext2": ext2, "exts": exts, "s1": s1, "s2": s2}.items()}
pos = (1, 2, 3)
pos2 = [(1, 2, 3), (2, 3, 4)]
names[id(pos)] = "pos"
names[id(pos2)] = "pos2"

inputs = {
    "()": (),
    "(s1,)": (s1,),
    "(s1,s2)": (s1, s2),
    "([s1,s2],)": ([s1, s2],),
    "(pos,)": (pos,),
    "(pos2,)": (pos2,),
    "(pos,pos)": (pos, pos),
    "(ext1,)": (ext1,),
    "(ext1,ext2)": (ext1, ext2),
    "([ext1,ext2],)": ([ext1, ext2],),
    "(c_sens,)": (c_sens,),
    "(c_src,)": (c_src,),
    "(None,)": (None,),
}

for cname, col in colls.items():
    for iname, inp in inputs.items():
        # 1) the selection itself
        try:
            srcs, sens = col._validate_getBH_inputs(*inp)
            print(f"{cname}._validate{iname} -> sources={describe(srcs, names)} sensors={describe(sens, names)}")
        except Exception as err:  # pylint: disable=broad-except
            print(f"{cname}._validate{iname} -> EXC", type(err).__name__, "|", clean(err)[:200])
        # 2) the fields through the collection methods
        for field in "BHJM":
            run(f"{cname}.get{field}{iname}", lambda: getattr(col, "get" + field)(*inp))
    run(f"{cname}.getB.kw", lambda: col.getB(*inputs["(s1,s2)"], squeeze=False, pixel_agg="mean"))
    run(f"{cname}.getH.df", lambda: col.getH(*inputs["(s1,s2)"], output="dataframe"))

# consistency with the top-level function
print("c_src vs top:", np.array_equal(c_src.getB(s1, s2), magpy.getB(c_src, [s1, s2])))
print("c_sens vs top:", np.array_equal(c_sens.getH(ext1, ext2), magpy.getH([ext1, ext2], c_sens)))
print("c_mixed vs top:", np.array_equal(c_mixed.getB(), magpy.getB(c_mixed, c_mixed)))
