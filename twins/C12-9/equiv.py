import os, sys; sys.path.insert(0, os.getcwd())
import hashlib
import warnings

import numpy as np

import magpylib as magpy
from magpylib._src.fields.field_BH_polyline import BHJM_current_polyline
from magpylib._src.fields.field_BH_polyline import current_vertices_field

warnings.simplefilter("ignore")
np.set_printoptions(precision=10, linewidth=200)


def digest(tag, arr):
    arr = np.asarray(arr)
    kind = arr.dtype.kind
    flags = (arr.flags["C_CONTIGUOUS"], arr.flags["OWNDATA"])
    arr = np.ascontiguousarray(arr.astype(float))
    h = hashlib.sha256(arr.tobytes()).hexdigest()[:16]
    print(tag, arr.shape, kind, flags, h)
    print(np.array2string(arr.ravel()[:15], precision=10))


def attempt(tag, func):
    try:
        digest(tag, func())
    except Exception as err:  # pylint: disable=broad-except
        print(tag, "EXC", type(err).__name__, str(err)[:120].replace("\n", " | "))


rng = np.random.default_rng(2404)

# --- BHJM_current_polyline: zero-length / nan / on-line / general segments -------------
start0 = rng.uniform(-1, 1, size=(12, 3))
end0 = rng.uniform(-1, 1, size=(12, 3))
obs0 = rng.uniform(-2, 2, size=(12, 3))
cur0 = rng.uniform(-5, 5, size=12)
end0[2] = start0[2]  # zero length
start0[4] = np.nan  # discontinuity marker
end0[5] = np.nan
start0[7], end0[7], obs0[7] = (0, 0, 0), (1, 0, 0), (0.5, 0, 0)  # observer on segment
start0[8], end0[8], obs0[8] = (0, 0, 0), (1, 1, 1), (2, 2, 2)  # observer on line extension
start0[9, 0] = np.nan  # only partly nan -> not a marker

for scale in (1.0, 1e-9, 1e-3, 1e6, 1e9):
    for cscale in (1.0, 1e-12, 1e12):
        for field in "BHJM":
            attempt(
                f"seg s={scale:g} c={cscale:g} {field}",
                lambda: BHJM_current_polyline(field, obs0 * scale, start0 * scale, end0 * scale, cur0 * cscale),
            )
for field in "BH":
    attempt(f"seg all-zero {field}", lambda: BHJM_current_polyline(field, obs0[:3], start0[:3], start0[:3], cur0[:3]))
    attempt(f"seg none-zero {field}", lambda: BHJM_current_polyline(field, obs0[:2], start0[:2], end0[:2], cur0[:2]))
    attempt(f"seg empty {field}", lambda: BHJM_current_polyline(field, obs0[:0], start0[:0], end0[:0], cur0[:0]))
    attempt(
        f"seg int {field}",
        lambda: BHJM_current_polyline(
            field, np.array([(1, 1, 1), (2, 2, 2), (0, 0, 0)]), np.array([(0, 0, 0)] * 3),
            np.array([(1, 0, 0), (0, 0, 0), (0, 1, 0)]), np.array([1, 2, 3]),
        ),
    )
o, s_, e, c = obs0.copy(), start0.copy(), end0.copy(), cur0.copy()
BHJM_current_polyline("B", o, s_, e, c)
print("untouched", np.array_equal(o, obs0), np.array_equal(s_, start0, equal_nan=True),
      np.array_equal(e, end0, equal_nan=True), np.array_equal(c, cur0))

# --- current_vertices_field ---------------------------------------------------------------
n = 6
obs = rng.uniform(-2, 2, size=(n, 3))
cur = rng.uniform(-5, 5, size=n)
verts_reg = rng.uniform(-1, 1, size=(n, 5, 3))
verts_reg[1, 2] = verts_reg[1, 1]  # repeated vertex -> zero-length segment
verts_reg[3, 0] = obs[3]  # observer on a vertex
verts_rag = np.empty(n, dtype=object)
for i, m in enumerate((2, 5, 3, 3, 7, 2)):
    verts_rag[i] = rng.uniform(-1, 1, size=(m, 3))
verts_rag_list = list(verts_rag)
verts_rag_first_differs = np.empty(n, dtype=object)
for i, m in enumerate((4, 3, 3, 3, 3, 3)):
    verts_rag_first_differs[i] = rng.uniform(-1, 1, size=(m, 3))
verts_rag_last_differs = np.empty(n, dtype=object)
for i, m in enumerate((3, 3, 3, 3, 3, 2)):
    verts_rag_last_differs[i] = rng.uniform(-1, 1, size=(m, 3))


def scaled(verts, scale):
    if verts.dtype == object:
        out = np.empty(len(verts), dtype=object)
        for i, v in enumerate(verts):
            out[i] = v * scale
        return out
    return verts * scale


for scale in (1.0, 1e-9, 1e-3, 1e6, 1e9):
    for cscale in (1.0, 1e-12, 1e12):
        for field in "BHJM":
            for name, verts in (("reg", verts_reg), ("rag", verts_rag), ("ragF", verts_rag_first_differs),
                                ("ragL", verts_rag_last_differs)):
                attempt(
                    f"vert {name} s={scale:g} c={cscale:g} {field}",
                    lambda: current_vertices_field(field, obs * scale, cur * cscale, vertices=scaled(verts, scale)),
                )
            attempt(
                f"vert none s={scale:g} c={cscale:g} {field}",
                lambda: current_vertices_field(
                    field, obs * scale, cur * cscale, segment_start=start0[:n] * scale, segment_end=end0[:n] * scale
                ),
            )
attempt("vert rag list", lambda: current_vertices_field("B", obs, cur, vertices=verts_rag_list))
attempt("vert single", lambda: current_vertices_field("H", obs[:1], cur[:1], vertices=verts_reg[:1]))
attempt("vert single rag", lambda: current_vertices_field("H", obs[:1], cur[:1], vertices=verts_rag[:1]))
attempt("vert two pts", lambda: current_vertices_field("H", obs, cur, vertices=verts_reg[:, :2]))
attempt("vert one pt", lambda: current_vertices_field("H", obs, cur, vertices=verts_reg[:, :1]))

# object interface at three units
for scale in (1.0, 1e-6, 1e6):
    def build():
        p1 = magpy.current.Polyline(current=2.5, vertices=verts_reg[0] * scale)
        p2 = magpy.current.Polyline(current=-1.5, vertices=verts_rag[4] * scale, position=(0.1 * scale, 0, 0))
        p3 = magpy.current.Polyline(current=1.0, vertices=verts_reg[2] * scale)
        o_ = obs * scale
        return np.concatenate([magpy.getB([p1, p2, p3], o_).ravel(), magpy.getH([p1, p3], o_).ravel(),
                               magpy.getH(p2, o_).ravel(), magpy.getJ(p1, o_).ravel()])
    attempt(f"obj s={scale:g}", build)

# --- error paths ---------------------------------------------------------------------------
attempt("err field X seg", lambda: BHJM_current_polyline("X", obs0, start0, end0, cur0))
attempt("err field X reg", lambda: current_vertices_field("X", obs, cur, vertices=verts_reg))
attempt("err field X rag", lambda: current_vertices_field("X", obs, cur, vertices=verts_rag))
attempt("err seg obs short", lambda: BHJM_current_polyline("B", obs0[:5], start0, end0, cur0))
attempt("err seg cur short", lambda: BHJM_current_polyline("B", obs0, start0, end0, cur0[:5]))
attempt("err seg start short", lambda: BHJM_current_polyline("B", obs0, start0[:5], end0, cur0))
attempt("err seg end short", lambda: BHJM_current_polyline("B", obs0, start0, end0[:5], cur0))
attempt("err seg cur short no-mask", lambda: BHJM_current_polyline("B", obs0[:2], start0[:2], end0[:2], cur0[:1]))
attempt("err seg cur list", lambda: BHJM_current_polyline("B", obs0, start0, end0, list(cur0)))
attempt("err vert list same len", lambda: current_vertices_field("B", obs, cur, vertices=list(verts_reg)))
attempt("err vert empty list", lambda: current_vertices_field("B", obs, cur, vertices=[]))
attempt("err vert empty array", lambda: current_vertices_field("B", obs[:0], cur[:0], vertices=verts_reg[:0]))
attempt("err vert obs short", lambda: current_vertices_field("B", obs[:3], cur, vertices=verts_reg))
attempt("err vert cur short rag", lambda: current_vertices_field("B", obs, cur[:3], vertices=verts_rag))
attempt("err vert 2d", lambda: current_vertices_field("B", obs, cur, vertices=verts_reg[0]))
attempt("err vert scalars", lambda: current_vertices_field("B", obs, cur, vertices=[1.0, 2.0]))
attempt("err none none", lambda: current_vertices_field("B", obs, cur))
