import os, sys; sys.path.insert(0, os.getcwd())
import hashlib
import re
import warnings

import numpy as np

import magpylib as magpy
from magpylib._src.fields.field_BH_cylinder import BHJM_magnet_cylinder

warnings.simplefilter("ignore")
np.seterr(all="ignore")


def dig(name, arr):
    arr = np.ascontiguousarray(np.asarray(arr, dtype=float))
    h = hashlib.sha256(arr.tobytes()).hexdigest()[:16]
    print(name, arr.shape, arr.dtype, h, np.round(arr.ravel()[:6], 12).tolist())


def attempt(name, func, *args, **kwargs):
    try:
        dig(name, func(*args, **kwargs))
    except Exception as err:  # pylint: disable=broad-except
        msg = re.sub(r"id=\d+|0x[0-9a-fA-F]+", "ID", str(err).replace("\n", " "))
        print(name, type(err).__name__, msg[:110])


# cylinder with diameter 2 and height 2 unless stated otherwise
rows = [
    # observer, dimension, polarization
    ((0.3, 0.4, 0.5), (2, 2), (0, 0, 1)),  # inside, axial
    ((0.3, 0.4, 0.5), (2, 2), (1, 0, 0)),  # inside, transversal
    ((0.3, 0.4, 0.5), (2, 2), (0.3, -0.4, 0.5)),  # inside, mixed
    ((2.0, 1.0, 0.5), (2, 2), (0, 0, 1)),  # outside, axial
    ((2.0, 1.0, 0.5), (2, 2), (0, 1, 0)),  # outside, transversal
    ((2.0, 1.0, 3.5), (2, 2), (0.3, -0.4, 0.5)),  # outside, mixed
    ((0.3, 0.4, 0.5), (2, 2), (0, 0, 0)),  # zero polarization inside
    ((5.0, 0.4, 0.5), (2, 2), (0, 0, 0)),  # zero polarization outside
    ((1.0, 0.0, 1.0), (2, 2), (0.3, -0.4, 0.5)),  # on edge
    ((0.0, -1.0, -1.0), (2, 2), (0, 0, 1)),  # on edge
    ((0.6, 0.8, 0.2), (2, 2), (0.3, -0.4, 0.5)),  # on hull
    ((0.1, 0.2, 1.0), (2, 2), (0.3, -0.4, 0.5)),  # on top
    ((0.0, 0.0, 0.3), (2, 2), (0.3, -0.4, 0.5)),  # on axis inside
    ((0.0, 0.0, 2.3), (2, 2), (1, 1, 0)),  # on axis outside
    ((0.01, 0.02, 0.3), (2, 2), (0.3, -0.4, 0.5)),  # small r
    ((0.01, 0.0, -4.0), (2, 2), (1, 0, 0)),  # small r outside
    ((1.0, 0.0, 2.0), (2, 2), (0.3, 0.4, 0.5)),  # r = r0 above
    ((0.3, 0.4, 0.5), (3, 0.5), (0.3, -0.4, 0.5)),  # flat cylinder, outside
    ((0.3, 0.4, 0.1), (3, 0.5), (0, 2, -1)),  # flat cylinder, inside
    ((np.nan, 0.4, 0.1), (2, 2), (0, 2, -1)),
    ((0.3, 0.4, 0.1), (2, 2), (np.nan, 0, 1)),
    ((-0.7, 0.1, -0.9), (2, 2), (-1, 0, 0)),  # inside
    ((-0.7, 0.1, -0.9), (2, 2), (0, 0, -1)),  # inside
]
obs = np.array([r[0] for r in rows], dtype=float)
dim = np.array([r[1] for r in rows], dtype=float)
pol = np.array([r[2] for r in rows], dtype=float)
n = len(rows)

for f in "BHJM":
    attempt(f"all-{f}", BHJM_magnet_cylinder, f, obs, dim, pol)
    res = BHJM_magnet_cylinder(f, obs, dim, pol)
    print(f"all-{f} signbits", hashlib.sha256(np.signbit(res).tobytes()).hexdigest()[:12])

# dependence on the batch: only through the small-n switch of the elliptic routines
for f in "BH":
    joint = BHJM_magnet_cylinder(f, obs, dim, pol)
    single = np.concatenate(
        [BHJM_magnet_cylinder(f, obs[i : i + 1], dim[i : i + 1], pol[i : i + 1]) for i in range(n)]
    )
    dig(f"single-{f}", single)
    print(f"single-{f} close", np.allclose(joint, single, rtol=1e-10, atol=0, equal_nan=True))
    perm = np.random.default_rng(5).permutation(n)
    print(
        f"perm-{f}",
        np.array_equal(BHJM_magnet_cylinder(f, obs[perm], dim[perm], pol[perm]), joint[perm], equal_nan=True),
    )

# subsets with only one kind of row
kinds = {
    "axial": [0, 3, 9, 22],
    "transversal": [1, 4, 13, 15, 21],
    "mixed": [2, 5, 10, 11, 12, 14],
    "zero-pol": [6, 7],
    "edge": [8, 9],
    "tv-outside": [4, 13, 15],
    "ax-outside": [3],
    "one-row": [2],
    "empty": [],
}
for name, idx in kinds.items():
    for f in "BH":
        attempt(f"{name}-{f}", BHJM_magnet_cylinder, f, obs[idx], dim[idx], pol[idx])

# batch sizes around the small-n switch
rng = np.random.default_rng(11)
for m in (9, 10, 11, 30):
    o = rng.normal(size=(m, 3))
    o[::4, :2] *= 0.01
    d = rng.uniform(0.5, 3, (m, 2))
    p = rng.normal(size=(m, 3))
    p[::3, :2] = 0
    p[1::5, 2] = 0
    p[7] = 0
    attempt(f"rand-{m}-B", BHJM_magnet_cylinder, "B", o, d, p)
    attempt(f"rand-{m}-H", BHJM_magnet_cylinder, "H", o, d, p)

attempt(
    "int",
    BHJM_magnet_cylinder,
    "B",
    np.array([(0, 0, 0), (3, 1, 2), (1, 0, 1), (0, 0, 5)]),
    np.array([(2, 2), (2, 4), (2, 2), (1, 1)]),
    np.array([(0, 0, 1), (1, 1, 1), (1, 0, 0), (0, 2, 0)]),
)
o2, d2, p2 = obs.copy(), dim.copy(), pol.copy()
BHJM_magnet_cylinder("H", o2, d2, p2)
print(
    "inputs untouched",
    np.array_equal(o2, obs, equal_nan=True),
    np.array_equal(d2, dim),
    np.array_equal(p2, pol, equal_nan=True),
)

# error paths
attempt("err-field", BHJM_magnet_cylinder, "X", obs, dim, pol)
attempt("err-field-none", BHJM_magnet_cylinder, None, obs, dim, pol)
attempt("err-obs", BHJM_magnet_cylinder, "B", obs[:, :2], dim, pol)
attempt("err-dim", BHJM_magnet_cylinder, "B", obs, dim[:3], pol)
attempt("err-pol-none", BHJM_magnet_cylinder, "B", obs, dim, None)
attempt("err-dim-cols", BHJM_magnet_cylinder, "H", obs, np.ones((n, 3)), pol)

# object oriented
c1 = magpy.magnet.Cylinder(polarization=(0.1, -0.2, 0.3), dimension=(2, 2))
c1.move([(0.2 * i, 0, 0) for i in range(1, 4)])
c2 = magpy.magnet.Cylinder(polarization=(0, 0, 0.7), dimension=(1, 3), position=(0, 2, 0))
c3 = magpy.magnet.Cylinder(polarization=(0.5, 0.5, 0), dimension=(2, 1), position=(-1, -1, 1))
c3.rotate_from_angax([30, 60], "x")
c4 = magpy.magnet.Cylinder(polarization=(0, 0, 0), dimension=(2, 1))
sens = magpy.Sensor(pixel=[(1, 0, 1), (0, 0, 0), (-2, 3, 1), (0.005, 0, -2), (0.5, 0.5, 0)])
sens2 = magpy.Sensor(pixel=[(0, 0, 3), (0, 2, 0.2), (-1, -1, 1), (1, 1, 1), (0, 2, 1.5)], position=(0.01, 0, 0))
srcs = [c1, c2, c3, c4]
attempt("oo-B", magpy.getB, srcs, [sens, sens2], squeeze=False)
attempt("oo-H", magpy.getH, [c3, c1, c2, c1], [sens2, sens])
attempt("oo-J", magpy.getJ, srcs, sens)
attempt("oo-M", magpy.getM, srcs, sens)
H = magpy.getH(srcs, [sens, sens2], squeeze=False)
for i, c in enumerate(srcs):
    Hc = magpy.getH(c, [sens, sens2], squeeze=False)[0]
    k = Hc.shape[0]
    print(
        "oo source alone",
        i,
        np.allclose(H[i, :k], Hc, rtol=1e-10, atol=0),
        np.allclose(H[i, k:], np.repeat(Hc[-1:], 4 - k, axis=0), rtol=1e-10, atol=0),
    )
attempt(
    "dict-B",
    magpy.getB,
    "Cylinder",
    [(0, 0, 1), (1, 1, 1), (0, 0, 0), (-1, 2, -3)],
    polarization=[(1, 2, 3), (0, 0, 1), (1, 0, 0), (0, 0, 0)],
    dimension=(2, 2),
)
