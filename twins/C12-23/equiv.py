import os, sys; sys.path.insert(0, os.getcwd())
import hashlib
import re
import warnings

import numpy as np

import magpylib as magpy
from magpylib._src.fields.field_BH_sphere import BHJM_magnet_sphere
from magpylib._src.fields.field_BH_sphere import magnet_sphere_Bfield

np.set_printoptions(precision=17, linewidth=200)


def clean(text):
    text = re.sub(r"id=\d+", "id=N", str(text))
    text = re.sub(r"0x[0-9a-f]+", "0xN", text)
    return text.replace("\n", " | ")


def fmt(res):
    if isinstance(res, np.ndarray):
        flags = (res.flags["C_CONTIGUOUS"], res.flags["F_CONTIGUOUS"], res.flags["OWNDATA"])
        h = hashlib.sha256(np.ascontiguousarray(res).tobytes()).hexdigest()[:16]
        return f"ndarray{res.shape}{res.dtype}{flags} {h} {res.tolist() if res.size <= 12 else ''}"
    return f"{type(res).__name__}:{clean(repr(res))}"


def attempt(tag, func):
    with warnings.catch_warnings(record=True) as rec:
        warnings.simplefilter("always")
        try:
            print(tag, "->", fmt(func()))
        except Exception as err:  # pylint: disable=broad-except
            print(tag, "EXC", type(err).__name__, clean(err)[:300])
    for w in rec:
        print("   WARN", w.category.__name__, clean(w.message)[:200])


# observers: centre, inside, on the surface (exactly / one ulp in and out), outside, far away
base_obs = np.array(
    [
        (0, 0, 0),
        (0.1, 0.2, 0.3),
        (0.5, 0, 0),
        (0, -0.5, 0),
        (0, 0, np.nextafter(0.5, 1)),
        (0, 0, np.nextafter(0.5, 0)),
        (0.3, 0.4, 0.0),
        (0.6, 0, 0),
        (1, -2, 3),
        (-7, 0.1, 0.2),
        (100, 100, 100),
    ],
    dtype=float,
)
n = len(base_obs)
base_pol = np.array([(1, 2, 3), (0, 0, 1), (1, 0, 0), (0, 0, 0), (-1, 0.5, 0.25)] * 3)[:n].astype(float)
base_dia = np.ones(n)

print("=== BHJM at length scales x excitation scales")
for s in (1e-9, 1e-3, 1.0, 1e3, 1e9):
    for e in (1e-12, 1.0, 1e12):
        for field in "BHJM":
            attempt(
                f"s={s} e={e} {field}",
                lambda: BHJM_magnet_sphere(
                    field=field, observers=base_obs * s, diameter=base_dia * s, polarization=base_pol * e
                ),
            )

print("=== special inputs")
cases = {
    "negative diameter": (base_obs, -base_dia, base_pol),
    "zero diameter": (base_obs, 0 * base_dia, base_pol),
    "mixed diameters": (base_obs, np.linspace(0.1, 5, n), base_pol),
    "int inputs": (
        (base_obs * 10).astype(int),
        np.full(n, 10, dtype=int),
        np.array([(1, 2, 3)] * n, dtype=int),
    ),
    "float32": (base_obs.astype(np.float32), base_dia.astype(np.float32), base_pol.astype(np.float32)),
    "empty": (np.zeros((0, 3)), np.zeros(0), np.zeros((0, 3))),
    "single": (base_obs[1:2], base_dia[1:2], base_pol[1:2]),
    "nan observer": (np.array([(np.nan, 0, 0), (1, 1, 1)]), np.ones(2), np.ones((2, 3))),
    "inf observer": (np.array([(np.inf, 0, 0), (1, 1, 1)]), np.ones(2), np.ones((2, 3))),
    "nan diameter": (np.array([(0.1, 0, 0), (1, 1, 1)]), np.array([np.nan, 1.0]), np.ones((2, 3))),
    "huge r": (np.array([(1e80, 0, 0), (1e200, 1, 1)]), np.ones(2), np.ones((2, 3))),
    "all inside": (base_obs[:2], base_dia[:2], base_pol[:2]),
    "all outside": (base_obs[-3:], base_dia[-3:], base_pol[-3:]),
    "fortran observers": (np.asfortranarray(base_obs), base_dia, np.asfortranarray(base_pol)),
    "broadcast diameter (1,)": (base_obs[:1], np.ones(1), base_pol[:1]),
}
for name, (o, d, p) in cases.items():
    for field in "BHJM":
        o0, d0, p0 = o.copy(), d.copy(), p.copy()
        attempt(f"{name} {field}", lambda: BHJM_magnet_sphere(field=field, observers=o, diameter=d, polarization=p))
        same = all(
            a.tobytes() == b.tobytes() and a.dtype == b.dtype for a, b in ((o, o0), (d, d0), (p, p0))
        )
        print("   inputs untouched:", same)

print("=== result aliasing")
for field in "BHJM":
    res = BHJM_magnet_sphere(field=field, observers=base_obs, diameter=base_dia, polarization=base_pol)
    print(field, "shares memory with polarization:", np.shares_memory(res, base_pol), "with observers:", np.shares_memory(res, base_obs))

print("=== core wrapper")
attempt("core", lambda: magnet_sphere_Bfield(observers=base_obs, diameters=base_dia, polarizations=base_pol))
attempt("core via magpy.core", lambda: magpy.core.magnet_sphere_Bfield(observers=base_obs * 3, diameters=base_dia * 3, polarizations=base_pol))

print("=== error paths")
errs = {
    "field X": lambda: BHJM_magnet_sphere(field="X", observers=base_obs, diameter=base_dia, polarization=base_pol),
    "field BH": lambda: BHJM_magnet_sphere(field="BH", observers=base_obs, diameter=base_dia, polarization=base_pol),
    "field empty": lambda: BHJM_magnet_sphere(field="", observers=base_obs, diameter=base_dia, polarization=base_pol),
    "field None": lambda: BHJM_magnet_sphere(field=None, observers=base_obs, diameter=base_dia, polarization=base_pol),
    "field b": lambda: BHJM_magnet_sphere(field="b", observers=base_obs, diameter=base_dia, polarization=base_pol),
    "observers list": lambda: BHJM_magnet_sphere(field="B", observers=base_obs.tolist(), diameter=base_dia, polarization=base_pol),
    "diameter list": lambda: BHJM_magnet_sphere(field="B", observers=base_obs, diameter=base_dia.tolist(), polarization=base_pol),
    "polarization list": lambda: BHJM_magnet_sphere(field="B", observers=base_obs, diameter=base_dia, polarization=base_pol.tolist()),
    "observers (n,2)": lambda: BHJM_magnet_sphere(field="B", observers=base_obs[:, :2], diameter=base_dia, polarization=base_pol),
    "observers (n,4)": lambda: BHJM_magnet_sphere(field="H", observers=np.ones((n, 4)), diameter=base_dia, polarization=base_pol),
    "observers 1-D": lambda: BHJM_magnet_sphere(field="B", observers=np.array([1.0, 2, 3]), diameter=np.ones(1), polarization=np.ones((1, 3))),
    "polarization 1-D": lambda: BHJM_magnet_sphere(field="B", observers=np.ones((1, 3)) * 3, diameter=np.ones(1), polarization=np.ones(3)),
    "observers None": lambda: BHJM_magnet_sphere(field="J", observers=None, diameter=base_dia, polarization=base_pol),
    "diameter None": lambda: BHJM_magnet_sphere(field="M", observers=base_obs, diameter=None, polarization=base_pol),
    "polarization None": lambda: BHJM_magnet_sphere(field="M", observers=base_obs, diameter=base_dia, polarization=None),
}
for field in "BHJM":
    errs[f"short polarization {field}"] = lambda field=field: BHJM_magnet_sphere(
        field=field, observers=base_obs, diameter=base_dia, polarization=base_pol[:3]
    )
    errs[f"short diameter {field}"] = lambda field=field: BHJM_magnet_sphere(
        field=field, observers=base_obs, diameter=base_dia[:3], polarization=base_pol
    )
    errs[f"diameter (1,) {field}"] = lambda field=field: BHJM_magnet_sphere(
        field=field, observers=base_obs, diameter=base_dia[:1], polarization=base_pol
    )
    errs[f"short observers {field}"] = lambda field=field: BHJM_magnet_sphere(
        field=field, observers=base_obs[:3], diameter=base_dia, polarization=base_pol
    )
    errs[f"polarization (n,2) {field}"] = lambda field=field: BHJM_magnet_sphere(
        field=field, observers=base_obs, diameter=base_dia, polarization=base_pol[:, :2]
    )
    errs[f"huge r + diameter (1,) {field}"] = lambda field=field: BHJM_magnet_sphere(
        field=field, observers=np.array([(1e80, 0, 0), (1e200, 1, 1)]), diameter=np.ones(1), polarization=np.ones((2, 3))
    )
for name, func in errs.items():
    attempt(name, func)

print("=== object interface")
for s in (1e-6, 1.0, 1e6):
    for field in "BHJM":
        sph = magpy.magnet.Sphere(diameter=1.5 * s, polarization=(0.1, -0.2, 0.3), position=np.array((0.1, 0.2, 0.3)) * s)
        sph.rotate_from_angax(33, (1, 2, 3))
        attempt(f"Sphere s={s} get{field}", lambda: getattr(sph, "get" + field)(base_obs * s))
attempt("getB dict style", lambda: magpy.getB("Sphere", base_obs, diameter=2.0, polarization=(1, 2, 3)))
attempt("getH dict style", lambda: magpy.getH("Sphere", base_obs, diameter=2.0, polarization=(1, 2, 3)))
