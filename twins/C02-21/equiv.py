import os, sys; sys.path.insert(0, os.getcwd())
import hashlib
import warnings

import numpy as np

import magpylib as magpy
from magpylib._src.fields.field_BH_cylinder_segment import BHJM_cylinder_segment_internal

warnings.simplefilter("ignore")


def digest(name, arr):
    arr = np.asarray(arr)
    h = hashlib.sha256(np.ascontiguousarray(arr).tobytes()).hexdigest()[:16]
    print(name, arr.shape, arr.dtype, h)
    with np.printoptions(precision=10, linewidth=200):
        print(np.round(arr, 12))


def attempt(label, fn):
    try:
        digest(label, fn())
    except Exception as e:  # noqa: BLE001
        print(label, "EXC", type(e).__name__, str(e)[:160].replace("\n", " | "))


rng = np.random.default_rng(7)

# rows: segment / solid full cylinder / hollow full cylinder, interleaved
dims = np.array(
    [
        (1, 2, 1, 0, 90),  # segment
        (0, 2, 1, 0, 360),  # solid
        (1, 2, 1, 0, 360),  # hollow
        (1, 2, 1, -180, 180),  # hollow, other angles
        (0.5, 1.5, 2, 10, 400),  # hollow, more than 360
        (0, 1.5, 2, -400, 0),  # solid
        (1, 2, 1, 0, 359.999),  # segment
        (1e-300, 2, 1, 0, 360),  # tiny bore
        (-1, 2, 1, 0, 360),  # negative inner radius
        (np.nan, 2, 1, 0, 360),  # nan inner radius
        (2, 2, 1, 0, 360),  # zero wall
        (1, 2, 0, 0, 360),  # zero height
    ],
    dtype=float,
)
obs_pts = np.array(
    [
        (0.1, 0.2, 0.1),  # in the bore
        (1.5, 0.0, 0.0),  # in the wall
        (1.0, 0.0, 0.2),  # on inner hull
        (2.0, 0.0, 0.2),  # on outer hull
        (1.2, 0.3, 0.5),  # on top base
        (2.0, 0.0, 0.5),  # on outer edge
        (1.0, 0.0, 0.5),  # on inner edge
        (3.0, 1.0, 2.0),  # outside
        (0.0, 0.0, 0.0),  # on axis
        (np.nan, 1.0, 0.0),
        (0.0, 0.0, 5.0),
    ]
)
pols = np.array([(0, 0, 1.0), (1.0, 0, 0), (0.3, -0.4, 0.5), (0, 0, 0)])

for fld in "BHJM":
    for ip, pol in enumerate(pols):
        n = len(dims) * len(obs_pts)
        D = np.repeat(dims, len(obs_pts), axis=0)
        O = np.tile(obs_pts, (len(dims), 1))
        P = np.tile(pol, (n, 1))
        attempt(f"grid-{fld}-pol{ip}", lambda: BHJM_cylinder_segment_internal(fld, O, P, D))

# random mixture
n = 60
O = rng.uniform(-2.5, 2.5, (n, 3))
P = rng.uniform(-1, 1, (n, 3))
D = np.c_[rng.uniform(0, 1, n), rng.uniform(1.1, 2, n), rng.uniform(0.5, 3, n), rng.uniform(-180, 0, n), rng.uniform(10, 200, n)]
D[::3, 3:] = (0, 360)
D[::6, 0] = 0
for fld in "BHJM":
    attempt(f"random-{fld}", lambda: BHJM_cylinder_segment_internal(fld, O, P, D))
B = BHJM_cylinder_segment_internal("B", O, P, D)
H = BHJM_cylinder_segment_internal("H", O, P, D)
J = BHJM_cylinder_segment_internal("J", O, P, D)
M = BHJM_cylinder_segment_internal("M", O, P, D)
print("consistency", np.allclose(B, magpy.mu_0 * H + J), np.allclose(J, magpy.mu_0 * M))
O0, P0, D0 = O.copy(), P.copy(), D.copy()
BHJM_cylinder_segment_internal("H", O, P, D)
print("inputs untouched", np.array_equal(O, O0), np.array_equal(P, P0), np.array_equal(D, D0))

# only segments / only solid / only hollow / empty / single / int dtype / 1-D inputs
for fld in "BHJM":
    attempt(f"only-seg-{fld}", lambda: BHJM_cylinder_segment_internal(fld, O[:5], P[:5], np.tile((1.0, 2, 1, 0, 90), (5, 1))))
    attempt(f"only-solid-{fld}", lambda: BHJM_cylinder_segment_internal(fld, O[:5], P[:5], np.tile((0.0, 2, 1, 0, 360), (5, 1))))
    attempt(f"only-hollow-{fld}", lambda: BHJM_cylinder_segment_internal(fld, O[:5], P[:5], np.tile((1.0, 2, 1, 0, 360), (5, 1))))
    attempt(f"empty-{fld}", lambda: BHJM_cylinder_segment_internal(fld, np.zeros((0, 3)), np.zeros((0, 3)), np.zeros((0, 5))))
    attempt(f"single-{fld}", lambda: BHJM_cylinder_segment_internal(fld, O[:1], P[:1], np.array([(1.0, 2, 1, 0, 360)])))
    attempt(
        f"int-{fld}",
        lambda: BHJM_cylinder_segment_internal(fld, np.array([(1, 0, 0), (0, 0, 0), (3, 1, 0)]), np.array([(1, 2, 3)] * 3), np.array([(1, 2, 2, 0, 360), (0, 2, 2, 0, 360), (1, 2, 2, 0, 90)])),
    )
    for d1 in ([1, 2, 1, 0, 90], [0, 2, 1, 0, 360], [1, 2, 1, 0, 360]):
        attempt(f"1d-{fld}-{d1}", lambda: BHJM_cylinder_segment_internal(fld, np.array([0.1, 0.2, 0.3]), np.array([0.2, 0, 1.0]), np.array(d1, float)))
        attempt(f"1d-wall-{fld}-{d1}", lambda: BHJM_cylinder_segment_internal(fld, np.array([1.5, 0.2, 0.3]), np.array([0.2, 0, 1.0]), np.array(d1, float)))

# object interface incl. path and rotated sensor, functional interface
for dim in ((1, 2, 1, 0, 360), (0, 2, 1, 0, 360), (1, 2, 1, 20, 380), (1, 2, 1, 0, 90)):
    src = magpy.magnet.CylinderSegment(polarization=(0.1, -0.2, 0.3), dimension=dim, position=[(0, 0, 0), (0.2, 0.1, 0)])
    src.rotate_from_angax([0, 33], "y")
    sens = magpy.Sensor(pixel=[(0, 0, 0), (1.5, 0, 0.1), (0.3, 0.2, 0)], position=(0.1, 0, 0)).rotate_from_angax(20, "x")
    for fld in "BHJM":
        attempt(f"obj-{dim}-{fld}", lambda: getattr(magpy, "get" + fld)(src, sens))
        attempt(
            f"func-{dim}-{fld}",
            lambda: getattr(magpy, "get" + fld)("CylinderSegment", [(0.1, 0.2, 0.1), (1.5, 0, 0)], dimension=dim, polarization=(0, 0.5, 1)),
        )

# error paths
for bad in ("X", "BH", "", 5, None):
    attempt(f"badfield-{bad!r}", lambda: BHJM_cylinder_segment_internal(bad, O[:6], P[:6], D[:6]))
Dh = np.tile((1.0, 2, 1, 0, 360), (4, 1))
Dm = np.array([(1.0, 2, 1, 0, 360), (1.0, 2, 1, 0, 90), (0, 2, 1, 0, 360), (1.0, 2, 1, 0, 360)])
for tag, DD in (("hollow", Dh), ("mixed", Dm)):
    for fld in "BJ":
        attempt(f"mis-obs-{tag}-{fld}", lambda: BHJM_cylinder_segment_internal(fld, O[:3], P[:4], DD))
        attempt(f"mis-pol-{tag}-{fld}", lambda: BHJM_cylinder_segment_internal(fld, O[:4], P[:3], DD))
        attempt(f"mis-dim-{tag}-{fld}", lambda: BHJM_cylinder_segment_internal(fld, O[:5], P[:5], DD))
        attempt(f"pol4-{tag}-{fld}", lambda: BHJM_cylinder_segment_internal(fld, O[:4], np.ones((4, 4)), DD))
        attempt(f"pol2-{tag}-{fld}", lambda: BHJM_cylinder_segment_internal(fld, O[:4], np.ones((4, 2)), DD))
        attempt(f"obs2-{tag}-{fld}", lambda: BHJM_cylinder_segment_internal(fld, np.ones((4, 2)), P[:4], DD))
        attempt(f"dim4-{tag}-{fld}", lambda: BHJM_cylinder_segment_internal(fld, O[:4], P[:4], DD[:, :4]))
        attempt(f"dim6-{tag}-{fld}", lambda: BHJM_cylinder_segment_internal(fld, O[:4], P[:4], np.c_[DD, DD[:, 0]]))
        attempt(f"list-obs-{tag}-{fld}", lambda: BHJM_cylinder_segment_internal(fld, O[:4].tolist(), P[:4], DD))
        attempt(f"list-pol-{tag}-{fld}", lambda: BHJM_cylinder_segment_internal(fld, O[:4], P[:4].tolist(), DD))
        attempt(f"list-dim-{tag}-{fld}", lambda: BHJM_cylinder_segment_internal(fld, O[:4], P[:4], DD.tolist()))
        attempt(f"pol1d-{tag}-{fld}", lambda: BHJM_cylinder_segment_internal(fld, O[:4], P[0], DD))
        attempt(f"obs1d-{tag}-{fld}", lambda: BHJM_cylinder_segment_internal(fld, O[0], P[:4], DD))
        attempt(f"cplx-{tag}-{fld}", lambda: BHJM_cylinder_segment_internal(fld, O[:4], P[:4] * 1j, DD))
