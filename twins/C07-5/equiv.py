import os, sys; sys.path.insert(0, os.getcwd())
import hashlib
import re
import warnings

import numpy as np

import magpylib as magpy

warnings.simplefilter("ignore")


def clean(s):
    return re.sub(r"0x[0-9a-f]+|id=\d+", "ADDR", str(s))


def h(x):
    x = np.ascontiguousarray(np.asarray(x))
    return f"{x.shape} {x.dtype} {hashlib.sha1(x.tobytes()).hexdigest()[:16]}"


def run(name, fn, objs=()):
    before = [(h(o._position), h(o._orientation.as_quat())) for o in objs]
    try:
        out = np.asarray(fn())
        print(name, "->", h(out), np.round(out.astype(float), 10).ravel()[:4].tolist())
    except Exception as err:  # pylint: disable=broad-except
        print(name, "-> EXC", type(err).__name__, "|", clean(err).replace("\n", " / ")[:200])
    if objs:
        print("   paths restored:", before == [(h(o._position), h(o._orientation.as_quat())) for o in objs])


def ff_a(field, observers):
    """custom field function A (float)"""
    return observers * (1.0 if field == "B" else 2.0)


def ff_b(field, observers):
    """custom field function B (integer output, B only)"""
    if field != "B":
        return None
    return np.ones(observers.shape, dtype=int) * 3


def ff_c(field, observers):
    """custom field function C (float32 output)"""
    return (observers * 0.5).astype(np.float32)


cub1 = magpy.magnet.Cuboid(polarization=(0.1, 0.2, 0.3), dimension=(1, 2, 3))
cub2 = magpy.magnet.Cuboid(polarization=(0.3, 0.2, 0.1), dimension=(3, 2, 1), position=(3, 0, 0)).rotate_from_angax(20, "z")
cub3 = magpy.magnet.Cuboid(polarization=(-0.3, 0.2, 0.1), dimension=(1, 1, 1), position=[(0, 3, 0), (0, 3.1, 0), (0, 3.2, 0)])
cyl = magpy.magnet.Cylinder(polarization=(0.3, 0.2, 0.1), dimension=(1, 2), position=(0, 0, 4))
seg = magpy.magnet.CylinderSegment(polarization=(0.3, 0.2, 0.1), dimension=(1, 2, 1, 0, 90), position=(0, 0, -4))
sph = magpy.magnet.Sphere(polarization=(0, 0, 1), diameter=1, position=(-3, 0, 0))
tet = magpy.magnet.Tetrahedron(polarization=(0.1, 0.2, 0.3), vertices=[(0, 0, 0), (1, 0, 0), (0, 1, 0), (0, 0, 1)], position=(5, 5, 5))
tri = magpy.misc.Triangle(polarization=(0.1, 0.2, 0.3), vertices=[(0, 0, 0), (1, 0, 0), (0, 1, 0)], position=(-5, 5, 5))
mesh = magpy.magnet.TriangularMesh(
    polarization=(0.1, 0.2, 0.3),
    vertices=[(0, 0, 0), (1, 0, 0), (0, 1, 0), (0, 0, 1)],
    faces=[(0, 2, 1), (0, 1, 3), (1, 2, 3), (0, 3, 2)],
    position=(5, -5, 5),
)
circ = magpy.current.Circle(current=2, diameter=3, position=(0, 0, 1))
pl1 = magpy.current.Polyline(current=1, vertices=[(0, 0, 0), (1, 1, 1), (2, 0, 1)], position=(0, -3, 0))
pl2 = magpy.current.Polyline(current=2, vertices=[(0, 0, 0), (1, 1, 1), (2, 0, 1), (0, 0, 0)], position=(0, -6, 0))
line = magpy.current.Line(current=1, vertices=[(0, 0, 0), (1, 1, 1)], position=(0, -9, 0))
dip = magpy.misc.Dipole(moment=(1, 2, 3), position=(1, 1, 1))
ca1 = magpy.misc.CustomSource(field_func=ff_a, position=(1, 0, 0))
ca2 = magpy.misc.CustomSource(field_func=ff_a, position=(0, 1, 0)).rotate_from_angax(45, "x")
cb = magpy.misc.CustomSource(field_func=ff_b, position=(0, 0, 1))
cc = magpy.misc.CustomSource(field_func=ff_c, position=(0, 0, 2))
cnone = magpy.misc.CustomSource()

s1 = magpy.Sensor(pixel=[(0, 0, 0), (0.1, 0.1, 0.1)], position=(2, 2, 2)).rotate_from_angax(30, "y")
s2 = magpy.Sensor(pixel=[(0, 0, 0), (0.1, 0.1, 0.1)], position=[(-2, 2, 2), (-2, 2, 2.5)])
obs = [s1, s2]

interleaved = [cub1, cyl, cub2, circ, ca1, sph, cub3, pl1, dip, ca2, seg, pl2, tet, tri, mesh, cc, line]
col_a = magpy.Collection(cub1, circ, cub2)
col_b = magpy.Collection(pl1, magpy.Collection(cub3, ca1), dip)
movers = [cub1, cub2, cub3, cyl, s1, s2, ca1, cb, cnone]

for field in "BHJM":
    f = getattr(magpy, "get" + field)
    run(f"{field}.interleaved", lambda: f(interleaved, obs), movers)
    run(f"{field}.reversed", lambda: f(interleaved[::-1], obs))
    run(f"{field}.sumup", lambda: f(interleaved, obs, sumup=True))
    run(f"{field}.collections", lambda: f([sph, col_a, cyl, col_b, ca2], obs))
    run(f"{field}.duplicates", lambda: f([cub1, cyl, cub1, cyl, cub1], obs))
    run(f"{field}.single", lambda: f(cub2, obs))
    # each source alone must equal its slot in the joint computation
    joint = f(interleaved, obs, squeeze=False)
    print(f"{field}.slots equal single-source results:",
          [bool(np.allclose(joint[i], f([src, cub3], obs, squeeze=False)[0], rtol=1e-12, atol=0))
           for i, src in enumerate(interleaved)])
    run(f"{field}.sens-method", lambda: getattr(s1, "get" + field)(*interleaved))
    run(f"{field}.coll-method", lambda: getattr(col_b, "get" + field)(s1, s2))

run("B.int-and-float32 field_funcs", lambda: magpy.getB([ca1, cb, cub1, cc, cb], obs))

# error paths: raised while grouping / evaluating, tiled paths must be restored
run("err.field_func None (first)", lambda: magpy.getB([cnone, cub1, cub3], obs), movers)
run("err.field_func None (last)", lambda: magpy.getH([cub1, cub3, ca1, cnone], obs), movers)
run("err.field_func None in collection", lambda: magpy.getH([cub3, magpy.Collection(cyl, cnone)], obs), movers)
run("err.field_func returns None", lambda: magpy.getH([cub1, cb, cub3], obs), movers)
run("err.two bad, first reported", lambda: magpy.getH([cb, cnone, cub3], obs), movers)
run("err.missing excitation", lambda: magpy.getH([cub1, magpy.magnet.Cuboid(dimension=(1, 1, 1))], obs), movers)
