import os, sys; sys.path.insert(0, os.getcwd())
import re
import warnings

import numpy as np
from scipy.spatial.transform import Rotation as R

import magpylib as magpy
from magpylib._src.input_checks import check_format_input_orientation

warnings.simplefilter("ignore")


def dig(r):
    if isinstance(r, np.ndarray):
        return f"ARR {r.dtype} {r.shape} {np.round(r, 9).tolist()}"
    if isinstance(r, R):
        q = r.as_quat()
        return f"ROT single={r.single} {q.shape} {np.round(q, 9).tolist()}"
    if isinstance(r, tuple):
        return "(" + ", ".join(dig(x) for x in r) + ")"
    return f"RET {type(r).__name__} {r!r}"


def run(f):
    try:
        out = dig(f())
    except Exception as e:  # pylint: disable=broad-except
        out = f"EXC {type(e).__name__}: {e}"
    return re.sub(r"0x[0-9a-f]+|id=\d+", "ADDR", out)


class SubRot(R):
    pass


values = [
    ("None", None),
    ("identity", R.identity()),
    ("identity1", R.identity(1)),
    ("identity3", R.identity(3)),
    ("rotvec", R.from_rotvec((0.1, 0.2, 0.3))),
    ("rotvec_path1", R.from_rotvec([(0.1, 0.2, 0.3)])),
    ("rotvec_path4", R.from_rotvec([(0.1 * i, 0.2, -0.3 * i) for i in range(4)])),
    ("euler", R.from_euler("xyz", (10, 20, 30), degrees=True)),
    ("unnormalized", R.from_quat((1, 2, 3, 4))),
    ("neg_w", R.from_quat((0, 0, 0, -1))),
    ("matrix", R.from_matrix(np.eye(3)[[1, 2, 0]])),
    ("int", 0), ("float", 1.5), ("bool", True), ("str", "abc"), ("empty_tuple", ()),
    ("quat_tuple", (0, 0, 0, 1)), ("quat_list", [0, 0, 0, 1]), ("quat_array", np.array([0.0, 0, 0, 1])),
    ("list_of_rot", [R.identity()]), ("rot_class", R), ("nonetype", type(None)), ("dict", {}),
]
try:
    values.append(("subclass", SubRot.from_rotvec((0.3, 0.2, 0.1))))
except Exception as e:  # pylint: disable=broad-except
    print("no subclass instance", type(e).__name__)

# 1) validator directly, both output formats, aliasing of the returned Rotation
for name, v in values:
    for kw in [dict(), dict(init_format=False), dict(init_format=True), dict(init_format=1), dict(init_format=0),
               dict(init_format="yes"), dict(init_format=None)]:
        print("validator", name, kw, run(lambda: check_format_input_orientation(v, **kw)))
    if isinstance(v, R):
        rot, quat = check_format_input_orientation(v)
        print("   same rotation object returned:", rot is v, "| quat independent of later calls:", quat is not v.as_quat())
a, b = check_format_input_orientation(None), check_format_input_orientation(None)
print("None -> fresh objects each call:", a[0] is not b[0], a[1] is not b[1], a[1].dtype, type(a[0]).__name__)
q1 = check_format_input_orientation(None, init_format=True)
q1[0, 0] = 7
print("None init_format unaffected by mutation of earlier result:", dig(check_format_input_orientation(None, init_format=True)))

# 2) orientation attribute of every class: constructor vs setter, read back, unchanged after rejection
classes = [
    magpy.magnet.Cuboid, magpy.magnet.Cylinder, magpy.magnet.CylinderSegment, magpy.magnet.Sphere, magpy.magnet.Tetrahedron,
    magpy.misc.Triangle, magpy.current.Circle, magpy.current.Polyline, magpy.misc.Dipole, magpy.misc.CustomSource,
    magpy.Sensor, magpy.Collection,
]
for cls in classes:
    for name, v in values:
        r1 = run(lambda: (cls(orientation=v).orientation, cls(orientation=v).position))
        obj = cls(orientation=R.from_rotvec((0.5, 0, 0)))
        before = dig(obj.orientation)

        def setit():
            obj.orientation = v
            return obj.orientation, obj.position

        r2 = run(setit)
        after = dig(obj.orientation)
        print(cls.__name__, name, "| ctor:", r1, "| set:", r2, "| same:", r1 == r2,
              "| unchanged_on_err:", (not r2.startswith("EXC")) or before == after)

# 3) interaction with position paths (padding / slicing)
for pos in [(1, 2, 3), [(1, 2, 3)] * 2, [(i, 0, 0) for i in range(6)]]:
    for name, v in values[:8]:
        def make():
            s = magpy.Sensor(position=pos, orientation=v)
            return s.position, s.orientation
        print("path ctor", np.shape(pos), name, run(make))

        def setter():
            s = magpy.Sensor(position=pos)
            s.orientation = v
            return s.position, s.orientation
        print("path set ", np.shape(pos), name, run(setter))

# 4) the move-method format: rotate(None / Rotation / bad)
for name, v in values:
    for start in ["auto", 0]:
        def rot():
            c = magpy.magnet.Cuboid(position=[(1, 0, 0), (2, 0, 0)], dimension=(1, 1, 1), polarization=(0, 0, 1))
            c.rotate(v, anchor=0, start=start)
            return c.position, c.orientation
        print("rotate", name, start, run(rot))

# 5) Collection with children + field computation with set orientation
c1 = magpy.magnet.Cuboid(position=(1, 0, 0), dimension=(1, 1, 1), polarization=(0, 0, 1))
col = magpy.Collection(c1)
col.orientation = R.from_rotvec((0, 0, np.pi / 2))
print("collection child:", dig(c1.position), dig(c1.orientation))
col.orientation = None
print("collection child reset:", dig(c1.position), dig(c1.orientation))
print("bad on collection:", run(lambda: setattr(col, "orientation", (0, 0, 0, 1))), dig(col.orientation), dig(c1.orientation))
c1.orientation = R.from_euler("z", 30, degrees=True)
print("getB:", run(lambda: c1.getB((2, 2, 2))))
