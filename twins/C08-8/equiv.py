import os, sys; sys.path.insert(0, os.getcwd())
# Twin2-3: sensor back-rotation loop of getBH_level2 (enumerate/index -> zip, inner function)
import hashlib
import itertools
import re
import warnings

import numpy as np
from scipy.spatial.transform import Rotation as R

import magpylib as magpy

warnings.simplefilter("ignore")


def h(a):
    a = np.ascontiguousarray(a)
    return hashlib.sha1(a.tobytes()).hexdigest()[:12] + str(a.shape)


def clean(msg):
    msg = re.sub(r"0x[0-9a-f]+", "0x?", re.sub(r"id=\d+", "id=?", str(msg)))
    return msg[:100].replace("\n", " ")


def state(objs):
    return [
        (
            h(o._position),
            h(o._orientation.as_quat()),
            id(o._orientation),
            None if getattr(o, "pixel", None) is None else h(o.pixel),
            getattr(o, "handedness", None),
        )
        for o in objs
    ]


def run(tag, fn, objs):
    before = state(objs)
    outs = []
    for _ in range(2):
        try:
            res = fn()
            outs.append(h(res) + " " + str(np.round(np.ravel(res)[:3], 12).tolist()))
        except Exception as err:  # pylint: disable=broad-except
            outs.append("raised " + type(err).__name__ + " " + clean(err))
    print(tag, "|", outs[0], "| repeat-identical:", outs[0] == outs[1], "| state-same:", before == state(objs))


cub = magpy.magnet.Cuboid(polarization=(0.1, 0.2, 0.3), dimension=(1, 2, 3)).rotate_from_angax(33, (1, 2, 3))
cyl = magpy.magnet.Cylinder(polarization=(0.3, 0.2, 0.1), dimension=(1, 2), position=(1, 1, 1))
cyl.move(np.linspace((0, 0, 0), (1, 0.5, 0.2), 4), start=0)
cyl.rotate_from_angax(np.linspace(0, 77, 4), "y", start=0)
loop = magpy.current.Circle(current=3, diameter=2, position=(0, 0, -2))
dip = magpy.misc.Dipole(moment=(1, 2, 3), position=(-1, -1, 0.5))
col = magpy.Collection(loop, dip)
sources = {"one": cub, "two": [cub, cyl], "col": [col, cyl, cub], "colonly": col}

pix1 = [(0, 0, 0), (0.1, 0.2, 0.3)]
pix2 = np.arange(18).reshape(2, 3, 3) * 0.1
sensors = {
    # unrotated static
    "plain": magpy.Sensor(position=(2, 2, 2)),
    "plain-pix": magpy.Sensor(position=(2, 2, 2), pixel=pix1),
    # rotated static (static_sensor_rot True, single rotation)
    "rot-static": magpy.Sensor(position=(2, 2, 2), pixel=pix1).rotate_from_angax(40, (1, 1, 0)),
    # translation path with constant non-unit orientation (static rot, path len 3)
    "rot-translate": magpy.Sensor(position=[(2, 2, 2), (2, 2, 3), (2, 2, 4)], pixel=pix1, orientation=R.from_rotvec([(0.1, 0.2, 0.3)] * 3)),
    # translation path, unit orientation (unrotated, path len 3)
    "unit-translate": magpy.Sensor(position=[(2, 2, 2), (2, 2, 3), (2, 2, 4)], pixel=pix1),
    # rotation path (not static)
    "rot-path": magpy.Sensor(position=(2, 2, 2), pixel=pix1).rotate_from_angax(np.linspace(10, 200, 5), (1, 1, 0), start=0),
    "rot-path-nopix": magpy.Sensor(position=(-2, 1, 3)).rotate_from_angax([10, 20], "z"),
    # path starting with unit rotation
    "rot-path-append": magpy.Sensor(position=(2, 2, 2), pixel=pix1).rotate_from_angax([10, 20], "z"),
    # left handed
    "left-plain": magpy.Sensor(position=(2, 2, 2), pixel=pix1, handedness="left"),
    "left-rot": magpy.Sensor(position=(2, 2, 2), pixel=pix1, handedness="left").rotate_from_angax([10, 20, 30], "x", start=0),
    # other pixel shapes
    "grid": magpy.Sensor(position=(1, 2, 3), pixel=pix2).rotate_from_angax(45, "y"),
    "grid-left-path": magpy.Sensor(position=(1, 2, 3), pixel=pix2, handedness="left").rotate_from_angax([45, 50], "y"),
}
all_objs = [cub, cyl, loop, dip, col] + list(sensors.values())

# single sensors
for (sname, src), (oname, sens) in itertools.product(sources.items(), sensors.items()):
    for field in "BH":
        run(f"{field} {sname} / {oname}", lambda: getattr(magpy, "get" + field)(src, sens), all_objs)

# several sensors with the same pixel shape (slices of the pixel axis)
same = [sensors[k] for k in ("plain-pix", "rot-static", "rot-translate", "unit-translate", "rot-path", "rot-path-append", "left-plain", "left-rot")]
for sname, src in sources.items():
    for sumup in (False, True):
        run(f"B {sname} / 8 sensors sumup={sumup}", lambda: magpy.getB(src, same, sumup=sumup), all_objs)
        run(f"H {sname} / 8 reversed sumup={sumup}", lambda: magpy.getH(src, same[::-1], sumup=sumup, squeeze=False), all_objs)
run("B same sensor twice", lambda: magpy.getB([cub, cyl], [sensors["rot-path"], sensors["rot-path"]]), all_objs)

# different pixel shapes with aggregation, sensors inside a collection, dataframe output
every = list(sensors.values())
for agg in ("mean", "max", "std"):
    run(f"J/B all sensors agg={agg}", lambda: magpy.getB(sources["col"], every, pixel_agg=agg), all_objs)
scol = magpy.Collection(sensors["rot-path"], sensors["left-rot"], cub)
run("collection of sensors", lambda: magpy.getH(scol, scol), all_objs)
run("sensor.getB", lambda: sensors["grid-left-path"].getB(cub, col, cyl), all_objs)
run("dataframe", lambda: magpy.getB(sources["col"], same[:3], output="dataframe").to_numpy()[:, 4:].astype(float), all_objs)
for field in "JM":
    run(f"{field} magnets / rotated", lambda: getattr(magpy, "get" + field)([cub, cyl], [sensors["rot-path"], sensors["left-rot"]]), all_objs)

inside = magpy.Sensor(position=(0, 0, 0), pixel=[(0, 0, 0), (0.1, 0.1, 0.1)], handedness="left").rotate_from_angax([10, 20, 30], (1, 2, 3))
inside2 = magpy.Sensor(position=(0.1, 0, 0), pixel=[(0, 0, 0), (0.1, 0.1, 0.1)]).rotate_from_angax(77, (3, 2, 1))
for field in "JM":
    run(f"{field} magnets / inside rotated", lambda: getattr(magpy, "get" + field)([cub, cyl], [inside, inside2]), all_objs + [inside, inside2])

# failures before and after the touched loop
run("err pixel shapes", lambda: magpy.getB(cub, every), all_objs)
run("err output", lambda: magpy.getB(cub, same, output="nope"), all_objs)
bad = magpy.misc.CustomSource(field_func=lambda field, observers: None if len(observers) > 2 else observers * 1.0)
run("err custom None", lambda: magpy.getB([cub, bad], same), all_objs + [bad])
