import os, sys; sys.path.insert(0, os.getcwd())
import hashlib
import re
import builtins

import numpy as np

import magpylib as magpy
from magpylib._src.exceptions import MagpylibBadUserInput, MagpylibMissingInput


_print = builtins.print


def print(*args):  # deterministic: strip object ids / addresses
    txt = " ".join(str(a) for a in args)
    txt = re.sub(r"id=\d+", "id=#", txt)
    txt = re.sub(r"0x[0-9a-f]+", "0x#", txt)
    _print(txt)


def dig(name, arr):
    arr = np.asarray(arr)
    h = hashlib.sha256(np.ascontiguousarray(arr).tobytes()).hexdigest()[:16]
    print(name, arr.shape, h, np.round(arr.ravel()[:6], 12).tolist())


def err(name, fn):
    try:
        fn()
        print(name, "no error")
    except Exception as e:  # pylint: disable=broad-except
        print(name, type(e).__name__, str(e).splitlines()[0][:90])


def mk():
    s1 = magpy.magnet.Cuboid(polarization=(0.1, 0.2, 0.3), dimension=(1, 2, 3), position=(0.1, 0, 0))
    s2 = magpy.magnet.Sphere(polarization=(0.3, -0.2, 0.1), diameter=1.5, position=(3, 1, 0))
    s3 = magpy.current.Circle(current=12.0, diameter=2.0, position=(0, -3, 1))
    s4 = magpy.misc.Dipole(moment=(1, 2, 3), position=(-3, 0, 0.5))
    s5 = magpy.magnet.Cylinder(polarization=(0, 0.1, 0.4), dimension=(1, 2), position=(0, 4, 0))
    s6 = magpy.current.Polyline(current=3.0, vertices=[(0, 0, 5), (1, 1, 5), (2, 0, 6)])
    s2.rotate_from_angax([10, 20, 30], "y", start=0)
    s5.move([(0.1, 0, 0)] * 4, start=0)
    return s1, s2, s3, s4, s5, s6


obs = np.array([(0.5, 4.0, 3.0), (-2.0, 1.5, 2.0), (6.0, 0.0, -1.0)])
sens = magpy.Sensor(pixel=[(0, 0, 0), (0.1, 0.2, 0.3)], position=(1, 5, 2)).rotate_from_angax(33, (1, 2, 3))
sens_l = magpy.Sensor(position=(1, -5, 2), handedness="left", pixel=[(0, 0, 0), (0.1, 0, 0)])

for field in ("B", "H"):
    getf = getattr(magpy, "get" + field)
    # no collection (early exit of the summation)
    s = mk()
    dig(field + " flat", getf(list(s), obs))
    dig(field + " flat sumup", getf(list(s), obs, sumup=True))
    # single-child collections only: len(src_list) == len(sources)
    s = mk()
    c1, c2 = magpy.Collection(s[0]), magpy.Collection(s[1])
    dig(field + " single-child cols", getf([c1, s[2], c2], obs))
    # one collection in the middle
    s = mk()
    c = magpy.Collection(s[1], s[2], s[3])
    dig(field + " col middle", getf([s[0], c, s[4], s[5]], obs))
    dig(field + " col middle squeeze0", getf([s[0], c, s[4], s[5]], obs, squeeze=False))
    # several collections, nested, mixed with sensors inside, bare sources in any order
    s = mk()
    inner = magpy.Collection(s[2], s[3])
    mid = magpy.Collection(inner, s[1], magpy.Sensor())
    c2 = magpy.Collection(s[4])
    dig(field + " nested", getf([mid, s[0], c2, s[5]], [sens, sens_l]))
    dig(field + " nested sumup", getf([mid, s[0], c2, s[5]], [sens, sens_l], sumup=True))
    dig(field + " nested first+last", getf([c2, s[0], mid], obs, squeeze=False))
    dig(field + " nested pixel_agg", getf([c2, s[0], mid], [sens, sens_l], pixel_agg="mean"))
    # collection as only source / via method
    dig(field + " col only", getf(mid, obs))
    dig(field + " col method", getattr(mid, "get" + field)())
    # superposition check digest
    parts = getf([s[2], s[3], s[1]], obs)
    dig(field + " sum parts", np.sum(parts, axis=0))
    # same source twice through two collections is not possible (one parent), same bare source twice
    dig(field + " duplicate bare", getf([s[0], mid, s[0]], obs))
    # dataframe output
    df = getf([mid, s[0]], sens, output="dataframe")
    print(field, "df", df.shape, list(df.columns), df["source"].unique().tolist()[1:])
    dig(field + " df values", df[[field + k for k in "xyz"]].to_numpy())
    # paths restored
    print(field, "paths", [len(x.position.reshape(-1, 3)) for x in s])

# error paths
s = mk()
err("empty collection", lambda: magpy.getB([s[0], magpy.Collection()], obs))
err("sensor-only collection", lambda: magpy.getB([magpy.Collection(magpy.Sensor()), s[0]], obs))
bad = magpy.misc.CustomSource()
colbad = magpy.Collection(s[1], bad)
err("custom source no field_func in collection", lambda: magpy.getB([s[0], colbad], obs))
print("paths after error", [len(x.position.reshape(-1, 3)) for x in s])
cs = magpy.misc.CustomSource(field_func=lambda field, observers: None)
err("field_func returns None in collection", lambda: magpy.getH([magpy.Collection(cs, s[2]), s[0]], obs))
cs2 = magpy.misc.CustomSource(field_func=lambda field, observers: observers * 2.0)
s = mk()
dig("custom in collection", magpy.getB([magpy.Collection(cs2, s[2]), s[0], magpy.Collection(s[3], s[4])], obs))
