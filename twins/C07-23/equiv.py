import os, sys; sys.path.insert(0, os.getcwd())
import hashlib
import re
import warnings

import numpy as np

import magpylib as magpy


def h(x):
    x = np.ascontiguousarray(np.asarray(x))
    return f"{x.shape} {x.dtype} {hashlib.sha1(x.tobytes()).hexdigest()[:16]}"


def dig(x):
    if x is None:
        return "None"
    x = np.asarray(x)
    with np.errstate(all="ignore"):
        return f"{h(x)} {np.round(x.astype(float), 10).ravel()[:9].tolist()}"


def run(name, fn):
    """print digest of result, or exception type/message, plus ordered list of warnings"""
    with warnings.catch_warnings(record=True) as rec:
        warnings.simplefilter("always")
        try:
            res = "-> " + dig(fn())
        except Exception as err:  # pylint: disable=broad-except
            msg = re.sub(r"0x[0-9a-f]+", "ADDR", str(err).replace("\n", " / "))
            res = f"-> EXC {type(err).__name__} | {msg[:200]}"
    ws = [f"{w.category.__name__}:{str(w.message)[:50]}" for w in rec]
    print(name, res, "| warn:", ws)


from magpylib._src.fields.field_BH_cylinder import BHJM_magnet_cylinder

e = 1e-16
# cylinder with diameter 2 (r0=1) and height 3 (z0=1.5)
obs = np.array(
    [
        (0.1, 0.2, 0.3), (2, 3, 4), (0, 0, 0), (0, 0, 0.7), (0, 0, 1.5), (0, 0, 5),  # in, out, centre, axis
        (1, 0, 0.3), (0.6, 0.8, -0.3), (0, -1, 0), (0.3, 0.2, 1.5), (0.3, 0.2, -1.5),  # hull, bases
        (1, 0, 1.5), (0.6, 0.8, -1.5), (0, 1, 1.5), (-1, 0, -1.5),  # edges
        (1, 0, 2.5), (3, 0, 1.5), (1 + 1e-14, 0, 1.5), (1, 0, 1.5 + 1e-14), (1 - 1e-14, 0, 1.5), (1 + e, 0, 1.5 - e),
        (1.0000001, 0, 0.2), (0.9999999, 0, 1.5), (-0.0, 0.0, 1.5), (0.5, 0, 1.5000001),
    ],
    dtype=float,
)
n = len(obs)
dim = np.tile((2.0, 3.0), (n, 1))
pol = np.tile((0.1, -0.2, 0.3), (n, 1))
pol_mix = pol.copy()
for i in range(n):
    k = i % 5
    if k == 1: pol_mix[i] = (0, 0, 0.4)
    if k == 2: pol_mix[i] = (0.3, 0, 0)
    if k == 3: pol_mix[i] = (0, -0.0, 0)
    if k == 4: pol_mix[i] = (0, 0.2, 0)
dim_mix = dim * (1 + (np.arange(n) % 3))[:, None]
obs_mix = obs * (1 + (np.arange(n) % 3))[:, None]
SETS = {
    "std": (obs, dim, pol),
    "polmix": (obs, dim, pol_mix),
    "polmix2": (obs, dim, np.roll(pol_mix, 2, axis=0)),
    "polmix3": (obs, dim, np.roll(pol_mix, 3, axis=0)),
    "ax": (obs, dim, np.tile((0, 0, 1.0), (n, 1))),
    "tv": (obs, dim, np.tile((1.0, 1.0, 0), (n, 1))),
    "null": (obs, dim, np.zeros((n, 3))),
    "scaled": (obs_mix, dim_mix, pol_mix),
    "int": (np.round(obs * 2).astype(int), np.tile((4, 6), (n, 1)), np.tile((1, 0, 2), (n, 1))),
    "tiny": (obs * 1e-150, dim * 1e-150, pol),
    "polnan": (obs, dim, np.where(np.arange(3 * n).reshape(n, 3) % 11 == 0, np.nan, pol_mix)),
}
for name, (o, d, p) in SETS.items():
    for field in "BHJM":
        run(f"BHJM_cylinder {name} {field}", lambda: BHJM_magnet_cylinder(field, o, d, p))
    for i in range(n):
        for field in "BH":
            run(f"  row{i} {name} {field}", lambda: BHJM_magnet_cylinder(field, o[i : i + 1], d[i : i + 1], p[i : i + 1]))

o2, d2, p2 = obs.copy(), dim.copy(), pol_mix.copy()
BHJM_magnet_cylinder("H", o2, d2, p2); BHJM_magnet_cylinder("B", o2, d2, p2); BHJM_magnet_cylinder("M", o2, d2, p2)
print("inputs untouched", np.array_equal(o2, obs), np.array_equal(d2, dim), np.array_equal(p2, pol_mix))
run("empty", lambda: BHJM_magnet_cylinder("B", np.zeros((0, 3)), np.zeros((0, 2)), np.zeros((0, 3))))
run("empty J", lambda: BHJM_magnet_cylinder("J", np.zeros((0, 3)), np.zeros((0, 2)), np.zeros((0, 3))))

for field in ("X", "JM", "", None, 1, b"B"):
    run(f"err field {field!r}", lambda: BHJM_magnet_cylinder(field, obs, dim, pol))
for field in "BHJM":
    run(f"err dim shape {field}", lambda: BHJM_magnet_cylinder(field, obs, dim[:3], pol))
    run(f"err pol shape {field}", lambda: BHJM_magnet_cylinder(field, obs, dim, pol[:3]))
    run(f"err obs shape {field}", lambda: BHJM_magnet_cylinder(field, obs[:3], dim, pol))
    run(f"err dim (n,3) {field}", lambda: BHJM_magnet_cylinder(field, obs, np.ones((n, 3)), pol))
    run(f"err pol (n,2) {field}", lambda: BHJM_magnet_cylinder(field, obs, dim, pol[:, :2]))
    run(f"single dim {field}", lambda: BHJM_magnet_cylinder(field, obs, dim[0], pol))
    run(f"single pol {field}", lambda: BHJM_magnet_cylinder(field, obs, dim, pol[0]))
    run(f"single pol null {field}", lambda: BHJM_magnet_cylinder(field, obs, dim, np.zeros(3)))
    run(f"single obs {field}", lambda: BHJM_magnet_cylinder(field, obs[0], dim, pol))
    run(f"list pol {field}", lambda: BHJM_magnet_cylinder(field, obs, dim, pol.tolist()))

run("core ax", lambda: magpy.core.magnet_cylinder_axial_Bfield(z0=np.array([1, 2.0]), r=np.array([1, 2.0]), z=np.array([2, 3.0])))
run("core tv", lambda: magpy.core.magnet_cylinder_diametral_Hfield(z0=np.array([1, 2.0]), r=np.array([1, 2.0]), z=np.array([2, 3.0]), phi=np.array([0.1, np.pi / 4])))
for field in "BHJM":
    get = getattr(magpy, "get" + field)
    cyl = magpy.magnet.Cylinder(dimension=(2, 3), polarization=(0.1, -0.2, 0.3))
    cyl2 = magpy.magnet.Cylinder(dimension=(2, 3), polarization=(0, 0, 0.5), position=(1, 0, 0)).rotate_from_angax(90, "x")
    sens = magpy.Sensor(pixel=obs)
    run(f"top {field}", lambda: get([cyl, cyl2], sens))
    run(f"src {field}", lambda: getattr(cyl, "get" + field)(obs))
    run(f"sens {field}", lambda: getattr(sens, "get" + field)(cyl, cyl2))
    run(f"coll {field}", lambda: getattr(magpy.Collection(cyl, cyl2), "get" + field)(obs))
    run(f"func {field}", lambda: get("Cylinder", obs_mix, dimension=dim_mix, polarization=pol_mix))
    run(f"func single {field}", lambda: get("Cylinder", obs, dimension=(2, 3), polarization=(0.1, -0.2, 0.3)))
    run(f"df {field}", lambda: get(cyl, obs, output="dataframe")[[field + "x", field + "y", field + "z"]].to_numpy())
