import os, sys; sys.path.insert(0, os.getcwd())
import builtins
import hashlib
import re
import warnings

import numpy as np

import magpylib as magpy

warnings.simplefilter("ignore")
_print = builtins.print


def print(*args):  # deterministic: strip object ids / addresses
    txt = " ".join(str(a) for a in args)
    txt = re.sub(r"id=\d+", "id=#", txt)
    txt = re.sub(r"0x[0-9a-f]+", "0x#", txt)
    _print(txt)


def dig(name, arr):
    arr = np.asarray(arr)
    h = hashlib.sha256(np.ascontiguousarray(arr).tobytes()).hexdigest()[:16]
    print(name, type(arr).__name__, arr.shape, h, np.round(arr.ravel()[:6], 12).tolist())


def err(name, fn):
    try:
        fn()
        print(name, "no error")
    except Exception as e:  # pylint: disable=broad-except
        print(name, type(e).__name__, str(e).splitlines()[0][:100], "|", str(e).splitlines()[-1][:60])


def show_df(name, df):
    print(name, "df", df.shape, list(df.columns), [str(t) for t in df.dtypes])
    print(name, "df source ids", [re.sub(r"id=\d+", "id=#", str(x)) for x in df["source"].unique()])
    print(name, "df sensor ids", [re.sub(r"id=\d+", "id=#", str(x)) for x in df["sensor"].unique()])
    print(name, "df path/pixel", sorted(df["path"].unique().tolist()), sorted(df["pixel"].unique().tolist()))
    cols = [c for c in df.columns if c not in ("source", "path", "sensor", "pixel")]
    dig(name + " df values", df[cols].to_numpy())
    h = hashlib.sha256(re.sub(r"id=\d+", "id=#", df.to_csv()).encode()).hexdigest()[:16]
    print(name, "df csv", h)


def mk():
    s1 = magpy.magnet.Cuboid(polarization=(0.1, 0.2, 0.3), dimension=(1, 2, 3), position=(0.1, 0, 0))
    s2 = magpy.magnet.Sphere(polarization=(0.3, -0.2, 0.1), diameter=1.5, position=(3, 1, 0), style_label="ball")
    s3 = magpy.current.Circle(current=12.0, diameter=2.0, position=(0, -3, 1), style_label="")
    s4 = magpy.misc.Dipole(moment=(1, 2, 3), position=(-3, 0, 0.5))
    s2.rotate_from_angax([10, 20, 30], "y", start=0)
    return s1, s2, s3, s4


pix2 = [(0, 0, 0), (0.1, 0.2, 0.3)]
sa = magpy.Sensor(pixel=pix2, position=(1, 5, 2), style_label="sens A").rotate_from_angax(33, (1, 2, 3))
sb = magpy.Sensor(pixel=pix2, position=(1, -5, 2), handedness="left")
s1pix = magpy.Sensor(position=(0, 0, 4))
big = magpy.Sensor(pixel=np.linspace((0, 0, 0), (1, 1, 1), 5), position=(0, 0, 7))
grid = magpy.Sensor(pixel=np.zeros((2, 3, 3)) + np.arange(3), position=(7, 0, 0))
obs1 = (1.0, 2.0, 3.0)
obs = np.array([(0.5, 4.0, 3.0), (-2.0, 1.5, 2.0), (6.0, 0.0, -1.0)])

for field in "BHJM":
    getf = getattr(magpy, "get" + field)
    s1, s2, s3, s4 = mk()
    col = magpy.Collection(s3, s4, style_label="pair")
    source_sets = {
        "one source": s1,
        "one source in list": [s1],
        "static sources": [s1, s3],
        "three sources": [s1, s2, s3],
        "collection + bare": [col, s1, s2],
        "bare collection": col,
    }
    observer_sets = {"point": obs1, "points": obs, "sensor": sa, "sensors": [sa, sb], "single pixel sensor": s1pix, "grid": grid}
    for sname, srcs in source_sets.items():
        for oname, ob in observer_sets.items():
            for sumup in (False, True):
                for squeeze in (True, False):
                    tag = f"{field} {sname} / {oname} / sumup={sumup} squeeze={squeeze}"
                    dig(tag, getf(srcs, ob, sumup=sumup, squeeze=squeeze))
                    if oname in ("sensors", "grid", "point"):
                        dig(tag + " agg", getf(srcs, ob, sumup=sumup, squeeze=squeeze, pixel_agg="mean"))
                if field in "BH":
                    show_df(f"{field} {sname} / {oname} / sumup={sumup}", getf(srcs, ob, sumup=sumup, output="dataframe"))
    # different pixel shapes need pixel_agg
    for sumup in (False, True):
        for squeeze in (True, False):
            dig(f"{field} ragged sensors sumup={sumup} squeeze={squeeze}",
                getf([col, s1], [big, s1pix, grid], pixel_agg="max", sumup=sumup, squeeze=squeeze))
        if field == "B":
            show_df(f"{field} ragged sensors df sumup={sumup}",
                    getf([col, s1], [big, s1pix, grid], pixel_agg="max", sumup=sumup, output="dataframe"))
            show_df(f"{field} agg df sumup={sumup}", getf([col, s1, s2], [sa, sb], pixel_agg="min", sumup=sumup, output="dataframe"))
    # sumup is the sum over the entries
    full = getf([col, s1, s2], [sa, sb], squeeze=False)
    print(field, "sumup == np.sum(entries):", bool(np.array_equal(getf([col, s1, s2], [sa, sb], sumup=True, squeeze=False), np.sum(full, axis=0, keepdims=True))))
    # via object methods (sumup keyword forwarded / fixed)
    dig(field + " source method", getattr(s1, "get" + field)(sa, sb, squeeze=False))
    dig(field + " sensor method sumup", getattr(sa, "get" + field)(s1, col, sumup=True))
    dig(field + " collection method", getattr(col, "get" + field)(sa, squeeze=False, pixel_agg="mean"))
    if field in "BH":
        show_df(field + " collection method", getattr(col, "get" + field)(sa, sb, output="dataframe"))
    # truthy / odd flag values
    dig(field + " sumup=1 squeeze=0", getf([s1, s2], obs, sumup=1, squeeze=0))
    dig(field + " sumup=None squeeze=None", getf([s1, s2], obs, sumup=None, squeeze=None, pixel_agg="mean"))

# error paths in the touched tail
s1, s2, s3, s4 = mk()
err("bad output", lambda: magpy.getB([s1, s2], obs, output="xml"))
err("bad output None", lambda: magpy.getB([s1, s2], obs, output=None))
err("bad output list", lambda: magpy.getB([s1, s2], obs, sumup=True, output=["dataframe"]))
err("bad output case", lambda: magpy.getH(s1, sa, output="DataFrame"))
err("ragged pixel + dataframe without agg", lambda: magpy.getB(s1, [big, grid], output="dataframe"))
err("bad pixel_agg", lambda: magpy.getB(s1, sa, pixel_agg="nope", output="dataframe"))


class Weird(str):
    """str subclass: still compares equal to the plain string"""


show_df("str subclass output", magpy.getB([s1, s2], sa, output=Weird("dataframe")))
dig("str subclass ndarray", magpy.getB([s1, s2], sa, output=Weird("ndarray")))
print("paths", [len(x._position) for x in (s1, s2, s3, s4, sa, sb)])
