import os, sys; sys.path.insert(0, os.getcwd())
import hashlib
import json
import re

import numpy as np
from scipy.spatial.transform import Rotation as R

import magpylib as magpy
from magpylib._src.display.traces_core import make_Dipole
from magpylib._src.display.traces_core import make_triangle_orientations
import warnings
warnings.simplefilter("ignore")


def norm(o):
    """deterministic, JSON-able view of nested trace structures"""
    if isinstance(o, dict):
        return {str(k): norm(v) for k, v in sorted(o.items(), key=lambda kv: str(kv[0]))}
    if isinstance(o, (list, tuple)):
        return [type(o).__name__, [norm(v) for v in o]]
    if isinstance(o, np.ndarray):
        if o.dtype.kind in "fiu":
            return ["nd", list(o.shape), np.round(o.astype(float), 9).tolist()]
        return ["nd", list(o.shape), [norm(v) for v in o.ravel().tolist()]]
    if isinstance(o, (float, np.floating)):
        return round(float(o), 9)
    if isinstance(o, (int, np.integer, bool, type(None))):
        return o
    if isinstance(o, str):
        return re.sub(r"id=\d+", "id=#", o)
    if isinstance(o, R):
        return ["rot", np.round(o.as_quat(), 9).tolist()]
    return re.sub(r"id=\d+|0x[0-9a-f]+", "#", repr(o))


def digest(label, o):
    s = json.dumps(norm(o), sort_keys=True)
    print(f"{label}: {hashlib.sha256(s.encode()).hexdigest()[:16]} len={len(s)}")
    return s


def attempt(label, func):
    try:
        res = func()
    except Exception as err:  # pylint: disable=broad-except
        print(f"{label}: EXC {type(err).__name__}: {err}")
        return None
    digest(label, res)
    return res



moments = [(0, 0, 1), (0, 0, -1), (0, 0, 2.5), (1, 0, 0), (0, -3, 0), (1, 1, 1), (-1, 2, -0.5),
           (1e-12, 0, 1), (0, 1e-9, -1), (0, 0, 0), None, (3e5, -4e5, 0)]
for mom in moments:
    for pivot in ("middle", "tail", "tip"):
        dip = magpy.misc.Dipole(moment=mom, style_pivot=pivot, style_size=2)
        attempt(f"dipole m={mom} pivot={pivot}", lambda: make_Dipole(dip, autosize=0.7, legendgroup="g"))
    dip = magpy.misc.Dipole(moment=mom, position=[(1, 2, 3), (2, 3, 4)])
    dip.rotate_from_angax(33, (1, 2, 3))
    attempt(f"dipole show m={mom}", lambda: magpy.show(
        dip, backend="plotly", return_fig=True, style_path_frames=1).to_dict()["data"])

tri_verts = [
    [(0, 0, 0), (1, 0, 0), (0, 1, 0)],  # normal +z
    [(0, 0, 0), (0, 1, 0), (1, 0, 0)],  # normal -z
    [(0, 0, 1), (0, 1, 0), (1, 0, 0)],
    [(0.1, 0.2, 0.3), (-1, 0.5, 2), (3, -1, 0.25)],
    [(0, 0, 0), (0, 1, 0), (0, 0, 1)],  # normal +x
    [(0, 0, 0), (1, 1, 1), (2, 2, 2)],  # degenerate
]
for verts in tri_verts:
    for symbol in ("cone", "arrow3d"):
        for offset in (0, 0.5, 1):
            def run():
                tri = magpy.misc.Triangle(polarization=(0, 0, 1), vertices=verts)
                tri.style.orientation = {"symbol": symbol, "offset": offset, "size": 1.5, "color": "blue"}
                return make_triangle_orientations(tri, legendgroup="lg")
            attempt(f"tri {verts[1]}/{verts[2]} {symbol} off={offset}", run)
    def run_show():
        tri = magpy.misc.Triangle(polarization=(0, 1, 1), vertices=verts, position=(1, 1, 1))
        tri.rotate_from_angax(20, "y")
        return magpy.show(tri, backend="plotly", return_fig=True, style_orientation_show=True).to_dict()["data"]
    attempt(f"tri show {verts[1]}/{verts[2]}", run_show)

pts = np.array([(0, 0, 0), (1, 0, 0), (0, 1, 0), (0, 0, 1), (1, 1, 1.5), (-0.5, 0.3, 0.2)])
mesh = magpy.magnet.TriangularMesh.from_ConvexHull(polarization=(1, 0, 0), points=pts)
box = magpy.magnet.TriangularMesh.from_ConvexHull(
    polarization=(0, 0, 1), points=np.array([(x, y, z) for x in (0, 1) for y in (0, 2) for z in (0, 3)]))
for label, msh in (("hull", mesh), ("box", box)):
    for symbol in ("cone", "arrow3d"):
        msh.style.orientation = {"symbol": symbol, "show": True, "size": 2, "offset": 0.8}
        attempt(f"{label} orient {symbol}", lambda: make_triangle_orientations(msh))
        before = json.dumps(norm([msh.style.as_dict(), msh.faces, msh.vertices, magpy.defaults.as_dict()]))
        for backend in ("plotly", "matplotlib"):
            def run_mesh():
                if backend == "plotly":
                    return magpy.show(msh, backend=backend, return_fig=True).to_dict()["data"]
                from magpylib._src.display.traces_generic import get_frames
                from magpylib._src.display.traces_utility import DEFAULT_ROW_COL_PARAMS
                data = get_frames([{**DEFAULT_ROW_COL_PARAMS, "objects": [msh]}], backend=backend,
                                  supports_colorgradient=False, style_kwargs={})
                return [data["frames"], data["ranges"], data["labels"]]
            attempt(f"{label} show {backend} {symbol}", run_mesh)
        after = json.dumps(norm([msh.style.as_dict(), msh.faces, msh.vertices, magpy.defaults.as_dict()]))
        print("unchanged:", before == after)

# error paths of the touched functions
attempt("err dipole no style", lambda: make_Dipole(object()))
attempt("err triangle no vertices", lambda: make_triangle_orientations(magpy.misc.Triangle()))
attempt("err bad kwarg", lambda: make_triangle_orientations(mesh, position=(1, 2, 3), legendgroup="a"))
