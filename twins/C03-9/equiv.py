import os, sys; sys.path.insert(0, os.getcwd())
import hashlib
import re
import warnings

import numpy as np
from scipy.spatial.transform import Rotation as R

import magpylib as magpy
from magpylib._src.obj_classes.class_BaseTransform import path_padding
from magpylib._src.obj_classes.class_BaseTransform import path_padding_param

warnings.simplefilter("ignore")

H = hashlib.sha256()


def typed(val):
    """repr with type names, so that int vs numpy int vs tuple vs list differences show"""
    if isinstance(val, (tuple, list)):
        return type(val).__name__ + "(" + ",".join(typed(v) for v in val) + ")"
    return f"{type(val).__name__}:{val!r}"


def exc(err):
    msg = re.sub(r"id=\d+|0x[0-9a-f]+", "#", str(err))
    return f"EXC {type(err).__name__}: {msg[:100]!r}"


def state(obj):
    return hashlib.sha256(
        obj._position.tobytes() + obj._orientation.as_quat().tobytes()
    ).hexdigest()[:12] + f" len={len(obj._position)}/{len(obj._orientation)}"


# 1) exhaustive table of path_padding_param on small arguments (digest + a few samples)
count = 0
starts = list(range(-9, 10)) + ["auto", np.int64(-7), np.int64(-2), np.int64(0), np.int64(3), True]
for scalar_input in (True, False):
    for lenop in range(1, 6):
        for lenip in range(1, 5):
            for start in starts:
                try:
                    res = typed(path_padding_param(scalar_input, lenop, lenip, start))
                except Exception as err:  # pylint: disable=broad-except
                    res = exc(err)
                line = f"{scalar_input} {lenop} {lenip} {typed(start)} -> {res}"
                H.update(line.encode())
                if count % 97 == 0:
                    print(line)
                count += 1
print("param table", count, H.hexdigest()[:20])

# numpy integer lengths (as they could come from .shape arithmetic)
for args in [
    (True, np.int64(3), np.int64(1), -5),
    (False, np.int64(3), np.int64(4), np.int64(-5)),
    (False, 3, 2, "auto"),
    (True, 3, 1, "auto"),
]:
    print("np args", typed(args), "->", typed(path_padding_param(*args)))

# error paths of the bare helper
for bad in ("x", None, 1.5, (1,), [0]):
    try:
        print("bad start", typed(bad), "->", typed(path_padding_param(False, 3, 2, bad)))
    except Exception as err:  # pylint: disable=broad-except
        print("bad start", typed(bad), "->", exc(err))


# 2) path_padding on objects
def fresh(n):
    obj = magpy.Sensor(position=[(k, 2 * k, -k) for k in range(n)])
    obj.orientation = R.from_rotvec([(0.1 * k, 0.2, 0.3 * k) for k in range(n)])
    return obj


for n in (1, 3):
    for inpath in (np.zeros(3), np.zeros((1, 3)), np.zeros((4, 3)), np.zeros(4), np.zeros((2, 4))):
        for start in ("auto", 0, 1, -1, -2, -6, 5, np.int64(-4)):
            obj = fresh(n)
            before = state(obj)
            ppath, opath, st, end, padded = path_padding(inpath, start, obj)
            dg = hashlib.sha256(ppath.tobytes() + opath.tobytes()).hexdigest()[:12]
            line = (
                f"pp n={n} in={inpath.shape} start={typed(start)} -> {ppath.shape} {opath.shape} "
                f"{typed(st)} {typed(end)} {typed(padded)} {dg} alias={ppath is obj._position} "
                f"untouched={before == state(obj)}"
            )
            H.update(line.encode())
            if start in ("auto", -6):
                print(line)
print("path_padding table", H.hexdigest()[:20])

# 3) move / rotate through the public interface, all start values, with and without children
rot1 = R.from_rotvec((0.2, -0.1, 0.4))
rot3 = R.from_rotvec([(0.1, 0.2, 0.3), (0.5, -0.4, 0.3), (1.0, 2.0, -0.5)])
ops = {
    "move1": lambda o, st: o.move((1, 2, 3), start=st),
    "move3": lambda o, st: o.move([(1, 2, 3), (2, 3, 4), (4, 5, 6)], start=st),
    "rot1": lambda o, st: o.rotate(rot1, start=st),
    "rot1-anchor": lambda o, st: o.rotate(rot1, anchor=(1, 1, 1), start=st),
    "rot3": lambda o, st: o.rotate(rot3, start=st),
    "rot3-anchor0": lambda o, st: o.rotate(rot3, anchor=0, start=st),
    "rot3-anchors": lambda o, st: o.rotate(rot3, anchor=[(1, 0, 0), (0, 1, 0), (0, 0, 1)], start=st),
    "angax": lambda o, st: o.rotate_from_angax([10, 20, 30, 40], "y", anchor=(0, 1, 0), start=st),
}
for opname, op in ops.items():
    for start in ("auto", 0, 1, 2, 7, -1, -2, -3, -9, np.int64(-5)):
        for n in (1, 3):
            obj = fresh(n)
            child = magpy.magnet.Cuboid(
                polarization=(0, 0, 1), dimension=(1, 1, 1), position=[(5, 5, k) for k in range(2)]
            )
            col = magpy.Collection(obj, child, position=(1, 1, 1))
            try:
                op(col, start)
                line = f"{opname} start={typed(start)} n={n}: {state(col)} | {state(obj)} | {state(child)}"
            except Exception as err:  # pylint: disable=broad-except
                line = f"{opname} start={typed(start)} n={n}: {exc(err)}"
            H.update(line.encode())
            if start in (-9, 2) and n == 3:
                print(line)
print("ops table", H.hexdigest()[:20])

# field of a moved/rotated source with padded path
src = magpy.magnet.Cuboid(polarization=(0.1, 0.2, 0.3), dimension=(1, 2, 3))
src.move([(0.1, 0, 0)] * 3, start=-5).rotate(rot3, anchor=(2, 2, 2), start=-2).move((0, 0, 1), start=6)
B = src.getB((3, 3, 3))
print("field", B.shape, hashlib.sha256(B.tobytes()).hexdigest()[:16], state(src))

# error paths through the public interface
for bad in ("x", 1.5, None, (1,)):
    for opname in ("move1", "rot3-anchor0"):
        obj = fresh(2)
        try:
            ops[opname](obj, bad)
            print("bad", opname, typed(bad), "no error", state(obj))
        except Exception as err:  # pylint: disable=broad-except
            print("bad", opname, typed(bad), exc(err), state(obj))
