import os, sys; sys.path.insert(0, os.getcwd())
import hashlib
import re
import warnings

import numpy as np

import magpylib as magpy
from magpylib._src.fields import field_BH_triangularmesh as tm

np.set_printoptions(precision=10, linewidth=200)


def clean(text):
    return re.sub(r"id=\d+", "id=N", str(text)).replace("\n", " | ")


def digest(tag, arr):
    arr = np.asarray(arr)
    flags = (arr.flags["C_CONTIGUOUS"], arr.flags["F_CONTIGUOUS"], arr.flags["OWNDATA"])
    raw = np.ascontiguousarray(arr)
    h = hashlib.sha256(raw.tobytes()).hexdigest()[:16]
    print(tag, arr.shape, arr.dtype, flags, h)
    if arr.dtype == bool:
        print("   ", "".join("1" if b else "0" for b in arr.ravel()[:120]))
    else:
        print("   ", np.array2string(arr.ravel()[:12], precision=10))


def attempt(tag, func):
    with warnings.catch_warnings(record=True) as rec:
        warnings.simplefilter("always")
        try:
            res = func()
            if isinstance(res, np.ndarray):
                digest(tag, res)
            else:
                print(tag, "->", clean(repr(res)))
        except Exception as err:  # pylint: disable=broad-except
            print(tag, "EXC", type(err).__name__, clean(err)[:300])
    for w in rec:
        print("   WARN", w.category.__name__, clean(w.message)[:300])


cube_v = (
    np.array(
        [(0, 0, 0), (1, 0, 0), (1, 1, 0), (0, 1, 0), (0, 0, 1), (1, 0, 1), (1, 1, 1), (0, 1, 1)],
        dtype=float,
    )
    - 0.5
)
cube_f = np.array(
    [
        (0, 2, 1), (0, 3, 2), (4, 5, 6), (4, 6, 7), (0, 1, 5), (0, 5, 4),
        (2, 3, 7), (2, 7, 6), (1, 2, 6), (1, 6, 5), (0, 4, 7), (0, 7, 3),
    ]
)
tet_v = np.array([(0, 0, 0), (1, 0, 0), (0, 1, 0), (0, 0, 1)], dtype=float)
tet_f = np.array([(0, 2, 1), (0, 1, 3), (1, 2, 3), (0, 3, 2)])

rng = np.random.default_rng(4)
pts_unit = np.concatenate(
    [
        rng.uniform(-0.8, 0.8, (40, 3)),
        # faces, edges, corners, bounding-box limits +- tiny
        np.array(
            [
                (0.5, 0.1, 0.2), (-0.5, 0.1, 0.2), (0.1, 0.5, -0.2), (0.1, 0.2, 0.5),
                (0.5, 0.5, 0.1), (0.5, 0.5, 0.5), (-0.5, -0.5, -0.5), (0, 0, 0),
                (0.5 + 1e-13, 0, 0), (0.5 + 1e-11, 0, 0), (-0.5 - 1e-13, 0, 0),
                (0, 0.5 + 1e-13, 0), (0, 0, -0.5 - 1e-11), (0.25, 0.25, 0.25),
                (1 / 3, 1 / 3, 1 / 3), (0.3, 0.3, 0.4), (0.2, 0.2, 0.6 + 1e-9),
            ]
        ),
    ]
)

print("== box mask / inside mask at several length units")
for scale in (1e-9, 1e-6, 1e-3, 1.0, 1e3, 1e9):
    for name, (v, f) in {"cube": (cube_v, cube_f), "tet": (tet_v, tet_f)}.items():
        msh = (v * scale)[f]
        pts = pts_unit * scale
        keep = pts.copy()
        attempt(f"box {name} {scale:g}", lambda: tm.mask_inside_enclosing_box(pts, msh.reshape(-1, 3)))
        attempt(f"in  {name} {scale:g}", lambda: tm.mask_inside_trimesh(pts, msh))
        print("    points untouched:", np.array_equal(pts, keep), "mesh untouched:", np.array_equal(msh, (v * scale)[f]))

print("== shifted body (negative / positive lower corner)")
for shift in ((-20.0, 3.0, 1e3), (7.5, -6.25, 0.0)):
    msh = (cube_v + shift)[cube_f]
    attempt(f"shift {shift}", lambda: tm.mask_inside_trimesh(pts_unit + shift, msh))

print("== dtypes and special inputs")
msh = cube_v[cube_f]
attempt("int points", lambda: tm.mask_inside_trimesh(np.array([(0, 0, 0), (1, 0, 0), (0, 0, 2)]), msh))
attempt("float32 pts", lambda: tm.mask_inside_trimesh(pts_unit.astype(np.float32), msh))
attempt("float32 msh", lambda: tm.mask_inside_trimesh(pts_unit, msh.astype(np.float32)))
attempt("int mesh", lambda: tm.mask_inside_trimesh(pts_unit * 2, (cube_v * 2).astype(int)[cube_f]))
attempt("empty points", lambda: tm.mask_inside_trimesh(np.zeros((0, 3)), msh))
attempt("all outside box", lambda: tm.mask_inside_trimesh(pts_unit + 10, msh))
attempt("nan point", lambda: tm.mask_inside_trimesh(np.array([(np.nan, 0, 0), (0, 0, 0)]), msh))
attempt("inf point", lambda: tm.mask_inside_trimesh(np.array([(np.inf, 0, 0), (0, 0, 0)]), msh))
attempt("fortran points", lambda: tm.mask_inside_trimesh(np.asfortranarray(pts_unit), msh))
attempt("flat faces (m*3,3)", lambda: tm.mask_inside_trimesh(pts_unit, msh.reshape(-1, 3)))
attempt("box only 2d verts", lambda: tm.mask_inside_enclosing_box(pts_unit, cube_v))
attempt("box list points", lambda: tm.mask_inside_enclosing_box([(0, 0, 0)], cube_v))

print("== error paths")
attempt("E empty faces", lambda: tm.mask_inside_trimesh(pts_unit, np.zeros((0, 3, 3))))
attempt("E points (n,2)", lambda: tm.mask_inside_trimesh(pts_unit[:, :2], msh))
attempt("E points (n,4)", lambda: tm.mask_inside_trimesh(np.ones((3, 4)), msh))
attempt("E points 1d", lambda: tm.mask_inside_trimesh(np.zeros(3), msh))
attempt("E points list", lambda: tm.mask_inside_trimesh([(0.0, 0.0, 0.0)], msh))
attempt("E faces list", lambda: tm.mask_inside_trimesh(pts_unit, msh.tolist()))
attempt("E faces (m,3,2)", lambda: tm.mask_inside_trimesh(pts_unit, msh[:, :, :2]))
attempt("E faces (m,2,3)", lambda: tm.mask_inside_trimesh(pts_unit, msh[:, :2]))
attempt("E faces scalar", lambda: tm.mask_inside_trimesh(pts_unit, np.float64(1.0)))
attempt("E faces None", lambda: tm.mask_inside_trimesh(pts_unit, None))
attempt("E points None", lambda: tm.mask_inside_trimesh(None, msh))
attempt("E box verts (m,2)", lambda: tm.mask_inside_enclosing_box(pts_unit, cube_v[:, :2]))
attempt("E box verts 1d", lambda: tm.mask_inside_enclosing_box(pts_unit, np.arange(3.0)))
attempt("E box verts empty", lambda: tm.mask_inside_enclosing_box(pts_unit, np.zeros((0, 3))))
attempt("E box both bad", lambda: tm.mask_inside_enclosing_box(np.zeros((2, 2)), np.zeros((0, 3))))
attempt("E box both bad 2", lambda: tm.mask_inside_enclosing_box(np.zeros((2, 2)), np.zeros((4, 2))))
attempt("E box str verts", lambda: tm.mask_inside_enclosing_box(pts_unit, np.array([["a", "b", "c"]])))

print("== callers: orientation seed, field with in_out=auto, object interface")
for scale in (1e-6, 1.0, 1e4):
    flipped = cube_f.copy()
    flipped[[0, 5, 7]] = flipped[[0, 5, 7]][:, [0, 2, 1]]
    attempt(f"inwards {scale:g}", lambda: tm.get_inwards_mask(cube_v * scale, flipped))
    obs = pts_unit[:25] * scale
    pol = np.tile((0.1, -0.2, 0.3), (len(obs), 1))
    mesh4 = np.tile((cube_v * scale)[cube_f], (len(obs), 1, 1, 1))
    for field in "BHJM":
        attempt(f"BHJM {field} {scale:g}", lambda: tm.BHJM_magnet_trimesh(field, obs, mesh4, pol))
    src = magpy.magnet.TriangularMesh(vertices=cube_v * scale, faces=cube_f, polarization=(0.3, 0.2, 0.1))
    attempt(f"getB {scale:g}", lambda: src.getB(pts_unit[:30] * scale))
    attempt(f"getH {scale:g}", lambda: src.getH(pts_unit[:30] * scale))
