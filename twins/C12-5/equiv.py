import os, sys; sys.path.insert(0, os.getcwd())
import hashlib
import warnings

import numpy as np

import magpylib as magpy
from magpylib._src.fields.field_BH_triangularmesh import BHJM_magnet_trimesh
from magpylib._src.fields.field_BH_triangularmesh import fix_trimesh_orientation
from magpylib._src.fields.field_BH_triangularmesh import lines_end_in_trimesh
from magpylib._src.fields.field_BH_triangularmesh import mask_inside_trimesh

warnings.simplefilter("ignore")
np.set_printoptions(precision=10, linewidth=200)


def digest(tag, arr):
    arr = np.asarray(arr)
    kind = arr.dtype.kind
    arr = np.ascontiguousarray(arr.astype(float))
    h = hashlib.sha256(arr.tobytes()).hexdigest()[:16]
    print(tag, arr.shape, kind, h)
    print(np.array2string(arr.ravel()[:24], precision=10))


def attempt(tag, func):
    try:
        digest(tag, func())
    except Exception as err:  # pylint: disable=broad-except
        print(tag, "EXC", type(err).__name__, str(err)[:120].replace("\n", " | "))


rng = np.random.default_rng(125)

# closed meshes: unit cube (12 faces, outward oriented) and a tetrahedron
cube_v = np.array(
    [(0, 0, 0), (1, 0, 0), (1, 1, 0), (0, 1, 0), (0, 0, 1), (1, 0, 1), (1, 1, 1), (0, 1, 1)],
    dtype=float,
) - 0.5
cube_f = np.array(
    [
        (0, 2, 1), (0, 3, 2), (4, 5, 6), (4, 6, 7), (0, 1, 5), (0, 5, 4),
        (2, 3, 7), (2, 7, 6), (1, 2, 6), (1, 6, 5), (0, 4, 7), (0, 7, 3),
    ]
)
cube = cube_v[cube_f]
tet_v = np.array([(0, 0, 0), (1, 0, 0), (0, 1, 0), (0, 0, 1)], dtype=float)
tet_f = np.array([(0, 2, 1), (0, 1, 3), (1, 2, 3), (0, 3, 2)])
tet = tet_v[tet_f]

pts_special = np.array(
    [
        (0, 0, 0),  # centre
        (0.5, 0, 0),  # on face
        (0.5, 0.1, -0.2),  # on face
        (0.5, 0.5, 0),  # on edge
        (0.5, 0.5, 0.5),  # corner
        (-0.5, -0.5, -0.5),  # corner
        (0.5 + 1e-9, 0, 0),  # just outside
        (0.5 - 1e-9, 0, 0),  # just inside
        (0.5 + 1e-5, 0.2, 0.1),
        (0.2, 0.2, 0.2),  # on the face diagonal plane
        (0.49, 0.49, 0.49),
        (0.6, 0.6, 0.6),
        (3, 0, 0),
        (0.25, 0.25, 0.25),
    ],
    dtype=float,
)
pts_rand = rng.uniform(-0.8, 0.8, size=(40, 3))
pts = np.concatenate([pts_special, pts_rand])

for scale in (1.0, 1e-9, 1e-3, 1e3, 1e9):
    attempt(f"inside cube s={scale:g}", lambda: mask_inside_trimesh(pts * scale, cube * scale))
    attempt(f"inside tet s={scale:g}", lambda: mask_inside_trimesh(pts * scale, tet * scale))
    start = np.min(cube.reshape(-1, 3), axis=0) * scale - np.array([12.0012345, 5.9923456, 6.9932109])
    lines = np.tile(start, (len(pts), 2, 1))
    lines[:, 1] = pts * scale
    attempt(f"lines cube s={scale:g}", lambda: lines_end_in_trimesh(lines, cube * scale))
    # end point coinciding with the reference vertex faces[:,2] of some faces
    lines_v = np.tile(start, (len(cube_v), 2, 1))
    lines_v[:, 1] = cube_v * scale
    attempt(f"lines to vertices s={scale:g}", lambda: lines_end_in_trimesh(lines_v, cube * scale))

# rays passing exactly through edges / corners of faces
lines_e = np.array(
    [
        [(-3, 0, 0), (0, 0, 0)],  # through the face diagonal of the x=-0.5 face
        [(-3, -3, -3), (0, 0, 0)],  # through a corner
        [(-3, -3, 0), (0.1, 0.1, 0)],  # through a cube edge
        [(-3, 0.2, 0.1), (3, 0.2, 0.1)],  # passes through, ends outside
        [(-3, 0.2, 0.1), (-0.5, 0.2, 0.1)],  # ends on the face
        [(-3, 0.2, 0.1), (-1, 0.2, 0.1)],  # ends before the mesh
    ],
    dtype=float,
)
attempt("lines edge cases", lambda: lines_end_in_trimesh(lines_e, cube))
attempt("lines single", lambda: lines_end_in_trimesh(lines_e[:1], cube))
attempt("lines empty", lambda: lines_end_in_trimesh(np.zeros((0, 2, 3)), cube))
attempt("inside empty pts", lambda: mask_inside_trimesh(np.zeros((0, 3)), cube))
snap = (lines_e.copy(), cube.copy())
lines_end_in_trimesh(lines_e, cube)
print("inputs untouched", np.array_equal(snap[0], lines_e), np.array_equal(snap[1], cube))

# orientation fixing uses the inside test
flipped = cube_f.copy()
flipped[[1, 4, 9]] = flipped[[1, 4, 9]][:, [0, 2, 1]]
for scale in (1.0, 1e-3, 1e3):
    attempt(f"fix orientation s={scale:g}", lambda: fix_trimesh_orientation(cube_v * scale, flipped))

# field level
nobs = 12
obs = np.concatenate([pts_special[:6], pts_rand[:6]])
pol = rng.uniform(-1, 1, size=(nobs, 3))
mesh_same = np.tile(cube, (nobs, 1, 1, 1))
for scale in (1.0, 1e-9, 1e9):
    for field in "BHJM":
        for in_out in ("auto", "inside", "outside"):
            attempt(
                f"trimesh s={scale:g} {field} {in_out}",
                lambda: BHJM_magnet_trimesh(field, obs * scale, mesh_same * scale, pol, in_out=in_out),
            )
mesh_ragged = np.empty(4, dtype=object)
mesh_ragged[0], mesh_ragged[1], mesh_ragged[2], mesh_ragged[3] = cube, tet, tet, cube * 2
for field in "BHJM":
    attempt(f"trimesh ragged {field}", lambda: BHJM_magnet_trimesh(field, obs[[0, 13 - 13, 9, 11]], mesh_ragged, pol[:4]))

# error paths
attempt("err lines shape", lambda: lines_end_in_trimesh(lines_e[:, :, :2], cube))
attempt("err lines 2d", lambda: lines_end_in_trimesh(lines_e[:, 0], cube))
attempt("err faces shape", lambda: lines_end_in_trimesh(lines_e, cube[:, :2]))
attempt("err faces cols", lambda: lines_end_in_trimesh(lines_e, cube[:, :, :2]))
attempt("err lines not sized", lambda: lines_end_in_trimesh(5, cube))
attempt("err both bad", lambda: lines_end_in_trimesh(5, cube[:, :, :2]))
attempt("err field", lambda: BHJM_magnet_trimesh("X", obs, mesh_same, pol))

# object interface
for scale in (1.0, 1e-6, 1e6):
    tm = magpy.magnet.TriangularMesh(
        polarization=(0.1, -0.2, 0.3), vertices=cube_v * scale, faces=flipped, reorient_faces=True
    )
    tm.rotate_from_angax(30, (1, 2, 0))
    print("faces", tm.faces.tolist() == magpy.magnet.TriangularMesh(
        polarization=(0.1, -0.2, 0.3), vertices=cube_v, faces=flipped).faces.tolist())
    grid = np.concatenate([pts_rand[:10], [(0, 0, 0), (0.1, 0.2, 0.3)]]) * scale
    for func in (magpy.getB, magpy.getH, magpy.getJ, magpy.getM):
        attempt(f"obj {func.__name__} s={scale:g}", lambda: func(tm, grid))
