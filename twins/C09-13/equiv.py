import os, sys; sys.path.insert(0, os.getcwd())
# Equivalence digest for twins3/3 (input_checks.py: keyword arguments of the
# anchor / axis / angle vector checks moved into a module-level table,
# array_like type tuple moved to module level).
import warnings
from fractions import Fraction

import numpy as np
from scipy.spatial.transform import Rotation as R

import magpylib as magpy
from magpylib._src import input_checks as ic

warnings.simplefilter("ignore")


def dig(a):
    return (np.round(np.asarray(a, dtype=float), 9) + 0.0).tolist()


def describe(res):
    if isinstance(res, np.ndarray):
        return ("ndarray", str(res.dtype), res.shape, dig(res), res.flags.owndata, res.flags.writeable)
    return (type(res).__name__, repr(res))


def state(obj):
    return dig(obj._position), dig(obj._orientation.as_quat())


def tree_state(obj):
    out = [state(obj)]
    for child in getattr(obj, "children", []):
        out.extend(tree_state(child))
    return out


def show(tag, fn):
    try:
        print(tag, "->", fn())
    except BaseException as err:  # pylint: disable=broad-except
        print(tag, "-> EXC", type(err).__name__, repr(str(err)), type(err.__cause__).__name__)


class ListSub(list):
    pass


arr3 = np.array([1, 2, 3])
VALUES = {
    "None": None, "0": 0, "0.0": 0.0, "-0.0": -0.0, "False": False, "True": True, "1": 1,
    "0j": 0j, "np0": np.int64(0), "npf0": np.float32(0), "Frac0": Fraction(0), "nan": float("nan"),
    "t3": (1, 2, 3), "l3": [1.5, 2, 3], "a3": arr3, "a3f": np.array([1.0, 2.0, 3.0]),
    "t2": (1, 2), "t4": (1, 2, 3, 4), "l13": [(1, 2, 3)], "l23": [(1, 2, 3), (4, 5, 6)],
    "l32": [(1, 2), (3, 4), (5, 6)], "a223": np.zeros((2, 2, 3)), "e": [], "e03": np.zeros((0, 3)),
    "z3": (0, 0, 0), "z3f": [0.0, -0.0, 0.0], "str": "abc", "x": "x", "y": "y", "z": "z", "X": "X",
    "xy": "xy", "empty str": "", "lstr": ["a", "b", "c"], "lNone": [None, 1, 2], "ragged": [(1, 2, 3), (1, 2)],
    "set": {1, 2, 3}, "dict": {"a": 1}, "range": range(3), "gen": (i for i in range(3)),
    "ListSub": ListSub([1, 2, 3]), "bool3": [True, False, True], "cplx3": [1j, 2, 3],
    "inf3": [np.inf, 1, 2], "nan3": [np.nan, 1, 2], "obj": object, "rot": R.from_rotvec((0, 0, 1)),
    "a0d": np.array(3.0), "a1": np.array([5.0]), "l5": [1, 2, 3, 4, 5], "big": [1e308, 1e308, 1e308],
    "mat": np.asmatrix([[1, 2, 3]]), "masked": np.ma.masked_array([1, 2, 3], mask=[0, 1, 0]),
    "f16": np.array([1, 2, 3], dtype=np.float16), "str3": ("1", "2", "3"), "bytes": b"abc",
}

# 1) the three checks called directly
for name in ("check_format_input_anchor", "check_format_input_axis", "check_format_input_angle"):
    fn = getattr(ic, name)
    for vk, val in VALUES.items():
        if vk == "gen":
            val = (i for i in range(3))
        show(f"{name} {vk}", lambda fn=fn, val=val: describe(fn(val)))
# result independent of the input / fresh per call
a = np.array([1.0, 2.0, 3.0])
for name in ("check_format_input_anchor", "check_format_input_axis", "check_format_input_angle"):
    res = getattr(ic, name)(a)
    print(name, "copy", res is not a, not np.shares_memory(res, a))
r1, r2 = ic.check_format_input_anchor(0), ic.check_format_input_anchor(0)
r1 += 1
print("anchor 0 fresh", r1 is not r2, dig(r2), dig(ic.check_format_input_anchor(0)))
r1, r2 = ic.check_format_input_axis("x"), ic.check_format_input_axis("x")
r1 += 1
print("axis x fresh", r1 is not r2, describe(r2), describe(ic.check_format_input_axis("x")))

# 2) is_array_like and the other users of check_format_input_vector are untouched
for vk, val in VALUES.items():
    show(f"is_array_like {vk}", lambda val=val: ic.is_array_like(val, "MSG " + vk))
show("vector allow_None", lambda: ic.check_format_input_vector(
    None, dims=(1, 2), shape_m1=3, sig_name="n", sig_type="t", allow_None=True))
show("vector no None", lambda: ic.check_format_input_vector(
    None, dims=(1, 2), shape_m1=3, sig_name="n", sig_type="t"))
show("vector reshape", lambda: describe(ic.check_format_input_vector(
    (1, 2, 3), dims=(1, 2), shape_m1=3, sig_name="n", sig_type="t", reshape=(-1, 3))))
show("vector neg", lambda: ic.check_format_input_vector(
    (1, -2, 3), dims=(1,), shape_m1=3, sig_name="n", sig_type="t", forbid_negative0=True))
show("vector2", lambda: describe(ic.check_format_input_vector2(
    [(1, 2, 3)] * 3, shape=(3, 3), param_name="vertices")))
show("vector2 bad", lambda: ic.check_format_input_vector2("abc", shape=(3, 3), param_name="vertices"))
show("cuboid dim", lambda: dig(magpy.magnet.Cuboid(dimension=(1, 2, 3)).dimension))
show("cuboid bad dim", lambda: magpy.magnet.Cuboid(dimension=(1, 2)))
show("sensor pixel", lambda: dig(magpy.Sensor(pixel=[(1, 2, 3)] * 2).pixel))


# 3) through the API
def sensor(n):
    s = magpy.Sensor(position=[(1 + i, 2 * i, -i) for i in range(n)])
    s.rotate_from_angax([7 * (i + 1) for i in range(n)], (1, 1, 0), start=0)
    return s


def tree():
    inner = magpy.Collection(sensor(2), position=[(0, 0, 1), (0, 1, 1), (1, 1, 1)])
    return magpy.Collection(inner, sensor(1), position=(3, 2, 1))


ANGLES = [30, -12.5, True, np.float32(3), Fraction(1, 3), [10], [10, 20], (1, 2, 3), np.array([5.0, 6.0]),
          [], "a", None, [(1, 2)], np.array(4.0), [None], 1j]
AXES = ["x", "y", "z", "w", (0, 0, 2), [1, 1, 0], np.array([0, -1.0, 0]), (0, 0, 0), (1, 2), [(1, 0, 0)],
        None, 1, ("a", 0, 0)]
ANCHORS = [None, 0, 0.0, False, (1, -1, 2), [(1, 0, 0), (0, 2, 0)], [(1, 0, 0)] * 3, np.zeros((0, 3)),
           (1, 2), "a", 1, True, [(1, 2, 3, 4)], np.zeros((2, 2, 3))]
for n in (1, 3):
    for ang in ANGLES:
        for ax in AXES:
            for deg in (True, False):
                s = sensor(n)
                before = state(s)
                show(
                    f"angax n={n} ang={ang!r} ax={ax!r} deg={deg}",
                    lambda s=s, ang=ang, ax=ax, deg=deg: s.rotate_from_angax(ang, ax, degrees=deg) is s,
                )
                print("   ", state(s), "changed", state(s) != before)
for make in (lambda: sensor(1), lambda: sensor(3), tree):
    for anc in ANCHORS:
        for start in ("auto", -5, 0, 2):
            for rot in (R.from_rotvec((0.1, -0.2, 0.3)), R.from_rotvec([(0, 0, 0.25), (0, 0.5, 0)]), None):
                obj = make()
                before = tree_state(obj)
                show(
                    f"rotate {type(obj).__name__} len={len(obj._position)} anc={anc!r} st={start}"
                    f" rot={None if rot is None else rot.as_quat().shape}",
                    lambda obj=obj, anc=anc, start=start, rot=rot: (
                        obj.rotate(rot, anchor=anc, start=start) is obj
                    ),
                )
                print("   ", tree_state(obj), "changed", tree_state(obj) != before)
            obj = make()
            before = tree_state(obj)
            show(
                f"angax anchor {type(obj).__name__} anc={anc!r} st={start}",
                lambda obj=obj, anc=anc, start=start: (
                    obj.rotate_from_angax([10, 20], "z", anchor=anc, start=start) is obj
                ),
            )
            print("   ", tree_state(obj), "changed", tree_state(obj) != before)
# combined bad inputs: which error wins
s = sensor(2)
before = state(s)
show("bad angle+axis", lambda: s.rotate_from_angax("a", "w"))
show("bad axis+start", lambda: s.rotate_from_angax(10, (0, 0, 0), start=1.5))
show("bad angle+anchor", lambda: s.rotate_from_angax([(1, 2)], "z", anchor="q"))
show("bad anchor+start", lambda: s.rotate_from_angax(10, "z", anchor=(1, 2), start=None))
show("bad degrees", lambda: s.rotate_from_angax(10, "z", degrees=1))
print("unchanged", state(s) == before)
