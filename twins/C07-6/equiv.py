import os, sys; sys.path.insert(0, os.getcwd())
import hashlib
import re
import warnings

import numpy as np
from scipy.spatial.transform import Rotation as R

import magpylib as magpy

warnings.simplefilter("ignore")


def h(x):
    x = np.ascontiguousarray(np.asarray(x))
    return f"{x.shape} {hashlib.sha1(x.tobytes()).hexdigest()[:16]}"


def dig(x):
    x = np.asarray(x)
    return f"{h(x)} {np.round(x.astype(float), 10).ravel()[:6].tolist()}"


def run(name, fn):
    try:
        print(name, "->", dig(fn()))
    except Exception as err:  # pylint: disable=broad-except
        msg = re.sub(r"0x[0-9a-f]+|id=\d+", "ADDR", str(err).replace("\n", " / "))
        print(name, "-> EXC", type(err).__name__, "|", msg[:160])


def sensors():
    """sensors covering all classes of the unrotated / static-orientation bookkeeping"""
    pix = [(0, 0, 0), (0.1, 0.2, 0.3), (-0.2, 0.1, 0.4)]
    out = {}
    # static, unit orientation
    out["static_unit"] = magpy.Sensor(pixel=pix, position=(1, 2, 3))
    # static, rotated
    out["static_rot"] = magpy.Sensor(pixel=pix, position=(1, 2, 3)).rotate_from_angax(
        33, (1, 2, 3)
    )
    # translation path, unit orientation on the whole path
    s = magpy.Sensor(pixel=pix)
    s.position = [(2, 0.1 * i, 0.3) for i in range(4)]
    out["path_unit"] = s
    # translation path, constant non-unit orientation
    s = magpy.Sensor(pixel=pix)
    s.position = [(2, 0.1 * i, 0.3) for i in range(4)]
    s.orientation = R.from_rotvec([(0.1, 0.2, 0.3)] * 4)
    out["path_const_rot"] = s
    # rotation path
    s = magpy.Sensor(pixel=pix)
    s.position = [(2, 0.1 * i, 0.3) for i in range(4)]
    s.orientation = R.from_euler("xyz", [(3 * i, 5 * i, 7 * i) for i in range(4)], degrees=True)
    out["path_rot"] = s
    # rotation path that starts with the unit rotation and changes only in the last step
    s = magpy.Sensor(pixel=pix)
    s.position = [(2, 0.1 * i, 0.3) for i in range(4)]
    s.orientation = R.from_rotvec([(0, 0, 0)] * 3 + [(0, 0, 0.5)])
    out["path_rot_last"] = s
    # negative unit quaternion (0,0,0,-1): the same rotation, but not "unrotated" bitwise
    s = magpy.Sensor(pixel=pix, position=(1, 2, 3))
    s._orientation = R.from_quat([[0, 0, 0, -1.0]])
    out["static_negunit"] = s
    # left handed variants
    out["left_static_rot"] = magpy.Sensor(
        pixel=pix, position=(1, 2, 3), handedness="left"
    ).rotate_from_angax(-71, (0, 1, 1))
    s = magpy.Sensor(pixel=pix, handedness="left")
    s.position = [(2, 0.1 * i, 0.3) for i in range(4)]
    s.orientation = R.from_euler("zyx", [(9 * i, -5 * i, 2 * i) for i in range(4)], degrees=True)
    out["left_path_rot"] = s
    # no pixel
    out["nopix_rot"] = magpy.Sensor(position=(0.5, 0.5, 2)).rotate_from_angax(45, "x")
    return out


def sources():
    cub = magpy.magnet.Cuboid(polarization=(0.1, 0.2, 0.3), dimension=(1, 2, 3), position=(0.1, 0.2, 0.3))
    cub.rotate_from_angax(33, (1, 2, 3))
    cyl = magpy.magnet.Cylinder(polarization=(0.3, 0.2, 0.1), dimension=(1, 2))
    cyl.move(np.linspace((0, 0, 0), (1, 1, 1), 3))  # path length 4
    cyl.rotate_from_angax(np.linspace(0, 77, 4), "y", start=0)
    circ = magpy.current.Circle(current=2, diameter=3, position=(0, 0, -1))
    return cub, cyl, circ


sens = sensors()
cub, cyl, circ = sources()
col = magpy.Collection(cub, circ)

# single sensors, every call form
for name, s in sens.items():
    for field in "BHJM":
        f = getattr(magpy, "get" + field)
        run(f"{name}.{field}.top", lambda: f([cub, cyl, circ], s))
        run(f"{name}.{field}.src", lambda: getattr(cyl, "get" + field)(s))
        run(f"{name}.{field}.sens", lambda: getattr(s, "get" + field)(cub, cyl, circ))
        run(f"{name}.{field}.coll", lambda: getattr(col, "get" + field)(s))
    run(f"{name}.static-source-only", lambda: magpy.getB(cub, s))
    run(f"{name}.sumup", lambda: magpy.getH([col, cyl], s, sumup=True, squeeze=False))
    run(f"{name}.df", lambda: magpy.getB([cub, cyl], s, output="dataframe")[["Bx", "By", "Bz"]].to_numpy())

# all sensors together (mixed bookkeeping in one call), different orders
names = list(sens)
allsens = [sens[n] for n in names]
run("all.top", lambda: magpy.getB([cub, cyl, circ], allsens[:-1]))
run("all.reversed", lambda: magpy.getB([circ, col], allsens[-2::-1]))
run("all.agg", lambda: magpy.getB([cub, cyl], allsens, pixel_agg="mean"))
run("all.agg.nosqueeze", lambda: magpy.getH([cub, cyl], allsens, pixel_agg="max", squeeze=False))
run("all.sensor-collection", lambda: magpy.getB(cyl, magpy.Collection(*[s.copy() for s in allsens[:-1]])))
run("posvec", lambda: magpy.getB([cub, cyl], [(1, 2, 3), (2, 3, 4)]))

# the sensors' own state is untouched
for name, s in sens.items():
    print("state", name, h(s._position), h(s._orientation.as_quat()))

# error paths
run("err.bad-observer", lambda: magpy.getB(cub, "nope"))
run("err.empty-observer", lambda: magpy.getB(cub, []))
run("err.pixel-shape-mix", lambda: magpy.getB(cub, [sens["static_rot"], sens["nopix_rot"]]))
run("err.bad-source", lambda: magpy.getB([cub, 1], sens["path_rot"]))
run("err.no-dim", lambda: magpy.getB(magpy.magnet.Cuboid(polarization=(1, 2, 3)), sens["path_rot"]))
run("err.output", lambda: magpy.getB(cub, sens["path_rot"], output="nope"))
