import os, sys; sys.path.insert(0, os.getcwd())

# Exercises BaseDisplayRepr.__repr__ / _property_names_generator / describe / _repr_html_
# and the tree view (describe, _repr_html_) of collections, for originals and copies, incl.
# the error messages of copy() that contain the repr of an object.
import contextlib
import inspect
import io
import re
import warnings

import numpy as np

import magpylib as magpy

warnings.simplefilter("ignore")


def clean(txt):
    return re.sub(r" at 0x[0-9a-f]+", " at 0x#", re.sub(r"id=\d+", "id=#", str(txt)))


def attempt(name, func):
    try:
        res = func()
        print(f"--- {name}:", clean(res))
    except BaseException as err:  # pylint: disable=broad-except
        print(f"--- {name} ERR", type(err).__name__, clean(err).replace("\n", " | ")[:300])


CALLS = []


class Named(magpy.Sensor):
    """has a `name` attribute that wins over the style label"""

    name = "class level name"


class NameRaises(magpy.Sensor):
    def __init__(self, exc, **kwargs):
        super().__init__(**kwargs)
        self._exc = exc

    @property
    def name(self):
        CALLS.append("name")
        raise self._exc("name getter")


class StyleCounts(magpy.Sensor):
    @property
    def style(self):
        CALLS.append("style")
        return magpy.Sensor.style.fget(self)


class StyleIsNone(magpy.Sensor):
    style = None


class LabelNotStr:
    label = 17


class StyleOdd(magpy.Sensor):
    style = LabelNotStr()


class NoStyle(magpy._src.obj_classes.class_BaseDisplayRepr.BaseDisplayRepr):
    """bare display class, no style at all"""

    @property
    def alpha(self):
        return 1

    beta = property(lambda self: [1, 2, 3, 4, 5])


# 1. repr ---------------------------------------------------------------------------------
objs = {
    "labelled": magpy.Sensor(style_label="lab"),
    "empty label": magpy.Sensor(style_label=""),
    "no style": magpy.Sensor(),
    "pending style, no label": magpy.Sensor(style_color="r"),
    "style dict": magpy.magnet.Cuboid(style={"label": "q'uote\"d"}),
    "collection": magpy.Collection(magpy.Sensor(), style_label="coll"),
    "named": Named(style_label="ignored"),
    "named None": Named(style_label="used"),
    "name AttributeError": NameRaises(AttributeError, style_label="nar"),
    "name ValueError": NameRaises(ValueError, style_label="nvr"),
    "style counts": StyleCounts(style_label="sc"),
    "style None": StyleIsNone(),
    "style odd": StyleOdd(),
    "bare": NoStyle(),
    "bad pending key": magpy.Sensor(style_nokey=3),
    "bad pending value": magpy.Sensor(style_color="nocolor"),
    "bad pending opacity": magpy.Sensor(style_opacity=5),
}
objs["named None"].name = None
objs["instance name"] = magpy.Sensor(style_label="lab2")
objs["instance name"].name = 42
for key, obj in objs.items():
    CALLS.clear()
    attempt(f"repr {key}", lambda: repr(obj))
    attempt(f"repr again {key}", lambda: repr(obj))
    if CALLS:
        print("    calls", CALLS)
    attempt(f"str {key}", lambda: f"{obj}")
    attempt(f"properties {key}", lambda: list(obj._property_names_generator()))

# 2. copies and messages containing a repr ---------------------------------------------------
for key in ("labelled", "no style", "pending style, no label", "collection", "named", "style counts", "bad pending key", "bad pending value"):
    CALLS.clear()
    attempt(f"copy {key}", lambda: repr(objs[key].copy()))
    if CALLS:
        print("    calls", CALLS)
top = magpy.Collection(objs["labelled"], style_label="top")
attempt("add owned message", lambda: magpy.Collection().add(objs["labelled"]))
attempt("add self message", lambda: top.add(top))
attempt("add twice message", lambda: top.add(objs["no style"], objs["no style"]))
attempt("remove message", lambda: top.remove(objs["no style"]))
attempt("copy with bad pending style in parent", lambda: objs["bad pending value"].copy(parent=top))
attempt("copy style_label of bad pending", lambda: objs["bad pending key"].copy(style_label="x"))
print("top children", [clean(c) for c in top.children])

# 3. generator behaviour ---------------------------------------------------------------------------
gen = objs["labelled"]._property_names_generator()
print("generator type", type(gen).__name__, next(gen), next(gen))
print("rest", list(gen))
print("describe signature", inspect.signature(magpy.Sensor.describe))
print("kwdefaults", magpy.Sensor.describe.__kwdefaults__)
print("collection describe signature", inspect.signature(magpy.Collection.describe))

# 4. describe / html of objects ------------------------------------------------------------------------
cub = magpy.magnet.Cuboid(polarization=(0, 0, 1), dimension=(1, 2, 3), style_label="cub")
attempt("describe default", lambda: cub.describe(return_string=True))
attempt("describe exclude ()", lambda: cub.describe(exclude=(), return_string=True)[:400])
attempt("html", cub._repr_html_)
attempt("html copy", cub.copy(position=[(1, 1, 1), (2, 2, 2)])._repr_html_)
attempt("bare describe", lambda: objs["bare"].describe(return_string=True))
attempt("bare html", objs["bare"]._repr_html_)

# 5. collection tree views ---------------------------------------------------------------------------------
s1 = magpy.Sensor(style_label="s1")
sub = magpy.Collection(*[magpy.misc.Dipole(moment=(1, 2, 3)) for _ in range(12)], magpy.Sensor(), style_label="sub")
big = magpy.Collection(s1, sub, cub, magpy.Collection(), style_label="big")
for fmt in ("type+label+id", "label", "type", "id", "type+properties", "", "label+id", "nonsense"):
    attempt(f"tree {fmt!r}", lambda: big.describe(format=fmt, return_string=True))
attempt("tree max_elems 1", lambda: big.describe(max_elems=1, return_string=True))
attempt("tree max_elems 20", lambda: big.describe(format="label", max_elems=20, return_string=True))
attempt("tree bad max_elems", lambda: big.describe(max_elems="a", return_string=True))
attempt("tree bad format", lambda: big.describe(format=3, return_string=True))
attempt("tree html", big._repr_html_)
attempt("empty tree", lambda: magpy.Collection().describe(return_string=True))
attempt("empty html", magpy.Collection()._repr_html_)


def printed():
    buf = io.StringIO()
    with contextlib.redirect_stdout(buf):
        res = big.describe(format="label")
    return f"returned {res!r}, printed: {buf.getvalue()}"


attempt("tree printed", printed)
bc = big.copy(style_label="bigcopy")
attempt("copy tree", lambda: bc.describe(return_string=True))
attempt("copy html", bc._repr_html_)
bc.remove(bc.children[1])
bc.children[0].style.label = "changed"
attempt("copy tree after mutation", lambda: bc.describe(format="label", return_string=True))
attempt("original tree after mutation", lambda: big.describe(format="label", return_string=True))
attempt("sub copy (had parent)", lambda: sub.copy().describe(format="type+label", max_elems=3, return_string=True))
