import os, sys; sys.path.insert(0, os.getcwd())
import hashlib
import warnings

import numpy as np

import magpylib as magpy
from magpylib._src.fields.field_BH_cylinder_segment import BHJM_cylinder_segment
from magpylib._src.fields.field_BH_cylinder_segment import BHJM_cylinder_segment_internal

warnings.simplefilter("ignore")


def dig(name, func, *args, **kwargs):
    try:
        arr = func(*args, **kwargs)
    except Exception as err:  # pylint: disable=broad-except
        print(name, type(err).__name__, str(err)[:140].replace("\n", " "))
        return
    arr = np.ascontiguousarray(np.asarray(arr, dtype=float))
    h = hashlib.sha256(arr.tobytes()).hexdigest()[:16]
    print(name, arr.shape, h, np.round(arr.ravel()[:6], 12).tolist())


# rows: segments, full solid cylinders (r1 = 0) and full hollow cylinders, interleaved
dims = np.array(
    [
        (0.5, 1.0, 2.0, 0, 90),  # segment
        (0.0, 1.0, 2.0, 0, 360),  # full, solid
        (0.5, 1.0, 2.0, -180, 180),  # full, hollow
        (0.0, 1.5, 1.0, 20, 200),  # segment without inner radius
        (0.3, 1.2, 1.5, 0, 400),  # more than a full turn -> full, hollow
        (0.5, 1.0, 2.0, 0, 359.9),  # nearly full segment
        (0.2, 0.8, 0.6, -90, 270),  # full, hollow
        (0.0, 0.7, 3.0, 10, 370),  # full, solid
    ],
    dtype=float,
)
obs = np.array(
    [
        (0.7, 0.3, 0.2),  # inside segment
        (0.2, 0.1, 0.3),  # inside solid
        (0.2, 0.1, 0.3),  # in the bore of the hollow cylinder
        (2.0, 1.0, -0.5),  # outside
        (0.8, 0.0, 0.1),  # inside the wall
        (1.0, 0.0, 0.0),  # on the surface
        (0.0, 0.0, 0.0),  # on the axis, in the bore
        (0.0, 0.0, 1.5),  # on the top surface
    ],
    dtype=float,
)
pol = np.array([(0.1 * (i + 1), -0.05 * i, 0.3 - 0.1 * i) for i in range(8)])

for field in "BHJM":
    dig(f"mixed {field}", BHJM_cylinder_segment_internal, field, obs, pol, dims)
    dig(f"segments only {field}", BHJM_cylinder_segment_internal, field, obs[[0, 3, 5]],
        pol[[0, 3, 5]], dims[[0, 3, 5]])
    dig(f"full only {field}", BHJM_cylinder_segment_internal, field, obs[[1, 2, 4, 6, 7]],
        pol[[1, 2, 4, 6, 7]], dims[[1, 2, 4, 6, 7]])
    dig(f"solid only {field}", BHJM_cylinder_segment_internal, field, obs[[1, 7]],
        pol[[1, 7]], dims[[1, 7]])
    dig(f"direct {field}", BHJM_cylinder_segment, field, obs, dims, pol)
    dig(f"direct surface only {field}", BHJM_cylinder_segment, field, obs[5:6], dims[5:6], pol[5:6])

# every row alone equals the row of the joint evaluation
joint = BHJM_cylinder_segment_internal("B", obs, pol, dims)
for i in range(len(obs)):
    alone = BHJM_cylinder_segment_internal("B", obs[i : i + 1], pol[i : i + 1], dims[i : i + 1])
    print(" row", i, bool(np.all(alone[0] == joint[i])), bool(np.allclose(alone[0], joint[i], rtol=1e-12, atol=0)))

# smallest and degenerate inputs, error paths
dig("empty", BHJM_cylinder_segment_internal, "B", obs[:0], pol[:0], dims[:0])
dig("int input", BHJM_cylinder_segment_internal, "H", np.array([[2, 1, 0], [0, 0, 0]]),
    np.array([[0, 0, 1], [1, 0, 0]]), np.array([[0, 1, 2, 0, 360], [1, 2, 2, 0, 90]]))
dig("bad field", BHJM_cylinder_segment_internal, "X", obs, pol, dims)
dig("bad field, full only", BHJM_cylinder_segment_internal, "X", obs[1:3], pol[1:3], dims[1:3])
dig("bad field direct", BHJM_cylinder_segment, "MJ", obs, dims, pol)
dig("dims (n,4)", BHJM_cylinder_segment_internal, "B", obs, pol, dims[:, :4])
dig("short observers", BHJM_cylinder_segment_internal, "B", obs[:5], pol, dims)
dig("short polarization", BHJM_cylinder_segment_internal, "B", obs, pol[:5], dims)
dig("short polarization full", BHJM_cylinder_segment_internal, "B", obs[1:3], pol[1:2], dims[1:3])
dig("1d polarization", BHJM_cylinder_segment_internal, "J", obs, pol[0], dims)
dig("list dims", BHJM_cylinder_segment_internal, "B", obs, pol, dims.tolist())

# object oriented: several CylinderSegment sources of different kinds plus a Cylinder
srcs = [
    magpy.magnet.CylinderSegment(polarization=tuple(p), dimension=tuple(d))
    for p, d in zip(pol[:5], list(dims[:4]) + [(0.3, 1.2, 1.5, 40, 400)])
]
srcs[0].move([(0.1, 0, 0), (0.2, 0, 0)])
srcs[2].rotate_from_angax([30, 60], "y")
srcs.insert(2, magpy.magnet.Cylinder(polarization=(0.1, 0.2, 0.3), dimension=(1, 2)))
sens = magpy.Sensor(pixel=obs[:4])
dig("obj B", magpy.getB, srcs, [sens, (0.3, 0.3, 0.3)], squeeze=False, pixel_agg="mean")
dig("obj H", magpy.getH, srcs[::-1], sens, squeeze=False)
dig("obj J", magpy.getJ, srcs, sens, sumup=True)
dig("obj M", magpy.getM, srcs[1], sens)
dig("dict", magpy.getB, "CylinderSegment", obs, dimension=dims, polarization=pol)
