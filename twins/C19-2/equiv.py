import os, sys; sys.path.insert(0, os.getcwd())
import hashlib
import json
import re

import numpy as np
from scipy.spatial.transform import Rotation as R

import magpylib as magpy
from magpylib._src.display.traces_utility import get_rot_pos_from_path


def norm(o):
    """deterministic, JSON-able view of nested trace structures"""
    if isinstance(o, dict):
        return {str(k): norm(v) for k, v in sorted(o.items(), key=lambda kv: str(kv[0]))}
    if isinstance(o, (list, tuple)):
        return [type(o).__name__, [norm(v) for v in o]]
    if isinstance(o, np.ndarray):
        if o.dtype.kind in "fiu":
            return ["nd", list(o.shape), np.round(o.astype(float), 9).tolist()]
        return ["nd", list(o.shape), [norm(v) for v in o.ravel().tolist()]]
    if isinstance(o, (float, np.floating)):
        return round(float(o), 9)
    if isinstance(o, (int, np.integer, bool, type(None))):
        return o
    if isinstance(o, str):
        return re.sub(r"id=\d+", "id=#", o)
    if isinstance(o, R):
        return ["rot", np.round(o.as_quat(), 9).tolist()]
    return re.sub(r"id=\d+|0x[0-9a-f]+", "#", repr(o))


def digest(label, o):
    s = json.dumps(norm(o), sort_keys=True)
    print(f"{label}: {hashlib.sha256(s.encode()).hexdigest()[:16]} len={len(s)}")
    return s


def attempt(label, func):
    try:
        res = func()
    except Exception as err:  # pylint: disable=broad-except
        print(f"{label}: EXC {type(err).__name__}: {err}")
        return None
    digest(label, res)
    return res



class Dummy:
    """bare object with path attributes only"""

    def __init__(self, n):
        self._position = np.arange(3 * n, dtype=float).reshape(n, 3)
        self._orientation = R.from_rotvec([(0, 0, 0.1 * i) for i in range(n)])


src7 = magpy.magnet.Cuboid(polarization=(0, 0, 1), dimension=(1, 1, 1))
src7.move([(i, 0, 0) for i in range(1, 7)])
src7.rotate_from_angax(np.linspace(0, 90, 7), "z", start=0)
src1 = magpy.magnet.Sphere(polarization=(0, 0, 1), diameter=1, position=(1, 2, 3))

cases = [None, True, False, 0, 1, 2, 3, 7, 100, -1, -2, 0.0, [1, 2, 8], [], [0], (5, 5, 1),
         [-1], [-3, 2], np.array([0, 6, 12]), range(0, 7, 3), np.int64(2), np.True_, 2.5,
         "all", [1.0, 2.0], [[0, 1], [2, 3]], {1, 2}]
for obj_label, obj in (("src7", src7), ("src1", src1), ("dummy4", Dummy(4))):
    for sp in cases:
        attempt(f"{obj_label} show_path={sp!r}", lambda: get_rot_pos_from_path(obj, sp))
    attempt(f"{obj_label} default", lambda: get_rot_pos_from_path(obj))

attempt("err no path attrs", lambda: get_rot_pos_from_path(object(), 1))
inp = [1, 2, 8]
arr = np.array([9])  # size-1 arrays pass the `== 0` test
res = get_rot_pos_from_path(src7, inp), get_rot_pos_from_path(src7, arr)
print("inputs untouched:", inp, arr, res[1][2] is arr)

# through show(): frame selections
before = json.dumps(norm([o.style.as_dict() for o in (src7, src1)] + [magpy.defaults.as_dict()]))
for frames in (True, False, 2, [0, 3, 20], [], -1):
    def run():
        fig = magpy.show(src7, src1, backend="plotly", return_fig=True, style_path_frames=frames)
        return fig.to_dict()["data"]
    attempt(f"plotly frames={frames!r}", run)
src7.style.path.frames = 3
attempt("plotly obj style frames", lambda: magpy.show(src7, backend="plotly", return_fig=True).to_dict()["data"])
attempt("plotly animation", lambda: [
    f.to_plotly_json()["data"] for f in magpy.show(src7, src1, backend="plotly", return_fig=True, animation=True).frames])
src7.style.path.frames = None
after = json.dumps(norm([o.style.as_dict() for o in (src7, src1)] + [magpy.defaults.as_dict()]))
print("objects/defaults unchanged:", before == after)
