import os, sys; sys.path.insert(0, os.getcwd())
import re
import warnings
from fractions import Fraction

import numpy as np

import magpylib as magpy
from magpylib._src.input_checks import check_format_input_axis

warnings.simplefilter("ignore")


def dig(r):
    if isinstance(r, np.ndarray):
        return f"ARR {r.dtype} {r.shape} {r.tolist()} own={r.flags.owndata} w={r.flags.writeable}"
    return f"RET {type(r).__name__} {r!r}"


def run(f):
    try:
        out = dig(f())
    except Exception as e:  # pylint: disable=broad-except
        out = f"EXC {type(e).__name__}: {e!s} | cause={type(e.__cause__).__name__}"
    return re.sub(r"0x[0-9a-f]+|id=\d+", "ADDR", out)


def emit(*args):
    print(re.sub(r"0x[0-9a-f]+|id=\d+", "ADDR", " ".join(str(a) for a in args)))


LOG = []


class SpyStr(str):
    """str subclass that logs every comparison and can answer anything"""

    def __new__(cls, text, answers=None):
        obj = super().__new__(cls, text)
        obj.answers = answers or {}
        return obj

    def __eq__(self, other):
        LOG.append(("eq", str(other)))
        if other in self.answers:
            res = self.answers[other]
            if isinstance(res, Exception):
                raise res
            return res
        return str.__eq__(self, other)

    __hash__ = None  # unhashable on purpose


class Truthy:
    def __init__(self, val):
        self.val = val

    def __bool__(self):
        LOG.append(("bool", self.val))
        return self.val


class LoudFloat:
    def __float__(self):
        raise RuntimeError("no float for you")


values = [
    "x", "y", "z", "X", "", "xy", "xyz", " x", "x ", "w", "0", "(1,0,0)", np.str_("y"), np.str_("q"),
    SpyStr("x"), SpyStr("z"), SpyStr("q"), SpyStr("q", {"y": True}), SpyStr("x", {"x": False}),
    SpyStr("q", {"x": Truthy(False), "y": Truthy(True)}), SpyStr("q", {"y": KeyError("boom")}),
    SpyStr("q", {"x": 0, "y": 0, "z": 1}), SpyStr("q", {"x": np.bool_(True)}),
    b"x", None, 0, 1, 1.5, True, Fraction(1, 2), (), [], [[]], (1, 2, 3), [1, 2, 3], (0, 0, 0), [0.0, -0.0, 0], (0, 0, 1e-300),
    np.array((1, 2, 3)), np.array((0, 0, 0)), np.zeros(3), np.array((1, 2, 3), dtype=np.int8), np.array([1, 0, 0], dtype=bool),
    np.array([False] * 3), (1, 2), (1, 2, 3, 4), [(1, 2, 3)], [(0, 0, 0)], [(1, 2, 3)] * 2, np.ones((3, 1)), np.ones((1, 3)),
    ("x", "y", "z"), ("1", "2", "3"), (1, "a", 3), (1, None, 3), (1, LoudFloat(), 3), (np.nan, 0, 0), (np.inf, 0, 0), (0, 0, -np.inf),
    {1, 2, 3}, {"x": 1}, range(3), np.array((1, 2, 3), dtype=object), np.array((1j, 0, 0)), np.array(5), np.array("x"),
    ["x"], ("x",), (1e400, 0, 0), [[1], [2], [3]], (True, False, False),
]

emit("== validator")
for v in values:
    LOG.clear()
    r1 = run(lambda: check_format_input_axis(v))
    log = list(LOG)
    # a second call must give a fresh, independent array
    fresh = "-"
    try:
        a, b = check_format_input_axis(v), check_format_input_axis(v)
        fresh = f"fresh={a is not b and not np.shares_memory(a, b)}"
        if isinstance(v, np.ndarray):
            fresh += f" shares_input={np.shares_memory(a, v)}"
    except Exception:  # pylint: disable=broad-except
        pass
    emit(type(v).__name__, repr(v)[:60].replace("\n", " "), "|", r1, "|", fresh, "| log", log)

emit("== the table results are not shared state")
a = check_format_input_axis("x")
a[0] = 99
emit(dig(check_format_input_axis("x")), dig(check_format_input_axis("y")), dig(check_format_input_axis("z")))

emit("== rotate_from_angax through objects")
objs = {
    "Sensor": lambda: magpy.Sensor(position=(1, 2, 3)),
    "Cuboid": lambda: magpy.magnet.Cuboid(polarization=(0, 0, 1), dimension=(1, 2, 3), position=[(1, 0, 0), (2, 0, 0)]),
    "Coll": lambda: magpy.Collection(magpy.Sensor(position=(1, 1, 1)), position=(0, 0, 1)),
}
axes = ["x", "y", "z", "q", SpyStr("z"), SpyStr("q", {"y": True}), (1, 2, 3), (0, 0, 0), [0, 0, -2], np.array((0.0, 1.0, 1.0)),
        (1, 2), None, 1, ((1, 0, 0),), ("a", 0, 0)]
for name, mk in objs.items():
    for ax in axes:
        for ang, kw in ((30, {}), ((10, 20), {"anchor": 0}), (0.5, {"degrees": False, "start": 1})):
            o = mk()
            before = (dig(o.position), dig(o.orientation.as_quat()))
            r = run(lambda: o.rotate_from_angax(ang, ax, **kw) and None)
            after = (dig(np.round(o.position, 12)), dig(np.round(o.orientation.as_quat(), 12)))
            unchanged = (dig(np.round(o.position, 12)) == dig(np.round(mk().position, 12))) and r.startswith("EXC")
            emit(name, repr(ax)[:30], ang, kw, "|", r, "|", "UNCHANGED" if unchanged else after)
            if name == "Coll":
                c = o.children[0]
                emit("   child", dig(np.round(c.position, 12)), dig(np.round(c.orientation.as_quat(), 12)))

emit("== error precedence in rotate_from_angax (angle, axis, start, degrees)")
s = magpy.Sensor()
emit(run(lambda: s.rotate_from_angax("a", "q")))
emit(run(lambda: s.rotate_from_angax(1, "q", start="bad", degrees=1)))
emit(run(lambda: s.rotate_from_angax(1, (0, 0, 0), start="bad", degrees=1)))
emit(run(lambda: s.rotate_from_angax(1, "x", start="bad", degrees=1)))
emit(run(lambda: s.rotate_from_angax(1, "x", start=0, degrees=1)))
emit(dig(s.position), dig(s.orientation.as_quat()))
