import os, sys; sys.path.insert(0, os.getcwd())
import re
import warnings
from fractions import Fraction

import numpy as np
from scipy.spatial.transform import Rotation as R

import magpylib as magpy
from magpylib._src.input_checks import check_degree_type
from magpylib._src.input_checks import check_start_type

warnings.simplefilter("ignore")


def dig(r):
    if isinstance(r, np.ndarray):
        return f"ARR {r.dtype} {r.shape} {np.round(r, 12).tolist()}"
    return f"RET {type(r).__name__} {r!r}"


def run(f):
    try:
        out = dig(f())
    except Exception as e:  # pylint: disable=broad-except
        out = f"EXC {type(e).__name__}: {e!s} | cause={type(e.__cause__).__name__}"
    return re.sub(r"0x[0-9a-f]+|id=\d+", "ADDR", out)


def emit(*args):
    print(re.sub(r"0x[0-9a-f]+|id=\d+", "ADDR", " ".join(str(a) for a in args)))


LOG = []


class SpyStr(str):
    def __new__(cls, text, answer=None):
        obj = super().__new__(cls, text)
        obj.answer = answer
        return obj

    def __eq__(self, other):
        LOG.append(("eq", str(other)))
        if isinstance(self.answer, Exception):
            raise self.answer
        return str.__eq__(self, other) if self.answer is None else self.answer

    __hash__ = str.__hash__

    def __repr__(self):
        LOG.append("repr")
        return "SpyStr(" + str.__repr__(self) + ")"


class Truthy:
    def __init__(self, val):
        self.val = val

    def __bool__(self):
        LOG.append(("bool", self.val))
        return self.val


class SpyInt(int):
    def __repr__(self):
        LOG.append("repr")
        return f"SpyInt({int(self)})"


class BadRepr:
    def __repr__(self):
        raise RuntimeError("no repr")


values = [
    "auto", "Auto", "", "auto ", "0", "1", b"auto", np.str_("auto"), np.str_("no"), SpyStr("auto"), SpyStr("nope"), SpyStr("nope", answer=True),
    SpyStr("auto", answer=False), SpyStr("auto", answer=Truthy(True)), SpyStr("auto", answer=Truthy(False)), SpyStr("auto", answer=KeyError("cmp")),
    SpyStr("auto", answer=0), SpyStr("x", answer=[1]), SpyStr("x", answer=[]),
    0, 1, -1, 5, -7, 10**30, True, False, SpyInt(2), np.int8(3), np.int64(-2), np.uint16(4), np.bool_(True), np.bool_(False), np.float64(1.0), np.float32(0),
    0.0, 1.0, 1.5, np.nan, 1j, Fraction(1, 1), None, (), [], [0], (0,), (1, 2), {"auto"}, {"auto": 1}, np.array(1), np.array([1]), np.array("auto"),
    np.array(True), int, str, "auto".__eq__, BadRepr(), range(2), slice(1), Ellipsis, NotImplemented,
]

emit("== validators directly")
for v in values:
    LOG.clear()
    r1 = run(lambda: check_start_type(v))
    log1 = list(LOG)
    LOG.clear()
    r2 = run(lambda: check_degree_type(v))
    log2 = list(LOG)
    LOG.clear()
    emit(type(v).__name__, run(lambda: repr(v))[:50], "| start", r1, log1, "| degrees", r2, log2)
emit(run(lambda: check_start_type(inp="auto")), run(lambda: check_degree_type(inp=True)), run(lambda: check_start_type(inp=1.5)),
     run(lambda: check_degree_type(inp=1)))


def state(o):
    return dig(o.position) + " " + dig(o.orientation.as_quat())


emit("== start through move / rotate / rotate_from_angax")
mk = {
    "Sensor": lambda: magpy.Sensor(position=[(1, 0, 0), (2, 0, 0), (3, 0, 0)]),
    "Coll": lambda: magpy.Collection(magpy.magnet.Sphere(polarization=(0, 0, 1), diameter=1, position=(1, 1, 1)), position=[(0, 0, 1), (0, 0, 2)]),
}
LOG.clear()
for name, f in mk.items():
    for v in values:
        if isinstance(v, (BadRepr,)) or (isinstance(v, int) and abs(v) > 100):
            continue
        o = f()
        base = state(o)
        r_move = run(lambda: o.move((1, 2, 3), start=v) and None)
        s1 = state(o)
        r_movev = run(lambda: o.move([(1, 2, 3), (2, 3, 4)], start=v) and None)
        s2 = state(o)
        r_rot = run(lambda: o.rotate(R.from_rotvec((0, 0, 0.3)), anchor=0, start=v) and None)
        s3 = state(o)
        r_ang = run(lambda: o.rotate_from_angax([10, 20], "z", start=v) and None)
        s4 = state(o)
        emit(name, type(v).__name__, run(lambda: repr(v))[:30], "| move", r_move, "SAME" if s1 == base else s1, "| movev", r_movev, "SAME" if s2 == s1 else s2,
             "| rot", r_rot, "SAME" if s3 == s2 else s3, "| angax", r_ang, "SAME" if s4 == s3 else s4)
        if name == "Coll":
            emit("    child", state(o.children[0]))

emit("== degrees through rotate_from_angax")
for v in values:
    if isinstance(v, (BadRepr,)):
        continue
    o = magpy.Sensor(position=(1, 2, 3))
    base = state(o)
    r = run(lambda: o.rotate_from_angax(0.5, (1, 1, 0), anchor=(0, 0, 1), degrees=v) and None)
    s = state(o)
    emit(type(v).__name__, run(lambda: repr(v))[:30], "|", r, "SAME" if s == base else s)

emit("== error precedence")
s = magpy.Sensor()
emit(run(lambda: s.rotate_from_angax(1, "x", start=1.5, degrees=2)))
emit(run(lambda: s.rotate_from_angax(1, "x", start="auto", degrees=2)))
emit(run(lambda: s.rotate_from_angax(1, "x", start=BadRepr(), degrees=True)))
emit(run(lambda: s.rotate_from_angax(1, "x", start=0, degrees=BadRepr())))
emit(run(lambda: s.move((1, 1), start=1.5)))
emit(run(lambda: s.move((1, 1, 1), start=1.5)))
emit(run(lambda: s.rotate(None, anchor="a", start=1.5)))
emit(run(lambda: s.rotate(None, anchor=None, start=1.5)))
emit(state(s))
