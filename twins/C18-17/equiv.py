import os, sys; sys.path.insert(0, os.getcwd())

# Exercises Collection.add / Collection.remove (input formatting and the adoption of the
# new children) directly, through the constructor, the `parent` / `children` setters and
# through copy(parent=..., children=...) of members of a collection tree.
import re
import warnings

import numpy as np

import magpylib as magpy

warnings.simplefilter("ignore")


def clean(txt):
    return re.sub(r" at 0x[0-9a-f]+", " at 0x#", re.sub(r"id=\d+", "id=#", str(txt)))


def r(a):
    return np.round(np.asarray(a, dtype=float), 10).tolist()


def lab(o):
    return None if o is None else o.style.label


def labels(objs):
    return [lab(o) for o in objs]


def links_ok(c):
    ok = True
    for ch in c.children:
        ok = ok and ch._parent is c
        if isinstance(ch, magpy.Collection):
            ok = ok and links_ok(ch)
    return ok


def tree(c):
    return [lab(c), labels(c.children), labels(c.sources), labels(c.sensors), labels(c.collections), lab(c._parent), links_ok(c)]


LOG = []


class LoggingCollection(magpy.Collection):
    """records remove calls and the (re)binding of the private lists"""

    def remove(self, *children, **kwargs):
        LOG.append(("remove", lab(self), [lab(c) if hasattr(c, "style") else clean(repr(c)) for c in children], sorted(kwargs)))
        return super().remove(*children, **kwargs)

    def __setattr__(self, name, value):
        if name in ("_sources", "_sensors", "_collections", "_children"):
            LOG.append((name, lab(self) if "_style_kwargs" in vars(self) else "?", len(value)))
        super().__setattr__(name, value)


class LoggingSensor(magpy.Sensor):
    def __setattr__(self, name, value):
        if name == "_parent":
            LOG.append(("_parent", self._style_kwargs.get("label", None) if "_style_kwargs" in vars(self) else "?", lab(value)))
        super().__setattr__(name, value)


def build():
    o = {}
    o["s1"] = LoggingSensor(style_label="s1", position=(0.1, 0.2, 0.3))
    o["s2"] = LoggingSensor(style_label="s2", pixel=[(0, 0, 0), (0, 0, 1)])
    o["d1"] = magpy.misc.Dipole(moment=(1, 2, 3), style_label="d1", position=(2, 2, 2))
    o["m1"] = magpy.magnet.Cuboid(polarization=(0, 0, 1), dimension=(1, 2, 3), style_label="m1")
    o["sub_s"] = LoggingSensor(style_label="sub_s")
    o["sub"] = LoggingCollection(o["sub_s"], style_label="sub")
    o["top"] = LoggingCollection(o["s1"], o["d1"], o["sub"], style_label="top")
    o["other"] = LoggingCollection(o["s2"], o["m1"], style_label="other")
    o["free_s"] = LoggingSensor(style_label="free_s")
    o["free_d"] = magpy.misc.Dipole(moment=(0, 0, 1), style_label="free_d")
    o["free_c"] = LoggingCollection(style_label="free_c")
    return o


def attempt(name, func, *watch):
    LOG.clear()
    try:
        res = func()
        if isinstance(res, magpy.Collection):
            res = tree(res)
        elif hasattr(res, "style"):
            res = [type(res).__name__, lab(res), lab(res._parent)]
        print(name, "ok", res)
    except BaseException as err:  # pylint: disable=broad-except
        print(name, "ERR", type(err).__name__, clean(err).split("\n")[0][:160])
    for entry in LOG:
        print("   log", entry)
    for w in watch:
        print("   watch", tree(w))


class NotAnObject:
    def __repr__(self):
        return "NotAnObject()"


# 1. add: input formats ---------------------------------------------------------------
o = build()
top, other, sub = o["top"], o["other"], o["sub"]
attempt("add nothing", lambda: top.add(), top)
attempt("add empty list", lambda: top.add([]), top)
attempt("add empty tuple", lambda: top.add(()), top)
attempt("add one", lambda: top.add(o["free_s"]), top)
attempt("add list", lambda: top.add([o["free_d"], o["free_c"]]), top)
o = build()
top, other, sub = o["top"], o["other"], o["sub"]
attempt("add tuple", lambda: top.add((o["free_d"], o["free_c"])), top)
attempt("add two lists", lambda: top.add([o["free_s"]], [o["free_d"]]), top)
attempt("add nested list", lambda: top.add([[o["free_s"]]]), top)
attempt("add list and object", lambda: top.add([o["free_s"]], o["free_s"]), top)
attempt("add generator", lambda: top.add(x for x in [o["free_s"]]), top)
attempt("add set", lambda: top.add({o["free_s"]}), top)
attempt("add array", lambda: top.add(np.array([1, 2, 3])), top)
attempt("add None", lambda: top.add(None), top)
attempt("add str", lambda: top.add("abc"), top)
attempt("add [None]", lambda: top.add([None]), top)
attempt("add object, bad", lambda: top.add(o["free_s"], NotAnObject()), top)
attempt("add bad, object", lambda: top.add(NotAnObject(), o["free_s"]), top)
attempt("add list subclass", lambda: top.add(type("L", (list,), {})([o["free_s"]])), top)
attempt("add dict", lambda: top.add({"a": o["free_d"]}), top)

# 2. add: ownership -----------------------------------------------------------------------
o = build()
top, other, sub = o["top"], o["other"], o["sub"]
attempt("add owned", lambda: top.add(o["s2"]), top, other)
attempt("add owned override", lambda: top.add(o["s2"], o["m1"], override_parent=True), top, other)
attempt("add own child again", lambda: top.add(o["s1"]), top)
attempt("add own child again override", lambda: top.add(o["s1"], override_parent=True), top)
attempt("add grandchild override", lambda: top.add(o["sub_s"], override_parent=True), top, sub)
attempt("add twice", lambda: top.add(o["free_s"], o["free_s"]), top)
attempt("add self", lambda: top.add(top), top)
attempt("add ancestor", lambda: sub.add(top, override_parent=True), top, sub)
attempt("add collection with children", lambda: o["free_c"].add(sub, override_parent=True), top, o["free_c"])

# 3. add: failure in the middle of the adoption ----------------------------------------------
o = build()
top, other, sub = o["top"], o["other"], o["sub"]
o["free_d"]._parent = other  # claims a parent that does not hold it
attempt(
    "add with stale parent",
    lambda: top.add(o["free_s"], o["free_d"], o["free_c"], override_parent=True),
    top,
    other,
)
print("   parents", lab(o["free_s"]._parent), lab(o["free_d"]._parent), lab(o["free_c"]._parent))
o["free_d"]._parent = "nonsense"
attempt("add with nonsense parent", lambda: top.add(o["free_c"], o["free_d"], override_parent=True), top)
print("   parents", lab(o["free_c"]._parent), o["free_d"]._parent)

# 4. remove: input formats -----------------------------------------------------------------
o = build()
top, other, sub = o["top"], o["other"], o["sub"]
attempt("remove nothing", lambda: top.remove(), top)
attempt("remove empty list", lambda: top.remove([]), top)
attempt("remove one", lambda: top.remove(o["s1"]), top)
attempt("remove list", lambda: top.remove([o["d1"], o["sub_s"]]), top, sub)
o = build()
top, other, sub = o["top"], o["other"], o["sub"]
attempt("remove tuple", lambda: top.remove((o["d1"], o["sub"])), top, sub)
attempt("remove two lists", lambda: top.remove([o["s1"]], [o["s1"]]), top)
attempt("remove nested list", lambda: top.remove([[o["s1"]]]), top)
attempt("remove None", lambda: top.remove(None), top)
attempt("remove bad", lambda: top.remove(o["s1"], NotAnObject()), top)
attempt("remove generator", lambda: top.remove(x for x in [o["s1"]]), top)
attempt("remove outsider", lambda: top.remove(o["s2"]), top, other)
attempt("remove outsider ignore", lambda: top.remove([o["s2"]], errors="ignore"), top, other)
attempt("remove bad errors", lambda: top.remove(o["s2"], errors="what"), top)
attempt("remove deep non recursive", lambda: top.remove(o["sub_s"], recursive=False), top, sub)
attempt("remove same twice", lambda: top.remove(o["s1"], o["s1"]), top)

# 5. constructor, parent and children setters ---------------------------------------------------
o = build()
top, other, sub = o["top"], o["other"], o["sub"]
attempt("constructor list", lambda: LoggingCollection([o["free_s"], o["free_d"]], style_label="new"))
attempt("constructor owned", lambda: LoggingCollection(o["s1"], style_label="new2"), top)
attempt("constructor override", lambda: LoggingCollection(o["s1"], override_parent=True, style_label="new3"), top)
attempt("constructor bad", lambda: LoggingCollection(1, 2))
attempt("parent = other", lambda: setattr(o["d1"], "parent", other), top, other)
attempt("parent = None", lambda: setattr(o["d1"], "parent", None), top, other)
attempt("parent = bad", lambda: setattr(o["sub"], "parent", [other]), top, other)
attempt("children = list", lambda: setattr(top, "children", [o["m1"], o["free_c"]]), top, other)
attempt("children = with bad", lambda: setattr(top, "children", [o["s2"], 3]), top, other)
attempt("children = single object", lambda: setattr(other, "children", o["s2"]), other)

# 6. copies of tree members ---------------------------------------------------------------------
o = build()
top, other, sub = o["top"], o["other"], o["sub"]
attempt("copy child", lambda: o["s1"].copy(), top)
attempt("copy child parent=top", lambda: o["s1"].copy(parent=top), top)
attempt("copy child parent=other", lambda: o["s1"].copy(parent=other), top, other)
attempt("copy sub", lambda: sub.copy(), top, sub)
attempt("copy sub parent=other", lambda: sub.copy(parent=other, style_label="subc"), top, other, sub)
attempt("copy top children=", lambda: top.copy(children=[o["free_s"], o["free_d"]]), top)
attempt("copy top children= owned", lambda: top.copy(children=[o["s2"]]), top, other)
attempt("copy top children= bad", lambda: top.copy(children=[o["m1"], "x"], parent=other), top, other)
tc = top.copy(style_label="tc")
attempt("copy of copy add", lambda: tc.add(o["free_c"], override_parent=True), tc, top)
attempt("copy remove deep", lambda: tc.remove(tc.children[2].children[0]), tc, top, sub)
print("independent", [a is b for a, b in zip(tc.children, top.children)], labels(top.children_all), labels(tc.children_all))
print("field", r(magpy.getB(top.sources_all, (0.3, 0.2, 0.1))), r(magpy.getB(tc.sources_all, (0.3, 0.2, 0.1))))
