import os, sys; sys.path.insert(0, os.getcwd())
# Deterministic digest of the Collection transform machinery (C10).
# Output must be identical with and without the refactoring patch.
import hashlib
import warnings

import numpy as np
from scipy.spatial.transform import Rotation as R

import magpylib as magpy
from magpylib._src.obj_classes import class_BaseGeo as bg
from magpylib._src.obj_classes import class_BaseTransform as bt

warnings.simplefilter("ignore")
np.set_printoptions(precision=9, suppress=True, linewidth=200)

LINES = []


def emit(tag, *vals):
    parts = [tag]
    for v in vals:
        if isinstance(v, R):
            v = v.as_quat()
        if isinstance(v, np.ndarray):
            # exact bytes (bitwise equality expected) + rounded view for readability
            h = hashlib.sha1(np.ascontiguousarray(v).tobytes()).hexdigest()[:12]
            parts.append(f"{v.shape}{v.dtype}#{h}:{np.round(v, 9).tolist()}")
        else:
            parts.append(repr(v))
    LINES.append(" | ".join(parts))


def state(tag, *objs):
    for i, o in enumerate(objs):
        emit(f"{tag}[{i}]", o._position, o._orientation.as_quat())


def attempt(tag, fn):
    try:
        out = fn()
        LINES.append(f"{tag} -> ok {type(out).__name__}")
    except BaseException as err:  # pylint: disable=broad-except
        LINES.append(f"{tag} -> {type(err).__name__}: {str(err)[:160]!r}")


def tree(pathlen=1):
    """nested collection tree: top(c_in(cube, sens2), sphere, sens)"""
    cube = magpy.magnet.Cuboid(
        polarization=(0.1, 0.2, 0.3), dimension=(1, 2, 3), position=(1, 2, 3)
    )
    sph = magpy.magnet.Sphere(
        polarization=(0.3, 0, 0.1), diameter=1.5, position=(-2, 0.5, 1)
    )
    sens = magpy.Sensor(position=(0.3, -0.2, 4), pixel=[(0, 0, 0), (0.1, 0.2, 0.3)])
    sens2 = magpy.Sensor(position=(3, 3, -1), pixel=[(0, 0, 0.1), (0.2, 0, 0)])
    sens.rotate_from_angax(33, (1, 2, 3))
    cube.rotate_from_euler((10, 20, 30), "xyz")
    c_in = magpy.Collection(cube, sens2, position=(0.5, 0.5, 0.5))
    c_in.rotate_from_rotvec((5, 10, 15))
    top = magpy.Collection(c_in, sph, sens, position=(-1, 1, 0.25))
    if pathlen > 1:
        top.move(np.linspace((0, 0, 0), (1, 2, 3), pathlen)[1:], start=1)
    return top, c_in, cube, sph, sens, sens2


def allobjs(t):
    return t


# ---------------------------------------------------------------- module helpers
for start in ["auto", 0, 1, 3, 7, -1, -3, -7, np.int64(2), np.int64(-9)]:
    for scalar in (True, False):
        for lenop, lenip in [(1, 1), (4, 1), (4, 3), (2, 6)]:
            pad, st = bt.path_padding_param(scalar, lenop, lenip, start)
            emit("ppp", start, scalar, lenop, lenip, pad, type(pad).__name__, st)

s0 = magpy.Sensor(position=[(1, 2, 3), (2, 3, 4), (3, 4, 5)])
for inp, start in [
    (np.array([1.0, 1, 1]), "auto"),
    (np.array([[1.0, 1, 1]] * 2), "auto"),
    (np.array([[1.0, 1, 1]] * 2), 1),
    (np.array([[1.0, 1, 1]] * 5), -5),
    (np.array([1.0, 1, 1]), -6),
    (np.array([0.0, 0, 0, 1]), 2),
]:
    pp, op, st, en, padded = bt.path_padding(inp, start, s0)
    emit("pp", start, pp, op, st, en, padded)

p1 = np.arange(12.0).reshape(4, 3)
for p2 in [np.arange(6.0).reshape(2, 3), np.arange(18.0).reshape(6, 3), p1 + 1]:
    out = bg.pad_slice_path(p1, p2)
    emit("psp", out, out is p2, np.shares_memory(out, p2))

# ---------------------------------------------------------------- move on collections
for pathlen in (1, 4):
    for disp, start in [
        ((1, 2, 3), "auto"),
        ((1, 2, 3), 2),
        ((1, 2, 3), -2),
        ([(1, 2, 3), (2, 3, 4)], "auto"),
        ([(1, 2, 3), (2, 3, 4), (0, 0, 1)], 1),
        ([(1, 2, 3), (2, 3, 4), (0, 0, 1)], -6),
        (np.array([(0.5, 0, 0)] * 3), np.int64(3)),
    ]:
        t = tree(pathlen)
        t[0].move(disp, start=start)
        state(f"move top L{pathlen} {start}", *t)
        t = tree(pathlen)
        t[1].move(disp, start=start)
        state(f"move inner L{pathlen} {start}", *t)
        t = tree(pathlen)
        t[2].move(disp, start=start)
        state(f"move child L{pathlen} {start}", *t)

# ---------------------------------------------------------------- rotate on collections
ROTS = [
    ("rotate", lambda o, a, s: o.rotate(R.from_rotvec((0.2, -0.1, 0.4)), anchor=a, start=s)),
    ("rotateN", lambda o, a, s: o.rotate(None, anchor=a, start=s)),
    (
        "rotateV",
        lambda o, a, s: o.rotate(
            R.from_rotvec([(0.2, -0.1, 0.4), (0.1, 0.1, 0.1), (0, 0, 1)]), anchor=a, start=s
        ),
    ),
    ("angax", lambda o, a, s: o.rotate_from_angax(37, "y", anchor=a, start=s)),
    ("angaxV", lambda o, a, s: o.rotate_from_angax([10, 20, 30, 40], (1, 1, 0), anchor=a, start=s)),
    ("angaxR", lambda o, a, s: o.rotate_from_angax(0.3, (0, 2, 1), anchor=a, start=s, degrees=False)),
    ("angaxI", lambda o, a, s: o.rotate_from_angax(np.int64(45), [0, 0, 1], anchor=a, start=s)),
    ("rotvec", lambda o, a, s: o.rotate_from_rotvec([(10, 20, 30), (5, 5, 5)], anchor=a, start=s)),
    ("euler", lambda o, a, s: o.rotate_from_euler((15, 25), "zx", anchor=a, start=s)),
    ("matrix", lambda o, a, s: o.rotate_from_matrix([(0, -1, 0), (1, 0, 0), (0, 0, 1)], anchor=a, start=s)),
    ("mrp", lambda o, a, s: o.rotate_from_mrp((0.1, 0.2, 0.3), anchor=a, start=s)),
    ("quat", lambda o, a, s: o.rotate_from_quat([(0, 0, 1, 1), (1, 0, 0, 1)], anchor=a, start=s)),
]
ANCHORS = [
    None,
    0,
    (1, -2, 0.5),
    [(1, 0, 0), (0, 1, 0)],
    [(1, 0, 0), (0, 1, 0), (0, 0, 1), (1, 1, 1), (2, 2, 2)],
]
STARTS = ["auto", 0, 2, -1, -7, 5]
for pathlen in (1, 4):
    for name, op in ROTS:
        for anc in ANCHORS:
            for st in STARTS:
                for target in (0, 1, 2):
                    t = tree(pathlen)
                    op(t[target], anc, st)
                    h = hashlib.sha1()
                    for o in t:
                        h.update(np.ascontiguousarray(o._position).tobytes())
                        h.update(np.ascontiguousarray(o._orientation.as_quat()).tobytes())
                    LINES.append(
                        f"rot {name} L{pathlen} a={anc!r} s={st!r} t={target} "
                        f"lens={[len(o._position) for o in t]} #{h.hexdigest()[:16]}"
                    )
# a few in full
t = tree(4)
t[0].rotate_from_angax([10, 20, 30], "z", start=2)
state("full angax top", *t)
t = tree(4)
t[1].rotate_from_angax([10, 20, 30], "z", anchor=None, start=-6)
state("full angax inner", *t)
t = tree(1)
t[0].rotate_from_rotvec([(0, 0, 10), (0, 20, 0)], anchor=[(1, 1, 1)] * 4, start=1)
state("full rotvec top", *t)

# ---------------------------------------------------------------- setters / reset_path
for pathlen in (1, 4):
    for target in (0, 1, 2):
        t = tree(pathlen)
        t[target].position = (7, 8, 9)
        state(f"pos= scalar L{pathlen} t{target}", *t)
        t = tree(pathlen)
        t[target].position = [(7, 8, 9), (1, 1, 1)]
        state(f"pos= short L{pathlen} t{target}", *t)
        t = tree(pathlen)
        t[target].position = np.arange(18.0).reshape(6, 3)
        state(f"pos= long L{pathlen} t{target}", *t)
        t = tree(pathlen)
        t[target].orientation = R.from_rotvec((0.3, 0.2, 0.1))
        state(f"ori= scalar L{pathlen} t{target}", *t)
        t = tree(pathlen)
        t[target].orientation = R.from_rotvec([(0.3, 0.2, 0.1), (0, 0, 1)])
        state(f"ori= short L{pathlen} t{target}", *t)
        t = tree(pathlen)
        t[target].orientation = R.from_rotvec([(0.3, 0.2, 0.1)] * 6)
        state(f"ori= long L{pathlen} t{target}", *t)
        t = tree(pathlen)
        t[target].orientation = None
        state(f"ori= None L{pathlen} t{target}", *t)
        t = tree(pathlen)
        t[target].reset_path()
        state(f"reset L{pathlen} t{target}", *t)

# sequences + field invariance seen by own sensor
t = tree(3)
top = t[0]
B0 = top.getB()
top.move((1, 2, 3)).rotate_from_angax(40, (1, 2, 3), anchor=(1, 0, 0))
top.position = [(0, 0, 1), (0, 1, 0), (1, 0, 0)]
top.orientation = R.from_rotvec([(0.1, 0, 0), (0, 0.2, 0), (0, 0, 0.3)])
t[1].rotate_from_euler(12, "y").move((0.1, 0.1, 0.1))
state("seq", *t)
emit("seq B", top.getB())
t2 = tree(3)
B0 = t2[0].getB()
t2[0].move((1, 2, 3)).rotate_from_angax(40, (1, 2, 3), anchor=(1, 0, 0))
t2[0].position = [(0, 0, 1), (0, 1, 0), (1, 0, 0)]
t2[0].orientation = R.from_rotvec([(0.1, 0, 0), (0, 0.2, 0), (0, 0, 0.3)])
emit("seq invariance", bool(np.allclose(B0, t2[0].getB(), rtol=1e-10, atol=1e-14)))

# aliasing: anchor slice of parent path must not be modified, returns self
t = tree(2)
ppos = t[0]._position
pid = id(ppos)
ret = t[0].rotate_from_angax(10, "z")
emit("alias", ret is t[0], id(t[0]._position) == pid, t[0]._position)
ret = t[0].move((1, 1, 1))
emit("alias2", ret is t[0], id(t[0]._position) == pid)
user_anchor = np.array([(1.0, 2, 3), (4, 5, 6)])
user_disp = np.array([(1.0, 2, 3), (4, 5, 6)])
t[0].rotate_from_angax([10, 20, 30], "x", anchor=user_anchor)
t[0].move(user_disp)
emit("user inputs untouched", user_anchor, user_disp)

# ---------------------------------------------------------------- error paths
def fresh():
    return tree(2)[0]


attempt("err move str", lambda: fresh().move("abc"))
attempt("err move shape", lambda: fresh().move((1, 2)))
attempt("err move 3d", lambda: fresh().move(np.zeros((2, 2, 3))))
attempt("err move start", lambda: fresh().move((1, 2, 3), start=1.5))
attempt("err move start str", lambda: fresh().move((1, 2, 3), start="x"))
attempt("err rotate type", lambda: fresh().rotate((1, 2, 3)))
attempt("err rotate anchor", lambda: fresh().rotate(None, anchor=(1, 2)))
attempt("err rotate anchor1", lambda: fresh().rotate(None, anchor=1))
attempt("err rotate start", lambda: fresh().rotate(None, start=None))
attempt("err angax angle", lambda: fresh().rotate_from_angax("a", "z"))
attempt("err angax angle2d", lambda: fresh().rotate_from_angax([[1, 2]], "z"))
attempt("err angax axis", lambda: fresh().rotate_from_angax(10, "w"))
attempt("err angax axis0", lambda: fresh().rotate_from_angax(10, (0, 0, 0)))
attempt("err angax axis shape", lambda: fresh().rotate_from_angax(10, (0, 1)))
attempt("err angax start", lambda: fresh().rotate_from_angax(10, "z", start=0.5))
attempt("err angax degrees", lambda: fresh().rotate_from_angax(10, "z", degrees=1))
attempt("err angax anchor", lambda: fresh().rotate_from_angax(10, "z", anchor="a"))
attempt(
    "err anchor/rot mismatch",
    lambda: fresh().rotate(R.from_rotvec([(0, 0, 1)] * 3), anchor=[(0, 0, 0)] * 2),
)


def _setpos(v):
    f = fresh()
    f.position = v


def _setori(v):
    f = fresh()
    f.orientation = v


attempt("err pos=", lambda: _setpos((1, 2)))
attempt("err pos= str", lambda: _setpos("a"))
attempt("err ori=", lambda: _setori((1, 2, 3)))
# state after a rejected operation is unchanged
f = tree(2)
attempt("err keep", lambda: f[0].rotate_from_angax(10, "z", anchor=(1, 2)))
state("after rejected", *f)
attempt("err keep2", lambda: f[0].move((1, 2, 3), start=2.0))
state("after rejected2", *f)



# ---------------------------------------------------------------- twin4-1: setters with many children / unequal lengths
import re


def wide(nlens=(1, 2, 3, 5), plen=3):
    """collection with several children of different path lengths + a nested collection"""
    kids = []
    for i, n in enumerate(nlens):
        s = magpy.Sensor(position=np.linspace((i, 0, 1), (i, 2, -1), n))
        s.rotate_from_angax(np.linspace(5, 40, n), (1, i, 2), start=0)
        kids.append(s)
    g1 = magpy.magnet.Sphere(polarization=(0, 0, 1), diameter=1, position=(0.1, 0.2, 0.3))
    g2 = magpy.Sensor(position=[(1, 1, 1), (2, 2, 2)])
    inner = magpy.Collection(g1, g2, position=(0, 0, 2))
    inner.rotate_from_angax(25, "x", anchor=None)
    col = magpy.Collection(*kids, inner, position=np.linspace((0, 0, 0), (1, 1, 1), plen))
    col.rotate_from_angax(np.linspace(10, 30, plen), "z", start=0, anchor=None)
    return [col, *kids, inner, g1, g2]


NEW_POS = {
    "scalar": (3, 2, 1),
    "one": [(3, 2, 1)],
    "two": [(3, 2, 1), (0, 1, 0)],
    "same3": np.arange(9.0).reshape(3, 3),
    "long7": np.arange(21.0).reshape(7, 3) / 3,
    "int": np.arange(12).reshape(4, 3),
}
NEW_ORI = {
    "None": None,
    "single": R.from_rotvec((0.1, -0.2, 0.3)),
    "one": R.from_rotvec([(0.1, -0.2, 0.3)]),
    "two": R.from_rotvec([(0.1, -0.2, 0.3), (0.5, 0, 0)]),
    "same3": R.from_rotvec(np.arange(9.0).reshape(3, 3) / 10),
    "long7": R.from_rotvec(np.arange(21.0).reshape(7, 3) / 25),
}
for plen in (1, 3, 4):
    for pname, pval in NEW_POS.items():
        for target in (0, 5):
            w = wide(plen=plen)
            w[target].position = pval
            state(f"w pos= {pname} L{plen} t{target}", *w)
    for oname, oval in NEW_ORI.items():
        for target in (0, 5):
            w = wide(plen=plen)
            w[target].orientation = oval
            state(f"w ori= {oname} L{plen} t{target}", *w)
    w = wide(plen=plen)
    w[0].reset_path()
    state(f"w reset L{plen}", *w)
    w = wide(plen=plen)
    w[5].reset_path()
    state(f"w reset inner L{plen}", *w)

# repeated assignments, relative pose check in the collection frame
w = wide()
col = w[0]


def rel(col, objs):
    out = []
    n = len(col._position)
    for o in objs:
        if len(o._position) != n:
            out.append(None)
            continue
        rinv = col._orientation.inv()
        out.append(np.round(rinv.apply(o._position - col._position), 9).tolist())
    return out


col.position = np.arange(15.0).reshape(5, 3)
r0 = rel(col, w[1:])
col.orientation = R.from_rotvec(np.arange(15.0).reshape(5, 3) / 11)
col.position = np.arange(15.0).reshape(5, 3)[::-1]
col.orientation = None
r1 = rel(col, w[1:])
LINES.append(f"w rel same {r0 == r1}")
state("w seq", *w)
emit("w seq B", col.getB())

# the assigned objects are not aliased / modified
p_in = np.arange(9.0).reshape(3, 3)
r_in = R.from_rotvec(np.arange(9.0).reshape(3, 3) / 7)
w = wide()
w[0].position = p_in
w[0].orientation = r_in
emit("w alias", p_in, r_in.as_quat(), bool(np.shares_memory(p_in, w[0]._position)))
old = w[0]._position
w[0].position = (1, 1, 1)
emit("w old pos untouched", old)


# childless objects and objects whose `children` is a tuple / empty tuple
class TupleKids(magpy.Sensor):
    """user class with a tuple of children"""

    kids = ()

    @property
    def children(self):
        return self.kids


for kids_n in (0, 1, 3):
    tk = TupleKids(position=[(1, 2, 3), (3, 2, 1)])
    tk.kids = tuple(magpy.Sensor(position=(i, i, i)) for i in range(kids_n))
    tk.position = [(0, 0, 1), (0, 1, 0), (1, 0, 0)]
    state(f"tuplekids pos n={kids_n}", tk, *tk.kids)
    tk.orientation = R.from_rotvec([(0, 0, 0.5), (0, 0.5, 0)])
    state(f"tuplekids ori n={kids_n}", tk, *tk.kids)
    tk.reset_path()
    state(f"tuplekids reset n={kids_n}", tk, *tk.kids)

for mk in (
    lambda: magpy.Sensor(position=[(1, 2, 3)] * 3),
    lambda: magpy.Collection(position=[(1, 2, 3)] * 3),
    lambda: magpy.magnet.Cuboid(polarization=(1, 0, 0), dimension=(1, 1, 1)),
):
    o = mk()
    o.position = [(1, 1, 1), (2, 2, 2)]
    state("leaf pos", o)
    o.orientation = R.from_rotvec([(0.1, 0, 0)] * 4)
    state("leaf ori", o)
    o.position = (5, 5, 5)
    state("leaf pos scalar", o)


# error paths: rejected assignments leave the tree untouched, empty paths
def set_attr(o, name, v):
    setattr(o, name, v)


for bad in [(1, 2), "a", None, np.zeros((2, 2, 3)), [], 5, np.zeros((0, 3))]:
    for target in (0, 1, 5):
        w = wide()
        attempt(f"w err pos {bad!r} t{target}", lambda: set_attr(w[target], "position", bad))
        state(f"w after err pos {bad!r} t{target}", *w)
        # and the tree can still be used afterwards
        attempt(f"w err pos again {bad!r} t{target}", lambda: set_attr(w[target], "position", (1, 2, 3)))
        state(f"w after err pos again {bad!r} t{target}", *w)
for bad in [(0, 0, 0, 1), "z", 0, [R.identity()], R.from_quat(np.zeros((0, 4)))] if hasattr(R, "from_quat") else []:
    for target in (0, 1, 5):
        w = wide()
        attempt(f"w err ori {type(bad).__name__} t{target}", lambda: set_attr(w[target], "orientation", bad))
        state(f"w after err ori {type(bad).__name__} t{target}", *w)
        attempt(f"w err ori again {type(bad).__name__} t{target}", lambda: set_attr(w[target], "orientation", None))
        state(f"w after err ori again {type(bad).__name__} t{target}", *w)

# ---------------------------------------------------------------- twins5: what the setters call, in which order, with which arguments
CALLS = []
_o_vec, _o_psp, _o_ori = bg.check_format_input_vector, bg.pad_slice_path, bg.check_format_input_orientation


def _l_vec(*args, **kwargs):
    CALLS.append(("vec", len(args), sorted((k, repr(v)) for k, v in kwargs.items())))
    return _o_vec(*args, **kwargs)


def _l_psp(path1, path2):
    out = _o_psp(path1, path2)
    CALLS.append(("psp", np.shape(path1), np.shape(path2), out is path2))
    return out


def _l_ori(*args, **kwargs):
    CALLS.append(("ori", len(args), sorted(kwargs.items())))
    return _o_ori(*args, **kwargs)


class CountKids(magpy.Collection):
    """counts how often the setters ask for the children"""

    reads = 0

    @property
    def children(self):
        type(self).reads += 1
        return self._children


class NoKids(magpy.Sensor):
    """`children` raises AttributeError from inside a property"""

    @property
    def children(self):
        CALLS.append(("nokids asked",))
        raise AttributeError("no children here")


class BrokenKids(magpy.Sensor):
    """`children` raises something else"""

    @property
    def children(self):
        raise KeyError("broken")


bg.check_format_input_vector, bg.pad_slice_path, bg.check_format_input_orientation = _l_vec, _l_psp, _l_ori
try:
    for name, mk in [
        ("sensor", lambda: magpy.Sensor(position=[(1, 2, 3), (2, 3, 4)])),
        ("count", lambda: CountKids(magpy.Sensor(position=(1, 0, 0)), magpy.Collection(magpy.Sensor(position=(0, 0, 1)), position=(0, 1, 0)), position=[(1, 2, 3), (2, 3, 4)])),
        ("nokids", lambda: NoKids(position=[(1, 2, 3), (2, 3, 4)])),
        ("broken", lambda: BrokenKids(position=[(1, 2, 3), (2, 3, 4)])),
    ]:
        for opname, op in [
            ("pos", lambda o: setattr(o, "position", [(0, 0, 1), (0, 1, 0), (1, 0, 0)])),
            ("pos1", lambda o: setattr(o, "position", (4, 5, 6))),
            ("ori", lambda o: setattr(o, "orientation", R.from_rotvec([(0, 0, 0.5), (0, 0.5, 0), (0.5, 0, 0)]))),
            ("oriN", lambda o: setattr(o, "orientation", None)),
            ("reset", lambda o: o.reset_path()),
            ("bad pos", lambda o: setattr(o, "position", (1, 2))),
            ("bad ori", lambda o: setattr(o, "orientation", "x")),
        ]:
            o = mk()
            CALLS.clear()
            CountKids.reads = 0
            attempt(f"calls {name} {opname}", lambda: op(o))
            LINES.append(f"calls {name} {opname} reads={CountKids.reads} {CALLS}")
            state(f"calls {name} {opname}", o, *getattr(o, "_children", []))
    CALLS.clear()
    magpy.Sensor(position=[(1, 2, 3)], orientation=R.from_rotvec([(0, 0, 1)] * 3))
    attempt("ctor bad", lambda: magpy.Sensor(position=(1, 2)))
    LINES.append(f"calls ctor {CALLS}")
finally:
    bg.check_format_input_vector, bg.pad_slice_path, bg.check_format_input_orientation = _o_vec, _o_psp, _o_ori

# constructor inputs (shares the position format description with the setter)
for pos in [(1, 2, 3), [(1, 2, 3)], np.arange(12).reshape(4, 3), [[1, 2, 3], [4, 5, 6]]]:
    for ori in [None, R.from_rotvec((0, 0, 1)), R.from_rotvec([(0, 0, 1), (0, 1, 0), (1, 0, 0)])]:
        s = magpy.Sensor(position=pos, orientation=ori)
        c = magpy.Collection(s, position=pos, orientation=ori)
        state(f"ctor {np.shape(pos)} {None if ori is None else len(ori.as_quat().reshape(-1, 4))}", s, c)
for bad in [(1, 2), "a", None, np.zeros((2, 2, 3)), [], 5]:
    attempt(f"ctor err {bad!r}", lambda: magpy.Sensor(position=bad))
    attempt(f"ctor col err {bad!r}", lambda: magpy.Collection(position=bad))
LINES.append(f"module table untouched {sorted((k, repr(v)) for k, v in getattr(bg, '_POSITION_INPUT_FORMAT', {}).items()) in ([], [('dims', '(1, 2)'), ('reshape', '(-1, 3)'), ('shape_m1', '3'), ('sig_name', repr('position')), ('sig_type', repr('array_like (list, tuple, ndarray) with shape (3,) or (n,3)'))])}")

LINES[:] = [re.sub(r"id=\d+", "id=#", line) for line in LINES]
digest = hashlib.sha256("\n".join(LINES).encode()).hexdigest()
for line in LINES:
    print(line)
print("N_LINES", len(LINES))
print("DIGEST", digest)
